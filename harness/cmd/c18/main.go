// C18 runner: key shares are fresh, correctly sized, and backed by the matching private key.
//
// Per spec class (38 parrots, reproducible randomized fingerprints, fingerprinted copies of their own
// output, custom specs incl. hybrid-only / five shares / preset data, QUIC specs):
//   - build the ClientHello under a recording deterministic Config.Rand and compare with Model/KeyShare.v:
//     wire shares (group, length), session id length, which private keys the UConn retained (CShape), and
//     the order/size of the reads from Config.Rand with the reads identified by content (CReads);
//   - Go-side oracle from the property text: size of every non-GREASE share, the retained private key of
//     every generated share has the public half that is on the wire, QUIC hellos carry an empty session
//     id, randoms / session ids / shares pairwise distinct over many connections (default crypto/rand);
//   - real handshakes over loopback TCP with the server's CurvePreferences forced to EACH offered share:
//     the handshake must complete and echo application data (oracle), and completion is compared with the
//     model's key selection (CSelect).
package main

import (
	"bytes"
	"context"
	"crypto/ecdh"
	"crypto/mlkem"
	"encoding/binary"
	"fmt"
	"io"
	"os"
	"reflect"
	"sort"
	"sync"
	"time"

	tls "github.com/refraction-networking/utls"
	"verif/harness/hs"
	"verif/harness/vh"
)

func main() { vh.Main(map[string]vh.Suite{"C18": {Corr: "Corr.C18Corr", Run: run}}) }

// ---- recording deterministic Config.Rand ----
type read struct {
	off  int
	data []byte
}
type recRand struct {
	mu   sync.Mutex
	x    uint64
	off  int
	log  []read
	stop bool // stop logging (after the hello is built)
}

func newRecRand(seed uint64) *recRand { return &recRand{x: seed*0x9e3779b97f4a7c15 + 0x1234567} }
func (r *recRand) Read(b []byte) (int, error) {
	r.mu.Lock()
	defer r.mu.Unlock()
	for i := range b {
		r.x ^= r.x << 13
		r.x ^= r.x >> 7
		r.x ^= r.x << 17
		b[i] = byte(r.x >> 32)
	}
	if !r.stop {
		r.log = append(r.log, read{r.off, append([]byte(nil), b...)})
	}
	r.off += len(b)
	return len(b), nil
}

// ---- key_share entries of a raw ClientHello ----
type entry struct {
	group uint16
	data  []byte
}

func keyShareEntries(msg []byte) []entry {
	// handshake header 4, version 2, random 32, sid, suites, compression, extensions
	if len(msg) < 4+2+32+1 {
		return nil
	}
	p := msg[4+2+32:]
	skip8 := func() bool {
		if len(p) < 1 || len(p) < 1+int(p[0]) {
			return false
		}
		p = p[1+int(p[0]):]
		return true
	}
	skip16 := func() bool {
		if len(p) < 2 {
			return false
		}
		n := int(binary.BigEndian.Uint16(p))
		if len(p) < 2+n {
			return false
		}
		p = p[2+n:]
		return true
	}
	if !skip8() || !skip16() || !skip8() || len(p) < 2 {
		return nil
	}
	p = p[2:]
	for len(p) >= 4 {
		t := binary.BigEndian.Uint16(p)
		n := int(binary.BigEndian.Uint16(p[2:]))
		if len(p) < 4+n {
			return nil
		}
		body := p[4 : 4+n]
		p = p[4+n:]
		if t != 51 || len(body) < 2 {
			continue
		}
		body = body[2:]
		var out []entry
		for len(body) >= 4 {
			g := binary.BigEndian.Uint16(body)
			l := int(binary.BigEndian.Uint16(body[2:]))
			if len(body) < 4+l {
				return out
			}
			out = append(out, entry{g, append([]byte(nil), body[4:4+l]...)})
			body = body[4+l:]
		}
		return out
	}
	return nil
}

const (
	gX25519 = 29
	gP256   = 23
	gP384   = 24
	gP521   = 25
	gMLKEM  = 4588
	gKyber  = 25497
)

func requiredSize(g uint16) int {
	switch g {
	case gX25519:
		return 32
	case gP256:
		return 65
	case gP384:
		return 97
	case gP521:
		return 133
	case gMLKEM, gKyber:
		return 1216
	}
	return -1
}
func isHybrid(g uint16) bool { return g == gMLKEM || g == gKyber }
func curveOf(g uint16) ecdh.Curve {
	switch g {
	case gX25519:
		return ecdh.X25519()
	case gP256:
		return ecdh.P256()
	case gP384:
		return ecdh.P384()
	case gP521:
		return ecdh.P521()
	}
	return nil
}

// ---- a spec class ----
type specKS struct {
	group uint16
	dlen  int
}

func (k specKS) MarshalJSON() ([]byte, error) {
	return []byte(fmt.Sprintf(`{"group":%d,"data_len":%d}`, k.group, k.dlen)), nil
}

type class struct {
	name string
	kind string // parrot | randomized | fingerprinted | custom | quic
	id   tls.ClientHelloID
	mk   func() *tls.ClientHelloSpec // nil: the id's own preset
	quic bool
	// callerData: the spec's author put key_exchange bytes of his own into a non-GREASE share on purpose (one custom
	// class). For every other class - parrots, randomized, fingerprinted copies - a non-GREASE share on the wire must be
	// generated per connection whatever the spec object carries.
	callerData bool
	capture    []entry // fingerprinted classes: the key_share entries of the captured hello
	// prep: how the caller prepares the UConn instead of one ApplyPreset(mk()): ApplyPreset of other / the same spec
	// first (the caller replaces the spec before the handshake). The last spec applied is mk().
	prep func(*tls.UConn) error
	// before: the specs applied before mk() (prep = applySeq(before..., mk)); the build under the recording Config.Rand
	// notes where the reads of the last ApplyPreset start
	before []func() *tls.ClientHelloSpec
}

// applySeq: ApplyPreset of each spec in turn (a fresh spec object each time)
func applySeq(mks ...func() *tls.ClientHelloSpec) func(*tls.UConn) error {
	return func(u *tls.UConn) error {
		for _, mk := range mks {
			if err := u.ApplyPreset(mk()); err != nil {
				return err
			}
		}
		return nil
	}
}

func presetOf(id tls.ClientHelloID) func() *tls.ClientHelloSpec {
	return func() *tls.ClientHelloSpec {
		sp, _ := tls.UTLSIdToSpec(id)
		return &sp
	}
}

func specShares(sp *tls.ClientHelloSpec) ([]specKS, bool) {
	for _, e := range sp.Extensions {
		if ks, ok := e.(*tls.KeyShareExtension); ok {
			var out []specKS
			for _, k := range ks.KeyShares {
				out = append(out, specKS{uint16(k.Group), len(k.Data)})
			}
			return out, true
		}
	}
	return nil, false
}

type built struct {
	cl      class
	spec    []specKS
	raw     []byte
	wire    *hs.WireHello
	entries []entry
	keys    *tls.KeySharePrivateKeys
	reads   []read
	err     error
	// readsFrom: index in the read log where the draws of the last ApplyPreset begin
	readsFrom int
}

// extraKeys reads KeySharePrivateKeys.ExtraEcdhe by reflection (the field exists only in the repaired tree).
func extraKeys(ks *tls.KeySharePrivateKeys) (keys []*ecdh.PrivateKey, fixed bool) {
	f := reflect.ValueOf(ks).Elem().FieldByName("ExtraEcdhe")
	if !f.IsValid() {
		return nil, false
	}
	keys, _ = f.Interface().([]*ecdh.PrivateKey)
	return keys, true
}

func treeFixed() bool {
	_, ok := reflect.TypeOf(tls.KeySharePrivateKeys{}).FieldByName("ExtraEcdhe")
	return ok
}

func build(p *hs.PKI, cl class, rnd io.Reader) *built {
	b := &built{cl: cl}
	cfg := p.ClientConfig()
	cfg.Rand = rnd
	var sp *tls.ClientHelloSpec
	if cl.mk != nil {
		sp = cl.mk()
	}
	if cl.quic {
		cfg.MinVersion = tls.VersionTLS13
		cfg.NextProtos = []string{"h3"}
		q := tls.UQUICClient(&tls.QUICConfig{TLSConfig: cfg}, cl.id)
		if err := q.ApplyPreset(sp); err != nil {
			b.err = err
			return b
		}
		ctx, cancel := context.WithTimeout(context.Background(), 5*time.Second)
		defer cancel()
		if err := q.Start(ctx); err != nil {
			b.err = err
			return b
		}
		for {
			ev := q.NextEvent()
			if ev.Kind == tls.QUICNoEvent {
				break
			}
			if ev.Kind == tls.QUICWriteData && ev.Level == tls.QUICEncryptionLevelInitial && b.raw == nil {
				b.raw = append([]byte(nil), ev.Data...)
			}
		}
		q.Close()
		if b.raw == nil {
			b.err = fmt.Errorf("no Initial CRYPTO data")
			return b
		}
		b.spec, _ = specShares(cl.mk())
	} else {
		uc := tls.UClient(nil, cfg, cl.id)
		if cl.prep != nil {
			if err := applySeq(cl.before...)(uc); err != nil {
				b.err = err
				return b
			}
			if rr, ok := rnd.(*recRand); ok {
				rr.mu.Lock()
				b.readsFrom = len(rr.log) // the earlier ApplyPreset calls made their own draws
				rr.mu.Unlock()
			}
			if err := uc.ApplyPreset(sp); err != nil {
				b.err = err
				return b
			}
		} else if sp != nil {
			if err := uc.ApplyPreset(sp); err != nil {
				b.err = err
				return b
			}
		}
		if err := uc.BuildHandshakeState(); err != nil {
			b.err = err
			return b
		}
		b.raw = append([]byte(nil), uc.HandshakeState.Hello.Raw...)
		b.keys = uc.HandshakeState.State13.KeyShareKeys
		switch {
		case cl.mk != nil:
			b.spec, _ = specShares(cl.mk())
		case cl.kind == "randomized":
			// generateRandomizedSpec writes KeyShare{Group: g} without data (u_parrots.go:3105-3125)
			for _, e := range uc.Extensions {
				if ks, ok := e.(*tls.KeyShareExtension); ok {
					for _, k := range ks.KeyShares {
						b.spec = append(b.spec, specKS{uint16(k.Group), 0})
					}
				}
			}
		default:
			if s, err := tls.UTLSIdToSpec(cl.id); err == nil {
				b.spec, _ = specShares(&s)
			}
		}
	}
	if rr, ok := rnd.(*recRand); ok {
		rr.mu.Lock()
		rr.stop = true
		b.reads = rr.log[b.readsFrom:]
		rr.mu.Unlock()
	}
	w, err := hs.ParseClientHello(b.raw)
	if err != nil {
		b.err = err
		return b
	}
	b.wire = w
	b.entries = keyShareEntries(b.raw)
	return b
}

func specTerm(s []specKS) string {
	it := make([]string, len(s))
	for i, k := range s {
		it[i] = fmt.Sprintf("(%d, %d)", k.group, k.dlen)
	}
	return vh.List(it)
}

func generated(k specKS) bool { return !hs.IsGREASE(k.group) && k.dlen <= 1 }

// mustBeFresh: by the property text this wire share has to be a fresh public key backed by a retained private key.
func mustBeFresh(cl class, k specKS) bool {
	return !hs.IsGREASE(k.group) && !(cl.callerData && k.dlen > 1)
}

// twoHybrids: the spec generates more than one hybrid share (both X25519MLKEM768 and X25519Kyber768Draft00).
// KeySharePrivateKeys has one Mlkem / MlkemEcdhe slot, so the earlier one is overwritten: failures of such a
// spec are reported under their own key (a known limitation, not the second-classical-share defect).
func twoHybrids(spec []specKS) bool {
	n := 0
	for _, k := range spec {
		if generated(k) && isHybrid(k.group) {
			n++
		}
	}
	return n > 1
}

func failKey(kind, name string, group uint16, spec []specKS) string {
	if twoHybrids(spec) && isHybrid(group) {
		return "two-hybrid-shares/" + name
	}
	return fmt.Sprintf("%s/%s/%d", kind, name, group)
}

// publicOf derives the public key a generateECDHEKey call produces from the bytes it read (Go 1.24:
// crypto/ecdh x25519.go:37-48, crypto/internal/fips140/ecdh GenerateKey: key[1] ^= 0x42, P-521 mask).
func publicOf(g uint16, scalar []byte) []byte {
	c := curveOf(g)
	if c == nil {
		return nil
	}
	k := append([]byte(nil), scalar...)
	if g != gX25519 {
		if len(k) < 2 {
			return nil
		}
		k[1] ^= 0x42
		if g == gP521 {
			k[0] &= 1
		}
	}
	pk, err := c.NewPrivateKey(k)
	if err != nil {
		return nil
	}
	return pk.PublicKey().Bytes()
}

func hybridParts(g uint16, data []byte) (xpub, ek []byte) {
	if len(data) != 1216 {
		return nil, nil
	}
	if g == gMLKEM {
		return data[1184:], data[:1184]
	}
	return data[:32], data[32:]
}

// check one built hello: Go-side oracle + CShape + CReads
func examine(c *vh.Ctx, b *built, fixed bool, emitCases bool) {
	name := b.cl.name
	w := b.wire
	input := map[string]any{"class": name, "kind": b.cl.kind, "spec_key_shares": b.spec, "wire_key_shares": w.KeyShareGroups, "wire_lengths": w.KeyShareLens}
	// sizes (property text)
	for i, e := range b.entries {
		if hs.IsGREASE(e.group) {
			continue
		}
		if i < len(b.spec) && !mustBeFresh(b.cl, b.spec[i]) {
			continue // key_exchange bytes supplied by the spec's author
		}
		if want := requiredSize(e.group); want >= 0 && len(e.data) != want {
			failOnce(c, fmt.Sprintf("share-size/%s/%d", name, e.group), "a non-GREASE key share does not have the size its group requires", input, len(e.data), want)
		}
	}
	// session id / random
	if b.cl.quic {
		if len(w.SessionID) != 0 {
			failOnce(c, "quic-sid/"+name, "a QUIC ClientHello carries a non-empty legacy session id", input, len(w.SessionID), 0)
		}
	} else if len(w.SessionID) != 32 && len(w.KeyShareGroups) > 0 {
		failOnce(c, "sid-len/"+name, "a TLS 1.3 ClientHello over TCP does not carry a 32-byte legacy session id", input, len(w.SessionID), 32)
	}
	if len(w.Random) != 32 {
		failOnce(c, "random-len/"+name, "client random is not 32 bytes", input, len(w.Random), 32)
	}
	// backing: the retained private key of every generated share has the public half on the wire
	if b.keys != nil && len(b.spec) == len(b.entries) {
		extra, _ := extraKeys(b.keys)
		all := append([]*ecdh.PrivateKey{b.keys.Ecdhe}, extra...)
		for i, e := range b.entries {
			if !mustBeFresh(b.cl, b.spec[i]) {
				continue
			}
			backed := false
			if isHybrid(e.group) {
				xpub, ek := hybridParts(e.group, e.data)
				backed = b.keys.MlkemEcdhe != nil && b.keys.Mlkem != nil && bytes.Equal(b.keys.MlkemEcdhe.PublicKey().Bytes(), xpub) &&
					bytes.Equal(b.keys.Mlkem.EncapsulationKey().Bytes(), ek) && b.keys.Ecdhe != nil
			} else {
				for _, k := range all {
					if k != nil && bytes.Equal(k.PublicKey().Bytes(), e.data) {
						backed = true
					}
				}
			}
			if !backed {
				failOnce(c, failKey("share-unbacked", name, e.group, b.spec), "the client sent a key share whose private key it did not retain", input,
					map[string]any{"ecdhe": hs.CurveOfKey(b.keys.Ecdhe), "extra": len(extra), "mlkem": b.keys.Mlkem != nil}, "a retained private key with this public half")
			}
		}
	}
	// no stale keys: every retained private key is the private half of a share this hello carries (the key the client
	// ends up using for a group must be the one whose public half went out)
	if b.keys != nil && len(b.spec) == len(b.entries) {
		extra, _ := extraKeys(b.keys)
		onWire := func(pub []byte) bool {
			for _, e := range b.entries {
				if bytes.Equal(e.data, pub) {
					return true
				}
				if isHybrid(e.group) {
					if x, _ := hybridParts(e.group, e.data); bytes.Equal(x, pub) {
						return true
					}
				}
			}
			return false
		}
		for i, k := range append([]*ecdh.PrivateKey{b.keys.Ecdhe, b.keys.MlkemEcdhe}, extra...) {
			if k != nil && !onWire(k.PublicKey().Bytes()) {
				failOnce(c, "stale-key/"+name, "the UConn retains an ECDH private key whose public half is in no key share of its ClientHello", input,
					map[string]any{"slot": []string{"Ecdhe", "MlkemEcdhe", "ExtraEcdhe"}[min(i, 2)], "curve": hs.CurveOfKey(k), "extra_keys": len(extra)}, "only the keys of the shares sent")
			}
		}
		if b.keys.Mlkem != nil {
			found := false
			for _, e := range b.entries {
				if isHybrid(e.group) {
					if _, ek := hybridParts(e.group, e.data); bytes.Equal(ek, b.keys.Mlkem.EncapsulationKey().Bytes()) {
						found = true
					}
				}
			}
			if !found {
				failOnce(c, "stale-key/"+name, "the UConn retains an ML-KEM decapsulation key whose encapsulation key is in no key share of its ClientHello", input, "Mlkem", "only the keys of the shares sent")
			}
		}
	}
	if !emitCases {
		return
	}
	// ---- CShape ----
	wire := make([]string, len(b.entries))
	for i, e := range b.entries {
		wire[i] = fmt.Sprintf("(%d, %d)", e.group, len(e.data))
	}
	shape := "(mkShape 0 [] false 0)"
	if b.keys != nil {
		extra, _ := extraKeys(b.keys)
		var ec []uint16
		for _, k := range extra {
			ec = append(ec, hs.CurveOfKey(k))
		}
		shape = fmt.Sprintf("(mkShape %d %s %s %d)", hs.CurveOfKey(b.keys.Ecdhe), vh.U16s(ec), vh.Bool(b.keys.Mlkem != nil), hs.CurveOfKey(b.keys.MlkemEcdhe))
	}
	{
		sidlen := len(w.SessionID)
		if b.cl.quic {
			// the UQUICConn does not expose its KeyShareKeys: compare wire and session id only, with the model's own key shape
			c.Case("shape-quic", fmt.Sprintf("(CShapeQ %s %s %s %d)", vh.Bool(fixed), specTerm(b.spec), vh.List(wire), sidlen), "shape/"+name, true,
				map[string]any{"class": name})
		} else if len(b.spec) > 0 || len(b.entries) > 0 {
			c.Case("shape-"+b.cl.kind, fmt.Sprintf("(CShape %s false %s %s %d %s)", vh.Bool(fixed), specTerm(b.spec), vh.List(wire), sidlen, shape), "shape/"+name, len(b.entries) > 1,
				map[string]any{"class": name, "spec": b.spec, "wire": wire})
		}
	}
	// ---- CReads ----
	if b.reads != nil && (len(b.entries) > 0 || b.cl.quic) && len(b.spec) == len(b.entries) {
		var terms []string
		for _, r := range b.reads {
			tag := 0
			switch {
			case bytes.Equal(r.data, w.Random):
				tag = 1
			case len(r.data) == 32 && bytes.Equal(r.data, w.SessionID):
				tag = 2
			default:
				for i, e := range b.entries {
					if !generated(b.spec[i]) {
						continue
					}
					if isHybrid(e.group) {
						xpub, ek := hybridParts(e.group, e.data)
						if len(r.data) == 32 && bytes.Equal(publicOf(gX25519, r.data), xpub) {
							tag = 10 + i
						}
						if len(r.data) == mlkem.SeedSize {
							if dk, err := mlkem.NewDecapsulationKey768(r.data); err == nil && bytes.Equal(dk.EncapsulationKey().Bytes(), ek) {
								tag = 50 + i
							}
						}
					} else if pk := publicOf(e.group, r.data); pk != nil && bytes.Equal(pk, e.data) {
						tag = 10 + i
					}
				}
			}
			terms = append(terms, fmt.Sprintf("(%d, %d)", len(r.data), tag))
		}
		c.Case("reads-"+b.cl.kind, fmt.Sprintf("(CReads %s %s %s)", vh.Bool(b.cl.quic), specTerm(b.spec), vh.List(terms)), "reads/"+name, len(b.entries) > 1,
			map[string]any{"class": name, "reads": terms})
	}
}

// ---- custom specs ----
func customSpec(shares []tls.KeyShare, groups []tls.CurveID) func() *tls.ClientHelloSpec {
	return func() *tls.ClientHelloSpec {
		sp, _ := tls.UTLSIdToSpec(tls.HelloFirefox_120)
		for _, e := range sp.Extensions {
			if ks, ok := e.(*tls.KeyShareExtension); ok {
				ks.KeyShares = nil
				for _, k := range shares {
					ks.KeyShares = append(ks.KeyShares, tls.KeyShare{Group: k.Group, Data: append([]byte(nil), k.Data...)})
				}
			}
			if sc, ok := e.(*tls.SupportedCurvesExtension); ok {
				sc.Curves = append([]tls.CurveID(nil), groups...)
			}
		}
		return &sp
	}
}

func quicSpec(shares []tls.CurveID, grease bool) func() *tls.ClientHelloSpec {
	return func() *tls.ClientHelloSpec {
		curves := []tls.CurveID{tls.X25519, tls.CurveP256, tls.CurveP384}
		var ks []tls.KeyShare
		var exts []tls.TLSExtension
		if grease {
			exts = append(exts, &tls.UtlsGREASEExtension{})
			curves = append([]tls.CurveID{tls.GREASE_PLACEHOLDER}, curves...)
			ks = append(ks, tls.KeyShare{Group: tls.GREASE_PLACEHOLDER, Data: []byte{0}})
		}
		for _, g := range shares {
			ks = append(ks, tls.KeyShare{Group: g})
		}
		exts = append(exts, &tls.SNIExtension{}, &tls.SupportedCurvesExtension{Curves: curves}, &tls.ALPNExtension{AlpnProtocols: []string{"h3"}},
			&tls.SignatureAlgorithmsExtension{SupportedSignatureAlgorithms: []tls.SignatureScheme{tls.ECDSAWithP256AndSHA256, tls.PSSWithSHA256, tls.PKCS1WithSHA256}},
			&tls.KeyShareExtension{KeyShares: ks}, &tls.PSKKeyExchangeModesExtension{Modes: []uint8{tls.PskModeDHE}},
			&tls.SupportedVersionsExtension{Versions: []uint16{tls.VersionTLS13}},
			&tls.QUICTransportParametersExtension{TransportParameters: tls.TransportParameters{tls.InitialMaxData(1 << 20), tls.InitialSourceConnectionID([]byte{})}})
		return &tls.ClientHelloSpec{TLSVersMin: tls.VersionTLS13, TLSVersMax: tls.VersionTLS13,
			CipherSuites: []uint16{tls.TLS_AES_128_GCM_SHA256, tls.TLS_AES_256_GCM_SHA384}, CompressionMethods: []uint8{0}, Extensions: exts}
	}
}

var allGroups = []tls.CurveID{tls.X25519MLKEM768, tls.X25519, tls.CurveP256, tls.CurveP384, tls.CurveP521}

func customClasses() []class {
	ks := func(gs ...tls.CurveID) []tls.KeyShare {
		var out []tls.KeyShare
		for _, g := range gs {
			out = append(out, tls.KeyShare{Group: g})
		}
		return out
	}
	preset := bytes.Repeat([]byte{0x42}, 32)
	return []class{
		{name: "custom-mlkem-only", kind: "custom", id: tls.HelloCustom, mk: customSpec(ks(tls.X25519MLKEM768), allGroups)},
		{name: "custom-mlkem-p256", kind: "custom", id: tls.HelloCustom, mk: customSpec(ks(tls.X25519MLKEM768, tls.CurveP256), allGroups)},
		{name: "custom-five-shares", kind: "custom", id: tls.HelloCustom, mk: customSpec(ks(tls.CurveP256, tls.X25519MLKEM768, tls.X25519, tls.CurveP384, tls.CurveP521), allGroups)},
		{name: "custom-p521-p384-x25519", kind: "custom", id: tls.HelloCustom, mk: customSpec(ks(tls.CurveP521, tls.CurveP384, tls.X25519), allGroups)},
		{name: "custom-kyber-p384", kind: "custom", id: tls.HelloCustom, mk: customSpec(ks(tls.X25519Kyber768Draft00, tls.CurveP384), append([]tls.CurveID{tls.X25519Kyber768Draft00}, allGroups...))},
		{name: "custom-grease-x25519-p256", kind: "custom", id: tls.HelloCustom,
			mk: customSpec(append([]tls.KeyShare{{Group: tls.GREASE_PLACEHOLDER, Data: []byte{0}}}, ks(tls.X25519, tls.CurveP256)...), append([]tls.CurveID{tls.GREASE_PLACEHOLDER}, allGroups...))},
		{name: "custom-two-hybrids", kind: "custom", id: tls.HelloCustom,
			mk: customSpec(ks(tls.X25519MLKEM768, tls.X25519Kyber768Draft00, tls.X25519), append([]tls.CurveID{tls.X25519Kyber768Draft00}, allGroups...))},
		{name: "custom-preset-data-then-p256", kind: "custom", id: tls.HelloCustom, callerData: true,
			mk: customSpec([]tls.KeyShare{{Group: tls.X25519, Data: preset}, {Group: tls.CurveP256}}, allGroups)},
	}
}

func quicClasses() []class {
	return []class{
		{name: "quic-x25519", kind: "quic", id: tls.HelloCustom, mk: quicSpec([]tls.CurveID{tls.X25519}, false), quic: true},
		{name: "quic-grease-x25519-p256", kind: "quic", id: tls.HelloCustom, mk: quicSpec([]tls.CurveID{tls.X25519, tls.CurveP256}, true), quic: true},
		{name: "quic-p384", kind: "quic", id: tls.HelloCustom, mk: quicSpec([]tls.CurveID{tls.CurveP384}, false), quic: true},
	}
}

// fingerprinted copy of a class: Fingerprinter on the class's own ClientHello
func fingerprinted(p *hs.PKI, cl class) (class, bool) {
	b := build(p, cl, nil)
	if b.err != nil || b.raw == nil {
		return class{}, false
	}
	rec := append([]byte{0x16, 0x03, 0x01, byte(len(b.raw) >> 8), byte(len(b.raw))}, b.raw...)
	f := &tls.Fingerprinter{AllowBluntMimicry: true}
	if _, err := f.FingerprintClientHello(rec); err != nil {
		return class{}, false
	}
	return class{name: "fp-" + cl.name, kind: "fingerprinted", id: tls.HelloCustom, capture: b.entries, mk: func() *tls.ClientHelloSpec {
		sp, _ := (&tls.Fingerprinter{AllowBluntMimicry: true}).FingerprintClientHello(rec)
		return sp
	}}, true
}

// ---- handshakes with the server forced to one offered share ----
type selRun struct {
	cl    class
	idx   int
	group uint16
	res   *hs.Result
}

func implementedByServer(g uint16) bool {
	return g == gX25519 || g == gP256 || g == gP384 || g == gP521 || g == gMLKEM
}

func run(c *vh.Ctx) {
	p := hs.SharedPKI()
	fixed := treeFixed()
	c.Extra["tree_has_ExtraEcdhe"] = fixed
	quick := c.Tier == "quick"
	debug := os.Getenv("C18_DEBUG") != ""

	// ---- classes ----
	var classes []class
	for _, pr := range hs.Parrots() {
		classes = append(classes, class{name: pr.Name, kind: "parrot", id: pr.ID})
	}
	nrand := 200
	if quick {
		nrand = 16
	}
	for _, pr := range hs.RandomizedParrots(nrand, c.Seed) {
		classes = append(classes, class{name: pr.Name, kind: "randomized", id: pr.ID})
	}
	base := len(classes)
	for i := 0; i < base; i++ {
		if quick && classes[i].kind == "randomized" && i%4 != 0 {
			continue
		}
		if fc, ok := fingerprinted(p, classes[i]); ok {
			classes = append(classes, fc)
		} else {
			c.Count("fingerprint-declined")
		}
	}
	classes = append(classes, customClasses()...)
	// the caller replaces the spec before the handshake: ApplyPreset more than once on one UConn
	{
		ff, ch := presetOf(tls.HelloFirefox_120), presetOf(tls.HelloChrome_133)
		cust := map[string]func() *tls.ClientHelloSpec{}
		for _, cc := range customClasses() {
			cust[cc.name] = cc.mk
		}
		re := func(name string, last func() *tls.ClientHelloSpec, seq ...func() *tls.ClientHelloSpec) class {
			return class{name: name, kind: "represet", id: tls.HelloCustom, mk: last, before: seq, prep: applySeq(append(append([]func() *tls.ClientHelloSpec(nil), seq...), last)...)}
		}
		classes = append(classes,
			re("re-firefox120-twice", ff, ff),
			re("re-firefox120-three-times", ff, ff, ff),
			re("re-chrome133-then-firefox120", ff, ch),
			re("re-firefox120-then-chrome133", ch, ff),
			re("re-five-shares-then-firefox120", ff, cust["custom-five-shares"]),
			re("re-mlkem-only-then-firefox120", ff, cust["custom-mlkem-only"]),
			re("re-firefox120-then-mlkem-only", cust["custom-mlkem-only"], ff),
			re("re-five-shares-twice", cust["custom-five-shares"], cust["custom-five-shares"]))
		for _, src := range []class{{name: "Firefox_120", kind: "parrot", id: tls.HelloFirefox_120}, {name: "Chrome_133", kind: "parrot", id: tls.HelloChrome_133}} {
			if fc, ok := fingerprinted(p, src); ok {
				r := re("re-fp-"+src.name+"-twice", fc.mk, fc.mk)
				r.capture = fc.capture
				classes = append(classes, r)
			}
		}
	}
	classes = append(classes, quicClasses()...)

	// ---- (1) recorded builds: oracle + CShape + CReads ----
	builds := map[string]*built{}
	for i, cl := range classes {
		b := build(p, cl, newRecRand(uint64(c.Seed)*1000003+uint64(i)))
		if b.err != nil {
			c.Count("build-error")
			if debug {
				fmt.Println("BUILD", cl.name, b.err)
			}
			continue
		}
		builds[cl.name] = b
		examine(c, b, fixed, true)
		if cl.kind == "fingerprinted" {
			// what the Fingerprinter made of the captured key_share entries (KeyShareExtension.Write)
			capt := make([]string, len(cl.capture))
			for i, e := range cl.capture {
				capt[i] = fmt.Sprintf("(%d, %d)", e.group, len(e.data))
			}
			c.Case("import", fmt.Sprintf("(CImport %s %s)", vh.List(capt), specTerm(b.spec)), "import/"+cl.name, len(cl.capture) > 1,
				map[string]any{"class": cl.name, "captured": capt, "spec": b.spec})
		}
	}

	// ---- (2) freshness over many connections (default crypto/rand) ----
	nconn := 200
	if quick {
		nconn = 10
	}
	for _, cl := range classes {
		if cl.kind == "randomized" && quick {
			continue
		}
		n := nconn
		if cl.kind != "parrot" && cl.kind != "custom" && cl.kind != "quic" {
			n = nconn / 4
		}
		seenR, seenS, seenK := map[string]bool{}, map[string]bool{}, map[string]bool{}
		// a fingerprinted copy must not replay the key shares of the hello it was captured from
		for _, e := range cl.capture {
			if hs.IsGREASE(e.group) {
				continue
			}
			if isHybrid(e.group) {
				x, ek := hybridParts(e.group, e.data)
				seenK[string(x)], seenK[string(ek)] = true, true
			} else {
				seenK[string(e.data)] = true
			}
		}
		for k := 0; k < n; k++ {
			b := build(p, cl, nil)
			if b.err != nil {
				break
			}
			examine(c, b, fixed, false)
			in := map[string]any{"class": cl.name, "connection": k}
			if seenR[string(b.wire.Random)] {
				failOnce(c, "repeat-random/"+cl.name, "the client random repeated across connections", in, vh.Hex(b.wire.Random), "fresh")
			}
			seenR[string(b.wire.Random)] = true
			if len(b.wire.SessionID) > 0 {
				if seenS[string(b.wire.SessionID)] {
					failOnce(c, "repeat-sid/"+cl.name, "the legacy session id repeated across connections", in, vh.Hex(b.wire.SessionID), "fresh")
				}
				seenS[string(b.wire.SessionID)] = true
			}
			for i, e := range b.entries {
				if hs.IsGREASE(e.group) || (i < len(b.spec) && !mustBeFresh(cl, b.spec[i])) {
					continue
				}
				// hybrid shares: both halves must be fresh; classical: the share
				parts := [][]byte{e.data}
				if isHybrid(e.group) {
					x, ek := hybridParts(e.group, e.data)
					parts = [][]byte{x, ek}
				}
				for _, pt := range parts {
					if len(pt) < 8 {
						continue
					}
					if seenK[string(pt)] {
						failOnce(c, fmt.Sprintf("repeat-share/%s/%d", cl.name, e.group), "a key share repeated (across connections, within one hello, or from the captured hello of a fingerprinted copy)", in, vh.Hex(pt[:8]), "fresh")
					}
					seenK[string(pt)] = true
				}
			}
			c.Count("fresh-connections")
		}
	}

	// ---- (3) the server selects EACH offered share ----
	var jobs []selRun
	for _, cl := range classes {
		b := builds[cl.name]
		if b == nil || cl.quic || len(b.spec) != len(b.entries) {
			continue
		}
		if quick && cl.kind == "randomized" && len(b.entries) < 2 {
			continue
		}
		for i, e := range b.entries {
			if !mustBeFresh(cl, b.spec[i]) || !implementedByServer(e.group) {
				continue
			}
			if !hs.ContainsU16(b.wire.SupportedGroups, e.group) {
				// a share for a group the hello does not list in supported_groups (randomized specs, F-09): a
				// compliant server never selects it
				c.Count("share-group-not-listed")
				continue
			}
			jobs = append(jobs, selRun{cl: cl, idx: i, group: e.group})
		}
	}
	var wg sync.WaitGroup
	sem := make(chan struct{}, 12)
	for j := range jobs {
		wg.Add(1)
		sem <- struct{}{}
		go func(j *selRun) {
			defer wg.Done()
			defer func() { <-sem }()
			scfg := p.ServerConfig("h2", "http/1.1")
			scfg.CurvePreferences = []tls.CurveID{tls.CurveID(j.group)}
			var sp *tls.ClientHelloSpec
			if j.cl.mk != nil && j.cl.prep == nil {
				sp = j.cl.mk()
			}
			j.res = hs.Run(hs.Opts{ID: j.cl.id, Spec: sp, Prepare: j.cl.prep, ClientCfg: p.ClientConfig(), ServerCfg: scfg})
		}(&jobs[j])
	}
	wg.Wait()
	for _, j := range jobs {
		r := j.res
		b := builds[j.cl.name]
		if r.BuildErr != nil || r.Wire == nil {
			c.Count("select-build-error")
			continue
		}
		if len(r.Trace.Sent) == 0 && r.ClientErr != nil {
			// the server sent nothing: it rejected the offer itself, there is no client decision
			c.Count("server-declined")
			continue
		}
		completed := r.ClientErr == nil && r.AppData && r.ClientCurve == j.group && !r.ClientDidHRR
		in := map[string]any{"class": j.cl.name, "server_curve_preferences": []uint16{j.group}, "wire_key_shares": r.Wire.KeyShareGroups, "share_index": j.idx}
		if !completed {
			failOnce(c, failKey("share-key", j.cl.name, j.group, b.spec),
				"the server selected a key share the client sent, and the client did not complete the handshake on it", in,
				map[string]any{"client_error": errStr(r.ClientErr), "server_error": errStr(r.ServerErr), "app_data": r.AppData, "curve": r.ClientCurve, "hrr": r.ClientDidHRR},
				"handshake completes on the selected share and application data round-trips")
		}
		c.Case("select-"+j.cl.kind, fmt.Sprintf("(CSelect %s %s %d%%nat %s)", vh.Bool(fixed), specTerm(b.spec), j.idx, vh.Bool(completed)),
			fmt.Sprintf("select/%s/%d", j.cl.name, j.group), j.idx > 0,
			map[string]any{"class": j.cl.name, "group": j.group, "completed": completed, "client_error": errStr(r.ClientErr)})
		if debug {
			fmt.Printf("SELECT %-40s idx=%d group=%-5d completed=%-5v cerr=%q serr=%q\n", j.cl.name, j.idx, j.group, completed, errStr(r.ClientErr), errStr(r.ServerErr))
		}
	}
	if debug {
		ks := vh.SortedKeys(c.Dist)
		sort.Strings(ks)
		for _, k := range ks {
			fmt.Println(k, c.Dist[k])
		}
	}
}

var (
	failMu   sync.Mutex
	failSeen = map[string]bool{}
)

// failOnce reports the first failure under each key (the freshness loop would repeat it per connection).
func failOnce(c *vh.Ctx, key, what string, input, got, want any) {
	failMu.Lock()
	seen := failSeen[key]
	failSeen[key] = true
	failMu.Unlock()
	if !seen {
		c.Fail(key, what, input, got, want)
	}
}

func errStr(e error) string {
	if e == nil {
		return ""
	}
	return e.Error()
}

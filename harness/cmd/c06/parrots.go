// Copies of harness/hs.Parrots / RandomizedParrots (package hs needs the scripted-server hook to build).
package main

import (
	"fmt"

	tls "github.com/refraction-networking/utls"
)

type parrot struct {
	Name string
	ID   tls.ClientHelloID
}

// Parrots: every predefined ClientHelloID of u_common.go that UTLSIdToSpec accepts
// (the *_Auto aliases point at members of this list and are omitted).
func parrots() []parrot {
	all := []parrot{
		{"Chrome_58", tls.HelloChrome_58}, {"Chrome_62", tls.HelloChrome_62}, {"Chrome_70", tls.HelloChrome_70},
		{"Chrome_72", tls.HelloChrome_72}, {"Chrome_83", tls.HelloChrome_83}, {"Chrome_87", tls.HelloChrome_87},
		{"Chrome_96", tls.HelloChrome_96}, {"Chrome_100", tls.HelloChrome_100}, {"Chrome_102", tls.HelloChrome_102},
		{"Chrome_106_Shuffle", tls.HelloChrome_106_Shuffle}, {"Chrome_100_PSK", tls.HelloChrome_100_PSK},
		{"Chrome_112_PSK_Shuf", tls.HelloChrome_112_PSK_Shuf}, {"Chrome_114_Padding_PSK_Shuf", tls.HelloChrome_114_Padding_PSK_Shuf},
		{"Chrome_115_PQ", tls.HelloChrome_115_PQ}, {"Chrome_115_PQ_PSK", tls.HelloChrome_115_PQ_PSK},
		{"Chrome_120", tls.HelloChrome_120}, {"Chrome_120_PQ", tls.HelloChrome_120_PQ}, {"Chrome_131", tls.HelloChrome_131},
		{"Chrome_133", tls.HelloChrome_133},
		{"Firefox_55", tls.HelloFirefox_55}, {"Firefox_56", tls.HelloFirefox_56}, {"Firefox_63", tls.HelloFirefox_63},
		{"Firefox_65", tls.HelloFirefox_65}, {"Firefox_99", tls.HelloFirefox_99}, {"Firefox_102", tls.HelloFirefox_102},
		{"Firefox_105", tls.HelloFirefox_105}, {"Firefox_120", tls.HelloFirefox_120},
		{"IOS_11_1", tls.HelloIOS_11_1}, {"IOS_12_1", tls.HelloIOS_12_1}, {"IOS_13", tls.HelloIOS_13}, {"IOS_14", tls.HelloIOS_14},
		{"Android_11_OkHttp", tls.HelloAndroid_11_OkHttp},
		{"Edge_85", tls.HelloEdge_85}, {"Edge_106", tls.HelloEdge_106},
		{"Safari_16_0", tls.HelloSafari_16_0},
		{"360_7_5", tls.Hello360_7_5}, {"360_11_0", tls.Hello360_11_0},
		{"QQ_11_1", tls.HelloQQ_11_1},
	}
	out := all[:0]
	for _, p := range all {
		if _, err := tls.UTLSIdToSpec(p.ID); err == nil {
			out = append(out, p)
		}
	}
	return out
}

// RandomizedParrots: n reproducible HelloRandomized fingerprints (PRNG seeds derived from seed).
func randomizedParrots(n int, seed int64) []parrot {
	var out []parrot
	for i := 0; i < n; i++ {
		var ps tls.PRNGSeed
		x := uint64(seed)*0x9e3779b97f4a7c15 + uint64(i+1)*0xbf58476d1ce4e5b9
		for j := range ps {
			x ^= x >> 30
			x *= 0x94d049bb133111eb
			x ^= x >> 27
			ps[j] = byte(x >> 24)
		}
		id := tls.ClientHelloID{Client: tls.HelloRandomized.Client, Version: tls.HelloRandomized.Version, Seed: &ps}
		out = append(out, parrot{fmt.Sprintf("Randomized_%d", i), id})
	}
	return out
}

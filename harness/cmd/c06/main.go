// Runner for C06 (fingerprinting a ClientHello and re-applying it reproduces its shape).
//
// For every parrot, n randomized fingerprints and n generated custom specs, and for the three
// Fingerprinter flag sets {none, AllowBluntMimicry+AlwaysAddPadding, RealPSKResumption}:
//
//	rec1 := hello built by the code for server name A
//	spec := Fingerprinter{flags}.FingerprintClientHello(rec1)
//	rec2 := UClient(HelloCustom) + ApplyPreset(spec) + BuildHandshakeState, server name B (|B| = |A|)
//
// Go-side oracle (property text, no model): the normalised wire hellos agree (`shape/<id>/<what>`),
// the total lengths agree (`length/<id>`), and fingerprinting rec2 gives the same extension types,
// suites and compression methods (`idempotent/<id>`). Coq cases (records <= 300 bytes at the quick
// tier): CFp = model vs implementation on rec2; CIdem = the proven idempotence oracle on (rec1, rec2).
package main

import (
	"bytes"
	"encoding/binary"
	"fmt"
	"io"
	"math/rand"
	"net"
	"strings"
	"time"

	tls "github.com/refraction-networking/utls"
	"verif/harness/extcoq"
	"verif/harness/vh"
)

func main() { vh.Main(map[string]vh.Suite{"C06": {Corr: "Corr.C06Corr", Run: run}}) }

type nullConn struct{}

func (nullConn) Read(b []byte) (int, error)         { return 0, io.EOF }
func (nullConn) Write(b []byte) (int, error)        { return len(b), nil }
func (nullConn) Close() error                       { return nil }
func (nullConn) LocalAddr() net.Addr                { return &net.TCPAddr{} }
func (nullConn) RemoteAddr() net.Addr               { return &net.TCPAddr{} }
func (nullConn) SetDeadline(t time.Time) error      { return nil }
func (nullConn) SetReadDeadline(t time.Time) error  { return nil }
func (nullConn) SetWriteDeadline(t time.Time) error { return nil }

const sniA, sniB = "c06-a.example.com", "c06-b.example.org"

type flags struct{ blunt, always, real bool }

func (f flags) String() string { return fmt.Sprintf("b%vp%vr%v", f.blunt, f.always, f.real) }

func record(raw []byte) []byte {
	return append([]byte{22, 3, 1, byte(len(raw) >> 8), byte(len(raw))}, raw...)
}

// build: BuildHandshakeState of a connection prepared by `prep`; the record, or why not.
func build(sni string, id tls.ClientHelloID, spec *tls.ClientHelloSpec) (rec []byte, err error) {
	p, pv := vh.Recover(func() {
		uc := tls.UClient(nullConn{}, &tls.Config{ServerName: sni, InsecureSkipVerify: true}, id)
		if spec != nil {
			if err = uc.ApplyPreset(spec); err != nil {
				return
			}
		}
		if err = uc.BuildHandshakeState(); err != nil {
			return
		}
		rec = record(uc.HandshakeState.Hello.Raw)
	})
	if p {
		return nil, fmt.Errorf("panic: %v", pv)
	}
	return
}

// ---- own ClientHello parser and normalisation (per-connection holes erased) ----
type wext struct {
	id   uint16
	body []byte
}
type whello struct {
	vers   uint16
	suites []uint16
	comp   []byte
	exts   []wext
}

func isGrease(v uint16) bool { return v&0x0f0f == 0x0a0a && v>>8 == v&0xff }
func ung(v uint16) uint16 {
	if isGrease(v) {
		return 0x0a0a
	}
	return v
}

func parse(rec []byte) (*whello, bool) {
	if len(rec) < 44 || rec[0] != 22 || rec[5] != 1 {
		return nil, false
	}
	h := &whello{vers: binary.BigEndian.Uint16(rec[9:])}
	p := 43
	p += 1 + int(rec[p])
	if p+2 > len(rec) {
		return nil, false
	}
	n := int(binary.BigEndian.Uint16(rec[p:]))
	p += 2
	if p+n+1 > len(rec) || n%2 != 0 {
		return nil, false
	}
	for i := 0; i < n; i += 2 {
		h.suites = append(h.suites, ung(binary.BigEndian.Uint16(rec[p+i:])))
	}
	p += n
	n = int(rec[p])
	p++
	if p+n > len(rec) {
		return nil, false
	}
	h.comp = rec[p : p+n]
	p += n
	if p == len(rec) {
		return h, true
	}
	if p+2 > len(rec) || p+2+int(binary.BigEndian.Uint16(rec[p:])) != len(rec) {
		return nil, false
	}
	ex := rec[p+2:]
	for len(ex) > 0 {
		if len(ex) < 4 || 4+int(binary.BigEndian.Uint16(ex[2:])) > len(ex) {
			return nil, false
		}
		l := 4 + int(binary.BigEndian.Uint16(ex[2:]))
		h.exts = append(h.exts, wext{binary.BigEndian.Uint16(ex), ex[4:l]})
		ex = ex[l:]
	}
	return h, true
}

// norm erases what the property allows to differ: GREASE values, and per-connection material
// (SNI value, key-share keys, session ticket, PSK identities/binders, ECH-GREASE bytes: lengths
// kept; padding: length not kept).
func norm(e wext) (uint16, string) {
	id, b := ung(e.id), append([]byte{}, e.body...)
	zero := func(x []byte) {
		for i := range x {
			x[i] = 0
		}
	}
	switch {
	case isGrease(e.id):
		// body kept
	case id == 0 || id == 35 || id == 41 || id == 0xfe0d:
		if id == 0xfe0d && len(b) >= 6 { // keep type, kdf, aead
			zero(b[5:])
		} else {
			zero(b)
		}
	case id == 21:
		b = nil
	case id == 10 && len(b) >= 2:
		for i := 2; i+1 < len(b); i += 2 {
			binary.BigEndian.PutUint16(b[i:], ung(binary.BigEndian.Uint16(b[i:])))
		}
	case id == 43 && len(b) >= 1:
		for i := 1; i+1 < len(b); i += 2 {
			binary.BigEndian.PutUint16(b[i:], ung(binary.BigEndian.Uint16(b[i:])))
		}
	case id == 51 && len(b) >= 2:
		for i := 2; i+4 <= len(b); {
			g := binary.BigEndian.Uint16(b[i:])
			l := int(binary.BigEndian.Uint16(b[i+2:]))
			binary.BigEndian.PutUint16(b[i:], ung(g))
			if i+4+l > len(b) {
				break
			}
			zero(b[i+4 : i+4+l])
			i += 4 + l
		}
	}
	return id, vh.Hex(b)
}

type runner struct {
	c   *vh.Ctx
	r   *rand.Rand
	idx int
}

func specTerm(s *tls.ClientHelloSpec) (string, bool) {
	exts := make([]string, len(s.Extensions))
	pad0 := "None"
	for i, e := range s.Extensions {
		t, ok := extcoq.ExtTerm(e)
		if !ok {
			return "", false
		}
		exts[i] = t
		if p, ok := e.(*tls.UtlsPaddingExtension); ok && pad0 == "None" && strings.HasSuffix(t, "PadOther)") {
			l, w := p.GetPaddingLen(0)
			if l < 0 {
				return "", false
			}
			pad0 = fmt.Sprintf("(Some (%d, %s))", l, vh.Bool(w))
		}
	}
	return fmt.Sprintf("(SOk %s %s %s %d %d %s)", vh.U16s(s.CipherSuites), vh.Bytes(s.CompressionMethods),
		vh.List(exts), s.TLSVersMin, s.TLSVersMax, pad0), true
}

func (rn *runner) fp(f flags, rec []byte) (*tls.ClientHelloSpec, error) {
	var s *tls.ClientHelloSpec
	var err error
	if p, pv := vh.Recover(func() {
		s, err = (&tls.Fingerprinter{AllowBluntMimicry: f.blunt, AlwaysAddPadding: f.always, RealPSKResumption: f.real}).FingerprintClientHello(append([]byte{}, rec...))
	}); p {
		return nil, fmt.Errorf("panic: %v", pv)
	}
	return s, err
}

// roundTrip: one hello (rec1, built for sniA) under one flag set.
func (rn *runner) roundTrip(name string, rec1 []byte, f flags, coqLimit int) {
	c := rn.c
	rn.idx++
	key := fmt.Sprintf("%s#%d/%s", name, rn.idx, f.String())
	in := map[string]any{"id": name, "flags": f.String(), "hello_hex": vh.Hex(rec1)}
	c.Count("roundtrip")
	spec, err := rn.fp(f, rec1)
	if err != nil {
		// a hello the library built itself must be representable; without AllowBluntMimicry an
		// extension type FromRaw cannot rebuild is a documented refusal, counted not failed
		c.Count("fingerprint-refused:" + clip(err.Error(), 40))
		if strings.HasPrefix(err.Error(), "panic") {
			c.Fail("shape/"+name+"/fingerprint-panic", "FingerprintClientHello panicked on a hello the library built", in, err.Error(), "a spec")
		}
		return
	}
	rec2, err := build(sniB, tls.HelloCustom, spec)
	if err != nil {
		c.Count("fail:rebuild")
		c.Fail("shape/"+name+"/rebuild-error", "ApplyPreset + BuildHandshakeState failed on the fingerprint of a hello the library built", in, err.Error(), "a ClientHello")
		return
	}
	h1, ok1 := parse(rec1)
	h2, ok2 := parse(rec2)
	if !ok1 || !ok2 {
		c.Fail("shape/"+name+"/unparsable", "strict parse of the hello failed", in, fmt.Sprint(ok1, ok2), "two well-framed hellos")
		return
	}
	fail := func(what string, got, want any) {
		c.Count("fail:shape")
		c.Fail("shape/"+name+"/"+what, "regenerated hello differs from the captured one: "+what, in, got, want)
	}
	if h1.vers != h2.vers {
		fail("legacy-version", h2.vers, h1.vers)
	}
	if fmt.Sprint(h1.suites) != fmt.Sprint(h2.suites) {
		fail("cipher-suites", h2.suites, h1.suites)
	}
	if !bytes.Equal(h1.comp, h2.comp) {
		fail("compression-methods", h2.comp, h1.comp)
	}
	// AlwaysAddPadding may add a padding extension the capture did not have: compare modulo that
	e1, e2 := h1.exts, h2.exts
	had := false
	for _, e := range e1 {
		had = had || e.id == 21
	}
	if f.always && !had {
		var t []wext
		for _, e := range e2 {
			if e.id != 21 {
				t = append(t, e)
			}
		}
		e2 = t
	}
	var o1, o2 []uint16
	for _, e := range e1 {
		o1 = append(o1, ung(e.id))
	}
	for _, e := range e2 {
		o2 = append(o2, ung(e.id))
	}
	if fmt.Sprint(o1) != fmt.Sprint(o2) {
		fail("extension-order", o2, o1)
	} else {
		for i := range e1 {
			id, b1 := norm(e1[i])
			_, b2 := norm(e2[i])
			if b1 != b2 {
				fail(fmt.Sprintf("extension-body-%d", id), b2, b1)
			}
		}
	}
	c.Count("check:shape")
	if !(f.always && !had) {
		c.Count("check:length")
		if len(rec1) != len(rec2) {
			c.Count("fail:length")
			c.Fail("length/"+name, "same-length server name and equal-size per-connection parts, but the total length differs", in, len(rec2), len(rec1))
		}
	}
	// idempotence
	spec2, err := rn.fp(f, rec2)
	if err != nil {
		c.Count("fail:idempotent")
		c.Fail("idempotent/"+name, "the regenerated hello cannot be fingerprinted", in, err.Error(), "an equivalent spec")
		return
	}
	c.Count("check:idempotent")
	t1, t2 := typesOf(spec), typesOf(spec2)
	if f.always && !had {
		t1 = strings.ReplaceAll(t1, "UtlsPaddingExtension ", "")
		t2 = strings.ReplaceAll(t2, "UtlsPaddingExtension ", "")
	}
	if t1 != t2 || fmt.Sprint(spec.CipherSuites) != fmt.Sprint(spec2.CipherSuites) || !bytes.Equal(spec.CompressionMethods, spec2.CompressionMethods) ||
		spec.TLSVersMin != spec2.TLSVersMin || spec.TLSVersMax != spec2.TLSVersMax {
		c.Count("fail:idempotent")
		c.Fail("idempotent/"+name, "fingerprinting the regenerated hello gives a different spec", in, t2, t1)
	}
	// Coq cases on short hellos
	if len(rec1) <= coqLimit && len(rec2) <= coqLimit {
		if t, ok := specTerm(spec2); ok {
			c.Case("fp", fmt.Sprintf("CFp %s %s %s %s %s", vh.Bool(f.blunt), vh.Bool(f.always), vh.Bool(f.real), vh.Bytes(rec2), t),
				key, len(spec2.Extensions) > 0, map[string]any{"id": name, "flags": f.String(), "len": len(rec2)})
		}
		if !(f.always && !had) {
			c.OracleCase("idem", fmt.Sprintf("CIdem %s %s %s %s %s", vh.Bool(f.blunt), vh.Bool(f.always), vh.Bool(f.real), vh.Bytes(rec1), vh.Bytes(rec2)),
				"idempotent/"+name, "model fingerprints of the captured and the regenerated hello differ", in, len(h1.exts) > 0)
		}
	}
}

func typesOf(s *tls.ClientHelloSpec) string {
	var sb strings.Builder
	for _, e := range s.Extensions {
		sb.WriteString(strings.TrimPrefix(fmt.Sprintf("%T ", e), "*tls."))
	}
	return sb.String()
}

func clip(s string, n int) string {
	if len(s) > n {
		return s[:n]
	}
	return s
}

// genSpec: a small custom spec from simple extensions in random order.
func (rn *runner) genSpec() *tls.ClientHelloSpec {
	r := rn.r
	g := extcoq.GreaseValue
	pool := []func() tls.TLSExtension{
		func() tls.TLSExtension { return &tls.SNIExtension{} },
		func() tls.TLSExtension { return &tls.ExtendedMasterSecretExtension{} },
		func() tls.TLSExtension { return &tls.UtlsGREASEExtension{} },
		func() tls.TLSExtension {
			return &tls.SupportedCurvesExtension{Curves: []tls.CurveID{tls.CurveID(g(r)), tls.X25519, tls.CurveP256}}
		},
		func() tls.TLSExtension { return &tls.SupportedPointsExtension{SupportedPoints: []byte{0}} },
		func() tls.TLSExtension {
			return &tls.SignatureAlgorithmsExtension{SupportedSignatureAlgorithms: []tls.SignatureScheme{tls.ECDSAWithP256AndSHA256, tls.PSSWithSHA256, tls.PKCS1WithSHA256}}
		},
		func() tls.TLSExtension { return &tls.ALPNExtension{AlpnProtocols: []string{"h2", "http/1.1"}} },
		func() tls.TLSExtension { return &tls.StatusRequestExtension{} },
		func() tls.TLSExtension { return &tls.SCTExtension{} },
		func() tls.TLSExtension { return &tls.SessionTicketExtension{} },
		func() tls.TLSExtension {
			return &tls.RenegotiationInfoExtension{Renegotiation: tls.RenegotiateOnceAsClient}
		},
		func() tls.TLSExtension { return &tls.PSKKeyExchangeModesExtension{Modes: []uint8{1}} },
		func() tls.TLSExtension {
			return &tls.UtlsCompressCertExtension{Algorithms: []tls.CertCompressionAlgo{tls.CertCompressionBrotli}}
		},
		func() tls.TLSExtension { return &tls.FakeRecordSizeLimitExtension{Limit: 0x4001} },
		func() tls.TLSExtension { return &tls.ApplicationSettingsExtension{SupportedProtocols: []string{"h2"}} },
		func() tls.TLSExtension {
			return &tls.UtlsPaddingExtension{GetPaddingLen: tls.BoringPaddingStyle}
		},
	}
	idx := r.Perm(len(pool))[:3+r.Intn(8)]
	s := &tls.ClientHelloSpec{CompressionMethods: []byte{0}}
	for _, v := range [][]uint16{{g(r), tls.TLS_AES_128_GCM_SHA256, tls.TLS_CHACHA20_POLY1305_SHA256}, {tls.TLS_ECDHE_ECDSA_WITH_AES_128_GCM_SHA256, tls.TLS_ECDHE_RSA_WITH_AES_128_GCM_SHA256}}[r.Intn(2)] {
		s.CipherSuites = append(s.CipherSuites, v)
	}
	tls13 := r.Intn(3) != 0
	for _, i := range idx {
		s.Extensions = append(s.Extensions, pool[i]())
	}
	if tls13 {
		s.CipherSuites = append(s.CipherSuites, tls.TLS_AES_256_GCM_SHA384)
		s.Extensions = append(s.Extensions,
			&tls.SupportedVersionsExtension{Versions: []uint16{g(r), tls.VersionTLS13, tls.VersionTLS12}},
			&tls.KeyShareExtension{KeyShares: []tls.KeyShare{{Group: tls.CurveID(g(r)), Data: []byte{0}}, {Group: tls.X25519}}})
		has := false
		for _, e := range s.Extensions {
			if c, ok := e.(*tls.SupportedCurvesExtension); ok {
				has = true
				_ = c
			}
		}
		if !has {
			s.Extensions = append(s.Extensions, &tls.SupportedCurvesExtension{Curves: []tls.CurveID{tls.X25519, tls.CurveP256}})
		}
		r.Shuffle(len(s.Extensions), func(i, j int) { s.Extensions[i], s.Extensions[j] = s.Extensions[j], s.Extensions[i] })
	} else {
		s.TLSVersMin, s.TLSVersMax = tls.VersionTLS10, tls.VersionTLS12
	}
	return s
}

func run(c *vh.Ctx) {
	rn := &runner{c: c, r: c.Rng}
	fls := []flags{{false, false, false}, {true, true, false}, {false, false, true}}
	coqLimit := 300
	if c.Tier != "quick" {
		coqLimit = 700
	}
	// parrots
	for _, p := range parrots() {
		rec1, err := build(sniA, p.ID, nil)
		if err != nil {
			c.Count("parrot-build-error")
			continue
		}
		for _, f := range fls {
			rn.roundTrip(p.Name, rec1, f, coqLimit)
		}
	}
	// randomized fingerprints
	for _, p := range randomizedParrots(c.N, c.Seed) {
		rec1, err := build(sniA, p.ID, nil)
		if err != nil {
			c.Count("randomized-build-error")
			continue
		}
		rn.roundTrip("Randomized", rec1, fls[rn.r.Intn(3)], coqLimit)
	}
	// generated custom specs
	for i := 0; i < c.N; i++ {
		rec1, err := build(sniA, tls.HelloCustom, rn.genSpec())
		if err != nil {
			c.Count("custom-build-error:" + clip(err.Error(), 50))
			continue
		}
		rn.roundTrip("Custom", rec1, fls[i%3], coqLimit)
	}
}

// Runner for C06 (fingerprinting a ClientHello and re-applying it reproduces its shape).
//
// For every parrot, n randomized fingerprints and n generated custom specs, and for the three
// Fingerprinter flag sets {none, AllowBluntMimicry+AlwaysAddPadding, RealPSKResumption}:
//
//	rec1 := hello built by the code for server name A
//	spec := Fingerprinter{flags}.FingerprintClientHello(rec1)
//	rec2 := UClient(HelloCustom) + ApplyPreset(spec) + BuildHandshakeState, server name B (|B| = |A|)
//
// Go-side oracle (property text, no model): the normalised wire hellos agree (`shape/<id>/<what>`),
// the total lengths agree (`length/<id>`), and fingerprinting rec2 gives the same extension types,
// suites and compression methods (`idempotent/<id>`). Coq cases (records <= 300 bytes at the quick
// tier): CFp = model vs implementation on rec2; CIdem = the proven idempotence oracle on (rec1, rec2).
package main

import (
	"bytes"
	"encoding/binary"
	"fmt"
	"io"
	"math/rand"
	"net"
	"strings"
	"time"

	tls "github.com/refraction-networking/utls"
	"verif/harness/extcoq"
	"verif/harness/vh"
)

func main() { vh.Main(map[string]vh.Suite{"C06": {Corr: "Corr.C06Corr", Run: run}}) }

type nullConn struct{}

func (nullConn) Read(b []byte) (int, error)         { return 0, io.EOF }
func (nullConn) Write(b []byte) (int, error)        { return len(b), nil }
func (nullConn) Close() error                       { return nil }
func (nullConn) LocalAddr() net.Addr                { return &net.TCPAddr{} }
func (nullConn) RemoteAddr() net.Addr               { return &net.TCPAddr{} }
func (nullConn) SetDeadline(t time.Time) error      { return nil }
func (nullConn) SetReadDeadline(t time.Time) error  { return nil }
func (nullConn) SetWriteDeadline(t time.Time) error { return nil }

const sniA, sniB = "c06-a.example.com", "c06-b.example.org"

type flags struct{ blunt, always, real bool }

func (f flags) String() string { return fmt.Sprintf("b%vp%vr%v", f.blunt, f.always, f.real) }

func record(raw []byte) []byte {
	return append([]byte{22, 3, 1, byte(len(raw) >> 8), byte(len(raw))}, raw...)
}

// build: BuildHandshakeState of a connection prepared by `prep`; the record, or why not.
func build(sni string, id tls.ClientHelloID, spec *tls.ClientHelloSpec) (rec []byte, err error) {
	p, pv := vh.Recover(func() {
		uc := tls.UClient(nullConn{}, &tls.Config{ServerName: sni, InsecureSkipVerify: true, OmitEmptyPsk: true}, id)
		if spec != nil {
			if err = uc.ApplyPreset(spec); err != nil {
				return
			}
		}
		if err = uc.BuildHandshakeState(); err != nil {
			return
		}
		rec = record(uc.HandshakeState.Hello.Raw)
	})
	if p {
		return nil, fmt.Errorf("panic: %v", pv)
	}
	return
}

// ---- own ClientHello parser and normalisation (per-connection holes erased) ----
type wext struct {
	id   uint16
	body []byte
}
type whello struct {
	vers   uint16
	suites []uint16
	comp   []byte
	exts   []wext
}

func isGrease(v uint16) bool { return v&0x0f0f == 0x0a0a && v>>8 == v&0xff }
func ung(v uint16) uint16 {
	if isGrease(v) {
		return 0x0a0a
	}
	return v
}

func parse(rec []byte) (*whello, bool) {
	if len(rec) < 44 || rec[0] != 22 || rec[5] != 1 {
		return nil, false
	}
	h := &whello{vers: binary.BigEndian.Uint16(rec[9:])}
	p := 43
	p += 1 + int(rec[p])
	if p+2 > len(rec) {
		return nil, false
	}
	n := int(binary.BigEndian.Uint16(rec[p:]))
	p += 2
	if p+n+1 > len(rec) || n%2 != 0 {
		return nil, false
	}
	for i := 0; i < n; i += 2 {
		h.suites = append(h.suites, ung(binary.BigEndian.Uint16(rec[p+i:])))
	}
	p += n
	n = int(rec[p])
	p++
	if p+n > len(rec) {
		return nil, false
	}
	h.comp = rec[p : p+n]
	p += n
	if p == len(rec) {
		return h, true
	}
	if p+2 > len(rec) || p+2+int(binary.BigEndian.Uint16(rec[p:])) != len(rec) {
		return nil, false
	}
	ex := rec[p+2:]
	for len(ex) > 0 {
		if len(ex) < 4 || 4+int(binary.BigEndian.Uint16(ex[2:])) > len(ex) {
			return nil, false
		}
		l := 4 + int(binary.BigEndian.Uint16(ex[2:]))
		h.exts = append(h.exts, wext{binary.BigEndian.Uint16(ex), ex[4:l]})
		ex = ex[l:]
	}
	return h, true
}

// norm erases what the property allows to differ: GREASE values, and per-connection material
// (SNI value, key-share keys, session ticket, PSK identities/binders, ECH-GREASE bytes: lengths
// kept; padding: length not kept).
func norm(e wext) (uint16, string) {
	id, b := ung(e.id), append([]byte{}, e.body...)
	zero := func(x []byte) {
		for i := range x {
			x[i] = 0
		}
	}
	switch {
	case isGrease(e.id):
		// body kept
	case id == 0 || id == 35 || id == 41 || id == 0xfe0d:
		if id == 0xfe0d && len(b) >= 6 { // keep type, kdf, aead
			zero(b[5:])
		} else {
			zero(b)
		}
	case id == 21:
		b = nil
	case id == 10 && len(b) >= 2:
		for i := 2; i+1 < len(b); i += 2 {
			binary.BigEndian.PutUint16(b[i:], ung(binary.BigEndian.Uint16(b[i:])))
		}
	case id == 43 && len(b) >= 1:
		for i := 1; i+1 < len(b); i += 2 {
			binary.BigEndian.PutUint16(b[i:], ung(binary.BigEndian.Uint16(b[i:])))
		}
	case id == 51 && len(b) >= 2:
		for i := 2; i+4 <= len(b); {
			g := binary.BigEndian.Uint16(b[i:])
			l := int(binary.BigEndian.Uint16(b[i+2:]))
			binary.BigEndian.PutUint16(b[i:], ung(g))
			if i+4+l > len(b) {
				break
			}
			zero(b[i+4 : i+4+l])
			i += 4 + l
		}
	}
	return id, vh.Hex(b)
}

type runner struct {
	c   *vh.Ctx
	r   *rand.Rand
	idx int
}

func specTerm(s *tls.ClientHelloSpec) (string, bool) {
	exts := make([]string, len(s.Extensions))
	pad0 := "None"
	for i, e := range s.Extensions {
		t, ok := extcoq.ExtTerm(e)
		if !ok {
			return "", false
		}
		exts[i] = t
		if p, ok := e.(*tls.UtlsPaddingExtension); ok && pad0 == "None" && strings.HasSuffix(t, "PadOther)") {
			l, w := p.GetPaddingLen(0)
			if l < 0 {
				return "", false
			}
			pad0 = fmt.Sprintf("(Some (%d, %s))", l, vh.Bool(w))
		}
	}
	return fmt.Sprintf("(SOk %s %s %s %d %d %s)", vh.U16s(s.CipherSuites), vh.Bytes(s.CompressionMethods),
		vh.List(exts), s.TLSVersMin, s.TLSVersMax, pad0), true
}

func (rn *runner) fp(f flags, rec []byte) (*tls.ClientHelloSpec, error) {
	var s *tls.ClientHelloSpec
	var err error
	if p, pv := vh.Recover(func() {
		s, err = (&tls.Fingerprinter{AllowBluntMimicry: f.blunt, AlwaysAddPadding: f.always, RealPSKResumption: f.real}).FingerprintClientHello(append([]byte{}, rec...))
	}); p {
		return nil, fmt.Errorf("panic: %v", pv)
	}
	return s, err
}

// recVers: the record-layer version the capture is wrapped in (FromRaw copies it to TLSVersMin).
func reRecord(rec []byte, minor byte) []byte {
	out := append([]byte{}, rec...)
	out[2] = minor
	return out
}

func dropExt(es []wext, id uint16) []wext {
	var t []wext
	for _, e := range es {
		if e.id != id {
			t = append(t, e)
		}
	}
	return t
}

func hasExt(es []wext, id uint16) bool {
	for _, e := range es {
		if e.id == id {
			return true
		}
	}
	return false
}

// compare two parsed hellos modulo the per-connection holes; report under prefix/<what>
func (rn *runner) compare(prefix string, in any, h1, h2 *whello, e1, e2 []wext) {
	c := rn.c
	fail := func(what string, got, want any) {
		c.Count("fail:shape")
		c.Fail(prefix+"/"+what, "regenerated hello differs from the captured one: "+what, in, got, want)
	}
	if h1.vers != h2.vers {
		fail("legacy-version", h2.vers, h1.vers)
	}
	if fmt.Sprint(h1.suites) != fmt.Sprint(h2.suites) {
		fail("cipher-suites", h2.suites, h1.suites)
	}
	if !bytes.Equal(h1.comp, h2.comp) {
		fail("compression-methods", h2.comp, h1.comp)
	}
	var o1, o2 []uint16
	for _, e := range e1 {
		o1 = append(o1, ung(e.id))
	}
	for _, e := range e2 {
		o2 = append(o2, ung(e.id))
	}
	if fmt.Sprint(o1) != fmt.Sprint(o2) {
		fail("extension-order", o2, o1)
		return
	}
	for i := range e1 {
		id, b1 := norm(e1[i])
		_, b2 := norm(e2[i])
		if b1 != b2 {
			fail(fmt.Sprintf("extension-body-%d", id), b2, b1)
		}
	}
}

// roundTrip: one hello (rec1, built for sniA) under one flag set: capture -> fingerprint ->
// regenerate (rec2) -> fingerprint -> regenerate again (rec3).
func (rn *runner) roundTrip(name string, rec1 []byte, f flags, coqLimit int) {
	c := rn.c
	rn.idx++
	key := fmt.Sprintf("%s#%d/%s", name, rn.idx, f.String())
	in := map[string]any{"id": name, "flags": f.String(), "hello_hex": vh.Hex(rec1)}
	c.Count("roundtrip")
	spec, err := rn.fp(f, rec1)
	if err != nil {
		// without AllowBluntMimicry an extension type FromRaw cannot rebuild is a documented refusal
		c.Count("fingerprint-refused:" + clip(err.Error(), 40))
		if strings.HasPrefix(err.Error(), "panic") {
			c.Fail("shape/"+name+"/fingerprint-panic", "FingerprintClientHello panicked on a hello the library built", in, err.Error(), "a spec")
		}
		return
	}
	term1, term1ok := specTerm(spec) // before ApplyPreset mutates the extension objects
	rec2, err := build(sniB, tls.HelloCustom, spec)
	if err != nil {
		c.Count("fail:rebuild")
		c.Fail("shape/"+name+"/rebuild-error", "ApplyPreset + BuildHandshakeState failed on the fingerprint of a hello the library built", in, err.Error(), "a ClientHello")
		return
	}
	rec2 = reRecord(rec2, rec1[2])
	h1, ok1 := parse(rec1)
	h2, ok2 := parse(rec2)
	if !ok1 || !ok2 {
		c.Fail("shape/"+name+"/unparsable", "strict parse of the hello failed", in, fmt.Sprint(ok1, ok2), "two well-framed hellos")
		return
	}
	// what the flags legitimately change: AlwaysAddPadding may add a padding extension the capture did
	// not have; RealPSKResumption turns pre_shared_key into per-connection material that is only sent
	// with a session (none here)
	e1, e2 := h1.exts, h2.exts
	had := hasExt(e1, 21)
	hadPSK := hasExt(e1, 41)
	addedPad := f.always && !had
	if addedPad {
		e2 = dropExt(e2, 21)
	}
	realPSK := f.real && hadPSK
	if realPSK {
		e1, e2 = dropExt(e1, 41), dropExt(e2, 41)
	}
	rn.compare("shape/"+name, in, h1, h2, e1, e2)
	c.Count("check:shape")
	if !addedPad && !realPSK {
		c.Count("check:length")
		if len(rec1) != len(rec2) {
			c.Count("fail:length")
			c.Fail("length/"+name, "same-length server name and equal-size per-connection parts, but the total length differs", in, len(rec2), len(rec1))
		}
	}
	// idempotence: fingerprint of the regenerated hello, and the hello regenerated from THAT
	spec2, err := rn.fp(f, rec2)
	if err != nil {
		c.Count("fail:idempotent")
		c.Fail("idempotent/"+name, "the regenerated hello cannot be fingerprinted", in, err.Error(), "an equivalent spec")
		return
	}
	c.Count("check:idempotent")
	term2, term2ok := specTerm(spec2)
	t1, t2 := typesOf(spec), typesOf(spec2)
	if addedPad {
		t1 = strings.ReplaceAll(t1, "UtlsPaddingExtension ", "")
		t2 = strings.ReplaceAll(t2, "UtlsPaddingExtension ", "")
	}
	if realPSK {
		t1 = strings.ReplaceAll(t1, "UtlsPreSharedKeyExtension ", "")
		t2 = strings.ReplaceAll(t2, "UtlsPreSharedKeyExtension ", "")
	}
	if t1 != t2 || fmt.Sprint(spec.CipherSuites) != fmt.Sprint(spec2.CipherSuites) || !bytes.Equal(spec.CompressionMethods, spec2.CompressionMethods) ||
		spec.TLSVersMin != spec2.TLSVersMin || spec.TLSVersMax != spec2.TLSVersMax {
		c.Count("fail:idempotent")
		c.Fail("idempotent/"+name, "fingerprinting the regenerated hello gives a different spec", in,
			map[string]any{"types": t2, "suites": spec2.CipherSuites, "vmin": spec2.TLSVersMin, "vmax": spec2.TLSVersMax},
			map[string]any{"types": t1, "suites": spec.CipherSuites, "vmin": spec.TLSVersMin, "vmax": spec.TLSVersMax})
	}
	if rec3, err := build(sniA, tls.HelloCustom, spec2); err != nil {
		c.Count("fail:idempotent")
		c.Fail("idempotent/"+name, "the second generation cannot be built", in, err.Error(), "a ClientHello")
	} else if h3, ok := parse(rec3); ok {
		c.Count("check:second-generation")
		rn.compare("idempotent/"+name, in, h2, h3, h2.exts, h3.exts)
		if len(rec3) != len(rec2) {
			c.Count("fail:idempotent")
			c.Fail("idempotent/"+name, "the second generation has a different length than the first", in, len(rec3), len(rec2))
		}
	}
	// Coq cases: the model must reproduce both fingerprints (version bounds, suites, extensions,
	// padding target), and the idempotence oracle is evaluated by the model on the two byte strings
	if len(rec1) <= coqLimit && len(rec2) <= coqLimit {
		if term1ok {
			c.Case("fp", fmt.Sprintf("CFp %s %s %s %s %s", vh.Bool(f.blunt), vh.Bool(f.always), vh.Bool(f.real), packed(rec1), term1),
				key+"/captured", len(h1.exts) > 0, map[string]any{"id": name, "flags": f.String(), "len": len(rec1)})
		}
		if term2ok {
			c.Case("fp", fmt.Sprintf("CFp %s %s %s %s %s", vh.Bool(f.blunt), vh.Bool(f.always), vh.Bool(f.real), packed(rec2), term2),
				key+"/regenerated", len(h2.exts) > 0, nil)
		}
		if !addedPad && !realPSK {
			c.OracleCase("idem", fmt.Sprintf("CIdem %s %s %s %s %s", vh.Bool(f.blunt), vh.Bool(f.always), vh.Bool(f.real), packed(rec1), packed(rec2)),
				"idempotent/"+name, "model fingerprints of the captured and the regenerated hello differ", in, len(h1.exts) > 0)
		}
	}
}

// packed: a byte string as `(pk len [w1;...]%uint63)`, 7 bytes per primitive integer (Corr/C07Corr.v)
func packed(b []byte) string {
	if len(b) == 0 {
		return "[]"
	}
	var sb strings.Builder
	fmt.Fprintf(&sb, "(pk %d [", len(b))
	for i := 0; i < len(b); i += 7 {
		j := min(i+7, len(b))
		var w uint64
		for _, x := range b[i:j] {
			w = w<<8 | uint64(x)
		}
		if i > 0 {
			sb.WriteByte(';')
		}
		fmt.Fprintf(&sb, "%d", w)
	}
	sb.WriteString("]%uint63)")
	return sb.String()
}

func typesOf(s *tls.ClientHelloSpec) string {
	var sb strings.Builder
	for _, e := range s.Extensions {
		sb.WriteString(strings.TrimPrefix(fmt.Sprintf("%T ", e), "*tls."))
	}
	return sb.String()
}

func clip(s string, n int) string {
	if len(s) > n {
		return s[:n]
	}
	return s
}

// genSpec: a custom spec of one of several shapes (the name goes into the failure keys):
//
//	tls13        3-10 simple extensions in random order + supported_versions/key_share, GREASE
//	legacy       TLS 1.0 / 1.1 / 1.2 stack: TLSVersMin/Max set, no supported_versions (legacy_version 0x0301..0x0303)
//	legacy-sv    supported_versions listing only TLS 1.1/1.0/1.2
//	scsv         cipher-suite list with the signalling values 0x5600 / 0x00ff and unknown code points
//	psk-padding  padding extension + non-empty FakePreSharedKeyExtension, unpadded length in BoringPadding's range
//	psk          non-empty FakePreSharedKeyExtension without padding
//	ech          TLS 1.3 hello with a GREASE ECH extension of non-default enc / payload sizes
//	holes        non-default sizes of the per-connection holes (session ticket extension, ALPN, cookie-less)
func (rn *runner) genSpec(shape string) *tls.ClientHelloSpec {
	r := rn.r
	g := extcoq.GreaseValue
	pool := []func() tls.TLSExtension{
		func() tls.TLSExtension { return &tls.SNIExtension{} },
		func() tls.TLSExtension { return &tls.ExtendedMasterSecretExtension{} },
		func() tls.TLSExtension { // GREASE extension bodies of several sizes (Chrome's second one carries one byte)
			return &tls.UtlsGREASEExtension{Body: make([]byte, []int{0, 0, 1, 4}[r.Intn(4)])}
		},
		func() tls.TLSExtension { return &tls.SupportedPointsExtension{SupportedPoints: []byte{0}} },
		func() tls.TLSExtension {
			return &tls.SignatureAlgorithmsExtension{SupportedSignatureAlgorithms: []tls.SignatureScheme{tls.ECDSAWithP256AndSHA256, tls.PSSWithSHA256, tls.PKCS1WithSHA256, tls.ECDSAWithP384AndSHA384, tls.PSSWithSHA384, tls.PKCS1WithSHA384}}
		},
		func() tls.TLSExtension { return &tls.ALPNExtension{AlpnProtocols: []string{"h2", "http/1.1"}} },
		func() tls.TLSExtension { return &tls.StatusRequestExtension{} },
		func() tls.TLSExtension { return &tls.SCTExtension{} },
		func() tls.TLSExtension { return &tls.SessionTicketExtension{} },
		func() tls.TLSExtension {
			return &tls.RenegotiationInfoExtension{Renegotiation: tls.RenegotiateOnceAsClient}
		},
		func() tls.TLSExtension { return &tls.PSKKeyExchangeModesExtension{Modes: []uint8{1}} },
		func() tls.TLSExtension {
			return &tls.UtlsCompressCertExtension{Algorithms: []tls.CertCompressionAlgo{tls.CertCompressionBrotli}}
		},
		func() tls.TLSExtension { return &tls.FakeRecordSizeLimitExtension{Limit: 0x4001} },
		func() tls.TLSExtension { return rn.greaseECH() },
		func() tls.TLSExtension { return &tls.ApplicationSettingsExtension{SupportedProtocols: []string{"h2"}} },
	}
	s := &tls.ClientHelloSpec{CompressionMethods: []byte{0}}
	tls13 := shape != "legacy" && shape != "legacy-sv"
	if tls13 {
		s.CipherSuites = []uint16{g(r), tls.TLS_AES_128_GCM_SHA256, tls.TLS_AES_256_GCM_SHA384, tls.TLS_CHACHA20_POLY1305_SHA256}
	}
	s.CipherSuites = append(s.CipherSuites, tls.TLS_ECDHE_ECDSA_WITH_AES_128_GCM_SHA256, tls.TLS_ECDHE_RSA_WITH_AES_128_GCM_SHA256,
		tls.TLS_ECDHE_RSA_WITH_AES_256_GCM_SHA384, tls.TLS_RSA_WITH_AES_128_CBC_SHA)
	if shape == "scsv" || r.Intn(5) == 0 {
		extra := [][]uint16{{0x5600}, {0x00ff}, {0x00ff, 0x5600}, {0x1234}, {0x5600, 0xfefe}}[r.Intn(5)]
		if shape == "scsv" {
			extra = [][]uint16{{0x5600}, {0x00ff, 0x5600}, {0x5600, 0x00ff, 0x1234}}[r.Intn(3)]
		}
		pos := r.Intn(len(s.CipherSuites) + 1)
		s.CipherSuites = append(s.CipherSuites[:pos], append(extra, s.CipherSuites[pos:]...)...)
	}
	k := 3 + r.Intn(8)
	if shape == "psk-padding" || shape == "psk" {
		k = len(pool) // long enough for the padding range
	}
	hasECH := false
	for _, i := range r.Perm(len(pool))[:k] {
		e := pool[i]()
		if _, ok := e.(*tls.GREASEEncryptedClientHelloExtension); ok {
			hasECH = true
		}
		s.Extensions = append(s.Extensions, e)
	}
	if shape == "ech" && !hasECH {
		s.Extensions = append(s.Extensions, rn.greaseECH())
	}
	s.Extensions = append(s.Extensions, &tls.SupportedCurvesExtension{Curves: []tls.CurveID{tls.CurveID(g(r)), tls.X25519, tls.CurveP256}})
	switch {
	case tls13:
		s.Extensions = append(s.Extensions,
			&tls.SupportedVersionsExtension{Versions: []uint16{g(r), tls.VersionTLS13, tls.VersionTLS12}},
			&tls.KeyShareExtension{KeyShares: rn.keyShares()})
	case shape == "legacy-sv":
		s.Extensions = append(s.Extensions, &tls.SupportedVersionsExtension{Versions: [][]uint16{
			{tls.VersionTLS11, tls.VersionTLS10}, {tls.VersionTLS12, tls.VersionTLS11}, {tls.VersionTLS10}}[r.Intn(3)]})
	default:
		v := [][2]uint16{{tls.VersionTLS10, tls.VersionTLS10}, {tls.VersionTLS10, tls.VersionTLS11}, {tls.VersionTLS11, tls.VersionTLS11},
			{tls.VersionTLS10, tls.VersionTLS12}, {tls.VersionTLS12, tls.VersionTLS12}}[r.Intn(5)]
		s.TLSVersMin, s.TLSVersMax = v[0], v[1]
	}
	r.Shuffle(len(s.Extensions), func(i, j int) { s.Extensions[i], s.Extensions[j] = s.Extensions[j], s.Extensions[i] })
	if shape == "psk-padding" || (shape != "psk" && r.Intn(3) == 0) {
		s.Extensions = append(s.Extensions, &tls.UtlsPaddingExtension{GetPaddingLen: tls.BoringPaddingStyle})
	}
	if shape == "psk-padding" || shape == "psk" {
		s.Extensions = append(s.Extensions, fakePSK(r, 1+r.Intn(2)))
	}
	return s
}

// keyShares: key_share lists of several shapes; a GREASE share carries key_exchange bytes of several
// sizes (BoringSSL sends one zero byte, other stacks need not), real shares are generated by ApplyPreset.
func (rn *runner) keyShares() []tls.KeyShare {
	r := rn.r
	grease := func() tls.KeyShare {
		d := make([]byte, []int{1, 1, 2, 3, 8, 32}[r.Intn(6)])
		r.Read(d)
		return tls.KeyShare{Group: tls.CurveID(extcoq.GreaseValue(r)), Data: d}
	}
	switch r.Intn(8) {
	case 0:
		return []tls.KeyShare{{Group: tls.X25519}}
	case 1:
		return []tls.KeyShare{{Group: tls.X25519}, grease()}
	case 2:
		return []tls.KeyShare{grease(), {Group: tls.X25519}, {Group: tls.CurveP256}}
	case 3:
		return []tls.KeyShare{grease(), grease(), {Group: tls.X25519}}
	}
	return []tls.KeyShare{grease(), {Group: tls.X25519}}
}

// greaseECH: a GREASE encrypted_client_hello whose per-connection parts have non-default sizes: the
// encapsulated key of X25519 (32), P-256 (65), P-384 (97), P-521 (133) KEMs or generated (nil), payload
// lengths other than Chrome's, every supported KDF / AEAD.
func (rn *runner) greaseECH() *tls.GREASEEncryptedClientHelloExtension {
	r := rn.r
	e := &tls.GREASEEncryptedClientHelloExtension{
		CandidateCipherSuites: []tls.HPKESymmetricCipherSuite{{KdfId: uint16(1 + r.Intn(3)), AeadId: uint16(1 + r.Intn(3))}},
	}
	if n := []int{0, 32, 65, 97, 133}[r.Intn(5)]; n > 0 {
		e.EncapsulatedKey = make([]byte, n)
		r.Read(e.EncapsulatedKey)
	}
	if r.Intn(4) != 0 {
		e.CandidatePayloadLens = []uint16{[]uint16{1, 17, 32, 128, 160, 192, 223, 300}[r.Intn(8)]}
	}
	if r.Intn(2) == 0 {
		e.CandidateConfigIds = []uint8{uint8(r.Intn(256))}
	}
	return e
}

func fakePSK(r *rand.Rand, n int) *tls.FakePreSharedKeyExtension {
	e := &tls.FakePreSharedKeyExtension{}
	for i := 0; i < n; i++ {
		label, binder := make([]byte, 16+r.Intn(48)), make([]byte, 32)
		r.Read(label)
		r.Read(binder)
		e.Identities = append(e.Identities, tls.PskIdentity{Label: label, ObfuscatedTicketAge: r.Uint32()})
		e.Binders = append(e.Binders, binder)
	}
	return e
}

// pskParrot: the spec of a PSK parrot with its pre_shared_key extension replaced by a filled
// FakePreSharedKeyExtension (what a capture of a resuming browser looks like).
func pskParrotSpec(p parrot, r *rand.Rand) *tls.ClientHelloSpec {
	spec, err := tls.UTLSIdToSpec(p.ID)
	if err != nil {
		return nil
	}
	has := false
	for i, e := range spec.Extensions {
		if _, ok := e.(tls.PreSharedKeyExtension); ok {
			spec.Extensions[i] = fakePSK(r, 1)
			has = true
		}
	}
	if !has {
		return nil
	}
	return &spec
}

var shapes = []string{"tls13", "legacy", "legacy-sv", "scsv", "psk-padding", "psk", "ech", "legacy", "scsv", "psk-padding", "ech", "tls13"}

func run(c *vh.Ctx) {
	rn := &runner{c: c, r: c.Rng}
	fls := []flags{{false, false, false}, {true, true, false}, {false, false, true}}
	coqLimit := 700
	if c.Tier != "quick" {
		coqLimit = 2000
	}
	// parrots (the PSK ones as resuming hellos with a filled pre_shared_key)
	for _, p := range parrots() {
		rec1, err := build(sniA, p.ID, nil)
		name := p.Name
		if err != nil {
			if spec := pskParrotSpec(p, rn.r); spec != nil {
				rec1, err = build(sniA, tls.HelloCustom, spec)
				name += "-resuming"
			}
		}
		if err != nil {
			c.Count("parrot-build-error")
			continue
		}
		for _, f := range fls {
			rn.roundTrip(name, rec1, f, coqLimit)
		}
	}
	// randomized fingerprints
	for _, p := range randomizedParrots(c.N, c.Seed) {
		rec1, err := build(sniA, p.ID, nil)
		if err != nil {
			c.Count("randomized-build-error")
			continue
		}
		rn.roundTrip("Randomized", rec1, fls[rn.r.Intn(3)], coqLimit)
	}
	// generated custom specs of every shape, under every flag set in turn, with record-layer version variants
	for i := 0; i < 2*c.N; i++ {
		shape := shapes[i%len(shapes)]
		rec1, err := build(sniA, tls.HelloCustom, rn.genSpec(shape))
		if err != nil {
			c.Count("custom-build-error:" + shape + ":" + clip(err.Error(), 50))
			continue
		}
		// record-layer version: 0x0301 as most stacks, or anything up to the legacy_version
		if legacyMinor := rec1[10]; rn.r.Intn(2) == 0 && legacyMinor >= 1 {
			rec1 = reRecord(rec1, byte(1+rn.r.Intn(int(legacyMinor))))
		}
		rn.roundTrip("Custom-"+shape, rec1, fls[(i/len(shapes)+i)%3], coqLimit)
	}
}

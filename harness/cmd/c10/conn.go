package main

// One loopback-TCP connection between a uTLS client and the scripted server, like hs.Run, but with the
// application-data phase the property asks for: the client performs several Writes of different sizes
// (1, 2, 17, 16384, 20000 bytes), every Write's (n, err) is recorded, the server echoes everything, and the
// client compares what it reads with what it wrote (both directions carry the full payload).

import (
	"bytes"
	"errors"
	"io"
	"net"
	"reflect"
	"time"

	tls "github.com/refraction-networking/utls"
	"verif/harness/hs"
)

var writeSizes = []int{1, 2, 17, 16384, 20000}

type writeObs struct {
	Size int    `json:"size"`
	N    int    `json:"n"`
	Err  string `json:"err"`
}

type connResult struct {
	*hs.Result
	Writes  []writeObs
	EchoOK  bool   // the client read back exactly the bytes it wrote
	EchoErr string // read error / mismatch description
}

func payload(size, k int) []byte {
	b := make([]byte, size)
	for i := range b {
		b[i] = byte(i*31 + size + 7*k)
	}
	return b
}

func remoteAlert(err error) int {
	var op *net.OpError
	if errors.As(err, &op) && op.Op == "remote error" && op.Err != nil {
		v := reflect.ValueOf(op.Err)
		if v.Kind() == reflect.Uint8 {
			return int(v.Uint())
		}
	}
	var ae tls.AlertError
	if errors.As(err, &ae) {
		return int(ae)
	}
	return -1
}

func runConn(o hs.Opts) *connResult {
	res := &connResult{Result: &hs.Result{AlertFromClient: -1, AlertFromServer: -1}}
	if o.Timeout == 0 {
		o.Timeout = 6 * time.Second
	}
	script := o.Script
	if script == nil {
		script = &tls.VerifServerScript{}
	}
	total := 0
	for _, s := range writeSizes {
		total += s
	}
	ln, err := net.Listen("tcp", "127.0.0.1:0")
	if err != nil {
		res.BuildErr = err
		return res
	}
	defer ln.Close()
	type srvOut struct {
		err   error
		state tls.ConnectionState
		curve uint16
	}
	done := make(chan srvOut, 1)
	go func() {
		conn, err := ln.Accept()
		if err != nil {
			done <- srvOut{err: err}
			return
		}
		defer conn.Close()
		conn.SetDeadline(time.Now().Add(o.Timeout))
		sc := tls.VerifScriptedServer(conn, o.ServerCfg, script)
		herr := sc.Handshake()
		out := srvOut{err: herr}
		if herr == nil {
			out.state = sc.ConnectionState()
			out.curve = tls.VerifCurveID(sc)
			// echo: read what arrives until the announced total or an error, send back what was read
			buf := make([]byte, total)
			n, rerr := io.ReadFull(sc, buf)
			if n > 0 {
				sc.Write(buf[:n])
			}
			if rerr != nil {
				out.err = errors.New("after handshake: " + rerr.Error())
			}
			sc.Close()
		}
		done <- out
	}()

	raw, err := net.DialTimeout("tcp", ln.Addr().String(), o.Timeout)
	if err != nil {
		res.BuildErr = err
		return res
	}
	rc := &hs.RecConn{Conn: raw}
	defer rc.Close()
	rc.SetDeadline(time.Now().Add(o.Timeout))
	uc := tls.UClient(rc, o.ClientCfg, o.ID)
	if o.Spec != nil {
		if err := uc.ApplyPreset(o.Spec); err != nil {
			res.BuildErr = err
		}
	}
	if res.BuildErr == nil && o.Prepare != nil {
		res.BuildErr = o.Prepare(uc)
	}
	if res.BuildErr == nil {
		res.BuildErr = uc.BuildHandshakeState()
	}
	if res.BuildErr != nil {
		rc.Close()
		<-done
		return res
	}
	res.View = tls.VerifClientViewOf(uc)
	res.KeyShareKeys = uc.HandshakeState.State13.KeyShareKeys
	for _, e := range uc.Extensions {
		if _, ok := e.(*tls.UtlsCompressCertExtension); ok {
			res.HasCompressCertExt = true
		}
	}
	res.ClientErr = uc.Handshake()
	if res.ClientErr == nil {
		res.ClientState = uc.ConnectionState()
		res.ClientCurve = tls.VerifCurveID(uc.Conn)
		res.ClientDidHRR = tls.VerifDidHRR(uc.Conn)
		var sent []byte
		writesOK := true
		for k, size := range writeSizes {
			msg := payload(size, k)
			n, werr := uc.Write(msg)
			w := writeObs{Size: size, N: n}
			if werr != nil {
				w.Err = werr.Error()
			}
			res.Writes = append(res.Writes, w)
			if werr != nil {
				writesOK = false
				break
			}
			sent = append(sent, msg...)
		}
		if writesOK {
			buf := make([]byte, len(sent))
			n, rerr := io.ReadFull(uc, buf)
			switch {
			case rerr != nil:
				res.EchoErr = "read " + rerr.Error()
				res.AlertFromServer = remoteAlert(rerr)
			case !bytes.Equal(buf[:n], sent):
				res.EchoErr = "echo differs from what was written"
			default:
				res.EchoOK = true
			}
		}
		res.AppData = res.EchoOK
		uc.Close()
	} else {
		res.AlertFromServer = remoteAlert(res.ClientErr)
		rc.Close()
	}
	so := <-done
	res.ServerErr = so.err
	res.ServerState = so.state
	res.ServerCurve = so.curve
	if so.err != nil {
		res.AlertFromClient = remoteAlert(so.err)
	}
	res.Trace = script.Trace
	res.ClientStream = rc.Written()
	res.Hellos = hs.ClientHellosFromStream(res.ClientStream)
	if len(res.Hellos) > 0 {
		res.Wire, _ = hs.ParseClientHello(res.Hellos[0])
	}
	if len(res.Hellos) > 1 {
		res.Wire2, _ = hs.ParseClientHello(res.Hellos[1])
	}
	res.ServerHelloVers, res.ServerHelloRandom, res.ServerHelloSID, res.ServerHelloSuite, res.ServerHelloSeen = hs.ServerHelloFromStream(rc.ReadBytes())
	if res.AlertFromClient < 0 {
		if al := hs.PlainAlerts(res.ClientStream); len(al) > 0 {
			res.AlertFromClient = int(al[len(al)-1][1])
		}
	}
	return res
}

// C10 runner: every offered fingerprint completes a handshake with a compliant server.
//
// Real handshakes over loopback TCP between a uTLS client (38 parrots, reproducible randomized fingerprints,
// fingerprinted copies of their own ClientHello, custom specs) and the library's own server configured with ONE
// choice at a time out of (what this very hello offers) /\ (what utls implements): MaxVersion 1.2 / 1.3; each
// offered+implemented group alone in CurvePreferences (a share the hello sent: direct; otherwise the server sends
// a HelloRetryRequest); each offered TLS 1.3 suite; each offered TLS 1.2 suite the certificates can serve alone in
// CipherSuites; ALPN preferences h2 / http/1.1 / none; ECDSA / RSA / Ed25519 leaf alone; each advertised
// certificate-compression algorithm; for the *_PSK parrots a resumption attempt answered by a HelloRetryRequest.
// Application data is echoed both ways.
//   - Go-side oracle (property text): the server answered the hello (it did not reject the offer) and the client
//     did not complete / the echo failed  ->  failure `<kind>/<class>`;
//   - CInst: the premises of C10_holds_if (spec_ok) on the class's real view, retained keys and wire hello;
//   - CRun / CRunX: the flight a compliant server sends for that configuration, and the observed client decision
//     against Model/Complete.v client_run10.
package main

import (
	"crypto/ed25519"
	"crypto/rand"
	"crypto/x509"
	"crypto/x509/pkix"
	"fmt"
	"math/big"
	"os"
	"reflect"
	"sort"
	"strings"
	"sync"
	"time"

	"crypto/ecdh"

	tls "github.com/refraction-networking/utls"
	"verif/harness/hs"
	"verif/harness/vh"
)

func main() { vh.Main(map[string]vh.Suite{"C10": {Corr: "Corr.C10Corr", Run: run}}) }

type class struct {
	name string
	kind string
	id   tls.ClientHelloID
	mk   func() *tls.ClientHelloSpec
}

type scenario struct {
	kind    string // version12 | version13 | first-share | second-share | hrr | hrr-hybrid | suite13 | suite12 | alpn | cert-ecdsa | cert-rsa | cert-ed25519 | certcomp | psk-hrr
	detail  string
	cfg     func(*tls.Config)
	script  func(*tls.VerifServerScript)
	alpn    []string
	psk     bool // resumption attempt: a first full handshake fills the session cache
	exclude bool // one of the two classes C10_holds_if excludes (the client is expected to abort: a finding)
}

var edCert *tls.Certificate
var edOnce sync.Once

func ed25519Leaf(p *hs.PKI) tls.Certificate {
	edOnce.Do(func() {
		pub, priv, _ := ed25519.GenerateKey(rand.Reader)
		t := &x509.Certificate{SerialNumber: big.NewInt(time.Now().UnixNano()), Subject: pkix.Name{CommonName: hs.ServerName},
			NotBefore: time.Now().Add(-time.Hour), NotAfter: time.Now().Add(12 * time.Hour), DNSNames: []string{hs.ServerName},
			KeyUsage: x509.KeyUsageDigitalSignature, ExtKeyUsage: []x509.ExtKeyUsage{x509.ExtKeyUsageServerAuth}}
		der, _ := x509.CreateCertificate(rand.Reader, t, p.CACert, pub, p.CAKey)
		edCert = &tls.Certificate{Certificate: [][]byte{der}, PrivateKey: priv}
	})
	return *edCert
}

var real13 = []uint16{tls.TLS_AES_128_GCM_SHA256, tls.TLS_AES_256_GCM_SHA384, tls.TLS_CHACHA20_POLY1305_SHA256}
var serverGroups = []uint16{29, 23, 24, 25, 4588}

func offers13(w *hs.WireHello) bool { return hs.ContainsU16(w.SupportedVersions, tls.VersionTLS13) }

// suites of TLS <= 1.2 the library's server can serve with the harness certificates
func suites12(w *hs.WireHello) []uint16 {
	impl := map[uint16]bool{}
	for _, id := range hs.AllSuites12() {
		impl[id] = true
	}
	var out []uint16
	for _, id := range w.CipherSuites {
		if impl[id] {
			out = append(out, id)
		}
	}
	return out
}

func scenarios(p *hs.PKI, w *hs.WireHello, pskParrot bool) []scenario {
	var sc []scenario
	v13 := offers13(w)
	both := []string{"h2", "http/1.1"}
	sc = append(sc, scenario{kind: "version12", detail: "max1.2", alpn: both, cfg: func(c *tls.Config) { c.MaxVersion = tls.VersionTLS12 }})
	if v13 {
		sc = append(sc, scenario{kind: "version13", detail: "max1.3", alpn: both})
		for _, g := range serverGroups {
			g := g
			if !hs.ContainsU16(w.SupportedGroups, g) {
				continue
			}
			kind := "hrr"
			excl := false
			idx := -1
			for i, s := range w.KeyShareGroups {
				if s == g {
					idx = i
				}
			}
			first := true
			for i, s := range w.KeyShareGroups {
				if !hs.IsGREASE(s) && i < idx {
					first = false
				}
			}
			switch {
			case idx >= 0 && first:
				kind = "first-share"
			case idx >= 0:
				kind = "second-share"
			case g == 4588:
				kind, excl = "hrr-hybrid", true
			}
			var scr func(*tls.VerifServerScript)
			if idx < 0 {
				// no share for g: the server's HelloRetryRequest (same message the library's own server sends), through the
				// scripted path so that the trace records it
				scr = func(s *tls.VerifServerScript) { s.HRRGroup = tls.CurveID(g) }
			}
			sc = append(sc, scenario{kind: kind, detail: fmt.Sprint(g), alpn: both, exclude: excl, script: scr, cfg: func(c *tls.Config) { c.CurvePreferences = []tls.CurveID{tls.CurveID(g)} }})
		}
		for _, s := range real13 {
			s := s
			if hs.ContainsU16(w.CipherSuites, s) {
				sc = append(sc, scenario{kind: "suite13", detail: fmt.Sprintf("0x%04x", s), alpn: both, script: func(sc *tls.VerifServerScript) { sc.Suite = s }})
			}
		}
		for _, a := range w.CertCompressionAlgs {
			a := a
			if a >= 1 && a <= 3 {
				sc = append(sc, scenario{kind: "certcomp", detail: fmt.Sprint(a), alpn: both, script: func(sc *tls.VerifServerScript) { sc.CertCompression = a }})
			}
		}
	}
	for _, s := range suites12(w) {
		s := s
		sc = append(sc, scenario{kind: "suite12", detail: fmt.Sprintf("0x%04x", s), alpn: both, cfg: func(c *tls.Config) {
			c.MaxVersion = tls.VersionTLS12
			c.CipherSuites = []uint16{s}
		}})
	}
	for _, a := range [][]string{{"h2"}, {"http/1.1"}, nil} {
		a := a
		sc = append(sc, scenario{kind: "alpn", detail: strings.Join(a, ","), alpn: a})
	}
	ed := ed25519Leaf(p)
	for _, ct := range []struct {
		name string
		cert tls.Certificate
	}{{"cert-ecdsa", p.ECDSA}, {"cert-rsa", p.RSA}, {"cert-ed25519", ed}} {
		ct := ct
		for _, mv := range []uint16{tls.VersionTLS13, tls.VersionTLS12} {
			mv := mv
			if mv == tls.VersionTLS13 && !v13 {
				continue
			}
			if !sigOffered(w, ct.name, mv) {
				continue // the hello does not offer a signature algorithm this certificate can use: not an offered choice
			}
			sc = append(sc, scenario{kind: ct.name, detail: fmt.Sprintf("max%x", mv), alpn: both, cfg: func(c *tls.Config) {
				c.Certificates = []tls.Certificate{ct.cert}
				c.MaxVersion = mv
			}})
		}
	}
	if pskParrot && v13 {
		for _, g := range []uint16{23, 24} {
			g := g
			if hs.ContainsU16(w.SupportedGroups, g) && !hs.ContainsU16(w.KeyShareGroups, g) {
				sc = append(sc, scenario{kind: "psk-hrr", detail: fmt.Sprint(g), alpn: both, psk: true, exclude: true,
					script: func(s *tls.VerifServerScript) { s.HRRGroup = tls.CurveID(g) },
					cfg:    func(c *tls.Config) { c.CurvePreferences = []tls.CurveID{tls.CurveID(g)} }})
				break
			}
		}
	}
	return sc
}

// sigOffered: signature_algorithms lists a scheme the leaf can sign with at that version (RFC 8446 4.2.3).
func sigOffered(w *hs.WireHello, cert string, vers uint16) bool {
	has := func(ids ...uint16) bool {
		for _, id := range ids {
			if hs.ContainsU16(w.SignatureAlgorithms, id) {
				return true
			}
		}
		return false
	}
	switch cert {
	case "cert-ed25519":
		return has(0x0807)
	case "cert-ecdsa": // P-256 leaf
		if vers == tls.VersionTLS13 {
			return has(0x0403)
		}
		return has(0x0403, 0x0503, 0x0603, 0x0203) || len(w.SignatureAlgorithms) == 0
	default: // RSA 2048
		if vers == tls.VersionTLS13 {
			return has(0x0804, 0x0805, 0x0806)
		}
		return has(0x0804, 0x0805, 0x0806, 0x0401, 0x0501, 0x0601, 0x0201) || len(w.SignatureAlgorithms) == 0
	}
}

// serverPick: the group the library's TLS 1.3 server selects (handshake_server_tls13.go:208-230): its preferences
// restricted to supported_groups, those with a key share first, the PQ hybrid before everything.
func serverPick(w *hs.WireHello, prefs []tls.CurveID) uint16 {
	if len(prefs) == 0 {
		prefs = []tls.CurveID{tls.X25519MLKEM768, tls.X25519, tls.CurveP256, tls.CurveP384, tls.CurveP521}
	}
	var cand []uint16
	for _, g := range prefs {
		if hs.ContainsU16(w.SupportedGroups, uint16(g)) {
			cand = append(cand, uint16(g))
		}
	}
	if len(cand) == 0 {
		return 0
	}
	sort.SliceStable(cand, func(i, j int) bool {
		return hs.ContainsU16(w.KeyShareGroups, cand[i]) && !hs.ContainsU16(w.KeyShareGroups, cand[j])
	})
	sort.SliceStable(cand, func(i, j int) bool { return cand[i] == 4588 && cand[j] != 4588 })
	return cand[0]
}

type outcome struct {
	cl   class
	sc   scenario
	res  *hs.Result
	scfg *tls.Config
}

func extraCurves(ks *tls.KeySharePrivateKeys) []uint16 {
	var out []uint16
	if ks == nil {
		return out
	}
	f := reflect.ValueOf(ks).Elem().FieldByName("ExtraEcdhe")
	if !f.IsValid() {
		return out
	}
	keys, _ := f.Interface().([]*ecdh.PrivateKey)
	for _, k := range keys {
		out = append(out, hs.CurveOfKey(k))
	}
	return out
}

func treeFixed() bool {
	_, ok := reflect.TypeOf(tls.KeySharePrivateKeys{}).FieldByName("ExtraEcdhe")
	return ok
}

func shapeTerm(ks *tls.KeySharePrivateKeys) string {
	if ks == nil {
		return "(mkShape 0 [] false 0)"
	}
	return fmt.Sprintf("(mkShape %d %s %s %d)", hs.CurveOfKey(ks.Ecdhe), vh.U16s(extraCurves(ks)), vh.Bool(ks.Mlkem != nil), hs.CurveOfKey(ks.MlkemEcdhe))
}

func specMin(cl class) uint16 {
	if cl.mk != nil {
		return cl.mk().TLSVersMin
	}
	if sp, err := tls.UTLSIdToSpec(cl.id); err == nil {
		return sp.TLSVersMin
	}
	return 0
}

func runOne(p *hs.PKI, cl class, sc scenario, cache tls.ClientSessionCache) *outcome {
	scfg := p.ServerConfig(sc.alpn...)
	if sc.cfg != nil {
		sc.cfg(scfg)
	}
	ccfg := p.ClientConfig()
	if sc.psk {
		// a first full handshake against an ordinary server stores a ticket; the second hello carries pre_shared_key
		scfg0 := p.ServerConfig(sc.alpn...)
		scfg0.SessionTicketsDisabled = false
		key := [32]byte{1, 2, 3}
		scfg0.SetSessionTicketKeys([][32]byte{key})
		scfg.SessionTicketsDisabled = false
		scfg.SetSessionTicketKeys([][32]byte{key})
		ccfg.ClientSessionCache = cache
		var sp *tls.ClientHelloSpec
		if cl.mk != nil {
			sp = cl.mk()
		}
		first := hs.Run(hs.Opts{ID: cl.id, Spec: sp, ClientCfg: ccfg, ServerCfg: scfg0})
		_ = first
		ccfg = p.ClientConfig()
		ccfg.ClientSessionCache = cache
	}
	script := &tls.VerifServerScript{}
	if sc.script != nil {
		sc.script(script)
	}
	var sp *tls.ClientHelloSpec
	if cl.mk != nil {
		sp = cl.mk()
	}
	r := hs.Run(hs.Opts{ID: cl.id, Spec: sp, ClientCfg: ccfg, ServerCfg: scfg, Script: script})
	return &outcome{cl: cl, sc: sc, res: r, scfg: scfg}
}

func tailOf(random []byte) int {
	if len(random) == 32 {
		switch string(random[24:]) {
		case "DOWNGRD\x01":
			return 1
		case "DOWNGRD\x00":
			return 2
		}
	}
	return 0
}

// flightTerm: the flight a compliant server with this configuration sends for wire hello w (reconstructed from the
// configuration and what the server reports having used); ok=false when the server rejected the offer.
func flightTerm(o *outcome) (term string, answered bool, hrrGroup uint16) {
	r, w, tr := o.res, o.res.Wire, o.res.Trace
	// the server answered the hello if it sent a handshake message through the scripted path, or - a HelloRetryRequest
	// issued inside the library's processClientHello is not traced - the client aborted on its own (no alert from the server)
	clientAborted := r.ClientErr != nil && r.AlertFromServer < 0 && !strings.HasPrefix(errStr(r.ClientErr), "remote error")
	if len(tr.Sent) == 0 && !clientAborted {
		return "", false, 0
	}
	alpn, _ := hs.NegotiatedALPN(o.sc.alpn, w.ALPN)
	is13 := tr.Version == tls.VersionTLS13 || tr.SentHRR || (tr.Version == 0 && offers13(w) && o.scfg.MaxVersion != tls.VersionTLS12)
	if is13 {
		suite := tr.Suite
		if suite == 0 {
			suite = tr.HRRSuite
		}
		if suite == 0 {
			for _, s := range real13 {
				if hs.ContainsU16(w.CipherSuites, s) {
					suite = s
					break
				}
			}
		}
		group := serverPick(w, o.scfg.CurvePreferences)
		hrr := "None"
		if !hs.ContainsU16(w.KeyShareGroups, group) {
			hrrGroup = group
			hrr = fmt.Sprintf("(Some (mkHello 771 772 0 %s %d 0 0 %d false None []))", vh.Bytes(w.SessionID), suite, group)
		}
		sh := fmt.Sprintf("(mkHello 771 772 %d %s %d 0 %d 0 false None [])", tailOf(tr.ServerRandom), vh.Bytes(w.SessionID), suite, group)
		cc := "None"
		if o.sc.kind == "certcomp" {
			cc = "(Some " + o.sc.detail + ")"
		}
		return fmt.Sprintf("(mkFlight %s %s %s %s None true)", hrr, sh, vh.Str(alpn), cc), true, hrrGroup
	}
	if tr.Version == 0 {
		return "", false, 0
	}
	skx := "None"
	if tr.Group != 0 {
		skx = fmt.Sprintf("(Some %d)", uint16(tr.Group))
	}
	sh := fmt.Sprintf("(mkHello %d 0 %d [] %d 0 0 0 false None %s)", tr.HelloVers, tailOf(tr.ServerRandom), tr.Suite, vh.Str(alpn))
	return fmt.Sprintf("(mkFlight None %s [] None %s true)", sh, skx), true, 0
}

func customSpec(shares []tls.CurveID, groups []tls.CurveID) func() *tls.ClientHelloSpec {
	return func() *tls.ClientHelloSpec {
		sp, _ := tls.UTLSIdToSpec(tls.HelloFirefox_120)
		for _, e := range sp.Extensions {
			if ks, ok := e.(*tls.KeyShareExtension); ok {
				ks.KeyShares = nil
				for _, g := range shares {
					ks.KeyShares = append(ks.KeyShares, tls.KeyShare{Group: g})
				}
			}
			if sc, ok := e.(*tls.SupportedCurvesExtension); ok {
				sc.Curves = append([]tls.CurveID(nil), groups...)
			}
		}
		return &sp
	}
}

func fingerprinted(p *hs.PKI, cl class) (class, bool) {
	uc := tls.UClient(nil, p.ClientConfig(), cl.id)
	if cl.mk != nil {
		if err := uc.ApplyPreset(cl.mk()); err != nil {
			return class{}, false
		}
	}
	if err := uc.BuildHandshakeState(); err != nil {
		return class{}, false
	}
	raw := uc.HandshakeState.Hello.Raw
	rec := append([]byte{0x16, 0x03, 0x01, byte(len(raw) >> 8), byte(len(raw))}, raw...)
	if _, err := (&tls.Fingerprinter{AllowBluntMimicry: true}).FingerprintClientHello(rec); err != nil {
		return class{}, false
	}
	return class{name: "fp-" + cl.name, kind: "fingerprinted", id: tls.HelloCustom, mk: func() *tls.ClientHelloSpec {
		sp, _ := (&tls.Fingerprinter{AllowBluntMimicry: true}).FingerprintClientHello(rec)
		return sp
	}}, true
}

func run(c *vh.Ctx) {
	p := hs.SharedPKI()
	fixed := treeFixed()
	c.Extra["tree_has_ExtraEcdhe"] = fixed
	quick := c.Tier == "quick"
	debug := os.Getenv("C10_DEBUG") != ""

	var classes []class
	for _, pr := range hs.Parrots() {
		classes = append(classes, class{name: pr.Name, kind: "parrot", id: pr.ID})
	}
	nrand := 200
	if quick {
		nrand = 10
	}
	for _, pr := range hs.RandomizedParrots(nrand, c.Seed) {
		classes = append(classes, class{name: pr.Name, kind: "randomized", id: pr.ID})
	}
	base := len(classes)
	for i := 0; i < base; i++ {
		if quick && (i+int(c.Seed))%5 != 0 {
			continue
		}
		if !quick && classes[i].kind == "randomized" && i%4 != 0 {
			continue
		}
		if fc, ok := fingerprinted(p, classes[i]); ok {
			classes = append(classes, fc)
		}
	}
	all := []tls.CurveID{tls.X25519MLKEM768, tls.X25519, tls.CurveP256, tls.CurveP384, tls.CurveP521}
	classes = append(classes,
		class{name: "custom-five-shares", kind: "custom", id: tls.HelloCustom, mk: customSpec([]tls.CurveID{tls.CurveP256, tls.X25519MLKEM768, tls.X25519, tls.CurveP384, tls.CurveP521}, all)},
		class{name: "custom-mlkem-only", kind: "custom", id: tls.HelloCustom, mk: customSpec([]tls.CurveID{tls.X25519MLKEM768}, all)},
		class{name: "custom-p384-only-groups", kind: "custom", id: tls.HelloCustom, mk: customSpec([]tls.CurveID{tls.CurveP384}, []tls.CurveID{tls.CurveP384, tls.CurveP521})})

	// ---- jobs ----
	type job struct {
		cl class
		sc scenario
	}
	var jobs []job
	probes := map[string]*hs.Result{}
	for ci, cl := range classes {
		var sp *tls.ClientHelloSpec
		if cl.mk != nil {
			sp = cl.mk()
		}
		pr := hs.Run(hs.Opts{ID: cl.id, Spec: sp, ClientCfg: p.ClientConfig(), ServerCfg: p.ServerConfig("h2", "http/1.1")})
		if pr.BuildErr != nil || pr.Wire == nil {
			c.Count("build-error")
			continue
		}
		probes[cl.name] = pr
		scs := scenarios(p, pr.Wire, cl.kind == "parrot" && strings.Contains(cl.name, "PSK"))
		for si, sc := range scs {
			if quick {
				// every class meets every kind; within a kind the variants rotate with the seed, except the group choices
				// of the predefined parrots and the excluded classes, which always run
				keep := sc.exclude || ((sc.kind == "first-share" || sc.kind == "second-share" || sc.kind == "hrr") && cl.kind != "randomized" && cl.kind != "fingerprinted")
				if !keep && (ci+si+int(c.Seed))%4 != 0 {
					continue
				}
			}
			jobs = append(jobs, job{cl, sc})
		}
	}
	out := make([]*outcome, len(jobs))
	var wg sync.WaitGroup
	sem := make(chan struct{}, 16)
	for i, j := range jobs {
		wg.Add(1)
		sem <- struct{}{}
		go func(i int, j job) {
			defer wg.Done()
			defer func() { <-sem }()
			out[i] = runOne(p, j.cl, j.sc, tls.NewLRUClientSessionCache(8))
		}(i, j)
	}
	wg.Wait()

	// ---- CInst per class ----
	for _, cl := range classes {
		pr := probes[cl.name]
		if pr == nil {
			continue
		}
		c.Case("inst-"+cl.kind, fmt.Sprintf("(CInst %s %s %s %d %s)", vh.Bool(fixed), hs.ViewTerm(pr), shapeTerm(pr.KeyShareKeys), specMin(cl), hs.WireTerm(pr.Wire)),
			"inst/"+cl.name, len(pr.Wire.KeyShareGroups) > 0, map[string]any{"class": cl.name})
	}

	// ---- per handshake ----
	for _, o := range out {
		r := o.res
		key := o.sc.kind + "/" + o.cl.name
		if r.BuildErr != nil || r.Wire == nil {
			c.Count("build-error")
			continue
		}
		fl, answered, hrrGroup := flightTerm(o)
		if hrrGroup == 4588 && !o.sc.exclude {
			// the server's own preference asked for the hybrid group this hello lists without a share
			o.sc.kind, o.sc.exclude = "hrr-hybrid", true
			key = o.sc.kind + "/" + o.cl.name
		}
		if o.sc.psk && r.Wire.PSKIdentities == 0 {
			c.Count("psk-not-offered")
			continue
		}
		completed := r.ClientErr == nil && r.AppData
		input := map[string]any{"class": o.cl.name, "kind": o.sc.kind, "server_choice": o.sc.detail, "server_alpn": o.sc.alpn,
			"wire_versions": r.Wire.SupportedVersions, "wire_groups": r.Wire.SupportedGroups, "wire_key_shares": r.Wire.KeyShareGroups,
			"wire_psk_identities": r.Wire.PSKIdentities}
		if !answered {
			// the server rejected the offer (no common suite / signature algorithm / group): allowed by the property
			c.Count("server-declined")
			if debug {
				fmt.Printf("DECLINED %-34s %-13s %-10s serr=%q\n", o.cl.name, o.sc.kind, o.sc.detail, errStr(r.ServerErr))
			}
			continue
		}
		if !completed {
			c.Fail(key, "the server chose only values this ClientHello offers and utls implements, and the client did not complete the handshake / the application data echo",
				input, map[string]any{"client_error": errStr(r.ClientErr), "server_error": errStr(r.ServerErr), "app_data": r.AppData,
					"alert_from_client": r.AlertFromClient, "alert_from_server": r.AlertFromServer, "hellos": len(r.Hellos)},
				"handshake completes and application data round-trips in both directions")
		}
		ctor := "CRun"
		if o.sc.exclude {
			ctor = "CRunX"
		}
		c.Case(o.sc.kind+"-"+o.cl.kind, fmt.Sprintf("(%s %s %s %s %d %s %s %s)", ctor, vh.Bool(fixed), hs.ViewTerm(r), shapeTerm(r.KeyShareKeys), specMin(o.cl),
			hs.WireTerm(r.Wire), fl, hs.ObsTerm(r)), fmt.Sprintf("%s/%s/%s", o.sc.kind, o.cl.name, o.sc.detail),
			o.sc.kind != "version13" && o.sc.kind != "first-share",
			map[string]any{"class": o.cl.name, "kind": o.sc.kind, "choice": o.sc.detail, "completed": completed, "client_error": errStr(r.ClientErr)})
		if debug {
			fmt.Printf("%-34s %-13s %-10s completed=%-5v alert=%-3d cerr=%q serr=%q\n", o.cl.name, o.sc.kind, o.sc.detail, completed, hs.ClientAlert(r), errStr(r.ClientErr), errStr(r.ServerErr))
		}
	}
	if debug {
		ks := vh.SortedKeys(c.Dist)
		sort.Strings(ks)
		for _, k := range ks {
			fmt.Println(k, c.Dist[k])
		}
	}
}

func errStr(e error) string {
	if e == nil {
		return ""
	}
	return strings.ReplaceAll(e.Error(), "\n", " ")
}

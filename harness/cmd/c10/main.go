// C10 runner: every offered fingerprint completes a handshake with a compliant server.
//
// Real handshakes over loopback TCP between a uTLS client (38 parrots, reproducible randomized fingerprints,
// fingerprinted copies of their own ClientHello, custom specs) and the library's own server configured with ONE
// choice at a time out of (what this very WIRE hello offers) /\ (what utls implements):
//   - each advertised protocol version as the server's maximum (TLS 1.0 / 1.1 / 1.2 / 1.3);
//   - each offered+implemented group alone in CurvePreferences: a share the hello sent (direct) or a
//     HelloRetryRequest, the HRR groups crossed with EVERY TLS 1.3 suite the hello offers;
//   - each offered TLS 1.3 suite; each offered implemented legacy suite alone at each advertised version <= 1.2
//     (AEAD, CBC, RC4, 3DES: RSA and ECDSA leaves);
//   - each protocol of the wire hello's ALPN list alone (and none), under different client Configs: NextProtos
//     unset, preset by the caller to a disjoint / an overlapping list, and a *Config shared with an earlier UConn
//     of a parrot whose ALPN list differs;
//   - ECDSA / RSA / Ed25519 leaf alone (when signature_algorithms offers a usable scheme); each advertised
//     certificate-compression algorithm; for the *_PSK parrots a resumption attempt answered by a HelloRetryRequest.
//
// After every handshake the client performs Writes of 1, 2, 17, 16384 and 20000 bytes, the server echoes them.
//   - Go-side oracle (property text): the server answered the hello and the client did not complete -> `<kind>/<class>`;
//     a Write that does not report (len(b), nil) -> `app-write/<class>`; the echo differs -> `app-echo/<class>`;
//   - CInst: the premises of C10_holds_if (spec_ok) on the class's real view, retained keys and wire hello;
//   - CRun / CRunX: the flight a compliant server sends for that configuration and the observed client decision
//     against Model/Complete.v client_run10; CWrite: UConn.Write's reported count against the model.
package main

import (
	"crypto/ecdh"
	"crypto/ed25519"
	"crypto/rand"
	"crypto/x509"
	"crypto/x509/pkix"
	"fmt"
	"math/big"
	"os"
	"reflect"
	"sort"
	"strings"
	"sync"
	"time"

	tls "github.com/refraction-networking/utls"
	"verif/harness/hs"
	"verif/harness/vh"
)

func main() { vh.Main(map[string]vh.Suite{"C10": {Corr: "Corr.C10Corr", Run: run}}) }

type class struct {
	name string
	kind string
	id   tls.ClientHelloID
	mk   func() *tls.ClientHelloSpec // the spec in force (nil: the id's own preset)
	// prep: how the caller prepares the UConn instead of one ApplyPreset(mk()), e.g. ApplyPreset of another spec first
	// (the caller replaces the spec before the handshake); the last spec applied is mk().
	prep func(*tls.UConn) error
}

// opts: the client side of hs.Opts for this class
func (cl class) opts() hs.Opts {
	if cl.prep != nil {
		return hs.Opts{ID: cl.id, Prepare: cl.prep}
	}
	return hs.Opts{ID: cl.id, Spec: specOf(cl)}
}

func with(o hs.Opts, ccfg, scfg *tls.Config, script *tls.VerifServerScript) hs.Opts {
	o.ClientCfg, o.ServerCfg, o.Script = ccfg, scfg, script
	return o
}

// applySeq: ApplyPreset of each spec in turn (fresh spec objects each time)
func applySeq(mks ...func() *tls.ClientHelloSpec) func(*tls.UConn) error {
	return func(u *tls.UConn) error {
		for _, mk := range mks {
			if err := u.ApplyPreset(mk()); err != nil {
				return err
			}
		}
		return nil
	}
}

func presetOf(id tls.ClientHelloID) func() *tls.ClientHelloSpec {
	return func() *tls.ClientHelloSpec {
		sp, _ := tls.UTLSIdToSpec(id)
		return &sp
	}
}

// versionsSpec: a custom spec whose supported_versions extension lists exactly [versions] in that order (GREASE
// placeholders allowed anywhere), with TLSVersMin/TLSVersMax as given (0, 0 = derived from the list by SetTLSVers).
func versionsSpec(versions []uint16, vmin, vmax uint16) func() *tls.ClientHelloSpec {
	return func() *tls.ClientHelloSpec {
		sp, _ := tls.UTLSIdToSpec(tls.HelloFirefox_99)
		for _, e := range sp.Extensions {
			if sv, ok := e.(*tls.SupportedVersionsExtension); ok {
				sv.Versions = append([]uint16(nil), versions...)
			}
		}
		sp.TLSVersMin, sp.TLSVersMax = vmin, vmax
		return &sp
	}
}

func versionClasses(rng func(int) int, nrandom int) []class {
	G := uint16(tls.GREASE_PLACEHOLDER)
	V13, V12, V11, V10 := uint16(tls.VersionTLS13), uint16(tls.VersionTLS12), uint16(tls.VersionTLS11), uint16(tls.VersionTLS10)
	mk := func(name string, vs []uint16, vmin, vmax uint16) class {
		return class{name: name, kind: "custom", id: tls.HelloCustom, mk: versionsSpec(vs, vmin, vmax)}
	}
	out := []class{
		mk("custom-sv-desc-unset", []uint16{V13, V12}, 0, 0),
		mk("custom-sv-asc-unset", []uint16{V12, V13}, 0, 0),
		mk("custom-sv-asc-set", []uint16{V12, V13}, V12, V13),
		mk("custom-sv-shuffled-unset", []uint16{V12, V13, V11}, 0, 0),
		mk("custom-sv-grease-mid-unset", []uint16{V13, G, V12}, 0, 0),
		mk("custom-sv-grease-asc-unset", []uint16{G, V12, V13}, 0, 0),
		mk("custom-sv-asc-grease-last-unset", []uint16{V10, V11, V12, V13, G}, 0, 0),
		mk("custom-sv-gap-set", []uint16{V11, V13}, V11, V13),
	}
	all := []uint16{V10, V11, V12}
	for k := 0; k < nrandom; k++ {
		vs := []uint16{V13}
		for _, v := range all {
			if rng(2) == 0 {
				vs = append(vs, v)
			}
		}
		for i := len(vs) - 1; i > 0; i-- {
			j := rng(i + 1)
			vs[i], vs[j] = vs[j], vs[i]
		}
		if rng(2) == 0 {
			at := rng(len(vs) + 1)
			vs = append(vs[:at], append([]uint16{G}, vs[at:]...)...)
		}
		vmin, vmax := uint16(0), uint16(0)
		label := "unset"
		if rng(3) == 0 {
			vmin, vmax = V13, V13
			for _, v := range vs {
				if v != G && v < vmin {
					vmin = v
				}
			}
			label = "set"
		}
		var names []string
		for _, v := range vs {
			if v == G {
				names = append(names, "g")
			} else {
				names = append(names, versName[v])
			}
		}
		out = append(out, mk("custom-sv-"+strings.Join(names, "-")+"-"+label, vs, vmin, vmax))
	}
	return out
}

type scenario struct {
	kind    string // version10..13 | first-share | second-share | hrr | hrr-hybrid | suite13 | suite10..12 | alpn | cert-* | certcomp | psk-hrr
	detail  string
	cfg     func(*tls.Config)            // server Config
	script  func(*tls.VerifServerScript) // scripted selections (all from the offered sets)
	ccfg    func(*tls.Config)            // client Config variation
	pre     *class                       // an earlier UConn of this class uses the same *Config first
	alpn    []string                     // server NextProtos
	psk     bool                         // resumption attempt: a first full handshake fills the session cache
	exclude bool                         // one of the two classes C10_holds_if excludes (a finding)
	must    bool                         // always part of the quick tier
	creq    bool                         // the server sends a CertificateRequest (optional client authentication)
	pin     uint16                       // non-zero: pin the server to one version (MinVersion = MaxVersion; this value when the scenario sets none)
}

var edCert *tls.Certificate
var edOnce sync.Once

func ed25519Leaf(p *hs.PKI) tls.Certificate {
	edOnce.Do(func() {
		pub, priv, _ := ed25519.GenerateKey(rand.Reader)
		t := &x509.Certificate{SerialNumber: big.NewInt(time.Now().UnixNano()), Subject: pkix.Name{CommonName: hs.ServerName},
			NotBefore: time.Now().Add(-time.Hour), NotAfter: time.Now().Add(12 * time.Hour), DNSNames: []string{hs.ServerName},
			KeyUsage: x509.KeyUsageDigitalSignature, ExtKeyUsage: []x509.ExtKeyUsage{x509.ExtKeyUsageServerAuth}}
		der, _ := x509.CreateCertificate(rand.Reader, t, p.CACert, pub, p.CAKey)
		edCert = &tls.Certificate{Certificate: [][]byte{der}, PrivateKey: priv}
	})
	return *edCert
}

var real13 = []uint16{tls.TLS_AES_128_GCM_SHA256, tls.TLS_AES_256_GCM_SHA384, tls.TLS_CHACHA20_POLY1305_SHA256}
var serverGroups = []uint16{29, 23, 24, 25, 4588}
var allVersions = []uint16{tls.VersionTLS13, tls.VersionTLS12, tls.VersionTLS11, tls.VersionTLS10}
var versName = map[uint16]string{tls.VersionTLS10: "10", tls.VersionTLS11: "11", tls.VersionTLS12: "12", tls.VersionTLS13: "13"}

func offers13(w *hs.WireHello) bool { return hs.ContainsU16(w.SupportedVersions, tls.VersionTLS13) }

// advertised: the versions the wire hello offers (Model/Negotiate.v [advertised]).
func advertised(w *hs.WireHello, specmin uint16) []uint16 {
	var out []uint16
	for _, v := range allVersions {
		if w.HasSupportedVers {
			if hs.ContainsU16(w.SupportedVersions, v) {
				out = append(out, v)
			}
		} else if specmin <= v && v <= w.LegacyVersion {
			out = append(out, v)
		}
	}
	return out
}

// legacy suites the library implements, with the versions each is valid at
var (
	suiteVersOnce sync.Once
	suiteVers     map[uint16][]uint16
	suiteNames    map[uint16]string
)

func legacySuites() (map[uint16][]uint16, map[uint16]string) {
	suiteVersOnce.Do(func() {
		suiteVers, suiteNames = map[uint16][]uint16{}, map[uint16]string{}
		for _, l := range [][]*tls.CipherSuite{tls.CipherSuites(), tls.InsecureCipherSuites()} {
			for _, s := range l {
				suiteVers[s.ID] = s.SupportedVersions
				suiteNames[s.ID] = s.Name
			}
		}
	})
	return suiteVers, suiteNames
}

// suiteClass: the record protection family of a cipher suite
func suiteClass(id uint16) string {
	_, names := legacySuites()
	n := names[id]
	switch {
	case strings.Contains(n, "RC4"):
		return "rc4"
	case strings.Contains(n, "CBC"):
		return "cbc"
	default:
		return "aead"
	}
}

// sigOffered: signature_algorithms lists a scheme the leaf can sign with at that version (RFC 8446 4.2.3).
func sigOffered(w *hs.WireHello, cert string, vers uint16) bool {
	has := func(ids ...uint16) bool {
		for _, id := range ids {
			if hs.ContainsU16(w.SignatureAlgorithms, id) {
				return true
			}
		}
		return false
	}
	switch cert {
	case "cert-ed25519":
		return has(0x0807)
	case "cert-ecdsa": // P-256 leaf
		if vers == tls.VersionTLS13 {
			return has(0x0403)
		}
		return has(0x0403, 0x0503, 0x0603, 0x0203) || len(w.SignatureAlgorithms) == 0
	default: // RSA 2048
		if vers == tls.VersionTLS13 {
			return has(0x0804, 0x0805, 0x0806)
		}
		return has(0x0804, 0x0805, 0x0806, 0x0401, 0x0501, 0x0601, 0x0201) || len(w.SignatureAlgorithms) == 0
	}
}

// serverPick: the group the library's TLS 1.3 server selects (handshake_server_tls13.go:208-230): its preferences
// restricted to supported_groups, those with a key share first, the PQ hybrid before everything.
func serverPick(w *hs.WireHello, prefs []tls.CurveID) uint16 {
	if len(prefs) == 0 {
		prefs = []tls.CurveID{tls.X25519MLKEM768, tls.X25519, tls.CurveP256, tls.CurveP384, tls.CurveP521}
	}
	var cand []uint16
	for _, g := range prefs {
		if hs.ContainsU16(w.SupportedGroups, uint16(g)) {
			cand = append(cand, uint16(g))
		}
	}
	if len(cand) == 0 {
		return 0
	}
	sort.SliceStable(cand, func(i, j int) bool {
		return hs.ContainsU16(w.KeyShareGroups, cand[i]) && !hs.ContainsU16(w.KeyShareGroups, cand[j])
	})
	sort.SliceStable(cand, func(i, j int) bool { return cand[i] == 4588 && cand[j] != 4588 })
	return cand[0]
}

func sameStrs(a, b []string) bool {
	if len(a) != len(b) {
		return false
	}
	for i := range a {
		if a[i] != b[i] {
			return false
		}
	}
	return true
}

// scenarios derives the server configurations from the class's own wire hello. rot rotates which variant of a family
// is marked `must` (part of the quick tier); rich classes (parrots, custom specs) get one must per family, derived
// classes (randomized, fingerprinted) the version / share / one HRR / one ALPN runs.
func scenarios(p *hs.PKI, cl class, w *hs.WireHello, specmin uint16, rot int, pres []class, preALPN map[string][]string) []scenario {
	var sc []scenario
	rich := cl.kind == "parrot" || cl.kind == "custom"
	v13 := offers13(w)
	both := []string{"h2", "http/1.1"}
	adv := advertised(w, specmin)
	for _, v := range adv {
		v := v
		sc = append(sc, scenario{kind: "version" + versName[v], detail: "max" + versName[v], alpn: both, must: rich || v >= tls.VersionTLS12, cfg: func(c *tls.Config) { c.MaxVersion = v }})
	}
	// supported_versions in wire order, GREASE dropped: descending?
	var pin uint16
	if w.HasSupportedVers {
		prev := uint16(0xffff)
		for _, v := range w.SupportedVersions {
			if hs.IsGREASE(v) {
				continue
			}
			if v > prev && len(adv) > 0 {
				pin = adv[0] // the highest advertised version, unless the scenario names another
			}
			prev = v
		}
	}
	defer func() {
		for i := range sc {
			sc[i].pin = pin
			// A scripted selection (TLS 1.3 suite, certificate compression) hands the library's server sub-steps a doctored view
			// of the ClientHello. If that configuration also leads to a HelloRetryRequest (the group the server picks has no key
			// share), a HRR issued inside the library's processClientHello would compare the real second hello with the doctored
			// first one ("client illegally modified second ClientHello": an artefact of the scripted server, not of the client).
			// Such a HRR therefore goes through the scripted path as well, like the `hrr` rows: same message, traced.
			if orig := sc[i].script; orig != nil {
				cfgf := sc[i].cfg
				sc[i].script = func(s *tls.VerifServerScript) {
					orig(s)
					if s.HRRGroup != 0 {
						return
					}
					tmp := &tls.Config{}
					if cfgf != nil {
						cfgf(tmp)
					}
					if tmp.MaxVersion != 0 && tmp.MaxVersion < tls.VersionTLS13 {
						return
					}
					if g := serverPick(w, tmp.CurvePreferences); g != 0 && !hs.ContainsU16(w.KeyShareGroups, g) {
						s.HRRGroup = tls.CurveID(g)
					}
				}
			}
		}
	}()
	if v13 {
		var offered13 []uint16
		for _, s := range real13 {
			if hs.ContainsU16(w.CipherSuites, s) {
				offered13 = append(offered13, s)
			}
		}
		var hrrGroups []uint16
		for _, g := range serverGroups {
			g := g
			if !hs.ContainsU16(w.SupportedGroups, g) {
				continue
			}
			idx := -1
			for i, s := range w.KeyShareGroups {
				if s == g {
					idx = i
				}
			}
			if idx < 0 {
				if g == 4588 {
					sc = append(sc, scenario{kind: "hrr-hybrid", detail: "4588", alpn: both, exclude: true, must: true,
						script: func(s *tls.VerifServerScript) { s.HRRGroup = tls.CurveID(g) },
						cfg:    func(c *tls.Config) { c.CurvePreferences = []tls.CurveID{tls.CurveID(g)} }})
				} else {
					hrrGroups = append(hrrGroups, g)
				}
				continue
			}
			first := true
			for i, s := range w.KeyShareGroups {
				if !hs.IsGREASE(s) && i < idx {
					first = false
				}
			}
			kind := "second-share"
			if first {
				kind = "first-share"
			}
			sc = append(sc, scenario{kind: kind, detail: fmt.Sprint(g), alpn: both, must: true, cfg: func(c *tls.Config) { c.CurvePreferences = []tls.CurveID{tls.CurveID(g)} }})
		}
		// HelloRetryRequest for each group without a share x each offered TLS 1.3 suite (the HRR and the ServerHello carry it)
		for si, s := range offered13 {
			for gi, g := range hrrGroups {
				s, g := s, g
				must := gi == (rot+si)%len(hrrGroups) && (rich || si == rot%len(offered13))
				sc = append(sc, scenario{kind: "hrr", detail: fmt.Sprintf("%d/0x%04x", g, s), alpn: both, must: must,
					script: func(sc *tls.VerifServerScript) { sc.HRRGroup = tls.CurveID(g); sc.Suite = s },
					cfg:    func(c *tls.Config) { c.CurvePreferences = []tls.CurveID{tls.CurveID(g)} }})
			}
		}
		for _, s := range offered13 {
			s := s
			sc = append(sc, scenario{kind: "suite13", detail: fmt.Sprintf("0x%04x", s), alpn: both, script: func(sc *tls.VerifServerScript) { sc.Suite = s }})
		}
		// certificate compression with each advertised algorithm; a server that asks for a client certificate (optional
		// client authentication: this client has none and answers with an empty Certificate); and both together
		var ccAlgs []uint16
		for _, a := range w.CertCompressionAlgs {
			if a >= 1 && a <= 3 {
				ccAlgs = append(ccAlgs, a)
			}
		}
		for i, a := range ccAlgs {
			a := a
			sel := i == rot%len(ccAlgs)
			sc = append(sc, scenario{kind: "certcomp", detail: fmt.Sprint(a), alpn: both, must: sel, script: func(sc *tls.VerifServerScript) { sc.CertCompression = a }})
			sc = append(sc, scenario{kind: "clientauth-certcomp", detail: fmt.Sprint(a), alpn: both, must: sel, creq: true,
				script: func(sc *tls.VerifServerScript) { sc.CertCompression = a },
				cfg:    func(c *tls.Config) { c.ClientAuth = tls.RequestClientCert }})
		}
	}
	for _, v := range adv {
		v := v
		if v < tls.VersionTLS12 && !rich {
			continue
		}
		sc = append(sc, scenario{kind: "clientauth", detail: "max" + versName[v], alpn: both, must: v == tls.VersionTLS13 || (!v13 && v == tls.VersionTLS12), creq: true,
			cfg: func(c *tls.Config) {
				c.MaxVersion = v
				c.ClientAuth = tls.RequestClientCert
			}})
	}
	if v13 {
		// a HelloRetryRequest and a CertificateRequest in one handshake
		for _, g := range serverGroups {
			g := g
			if g != 4588 && hs.ContainsU16(w.SupportedGroups, g) && !hs.ContainsU16(w.KeyShareGroups, g) {
				sc = append(sc, scenario{kind: "clientauth-hrr", detail: fmt.Sprint(g), alpn: both, creq: true,
					script: func(s *tls.VerifServerScript) { s.HRRGroup = tls.CurveID(g) },
					cfg: func(c *tls.Config) {
						c.CurvePreferences = []tls.CurveID{tls.CurveID(g)}
						c.ClientAuth = tls.RequestClientCert
					}})
			}
		}
	}
	// each offered implemented legacy suite alone, at each advertised version it is valid at; one per (version, family) is must
	sv, _ := legacySuites()
	for _, v := range adv {
		if v == tls.VersionTLS13 {
			continue
		}
		fam := map[string][]uint16{}
		for _, id := range w.CipherSuites {
			if vs, ok := sv[id]; ok && hs.ContainsU16(vs, v) {
				fam[suiteClass(id)] = append(fam[suiteClass(id)], id)
			}
		}
		for _, f := range []string{"aead", "cbc", "rc4"} {
			for i, id := range fam[f] {
				v, id := v, id
				sc = append(sc, scenario{kind: "suite" + versName[v], detail: fmt.Sprintf("0x%04x-%s", id, f), alpn: both, must: rich && i == rot%len(fam[f]),
					cfg: func(c *tls.Config) {
						c.MaxVersion = v
						c.CipherSuites = []uint16{id}
					}})
			}
		}
	}
	// ALPN: the server picks each protocol of the WIRE list alone (and none), under different client Configs
	type ccv struct {
		name string
		f    func(*tls.Config)
		pre  *class
	}
	variants := []ccv{{name: "cfg-default"}}
	if len(w.ALPN) > 0 {
		variants = append(variants,
			ccv{name: "cfg-preset-disjoint", f: func(c *tls.Config) { c.NextProtos = []string{"verif-preset/1", "verif-preset/2"} }},
			ccv{name: "cfg-preset-overlap", f: func(c *tls.Config) { c.NextProtos = []string{w.ALPN[len(w.ALPN)-1], "verif-preset/1"} }})
		for i := range pres {
			if a := preALPN[pres[i].name]; len(a) > 0 && !sameStrs(a, w.ALPN) && pres[i].name != cl.name {
				variants = append(variants, ccv{name: "cfg-shared-after-" + pres[i].name, pre: &pres[i]})
				break
			}
		}
	}
	for vi, cv := range variants {
		picks := make([][]string, 0, len(w.ALPN)+1)
		for _, a := range w.ALPN {
			picks = append(picks, []string{a})
		}
		picks = append(picks, nil)
		for pi, a := range picks {
			cv, a := cv, a
			must := len(w.ALPN) > 0 && pi == (rot+vi)%len(w.ALPN) && (rich || vi == 1) && cv.name != "cfg-preset-overlap"
			sc = append(sc, scenario{kind: "alpn", detail: cv.name + "/" + strings.Join(a, ","), alpn: a, ccfg: cv.f, pre: cv.pre, must: must})
		}
	}
	ed := ed25519Leaf(p)
	for _, ct := range []struct {
		name string
		cert tls.Certificate
	}{{"cert-ecdsa", p.ECDSA}, {"cert-rsa", p.RSA}, {"cert-ed25519", ed}} {
		ct := ct
		for _, mv := range []uint16{tls.VersionTLS13, tls.VersionTLS12} {
			mv := mv
			if !hs.ContainsU16(adv, mv) || !sigOffered(w, ct.name, mv) {
				continue // not an offered choice
			}
			sc = append(sc, scenario{kind: ct.name, detail: "max" + versName[mv], alpn: both, cfg: func(c *tls.Config) {
				c.Certificates = []tls.Certificate{ct.cert}
				c.MaxVersion = mv
			}})
		}
	}
	if cl.kind == "parrot" && strings.Contains(cl.name, "PSK") && v13 {
		for _, g := range []uint16{23, 24} {
			g := g
			if hs.ContainsU16(w.SupportedGroups, g) && !hs.ContainsU16(w.KeyShareGroups, g) {
				sc = append(sc, scenario{kind: "psk-hrr", detail: fmt.Sprint(g), alpn: both, psk: true, exclude: true, must: true,
					script: func(s *tls.VerifServerScript) { s.HRRGroup = tls.CurveID(g) },
					cfg:    func(c *tls.Config) { c.CurvePreferences = []tls.CurveID{tls.CurveID(g)} }})
				break
			}
		}
	}
	return sc
}

type outcome struct {
	cl   class
	sc   scenario
	res  *connResult
	scfg *tls.Config
}

func extraCurves(ks *tls.KeySharePrivateKeys) []uint16 {
	var out []uint16
	if ks == nil {
		return out
	}
	f := reflect.ValueOf(ks).Elem().FieldByName("ExtraEcdhe")
	if !f.IsValid() {
		return out
	}
	keys, _ := f.Interface().([]*ecdh.PrivateKey)
	for _, k := range keys {
		out = append(out, hs.CurveOfKey(k))
	}
	return out
}

func treeFixed() bool {
	_, ok := reflect.TypeOf(tls.KeySharePrivateKeys{}).FieldByName("ExtraEcdhe")
	return ok
}

func shapeTerm(ks *tls.KeySharePrivateKeys) string {
	if ks == nil {
		return "(mkShape 0 [] false 0)"
	}
	return fmt.Sprintf("(mkShape %d %s %s %d)", hs.CurveOfKey(ks.Ecdhe), vh.U16s(extraCurves(ks)), vh.Bool(ks.Mlkem != nil), hs.CurveOfKey(ks.MlkemEcdhe))
}

func specMin(cl class) uint16 {
	if cl.mk != nil {
		return cl.mk().TLSVersMin
	}
	if sp, err := tls.UTLSIdToSpec(cl.id); err == nil {
		return sp.TLSVersMin
	}
	return 0
}

func specOf(cl class) *tls.ClientHelloSpec {
	if cl.mk != nil {
		return cl.mk()
	}
	return nil
}

func runOne(p *hs.PKI, cl class, sc scenario) *outcome {
	scfg := p.ServerConfig(sc.alpn...)
	if sc.cfg != nil {
		sc.cfg(scfg)
	}
	ccfg := p.ClientConfig()
	if sc.ccfg != nil {
		sc.ccfg(ccfg)
	}
	if sc.pin != 0 {
		// the hello lists its versions in a non-descending order: the outcome must not depend on whose preference order
		// the server follows, so the server is pinned to the single version this scenario is about
		if scfg.MaxVersion == 0 {
			scfg.MaxVersion = sc.pin
		}
		scfg.MinVersion = scfg.MaxVersion
	}
	if sc.pre != nil {
		// an earlier connection of another parrot uses the very same *Config (a caller reusing one Config for its dials)
		runConn(with(sc.pre.opts(), ccfg, p.ServerConfig("h2", "http/1.1"), nil))
	}
	if sc.psk {
		// a first full handshake against an ordinary server stores a ticket; the second hello carries pre_shared_key
		cache := tls.NewLRUClientSessionCache(8)
		scfg0 := p.ServerConfig(sc.alpn...)
		scfg0.SessionTicketsDisabled = false
		key := [32]byte{1, 2, 3}
		scfg0.SetSessionTicketKeys([][32]byte{key})
		scfg.SessionTicketsDisabled = false
		scfg.SetSessionTicketKeys([][32]byte{key})
		ccfg.ClientSessionCache = cache
		hs.Run(with(cl.opts(), ccfg, scfg0, nil))
		ccfg = p.ClientConfig()
		ccfg.ClientSessionCache = cache
	}
	script := &tls.VerifServerScript{}
	if sc.script != nil {
		sc.script(script)
	}
	r := runConn(with(cl.opts(), ccfg, scfg, script))
	return &outcome{cl: cl, sc: sc, res: r, scfg: scfg}
}

func tailOf(random []byte) int {
	if len(random) == 32 {
		switch string(random[24:]) {
		case "DOWNGRD\x01":
			return 1
		case "DOWNGRD\x00":
			return 2
		}
	}
	return 0
}

// flightTerm: the flight a compliant server with this configuration sends for wire hello w (reconstructed from the
// configuration and what the server reports having used); answered=false when the server rejected the offer itself.
func flightTerm(o *outcome) (term string, answered bool, hrrGroup uint16) {
	r, w, tr := o.res, o.res.Wire, o.res.Trace
	// the server answered the hello if the client received a ServerHello / HelloRetryRequest, or aborted on its own
	clientAborted := r.ClientErr != nil && r.AlertFromServer < 0 && !strings.HasPrefix(errStr(r.ClientErr), "remote error")
	if !r.ServerHelloSeen && len(tr.Sent) == 0 && !clientAborted {
		return "", false, 0
	}
	alpn, _ := hs.NegotiatedALPN(o.sc.alpn, w.ALPN)
	is13 := tr.Version == tls.VersionTLS13 || tr.SentHRR || (tr.Version == 0 && offers13(w) && (o.scfg.MaxVersion == 0 || o.scfg.MaxVersion == tls.VersionTLS13))
	if is13 {
		suite := tr.Suite
		if suite == 0 {
			suite = tr.HRRSuite
		}
		if suite == 0 {
			for _, s := range real13 {
				if hs.ContainsU16(w.CipherSuites, s) {
					suite = s
					break
				}
			}
		}
		if o.res.Trace.SentHRR && o.sc.kind == "hrr" {
			// the scripted suite (an offered TLS 1.3 suite) is in both the HRR and the ServerHello
			var s16 uint16
			fmt.Sscanf(o.sc.detail[strings.Index(o.sc.detail, "/")+1:], "0x%04x", &s16)
			if s16 != 0 {
				suite = s16
			}
		}
		group := serverPick(w, o.scfg.CurvePreferences)
		hrr := "None"
		if !hs.ContainsU16(w.KeyShareGroups, group) {
			hrrGroup = group
			hrr = fmt.Sprintf("(Some (mkHello 771 772 0 %s %d 0 0 %d false None []))", vh.Bytes(w.SessionID), suite, group)
		}
		sh := fmt.Sprintf("(mkHello 771 772 %d %s %d 0 %d 0 false None [])", tailOf(tr.ServerRandom), vh.Bytes(w.SessionID), suite, group)
		cc := "None"
		if o.sc.kind == "certcomp" || o.sc.kind == "clientauth-certcomp" {
			cc = "(Some " + o.sc.detail + ")"
		}
		return fmt.Sprintf("(mkFlight %s %s %s %s None true)", hrr, sh, vh.Str(alpn), cc), true, hrrGroup
	}
	if tr.Version == 0 {
		return "", false, 0
	}
	skx := "None"
	if tr.Group != 0 {
		skx = fmt.Sprintf("(Some %d)", uint16(tr.Group))
	}
	sh := fmt.Sprintf("(mkHello %d 0 %d [] %d 0 0 0 false None %s)", tr.HelloVers, tailOf(tr.ServerRandom), tr.Suite, vh.Str(alpn))
	return fmt.Sprintf("(mkFlight None %s [] None %s true)", sh, skx), true, 0
}

func customSpec(shares []tls.CurveID, groups []tls.CurveID, versMin uint16) func() *tls.ClientHelloSpec {
	return func() *tls.ClientHelloSpec {
		sp, _ := tls.UTLSIdToSpec(tls.HelloFirefox_99)
		for _, e := range sp.Extensions {
			if ks, ok := e.(*tls.KeyShareExtension); ok {
				ks.KeyShares = nil
				for _, g := range shares {
					ks.KeyShares = append(ks.KeyShares, tls.KeyShare{Group: g})
				}
			}
			if sc, ok := e.(*tls.SupportedCurvesExtension); ok {
				sc.Curves = append([]tls.CurveID(nil), groups...)
			}
		}
		if versMin != 0 {
			sp.TLSVersMin = versMin
		}
		return &sp
	}
}

var groupName = map[tls.CurveID]string{tls.X25519: "x25519", tls.CurveP256: "p256", tls.CurveP384: "p384", tls.CurveP521: "p521",
	tls.X25519MLKEM768: "mlkem", tls.X25519Kyber768Draft00: "kyber"}

func keyShareOrderClasses(rng func(int) int, nrandom int) []class {
	X, P2, P3, P5, M, K := tls.X25519, tls.CurveP256, tls.CurveP384, tls.CurveP521, tls.X25519MLKEM768, tls.X25519Kyber768Draft00
	mk := func(shares []tls.CurveID) class {
		var n []string
		for _, g := range shares {
			n = append(n, groupName[g])
		}
		// supported_groups: the hybrid groups that have a share, then the classical groups
		var gs []tls.CurveID
		for _, g := range shares {
			if g == M || g == K {
				gs = append(gs, g)
			}
		}
		gs = append(gs, X, P2, P3, P5)
		return class{name: "custom-ks-" + strings.Join(n, "-"), kind: "custom-ks", id: tls.HelloCustom, mk: customSpec(append([]tls.CurveID(nil), shares...), gs, 0)}
	}
	lists := [][]tls.CurveID{
		{X, M}, {M, X}, {X, K}, {P2, M}, {M, P2}, {X, P2, M}, {P2, X, M}, {X, M, P2}, {M, P2, X}, {P3, K, X}, {X, P2, P3, P5}, {P5, X},
	}
	seen := map[string]bool{}
	var out []class
	add := func(l []tls.CurveID) {
		c := mk(l)
		if !seen[c.name] {
			seen[c.name] = true
			out = append(out, c)
		}
	}
	for _, l := range lists {
		add(l)
	}
	classical := []tls.CurveID{X, P2, P3, P5}
	for k := 0; k < nrandom; k++ {
		// a random non-empty set of classical groups, at most one hybrid group, in a random order
		var l []tls.CurveID
		for _, g := range classical {
			if rng(2) == 0 {
				l = append(l, g)
			}
		}
		if rng(3) != 0 {
			l = append(l, []tls.CurveID{M, K}[rng(2)])
		}
		if len(l) == 0 {
			l = []tls.CurveID{X}
		}
		for i := len(l) - 1; i > 0; i-- {
			j := rng(i + 1)
			l[i], l[j] = l[j], l[i]
		}
		add(l)
	}
	return out
}

func fingerprinted(p *hs.PKI, cl class) (class, bool) {
	uc := tls.UClient(nil, p.ClientConfig(), cl.id)
	if cl.mk != nil {
		if err := uc.ApplyPreset(cl.mk()); err != nil {
			return class{}, false
		}
	}
	if err := uc.BuildHandshakeState(); err != nil {
		return class{}, false
	}
	raw := uc.HandshakeState.Hello.Raw
	rec := append([]byte{0x16, 0x03, 0x01, byte(len(raw) >> 8), byte(len(raw))}, raw...)
	if _, err := (&tls.Fingerprinter{AllowBluntMimicry: true}).FingerprintClientHello(rec); err != nil {
		return class{}, false
	}
	return class{name: "fp-" + cl.name, kind: "fingerprinted", id: tls.HelloCustom, mk: func() *tls.ClientHelloSpec {
		sp, _ := (&tls.Fingerprinter{AllowBluntMimicry: true}).FingerprintClientHello(rec)
		return sp
	}}, true
}

func run(c *vh.Ctx) {
	p := hs.SharedPKI()
	fixed := treeFixed()
	c.Extra["tree_has_ExtraEcdhe"] = fixed
	quick := c.Tier == "quick"
	debug := os.Getenv("C10_DEBUG") != ""

	var classes []class
	for _, pr := range hs.Parrots() {
		classes = append(classes, class{name: pr.Name, kind: "parrot", id: pr.ID})
	}
	parrots := append([]class(nil), classes...)
	nrand := 200
	if quick {
		nrand = 10
	}
	for _, pr := range hs.RandomizedParrots(nrand, c.Seed) {
		classes = append(classes, class{name: pr.Name, kind: "randomized", id: pr.ID})
	}
	base := len(classes)
	for i := 0; i < base; i++ {
		// fingerprinted copies: of every predefined parrot; of the randomized ones a rotating part
		if classes[i].kind == "randomized" && (i+int(c.Seed))%4 != 0 {
			continue
		}
		if fc, ok := fingerprinted(p, classes[i]); ok {
			classes = append(classes, fc)
		}
	}
	all := []tls.CurveID{tls.X25519MLKEM768, tls.X25519, tls.CurveP256, tls.CurveP384, tls.CurveP521}
	classes = append(classes,
		class{name: "custom-five-shares", kind: "custom", id: tls.HelloCustom, mk: customSpec([]tls.CurveID{tls.CurveP256, tls.X25519MLKEM768, tls.X25519, tls.CurveP384, tls.CurveP521}, all, 0)},
		class{name: "custom-mlkem-only", kind: "custom", id: tls.HelloCustom, mk: customSpec([]tls.CurveID{tls.X25519MLKEM768}, all, 0)},
		class{name: "custom-p384-only-groups", kind: "custom", id: tls.HelloCustom, mk: customSpec([]tls.CurveID{tls.CurveP384}, []tls.CurveID{tls.CurveP384, tls.CurveP521}, 0)})
	// key_share lists over order and multiplicity: classical before / after the hybrid share, several classical shares
	// around it, either hybrid group; fixed lists plus permutations drawn from the run seed. Every share selection of
	// these classes runs in every tier (first-share / second-share are mandatory rows).
	classes = append(classes, keyShareOrderClasses(c.Rng.Intn, map[bool]int{true: 4, false: 24}[quick])...)
	// supported_versions in every kind of order, TLSVersMin/TLSVersMax unset and set
	nsv := 12
	if quick {
		nsv = 3
	}
	classes = append(classes, versionClasses(c.Rng.Intn, nsv)...)
	// the caller replaces the spec before the handshake: ApplyPreset more than once on one UConn
	ff, ch := presetOf(tls.HelloFirefox_120), presetOf(tls.HelloChrome_133)
	five := customSpec([]tls.CurveID{tls.CurveP256, tls.X25519MLKEM768, tls.X25519, tls.CurveP384, tls.CurveP521}, all, 0)
	mlk := customSpec([]tls.CurveID{tls.X25519MLKEM768}, all, 0)
	re := func(name string, last func() *tls.ClientHelloSpec, seq ...func() *tls.ClientHelloSpec) class {
		return class{name: name, kind: "custom", id: tls.HelloCustom, mk: last, prep: applySeq(append(seq, last)...)}
	}
	classes = append(classes,
		re("re-firefox120-twice", ff, ff),
		re("re-chrome133-then-firefox120", ff, ch),
		re("re-firefox120-then-chrome133", ch, ff),
		re("re-five-shares-then-firefox120", ff, five),
		re("re-mlkem-only-then-firefox120", ff, mlk),
		re("re-firefox120-three-times", ff, ff, ff))
	if fc, ok := fingerprinted(p, class{name: "Firefox_120", kind: "parrot", id: tls.HelloFirefox_120}); ok {
		classes = append(classes, re("re-fp-Firefox_120-twice", fc.mk, fc.mk))
	}
	if fc, ok := fingerprinted(p, class{name: "Chrome_133", kind: "parrot", id: tls.HelloChrome_133}); ok {
		classes = append(classes, re("re-fp-Chrome_133-after-firefox120", fc.mk, ff))
	}

	// ---- probes: the class's own wire hello ----
	probes := map[string]*hs.Result{}
	alpnOf := map[string][]string{}
	for _, cl := range classes {
		pr := hs.Run(with(cl.opts(), p.ClientConfig(), p.ServerConfig("h2", "http/1.1"), nil))
		if pr.BuildErr != nil || pr.Wire == nil {
			// every class here is a predefined / randomized / fingerprinted / well-formed custom spec: it must build
			c.Count("build-error")
			c.Fail("build/"+cl.name, "ApplyPreset / BuildHandshakeState failed on a well-formed spec", map[string]any{"class": cl.name, "kind": cl.kind},
				errStr(pr.BuildErr), "a ClientHello")
			continue
		}
		probes[cl.name] = pr
		alpnOf[cl.name] = pr.Wire.ALPN
	}
	// predecessors for the shared-Config runs: parrots with pairwise different ALPN lists
	var pres []class
	seenALPN := map[string]bool{}
	for _, cl := range parrots {
		k := strings.Join(alpnOf[cl.name], ",")
		if k != "" && !seenALPN[k] {
			seenALPN[k] = true
			pres = append(pres, cl)
		}
	}
	// rotate so that different classes meet different predecessors
	type job struct {
		cl class
		sc scenario
	}
	var jobs []job
	for ci, cl := range classes {
		pr := probes[cl.name]
		if pr == nil {
			continue
		}
		rp := append(append([]class(nil), pres[(ci+int(c.Seed))%len(pres):]...), pres[:(ci+int(c.Seed))%len(pres)]...)
		scs := scenarios(p, cl, pr.Wire, specMin(cl), ci+int(c.Seed), rp, alpnOf)
		rich := cl.kind == "parrot" || cl.kind == "custom"
		for si, sc := range scs {
			if quick && !sc.must {
				k := 9
				if !rich {
					k = 24
				}
				if (ci*7+si+int(c.Seed))%k != 0 {
					continue
				}
			}
			jobs = append(jobs, job{cl, sc})
		}
	}
	out := make([]*outcome, len(jobs))
	var wg sync.WaitGroup
	sem := make(chan struct{}, 16)
	for i, j := range jobs {
		wg.Add(1)
		sem <- struct{}{}
		go func(i int, j job) {
			defer wg.Done()
			defer func() { <-sem }()
			out[i] = runOne(p, j.cl, j.sc)
		}(i, j)
	}
	wg.Wait()

	// ---- CInst per class ----
	for _, cl := range classes {
		pr := probes[cl.name]
		if pr == nil {
			continue
		}
		c.Case("inst-"+cl.kind, fmt.Sprintf("(CInst %s %s %s %d %s)", vh.Bool(fixed), hs.ViewTerm(pr), shapeTerm(pr.KeyShareKeys), specMin(cl), hs.WireTerm(pr.Wire)),
			"inst/"+cl.name, len(pr.Wire.KeyShareGroups) > 0, map[string]any{"class": cl.name})
	}

	// ---- per handshake ----
	failed := map[string]bool{}
	failOnce := func(key, what string, input, got, want any) {
		if !failed[key] {
			failed[key] = true
			c.Fail(key, what, input, got, want)
		}
	}
	writeSeen := map[string]bool{}
	for _, o := range out {
		r := o.res
		key := o.sc.kind + "/" + o.cl.name
		if r.BuildErr != nil || r.Wire == nil {
			c.Count("build-error")
			if debug {
				fmt.Printf("BUILD-ERROR %-34s %-13s %-10s %v\n", o.cl.name, o.sc.kind, o.sc.detail, r.BuildErr)
			}
			continue
		}
		fl, answered, hrrGroup := flightTerm(o)
		if hrrGroup == 4588 && !o.sc.exclude {
			// the server's own preference asked for the hybrid group this hello lists without a share
			o.sc.kind, o.sc.exclude = "hrr-hybrid", true
			key = o.sc.kind + "/" + o.cl.name
		}
		if o.sc.psk && r.Wire.PSKIdentities == 0 {
			c.Count("psk-not-offered")
			continue
		}
		completed := r.ClientErr == nil
		input := map[string]any{"class": o.cl.name, "kind": o.sc.kind, "server_choice": o.sc.detail, "server_alpn": o.sc.alpn,
			"wire_versions": r.Wire.SupportedVersions, "wire_legacy_version": r.Wire.LegacyVersion, "wire_groups": r.Wire.SupportedGroups,
			"wire_key_shares": r.Wire.KeyShareGroups, "wire_alpn": r.Wire.ALPN, "wire_psk_identities": r.Wire.PSKIdentities}
		if !answered {
			// the server rejected the offer (no common suite / signature algorithm / group): allowed by the property
			c.Count("server-declined")
			if debug {
				fmt.Printf("DECLINED %-34s %-13s %-10s serr=%q cerr=%q\n", o.cl.name, o.sc.kind, o.sc.detail, errStr(r.ServerErr), errStr(r.ClientErr))
			}
			continue
		}
		if !completed {
			failOnce(key, "the server chose only values this ClientHello offers and utls implements, and the client did not complete the handshake",
				input, map[string]any{"client_error": errStr(r.ClientErr), "server_error": errStr(r.ServerErr),
					"alert_from_client": r.AlertFromClient, "alert_from_server": r.AlertFromServer, "hellos": len(r.Hellos)},
				"handshake completes and application data round-trips in both directions")
		} else {
			// application data in both directions, with several write sizes
			st := r.ClientState
			cls := "tls13"
			if st.Version != tls.VersionTLS13 {
				cls = suiteClass(st.CipherSuite)
			}
			input["negotiated_version"], input["negotiated_suite"], input["suite_family"] = st.Version, st.CipherSuite, cls
			for _, wo := range r.Writes {
				if wo.N != wo.Size || wo.Err != "" {
					failOnce("app-write/"+o.cl.name, "UConn.Write of application data did not report (len(b), nil)", input, wo, map[string]any{"n": wo.Size, "err": ""})
				}
				wk := fmt.Sprintf("%d/%s/%d", st.Version, cls, wo.Size)
				if !writeSeen[wk] || wo.N != wo.Size || wo.Err != "" {
					writeSeen[wk] = true
					c.Case("write-"+cls, fmt.Sprintf("(CWrite %d %s %d %d %s)", st.Version, vh.Bool(cls == "cbc"), wo.Size, wo.N, vh.Bool(wo.Err == "")),
						fmt.Sprintf("write/%s/%d", wk, wo.N), st.Version <= tls.VersionTLS11, map[string]any{"version": st.Version, "family": cls, "write": wo})
				}
			}
			if !r.EchoOK {
				failOnce("app-echo/"+o.cl.name, "application data did not round-trip after a completed handshake", input,
					map[string]any{"writes": r.Writes, "echo_error": r.EchoErr, "server_error": errStr(r.ServerErr)}, "the server's echo equals the bytes written")
			}
			c.Count(fmt.Sprintf("appdata-%s-%s", versName[st.Version], cls))
		}
		ctor := "CRun"
		if o.sc.exclude {
			ctor = "CRunX"
		}
		if o.sc.creq {
			// the flight also carries a CertificateRequest; observed: the server saw no client certificate
			ctor = fmt.Sprintf("CRunQ %s", vh.Bool(completed && len(r.ServerState.PeerCertificates) == 0))
		}
		c.Case(o.sc.kind+"-"+o.cl.kind, fmt.Sprintf("(%s %s %s %s %d %s %s %s)", ctor, vh.Bool(fixed), hs.ViewTerm(r.Result), shapeTerm(r.KeyShareKeys), specMin(o.cl),
			hs.WireTerm(r.Wire), fl, hs.ObsTerm(r.Result)), fmt.Sprintf("%s/%s/%s", o.sc.kind, o.cl.name, o.sc.detail),
			o.sc.kind != "version13" && o.sc.kind != "first-share",
			map[string]any{"class": o.cl.name, "kind": o.sc.kind, "choice": o.sc.detail, "completed": completed, "client_error": errStr(r.ClientErr)})
		if debug {
			fmt.Printf("%-34s %-13s %-34s completed=%-5v echo=%-5v alert=%-3d cerr=%q serr=%q\n", o.cl.name, o.sc.kind, o.sc.detail, completed, r.EchoOK, hs.ClientAlert(r.Result), errStr(r.ClientErr), errStr(r.ServerErr))
		}
	}
	if debug {
		ks := vh.SortedKeys(c.Dist)
		sort.Strings(ks)
		for _, k := range ks {
			fmt.Println(k, c.Dist[k])
		}
	}
}

func errStr(e error) string {
	if e == nil {
		return ""
	}
	return strings.ReplaceAll(e.Error(), "\n", " ")
}

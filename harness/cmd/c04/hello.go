package main

import (
	"errors"
	"fmt"
	mrand "math/rand"
	"strings"

	tls "github.com/refraction-networking/utls"
	"verif/harness/vh"
)

// recRand is the deterministic Config.Rand; it remembers every Read so that the
// 10 GREASE seed bytes ApplyPreset took (the only 10-byte read) can be handed to the model.
type recRand struct {
	src   *mrand.Rand
	reads [][]byte
}

func newRec(seed int64) *recRand { return &recRand{src: mrand.New(mrand.NewSource(seed))} }

func (r *recRand) Read(p []byte) (int, error) {
	r.src.Read(p)
	r.reads = append(r.reads, append([]byte(nil), p...))
	return len(p), nil
}

func (r *recRand) hasSeed() bool {
	for _, b := range r.reads {
		if len(b) == 10 {
			return true
		}
	}
	return false
}

func (r *recRand) seedBytes() []byte {
	var got []byte
	n := 0
	for _, b := range r.reads {
		if len(b) == 10 {
			got = b
			n++
		}
	}
	if n != 1 {
		panic(fmt.Sprintf("C04 runner: expected exactly one 10-byte read from Config.Rand (the GREASE seed), saw %d", n))
	}
	return got
}

// ---------- wire ClientHello ----------

type wext struct {
	id   uint16
	data []byte
}

type whello struct {
	suites []uint16
	exts   []wext
}

type rd struct{ b []byte }

func (r *rd) take(n int) ([]byte, error) {
	if n < 0 || len(r.b) < n {
		return nil, errors.New("truncated")
	}
	x := r.b[:n]
	r.b = r.b[n:]
	return x, nil
}
func (r *rd) u8() (int, error) {
	x, err := r.take(1)
	if err != nil {
		return 0, err
	}
	return int(x[0]), nil
}
func (r *rd) u16() (int, error) {
	x, err := r.take(2)
	if err != nil {
		return 0, err
	}
	return int(x[0])<<8 | int(x[1]), nil
}
func (r *rd) vec8() ([]byte, error) {
	n, err := r.u8()
	if err != nil {
		return nil, err
	}
	return r.take(n)
}
func (r *rd) vec16() ([]byte, error) {
	n, err := r.u16()
	if err != nil {
		return nil, err
	}
	return r.take(n)
}

func u16list(b []byte) ([]uint16, error) {
	if len(b)%2 != 0 {
		return nil, errors.New("odd list")
	}
	l := make([]uint16, len(b)/2)
	for i := range l {
		l[i] = uint16(b[2*i])<<8 | uint16(b[2*i+1])
	}
	return l, nil
}

// parseHello parses a ClientHello handshake message (type, 24-bit length, body).
func parseHello(raw []byte) (*whello, error) {
	if len(raw) < 4 || raw[0] != 1 {
		return nil, errors.New("not a ClientHello")
	}
	n := int(raw[1])<<16 | int(raw[2])<<8 | int(raw[3])
	if n != len(raw)-4 {
		return nil, errors.New("bad handshake length")
	}
	r := &rd{raw[4:]}
	if _, err := r.take(2 + 32); err != nil {
		return nil, err
	}
	if _, err := r.vec8(); err != nil {
		return nil, err
	}
	sb, err := r.vec16()
	if err != nil {
		return nil, err
	}
	w := &whello{}
	if w.suites, err = u16list(sb); err != nil {
		return nil, err
	}
	if _, err := r.vec8(); err != nil {
		return nil, err
	}
	if len(r.b) == 0 {
		return w, nil
	}
	eb, err := r.vec16()
	if err != nil || len(r.b) != 0 {
		return nil, errors.New("bad extensions block")
	}
	er := &rd{eb}
	for len(er.b) > 0 {
		id, err := er.u16()
		if err != nil {
			return nil, err
		}
		d, err := er.vec16()
		if err != nil {
			return nil, err
		}
		w.exts = append(w.exts, wext{uint16(id), d})
	}
	return w, nil
}

const (
	extSupportedGroups   = 10
	extSigAlgs           = 13
	extSupportedVersions = 43
	extKeyShare          = 51
)

func parseGroups(d []byte) ([]uint16, error) {
	r := &rd{d}
	b, err := r.vec16()
	if err != nil || len(r.b) != 0 {
		return nil, errors.New("bad u16 list")
	}
	return u16list(b)
}

func parseKeyShareGroups(d []byte) ([]uint16, error) {
	r := &rd{d}
	b, err := r.vec16()
	if err != nil || len(r.b) != 0 {
		return nil, errors.New("bad key_share")
	}
	kr := &rd{b}
	var gs []uint16
	for len(kr.b) > 0 {
		g, err := kr.u16()
		if err != nil {
			return nil, err
		}
		if _, err := kr.vec16(); err != nil {
			return nil, err
		}
		gs = append(gs, uint16(g))
	}
	return gs, nil
}

func parseVersions(d []byte) ([]uint16, error) {
	r := &rd{d}
	b, err := r.vec8()
	if err != nil || len(r.b) != 0 {
		return nil, errors.New("bad supported_versions")
	}
	return u16list(b)
}

// ---------- the GREASE view shared by spec and wire ----------

const (
	kGrease = iota
	kCurves
	kKeyShare
	kVersions
	kSigAlgs
	kOther
)

var kindNames = []string{"grease", "supported_groups", "key_share", "supported_versions", "signature_algorithms", "other"}

type aext struct {
	kind int
	id   uint16   // kGrease: Value; kOther: extension type
	vals []uint16 // lists
	body []byte   // kGrease
	obj  tls.TLSExtension
}

type absHello struct {
	suites []uint16
	exts   []aext
}

func abstractWire(w *whello) *absHello {
	a := &absHello{suites: w.suites}
	for _, e := range w.exts {
		x := aext{kind: kOther, id: e.id}
		var err error
		switch {
		case reserved(e.id):
			x = aext{kind: kGrease, id: e.id, body: e.data}
		case e.id == extSupportedGroups:
			x.kind = kCurves
			x.vals, err = parseGroups(e.data)
		case e.id == extKeyShare:
			x.kind = kKeyShare
			x.vals, err = parseKeyShareGroups(e.data)
		case e.id == extSupportedVersions:
			x.kind = kVersions
			x.vals, err = parseVersions(e.data)
		case e.id == extSigAlgs:
			x.kind = kSigAlgs
			x.vals, err = parseGroups(e.data)
		}
		if err != nil {
			panic(fmt.Sprintf("C04 runner: cannot parse extension %d: %v", e.id, err))
		}
		a.exts = append(a.exts, x)
	}
	return a
}

// abstractSpec reads the GREASE view off a spec BEFORE ApplyPreset mutates the shared extension objects.
func abstractSpec(spec *tls.ClientHelloSpec) *absHello {
	a := &absHello{suites: append([]uint16(nil), spec.CipherSuites...)}
	for _, e := range spec.Extensions {
		x := aext{kind: kOther, obj: e}
		switch t := e.(type) {
		case *tls.UtlsGREASEExtension:
			x = aext{kind: kGrease, id: t.Value, body: append([]byte(nil), t.Body...), obj: e}
		case *tls.SupportedCurvesExtension:
			x.kind = kCurves
			for _, c := range t.Curves {
				x.vals = append(x.vals, uint16(c))
			}
		case *tls.KeyShareExtension:
			x.kind = kKeyShare
			for _, k := range t.KeyShares {
				x.vals = append(x.vals, uint16(k.Group))
			}
		case *tls.SupportedVersionsExtension:
			x.kind = kVersions
			x.vals = append(x.vals, t.Versions...)
		case *tls.SignatureAlgorithmsExtension:
			x.kind = kSigAlgs
			for _, s := range t.SupportedSignatureAlgorithms {
				x.vals = append(x.vals, uint16(s))
			}
		}
		a.exts = append(a.exts, x)
	}
	return a
}

func sameExt(a, b tls.TLSExtension) (eq bool) {
	defer func() {
		if recover() != nil {
			eq = false
		}
	}()
	return a == b
}

// dropAbsent fills in the type of every untyped ("other") extension from its own marshaling and drops those that
// emit nothing (padding of length 0) or that the connection removed (empty PSK). uc == nil: keep only typed ones' order,
// give untyped ones type 0 (used when ApplyPreset failed and nothing was marshaled).
func (a *absHello) dropAbsent(uc *tls.UConn) {
	var keep []aext
	for _, x := range a.exts {
		if x.kind != kOther {
			keep = append(keep, x)
			continue
		}
		if uc == nil {
			keep = append(keep, x)
			continue
		}
		present := false
		for _, e := range uc.Extensions {
			if sameExt(e, x.obj) {
				present = true
			}
		}
		if !present {
			continue
		}
		n := x.obj.Len()
		if n < 4 {
			continue
		}
		buf := make([]byte, n)
		x.obj.Read(buf)
		x.id = uint16(buf[0])<<8 | uint16(buf[1])
		keep = append(keep, x)
	}
	a.exts = keep
}

func (a *absHello) coqExts() string {
	it := make([]string, len(a.exts))
	for i, x := range a.exts {
		switch x.kind {
		case kGrease:
			it[i] = fmt.Sprintf("XGrease %d %s", x.id, vh.Bytes(x.body))
		case kCurves:
			it[i] = "XCurves " + vh.U16s(x.vals)
		case kKeyShare:
			it[i] = "XKeyShare " + vh.U16s(x.vals)
		case kVersions:
			it[i] = "XVersions " + vh.U16s(x.vals)
		case kSigAlgs:
			it[i] = "XSigAlgs " + vh.U16s(x.vals)
		default:
			it[i] = fmt.Sprintf("XOther %d", x.id)
		}
	}
	return vh.List(it)
}

func (a *absHello) describe() string {
	var sb strings.Builder
	for _, x := range a.exts {
		switch x.kind {
		case kGrease:
			fmt.Fprintf(&sb, "GREASE(%04x,%x) ", x.id, x.body)
		case kOther:
			fmt.Fprintf(&sb, "%d ", x.id)
		default:
			fmt.Fprintf(&sb, "%s%v ", kindNames[x.kind], hex16(x.vals))
		}
	}
	return strings.TrimSpace(sb.String())
}

// reserved-form values per list: suites, supported_groups, key_share groups, extension types, supported_versions
func (w *whello) greaseValues() (cs, gs, ks, es, vs []uint16) {
	filter := func(l []uint16) (r []uint16) {
		for _, v := range l {
			if reserved(v) {
				r = append(r, v)
			}
		}
		return
	}
	cs = filter(w.suites)
	for _, e := range w.exts {
		switch {
		case reserved(e.id):
			es = append(es, e.id)
		case e.id == extSupportedGroups:
			if l, err := parseGroups(e.data); err == nil {
				gs = filter(l)
			}
		case e.id == extKeyShare:
			if l, err := parseKeyShareGroups(e.data); err == nil {
				ks = filter(l)
			}
		case e.id == extSupportedVersions:
			if l, err := parseVersions(e.data); err == nil {
				vs = filter(l)
			}
		}
	}
	return
}

func (w *whello) greaseCounts() [5]int {
	cs, gs, ks, es, vs := w.greaseValues()
	return [5]int{len(cs), len(gs), len(ks), len(es), len(vs)}
}

func (w *whello) describe(i int) string {
	switch i {
	case 0:
		return fmt.Sprint(hex16(w.suites))
	case 3:
		var ids []uint16
		for _, e := range w.exts {
			ids = append(ids, e.id)
		}
		return fmt.Sprint(hex16(ids))
	}
	want := map[int]uint16{1: extSupportedGroups, 2: extKeyShare, 4: extSupportedVersions}[i]
	for _, e := range w.exts {
		if e.id == want {
			return fmt.Sprintf("%x", e.data)
		}
	}
	return "absent"
}

// GREASE placeholders of a spec template, same order as greaseCounts
func specGreaseCounts(spec *tls.ClientHelloSpec) [5]int {
	a := abstractSpec(spec)
	var n [5]int
	cnt := func(l []uint16) (k int) {
		for _, v := range l {
			if reserved(v) {
				k++
			}
		}
		return
	}
	n[0] = cnt(a.suites)
	for _, x := range a.exts {
		switch x.kind {
		case kGrease:
			n[3]++
		case kCurves:
			n[1] += cnt(x.vals)
		case kKeyShare:
			n[2] += cnt(x.vals)
		case kVersions:
			n[4] += cnt(x.vals)
		}
	}
	return n
}

// ---------- generated specs ----------

var realSuites = []uint16{0x1301, 0x1302, 0x1303, 0xc02b, 0xc02f, 0xc02c, 0xc030, 0xcca9, 0xcca8, 0xc013, 0xc014, 0x009c, 0x009d, 0x002f, 0x0035, 0x000a}

func anyGrease(r *mrand.Rand) uint16 {
	if r.Intn(2) == 0 {
		return tls.GREASE_PLACEHOLDER
	}
	w := uint16(r.Intn(16))
	return w<<12 | 0x0a00 | w<<4 | 0x0a
}

func insertAt(r *mrand.Rand, l []uint16, v uint16) []uint16 {
	i := r.Intn(len(l) + 1)
	l = append(l, 0)
	copy(l[i+1:], l[i:])
	l[i] = v
	return l
}

func genSpec(c *vh.Ctx) *tls.ClientHelloSpec {
	r := c.Rng
	spec := &tls.ClientHelloSpec{TLSVersMin: tls.VersionTLS12, TLSVersMax: tls.VersionTLS13}
	perm := r.Perm(len(realSuites))
	for _, i := range perm[:3+r.Intn(8)] {
		spec.CipherSuites = append(spec.CipherSuites, realSuites[i])
	}
	for k := r.Intn(3); k > 0; k-- {
		spec.CipherSuites = insertAt(r, spec.CipherSuites, anyGrease(r))
	}
	curves := []uint16{uint16(tls.X25519), uint16(tls.CurveP256), uint16(tls.CurveP384)}[:1+r.Intn(3)]
	curves = append([]uint16(nil), curves...)
	for k := r.Intn(3); k > 0; k-- {
		curves = insertAt(r, curves, anyGrease(r))
	}
	ce := &tls.SupportedCurvesExtension{}
	for _, v := range curves {
		ce.Curves = append(ce.Curves, tls.CurveID(v))
	}
	ks := &tls.KeyShareExtension{KeyShares: []tls.KeyShare{{Group: tls.X25519}}}
	if r.Intn(3) == 0 {
		ks.KeyShares = append(ks.KeyShares, tls.KeyShare{Group: tls.CurveP256})
	}
	for k := r.Intn(3); k > 0; k-- {
		i := r.Intn(len(ks.KeyShares) + 1)
		g := tls.KeyShare{Group: tls.CurveID(anyGrease(r)), Data: []byte{0}}
		ks.KeyShares = append(ks.KeyShares[:i], append([]tls.KeyShare{g}, ks.KeyShares[i:]...)...)
	}
	vers := []uint16{tls.VersionTLS13, tls.VersionTLS12}
	for k := r.Intn(3); k > 0; k-- {
		vers = insertAt(r, vers, anyGrease(r))
	}
	sig := []tls.SignatureScheme{tls.ECDSAWithP256AndSHA256, tls.PSSWithSHA256, tls.PKCS1WithSHA256}
	if r.Intn(4) == 0 {
		sig = append(sig, tls.SignatureScheme(tls.GREASE_PLACEHOLDER))
	}
	exts := []tls.TLSExtension{
		&tls.SNIExtension{}, ce, ks, &tls.SupportedVersionsExtension{Versions: vers},
		&tls.SignatureAlgorithmsExtension{SupportedSignatureAlgorithms: sig},
		&tls.PSKKeyExchangeModesExtension{Modes: []uint8{tls.PskModeDHE}},
	}
	opt := []tls.TLSExtension{
		&tls.ALPNExtension{AlpnProtocols: []string{"h2", "http/1.1"}}, &tls.StatusRequestExtension{}, &tls.SCTExtension{},
		&tls.ExtendedMasterSecretExtension{}, &tls.RenegotiationInfoExtension{Renegotiation: tls.RenegotiateOnceAsClient},
		&tls.SupportedPointsExtension{SupportedPoints: []byte{0}}, &tls.SessionTicketExtension{},
	}
	for _, e := range opt {
		if r.Intn(2) == 0 {
			exts = append(exts, e)
		}
	}
	r.Shuffle(len(exts), func(i, j int) { exts[i], exts[j] = exts[j], exts[i] })
	ng := []int{0, 1, 2, 2, 2, 2, 3}[r.Intn(7)]
	for k := 0; k < ng; k++ {
		g := &tls.UtlsGREASEExtension{}
		switch r.Intn(3) {
		case 1:
			g.Value = tls.GREASE_PLACEHOLDER
		case 2:
			g.Value = anyGrease(r)
		}
		switch r.Intn(3) {
		case 1:
			g.Body = []byte{0}
		case 2:
			g.Body = []byte{1, 2}
		}
		i := r.Intn(len(exts) + 1)
		exts = append(exts[:i], append([]tls.TLSExtension{g}, exts[i:]...)...)
	}
	spec.Extensions = exts
	return spec
}

// genShape returns a constructor of one fixed GREASE-rich spec (fresh objects per call).
func genShape() func() *tls.ClientHelloSpec {
	return func() *tls.ClientHelloSpec {
		return &tls.ClientHelloSpec{
			TLSVersMin: tls.VersionTLS12, TLSVersMax: tls.VersionTLS13,
			CipherSuites: []uint16{tls.GREASE_PLACEHOLDER, 0x1301, 0x1302, 0xc02b},
			Extensions: []tls.TLSExtension{
				&tls.UtlsGREASEExtension{},
				&tls.SNIExtension{},
				&tls.SupportedCurvesExtension{Curves: []tls.CurveID{tls.GREASE_PLACEHOLDER, tls.X25519, tls.CurveP256}},
				&tls.SignatureAlgorithmsExtension{SupportedSignatureAlgorithms: []tls.SignatureScheme{tls.ECDSAWithP256AndSHA256, tls.PSSWithSHA256}},
				&tls.KeyShareExtension{KeyShares: []tls.KeyShare{{Group: tls.GREASE_PLACEHOLDER, Data: []byte{0}}, {Group: tls.X25519}}},
				&tls.PSKKeyExchangeModesExtension{Modes: []uint8{tls.PskModeDHE}},
				&tls.SupportedVersionsExtension{Versions: []uint16{tls.GREASE_PLACEHOLDER, tls.VersionTLS13, tls.VersionTLS12}},
				&tls.UtlsGREASEExtension{},
			},
		}
	}
}

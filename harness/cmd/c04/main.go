// c04: correspondence runner and property oracle for C04 (GREASE values are
// well-formed, distinct where required, and fresh).
//
// The Go-side oracle (c.Fail) is written from the property text only:
//   - TLS GREASE values are 0x?A?A (both bytes equal, low nibble A);
//   - the two GREASE extensions of one hello differ;
//   - the GREASE group in key_share equals the one in supported_groups;
//   - per parrot the cipher/group/extension/version GREASE values vary over connections;
//   - QUIC transport parameter ids are 31*N+27 (and encodable, < 2^62);
//   - QUIC GREASE versions match 0x?a?a?a?a.
// Everything the code produced is also handed to Coq (Corr/C04Corr.v) together with
// the random bytes it consumed, where Model/Grease.v must reproduce it exactly.
package main

import (
	"fmt"
	"net"
	"os"
	"regexp"
	"sort"
	"strings"

	tls "github.com/refraction-networking/utls"
	"verif/harness/vh"
)

func main() { vh.Main(map[string]vh.Suite{"C04": {"Corr.C04Corr", run}}) }

// reserved: the property's own definition of a TLS GREASE value.
func reserved(v uint16) bool { return byte(v>>8) == byte(v) && v&0x0f == 0x0a }

type namedID struct {
	name string
	id   tls.ClientHelloID
}

var parrots = []namedID{
	{"Firefox_55", tls.HelloFirefox_55}, {"Firefox_56", tls.HelloFirefox_56}, {"Firefox_63", tls.HelloFirefox_63},
	{"Firefox_65", tls.HelloFirefox_65}, {"Firefox_99", tls.HelloFirefox_99}, {"Firefox_102", tls.HelloFirefox_102},
	{"Firefox_105", tls.HelloFirefox_105}, {"Firefox_120", tls.HelloFirefox_120},
	{"Chrome_58", tls.HelloChrome_58}, {"Chrome_62", tls.HelloChrome_62}, {"Chrome_70", tls.HelloChrome_70},
	{"Chrome_72", tls.HelloChrome_72}, {"Chrome_83", tls.HelloChrome_83}, {"Chrome_87", tls.HelloChrome_87},
	{"Chrome_96", tls.HelloChrome_96}, {"Chrome_100", tls.HelloChrome_100}, {"Chrome_102", tls.HelloChrome_102},
	{"Chrome_106_Shuffle", tls.HelloChrome_106_Shuffle}, {"Chrome_100_PSK", tls.HelloChrome_100_PSK},
	{"Chrome_112_PSK_Shuf", tls.HelloChrome_112_PSK_Shuf}, {"Chrome_114_Padding_PSK_Shuf", tls.HelloChrome_114_Padding_PSK_Shuf},
	{"Chrome_115_PQ", tls.HelloChrome_115_PQ}, {"Chrome_115_PQ_PSK", tls.HelloChrome_115_PQ_PSK},
	{"Chrome_120", tls.HelloChrome_120}, {"Chrome_120_PQ", tls.HelloChrome_120_PQ}, {"Chrome_131", tls.HelloChrome_131},
	{"Chrome_133", tls.HelloChrome_133},
	{"IOS_11_1", tls.HelloIOS_11_1}, {"IOS_12_1", tls.HelloIOS_12_1}, {"IOS_13", tls.HelloIOS_13}, {"IOS_14", tls.HelloIOS_14},
	{"Android_11_OkHttp", tls.HelloAndroid_11_OkHttp},
	{"Edge_85", tls.HelloEdge_85}, {"Edge_106", tls.HelloEdge_106},
	{"Safari_16_0", tls.HelloSafari_16_0},
	{"360_7_5", tls.Hello360_7_5}, {"360_11_0", tls.Hello360_11_0},
	{"QQ_11_1", tls.HelloQQ_11_1},
}

// unlistedParrots names Hello* ClientHelloIDs declared in u_common.go that the table above lacks
// (reported in the evidence, so a newly added parrot is not skipped silently).
func unlistedParrots() []string {
	repo := os.Getenv("VERIF_REPO")
	if repo == "" {
		repo = "/repo"
	}
	src, err := os.ReadFile(repo + "/u_common.go")
	if err != nil {
		return []string{"(cannot read u_common.go: " + err.Error() + ")"}
	}
	have := map[string]bool{"Golang": true, "Custom": true, "Randomized": true, "RandomizedALPN": true, "RandomizedNoALPN": true}
	for _, p := range parrots {
		have[p.name] = true
	}
	var miss []string
	for _, m := range regexp.MustCompile(`(?m)^\s*Hello(\w+)\s*=\s*ClientHelloID\{`).FindAllStringSubmatch(string(src), -1) {
		if !have[m[1]] {
			miss = append(miss, m[1])
		}
	}
	return miss
}

func newConn(rec *recRand, id tls.ClientHelloID) *tls.UConn {
	return tls.UClient(&net.TCPConn{}, &tls.Config{ServerName: "c04.example.com", Rand: rec, OmitEmptyPsk: true}, id)
}

// ---------- per-parrot statistics for the freshness part ----------

var slotNames = []string{"cipher", "group", "ext1", "ext2", "version"}

type fresh struct {
	conns int
	seen  [5]map[uint16]int
}

func newFresh() *fresh {
	f := &fresh{}
	for i := range f.seen {
		f.seen[i] = map[uint16]int{}
	}
	return f
}

func (f *fresh) add(s [5]*uint16) {
	f.conns++
	for i, p := range s {
		if p != nil {
			f.seen[i][*p]++
		}
	}
}

func (f *fresh) judge(c *vh.Ctx, label string) {
	for i, m := range f.seen {
		tot := 0
		for _, k := range m {
			tot += k
		}
		if tot == 0 {
			continue
		}
		c.Count(fmt.Sprintf("fresh-slots-with-%02d-distinct", len(m)))
		if tot >= 100 && len(m) < 2 {
			var only uint16
			for v := range m {
				only = v
			}
			fail(c, "fresh/"+label+"/"+slotNames[i], "the GREASE "+slotNames[i]+" value is the same on every connection",
				map[string]any{"hello": label, "connections": tot, "seed": c.Seed}, fmt.Sprintf("always 0x%04x", only), "values vary across connections")
		}
	}
}

// ---------- hello through the ClientHelloID path ----------

type slotObs struct {
	gb    []byte
	slots [5]*uint16
}

func slotsCoq(batch []slotObs) string {
	it := make([]string, len(batch))
	for i, o := range batch {
		s := make([]string, 5)
		for j, p := range o.slots {
			if p == nil {
				s[j] = "None"
			} else {
				s[j] = vh.Opt(true, vh.N(uint64(*p)))
			}
		}
		it[i] = "(" + vh.Bytes(o.gb) + ", " + vh.List(s) + ")"
	}
	return "(CSlots " + vh.List(it) + ")"
}

// wireOracle applies the within-one-hello parts of the property to a parsed wire hello.
func wireOracle(c *vh.Ctx, label string, input any, w *whello) (slots [5]*uint16) {
	cs, gs, ks, es, vs := w.greaseValues()
	pick := func(l []uint16) *uint16 {
		if len(l) == 0 {
			return nil
		}
		v := l[0]
		return &v
	}
	slots[0], slots[1], slots[4] = pick(cs), pick(gs), pick(vs)
	if len(es) > 0 {
		slots[2] = &es[0]
	}
	if len(es) > 1 {
		slots[3] = &es[1]
	}
	for i := 0; i < len(es); i++ {
		for j := i + 1; j < len(es); j++ {
			if es[i] == es[j] {
				fail(c, "ext-distinct/"+label, "two GREASE extensions of one ClientHello carry the same code point", input,
					fmt.Sprintf("extensions #%d and #%d both 0x%04x", i+1, j+1, es[i]), "different code points")
			}
		}
	}
	if len(gs) > 0 {
		for _, k := range ks {
			if k != gs[0] {
				fail(c, "group-consistent/"+label, "GREASE group in key_share differs from the GREASE group in supported_groups", input,
					fmt.Sprintf("key_share 0x%04x", k), fmt.Sprintf("supported_groups 0x%04x", gs[0]))
			}
		}
	}
	return
}

func runParrotID(c *vh.Ctx, p namedID, n int) {
	tmpl, err := tls.UTLSIdToSpec(p.id)
	if err != nil {
		c.Count("skip-no-template/" + p.name)
		return
	}
	want := specGreaseCounts(&tmpl)
	carries := want[0]+want[1]+want[2]+want[3]+want[4] > 0
	if !carries {
		n = 10
	}
	fr := newFresh()
	var batch []slotObs
	toCoq := n / 10 // connections whose slot values are also re-derived in Coq; the oracle sees all n
	if toCoq < 10 {
		toCoq = 10
	}
	for k := 0; k < n; k++ {
		rec := newRec(c.Rng.Int63())
		uc := newConn(rec, p.id)
		if err := uc.BuildHandshakeState(); err != nil {
			c.Count("skip-build-error/" + p.name)
			return
		}
		gb := rec.seedBytes()
		w, err := parseHello(uc.HandshakeState.Hello.Raw)
		if err != nil {
			panic("cannot parse ClientHello of " + p.name + ": " + err.Error())
		}
		input := map[string]any{"hello": p.name, "path": "ClientHelloID", "seed_bytes": vh.Hex(gb)}
		got := w.greaseCounts()
		names := []string{"cipher_suites", "supported_groups", "key_share", "extensions", "supported_versions"}
		for i := range want {
			if got[i] != want[i] {
				fail(c, "form/"+p.name+"/"+names[i], "a GREASE position of the parrot does not carry a reserved 0x?A?A value on the wire", input,
					fmt.Sprintf("%d reserved values in %s (%s)", got[i], names[i], w.describe(i)), fmt.Sprintf("%d (the parrot's GREASE placeholders)", want[i]))
			}
		}
		slots := wireOracle(c, p.name, input, w)
		fr.add(slots)
		if k < toCoq {
			batch = append(batch, slotObs{gb, slots})
		}
		if len(batch) == 20 || (k == n-1 && len(batch) > 0) {
			c.Case("slots", slotsCoq(batch), fmt.Sprintf("%s/%x", p.name, batch[0].gb), carries,
				map[string]any{"hello": p.name, "seed_bytes": vh.Hex(batch[0].gb), "slots": fmtSlots(batch[0].slots)})
			batch = nil
		}
	}
	if carries {
		fr.judge(c, p.name)
		c.Count("grease-carrying-parrots")
	}
}

func fmtSlots(s [5]*uint16) string {
	var sb strings.Builder
	for i, p := range s {
		if p != nil {
			fmt.Fprintf(&sb, "%s=0x%04x ", slotNames[i], *p)
		}
	}
	return strings.TrimSpace(sb.String())
}

// ---------- hello through HelloCustom + ApplyPreset(spec): exact structural prediction ----------

// runCustom applies spec on a fresh connection and records the CPreset case; returns the slots seen (ok=false: nothing built).
func runCustom(c *vh.Ctx, label, kind string, spec *tls.ClientHelloSpec, fr *fresh) bool {
	in := abstractSpec(spec)
	rec := newRec(c.Rng.Int63())
	uc := newConn(rec, tls.HelloCustom)
	errA := uc.ApplyPreset(spec)
	var errB error
	if errA == nil {
		errB = uc.BuildHandshakeState()
	}
	if !rec.hasSeed() {
		c.Count("skip-no-seed-read/" + kind)
		return false
	}
	gb := rec.seedBytes()
	input := map[string]any{"hello": label, "path": "ApplyPreset", "seed_bytes": vh.Hex(gb), "suites": in.suites, "extensions": in.describe()}
	if errA != nil {
		nGrease := 0
		for _, e := range in.exts {
			if e.kind == kGrease {
				nGrease++
			}
		}
		if nGrease <= 2 {
			// an error the GREASE model does not describe (unsupported curve, ...): not a C04 matter
			c.Count("skip-applypreset-error/" + kind)
			return false
		}
		in.dropAbsent(nil)
		c.Case("preset-"+kind, fmt.Sprintf("(CPreset %s %s %s None)", vh.Bytes(gb), vh.U16s(in.suites), in.coqExts()),
			label+"/"+vh.Hex(gb)+"/err", true, nil)
		c.Count("preset-error-third-grease-extension")
		return true
	}
	if errB != nil {
		c.Count("skip-build-error/" + kind)
		return false
	}
	w, err := parseHello(uc.HandshakeState.Hello.Raw)
	if err != nil {
		panic("cannot parse ClientHello of " + label + ": " + err.Error())
	}
	in.dropAbsent(uc)
	out := abstractWire(w)
	// position-wise oracle: a GREASE position carries a reserved value, everything else is what the spec said
	posOracle(c, label, input, in, out)
	slots := wireOracle(c, label, input, w)
	if fr != nil {
		fr.add(slots)
	}
	nontrivial := false
	for _, s := range slots {
		if s != nil {
			nontrivial = true
		}
	}
	c.Case("preset-"+kind, fmt.Sprintf("(CPreset %s %s %s (Some (%s, %s)))", vh.Bytes(gb), vh.U16s(in.suites), in.coqExts(), vh.U16s(out.suites), out.coqExts()),
		label+"/"+vh.Hex(gb)+"/"+fmt.Sprint(in.suites)+in.describe(), nontrivial,
		map[string]any{"hello": label, "seed_bytes": vh.Hex(gb), "slots": fmtSlots(slots)})
	return true
}

func posOracle(c *vh.Ctx, label string, input any, in, out *absHello) {
	cmp := func(what string, a, b []uint16) {
		if len(a) != len(b) {
			fail(c, "form/"+label+"/"+what, what+": number of entries changed", input, fmt.Sprint(hex16(b)), fmt.Sprint(hex16(a)))
			return
		}
		for i := range a {
			if reserved(a[i]) {
				if !reserved(b[i]) {
					fail(c, "form/"+label+"/"+what, fmt.Sprintf("%s: GREASE position %d does not carry a reserved 0x?A?A value", what, i), input,
						fmt.Sprintf("0x%04x", b[i]), "0x?A?A")
				}
			} else if a[i] != b[i] {
				fail(c, "form/"+label+"/"+what, fmt.Sprintf("%s: non-GREASE entry %d changed", what, i), input,
					fmt.Sprintf("0x%04x", b[i]), fmt.Sprintf("0x%04x", a[i]))
			}
		}
	}
	cmp("cipher_suites", in.suites, out.suites)
	if len(in.exts) != len(out.exts) {
		fail(c, "form/"+label+"/extensions", "number of extensions on the wire differs from the spec", input, out.describe(), in.describe())
		return
	}
	for i := range in.exts {
		a, b := in.exts[i], out.exts[i]
		if a.kind == kGrease {
			if !reserved(b.id) {
				fail(c, "form/"+label+"/extensions", fmt.Sprintf("GREASE extension at position %d has a non-reserved type", i), input, fmt.Sprintf("0x%04x", b.id), "0x?A?A")
			}
			continue
		}
		if a.kind != b.kind {
			fail(c, "form/"+label+"/extensions", fmt.Sprintf("extension at position %d changed kind", i), input, out.describe(), in.describe())
			continue
		}
		switch a.kind {
		case kOther:
			if a.id != b.id {
				fail(c, "form/"+label+"/extensions", fmt.Sprintf("extension at position %d changed type", i), input, out.describe(), in.describe())
			}
		default:
			cmp(kindNames[a.kind], a.vals, b.vals)
		}
	}
}

func hex16(l []uint16) []string {
	r := make([]string, len(l))
	for i, v := range l {
		r[i] = fmt.Sprintf("%04x", v)
	}
	return r
}

// ---------- the suite ----------

func run(c *vh.Ctx) {
	n := c.N // connections per GREASE-carrying parrot
	if n < 100 {
		n = 100
	}
	per := n / 66 // structural (CPreset) cases per parrot and path
	if per < 2 {
		per = 2
	}
	c.Extra["unlisted_parrots"] = unlistedParrots()

	runGenerators(c)
	runQUIC(c, n)
	runQUICBoundaries(c)

	for _, p := range parrots {
		runParrotID(c, p, n)

		// the same parrot through UTLSIdToSpec + ApplyPreset, and its fingerprinted copy
		frC, frF := newFresh(), newFresh()
		var rawRec []byte
		for k := 0; k < per; k++ {
			spec, err := tls.UTLSIdToSpec(p.id)
			if err != nil {
				break
			}
			runCustom(c, p.name, "parrot", &spec, frC)
		}
		// fingerprint one wire hello of the parrot, then apply the copy repeatedly
		{
			rec := newRec(c.Rng.Int63())
			uc := newConn(rec, p.id)
			if err := uc.BuildHandshakeState(); err == nil {
				raw := uc.HandshakeState.Hello.Raw
				rawRec = append([]byte{0x16, 0x03, 0x01, byte(len(raw) >> 8), byte(len(raw))}, raw...)
			}
		}
		if rawRec != nil {
			for k := 0; k < per; k++ {
				f := &tls.Fingerprinter{AllowBluntMimicry: true}
				spec, err := f.FingerprintClientHello(rawRec)
				if err != nil {
					c.Count("skip-fingerprint-error/" + p.name)
					break
				}
				runCustom(c, "fingerprinted:"+p.name, "fingerprinted", spec, frF)
			}
		}
		_ = frC
		_ = frF
	}

	// fingerprinted copies, freshness: many connections from copies of three GREASE-rich parrots
	for _, p := range []namedID{{"Chrome_133", tls.HelloChrome_133}, {"Chrome_100", tls.HelloChrome_100}, {"IOS_14", tls.HelloIOS_14}} {
		rec := newRec(c.Rng.Int63())
		uc := newConn(rec, p.id)
		if err := uc.BuildHandshakeState(); err != nil {
			continue
		}
		raw := uc.HandshakeState.Hello.Raw
		rawRec := append([]byte{0x16, 0x03, 0x01, byte(len(raw) >> 8), byte(len(raw))}, raw...)
		fr := newFresh()
		for k := 0; k < n; k++ {
			spec, err := (&tls.Fingerprinter{AllowBluntMimicry: true}).FingerprintClientHello(rawRec)
			if err != nil {
				break
			}
			freshOnly(c, "fingerprinted:"+p.name, spec, fr)
		}
		fr.judge(c, "fingerprinted:"+p.name)
	}

	// randomized ClientHelloIDs (they carry no GREASE today; the oracle still inspects them)
	for k := 0; k < n/2; k++ {
		id := []tls.ClientHelloID{tls.HelloRandomized, tls.HelloRandomizedALPN, tls.HelloRandomizedNoALPN}[k%3]
		var seed tls.PRNGSeed
		c.Rng.Read(seed[:])
		id.Seed = &seed
		rec := newRec(c.Rng.Int63())
		uc := newConn(rec, id)
		if err := uc.BuildHandshakeState(); err != nil {
			c.Count("skip-build-error/randomized")
			continue
		}
		w, err := parseHello(uc.HandshakeState.Hello.Raw)
		if err != nil {
			panic("cannot parse randomized ClientHello: " + err.Error())
		}
		gb := rec.seedBytes()
		input := map[string]any{"hello": id.Client, "prng_seed": vh.Hex(seed[:]), "seed_bytes": vh.Hex(gb)}
		slots := wireOracle(c, "randomized", input, w)
		if k%10 == 0 {
			c.Case("slots", slotsCoq([]slotObs{{gb, slots}}), "randomized/"+vh.Hex(seed[:]), false, nil)
		}
		c.Count("randomized-id-hellos")
	}

	// runner-generated specs with GREASE at random positions (0..3 GREASE extensions, user-set GREASE values)
	frG := newFresh()
	for k := 0; k < 4*per+n/4; k++ { // 62 at the quick tier
		spec := genSpec(c)
		runCustom(c, "generated", "generated", spec, nil)
	}
	// one fixed generated shape, many connections: freshness of every slot
	shape := genShape()
	for k := 0; k < n; k++ {
		freshOnly(c, "generated-fixed-shape", shape(), frG)
	}
	frG.judge(c, "generated-fixed-shape")

	keys := vh.SortedKeys(c.Dist)
	sort.Strings(keys)
}

// freshOnly builds one hello from spec and only feeds the oracle / freshness counters (no Coq case).
func freshOnly(c *vh.Ctx, label string, spec *tls.ClientHelloSpec, fr *fresh) {
	rec := newRec(c.Rng.Int63())
	uc := newConn(rec, tls.HelloCustom)
	if err := uc.ApplyPreset(spec); err != nil {
		return
	}
	if err := uc.BuildHandshakeState(); err != nil {
		return
	}
	w, err := parseHello(uc.HandshakeState.Hello.Raw)
	if err != nil {
		panic("cannot parse ClientHello of " + label + ": " + err.Error())
	}
	fr.add(wireOracle(c, label, map[string]any{"hello": label, "seed_bytes": vh.Hex(rec.seedBytes())}, w))
}

// fail reports an oracle failure, at most three per key (a broken generator fails on almost every draw).
var failCount = map[string]int{}

func fail(c *vh.Ctx, key, what string, input, got, want any) {
	failCount[key]++
	if failCount[key] <= 3 {
		c.Fail(key, what, input, got, want)
	} else {
		c.Count("further-failures/" + key)
	}
}

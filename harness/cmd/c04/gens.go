package main

import (
	"bytes"
	crand "crypto/rand"
	"encoding/binary"
	"errors"
	"fmt"
	"io"
	"math/big"
	"sort"

	tls "github.com/refraction-networking/utls"
	"verif/harness/vh"
)

// ---------- TLS generators ----------

func runGenerators(c *vh.Ctx) {
	// GetBoringGREASEValue: every uint16 seed word at every index (Go-side oracle on all 5*2^16 results,
	// 256 structured + ~128 random seed words per index to Coq).
	for idx := 0; idx < 5; idx++ {
		var batch [][2]uint64
		flush := func() {
			if len(batch) == 0 {
				return
			}
			it := make([]string, len(batch))
			for i, p := range batch {
				it[i] = fmt.Sprintf("(%d, %d)", p[0], p[1])
			}
			c.Case("boring-words", fmt.Sprintf("(CWords %s %s)", vh.Nat(idx), vh.List(it)), fmt.Sprintf("%d/%d", idx, batch[0][0]), true, nil)
			batch = nil
		}
		seen := map[uint16]bool{}
		for s := 0; s < 65536; s++ {
			var seed [5]uint16
			seed[idx] = uint16(s)
			v := tls.GetBoringGREASEValue(seed, idx)
			seen[v] = true
			if !reserved(v) {
				fail(c, "form/GetBoringGREASEValue", "GetBoringGREASEValue returned a value outside 0x?A?A",
					map[string]any{"seed_word": s, "index": idx}, fmt.Sprintf("0x%04x", v), "0x?A?A")
			}
			if s%16 == 5 && (s/16)%16 == (s/256)%16 || c.Rng.Intn(512) == 0 {
				batch = append(batch, [2]uint64{uint64(s), uint64(v)})
			}
		}
		flush()
		if len(seen) != 16 {
			fail(c, "fresh/GetBoringGREASEValue", "GetBoringGREASEValue does not reach all 16 reserved values",
				map[string]any{"index": idx}, fmt.Sprintf("%d distinct values", len(seen)), "16")
		}
	}
	// arbitrary seed arrays and indices, including out-of-range ones (panic)
	for k := 0; k < 40; k++ {
		var seed [5]uint16
		words := make([]string, 5)
		for i := range seed {
			seed[i] = uint16(c.Rng.Intn(65536))
			words[i] = fmt.Sprint(seed[i])
		}
		idx := c.Rng.Intn(5)
		if k%5 == 4 {
			idx = 5 + c.Rng.Intn(3)
		}
		var v uint16
		panicked, _ := vh.Recover(func() { v = tls.GetBoringGREASEValue(seed, idx) })
		c.Case("boring", fmt.Sprintf("(CBoring %s %s %s)", vh.List(words), vh.Nat(idx), vh.Opt(!panicked, vh.N(uint64(v)))),
			fmt.Sprint(seed, idx), !panicked, nil)
	}
	// isGREASEUint16 seen through ApplyPreset: which of all 2^16 cipher-suite values get re-GREASEd.
	// Two connections whose cipher GREASE value differs tell "replaced" from "kept" for every value.
	all := make([]uint16, 65536)
	for i := range all {
		all[i] = uint16(i)
	}
	var outs [][]uint16
	for tries := 0; tries < 64 && len(outs) < 2; tries++ {
		rec := newRec(c.Rng.Int63())
		uc := newConn(rec, tls.HelloCustom)
		spec := &tls.ClientHelloSpec{CipherSuites: all, TLSVersMin: tls.VersionTLS10, TLSVersMax: tls.VersionTLS12}
		if err := uc.ApplyPreset(spec); err != nil {
			panic("C04 runner: ApplyPreset of the all-suites spec failed: " + err.Error())
		}
		o := append([]uint16(nil), uc.HandshakeState.Hello.CipherSuites...)
		if len(outs) == 1 && o[tls.GREASE_PLACEHOLDER] == outs[0][tls.GREASE_PLACEHOLDER] {
			continue
		}
		outs = append(outs, o)
	}
	if len(outs) == 2 {
		var treated []uint16
		for v := 0; v < 65536; v++ {
			if outs[0][v] != uint16(v) || outs[1][v] != uint16(v) {
				treated = append(treated, uint16(v))
				if !reserved(uint16(v)) {
					fail(c, "form/isGREASEUint16", "ApplyPreset replaced a cipher suite that is not a GREASE value", map[string]any{"suite": v},
						fmt.Sprintf("0x%04x -> 0x%04x", v, outs[0][v]), "unchanged")
				}
			} else if reserved(uint16(v)) {
				fail(c, "form/isGREASEUint16", "ApplyPreset kept a user-set GREASE cipher suite instead of re-GREASE-ing it", map[string]any{"suite": v},
					"unchanged on two connections with different GREASE seeds", "replaced by the connection's GREASE value")
			}
		}
		c.Case("is-grease", "(CIsGrease "+vh.U16s(treated)+")", "sweep", true, map[string]any{"treated_as_grease": hex16(treated)})
	} else {
		c.Count("skip-is-grease-sweep")
	}
}

// ---------- QUIC ----------

// logReader replaces crypto/rand.Reader while the QUIC generators run: deterministic bytes
// (or a scripted prefix), everything consumed is kept so the draw crypto/rand.Int made can be recomputed.
type logReader struct {
	script []byte // served first
	src    io.Reader
	log    []byte
	fail   bool
}

func (l *logReader) Read(p []byte) (int, error) {
	if l.fail {
		return 0, errors.New("scripted entropy failure")
	}
	for i := range p {
		if len(l.script) > 0 {
			p[i] = l.script[0]
			l.script = l.script[1:]
		} else {
			var b [1]byte
			l.src.Read(b[:])
			p[i] = b[0]
		}
	}
	l.log = append(l.log, p...)
	return len(p), nil
}

func withReader(l *logReader, f func()) {
	old := crand.Reader
	crand.Reader = l
	defer func() { crand.Reader = old }()
	f()
}

var (
	greaseMaxMultiplier = big.NewInt(tls.GREASE_MAX_MULTIPLIER)
	maxUint32           = big.NewInt(0xffffffff)
)

// redraw recomputes from the consumed bytes what crypto/rand.Int(reader, max) returned, call by call.
func redraw(consumed []byte, max *big.Int, calls int) ([]uint64, []byte) {
	r := bytes.NewReader(consumed)
	var out []uint64
	for i := 0; i < calls; i++ {
		v, err := crand.Int(r, max)
		if err != nil {
			panic("C04 runner: cannot recompute the crypto/rand.Int draw: " + err.Error())
		}
		out = append(out, v.Uint64())
	}
	rest := make([]byte, r.Len())
	r.Read(rest)
	return out, rest
}

func optN(ok bool, v uint64) string { return vh.Opt(ok, vh.N(v)) }

func quicIDOracle(c *vh.Ctx, key string, input any, id uint64) {
	if id%31 != 27 || id >= 1<<62 {
		fail(c, key, "QUIC GREASE transport parameter id is not 31*N+27 below 2^62", input, id, "id % 31 == 27 and id < 2^62")
	}
}

func quicVersionOracle(c *vh.Ctx, key string, input any, v uint32) {
	if v&0x0f0f0f0f != 0x0a0a0a0a {
		fail(c, key, "QUIC GREASE version is not of the reserved form 0x?a?a?a?a", input, fmt.Sprintf("0x%08x", v), "0x?a?a?a?a")
	}
}

func be(x uint64, n int) []byte {
	var b [8]byte
	binary.BigEndian.PutUint64(b[:], x)
	return b[8-n:]
}

func runQUIC(c *vh.Ctx, n int) {
	draws := 50 * n // 10^4 at the quick tier
	src := vh.NewRand(c.Rng.Int63())

	// --- GetGREASEVersion: corpus (scripted draws, first one is the F-04 witness), then random draws
	corpus := []uint32{1, 0, 0x05050505, 0xf5f5f5f5, 0xfffffffe, 0x0a0a0a0a, 0xf0f0f0f0, 0x12345678}
	var pairs []string
	for _, x := range corpus {
		l := &logReader{script: be(uint64(x), 4), src: src}
		var v uint32
		withReader(l, func() { v = (&tls.VersionInformation{}).GetGREASEVersion() })
		d, _ := redraw(l.log, maxUint32, 1)
		quicVersionOracle(c, fmt.Sprintf("quic-version/draw=%d", d[0]), map[string]any{"rand_int_draw": d[0], "entropy": vh.Hex(l.log)}, v)
		c.Case("quic-version-corpus", fmt.Sprintf("(CQuicVersions [(%s, %d)])", optN(true, d[0]), v), fmt.Sprint("corpus", x), true,
			map[string]any{"draw": d[0], "version": fmt.Sprintf("0x%08x", v)})
	}
	distinct := map[uint32]bool{}
	for k := 0; k < draws; k++ {
		l := &logReader{src: src}
		var v uint32
		withReader(l, func() { v = (&tls.VersionInformation{}).GetGREASEVersion() })
		d, _ := redraw(l.log, maxUint32, 1)
		distinct[v] = true
		quicVersionOracle(c, "quic-version/random-draw", map[string]any{"rand_int_draw": d[0], "entropy": vh.Hex(l.log)}, v)
		if k%(draws/200) == 0 {
			pairs = append(pairs, fmt.Sprintf("(%s, %d)", optN(true, d[0]), v))
		}
		if len(pairs) == 100 || (k == draws-1 && len(pairs) > 0) {
			c.Case("quic-version", "(CQuicVersions "+vh.List(pairs)+")", fmt.Sprint("v", k), true, nil)
			pairs = nil
		}
	}
	if len(distinct) < 2 {
		fail(c, "fresh/quic-version", "GetGREASEVersion returns the same version on every call", map[string]any{"calls": draws}, len(distinct), "values vary")
	}
	c.Extra["quic_version_distinct"] = len(distinct)
	{ // entropy failure: falls back to VERSION_GREASE
		l := &logReader{fail: true}
		var v uint32
		withReader(l, func() { v = (&tls.VersionInformation{}).GetGREASEVersion() })
		quicVersionOracle(c, "quic-version/entropy-failure", map[string]any{"entropy": "reader fails"}, v)
		c.Case("quic-version-corpus", fmt.Sprintf("(CQuicVersions [(None, %d)])", v), "fail", true, nil)
	}

	// --- GetGREASEID
	maxK := uint64(tls.GREASE_MAX_MULTIPLIER)
	for _, k := range []uint64{0, 1, 2, maxK - 1, maxK - 2, 1 << 32, 1<<57 - 1} {
		l := &logReader{script: be(k, 8), src: src}
		var id uint64
		withReader(l, func() { id = tls.GREASETransportParameter{}.GetGREASEID() })
		d, _ := redraw(l.log, greaseMaxMultiplier, 1)
		quicIDOracle(c, fmt.Sprintf("quic-id/draw=%d", d[0]), map[string]any{"rand_int_draw": d[0]}, id)
		c.Case("quic-id-corpus", fmt.Sprintf("(CQuicIds [(%s, %d)])", optN(true, d[0]), id), fmt.Sprint("corpus", k), true,
			map[string]any{"draw": d[0], "id": id})
	}
	distinctID := map[uint64]bool{}
	pairs = nil
	for k := 0; k < draws; k++ {
		l := &logReader{src: src}
		var id uint64
		withReader(l, func() { id = tls.GREASETransportParameter{}.GetGREASEID() })
		d, _ := redraw(l.log, greaseMaxMultiplier, 1)
		distinctID[id] = true
		quicIDOracle(c, "quic-id/random-draw", map[string]any{"rand_int_draw": d[0], "entropy": vh.Hex(l.log)}, id)
		if k%(draws/200) == 0 {
			pairs = append(pairs, fmt.Sprintf("(%s, %d)", optN(true, d[0]), id))
		}
		if len(pairs) == 100 || (k == draws-1 && len(pairs) > 0) {
			c.Case("quic-id", "(CQuicIds "+vh.List(pairs)+")", fmt.Sprint("i", k), true, nil)
			pairs = nil
		}
	}
	if len(distinctID) < 2 {
		fail(c, "fresh/quic-id", "GetGREASEID returns the same id on every call", map[string]any{"calls": draws}, len(distinctID), "values vary")
	}
	c.Extra["quic_id_distinct"] = len(distinctID)
	{
		l := &logReader{fail: true}
		var id uint64
		withReader(l, func() { id = tls.GREASETransportParameter{}.GetGREASEID() })
		quicIDOracle(c, "quic-id/entropy-failure", map[string]any{"entropy": "reader fails"}, id)
		c.Case("quic-id-corpus", fmt.Sprintf("(CQuicIds [(None, %d)])", id), "fail", true, nil)
	}

	// --- marshaled transport parameters: GREASE parameter (with and without IdOverride) + VersionInformation
	for k := 0; k < n/4; k++ {
		over := uint64(0)
		switch c.Rng.Intn(4) {
		case 1:
			over = 27 + 31*uint64(c.Rng.Int63n(1<<40)) // a valid GREASE id: kept
		case 2:
			over = uint64(c.Rng.Int63n(1 << 40)) // most likely not a GREASE id: replaced
		}
		avail := []uint32{}
		for j := c.Rng.Intn(5); j > 0; j-- {
			avail = append(avail, []uint32{tls.VERSION_GREASE, tls.VERSION_1, tls.VERSION_2, tls.VERSION_GREASE, 0x1a2a3a4a}[c.Rng.Intn(5)])
		}
		nGreaseV := 0
		for _, v := range avail {
			if v == tls.VERSION_GREASE {
				nGreaseV++
			}
		}
		g := &tls.GREASETransportParameter{IdOverride: over, Length: uint16(c.Rng.Intn(9))}
		vi := &tls.VersionInformation{ChoosenVersion: tls.VERSION_1, AvailableVersions: avail}
		tps := tls.TransportParameters{tls.InitialMaxData(1 << 20), g, tls.MaxIdleTimeout(30000), vi}
		l := &logReader{src: src}
		var body []byte
		withReader(l, func() { body = tps.Marshal() })
		params, err := parseTPs(body)
		if err != nil || len(params) != 4 {
			fail(c, "quic-tp/marshal", "marshaled transport parameters do not parse back", map[string]any{"body": vh.Hex(body)}, fmt.Sprint(err), "4 parameters")
			continue
		}
		input := map[string]any{"id_override": over, "available_versions": avail, "body": vh.Hex(body)}
		id := params[1].id
		quicIDOracle(c, "quic-tp/grease-id", input, id)
		// entropy order: [GetGREASEID draw if the override is not a GREASE id] [value bytes, if Length>0] then per Value() call of vi the version draws
		rest := l.log
		draw, hasDraw := uint64(0), false
		if !(over >= 27 && (over-27)%31 == 0) {
			d, r := redraw(rest, greaseMaxMultiplier, 1)
			draw, hasDraw, rest = d[0], true, r
		}
		c.Case("quic-tp-id", fmt.Sprintf("(CTpId %d %s %d)", over, optN(hasDraw, draw), id), fmt.Sprint("tp", over, draw), hasDraw,
			map[string]any{"id_override": over, "draw": draw, "id": id})
		if int(g.Length) <= len(rest) {
			rest = rest[g.Length:]
		}
		// Marshal calls Value() twice for VersionInformation (length, then bytes); the bytes written come from the second call
		if nGreaseV > 0 {
			_, rest = redraw(rest, maxUint32, nGreaseV)
		}
		var ds []string
		if nGreaseV > 0 {
			d2, _ := redraw(rest, maxUint32, nGreaseV)
			for _, d := range d2 {
				ds = append(ds, optN(true, d))
			}
		}
		val := params[3].val
		if len(val)%4 != 0 || len(val) != 4*(1+len(avail)) {
			fail(c, "quic-tp/version-information", "version_information value has the wrong length", input, len(val), 4*(1+len(avail)))
			continue
		}
		var got []string
		var av []string
		for i, v := range avail {
			w := binary.BigEndian.Uint32(val[4*(i+1):])
			got = append(got, fmt.Sprint(w))
			av = append(av, fmt.Sprint(v))
			if v == tls.VERSION_GREASE {
				quicVersionOracle(c, "quic-tp/version-information", input, w)
			} else if w != v {
				fail(c, "quic-tp/version-information", "a non-GREASE available version was altered", input, fmt.Sprintf("0x%08x", w), fmt.Sprintf("0x%08x", v))
			}
		}
		c.Case("quic-version-information", fmt.Sprintf("(CVersionInfo %s %s %s)", vh.List(av), vh.List(ds), vh.List(got)),
			fmt.Sprint("vi", avail, ds), nGreaseV > 0, nil)
	}
}

// boundaryIDs: small ids (everything below and just above 27), and the neighbourhood of every power of two
// at which uint64 / varint arithmetic wraps.
func boundaryIDs() []uint64 {
	var ids []uint64
	for i := uint64(0); i <= 96; i++ {
		ids = append(ids, i)
	}
	for _, c := range []uint64{1 << 14, 1 << 30, 1 << 32, 1 << 62, 1 << 63} {
		for d := uint64(0); d <= 70; d++ {
			ids = append(ids, c-d, c+d)
		}
	}
	for d := uint64(0); d <= 70; d++ {
		ids = append(ids, ^uint64(0)-d)
	}
	return ids
}

// runQUICBoundaries: IsGREASEID and GREASETransportParameter{IdOverride} on boundary ids, through ID() and,
// where the id can be encoded at all (< 2^62), through TransportParameters.Marshal.
func runQUICBoundaries(c *vh.Ctx) {
	src := vh.NewRand(c.Rng.Int63())
	var isg, tps []string
	flush := func(force bool) {
		if len(isg) >= 200 || (force && len(isg) > 0) {
			c.Case("quic-is-grease-id", "(CIsGreaseIds "+vh.List(isg)+")", "isg/"+isg[0], true, nil)
			isg = nil
		}
		if len(tps) >= 150 || (force && len(tps) > 0) {
			c.Case("quic-tp-id-boundary", "(CTpIds "+vh.List(tps)+")", "tps/"+tps[0], true, nil)
			tps = nil
		}
	}
	for _, id := range boundaryIDs() {
		// the property's own definition of a GREASE transport parameter id: 31*N+27
		want := id%31 == 27
		got := tls.GREASETransportParameter{}.IsGREASEID(id)
		if got != want {
			fail(c, fmt.Sprintf("quic-is-grease-id/id=%d", id), "IsGREASEID disagrees with 'id = 31*N+27'", map[string]any{"id": id}, got, want)
		}
		isg = append(isg, fmt.Sprintf("(%d, %s)", id, vh.Bool(got)))

		// IdOverride = id through ID(): kept iff it is a GREASE id, otherwise replaced by a generated one
		l := &logReader{src: src}
		g := &tls.GREASETransportParameter{IdOverride: id, Length: 2}
		var out uint64
		withReader(l, func() { out = g.ID() })
		draw, hasDraw := uint64(0), false
		if len(l.log) > 0 {
			d, _ := redraw(l.log, greaseMaxMultiplier, 1)
			draw, hasDraw = d[0], true
		}
		input := map[string]any{"id_override": id, "rand_int_draw": draw, "drew": hasDraw}
		if out%31 != 27 {
			fail(c, fmt.Sprintf("quic-tp/id-override=%d", id), "GREASETransportParameter.ID() returned an id that is not 31*N+27", input, out, "31*N+27")
		}
		if want && out != id {
			fail(c, fmt.Sprintf("quic-tp/id-override=%d", id), "a valid GREASE IdOverride was not used", input, out, id)
		}
		tps = append(tps, fmt.Sprintf("(%d, %s, %d)", id, optN(hasDraw, draw), out))

		// the same through Marshal (what reaches the wire); ids >= 2^62 cannot be encoded as a varint at all
		if id < 1<<62 {
			l2 := &logReader{src: src}
			g2 := &tls.GREASETransportParameter{IdOverride: id, Length: 1}
			var body []byte
			panicked, pv := vh.Recover(func() {
				withReader(l2, func() { body = tls.TransportParameters{tls.MaxIdleTimeout(1), g2}.Marshal() })
			})
			if panicked {
				fail(c, fmt.Sprintf("quic-tp/marshal-override=%d", id), "Marshal panicked on a GREASE parameter with IdOverride", input, fmt.Sprint(pv), "no panic")
			} else if ps, err := parseTPs(body); err != nil || len(ps) != 2 {
				fail(c, fmt.Sprintf("quic-tp/marshal-override=%d", id), "marshaled transport parameters do not parse back", input, vh.Hex(body), "2 parameters")
			} else {
				quicIDOracle(c, fmt.Sprintf("quic-tp/marshal-override=%d", id), map[string]any{"id_override": id, "body": vh.Hex(body)}, ps[1].id)
			}
		}
		flush(false)
	}
	flush(true)
}

type tparam struct {
	id  uint64
	val []byte
}

func readVarint(b []byte) (uint64, []byte, error) {
	if len(b) == 0 {
		return 0, nil, errors.New("truncated varint")
	}
	n := 1 << (b[0] >> 6)
	if len(b) < n {
		return 0, nil, errors.New("truncated varint")
	}
	v := uint64(b[0] & 0x3f)
	for i := 1; i < n; i++ {
		v = v<<8 | uint64(b[i])
	}
	return v, b[n:], nil
}

func parseTPs(b []byte) ([]tparam, error) {
	var out []tparam
	for len(b) > 0 {
		id, r, err := readVarint(b)
		if err != nil {
			return nil, err
		}
		ln, r, err := readVarint(r)
		if err != nil || uint64(len(r)) < ln {
			return nil, errors.New("truncated parameter")
		}
		out = append(out, tparam{id, r[:ln]})
		b = r[ln:]
	}
	return out, nil
}

var _ = sort.Strings

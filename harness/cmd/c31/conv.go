package main

// Reflection-driven part of the C31 runner: random fill of every field of both structs of a
// conversion pair, deep comparison, observation of the copy flows, emission of Coq terms.

import (
	"fmt"
	"math/rand"
	"reflect"
	"sort"
	"strings"
	"time"
	"unicode"
	"unsafe"

	tls "github.com/refraction-networking/utls"
	"verif/harness/vh"
)

var pool []any
var timeType = reflect.TypeOf(time.Time{})

// fld returns a settable view of field i of the addressable struct value v (also for unexported fields).
func fld(v reflect.Value, i int) reflect.Value {
	f := v.Field(i)
	return reflect.NewAt(f.Type(), unsafe.Pointer(f.UnsafeAddr())).Elem()
}

func pick(rng *rand.Rand, t reflect.Type) (reflect.Value, bool) {
	var cands []reflect.Value
	for _, p := range pool {
		pv := reflect.ValueOf(p)
		if pv.Type().AssignableTo(t) {
			cands = append(cands, pv)
		} else if pv.Type().ConvertibleTo(t) && pv.Kind() == reflect.Func && t.Kind() == reflect.Func {
			cands = append(cands, pv.Convert(t))
		}
	}
	if len(cands) == 0 {
		return reflect.Value{}, false
	}
	return cands[rng.Intn(len(cands))], true
}

// fill puts a random value into v. nonzero forces a value different from the zero value.
func fill(rng *rand.Rand, v reflect.Value, nonzero bool, depth int) {
	t := v.Type()
	if t == timeType {
		v.Set(reflect.ValueOf(time.Unix(1+rng.Int63n(1<<31), rng.Int63n(1e9)).UTC()))
		return
	}
	switch t.Kind() {
	case reflect.Bool:
		v.SetBool(nonzero || rng.Intn(2) == 0)
	case reflect.Uint8, reflect.Uint16, reflect.Uint32, reflect.Uint64, reflect.Uint:
		bits := uint(t.Bits())
		x := rng.Uint64() >> (64 - bits)
		if rng.Intn(4) == 0 {
			x = []uint64{0, 1, 255, 1<<bits - 1}[rng.Intn(4)] & (1<<bits - 1)
		}
		if nonzero && x == 0 {
			x = 1 + uint64(rng.Intn(200))
		}
		v.SetUint(x)
	case reflect.Int, reflect.Int64, reflect.Int32:
		x := int64(rng.Intn(1 << 20))
		if nonzero && x == 0 {
			x = 7
		}
		v.SetInt(x)
	case reflect.String:
		n := rng.Intn(9)
		if nonzero && n == 0 {
			n = 3
		}
		b := make([]byte, n)
		rng.Read(b)
		v.SetString(string(b))
	case reflect.Array:
		for i := 0; i < v.Len(); i++ {
			fill(rng, v.Index(i), nonzero && i == 0, depth+1)
		}
	case reflect.Slice:
		k := rng.Intn(10)
		if nonzero && k < 3 {
			k = 5
		}
		switch {
		case k == 0:
			v.Set(reflect.Zero(t)) // nil
		case k <= 2:
			v.Set(reflect.MakeSlice(t, 0, 0)) // empty, not nil
		default:
			n := 1 + rng.Intn(4)
			if t.Elem().Kind() == reflect.Uint8 {
				n = 1 + rng.Intn(12)
			}
			s := reflect.MakeSlice(t, n, n)
			for i := 0; i < n; i++ {
				fill(rng, s.Index(i), nonzero && i == 0, depth+1)
			}
			v.Set(s)
		}
	case reflect.Struct:
		for i := 0; i < v.NumField(); i++ {
			fill(rng, fld(v, i), nonzero && i == 0, depth+1)
		}
	case reflect.Ptr:
		if t.Elem().Kind() == reflect.Struct && t.Elem().PkgPath() == reflect.TypeOf(tls.Config{}).PkgPath() {
			// pointer to a struct of the package (cachedPrivateHello): nil or a fresh zero/filled struct
			if !nonzero && rng.Intn(2) == 0 || depth > 2 {
				v.Set(reflect.Zero(t))
				return
			}
			p := reflect.New(t.Elem())
			if rng.Intn(2) == 0 {
				fill(rng, p.Elem(), false, depth+2)
			}
			v.Set(p)
			return
		}
		fallthrough
	case reflect.Func, reflect.Interface:
		if !nonzero && rng.Intn(4) == 0 {
			v.Set(reflect.Zero(t))
			return
		}
		if pv, ok := pick(rng, t); ok {
			v.Set(pv)
		} else if t.Kind() == reflect.Interface && t.NumMethod() == 0 {
			v.Set(reflect.ValueOf(1 + rng.Intn(1000)))
		} else {
			v.Set(reflect.Zero(t))
		}
	default:
		panic("c31: cannot fill kind " + t.Kind().String() + " of " + t.String())
	}
}

// same: value equality as the property understands it. Slices are compared by length and elements
// (nil == empty), funcs by code pointer, pointers to foreign types by identity, pointers to package structs deeply.
func same(a, b reflect.Value) bool {
	if a.Type() != b.Type() {
		return false
	}
	t := a.Type()
	if t == timeType {
		return a.Interface().(time.Time).Equal(b.Interface().(time.Time))
	}
	switch t.Kind() {
	case reflect.Bool:
		return a.Bool() == b.Bool()
	case reflect.Uint8, reflect.Uint16, reflect.Uint32, reflect.Uint64, reflect.Uint:
		return a.Uint() == b.Uint()
	case reflect.Int, reflect.Int64, reflect.Int32:
		return a.Int() == b.Int()
	case reflect.String:
		return a.String() == b.String()
	case reflect.Array, reflect.Slice:
		if a.Len() != b.Len() {
			return false
		}
		for i := 0; i < a.Len(); i++ {
			if !same(a.Index(i), b.Index(i)) {
				return false
			}
		}
		return true
	case reflect.Struct:
		for i := 0; i < a.NumField(); i++ {
			if !same(rd(a, i), rd(b, i)) {
				return false
			}
		}
		return true
	case reflect.Func:
		if a.IsNil() || b.IsNil() {
			return a.IsNil() == b.IsNil()
		}
		return a.Pointer() == b.Pointer()
	case reflect.Ptr:
		if a.IsNil() || b.IsNil() {
			return a.IsNil() == b.IsNil()
		}
		if t.Elem().Kind() == reflect.Struct && t.Elem().PkgPath() == reflect.TypeOf(tls.Config{}).PkgPath() {
			return same(a.Elem(), b.Elem())
		}
		return a.Pointer() == b.Pointer()
	case reflect.Interface:
		if a.IsNil() || b.IsNil() {
			return a.IsNil() == b.IsNil()
		}
		return same(a.Elem(), b.Elem())
	}
	panic("c31: cannot compare " + t.String())
}

// rd reads field i of struct value v even when unexported (v must be addressable).
func rd(v reflect.Value, i int) reflect.Value {
	if v.CanAddr() {
		return fld(v, i)
	}
	c := reflect.New(v.Type()).Elem()
	c.Set(v)
	return fld(c, i)
}

func lowerFirst(s string) string {
	r := []rune(s)
	r[0] = unicode.ToLower(r[0])
	return string(r)
}

// Names that differ by more than the case of the first letter. Taken from the comments in the struct
// declarations (u_public.go:269, 356, 366) and from getPrivateObj (Prfv2 is the prf).
var alias = map[string]map[string]string{
	"ClientHello": {"Raw": "original", "Ems": "extendedMasterSecret"},
	"ServerHello": {"Raw": "original"},
	// Prf is the deprecated old-signature hook (a different func type); only Prfv2 is the prf (u_public.go:563-566)
	"FinishedHash": {"Prfv2": "prf", "Prf": "-"},
}

// counterpart of public field F in the private struct, "" if there is none.
func counterpart(pair tls.VerifC31Pair, F string) string {
	want := lowerFirst(F)
	if a, ok := alias[pair.Name][F]; ok {
		if a == "-" {
			return ""
		}
		want = a
	} else if pair.Name == "CertReq13" && F == "Raw" {
		// documented as deprecated and not read (u_public.go:190-192); toPublic derives it by re-marshalling
		return ""
	}
	if _, ok := pair.Priv.FieldByName(want); ok {
		return want
	}
	return ""
}

func fieldNames(t reflect.Type) []string {
	var out []string
	for i := 0; i < t.NumField(); i++ {
		out = append(out, t.Field(i).Name)
	}
	return out
}

func coqStr(s string) string { return "\"" + s + "\"%string" }
func coqStrs(xs []string) string {
	it := make([]string, len(xs))
	for i, x := range xs {
		it[i] = coqStr(x)
	}
	return vh.List(it)
}
func coqPairs(xs [][2]string) string {
	it := make([]string, len(xs))
	for i, x := range xs {
		it[i] = "(" + coqStr(x[0]) + ", " + coqStr(x[1]) + ")"
	}
	return vh.List(it)
}

// isPkgStructPtr: pointer to a struct type of the tls package (the cache pointer)
func isPkgStructPtr(t reflect.Type) bool {
	return t.Kind() == reflect.Ptr && t.Elem().Kind() == reflect.Struct && t.Elem().PkgPath() == reflect.TypeOf(tls.Config{}).PkgPath()
}

// flows observes which destination fields change when exactly one source field is set.
func flows(rng *rand.Rand, newSrc func() any, conv func(any) any, srcIsPub bool) [][2]string {
	var out [][2]string
	base := reflect.ValueOf(conv(newSrc())).Elem()
	st := reflect.TypeOf(newSrc()).Elem()
	for i := 0; i < st.NumField(); i++ {
		hit := map[string]bool{}
		for rep := 0; rep < 3; rep++ {
			src := reflect.ValueOf(newSrc())
			fill(rng, fld(src.Elem(), i), true, 0)
			dst := reflect.ValueOf(conv(src.Interface())).Elem()
			for j := 0; j < dst.NumField(); j++ {
				if isPkgStructPtr(dst.Type().Field(j).Type) {
					continue // the cache pointer is checked separately
				}
				if !same(rd(base, j), rd(dst, j)) {
					hit[dst.Type().Field(j).Name] = true
				}
			}
		}
		for j := 0; j < base.NumField(); j++ {
			n := base.Type().Field(j).Name
			if hit[n] {
				if srcIsPub {
					out = append(out, [2]string{st.Field(i).Name, n})
				} else {
					out = append(out, [2]string{n, st.Field(i).Name})
				}
			}
		}
	}
	return out
}

// ---- Coq emission ----

var optBytes = map[string]bool{ // []byte fields whose nil-ness the model tracks
	"PubClientHelloMsg.Raw": true, "PubClientHelloMsg.QuicTransportParameters": true,
	"clientHelloMsg.original": true, "clientHelloMsg.quicTransportParameters": true,
	"PubServerHelloMsg.Raw": true, "serverHelloMsg.original": true, "certificateRequestMsgTLS13.original": true,
}

func coqBytesOf(v reflect.Value) string {
	b := make([]byte, v.Len())
	for i := range b {
		b[i] = byte(v.Index(i).Uint())
	}
	return cb(b)
}

// cb: Coq term for a byte string. Long strings are packed 7 bytes per primitive-int literal
// (decoded by `ub` in Corr/C31Corr.v): Coq parses these an order of magnitude faster than a list of N literals.
func cb(b []byte) string {
	if len(b) <= 10 {
		return vh.Bytes(b)
	}
	var sb strings.Builder
	sb.WriteString("(ub [")
	last := 0
	for i := 0; i < len(b); i += 7 {
		j := i + 7
		if j > len(b) {
			j = len(b)
		}
		var x uint64
		for _, y := range b[i:j] {
			x = x<<8 | uint64(y)
		}
		if i > 0 {
			sb.WriteByte(';')
		}
		fmt.Fprintf(&sb, "%d", x)
		last = j - i
	}
	fmt.Fprintf(&sb, "]%%uint63 %d%%nat)", last)
	return sb.String()
}

// ---- buffered cases, spread over the 400-case shards by size so that the shards evaluate in similar time ----
type pcase struct {
	kind, coq, key string
	nontrivial     bool
	sample         any
}

var pending []pcase

func addCase(kind, coq, key string, nontrivial bool, sample any) {
	pending = append(pending, pcase{kind, coq, key, nontrivial, sample})
}

func flushCases(c *vh.Ctx) {
	const shard = 400
	n := len(pending)
	if n == 0 {
		return
	}
	nb := (n + shard - 1) / shard
	idx := make([]int, n)
	for i := range idx {
		idx[i] = i
	}
	sort.SliceStable(idx, func(a, b int) bool { return len(pending[idx[a]].coq) > len(pending[idx[b]].coq) })
	bins := make([][]int, nb)
	load := make([]int, nb)
	capa := make([]int, nb)
	for i := range capa {
		capa[i] = shard
	}
	capa[nb-1] = n - shard*(nb-1)
	for _, i := range idx {
		best := -1
		for b := 0; b < nb; b++ {
			if len(bins[b]) < capa[b] && (best < 0 || load[b] < load[best]) {
				best = b
			}
		}
		bins[best] = append(bins[best], i)
		load[best] += len(pending[i].coq) + 200
	}
	for _, bin := range bins {
		sort.Ints(bin)
		for _, i := range bin {
			p := pending[i]
			c.Case(p.kind, p.coq, p.key, p.nontrivial, p.sample)
		}
	}
	pending = nil
}

func coqVal(v reflect.Value, owner string) string {
	t := v.Type()
	if t == timeType {
		return vh.N(uint64(v.Interface().(time.Time).UnixNano()))
	}
	switch t.Kind() {
	case reflect.Bool:
		return vh.Bool(v.Bool())
	case reflect.Uint8, reflect.Uint16, reflect.Uint32, reflect.Uint64, reflect.Uint:
		return vh.N(v.Uint())
	case reflect.Int, reflect.Int64, reflect.Int32:
		return vh.Z(v.Int())
	case reflect.Func:
		if v.IsNil() {
			return "None"
		}
		return fmt.Sprintf("(Some %d)", funcID(v.Pointer()))
	case reflect.String:
		return vh.Str(v.String())
	case reflect.Array:
		return coqBytesOf(v)
	case reflect.Slice:
		if t.Elem().Kind() == reflect.Uint8 {
			if optBytes[owner] {
				if v.IsNil() {
					return "None"
				}
				return "(Some " + coqBytesOf(v) + ")"
			}
			return coqBytesOf(v)
		}
		it := make([]string, v.Len())
		for i := range it {
			it[i] = coqVal(v.Index(i), "")
		}
		if t.Elem().Kind() == reflect.Struct {
			if v.IsNil() {
				return "None"
			}
			return "(Some " + vh.List(it) + ")"
		}
		return vh.List(it)
	case reflect.Struct:
		parts := []string{"Build_" + t.Name()}
		for i := 0; i < v.NumField(); i++ {
			parts = append(parts, coqVal(rd(v, i), t.Name()+"."+t.Field(i).Name))
		}
		return "(" + strings.Join(parts, " ") + ")"
	case reflect.Ptr:
		if v.IsNil() {
			return "None"
		}
		return "(Some " + coqVal(v.Elem(), "") + ")"
	}
	panic(fmt.Sprintf("c31: cannot emit %s (%s)", t, owner))
}

// funcID: a small identity for a func value (by code pointer), stable within a run.
var funcIDs = map[uintptr]int{}

func funcID(p uintptr) int {
	if id, ok := funcIDs[p]; ok {
		return id
	}
	funcIDs[p] = len(funcIDs) + 1
	return funcIDs[p]
}

// coqPtr: Coq term of a pointer-typed `any` (typed nil -> None)
func coqPtr(p any) string { return coqVal(reflect.ValueOf(p), "") }
func coqObj(p any) string { return coqVal(reflect.ValueOf(p).Elem(), "") }

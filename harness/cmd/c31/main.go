// Runner for C31 — public views of handshake messages convert losslessly.
package main

import (
	"fmt"
	"reflect"

	tls "github.com/refraction-networking/utls"
	"verif/harness/vh"
)

func main() { vh.Main(map[string]vh.Suite{"C31": {Corr: "Corr.C31Corr", Run: run}}) }

func run(c *vh.Ctx) {
	pool = tls.VerifC31Pool()
	runPairs(c)
	runSlices(c)
	runReconvert(c)
	runTableViews(c)
	runRemarshalAfterEdit(c)
	runHellos(c)
	flushCases(c)
}

// ---- conversion pairs ----
func runPairs(c *vh.Ctx) {
	without := map[string]map[string][]string{}
	iters := 12 + c.N/20
	for _, pair := range tls.VerifC31Pairs() {
		pubF, privF := fieldNames(pair.Pub), fieldNames(pair.Priv)
		// (1) the struct definitions as the compiler sees them, tied to the model's field tables
		addCase("fields", fmt.Sprintf("CFields %s %s %s", coqStr(pair.Name), coqStrs(pubF), coqStrs(privF)),
			"fields/"+pair.Name, true, map[string]any{"pair": pair.Name, "pub": pubF, "priv": privF})
		// (2) who has a counterpart, by name
		cp := map[string]string{} // pub -> priv
		hasPub := map[string]bool{}
		for _, F := range pubF {
			if f := counterpart(pair, F); f != "" {
				cp[F] = f
				hasPub[f] = true
			}
		}
		w := map[string][]string{"public": {}, "private": {}}
		for _, F := range pubF {
			if cp[F] == "" {
				w["public"] = append(w["public"], F)
			}
		}
		for _, f := range privF {
			if !hasPub[f] {
				w["private"] = append(w["private"], f)
			}
		}
		without[pair.Name] = w
		// (3) observed copy flows
		tp := flows(c.Rng, pair.NewPub, pair.ToPriv, true)
		tq := flows(c.Rng, pair.NewPriv, pair.ToPub, false)
		addCase("flow", fmt.Sprintf("CFlow %s %s %s", coqStr(pair.Name), coqPairs(tp), coqPairs(tq)),
			"flow/"+pair.Name, true, map[string]any{"pair": pair.Name, "to_private": tp, "to_public": tq})
		// every field with a counterpart must flow into it, both ways (Go-side oracle, independent of the model)
		inFlow := func(fl [][2]string, F, f string) bool {
			for _, x := range fl {
				if x[0] == F && x[1] == f {
					return true
				}
			}
			return false
		}
		for F, f := range cp {
			if !inFlow(tp, F, f) {
				c.Fail("conv/"+pair.Name+"/"+F+"/not-copied-to-private", "public field with a private counterpart is not copied by the public->private conversion",
					map[string]any{"pair": pair.Name, "field": F, "counterpart": f}, "private field unchanged when the public field is set", "copied")
			}
			if !inFlow(tq, F, f) {
				c.Fail("conv/"+pair.Name+"/"+F+"/not-copied-to-public", "private field with a public counterpart is not copied by the private->public conversion",
					map[string]any{"pair": pair.Name, "field": f, "counterpart": F}, "public field unchanged when the private field is set", "copied")
			}
		}
		// (4) random round trips
		for it := 0; it < iters; it++ {
			pub := pair.NewPub()
			fill(c.Rng, reflect.ValueOf(pub).Elem(), false, 0)
			tweakKnownID(c.Rng, pair.Name, reflect.ValueOf(pub).Elem(), it)
			var priv, pub2 any
			if pn, _ := vh.Recover(func() { priv = pair.ToPriv(pub); pub2 = pair.ToPub(priv) }); pn {
				c.Fail("conv/"+pair.Name+"/panic", "conversion panicked", fmt.Sprintf("%+v", pub), "panic", "no panic")
				continue
			}
			a, b := reflect.ValueOf(pub).Elem(), reflect.ValueOf(pub2).Elem()
			for i, F := range pubF {
				if cp[F] == "" {
					continue
				}
				if pair.Name == "FinishedHash" && F == "Prfv2" && rd(a, i).IsNil() {
					continue // with Prfv2 unset the deprecated Prf is wrapped instead (u_public.go:598-602); outside the property's list
				}
				if !same(rd(a, i), rd(b, i)) {
					c.Fail("conv/"+pair.Name+"/"+F+"/pub-priv-pub", "public -> private -> public does not preserve a field that has a counterpart",
						map[string]any{"pair": pair.Name, "field": F, "value": fmt.Sprintf("%#v", rd(a, i).Interface())},
						fmt.Sprintf("%#v", rd(b, i).Interface()), "the same value")
				}
			}
			c.Count("roundtrip-pub/" + pair.Name)
			// the other direction
			pr := pair.NewPriv()
			fill(c.Rng, reflect.ValueOf(pr).Elem(), false, 0)
			tweakKnownID(c.Rng, pair.Name, reflect.ValueOf(pr).Elem(), it)
			var pb, pr2 any
			if pn, _ := vh.Recover(func() { pb = pair.ToPub(pr); pr2 = pair.ToPriv(pb) }); pn {
				c.Fail("conv/"+pair.Name+"/panic", "conversion panicked", fmt.Sprintf("%+v", pr), "panic", "no panic")
				continue
			}
			x, y := reflect.ValueOf(pr).Elem(), reflect.ValueOf(pr2).Elem()
			for i, f := range privF {
				if !hasPub[f] {
					continue
				}
				if pair.Name == "FinishedHash" && f == "prf" && rd(x, i).IsNil() {
					continue // a nil prf comes back as a wrapper closure (u_public.go:622, 600); outside the property's list
				}
				if !same(rd(x, i), rd(y, i)) {
					c.Fail("conv/"+pair.Name+"/"+f+"/priv-pub-priv", "private -> public -> private does not preserve a field that has a counterpart",
						map[string]any{"pair": pair.Name, "field": f, "value": fmt.Sprintf("%#v", rd(x, i).Interface())},
						fmt.Sprintf("%#v", rd(y, i).Interface()), "the same value")
				}
			}
			c.Count("roundtrip-priv/" + pair.Name)
			// Coq cases for the three message pairs
			if it < 7+c.N/200 {
				emitConv(c, pair, it)
			}
		}
		// nil in, nil out
		if pair.NilPub != nil {
			if r := pair.ToPriv(pair.NilPub()); !reflect.ValueOf(r).IsNil() {
				c.Fail("conv/"+pair.Name+"/nil", "nil public pointer does not convert to nil", nil, fmt.Sprint(r), "nil")
			}
			if pair.Name != "CipherSuite" {
				if r := pair.ToPub(pair.NilPriv()); !reflect.ValueOf(r).IsNil() {
					c.Fail("conv/"+pair.Name+"/nil", "nil private pointer does not convert to nil", nil, fmt.Sprint(r), "nil")
				}
			}
		}
	}
	c.Extra["fields_without_counterpart"] = without
}

func emitConv(c *vh.Ctx, pair tls.VerifC31Pair, it int) {
	rng := c.Rng
	key := fmt.Sprintf("%s/%d", pair.Name, it)
	switch pair.Name {
	case "ClientHello":
		pub := pair.NewPub()
		fill(rng, reflect.ValueOf(pub).Elem(), false, 0)
		in := coqObj(pub)
		priv := pair.ToPriv(pub)
		// side effect of getPrivatePtr: the receiver remembers the private struct (u_public.go:428)
		cache := rd(reflect.ValueOf(pub).Elem(), fieldIndex(pair.Pub, "cachedPrivateHello"))
		if cache.IsNil() || cache.Pointer() != reflect.ValueOf(priv).Pointer() {
			c.Fail("conv/ClientHello/cache", "getPrivatePtr did not store the private struct in cachedPrivateHello", nil, nil, nil)
		}
		addCase("conv", fmt.Sprintf("CvCHpriv %s %s", in, coqObj(priv)), "CHpriv/"+key, true, nil)
		pr := pair.NewPriv()
		fill(rng, reflect.ValueOf(pr).Elem(), false, 0)
		pb := pair.ToPub(pr)
		cf := fld(reflect.ValueOf(pb).Elem(), fieldIndex(pair.Pub, "cachedPrivateHello"))
		if cf.IsNil() || cf.Pointer() != reflect.ValueOf(pr).Pointer() {
			c.Fail("conv/ClientHello/cache", "getPublicPtr did not point cachedPrivateHello at its receiver", nil, nil, nil)
		}
		cf.Set(reflect.Zero(cf.Type()))
		addCase("conv", fmt.Sprintf("CvCHpub %s %s", coqObj(pr), coqObj(pb)), "CHpub/"+key, true, nil)
	case "CipherSuiteTLS13", "CipherSuite":
		// func-valued fields are emitted as identities (code pointers); ids alternate between implemented suites and random ones
		tag := map[string]string{"CipherSuiteTLS13": "C3", "CipherSuite": "CS"}[pair.Name]
		pub := pair.NewPub()
		fill(rng, reflect.ValueOf(pub).Elem(), false, 0)
		tweakKnownID(rng, pair.Name, reflect.ValueOf(pub).Elem(), it)
		addCase("conv", fmt.Sprintf("Cv%spriv %s %s", tag, coqPtr(pub), coqPtr(pair.ToPriv(pub))), tag+"priv/"+key, true, nil)
		pr := pair.NewPriv()
		fill(rng, reflect.ValueOf(pr).Elem(), false, 0)
		tweakKnownID(rng, pair.Name, reflect.ValueOf(pr).Elem(), it+1)
		if tag == "C3" {
			addCase("conv", fmt.Sprintf("CvC3pub %s %s", coqPtr(pr), coqPtr(pair.ToPub(pr))), tag+"pub/"+key, true, nil)
		} else {
			addCase("conv", fmt.Sprintf("CvCSpub %s %s", coqPtr(pr), coqObj(pair.ToPub(pr))), tag+"pub/"+key, true, nil)
		}
	case "ServerHello", "CertReq13":
		tag := map[string]string{"ServerHello": "SH", "CertReq13": "CR"}[pair.Name]
		pub := pair.NewPub()
		if it%7 == 6 {
			pub = pair.NilPub()
		} else {
			fill(rng, reflect.ValueOf(pub).Elem(), false, 0)
		}
		addCase("conv", fmt.Sprintf("Cv%spriv %s %s", tag, coqPtr(pub), coqPtr(pair.ToPriv(pub))), tag+"priv/"+key, it%7 != 6, nil)
		pr := pair.NewPriv()
		if it%7 == 5 {
			pr = pair.NilPriv()
		} else {
			fill(rng, reflect.ValueOf(pr).Elem(), false, 0)
		}
		addCase("conv", fmt.Sprintf("Cv%spub %s %s", tag, coqPtr(pr), coqPtr(pair.ToPub(pr))), tag+"pub/"+key, it%7 != 5, nil)
	}
}

func fieldIndex(t reflect.Type, name string) int {
	f, ok := t.FieldByName(name)
	if !ok {
		panic("c31: no field " + name)
	}
	return f.Index[0]
}

// ---- the three rebuilt slices ----
func runSlices(c *vh.Ctx) {
	type sl struct {
		tag    string
		pubT   reflect.Type
		toPriv func(any) any
		toPub  func(any) any
		rt     func(any) any
	}
	sls := []sl{
		{"KS", reflect.TypeOf([]tls.KeyShare{}), func(x any) any { return tls.VerifC31KeySharesToPrivate(x.([]tls.KeyShare)) },
			func(x any) any { return tls.VerifC31KeySharesToPublic(x) }, func(x any) any { return tls.VerifC31KeySharesRoundTrip(x.([]tls.KeyShare)) }},
		{"PI", reflect.TypeOf([]tls.PskIdentity{}), func(x any) any { return tls.VerifC31PskIdentitiesToPrivate(x.([]tls.PskIdentity)) },
			func(x any) any { return tls.VerifC31PskIdentitiesToPublic(x) }, func(x any) any { return tls.VerifC31PskIdentitiesRoundTrip(x.([]tls.PskIdentity)) }},
		{"TK", reflect.TypeOf([]tls.TicketKey{}), func(x any) any { return tls.VerifC31TicketKeysToPrivate(x.([]tls.TicketKey)) },
			func(x any) any { return tls.VerifC31TicketKeysToPublic(x) }, func(x any) any { return tls.VerifC31TicketKeysRoundTrip(x.([]tls.TicketKey)) }},
	}
	n := 10 + c.N/20
	for _, s := range sls {
		privT := reflect.TypeOf(s.toPriv(reflect.Zero(s.pubT).Interface()))
		for it := 0; it < n; it++ {
			in := reflect.New(s.pubT).Elem()
			fill(c.Rng, in, false, 0)
			if it == 0 {
				in.Set(reflect.Zero(s.pubT))
			} else if it == 1 {
				in.Set(reflect.MakeSlice(s.pubT, 0, 0))
			}
			out := reflect.ValueOf(s.toPriv(in.Interface()))
			addCase("slice", fmt.Sprintf("Cv%spriv %s %s", s.tag, coqVal(in, ""), coqVal(out, "")), fmt.Sprintf("%spriv/%d", s.tag, it), in.Len() > 0, nil)
			back := reflect.ValueOf(s.rt(in.Interface()))
			if !same(in, back) {
				c.Fail("conv/slice-"+s.tag+"/pub-priv-pub", "slice conversion to private and back changes the elements",
					fmt.Sprintf("%#v", in.Interface()), fmt.Sprintf("%#v", back.Interface()), "the same elements in the same order")
			}
			pin := reflect.New(privT).Elem()
			fill(c.Rng, pin, false, 0)
			if it == 0 {
				pin.Set(reflect.Zero(privT))
			} else if it == 1 {
				pin.Set(reflect.MakeSlice(privT, 0, 0))
			}
			pout := reflect.ValueOf(s.toPub(pin.Interface()))
			addCase("slice", fmt.Sprintf("Cv%spub %s %s", s.tag, coqVal(pin, ""), coqVal(pout, "")), fmt.Sprintf("%spub/%d", s.tag, it), pin.Len() > 0, nil)
			pback := reflect.ValueOf(s.toPriv(pout.Interface()))
			if !same(pin, pback) {
				c.Fail("conv/slice-"+s.tag+"/priv-pub-priv", "slice conversion to public and back changes the elements",
					fmt.Sprintf("%#v", pin.Interface()), fmt.Sprintf("%#v", pback.Interface()), "the same elements in the same order")
			}
		}
	}
}

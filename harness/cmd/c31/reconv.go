package main

// Conversions are exercised a second time after edits (added after the second seeding round):
//   - convert -> edit ONE leaf to a different value of the same shape (same length, same count; a fresh backing array) ->
//     convert again, for every leaf of every field of every pair, in both directions, so that anything a conversion
//     keeps from an earlier call (the cachedPrivateHello pointer and whatever hangs off it) shows up as a stale value;
//   - Marshal -> edit -> Marshal -> parse on valid ClientHello views, with Raw set and cleared in between;
//   - suite views whose Id is an implemented suite while the other fields differ from the built-in table.

import (
	"fmt"
	"math/rand"
	"reflect"
	"time"

	tls "github.com/refraction-networking/utls"
	"verif/harness/vh"
)

var known13 = []uint64{0x1301, 0x1302, 0x1303}
var known12 = []uint64{0xc02f, 0xc02b, 0xc030, 0xc02c, 0xcca8, 0xcca9, 0x009c, 0x009d, 0x002f, 0x0035, 0x000a, 0xc013, 0xc014}

// tweakKnownID makes every second suite view carry the id of an implemented suite (all other fields stay random,
// i.e. differ from the built-in table's entry).
func tweakKnownID(r *rand.Rand, pair string, v reflect.Value, it int) {
	var ids []uint64
	switch pair {
	case "CipherSuiteTLS13":
		ids = known13
	case "CipherSuite":
		ids = known12
	default:
		return
	}
	if it%2 == 1 {
		return
	}
	for i := 0; i < v.NumField(); i++ {
		if n := v.Type().Field(i).Name; n == "Id" || n == "id" {
			fld(v, i).SetUint(ids[r.Intn(len(ids))])
		}
	}
}

// fillAll gives every field of the struct a non-zero value (non-empty slices and strings), so that every leaf can be edited.
func fillAll(r *rand.Rand, v reflect.Value) {
	for i := 0; i < v.NumField(); i++ {
		fill(r, fld(v, i), true, 0)
	}
}

type leaf struct {
	path string
	v    reflect.Value
}

func leaves(v reflect.Value, path string, out *[]leaf) {
	t := v.Type()
	switch {
	case t == timeType:
		*out = append(*out, leaf{path, v})
	case t.Kind() == reflect.Struct:
		for i := 0; i < v.NumField(); i++ {
			leaves(fld(v, i), path+"."+t.Field(i).Name, out)
		}
	case t.Kind() == reflect.Slice && t.Elem().Kind() != reflect.Uint8:
		for i := 0; i < v.Len(); i++ {
			leaves(v.Index(i), fmt.Sprintf("%s[%d]", path, i), out)
		}
	case isPkgStructPtr(t):
		// the cache pointer: no counterpart, never edited by a caller
	default:
		*out = append(*out, leaf{path, v})
	}
}

// sameShapeEdit replaces the leaf by a different value of the same shape. Byte strings get a FRESH backing array
// (a caller that rotates a key assigns a new slice; editing in place would also edit what an earlier conversion aliased).
func sameShapeEdit(r *rand.Rand, v reflect.Value) bool {
	t := v.Type()
	if t == timeType {
		v.Set(reflect.ValueOf(v.Interface().(time.Time).Add(time.Duration(1+r.Intn(1000)) * time.Second)))
		return true
	}
	switch t.Kind() {
	case reflect.Bool:
		v.SetBool(!v.Bool())
	case reflect.Uint8, reflect.Uint16, reflect.Uint32, reflect.Uint64, reflect.Uint:
		mask := uint64(1)<<uint(t.Bits()) - 1
		if t.Bits() == 64 {
			mask = ^uint64(0)
		}
		v.SetUint((v.Uint() + 1 + uint64(r.Intn(200))) & mask)
	case reflect.Int, reflect.Int64, reflect.Int32:
		v.SetInt(v.Int() + 1 + int64(r.Intn(50)))
	case reflect.String:
		if v.Len() == 0 {
			return false
		}
		b := []byte(v.String())
		b[r.Intn(len(b))] ^= byte(1 + r.Intn(255))
		v.SetString(string(b))
	case reflect.Slice: // []byte
		if v.Len() == 0 {
			return false
		}
		nb := reflect.MakeSlice(t, v.Len(), v.Len())
		reflect.Copy(nb, v)
		i := r.Intn(v.Len())
		nb.Index(i).SetUint(uint64(byte(nb.Index(i).Uint()) ^ byte(1+r.Intn(255))))
		v.Set(nb)
	case reflect.Array:
		if v.Len() == 0 {
			return false
		}
		e := v.Index(r.Intn(v.Len()))
		e.SetUint(uint64(byte(e.Uint()) ^ byte(1+r.Intn(255))))
	case reflect.Func, reflect.Ptr, reflect.Interface:
		for try := 0; try < 8; try++ {
			pv, ok := pick(r, t)
			if !ok {
				return false
			}
			old := reflect.New(t).Elem()
			old.Set(v)
			if !same(old, pv) {
				v.Set(pv)
				return true
			}
		}
		return false
	default:
		return false
	}
	return true
}

func skipFH(pair, name string) bool {
	return pair == "FinishedHash" && (name == "Prfv2" || name == "Prf" || name == "prf")
}

func runReconvert(c *vh.Ctx) {
	rounds := 2
	if c.Tier != "quick" {
		rounds = 10
	}
	for _, pair := range tls.VerifC31Pairs() {
		pubF, privF := fieldNames(pair.Pub), fieldNames(pair.Priv)
		cp := map[string]string{}
		hasPub := map[string]bool{}
		for _, F := range pubF {
			if f := counterpart(pair, F); f != "" && !skipFH(pair.Name, F) {
				cp[F] = f
				hasPub[f] = true
			}
		}
		for round := 0; round < rounds; round++ {
			// public side: convert, edit one leaf, convert again, come back, compare with the edited view
			pub := pair.NewPub()
			pv := reflect.ValueOf(pub).Elem()
			fillAll(c.Rng, pv)
			tweakKnownID(c.Rng, pair.Name, pv, round)
			pair.ToPriv(pub)
			var ls []leaf
			leaves(pv, "", &ls)
			check := func(what string) {
				var back any
				if pn, pval := vh.Recover(func() { back = pair.ToPub(pair.ToPriv(pub)) }); pn {
					c.Fail("reconv/"+pair.Name+"/panic", "re-conversion panicked after "+what, nil, fmt.Sprint(pval), "no panic")
					return
				}
				bv := reflect.ValueOf(back).Elem()
				for i, F := range pubF {
					if cp[F] == "" {
						continue
					}
					if !same(rd(pv, i), rd(bv, i)) {
						c.Fail("reconv/"+pair.Name+"/"+F+"/pub-priv-pub-after-edit",
							"a view that was converted before, then edited ("+what+"), converts to a private form that does not carry the edited value",
							map[string]any{"pair": pair.Name, "edited": what, "field": F, "value": fmt.Sprintf("%#v", rd(pv, i).Interface())},
							fmt.Sprintf("%#v", rd(bv, i).Interface()), "the edited value")
					}
				}
				c.Count("reconv-pub/" + pair.Name)
			}
			for _, l := range ls {
				if skipFH(pair.Name, l.path[1:]) || !sameShapeEdit(c.Rng, l.v) {
					continue
				}
				check("same-shape edit of " + l.path)
			}
			if pair.Name == "ClientHello" || pair.Name == "ServerHello" {
				raw := pv.FieldByName("Raw")
				raw.Set(reflect.Zero(raw.Type()))
				check("Raw cleared")
				for _, l := range ls[:min(len(ls), 12)] {
					if sameShapeEdit(c.Rng, l.v) {
						check("Raw cleared, then same-shape edit of " + l.path)
					}
				}
			}
			// private side
			pr := pair.NewPriv()
			qv := reflect.ValueOf(pr).Elem()
			fillAll(c.Rng, qv)
			tweakKnownID(c.Rng, pair.Name, qv, round+1)
			pair.ToPub(pr)
			ls = nil
			leaves(qv, "", &ls)
			for _, l := range ls {
				if skipFH(pair.Name, l.path[1:]) || !sameShapeEdit(c.Rng, l.v) {
					continue
				}
				var back any
				if pn, pval := vh.Recover(func() { back = pair.ToPriv(pair.ToPub(pr)) }); pn {
					c.Fail("reconv/"+pair.Name+"/panic", "re-conversion panicked after edit of "+l.path, nil, fmt.Sprint(pval), "no panic")
					continue
				}
				bv := reflect.ValueOf(back).Elem()
				for i, f := range privF {
					if !hasPub[f] {
						continue
					}
					if !same(rd(qv, i), rd(bv, i)) {
						c.Fail("reconv/"+pair.Name+"/"+f+"/priv-pub-priv-after-edit",
							"a private struct that was converted before, then edited (same-shape edit of "+l.path+"), converts to a view that does not carry the edited value",
							map[string]any{"pair": pair.Name, "edited": l.path, "field": f}, fmt.Sprintf("%#v", rd(bv, i).Interface()), "the edited value")
					}
				}
				c.Count("reconv-priv/" + pair.Name)
			}
			// Coq case: second conversion of a ClientHello view whose cache was populated by an earlier value
			if pair.Name == "ClientHello" && round < 4 {
				c0 := pair.NewPub()
				fillAll(c.Rng, reflect.ValueOf(c0).Elem())
				before := coqObj(stripCache(c0.(*tls.PubClientHelloMsg)))
				pair.ToPriv(c0)
				var l2 []leaf
				leaves(reflect.ValueOf(c0).Elem(), "", &l2)
				n := 0
				for _, l := range l2 {
					// even rounds: every leaf gets a new value; odd rounds: only the byte strings (ids, counts and lengths stay)
					if (round%2 == 0 || l.v.Kind() == reflect.Slice) && sameShapeEdit(c.Rng, l.v) {
						n++
					}
				}
				after := coqObj(stripCache(c0.(*tls.PubClientHelloMsg)))
				p := pair.ToPriv(c0)
				addCase("reconv", fmt.Sprintf("CvCHre %s %s %s", before, after, coqObj(p)), fmt.Sprintf("CHre/%d", round), n > 0, nil)
			}
		}
	}
}

// ---- Marshal -> edit -> Marshal -> parse on valid views ----

type validEdit struct {
	name string
	f    func(r *rand.Rand, q *tls.PubClientHelloMsg) bool
}

func freshBytes(r *rand.Rand, b []byte) []byte {
	nb := append([]byte{}, b...)
	nb[r.Intn(len(nb))] ^= byte(1 + r.Intn(255))
	return nb
}
func freshName(r *rand.Rand, n int) string {
	b := make([]byte, n)
	for i := range b {
		b[i] = byte('a' + r.Intn(26))
	}
	return string(b)
}
func fresh16s[T ~uint16](r *rand.Rand, l []T, keep func(T) bool) []T {
	nl := make([]T, len(l))
	for i, x := range l {
		nl[i] = x
		if keep == nil || !keep(x) {
			for nl[i] == x || nl[i] == 0x00ff {
				nl[i] = T(1 + r.Intn(0xfffe))
			}
		}
	}
	return nl
}

var validEdits = []validEdit{
	{"Random", func(r *rand.Rand, q *tls.PubClientHelloMsg) bool { q.Random = freshBytes(r, q.Random); return true }},
	{"SessionId", func(r *rand.Rand, q *tls.PubClientHelloMsg) bool {
		if len(q.SessionId) == 0 {
			return false
		}
		q.SessionId = freshBytes(r, q.SessionId)
		return true
	}},
	{"CipherSuites", func(r *rand.Rand, q *tls.PubClientHelloMsg) bool {
		if len(q.CipherSuites) == 0 {
			return false
		}
		q.CipherSuites = fresh16s(r, q.CipherSuites, func(x uint16) bool { return x == 0x00ff })
		return true
	}},
	{"CompressionMethods", func(r *rand.Rand, q *tls.PubClientHelloMsg) bool {
		if len(q.CompressionMethods) == 0 {
			return false
		}
		q.CompressionMethods = freshBytes(r, q.CompressionMethods)
		return true
	}},
	{"ServerName", func(r *rand.Rand, q *tls.PubClientHelloMsg) bool {
		if q.ServerName == "" {
			return false
		}
		q.ServerName = freshName(r, len(q.ServerName))
		return true
	}},
	{"SupportedCurves", func(r *rand.Rand, q *tls.PubClientHelloMsg) bool {
		if len(q.SupportedCurves) == 0 {
			return false
		}
		q.SupportedCurves = fresh16s(r, q.SupportedCurves, nil)
		return true
	}},
	{"SupportedPoints", func(r *rand.Rand, q *tls.PubClientHelloMsg) bool {
		if len(q.SupportedPoints) == 0 {
			return false
		}
		q.SupportedPoints = freshBytes(r, q.SupportedPoints)
		return true
	}},
	{"SessionTicket", func(r *rand.Rand, q *tls.PubClientHelloMsg) bool {
		if !q.TicketSupported || len(q.SessionTicket) == 0 {
			return false
		}
		q.SessionTicket = freshBytes(r, q.SessionTicket)
		return true
	}},
	{"SupportedSignatureAlgorithms", func(r *rand.Rand, q *tls.PubClientHelloMsg) bool {
		if len(q.SupportedSignatureAlgorithms) == 0 {
			return false
		}
		q.SupportedSignatureAlgorithms = fresh16s(r, q.SupportedSignatureAlgorithms, nil)
		return true
	}},
	{"SupportedSignatureAlgorithmsCert", func(r *rand.Rand, q *tls.PubClientHelloMsg) bool {
		if len(q.SupportedSignatureAlgorithmsCert) == 0 {
			return false
		}
		q.SupportedSignatureAlgorithmsCert = fresh16s(r, q.SupportedSignatureAlgorithmsCert, nil)
		return true
	}},
	{"SecureRenegotiation", func(r *rand.Rand, q *tls.PubClientHelloMsg) bool {
		if !q.SecureRenegotiationSupported || len(q.SecureRenegotiation) == 0 {
			return false
		}
		q.SecureRenegotiation = freshBytes(r, q.SecureRenegotiation)
		return true
	}},
	{"AlpnProtocols", func(r *rand.Rand, q *tls.PubClientHelloMsg) bool {
		if len(q.AlpnProtocols) == 0 {
			return false
		}
		nl := make([]string, len(q.AlpnProtocols))
		for i, a := range q.AlpnProtocols {
			nl[i] = freshName(r, len(a))
		}
		q.AlpnProtocols = nl
		return true
	}},
	{"SupportedVersions", func(r *rand.Rand, q *tls.PubClientHelloMsg) bool {
		if len(q.SupportedVersions) == 0 {
			return false
		}
		q.SupportedVersions = fresh16s(r, q.SupportedVersions, nil)
		return true
	}},
	{"Cookie", func(r *rand.Rand, q *tls.PubClientHelloMsg) bool {
		if len(q.Cookie) == 0 {
			return false
		}
		q.Cookie = freshBytes(r, q.Cookie)
		return true
	}},
	{"KeyShares.Data", func(r *rand.Rand, q *tls.PubClientHelloMsg) bool { // key rotation: same group, same size, other bytes
		if len(q.KeyShares) == 0 {
			return false
		}
		i := r.Intn(len(q.KeyShares))
		q.KeyShares[i] = tls.KeyShare{Group: q.KeyShares[i].Group, Data: freshBytes(r, q.KeyShares[i].Data)}
		return true
	}},
	{"KeyShares.Group", func(r *rand.Rand, q *tls.PubClientHelloMsg) bool {
		if len(q.KeyShares) == 0 {
			return false
		}
		i := r.Intn(len(q.KeyShares))
		q.KeyShares[i].Group += tls.CurveID(1 + r.Intn(50))
		return true
	}},
	{"PskModes", func(r *rand.Rand, q *tls.PubClientHelloMsg) bool {
		if len(q.PskModes) == 0 {
			return false
		}
		q.PskModes = freshBytes(r, q.PskModes)
		return true
	}},
	{"PskIdentities.Label", func(r *rand.Rand, q *tls.PubClientHelloMsg) bool {
		if len(q.PskIdentities) == 0 {
			return false
		}
		i := r.Intn(len(q.PskIdentities))
		q.PskIdentities[i] = tls.PskIdentity{Label: freshBytes(r, q.PskIdentities[i].Label), ObfuscatedTicketAge: q.PskIdentities[i].ObfuscatedTicketAge}
		return true
	}},
	{"PskIdentities.ObfuscatedTicketAge", func(r *rand.Rand, q *tls.PubClientHelloMsg) bool {
		if len(q.PskIdentities) == 0 {
			return false
		}
		q.PskIdentities[r.Intn(len(q.PskIdentities))].ObfuscatedTicketAge += 1 + uint32(r.Intn(1000))
		return true
	}},
	{"PskBinders", func(r *rand.Rand, q *tls.PubClientHelloMsg) bool {
		if len(q.PskIdentities) == 0 || len(q.PskBinders) == 0 {
			return false
		}
		nb := append([][]byte{}, q.PskBinders...)
		i := r.Intn(len(nb))
		nb[i] = freshBytes(r, nb[i])
		q.PskBinders = nb
		return true
	}},
	{"QuicTransportParameters", func(r *rand.Rand, q *tls.PubClientHelloMsg) bool {
		if len(q.QuicTransportParameters) == 0 {
			return false
		}
		q.QuicTransportParameters = freshBytes(r, q.QuicTransportParameters)
		return true
	}},
	{"encryptedClientHello", func(r *rand.Rand, q *tls.PubClientHelloMsg) bool {
		e := tls.VerifC31GetECH(q)
		if len(e) == 0 {
			return false
		}
		tls.VerifC31SetECH(q, freshBytes(r, e))
		return true
	}},
	{"Vers", func(r *rand.Rand, q *tls.PubClientHelloMsg) bool { q.Vers += uint16(1 + r.Intn(5)); return true }},
	{"OcspStapling", func(r *rand.Rand, q *tls.PubClientHelloMsg) bool { q.OcspStapling = !q.OcspStapling; return true }},
	{"Scts", func(r *rand.Rand, q *tls.PubClientHelloMsg) bool { q.Scts = !q.Scts; return true }},
	{"Ems", func(r *rand.Rand, q *tls.PubClientHelloMsg) bool { q.Ems = !q.Ems; return true }},
	{"EarlyData", func(r *rand.Rand, q *tls.PubClientHelloMsg) bool { q.EarlyData = !q.EarlyData; return true }},
}

func runRemarshalAfterEdit(c *vh.Ctx) {
	r := c.Rng
	n := 4
	if c.Tier != "quick" {
		n = 40
	}
	for i := 0; i < n; i++ {
		q := genHello(r)
		b1, err := q.Marshal() // populates whatever the view remembers about its private form
		if err != nil {
			c.Count("remarshal-after-edit/gen-marshal-error")
			continue
		}
		for k, e := range validEdits {
			switch (i + k) % 3 { // what happens to Raw between the two Marshal calls
			case 1:
				q.Raw = b1
				q.Marshal()
				q.Raw = nil
			case 2:
				if p := tls.UnmarshalClientHello(b1); p != nil { // a view that came out of the parser (cache = parsed struct)
					q = p
					q.Raw = nil
				}
			}
			if !e.f(r, q) {
				continue
			}
			b2, err := q.Marshal()
			if err != nil {
				c.Fail("remarshal-after-edit/"+e.name+"/error", "Marshal fails after a same-shape edit of a valid view", fmt.Sprintf("%+v", stripCache(q)), fmt.Sprint(err), "bytes")
				continue
			}
			p2 := tls.UnmarshalClientHello(b2)
			if p2 == nil {
				c.Fail("remarshal-after-edit/"+e.name+"/parse", "Marshal output after a same-shape edit does not parse", vh.Hex(b2), "nil", "a message")
				continue
			}
			if d := diffFields(q, p2); len(d) > 0 {
				c.Fail("remarshal-after-edit/"+e.name, "Marshal (Raw cleared) after an earlier Marshal and a same-shape edit of "+e.name+" does not emit the edited value: "+fmt.Sprint(d),
					map[string]any{"edited": e.name, "first_marshal": vh.Hex(b1), "second_marshal": vh.Hex(b2)}, d, "bytes that parse to the edited field values")
			}
			c.Count("remarshal-after-edit-run")
			b1 = b2
		}
	}
}

// ---- views of the package's real cipher suites, and conversions that must not share state with the package ----

// deepCopy returns an addressable copy of v that shares no slice backing arrays with it (pointers, funcs and interfaces
// are identities and stay shared).
func deepCopy(v reflect.Value) reflect.Value {
	cp := reflect.New(v.Type()).Elem()
	switch {
	case v.Type() == timeType:
		cp.Set(v)
	case v.Kind() == reflect.Struct:
		for i := 0; i < v.NumField(); i++ {
			fld(cp, i).Set(deepCopy(rd(v, i)))
		}
	case v.Kind() == reflect.Slice && !v.IsNil():
		ns := reflect.MakeSlice(v.Type(), v.Len(), v.Len())
		for i := 0; i < v.Len(); i++ {
			ns.Index(i).Set(deepCopy(v.Index(i)))
		}
		cp.Set(ns)
	default:
		cp.Set(v)
	}
	return cp
}

// aliasCheck: the result of a conversion must be the caller's own: changing every leaf of it must not change what a
// later conversion of the same source gives (it would, if the result were an entry of a package-level table).
func aliasCheck(c *vh.Ctx, pairName, dir string, conv func(any) any, src any) {
	d1 := conv(src)
	if reflect.ValueOf(d1).IsNil() {
		return
	}
	snap := deepCopy(reflect.ValueOf(d1).Elem())
	// every field of the result is replaced by an edited private copy (slices the conversion shares with its SOURCE by
	// design are not written through)
	edited := 0
	dv := reflect.ValueOf(d1).Elem()
	for i := 0; i < dv.NumField(); i++ {
		if isPkgStructPtr(dv.Type().Field(i).Type) {
			continue
		}
		cp := deepCopy(rd(dv, i))
		var ls []leaf
		leaves(cp, "", &ls)
		for _, l := range ls {
			if sameShapeEdit(c.Rng, l.v) {
				edited++
			}
		}
		fld(dv, i).Set(cp)
	}
	d2 := reflect.ValueOf(conv(src)).Elem()
	for i := 0; i < snap.NumField(); i++ {
		f := snap.Type().Field(i)
		if isPkgStructPtr(f.Type) || skipFH(pairName, f.Name) {
			continue
		}
		if !same(rd(snap, i), rd(d2, i)) {
			c.Fail("alias/"+pairName+"/"+dir+"/"+f.Name, "the result of a conversion shares state with the package: after the caller changed the converted struct, "+
				"converting the same source again gives a different "+f.Name,
				map[string]any{"pair": pairName, "direction": dir, "source": fmt.Sprintf("%+v", reflect.ValueOf(src).Elem().Interface())},
				fmt.Sprintf("%#v", rd(d2, i).Interface()), fmt.Sprintf("%#v", rd(snap, i).Interface()))
		}
	}
	reflect.ValueOf(d1).Elem().Set(snap) // undo, in case d1 was shared
	c.Count("alias-check/" + pairName + "/" + dir)
	_ = edited
}

func runTableViews(c *vh.Ctx) {
	t13, t12 := tls.VerifC31SuiteTables()
	tables := map[string][]any{"CipherSuiteTLS13": t13, "CipherSuite": t12}
	emitted := 0
	for _, pair := range tls.VerifC31Pairs() {
		pubF := fieldNames(pair.Pub)
		// state sharing, for every pair, random sources, both directions
		for k := 0; k < 3; k++ {
			pub := pair.NewPub()
			fillAll(c.Rng, reflect.ValueOf(pub).Elem())
			tweakKnownID(c.Rng, pair.Name, reflect.ValueOf(pub).Elem(), k)
			aliasCheck(c, pair.Name, "to-private", pair.ToPriv, pub)
			pr := pair.NewPriv()
			fillAll(c.Rng, reflect.ValueOf(pr).Elem())
			tweakKnownID(c.Rng, pair.Name, reflect.ValueOf(pr).Elem(), k)
			aliasCheck(c, pair.Name, "to-public", pair.ToPub, pr)
		}
		entries := tables[pair.Name]
		if c.Tier == "quick" && len(entries) > 8 {
			entries = entries[:8]
		}
		for ei, e := range entries {
			roundTrip := func(view any, what string) {
				priv := pair.ToPriv(view)
				back := reflect.ValueOf(pair.ToPub(priv)).Elem()
				vv := reflect.ValueOf(view).Elem()
				for i, F := range pubF {
					if counterpart(pair, F) == "" {
						continue
					}
					if !same(rd(vv, i), rd(back, i)) {
						c.Fail("conv/"+pair.Name+"/"+F+"/pub-priv-pub", "public -> private -> public does not preserve a field that has a counterpart ("+what+")",
							map[string]any{"pair": pair.Name, "field": F, "view": what, "value": fmt.Sprintf("%#v", rd(vv, i).Interface())},
							fmt.Sprintf("%#v", rd(back, i).Interface()), "the same value")
					}
				}
				if emitted < 24 && (pair.Name == "CipherSuiteTLS13" || ei < 3) {
					emitted++
					tag := map[string]string{"CipherSuiteTLS13": "C3", "CipherSuite": "CS"}[pair.Name]
					addCase("conv-table", fmt.Sprintf("Cv%spriv %s %s", tag, coqPtr(view), coqPtr(priv)), fmt.Sprintf("%stable/%d/%s", tag, ei, what), true, nil)
				}
				c.Count("table-view/" + pair.Name)
			}
			view := pair.ToPub(e) // the view of an untouched real suite
			roundTrip(view, "view of an untouched suite")
			aliasCheck(c, pair.Name, "to-private-table-view", pair.ToPriv, view)
			var ls []leaf
			leaves(reflect.ValueOf(view).Elem(), "", &ls)
			for li := range ls {
				v2 := pair.ToPub(e)
				var l2 []leaf
				leaves(reflect.ValueOf(v2).Elem(), "", &l2)
				if !sameShapeEdit(c.Rng, l2[li].v) {
					continue
				}
				roundTrip(v2, "real suite with "+l2[li].path[1:]+" replaced")
				aliasCheck(c, pair.Name, "to-private-table-view-edited", pair.ToPriv, v2)
			}
		}
	}
}

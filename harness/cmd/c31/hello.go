package main

// ClientHello codec part of the C31 runner: valid hellos from every parrot, randomized specs,
// generated field values and wire-level variants, through
//   UnmarshalClientHello -> Marshal                     (byte equality)
//   parse -> clear Raw -> Marshal -> parse              (field equality)
// every step also emitted as a Coq case for Model/GoCH.v.

import (
	"bytes"
	"encoding/binary"
	"fmt"
	"math/rand"
	"reflect"

	tls "github.com/refraction-networking/utls"
	"verif/harness/vh"
)

type parrot struct {
	name string
	id   tls.ClientHelloID
}

var parrots = []parrot{
	{"Golang", tls.HelloGolang},
	{"Firefox_55", tls.HelloFirefox_55}, {"Firefox_56", tls.HelloFirefox_56}, {"Firefox_63", tls.HelloFirefox_63},
	{"Firefox_65", tls.HelloFirefox_65}, {"Firefox_99", tls.HelloFirefox_99}, {"Firefox_102", tls.HelloFirefox_102},
	{"Firefox_105", tls.HelloFirefox_105}, {"Firefox_120", tls.HelloFirefox_120},
	{"Chrome_58", tls.HelloChrome_58}, {"Chrome_62", tls.HelloChrome_62}, {"Chrome_70", tls.HelloChrome_70},
	{"Chrome_72", tls.HelloChrome_72}, {"Chrome_83", tls.HelloChrome_83}, {"Chrome_87", tls.HelloChrome_87},
	{"Chrome_96", tls.HelloChrome_96}, {"Chrome_100", tls.HelloChrome_100}, {"Chrome_102", tls.HelloChrome_102},
	{"Chrome_106_Shuffle", tls.HelloChrome_106_Shuffle}, {"Chrome_100_PSK", tls.HelloChrome_100_PSK},
	{"Chrome_112_PSK_Shuf", tls.HelloChrome_112_PSK_Shuf}, {"Chrome_114_Padding_PSK_Shuf", tls.HelloChrome_114_Padding_PSK_Shuf},
	{"Chrome_115_PQ", tls.HelloChrome_115_PQ}, {"Chrome_115_PQ_PSK", tls.HelloChrome_115_PQ_PSK},
	{"Chrome_120", tls.HelloChrome_120}, {"Chrome_120_PQ", tls.HelloChrome_120_PQ}, {"Chrome_131", tls.HelloChrome_131},
	{"Chrome_133", tls.HelloChrome_133},
	{"IOS_11_1", tls.HelloIOS_11_1}, {"IOS_12_1", tls.HelloIOS_12_1}, {"IOS_13", tls.HelloIOS_13}, {"IOS_14", tls.HelloIOS_14},
	{"Android_11_OkHttp", tls.HelloAndroid_11_OkHttp}, {"Edge_85", tls.HelloEdge_85}, {"Edge_106", tls.HelloEdge_106},
	{"Safari_16_0", tls.HelloSafari_16_0}, {"360_7_5", tls.Hello360_7_5}, {"360_11_0", tls.Hello360_11_0}, {"QQ_11_1", tls.HelloQQ_11_1},
}

func buildHello(id tls.ClientHelloID, sni string) (raw []byte, err error) {
	pn, pv := vh.Recover(func() {
		u := tls.UClient(nil, &tls.Config{ServerName: sni}, id)
		if err = u.BuildHandshakeState(); err == nil {
			raw = append([]byte{}, u.HandshakeState.Hello.Raw...)
			if len(raw) == 0 { // HelloGolang: the hello is built but not marshaled yet
				if b, merr := u.HandshakeState.Hello.Marshal(); merr == nil {
					raw = append([]byte{}, b...)
				}
			}
		}
	})
	if pn {
		err = fmt.Errorf("panic: %v", pv)
	}
	return
}

// stripCache returns a copy of p without the cache pointer (for emission).
func stripCache(p *tls.PubClientHelloMsg) *tls.PubClientHelloMsg {
	cp := *p
	v := reflect.ValueOf(&cp).Elem()
	f := fld(v, fieldIndex(v.Type(), "cachedPrivateHello"))
	f.Set(reflect.Zero(f.Type()))
	return &cp
}

func clearRaw(p *tls.PubClientHelloMsg) *tls.PubClientHelloMsg {
	cp := *stripCache(p)
	cp.Raw = nil
	return &cp
}

func optBytesCoq(b []byte, err error) string {
	if err != nil {
		return "None"
	}
	return "(Some " + cb(b) + ")"
}

func emitParse(c *vh.Ctx, kind, key string, b []byte, p *tls.PubClientHelloMsg) {
	exts, ok := tls.VerifC31Extensions(b)
	if ok != (p != nil) {
		c.Fail("parse/inconsistent", "UnmarshalClientHello and clientHelloMsg.unmarshal disagree", vh.Hex(b), p != nil, ok)
	}
	o := "None"
	if p != nil {
		o = "(Some " + coqObj(stripCache(p)) + ")"
	}
	if p == nil {
		exts = nil
	}
	addCase(kind, fmt.Sprintf("CParse %s %s %s", cb(b), o, vh.U16s(exts)), key, p != nil,
		map[string]any{"kind": kind, "bytes": len(b), "parsed": p != nil, "extensions": exts})
}

// diffFields lists the public fields (other than Raw and the cache pointer) whose values differ.
func diffFields(a, b *tls.PubClientHelloMsg) []string {
	var out []string
	x, y := reflect.ValueOf(a).Elem(), reflect.ValueOf(b).Elem()
	for i := 0; i < x.NumField(); i++ {
		n := x.Type().Field(i).Name
		if n == "Raw" || n == "cachedPrivateHello" {
			continue
		}
		if !same(fld(x, i), fld(y, i)) {
			out = append(out, n)
		}
	}
	if (a.QuicTransportParameters == nil) != (b.QuicTransportParameters == nil) {
		out = append(out, "QuicTransportParameters(nil-ness)")
	}
	return out
}

// pipeline runs both round trips of the property on b. who = stable key stem (parrot / variant kind).
func pipeline(c *vh.Ctx, kind, who, key string, b []byte) {
	var p *tls.PubClientHelloMsg
	if pn, pv := vh.Recover(func() { p = tls.UnmarshalClientHello(b) }); pn {
		c.Fail("parse-panic/"+who, "UnmarshalClientHello panicked", vh.Hex(b), fmt.Sprint(pv), "nil or a message")
		return
	}
	emitParse(c, kind, key+"/parse", b, p)
	if p == nil {
		c.Count("rejected/" + kind)
		return
	}
	// (a) Unmarshal then Marshal reproduces the input exactly
	out, err := p.Marshal()
	if err != nil || !bytes.Equal(out, b) {
		c.Fail("marshal-raw/"+who, "UnmarshalClientHello followed by Marshal does not reproduce the input", vh.Hex(b),
			map[string]any{"err": fmt.Sprint(err), "out": vh.Hex(out)}, "the input bytes")
	}
	// (as a Coq case only for a few: by C31_marshal_ignores_fields_while_raw_set the model just returns Raw)
	if kind == "gen" || who == "Golang" || who == "Chrome_133" || who == "Firefox_120" || who == "Safari_16_0" {
		addCase(kind+"-marshal", fmt.Sprintf("CMarshal %s %s", coqObj(stripCache(p)), optBytesCoq(out, err)), key+"/marshal", true, nil)
	}
	// (b) parse, clear Raw, marshal, parse again: same field values
	q := clearRaw(p)
	b2, err := q.Marshal()
	addCase(kind+"-remarshal", fmt.Sprintf("CMarshal %s %s", coqObj(stripCache(q)), optBytesCoq(b2, err)), key+"/remarshal", true, nil)
	if err != nil {
		c.Fail("remarshal/"+who, "marshaling a parsed ClientHello with Raw cleared fails", vh.Hex(b), fmt.Sprint(err), "bytes")
		return
	}
	p2 := tls.UnmarshalClientHello(b2)
	emitParse(c, kind+"-reparse", key+"/reparse", b2, p2)
	if p2 == nil {
		c.Fail("reparse/"+who, "the re-marshaled ClientHello does not parse", map[string]any{"input": vh.Hex(b), "remarshaled": vh.Hex(b2)}, "nil", "a message")
		return
	}
	if d := diffFields(p, p2); len(d) > 0 {
		c.Fail("reparse/"+who, "parse -> clear Raw -> marshal -> parse changes field values: "+fmt.Sprint(d),
			map[string]any{"input": vh.Hex(b), "remarshaled": vh.Hex(b2)}, d, "equal field values")
	}
	// marshaling the re-parsed message with Raw cleared is a fixpoint
	b3, err := clearRaw(p2).Marshal()
	if err != nil || !bytes.Equal(b3, b2) {
		c.Fail("remarshal-fixpoint/"+who, "second clear-Raw marshal differs from the first", vh.Hex(b), vh.Hex(b3), vh.Hex(b2))
	}
}

// ---- wire-level view used to build variants ----
type wext struct {
	id   uint16
	data []byte
}
type wire struct {
	head    []byte // 4 bytes
	vers    uint16
	random  []byte
	sid     []byte
	suites  []uint16
	comp    []byte
	hasExts bool
	exts    []wext
	trail   []byte // appended after everything (invalid when non-empty and hasExts)
}

func splitHello(b []byte) (w wire, ok bool) {
	defer func() {
		if recover() != nil {
			ok = false
		}
	}()
	w.head = append([]byte{}, b[:4]...)
	b = b[4:]
	w.vers = binary.BigEndian.Uint16(b)
	w.random = append([]byte{}, b[2:34]...)
	b = b[34:]
	n := int(b[0])
	w.sid = append([]byte{}, b[1:1+n]...)
	b = b[1+n:]
	n = int(binary.BigEndian.Uint16(b))
	for i := 0; i < n; i += 2 {
		w.suites = append(w.suites, binary.BigEndian.Uint16(b[2+i:]))
	}
	b = b[2+n:]
	n = int(b[0])
	w.comp = append([]byte{}, b[1:1+n]...)
	b = b[1+n:]
	if len(b) == 0 {
		return w, true
	}
	w.hasExts = true
	n = int(binary.BigEndian.Uint16(b))
	e := b[2 : 2+n]
	for len(e) > 0 {
		id := binary.BigEndian.Uint16(e)
		l := int(binary.BigEndian.Uint16(e[2:]))
		w.exts = append(w.exts, wext{id, append([]byte{}, e[4:4+l]...)})
		e = e[4+l:]
	}
	return w, true
}

func (w wire) bytes(fixHead bool) []byte {
	var body []byte
	body = binary.BigEndian.AppendUint16(body, w.vers)
	body = append(body, w.random...)
	body = append(body, byte(len(w.sid)))
	body = append(body, w.sid...)
	body = binary.BigEndian.AppendUint16(body, uint16(2*len(w.suites)))
	for _, s := range w.suites {
		body = binary.BigEndian.AppendUint16(body, s)
	}
	body = append(body, byte(len(w.comp)))
	body = append(body, w.comp...)
	if w.hasExts {
		var e []byte
		for _, x := range w.exts {
			e = binary.BigEndian.AppendUint16(e, x.id)
			e = binary.BigEndian.AppendUint16(e, uint16(len(x.data)))
			e = append(e, x.data...)
		}
		body = binary.BigEndian.AppendUint16(body, uint16(len(e)))
		body = append(body, e...)
	}
	body = append(body, w.trail...)
	head := append([]byte{}, w.head...)
	if fixHead {
		head = []byte{1, byte(len(body) >> 16), byte(len(body) >> 8), byte(len(body))}
	}
	return append(head, body...)
}

func (w wire) find(id uint16) int {
	for i, x := range w.exts {
		if x.id == id {
			return i
		}
	}
	return -1
}

func u16lp(b []byte) []byte { return append(binary.BigEndian.AppendUint16(nil, uint16(len(b))), b...) }
func rbytes(r *rand.Rand, n int) []byte {
	b := make([]byte, n)
	r.Read(b)
	return b
}

var variantKinds = []string{"drop-ext", "swap-exts", "add-unknown", "add-scsv", "no-exts", "sni-rename", "sni-extra-type",
	"status-other-type", "status-responders", "empty-keyshares", "empty-pskmodes", "sid-len", "garbage-header", "add-cookie",
	"add-early-data", "add-quic-empty", "add-quic", "add-ech", "reneg-data", "add-psk",
	"dup-ext", "truncate", "trailing-byte", "psk-not-last", "bitflip", "sni-trailing-dot", "empty-alpn-proto"}

// variant applies one structural edit; the result may or may not be a valid hello (the pipeline follows the parser's verdict).
func variant(r *rand.Rand, kind string, raw []byte) ([]byte, bool) {
	w, ok := splitHello(raw)
	if !ok {
		return nil, false
	}
	pskAt := w.find(41)
	insert := func(x wext) { // keep pre_shared_key last
		if pskAt >= 0 {
			w.exts = append(w.exts[:pskAt], append([]wext{x}, w.exts[pskAt:]...)...)
		} else {
			w.exts = append(w.exts, x)
		}
		w.hasExts = true
	}
	nonPsk := len(w.exts)
	if pskAt >= 0 {
		nonPsk--
	}
	switch kind {
	case "drop-ext":
		if nonPsk == 0 {
			return nil, false
		}
		i := r.Intn(nonPsk)
		w.exts = append(w.exts[:i], w.exts[i+1:]...)
	case "swap-exts":
		if nonPsk < 2 {
			return nil, false
		}
		i, j := r.Intn(nonPsk), r.Intn(nonPsk)
		w.exts[i], w.exts[j] = w.exts[j], w.exts[i]
	case "add-unknown":
		for _, id := range []uint16{0x1a1a, 21, 27, 28, 34, 17513, 0x4469, 0xfd00} {
			if w.find(id) < 0 {
				insert(wext{id, rbytes(r, r.Intn(12))})
				break
			}
		}
	case "add-scsv":
		w.suites = append(w.suites, 0x00ff)
	case "no-exts":
		w.hasExts, w.exts = false, nil
	case "sni-rename":
		i := w.find(0)
		if i < 0 {
			return nil, false
		}
		name := []byte("a.b-" + fmt.Sprint(r.Intn(1000)) + ".test")
		w.exts[i].data = u16lp(append([]byte{0}, u16lp(name)...))
	case "sni-extra-type":
		i := w.find(0)
		if i < 0 {
			return nil, false
		}
		list := w.exts[i].data[2:]
		extra := append([]byte{1 + byte(r.Intn(200))}, u16lp(rbytes(r, 1+r.Intn(6)))...)
		if r.Intn(2) == 0 {
			list = append(extra, list...)
		} else {
			list = append(append([]byte{}, list...), extra...)
		}
		w.exts[i].data = u16lp(list)
	case "sni-trailing-dot":
		i := w.find(0)
		if i < 0 {
			return nil, false
		}
		w.exts[i].data = u16lp(append([]byte{0}, u16lp([]byte("example.com."))...))
	case "status-other-type":
		i := w.find(5)
		if i < 0 {
			insert(wext{5, []byte{2, 0, 0, 0, 0}})
		} else {
			w.exts[i].data = []byte{2, 0, 0, 0, 0}
		}
	case "status-responders":
		x := append([]byte{1}, u16lp(rbytes(r, 1+r.Intn(8)))...)
		x = append(x, u16lp(rbytes(r, r.Intn(5)))...)
		if i := w.find(5); i < 0 {
			insert(wext{5, x})
		} else {
			w.exts[i].data = x
		}
	case "empty-keyshares":
		if i := w.find(51); i < 0 {
			insert(wext{51, []byte{0, 0}})
		} else {
			w.exts[i].data = []byte{0, 0}
		}
	case "empty-pskmodes":
		if i := w.find(45); i < 0 {
			insert(wext{45, []byte{0}})
		} else {
			w.exts[i].data = []byte{0}
		}
	case "sid-len":
		w.sid = rbytes(r, []int{0, 1, 31, 33, 255}[r.Intn(5)])
	case "garbage-header":
		w.head = rbytes(r, 4)
		return w.bytes(false), true
	case "add-cookie":
		if w.find(44) >= 0 {
			return nil, false
		}
		insert(wext{44, u16lp(rbytes(r, 1+r.Intn(20)))})
	case "add-early-data":
		if w.find(42) >= 0 {
			return nil, false
		}
		insert(wext{42, nil})
	case "add-quic-empty", "add-quic":
		if w.find(57) >= 0 {
			return nil, false
		}
		n := 0
		if kind == "add-quic" {
			n = 1 + r.Intn(30)
		}
		insert(wext{57, rbytes(r, n)})
	case "add-ech":
		if i := w.find(0xfe0d); i >= 0 {
			w.exts[i].data = rbytes(r, r.Intn(40))
		} else {
			insert(wext{0xfe0d, rbytes(r, r.Intn(40))})
		}
	case "reneg-data":
		x := append([]byte{12}, rbytes(r, 12)...)
		if i := w.find(0xff01); i >= 0 {
			w.exts[i].data = x
		} else {
			insert(wext{0xff01, x})
		}
	case "add-psk":
		if pskAt >= 0 {
			return nil, false
		}
		var ids, bs []byte
		for k := 0; k < 1+r.Intn(2); k++ {
			ids = append(ids, u16lp(rbytes(r, 1+r.Intn(40)))...)
			ids = append(ids, rbytes(r, 4)...)
			bn := 32
			bs = append(bs, byte(bn))
			bs = append(bs, rbytes(r, bn)...)
		}
		w.exts = append(w.exts, wext{41, append(u16lp(ids), u16lp(bs)...)})
		w.hasExts = true
	case "dup-ext":
		if len(w.exts) == 0 {
			return nil, false
		}
		insert(w.exts[r.Intn(len(w.exts))])
	case "truncate":
		b := w.bytes(true)
		return b[:r.Intn(len(b))], true
	case "trailing-byte":
		w.trail = []byte{0}
	case "psk-not-last":
		if pskAt < 0 {
			return nil, false
		}
		w.exts = append(w.exts, wext{0x2a2a, nil})
	case "bitflip":
		b := w.bytes(true)
		i := 4 + r.Intn(len(b)-4)
		b[i] ^= 1 << uint(r.Intn(8))
		return b, true
	case "empty-alpn-proto":
		x := u16lp([]byte{2, 'h', '2', 0})
		if i := w.find(16); i >= 0 {
			w.exts[i].data = x
		} else {
			insert(wext{16, x})
		}
	}
	return w.bytes(true), true
}

// genHello: a random PubClientHelloMsg made valid (so that marshal -> parse must give the fields back).
func genHello(r *rand.Rand) *tls.PubClientHelloMsg {
	p := &tls.PubClientHelloMsg{}
	fill(r, reflect.ValueOf(p).Elem(), false, 0)
	q := stripCache(p)
	q.Raw = nil
	q.Random = rbytes(r, 32)
	q.NextProtoNeg = false // not on the wire
	if len(q.SessionId) > 32 {
		q.SessionId = q.SessionId[:32]
	}
	nodot := func(b []byte) []byte {
		for len(b) > 0 && b[len(b)-1] == '.' {
			b = b[:len(b)-1]
		}
		return b
	}
	q.ServerName = string(nodot([]byte(q.ServerName)))
	var al []string
	for _, a := range q.AlpnProtocols {
		if a != "" {
			al = append(al, a)
		}
	}
	q.AlpnProtocols = al
	var ks []tls.KeyShare
	for _, k := range q.KeyShares {
		if len(k.Data) > 0 {
			ks = append(ks, k)
		}
	}
	q.KeyShares = ks
	var ids []tls.PskIdentity
	for _, k := range q.PskIdentities {
		if len(k.Label) > 0 {
			ids = append(ids, k)
		}
	}
	q.PskIdentities = ids
	var bs [][]byte
	for _, b := range q.PskBinders {
		if len(b) > 0 {
			bs = append(bs, b)
		}
	}
	q.PskBinders = bs
	if len(q.PskIdentities) == 0 {
		q.PskBinders = nil
	} else if len(q.PskBinders) == 0 {
		q.PskBinders = [][]byte{rbytes(r, 32)}
	}
	if !q.TicketSupported {
		q.SessionTicket = nil
	}
	for _, s := range q.CipherSuites {
		if s == 0x00ff {
			q.SecureRenegotiationSupported = true
		}
	}
	if !q.SecureRenegotiationSupported {
		q.SecureRenegotiation = nil
	}
	if r.Intn(2) == 0 {
		tls.VerifC31SetECH(q, rbytes(r, 1+r.Intn(30)))
	} else {
		tls.VerifC31SetECH(q, nil)
	}
	return q
}

// scsvWitness is the ClientHello of Proofs/GoCHP5.v `scsv_witness`: cipher suites = [TLS_EMPTY_RENEGOTIATION_INFO_SCSV], no
// renegotiation_info extension, and an extension block of exactly 65535 bytes (one cookie extension with a 65529-byte cookie).
func scsvWitness() []byte {
	cookie := bytes.Repeat([]byte{7}, 65529)
	ext := append([]byte{0, 44}, u16lp(u16lp(cookie))...)
	body := append([]byte{3, 3}, make([]byte, 32)...)
	body = append(body, 0)            // empty session id
	body = append(body, 0, 2, 0, 255) // suites
	body = append(body, 1, 0)         // compression
	body = append(body, u16lp(ext)...)
	return append([]byte{1, byte(len(body) >> 16), byte(len(body) >> 8), byte(len(body))}, body...)
}

// runScsvOverflow replays the witness of C31_reparse_stable_refuted on the real code.
func runScsvOverflow(c *vh.Ctx) {
	w := scsvWitness()
	in := map[string]any{"construction": "suites=[0x00ff], no renegotiation_info, one cookie extension with 65529 bytes 0x07 (extension block = 65535 bytes)",
		"length": len(w), "head_hex": vh.Hex(w[:56])}
	p := tls.UnmarshalClientHello(w)
	if p == nil {
		c.Fail("model/scsv-witness-does-not-parse", "the model's witness is rejected by UnmarshalClientHello (model and code disagree)", in, "nil", "a message")
		return
	}
	if out, err := p.Marshal(); err != nil || !bytes.Equal(out, w) {
		c.Fail("marshal-raw/scsv-witness", "UnmarshalClientHello followed by Marshal does not reproduce the input", in, fmt.Sprint(err), "the input bytes")
	}
	b2, err := clearRaw(p).Marshal()
	c.Count("scsv-witness-replayed")
	if err != nil {
		c.Fail("remarshal/scsv-ext-block-overflow", "a parsed ClientHello cannot be marshaled after clearing Raw: the renegotiation SCSV makes marshalMsg add a "+
			"renegotiation_info extension the input did not have, and a full 65535-byte extension block overflows its length prefix",
			in, "Marshal error: "+err.Error(), "bytes that parse to equal field values")
		return
	}
	if p2 := tls.UnmarshalClientHello(b2); p2 == nil || len(diffFields(p, p2)) > 0 {
		c.Fail("reparse/scsv-witness", "re-marshaled witness does not parse to equal field values", in, nil, nil)
	}
}

func runHellos(c *vh.Ctx) {
	r := c.Rng
	runScsvOverflow(c)
	// every parrot, fresh build
	raws := map[string][]byte{}
	for _, p := range parrots {
		raw, err := buildHello(p.id, "www.example.com")
		if err != nil {
			c.Count("parrot-build-error/" + p.name) // not this property's business (C01/C20)
			continue
		}
		raws[p.name] = raw
		pipeline(c, "parrot", p.name, "parrot/"+p.name, raw)
	}
	// randomized specs with harness-derived seeds
	nr := 6 + c.N/60
	for i := 0; i < nr; i++ {
		var seed tls.PRNGSeed
		r.Read(seed[:])
		base := []tls.ClientHelloID{tls.HelloRandomized, tls.HelloRandomizedALPN, tls.HelloRandomizedNoALPN}[i%3]
		id := tls.ClientHelloID{Client: base.Client, Version: base.Version, Seed: &seed}
		raw, err := buildHello(id, "r.example.org")
		if err != nil {
			c.Count("randomized-build-error")
			continue
		}
		raws[fmt.Sprintf("Randomized#%d", i)] = raw
		pipeline(c, "randomized", "randomized", fmt.Sprintf("randomized/%x", seed[:6]), raw)
	}
	// generated field values: marshal -> parse returns the fields, then the property's round trips
	ng := 12 + c.N/20
	for i := 0; i < ng; i++ {
		q := genHello(r)
		b, err := tls.VerifC31MarshalMsg(q)
		addCase("gen-marshal", fmt.Sprintf("CMarshalMsg %s %s", coqObj(stripCache(q)), optBytesCoq(b, err)), fmt.Sprintf("gen/%d", i), true, nil)
		if err != nil {
			c.Fail("gen/marshal", "marshalMsg failed on generated valid field values", fmt.Sprintf("%+v", q), fmt.Sprint(err), "bytes")
			continue
		}
		p := tls.UnmarshalClientHello(b)
		if p == nil {
			c.Fail("gen/parse", "marshalMsg output of generated valid field values does not parse", vh.Hex(b), "nil", "a message")
			continue
		}
		if d := diffFields(q, p); len(d) > 0 {
			c.Fail("gen/fields", "marshal -> parse changes generated field values: "+fmt.Sprint(d), vh.Hex(b), d, "equal field values")
		}
		pipeline(c, "gen", "gen", fmt.Sprintf("gen/%d", i), b)
	}
	// structural variants of parrot hellos
	names := make([]string, 0, len(raws))
	for _, p := range parrots {
		if _, ok := raws[p.name]; ok {
			names = append(names, p.name)
		}
	}
	nv := 1
	if c.Tier != "quick" {
		nv = 12
	}
	for _, kind := range variantKinds {
		done := 0
		for try := 0; try < 40 && done < nv; try++ {
			name := names[r.Intn(len(names))]
			b, ok := variant(r, kind, raws[name])
			if !ok {
				continue
			}
			done++
			pipeline(c, "variant-"+kind, "variant-"+kind, fmt.Sprintf("variant/%s/%s/%d", kind, name, try), b)
		}
	}
}

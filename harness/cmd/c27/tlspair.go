// Shared by cmd/c28 and cmd/c25 (kept as a copy in each package): a uTLS client (custom spec offering
// exactly one cipher suite and one version) completing a handshake over loopback TCP with a standard
// library crypto/tls server, both ends wrapped in recording connections.
package main

import (
	"bytes"
	"crypto/ecdsa"
	"crypto/elliptic"
	"crypto/rand"
	"crypto/rsa"
	stdtls "crypto/tls"
	"crypto/x509"
	"crypto/x509/pkix"
	"fmt"
	"math/big"
	"net"
	"sync"
	"time"

	tls "github.com/refraction-networking/utls"
)

// recConn records everything written to the underlying connection.
type recConn struct {
	net.Conn
	mu  sync.Mutex
	buf bytes.Buffer
}

func (r *recConn) Write(b []byte) (int, error) {
	r.mu.Lock()
	r.buf.Write(b)
	r.mu.Unlock()
	return r.Conn.Write(b)
}
func (r *recConn) take() []byte {
	r.mu.Lock()
	defer r.mu.Unlock()
	b := append([]byte(nil), r.buf.Bytes()...)
	r.buf.Reset()
	return b
}

func tcpPair() (net.Conn, net.Conn, error) {
	ln, err := net.Listen("tcp", "127.0.0.1:0")
	if err != nil {
		return nil, nil, err
	}
	defer ln.Close()
	type res struct {
		c   net.Conn
		err error
	}
	ch := make(chan res, 1)
	go func() { c, err := ln.Accept(); ch <- res{c, err} }()
	a, err := net.Dial("tcp", ln.Addr().String())
	if err != nil {
		return nil, nil, err
	}
	r := <-ch
	if r.err != nil {
		a.Close()
		return nil, nil, r.err
	}
	return a, r.c, nil
}

type testCerts struct{ ecdsa, rsa stdtls.Certificate }

func selfSigned(key any, pub any) stdtls.Certificate {
	t := &x509.Certificate{SerialNumber: big.NewInt(time.Now().UnixNano()), Subject: pkix.Name{CommonName: "verif.test"},
		NotBefore: time.Now().Add(-time.Hour), NotAfter: time.Now().Add(24 * time.Hour), DNSNames: []string{"verif.test"},
		KeyUsage: x509.KeyUsageDigitalSignature | x509.KeyUsageKeyEncipherment, ExtKeyUsage: []x509.ExtKeyUsage{x509.ExtKeyUsageServerAuth}}
	der, err := x509.CreateCertificate(rand.Reader, t, t, pub, key)
	if err != nil {
		panic(err)
	}
	return stdtls.Certificate{Certificate: [][]byte{der}, PrivateKey: key}
}

func newTestCerts() testCerts {
	ek, _ := ecdsa.GenerateKey(elliptic.P256(), rand.Reader)
	rk, _ := rsa.GenerateKey(rand.Reader, 2048)
	return testCerts{ecdsa: selfSigned(ek, &ek.PublicKey), rsa: selfSigned(rk, &rk.PublicKey)}
}

// specFor: a ClientHello offering exactly (version, suite).
func specFor(version, suite uint16) *tls.ClientHelloSpec {
	sigs := []tls.SignatureScheme{tls.ECDSAWithP256AndSHA256, tls.PSSWithSHA256, tls.PKCS1WithSHA256,
		tls.ECDSAWithP384AndSHA384, tls.PSSWithSHA384, tls.PKCS1WithSHA384, tls.PSSWithSHA512, tls.PKCS1WithSHA512,
		tls.PKCS1WithSHA1, tls.ECDSAWithSHA1}
	exts := []tls.TLSExtension{
		&tls.SNIExtension{},
		&tls.SupportedCurvesExtension{Curves: []tls.CurveID{tls.X25519, tls.CurveP256}},
		&tls.SupportedPointsExtension{SupportedPoints: []byte{0}},
		&tls.SignatureAlgorithmsExtension{SupportedSignatureAlgorithms: sigs},
		&tls.RenegotiationInfoExtension{Renegotiation: tls.RenegotiateOnceAsClient},
		&tls.ExtendedMasterSecretExtension{},
	}
	if version == tls.VersionTLS13 {
		exts = append(exts,
			&tls.KeyShareExtension{KeyShares: []tls.KeyShare{{Group: tls.X25519}}},
			&tls.PSKKeyExchangeModesExtension{Modes: []uint8{tls.PskModeDHE}},
			&tls.SupportedVersionsExtension{Versions: []uint16{tls.VersionTLS13}})
	}
	vmin := version
	if version == tls.VersionTLS13 {
		vmin = tls.VersionTLS12
	}
	return &tls.ClientHelloSpec{TLSVersMin: vmin, TLSVersMax: version, CipherSuites: []uint16{suite},
		CompressionMethods: []byte{0}, Extensions: exts}
}

// srvConn is what the runners need from the peer.
type srvConn interface {
	Read([]byte) (int, error)
	Write([]byte) (int, error)
	SetReadDeadline(time.Time) error
	Close() error
}

type pair struct {
	client     *tls.UConn
	server     srvConn   // crypto/tls server, or the uTLS server below
	userver    *tls.Conn // non-nil when the peer is the uTLS server (it then has the verif hooks too)
	crec, srec *recConn
	a, b       net.Conn
}

func (p *pair) close() { p.a.Close(); p.b.Close() }

// handshakePair completes a handshake for exactly (version, suite) or reports why it could not.
func handshakePair(version, suite uint16, certs testCerts, dynOff bool) (*pair, error) {
	a, b, err := tcpPair()
	if err != nil {
		return nil, err
	}
	return handshakeOn(a, b, version, suite, certs, dynOff)
}

// handshakeOver: like handshakePair on transports supplied by the caller (a = client side).
func handshakeOver(a, b net.Conn, version, suite uint16, certs testCerts) (*pair, error) {
	return handshakeOn(a, b, version, suite, certs, false)
}

// handshakePairU: the peer is the server of the uTLS package itself (same record layer as crypto/tls, but
// with the verif hooks: KeyUpdate, empty records, sequence numbers).
func handshakePairU(version, suite uint16, certs testCerts, dynOff bool) (*pair, error) {
	a, b, err := tcpPair()
	if err != nil {
		return nil, err
	}
	return handshakeWith(a, b, version, suite, certs, dynOff, true)
}

func handshakeOn(a, b net.Conn, version, suite uint16, certs testCerts, dynOff bool) (*pair, error) {
	return handshakeWith(a, b, version, suite, certs, dynOff, false)
}

func handshakeWith(a, b net.Conn, version, suite uint16, certs testCerts, dynOff, utlsServer bool) (*pair, error) {
	p := &pair{a: a, b: b, crec: &recConn{Conn: a}, srec: &recConn{Conn: b}}
	var hsServer func() error
	if utlsServer {
		ucfg := &tls.Config{Certificates: []tls.Certificate{
			{Certificate: certs.ecdsa.Certificate, PrivateKey: certs.ecdsa.PrivateKey},
			{Certificate: certs.rsa.Certificate, PrivateKey: certs.rsa.PrivateKey}},
			MinVersion: version, MaxVersion: version, DynamicRecordSizingDisabled: dynOff}
		if version != tls.VersionTLS13 {
			ucfg.CipherSuites = []uint16{suite}
		}
		us := tls.Server(p.srec, ucfg)
		p.server, p.userver, hsServer = us, us, us.Handshake
	} else {
		scfg := &stdtls.Config{Certificates: []stdtls.Certificate{certs.ecdsa, certs.rsa}, MinVersion: version, MaxVersion: version,
			DynamicRecordSizingDisabled: dynOff}
		if version != tls.VersionTLS13 {
			scfg.CipherSuites = []uint16{suite}
		}
		ss := stdtls.Server(p.srec, scfg)
		p.server, hsServer = ss, ss.Handshake
	}
	errc := make(chan error, 1)
	go func() {
		b.SetDeadline(time.Now().Add(10 * time.Second))
		errc <- hsServer()
	}()
	a.SetDeadline(time.Now().Add(10 * time.Second))
	p.client = tls.UClient(p.crec, &tls.Config{InsecureSkipVerify: true, ServerName: "verif.test", DynamicRecordSizingDisabled: dynOff}, tls.HelloCustom)
	if err := p.client.ApplyPreset(specFor(version, suite)); err != nil {
		p.close()
		<-errc
		return nil, fmt.Errorf("ApplyPreset: %v", err)
	}
	cerr := p.client.Handshake()
	serr := <-errc
	if cerr != nil || serr != nil {
		p.close()
		return nil, fmt.Errorf("handshake: client %v, server %v", cerr, serr)
	}
	st := p.client.ConnectionState()
	if st.Version != version || st.CipherSuite != suite {
		p.close()
		return nil, fmt.Errorf("negotiated %04x/%04x instead of %04x/%04x", st.Version, st.CipherSuite, version, suite)
	}
	a.SetDeadline(time.Time{})
	b.SetDeadline(time.Time{})
	return p, nil
}

type wireRec struct {
	Typ  byte
	Vers uint16
	Len  int
	Body []byte
}

func splitRecords(wire []byte) []wireRec {
	var out []wireRec
	for len(wire) >= 5 {
		n := int(wire[3])<<8 | int(wire[4])
		if len(wire) < 5+n {
			break
		}
		out = append(out, wireRec{wire[0], uint16(wire[1])<<8 | uint16(wire[2]), n, wire[5 : 5+n]})
		wire = wire[5+n:]
	}
	return out
}

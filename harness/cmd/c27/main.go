// Runner for C27 (forged connections from shared secrets interoperate).
//
//	c27 C27 -seed S -n N -tier T -out DIR     correspondence + oracle run (driver entry point)
//	c27 child <weak> <seed> <tier>            one half of the run in its own process (EnableWeakCiphers is global)
//	c27 gensuites                             print coq/theories/Gen/Suites.v generated from the real tables
package main

import (
	"bytes"
	"encoding/binary"
	"encoding/json"
	"fmt"
	"io"
	"math/rand"
	"os"
	"os/exec"
	"strings"
	"time"

	tls "github.com/refraction-networking/utls"

	"verif/harness/vh"
)

func main() {
	if len(os.Args) > 1 && os.Args[1] == "child" {
		childMain()
		return
	}
	if len(os.Args) > 1 && os.Args[1] == "gensuites" {
		genSuites()
		return
	}
	vh.Main(map[string]vh.Suite{"C27": {Corr: "Corr.C27Corr", Run: run}})
}

// ---------- what one process observes ----------

type halfObs struct {
	Kind  int    `json:"kind"`
	Dec   bool   `json:"dec"`
	Seq   uint64 `json:"seq"`
	Mac   bool   `json:"mac"`
	Vers  uint16 `json:"vers"`
	TName string `json:"tname"`
}

type recObs struct {
	Typ   byte   `json:"typ"`
	Vers  uint16 `json:"vers"`
	Len   int    `json:"len"`
	Nonce []byte `json:"nonce"` // first 8 body bytes (explicit nonce of TLS 1.2 GCM), else nil
}

type dirObs struct {
	Sizes []int    `json:"sizes"`
	Recs  []recObs `json:"recs"`
	Err   string   `json:"err"`
	Equal bool     `json:"equal"`
}

type interopObs struct {
	Version  uint16  `json:"version"`
	Suite    uint16  `json:"suite"`
	CIn      halfObs `json:"cin"`
	COut     halfObs `json:"cout"`
	SIn      halfObs `json:"sin"`
	SOut     halfObs `json:"sout"`
	C2S      dirObs  `json:"c2s"`
	S2C      dirObs  `json:"s2c"`
	ValidFor bool    `json:"valid"` // the suite is valid for this version (suiteTLS12 only with TLS 1.2)
}

type scan struct {
	Label     string              `json:"label"` // default | weak | weak-after-use | weak-twice
	Weak      bool                `json:"weak"`
	Table     []tls.VerifSuite    `json:"table"`
	Supported map[uint16][]uint16 `json:"supported"` // version -> ids with non-nil result
	Panics    []string            `json:"panics"`
	Interops  []interopObs        `json:"interops"`
}

var versions = []uint16{tls.VersionTLS10, tls.VersionTLS11, tls.VersionTLS12}

func obsHalf(h tls.VerifHalf) halfObs {
	return halfObs{Kind: h.Kind, Dec: h.IsDecrypter, Seq: h.Seq, Mac: h.HasMac, Vers: h.Version, TName: h.TypeName}
}

func parseRecords(wire []byte, gcm bool) []recObs {
	var out []recObs
	for len(wire) >= 5 {
		n := int(wire[3])<<8 | int(wire[4])
		if len(wire) < 5+n {
			break
		}
		r := recObs{Typ: wire[0], Vers: uint16(wire[1])<<8 | uint16(wire[2]), Len: n}
		if gcm && n >= 8 {
			r.Nonce = append([]byte(nil), wire[5:13]...)
		}
		out = append(out, r)
		wire = wire[5+n:]
	}
	return out
}

// exchange writes each chunk on w and reads it back on r; Go-side oracle = bytes equal, no error.
func exchange(w, r *tls.Conn, wrec *recConn, sizes []int, rng *rand.Rand, gcm bool) dirObs {
	d := dirObs{Sizes: sizes, Equal: true}
	wrec.take()
	for _, n := range sizes {
		data := make([]byte, n)
		rng.Read(data)
		errc := make(chan error, 1)
		go func() {
			w.SetWriteDeadline(time.Now().Add(10 * time.Second))
			m, err := w.Write(data)
			if err == nil && m != len(data) {
				err = fmt.Errorf("short write %d of %d", m, len(data))
			}
			errc <- err
		}()
		got := make([]byte, n)
		r.SetReadDeadline(time.Now().Add(10 * time.Second))
		_, rerr := io.ReadFull(r, got)
		werr := <-errc
		if werr != nil {
			d.Err = "write: " + werr.Error()
			d.Equal = false
			break
		}
		if rerr != nil {
			d.Err = "read: " + rerr.Error()
			d.Equal = false
			break
		}
		if !bytes.Equal(got, data) {
			d.Err = "bytes differ"
			d.Equal = false
			break
		}
	}
	d.Recs = parseRecords(wrec.take(), gcm)
	return d
}

func sizesFor(tier string, rng *rand.Rand) []int {
	s := []int{0, 1, 2, 15, 16, 17, 1000, 16384, 16385, 20000}
	if tier != "quick" {
		for i := 0; i < 6; i++ {
			s = append(s, rng.Intn(20001))
		}
	}
	return s
}

func doScan(label string, weak bool, seed int64, tier string, interop bool) scan {
	rng := rand.New(rand.NewSource(seed*2 + 1))
	sc := scan{Label: label, Weak: weak, Table: tls.VerifCipherSuiteTable(), Supported: map[uint16][]uint16{}}
	if tier == "table" {
		return sc
	}
	ms := make([]byte, 48)
	cr := make([]byte, 32)
	sr := make([]byte, 32)
	rng.Read(ms)
	rng.Read(cr)
	rng.Read(sr)
	flagOf := map[uint16]tls.VerifSuite{}
	for _, r := range sc.Table {
		flagOf[r.ID] = r
	}
	// all 65536 ids x 3 versions: nil or not
	for _, v := range versions {
		var ids []uint16
		for id := 0; id < 65536; id++ {
			var conn *tls.Conn
			p, val := vh.Recover(func() {
				conn = tls.MakeConnWithCompleteHandshake(nil, v, uint16(id), ms, cr, sr, id%2 == 0)
			})
			if p {
				sc.Panics = append(sc.Panics, fmt.Sprintf("%04x/%04x: %v", v, id, val))
				continue
			}
			if conn != nil {
				ids = append(ids, uint16(id))
			}
		}
		sc.Supported[v] = ids
	}
	// interop for every supported suite x version
	for _, v := range versions {
		if !interop {
			break
		}
		for _, id := range sc.Supported[v] {
			row := flagOf[id]
			io := interopObs{Version: v, Suite: id, ValidFor: row.Flags&tls.VerifSuiteTLS12 == 0 || v == tls.VersionTLS12}
			a, b, err := tcpPair()
			if err != nil {
				io.C2S.Err = "tcp: " + err.Error()
				sc.Interops = append(sc.Interops, io)
				continue
			}
			ca, cb := &recConn{Conn: a}, &recConn{Conn: b}
			rng.Read(ms)
			rng.Read(cr)
			rng.Read(sr)
			client := tls.MakeConnWithCompleteHandshake(ca, v, id, ms, cr, sr, true)
			server := tls.MakeConnWithCompleteHandshake(cb, v, id, ms, cr, sr, false)
			i1, o1 := tls.VerifRecordState(client)
			i2, o2 := tls.VerifRecordState(server)
			io.CIn, io.COut, io.SIn, io.SOut = obsHalf(i1), obsHalf(o1), obsHalf(i2), obsHalf(o2)
			sz := sizesFor(tier, rng)
			gcm := row.Kind == 4
			io.C2S = exchange(client, server, ca, sz, rng, gcm)
			io.S2C = exchange(server, client, cb, sz, rng, gcm)
			a.Close()
			b.Close()
			sc.Interops = append(sc.Interops, io)
		}
	}
	return sc
}

// childMain runs one ordering of the process-global state:
//
//	mode 1: EnableWeakCiphers first, then everything (fresh process)
//	mode 2: everything on the default table (suite lookups, forged connections, one real handshake),
//	        THEN EnableWeakCiphers and everything again, then EnableWeakCiphers a second time and the
//	        nil/non-nil sweep once more
//	mode 1 with tier "table": only the table (translator)
func childMain() {
	mode := os.Args[2]
	var seed int64
	fmt.Sscan(os.Args[3], &seed)
	tier := os.Args[4]
	var scans []scan
	if mode == "1" {
		tls.EnableWeakCiphers()
		scans = append(scans, doScan("weak", true, seed, tier, true))
	} else {
		scans = append(scans, doScan("default", false, seed, tier, true))
		hs := ""
		if p, err := handshakePair(tls.VersionTLS12, tls.TLS_ECDHE_ECDSA_WITH_AES_128_GCM_SHA256, newTestCerts(), false); err != nil {
			hs = err.Error()
		} else {
			p.close()
		}
		tls.EnableWeakCiphers()
		sc := doScan("weak-after-use", true, seed+1, tier, true)
		if hs != "" {
			sc.Panics = append(sc.Panics, "real handshake before EnableWeakCiphers: "+hs)
		}
		scans = append(scans, sc)
		tls.EnableWeakCiphers()
		scans = append(scans, doScan("weak-twice", true, seed+2, tier, false))
	}
	json.NewEncoder(os.Stdout).Encode(scans)
}

func runChild(mode string, seed int64, tier string) ([]scan, error) {
	exe, err := os.Executable()
	if err != nil {
		return nil, err
	}
	cmd := exec.Command(exe, "child", mode, fmt.Sprint(seed), tier)
	cmd.Stderr = os.Stderr
	out, err := cmd.Output()
	if err != nil {
		return nil, fmt.Errorf("child (mode %s): %v", mode, err)
	}
	var scs []scan
	if err := json.Unmarshal(out, &scs); err != nil {
		return nil, err
	}
	return scs, nil
}

// ---------- Coq emitters ----------

func rowTerm(r tls.VerifSuite) string {
	return fmt.Sprintf("(mkSuite %d %d%%nat %d%%nat %d%%nat %d %d %d%%nat %d%%nat %d%%nat)",
		r.ID, r.KeyLen, r.MacLen, r.IVLen, r.Flags, r.Kind, r.MacSize, r.BlockSize, r.ExplicitNonceLen)
}

func tableTerm(t []tls.VerifSuite) string {
	it := make([]string, len(t))
	for i, r := range t {
		it[i] = rowTerm(r)
	}
	return vh.List(it)
}

func halfTerm(h halfObs) string {
	return fmt.Sprintf("(%d, %s, %d, %s)", h.Kind, vh.Bool(h.Dec), h.Seq, vh.Bool(h.Mac))
}

func recsTerm(rs []recObs) string {
	it := make([]string, len(rs))
	for i, r := range rs {
		it[i] = fmt.Sprintf("(%d, %d, %d, %s)", r.Typ, r.Vers, r.Len, vh.Bytes(r.Nonce))
	}
	return vh.List(it)
}

func sizesTerm(s []int) string {
	it := make([]string, len(s))
	for i, x := range s {
		it[i] = fmt.Sprint(x)
	}
	return vh.List(it)
}

// publicSuites: what the public API documents as implemented TLS 1.0-1.2 suites, plus the code points
// uTLS adds by name. This is the oracle's own notion of "supported", independent of the internal table.
func publicSuites(weak bool) map[uint16]bool {
	m := map[uint16]bool{}
	for _, s := range tls.CipherSuites() {
		m[s.ID] = true
	}
	for _, s := range tls.InsecureCipherSuites() {
		m[s.ID] = true
	}
	for id := range m {
		if id>>8 == 0x13 { // TLS 1.3 suites are not handled by MakeConnWithCompleteHandshake
			delete(m, id)
		}
	}
	m[tls.OLD_TLS_ECDHE_RSA_WITH_CHACHA20_POLY1305_SHA256] = true
	m[tls.OLD_TLS_ECDHE_ECDSA_WITH_CHACHA20_POLY1305_SHA256] = true
	if weak {
		m[tls.DISABLED_TLS_RSA_WITH_AES_256_CBC_SHA256] = true
		m[tls.DISABLED_TLS_ECDHE_ECDSA_WITH_AES_256_CBC_SHA384] = true
		m[tls.DISABLED_TLS_ECDHE_RSA_WITH_AES_256_CBC_SHA384] = true
	}
	return m
}

func emit(c *vh.Ctx, sc scan) {
	w := vh.Bool(sc.Weak)
	wk := sc.Label
	// 1. table drift: the snapshot in Gen/Suites.v must equal the table in the code
	c.Case("table", fmt.Sprintf("(CTable %s %s)", w, tableTerm(sc.Table)), "table/"+wk, len(sc.Table) > 0,
		map[string]any{"table": wk, "rows": len(sc.Table)})
	for _, p := range sc.Panics {
		c.Fail("forge-panic/"+wk+"/"+strings.SplitN(p, ":", 2)[0], "MakeConnWithCompleteHandshake panicked", p, "panic", "nil or a connection")
	}
	// 2. nil / non-nil for all 65536 ids
	pub := publicSuites(sc.Weak)
	for _, v := range versions {
		ids := sc.Supported[v]
		c.Case("supported", fmt.Sprintf("(CSupported %s %d %s)", w, v, vh.U16s(ids)),
			fmt.Sprintf("supported/%s/%04x", wk, v), len(ids) > 0, nil)
		c.Count("ids_swept_65536")
		got := map[uint16]bool{}
		for _, id := range ids {
			got[id] = true
			if !pub[id] {
				c.Fail(fmt.Sprintf("forge-unsupported-nonnil/%s/%04x/%04x", wk, v, id),
					"a suite id outside the supported TLS 1.0-1.2 suites yields a connection instead of nil",
					map[string]any{"weak": sc.Weak, "version": v, "suite": id}, "non-nil", "nil")
			}
		}
		for id := range pub {
			if !got[id] {
				c.Fail(fmt.Sprintf("forge-supported-nil/%s/%04x", wk, id),
					"a supported TLS 1.0-1.2 suite yields nil",
					map[string]any{"weak": sc.Weak, "version": v, "suite": id}, "nil", "a connection")
			}
		}
	}
	// 3. interop
	kindOf := map[uint16]string{}
	for _, r := range sc.Table {
		kindOf[r.ID] = fmt.Sprintf("%d-%d", r.Kind, r.MacSize)
	}
	for _, io := range sc.Interops {
		key := fmt.Sprintf("%s/%04x/%04x", wk, io.Suite, io.Version)
		in := map[string]any{"weak": sc.Weak, "suite": fmt.Sprintf("0x%04x", io.Suite), "version": fmt.Sprintf("0x%04x", io.Version)}
		for _, d := range []struct {
			name string
			o    dirObs
		}{{"c2s", io.C2S}, {"s2c", io.S2C}} {
			if !d.o.Equal {
				if io.ValidFor {
					c.Fail("forge-interop/"+key+"/"+d.name,
						"two connections forged from the same secrets do not exchange application data ("+d.name+")",
						in, d.o.Err, "bytes read equal bytes written, no error")
				} else {
					c.Count("interop_fail_on_invalid_version_combo")
				}
			}
		}
		// forge_dir correspondence: cipher kinds, CBC direction flags, sequence numbers of all four halves
		c.Case("forge", fmt.Sprintf("(CForge %s %d %d %s %s %s %s)", w, io.Version, io.Suite,
			halfTerm(io.CIn), halfTerm(io.COut), halfTerm(io.SIn), halfTerm(io.SOut)),
			"forge/"+key, true, map[string]any{"suite": in["suite"], "version": in["version"], "client_out": io.COut.TName, "client_in": io.CIn.TName})
		// framing correspondence: record types/lengths/explicit nonces for the write sequence, both directions.
		// quick tier: the first suite of each (cipher kind, MAC size) per version (the framing depends on
		// these only); thorough: every suite, version and table.
		wk2 := fmt.Sprintf("%s/%04x", kindOf[io.Suite], io.Version)
		if c.Tier == "quick" && seenKind[wk2] {
			continue
		}
		seenKind[wk2] = true
		if io.C2S.Equal {
			c.Case("wire", fmt.Sprintf("(CWire %s %d %d true %s %s)", w, io.Version, io.Suite, sizesTerm(io.C2S.Sizes), recsTerm(io.C2S.Recs)),
				"wire/"+key+"/c2s", len(io.C2S.Recs) > 3, nil)
		}
		if io.S2C.Equal {
			c.Case("wire", fmt.Sprintf("(CWire %s %d %d false %s %s)", w, io.Version, io.Suite, sizesTerm(io.S2C.Sizes), recsTerm(io.S2C.Recs)),
				"wire/"+key+"/s2c", len(io.S2C.Recs) > 3, nil)
		}
	}
}

var seenKind = map[string]bool{}

func run(c *vh.Ctx) {
	type res struct {
		scs []scan
		err error
	}
	modes := []string{"2", "1"}
	chs := map[string]chan res{}
	for _, m := range modes {
		chs[m] = make(chan res, 1)
		go func(m string) { scs, err := runChild(m, c.Seed, c.Tier); chs[m] <- res{scs, err} }(m)
	}
	for _, m := range modes {
		r := <-chs[m]
		if r.err != nil {
			c.Fail("runner/child", r.err.Error(), nil, nil, nil)
			continue
		}
		for _, sc := range r.scs {
			emit(c, sc)
			c.Extra["suites_"+sc.Label] = len(sc.Table)
			c.Extra["interops_"+sc.Label] = len(sc.Interops)
		}
	}
}

// ---------- translator: Gen/Suites.v ----------

func genSuites() {
	def, err := runChildTable(false)
	if err != nil {
		fmt.Fprintln(os.Stderr, err)
		os.Exit(1)
	}
	weak, err := runChildTable(true)
	if err != nil {
		fmt.Fprintln(os.Stderr, err)
		os.Exit(1)
	}
	var sb strings.Builder
	sb.WriteString("(* GENERATED by `harness/cmd/c27 gensuites` (lib/gen_suites.py) from utlsSupportedCipherSuites of /repo\n")
	sb.WriteString("   (cipher_suites.go:150-173, u_common.go:737-763). Do not edit. Columns: id keyLen macLen ivLen flags\n")
	sb.WriteString("   kind(1 RC4, 2 3DES-CBC, 3 AES-CBC, 4 AES-GCM, 5 ChaCha20-Poly1305) mac.Size() CBC-blocksize explicitNonceLen. *)\n")
	sb.WriteString("From UV Require Import Base.Common.\n")
	sb.WriteString("Record suite_row := mkSuite { s_id : N; s_keyLen : nat; s_macLen : nat; s_ivLen : nat; s_flags : N;\n")
	sb.WriteString("  s_kind : N; s_macSize : nat; s_bs : nat; s_enl : nat }.\n")
	fmt.Fprintf(&sb, "Definition flag_ecdhe : N := %d.\nDefinition flag_ecsign : N := %d.\nDefinition flag_tls12 : N := %d.\nDefinition flag_sha384 : N := %d.\n",
		tls.VerifSuiteECDHE, tls.VerifSuiteECSign, tls.VerifSuiteTLS12, tls.VerifSuiteSHA384)
	for _, t := range []struct {
		name string
		rows []tls.VerifSuite
	}{{"suites_default", def}, {"suites_weak", weak}} {
		fmt.Fprintf(&sb, "Definition %s : list suite_row := [\n", t.name)
		for i, r := range t.rows {
			sep := ";"
			if i == len(t.rows)-1 {
				sep = ""
			}
			fmt.Fprintf(&sb, "  %s%s (* 0x%04x *)\n", rowTerm(r), sep, r.ID)
		}
		sb.WriteString("].\n")
	}
	fmt.Print(sb.String())
}

func runChildTable(weak bool) ([]tls.VerifSuite, error) {
	if !weak {
		return tls.VerifCipherSuiteTable(), nil
	}
	scs, err := runChild("1", 0, "table")
	if err != nil || len(scs) == 0 {
		return nil, fmt.Errorf("weak table: %v", err)
	}
	return scs[0].Table, nil
}

var _ = binary.BigEndian

package main

import (
	"encoding/binary"
	"fmt"
	"io"
	"reflect"

	tls "github.com/refraction-networking/utls"
	"verif/harness/extcoq"
	"verif/harness/vh"
)

// Values every identifier-typed field is swept over: zero, the small registry values, a common
// group, GREASE, and the top of the range (reserved / export-only / unregistered code points).
var idVals16 = []uint16{0, 1, 2, 3, 4, 0x001d, 0x0a0a, 0x0100, 0x7fff, 0xfffe, 0xffff}
var idVals8 = []byte{0, 1, 2, 3, 64, 254, 255}

// seedValidBodies: for EVERY built-in extension type, bodies its own Read produces (sizes 1 and 3),
// so that prefix / sweep exploration never depends on which types the random hellos happened to use.
func (rn *runner) seedValidBodies() {
	for _, g := range extcoq.Generators() {
		for _, size := range []int{1, 3} {
			e := g.Make(rn.r, size)
			if p, ok := e.(*tls.UtlsPaddingExtension); ok {
				p.WillPad, p.PaddingLen = true, 3
			}
			vh.Recover(func() {
				n := e.Len()
				if n < 4 || n > 200 {
					return
				}
				buf := make([]byte, n)
				if k, err := e.Read(buf); (err == nil || err == io.EOF) && k == n {
					id := binary.BigEndian.Uint16(buf)
					if len(rn.validBodies[id]) < 3 {
						rn.validBodies[id] = append(rn.validBodies[id], append([]byte{}, buf[4:]...))
					}
				}
			})
		}
	}
}

// sweepBodies: the body with each 16-bit and each 8-bit position (first 40 bytes) set to each
// boundary / registry value in turn. Structure-blind on purpose: it covers every id-typed field of
// every extension (HPKE kdf/aead, groups, signature schemes, versions, compression algorithms,
// PSK modes, status types, ...) and every length prefix without a per-type table.
func sweepBodies(vb []byte) [][]byte {
	var out [][]byte
	lim := len(vb)
	if lim > 40 {
		lim = 40
	}
	for off := 0; off < lim; off++ {
		if off+2 <= len(vb) {
			for _, v := range idVals16 {
				b := append([]byte{}, vb...)
				binary.BigEndian.PutUint16(b[off:], v)
				out = append(out, b)
			}
		}
		for _, v := range idVals8 {
			b := append([]byte{}, vb...)
			b[off] = v
			out = append(out, b)
		}
	}
	return out
}

func extEnc(id uint16, body []byte) []byte {
	return append([]byte{byte(id >> 8), byte(id), byte(len(body) >> 8), byte(len(body))}, body...)
}

// helloFrom: a well-framed TLS 1.2-style record with the given extension encodings.
func helloFrom(exts [][]byte) []byte {
	b := []byte{22, 3, 1, 0, 0, 1, 0, 0, 0, 3, 3}
	b = append(b, make([]byte, 32)...)
	b = append(b, 0)                                        // session id
	b = append(b, 0, 6, 0x1a, 0x1a, 0x13, 0x01, 0xc0, 0x2b) // suites
	b = append(b, 1, 0)                                     // compression
	var ex []byte
	for _, e := range exts {
		ex = append(ex, e...)
	}
	b = append(b, byte(len(ex)>>8), byte(len(ex)))
	b = append(b, ex...)
	binary.BigEndian.PutUint16(b[3:5], uint16(len(b)-5))
	b[6], b[7], b[8] = byte((len(b)-9)>>16), byte((len(b)-9)>>8), byte(len(b)-9)
	return b
}

// fail reports a failure, at most 4 times per key (a sweep can hit the same site thousands of times).
func (rn *runner) fail(key, what string, input, got, want any) {
	rn.c.Count("fail:" + key)
	if rn.reported[key] >= 4 {
		return
	}
	rn.reported[key]++
	rn.c.Fail(key, what, input, got, want)
}

// identSweep: Write and FingerprintClientHello on every swept body of every extension type.
// Go-side oracle only (volume); the `ident-sweep` hello mutation sends a sample to Coq.
func (rn *runner) identSweep() {
	fl := allFlags()
	k := 0
	for _, vbs := range rn.validBodiesSorted() {
		for _, vb := range vbs.bodies {
			for _, body := range sweepBodies(vb) {
				for _, real := range []bool{false, true} {
					if real && vbs.id != 41 {
						continue
					}
					w := extcoq.FromID(vbs.id, real)
					if w == nil {
						continue
					}
					rn.c.Count("sweep:write")
					arg := append([]byte{}, body...)
					if p, pv := vh.Recover(func() { w.Write(arg) }); p {
						typ := reflect.TypeOf(w).Elem().Name()
						rn.fail("Write/"+typ+"/"+panicKind(pv), "Write panicked on a body with a boundary value in one field",
							map[string]any{"id": vbs.id, "body_hex": vh.Hex(body)}, fmt.Sprint(pv), "a byte count or an error")
					}
				}
				// the same body inside a well-framed hello
				k++
				f := fl[k%8]
				raw := helloFrom([][]byte{extEnc(23, nil), extEnc(vbs.id, body)})
				rn.c.Count("sweep:hello")
				_, spec, _ := rn.fingerprint(f, raw)
				if spec != nil && k%7 == 0 { // a sample of the accepted ones must also be usable
					rn.usable("raw", fmt.Sprintf("sweep/%d", vbs.id), func() *tls.ClientHelloSpec {
						s, _ := (&tls.Fingerprinter{AllowBluntMimicry: f.blunt, AlwaysAddPadding: f.always, RealPSKResumption: f.real}).FingerprintClientHello(append([]byte{}, raw...))
						return s
					}, map[string]any{"flags": f.String(), "raw_hex": vh.Hex(raw)})
				}
			}
		}
	}
}

type idBodies struct {
	id     uint16
	bodies [][]byte
}

// deterministic order over the map
func (rn *runner) validBodiesSorted() []idBodies {
	var out []idBodies
	for id := 0; id < 65536; id++ {
		if b, ok := rn.validBodies[uint16(id)]; ok {
			out = append(out, idBodies{uint16(id), b})
		}
	}
	return out
}

// identMutate: one extension of the hello gets one field set to a boundary value (framing intact).
func (rn *runner) identMutate(raw []byte) []byte {
	_, encs, start, ok := extList(raw)
	if !ok || len(encs) < 1 {
		return raw
	}
	r := rn.r
	i := r.Intn(len(encs))
	e := append([]byte{}, encs[i]...)
	if len(e) <= 4 {
		return raw
	}
	off := 4 + r.Intn(len(e)-4)
	if off+2 <= len(e) && r.Intn(3) != 0 {
		binary.BigEndian.PutUint16(e[off:], idVals16[r.Intn(len(idVals16))])
	} else {
		e[off] = idVals8[r.Intn(len(idVals8))]
	}
	encs[i] = e
	return withExts(raw, start, encs)
}

// ---- valid hellos with / without padding and with / without pre_shared_key, under all 8 flag sets ----

func (rn *runner) pskBody() []byte {
	label := make([]byte, 8+rn.r.Intn(24))
	rn.r.Read(label)
	binder := make([]byte, 32)
	rn.r.Read(binder)
	ids := append([]byte{byte(len(label) >> 8), byte(len(label))}, label...)
	ids = append(ids, 1, 2, 3, 4) // obfuscated_ticket_age
	b := append([]byte{byte(len(ids) >> 8), byte(len(ids))}, ids...)
	b = append(b, 0, 33, 32)
	return append(b, binder...)
}

func (rn *runner) flagMatrix() {
	sni := []byte{0, 7, 0, 0, 4, 'a', '.', 'b', 'c'}
	curves := []byte{0, 4, 0x2a, 0x2a, 0, 29}
	sigalgs := []byte{0, 4, 4, 3, 8, 4}
	ks := append([]byte{0, 41, 0x1a, 0x1a, 0, 1, 0, 0, 29, 0, 32}, make([]byte, 32)...)
	for shape := 0; shape < 4; shape++ {
		withPad, withPSK := shape&1 != 0, shape&2 != 0
		exts := [][]byte{extEnc(0x3a3a, nil), extEnc(0, sni), extEnc(23, nil), extEnc(10, curves), extEnc(13, sigalgs),
			extEnc(43, []byte{4, 0x1a, 0x1a, 3, 4}), extEnc(45, []byte{1, 1}), extEnc(51, ks)}
		if withPad {
			exts = append(exts, extEnc(21, make([]byte, 5)))
		}
		if withPSK {
			exts = append(exts, extEnc(41, rn.pskBody()))
		}
		raw := helloFrom(exts)
		for _, f := range allFlags() {
			rn.rawCase("matrix", fmt.Sprintf("matrix/pad=%v/psk=%v", withPad, withPSK), f, raw, true)
		}
	}
	// resuming-hello shapes of the PSK parrots: their spec with a filled FakePreSharedKeyExtension
	for _, p := range parrots() {
		spec, err := tls.UTLSIdToSpec(p.ID)
		if err != nil {
			continue
		}
		has := false
		for i, e := range spec.Extensions {
			if _, ok := e.(tls.PreSharedKeyExtension); ok {
				label, binder := make([]byte, 32), make([]byte, 32)
				rn.r.Read(label)
				rn.r.Read(binder)
				spec.Extensions[i] = &tls.FakePreSharedKeyExtension{Identities: []tls.PskIdentity{{Label: label, ObfuscatedTicketAge: 7}}, Binders: [][]byte{binder}}
				has = true
			}
		}
		if !has {
			continue
		}
		var rec []byte
		vh.Recover(func() {
			uc := tls.UClient(nullConn{}, &tls.Config{ServerName: "c07.example.com", InsecureSkipVerify: true}, tls.HelloCustom)
			if uc.ApplyPreset(&spec) != nil || uc.BuildHandshakeState() != nil {
				return
			}
			raw := uc.HandshakeState.Hello.Raw
			rec = append([]byte{22, 3, 1, byte(len(raw) >> 8), byte(len(raw))}, raw...)
		})
		if rec == nil {
			rn.c.Count("psk-parrot-build-error")
			continue
		}
		for _, f := range allFlags() {
			rn.rawCase("psk-parrot", "psk-parrot/"+p.Name, f, rec, false)
		}
		// the same hello without its padding extension
		if _, encs, start, ok := extList(rec); ok {
			var kept [][]byte
			for _, e := range encs {
				if binary.BigEndian.Uint16(e) != 21 {
					kept = append(kept, e)
				}
			}
			np := withExts(rec, start, kept)
			for _, f := range allFlags() {
				rn.rawCase("psk-parrot-nopad", "psk-parrot-nopad/"+p.Name, f, np, false)
			}
		}
	}
}

// ---- version fields: record-layer version x legacy_version in all orders, with / without supported_versions ----

var versVals = []uint16{0x0300, 0x0301, 0x0302, 0x0303, 0x0304, 0x0200, 0xfefd}

func (rn *runner) versionSweep() {
	curves := []byte{0, 4, 0x2a, 0x2a, 0, 29}
	sigalgs := []byte{0, 4, 4, 3, 8, 4}
	ks := append([]byte{0, 36, 0, 29, 0, 32}, make([]byte, 32)...)
	k := 0
	for _, rv := range versVals {
		for _, lv := range versVals {
			for _, withSV := range []bool{false, true} {
				exts := [][]byte{extEnc(23, nil), extEnc(10, curves), extEnc(13, sigalgs)}
				if withSV {
					exts = append(exts, extEnc(43, []byte{4, 3, 4, 3, 3}), extEnc(51, ks))
				}
				raw := helloFrom(exts)
				raw[1], raw[2] = byte(rv>>8), byte(rv)
				raw[9], raw[10] = byte(lv>>8), byte(lv)
				k++
				tlsRange := rv>>8 == 3 && lv>>8 == 3
				rn.rawCase("versions", fmt.Sprintf("versions/rec=%04x/legacy=%04x/sv=%v", rv, lv, withSV), allFlags()[k%8], raw, tlsRange)
			}
		}
	}
	// SetTLSVers directly (exported), every (min, max) incl. 0 and four extension lists
	sv := func(vs ...uint16) tls.TLSExtension { return &tls.SupportedVersionsExtension{Versions: vs} }
	lists := [][]tls.TLSExtension{
		nil,
		{&tls.ExtendedMasterSecretExtension{}, sv(0x0a0a, tls.VersionTLS13, tls.VersionTLS12)},
		{sv(0x1a1a)},
		{sv(tls.VersionTLS12), sv(tls.VersionTLS13, tls.VersionTLS11)},
	}
	vals := append([]uint16{0}, versVals...)
	for _, mn := range vals {
		for _, mx := range vals {
			for li, es := range lists {
				if (mn != 0 || mx != 0) && li >= 1 {
					continue // the extension list is only consulted for (0, 0)
				}
				terms := make([]string, len(es))
				for i, e := range es {
					terms[i], _ = extcoq.ExtTerm(e)
				}
				var err error
				var got []uint16
				p, pv := vh.Recover(func() {
					uc := tls.UClient(nullConn{}, &tls.Config{ServerName: "c07.example.com"}, tls.HelloCustom)
					if err = uc.SetTLSVers(mn, mx, es); err == nil {
						got = uc.HandshakeState.Hello.SupportedVersions
					}
				})
				obs := "VErr"
				switch {
				case p:
					obs = "VPanic"
					rn.fail("SetTLSVers/"+panicKind(pv), "UConn.SetTLSVers panicked", map[string]any{"min": mn, "max": mx, "exts": terms},
						fmt.Sprint(pv), "a version range or an error")
				case err == nil:
					head := got
					if len(head) > 4 {
						head = head[:4]
					}
					last := uint16(0)
					if len(got) > 0 {
						last = got[len(got)-1]
					}
					obs = fmt.Sprintf("(VOk %d %s %d)", len(got), vh.U16s(head), last)
				}
				rn.c.Count("setvers")
				rn.c.Case("setvers", fmt.Sprintf("CSetVers %d %d %s %s", mn, mx, vh.List(terms), obs),
					fmt.Sprintf("setvers/%04x/%04x/%d", mn, mx, li), obs != "VErr", nil)
			}
		}
	}
}

// ---- list shapes: every list-valued extension of a valid TLS 1.3 hello with 0, 1, 2 (and some 3)
// entries drawn from {GREASE, two real values, an unregistered value}, all sequences; the fingerprinted
// spec must be usable (ApplyPreset + BuildHandshakeState under recover) ----

func u16list(vals []uint16) []byte {
	var b []byte
	for _, v := range vals {
		b = append(b, byte(v>>8), byte(v))
	}
	return b
}

func vec16(b []byte) []byte { return append([]byte{byte(len(b) >> 8), byte(len(b))}, b...) }
func vec8(b []byte) []byte  { return append([]byte{byte(len(b))}, b...) }

// sequences of length 0..2 over pool, plus a few of length 3
func seqs(pool int) [][]int {
	out := [][]int{{}}
	for a := 0; a < pool; a++ {
		out = append(out, []int{a})
		for b := 0; b < pool; b++ {
			out = append(out, []int{a, b})
		}
	}
	out = append(out, []int{0, 1, 2}, []int{1, 0, 0}, []int{0, 0, 1})
	return out
}

func (rn *runner) listShapes() {
	sni := []byte{0, 7, 0, 0, 4, 'a', '.', 'b', 'c'}
	type variant struct {
		name string
		id   uint16
		body func(seq []int) []byte
	}
	u16pool := func(pool []uint16, wrap func([]byte) []byte) func([]int) []byte {
		return func(seq []int) []byte {
			var vs []uint16
			for _, i := range seq {
				vs = append(vs, pool[i])
			}
			return wrap(u16list(vs))
		}
	}
	share := func(i int) []byte {
		switch i {
		case 0: // GREASE, key_exchange of 1, 2 or 8 bytes
			d := make([]byte, []int{1, 2, 8}[rn.r.Intn(3)])
			return append([]byte{0x4a, 0x4a, 0, byte(len(d))}, d...)
		case 1:
			return append([]byte{0, 29, 0, 32}, make([]byte, 32)...)
		case 2:
			return append([]byte{0, 23, 0, 65}, make([]byte, 65)...)
		}
		return []byte{0x12, 0x34, 0, 2, 1, 2} // unregistered group
	}
	variants := []variant{
		{"key_share", 51, func(seq []int) []byte {
			var b []byte
			for _, i := range seq {
				b = append(b, share(i)...)
			}
			return vec16(b)
		}},
		{"supported_groups", 10, u16pool([]uint16{0x2a2a, 29, 23, 0x1234}, vec16)},
		{"supported_versions", 43, u16pool([]uint16{0x3a3a, 0x0304, 0x0303, 0x0305}, vec8)},
		{"signature_algorithms", 13, u16pool([]uint16{0x5a5a, 0x0403, 0x0804, 0x0000}, vec16)},
		{"compress_certificate", 27, u16pool([]uint16{0x6a6a, 2, 1, 0x00ff}, vec8)},
		{"psk_key_exchange_modes", 45, func(seq []int) []byte {
			var b []byte
			for _, i := range seq {
				b = append(b, []byte{0x0b, 1, 0, 7}[i])
			}
			return vec8(b)
		}},
		{"alpn", 16, func(seq []int) []byte {
			var b []byte
			for _, i := range seq {
				b = append(b, vec8([]byte([]string{"h2", "http/1.1", "h3", "x"}[i]))...)
			}
			return vec16(b)
		}},
	}
	defaults := map[uint16][]byte{
		10: vec16(u16list([]uint16{0x2a2a, 29, 23})), 13: vec16(u16list([]uint16{0x0403, 0x0804})),
		43: vec8(u16list([]uint16{0x3a3a, 0x0304, 0x0303})), 45: {1, 1},
		51: vec16(append(share(0), share(1)...)),
	}
	order := []uint16{10, 13, 43, 45, 51}
	k := 0
	for _, v := range variants {
		for si, seq := range seqs(4) {
			exts := [][]byte{extEnc(0x1a1a, nil), extEnc(0, sni), extEnc(23, nil)}
			placed := false
			for _, id := range order {
				if id == v.id {
					exts = append(exts, extEnc(id, v.body(seq)))
					placed = true
				} else {
					exts = append(exts, extEnc(id, defaults[id]))
				}
			}
			if !placed {
				exts = append(exts, extEnc(v.id, v.body(seq)))
			}
			raw := helloFrom(exts)
			k++
			// a third of them also as correspondence cases
			rn.rawCase("list-shape:"+v.name, fmt.Sprintf("list-shape/%s/%v", v.name, seq), allFlags()[k%8], raw, si%3 == 0 && len(raw) <= 300)
		}
	}
}

package main

import (
	"encoding/base64"
	"encoding/json"
	"fmt"
	"regexp"
	"strings"

	tls "github.com/refraction-networking/utls"
	"github.com/refraction-networking/utls/dicttls"
	"verif/harness/vh"
)

// jv: a JSON value built by the generator; rendered both as JSON text (what the importer gets)
// and as a Coq term of type jval (what the model gets). Strings are printable ASCII.
type jv struct {
	kind int // 0 null 1 bool 2 number 3 string 4 array 5 object
	b    bool
	num  string // the number literal
	s    string
	arr  []*jv
	obj  []member
}
type member struct {
	k string
	v *jv
}

func jnull() *jv          { return &jv{kind: 0} }
func jbool(b bool) *jv    { return &jv{kind: 1, b: b} }
func jnum(lit string) *jv { return &jv{kind: 2, num: lit} }
func jint(n int) *jv      { return jnum(fmt.Sprint(n)) }
func jstr(s string) *jv   { return &jv{kind: 3, s: s} }
func jarr(a ...*jv) *jv   { return &jv{kind: 4, arr: a} }
func jobj(m ...member) *jv {
	return &jv{kind: 5, obj: m}
}
func jstrs(ss ...string) *jv {
	a := make([]*jv, len(ss))
	for i, s := range ss {
		a[i] = jstr(s)
	}
	return jarr(a...)
}
func jb64(b []byte) *jv { return jstr(base64.StdEncoding.EncodeToString(b)) }

func (v *jv) json(sb *strings.Builder) {
	switch v.kind {
	case 0:
		sb.WriteString("null")
	case 1:
		sb.WriteString(vh.Bool(v.b))
	case 2:
		sb.WriteString(v.num)
	case 3:
		q, _ := json.Marshal(v.s)
		sb.Write(q)
	case 4:
		sb.WriteByte('[')
		for i, x := range v.arr {
			if i > 0 {
				sb.WriteByte(',')
			}
			x.json(sb)
		}
		sb.WriteByte(']')
	case 5:
		sb.WriteByte('{')
		for i, m := range v.obj {
			if i > 0 {
				sb.WriteByte(',')
			}
			q, _ := json.Marshal(m.k)
			sb.Write(q)
			sb.WriteByte(':')
			m.v.json(sb)
		}
		sb.WriteByte('}')
	}
}

func coqStr(s string) string { return `"` + strings.ReplaceAll(s, `"`, `""`) + `"%string` }

var plainInt = regexp.MustCompile(`^(0|[1-9][0-9]*)$`)

func (v *jv) coq(sb *strings.Builder) {
	switch v.kind {
	case 0:
		sb.WriteString("JNull")
	case 1:
		fmt.Fprintf(sb, "(JBool %s)", vh.Bool(v.b))
	case 2:
		if plainInt.MatchString(v.num) {
			fmt.Fprintf(sb, "(JNum (Some %s))", v.num)
		} else {
			sb.WriteString("(JNum None)")
		}
	case 3:
		dec := "None"
		if b, err := base64.StdEncoding.DecodeString(v.s); err == nil {
			dec = "(Some " + vh.Bytes(b) + ")"
		}
		fmt.Fprintf(sb, "(JStr %s %s)", coqStr(v.s), dec)
	case 4:
		sb.WriteString("(JArr [")
		for i, x := range v.arr {
			if i > 0 {
				sb.WriteString("; ")
			}
			x.coq(sb)
		}
		sb.WriteString("])")
	case 5:
		sb.WriteString("(JObj [")
		for i, m := range v.obj {
			if i > 0 {
				sb.WriteString("; ")
			}
			fmt.Fprintf(sb, "(%s, ", coqStr(m.k))
			m.v.coq(sb)
			sb.WriteString(")")
		}
		sb.WriteString("])")
	}
}

func (v *jv) clone() *jv {
	c := *v
	c.arr = nil
	for _, x := range v.arr {
		c.arr = append(c.arr, x.clone())
	}
	c.obj = nil
	for _, m := range v.obj {
		c.obj = append(c.obj, member{m.k, m.v.clone()})
	}
	return &c
}

// ---- names from the live dictionaries ----
func namesOf16(m map[uint16]string, vals ...uint16) []string {
	var out []string
	for _, v := range vals {
		if n, ok := m[v]; ok {
			out = append(out, n)
		}
	}
	return out
}

func (rn *runner) pick(ss []string, k int, grease bool) []string {
	var out []string
	for i := 0; i < k; i++ {
		if grease && rn.r.Intn(5) == 0 {
			out = append(out, "GREASE")
		} else if len(ss) > 0 {
			out = append(out, ss[rn.r.Intn(len(ss))])
		}
	}
	return out
}

func (rn *runner) extDoc() *jv {
	r := rn.r
	groups := namesOf16(dicttls.DictSupportedGroupsValueIndexed, 23, 24, 25, 29, 30, 256, 4588)
	sigs := namesOf16(dicttls.DictSignatureSchemeValueIndexed, 0x0403, 0x0804, 0x0401, 0x0503, 0x0805, 0x0201, 0x0807)
	name := func(n string, rest ...member) *jv { return jobj(append([]member{{"name", jstr(n)}}, rest...)...) }
	raw := func(n int) []byte { b := make([]byte, n); r.Read(b); return b }
	switch r.Intn(30) {
	case 0:
		return name("server_name")
	case 1:
		return name("status_request")
	case 2:
		return name("supported_groups", member{"named_group_list", jstrs(rn.pick(groups, 1+r.Intn(4), true)...)})
	case 3:
		return name("ec_point_formats", member{"ec_point_format_list", jstrs(rn.pick([]string{"uncompressed", "ansiX962_compressed_prime", "ansiX962_compressed_char2"}, 1+r.Intn(2), false)...)})
	case 4:
		return name("signature_algorithms", member{"supported_signature_algorithms", jstrs(rn.pick(sigs, 1+r.Intn(5), true)...)})
	case 5:
		return name("application_layer_protocol_negotiation", member{"protocol_name_list", jstrs(rn.pick([]string{"h2", "http/1.1", "h3", ""}, 1+r.Intn(3), false)...)})
	case 6:
		return name("status_request_v2")
	case 7:
		return name("signed_certificate_timestamp")
	case 8:
		return name("padding", member{"len", jint([]int{0, 0, 1, 17, 300}[r.Intn(5)])})
	case 9:
		return name("extended_master_secret")
	case 10:
		return name("token_binding", member{"token_binding_version", jobj(member{"major", jint(r.Intn(256))}, member{"minor", jint(r.Intn(256))})},
			member{"key_parameters_list", jstrs(rn.pick([]string{"rsa2048_pkcs1.5", "rsa2048_pss", "ecdsap256"}, r.Intn(3), false)...)})
	case 11:
		return name("compress_certificate", member{"algorithms", jstrs(rn.pick([]string{"zlib", "brotli", "zstd"}, 1+r.Intn(2), false)...)})
	case 12:
		return name("record_size_limit", member{"record_size_limit", jint(r.Intn(65536))})
	case 13:
		return name([]string{"delegated_credentials", "delegated_credential"}[r.Intn(2)], member{"supported_signature_algorithms", jstrs(rn.pick(sigs, 1+r.Intn(3), false)...)})
	case 14:
		return name("session_ticket")
	case 15:
		var ids, bs []*jv
		for k := r.Intn(3); k > 0; k-- {
			ids = append(ids, jobj(member{"identity", jb64(raw(r.Intn(9)))}, member{"obfuscated_ticket_age", jint(r.Intn(1 << 31))}))
			bs = append(bs, jb64(raw([]int{32, 48, 5}[r.Intn(3)])))
		}
		return name("pre_shared_key", member{"identities", jarr(ids...)}, member{"binders", jarr(bs...)})
	case 16:
		return name("supported_versions", member{"versions", jstrs(rn.pick([]string{"TLS 1.3", "TLS 1.2", "TLS 1.1", "TLS 1.0"}, 1+r.Intn(3), true)...)})
	case 17:
		return name("psk_key_exchange_modes", member{"ke_modes", jstrs(rn.pick([]string{"psk_dhe_ke", "psk_ke"}, 1+r.Intn(2), false)...)})
	case 18:
		return name("signature_algorithms_cert", member{"supported_signature_algorithms", jstrs(rn.pick(sigs, 1+r.Intn(3), true)...)})
	case 19:
		var shares []*jv
		for k := 1 + r.Intn(3); k > 0; k-- {
			ke := jb64(raw(r.Intn(6)))
			if r.Intn(3) == 0 { // []uint8 also accepts an array of numbers
				ke = jarr(jint(r.Intn(256)), jint(r.Intn(256)))
			}
			shares = append(shares, jobj(member{"group", jstr(rn.pick(groups, 1, true)[0])}, member{"key_exchange", ke}))
		}
		return name("key_share", member{"client_shares", jarr(shares...)})
	case 20:
		return name("renegotiation_info")
	case 21:
		return name("next_protocol_negotiation")
	case 22:
		return name([]string{"application_settings", "application_settings_new"}[r.Intn(2)], member{"supported_protocols", jstrs("h2")})
	case 23:
		return name([]string{"channel_id", "channel_id_old"}[r.Intn(2)])
	case 24, 25:
		id := 0
		if r.Intn(3) != 0 {
			id = int([]uint16{0x0a0a, 0x3a3a, 0xfafa, 0x1234}[r.Intn(4)])
		}
		return name("GREASE", member{"id", jint(id)}, member{"data", jb64(raw(r.Intn(4)))},
			member{"keep_id", jbool(r.Intn(2) == 0)}, member{"keep_data", jbool(r.Intn(2) == 0)})
	case 26:
		return name([]string{"quic_transport_parameters", "cookie", "early_data", "heartbeat"}[r.Intn(4)]) // not JSON compatible / nil
	case 27:
		return name([]string{"bogus", "", "Server_Name", "grease"}[r.Intn(4)])
	}
	return name("extended_master_secret")
}

func (rn *runner) baseDoc() *jv {
	r := rn.r
	suites := namesOf16(dicttls.DictCipherSuiteValueIndexed, 0x1301, 0x1302, 0x1303, 0xc02b, 0xc02f, 0xcca9, 0x009c, 0x002f)
	var exts []*jv
	for k := r.Intn(7); k > 0; k-- {
		exts = append(exts, rn.extDoc())
	}
	m := []member{
		{"cipher_suites", jstrs(rn.pick(suites, 1+r.Intn(5), true)...)},
		{"compression_methods", jstrs("NULL")},
		{"extensions", jarr(exts...)},
	}
	if r.Intn(3) == 0 {
		m = append(m, member{"min_vers", jint([]int{0, 769, 771}[r.Intn(3)])}, member{"max_vers", jint([]int{771, 772, 65535}[r.Intn(3)])})
	}
	r.Shuffle(len(m), func(i, j int) { m[i], m[j] = m[j], m[i] })
	return jobj(m...)
}

func (rn *runner) illTyped() *jv {
	switch rn.r.Intn(9) {
	case 0:
		return jnull()
	case 1:
		return jint(5)
	case 2:
		return jstr("x")
	case 3:
		return jobj()
	case 4:
		return jarr(jnull())
	case 5:
		return jarr(jint(1), jstr("NULL"))
	case 6:
		return jbool(true)
	case 7:
		return jnum([]string{"-1", "1.5", "1e2", "65536", "256", "4294967296", "18446744073709551616"}[rn.r.Intn(7)])
	}
	return jarr()
}

// mutateDoc changes one place of a document; returns what it did.
func (rn *runner) mutateDoc(d *jv) string {
	r := rn.r
	top := []string{"cipher_suites", "compression_methods", "extensions"}
	idx := func(k string) int {
		for i, m := range d.obj {
			if m.k == k {
				return i
			}
		}
		return -1
	}
	switch r.Intn(10) {
	case 0: // member missing
		k := top[r.Intn(3)]
		if i := idx(k); i >= 0 {
			d.obj = append(d.obj[:i], d.obj[i+1:]...)
		}
		return "missing:" + k
	case 1: // member null
		k := top[r.Intn(3)]
		if i := idx(k); i >= 0 {
			d.obj[i].v = jnull()
		}
		return "null:" + k
	case 2: // member ill-typed
		k := append(top, "min_vers", "max_vers")[r.Intn(5)]
		v := rn.illTyped()
		if i := idx(k); i >= 0 {
			d.obj[i].v = v
		} else {
			d.obj = append(d.obj, member{k, v})
		}
		return "ill-typed:" + k
	case 3: // member repeated (null / value after a value)
		k := top[r.Intn(3)]
		if i := idx(k); i >= 0 {
			v := d.obj[i].v.clone()
			if r.Intn(2) == 0 {
				v = jnull()
			}
			d.obj = append(d.obj, member{k, v})
		}
		return "repeated:" + k
	case 4: // case-folded member name
		k := top[r.Intn(3)]
		if i := idx(k); i >= 0 {
			d.obj[i].k = strings.ToUpper(k[:1]) + k[1:]
		}
		return "case:" + k
	case 5, 6, 7: // inside one extension object
		if i := idx("extensions"); i >= 0 && d.obj[i].v.kind == 4 && len(d.obj[i].v.arr) > 0 {
			a := d.obj[i].v.arr
			e := a[r.Intn(len(a))]
			if e.kind != 5 || len(e.obj) == 0 {
				return "ext:none"
			}
			j := r.Intn(len(e.obj))
			switch r.Intn(4) {
			case 0:
				e.obj[j].v = rn.illTyped()
				return "ext:ill-typed-member"
			case 1:
				e.obj = append(e.obj[:j], e.obj[j+1:]...)
				return "ext:missing-member"
			case 2:
				if e.obj[j].v.kind == 4 {
					e.obj[j].v.arr = append(e.obj[j].v.arr, []*jv{jnull(), jstr("bogus-name"), jint(3), jstr("GREASE"), jstr("SSL 3.0")}[r.Intn(5)])
					return "ext:odd-element"
				}
				e.obj[j].v = jnull()
				return "ext:null-member"
			}
			a[r.Intn(len(a))] = rn.illTyped()
			return "ext:ill-typed-extension"
		}
		return "ext:none"
	case 8: // unknown name in a top-level list
		k := top[r.Intn(2)]
		if i := idx(k); i >= 0 && d.obj[i].v.kind == 4 {
			d.obj[i].v.arr = append(d.obj[i].v.arr, []*jv{jstr("TLS_BOGUS"), jnull(), jstr("GREASE"), jstr("DEFLATE")}[r.Intn(4)])
		}
		return "odd-name:" + k
	}
	d.obj = append(d.obj, member{"comment", rn.illTyped()})
	return "unknown-member"
}

func (rn *runner) jsonCase(kind, key string, d *jv, always bool) {
	var js, cq strings.Builder
	d.json(&js)
	d.coq(&cq)
	doc := js.String()
	var spec *tls.ClientHelloSpec
	var err error
	fp := &tls.Fingerprinter{AlwaysAddPadding: always}
	p, pv := vh.Recover(func() { spec, err = fp.UnmarshalJSONClientHello([]byte(doc)) })
	obs := ""
	switch {
	case p:
		obs = "SPanic"
		rn.c.Count("fail:panic")
		rn.c.Fail("UnmarshalJSON/"+panicKind(pv), "ClientHelloSpec.UnmarshalJSON panicked", map[string]any{"doc": clip(doc, 800)},
			fmt.Sprint(pv), "a spec or an error")
	case err != nil:
		obs = "SErr"
	default:
		t, ok := specTerm(spec, true)
		if !ok {
			rn.c.Count("json:unrenderable")
			return
		}
		obs = t
		what := "json"
		if !specShapeValid(spec) {
			what = "raw-invalid-shape" // repeated extension type or pre_shared_key not last: not a valid hello
		}
		rn.usable(what, key, func() *tls.ClientHelloSpec {
			s, _ := (&tls.Fingerprinter{AlwaysAddPadding: always}).UnmarshalJSONClientHello([]byte(doc))
			return s
		}, map[string]any{"doc": clip(doc, 800)})
	}
	// the direct method must agree with the Fingerprinter wrapper on panics
	direct := &tls.ClientHelloSpec{}
	if p2, pv2 := vh.Recover(func() { direct.UnmarshalJSON([]byte(doc)) }); p2 && !p {
		rn.c.Count("fail:panic")
		rn.c.Fail("UnmarshalJSON/"+panicKind(pv2), "ClientHelloSpec.UnmarshalJSON panicked (direct call)", map[string]any{"doc": clip(doc, 800)},
			fmt.Sprint(pv2), "a spec or an error")
	}
	rn.c.Count("json:" + strings.SplitN(kind, ":", 2)[0])
	rn.c.Case("json", fmt.Sprintf("CJson %s %s %s", vh.Bool(always), cq.String(), obs), key, obs != "SErr" || kind != "valid",
		map[string]any{"kind": kind, "doc": clip(doc, 300), "obs": clip(obs, 200)})
}

func (rn *runner) jsonSuite(n int) {
	// the witnesses of F-07b and other whole-document shapes
	full := func() *jv {
		return jobj(member{"cipher_suites", jstrs("GREASE", "TLS_AES_128_GCM_SHA256")}, member{"compression_methods", jstrs("NULL")},
			member{"extensions", jarr(jobj(member{"name", jstr("extended_master_secret")}))})
	}
	drop := func(k string) *jv {
		d := full()
		for i, m := range d.obj {
			if m.k == k {
				d.obj = append(d.obj[:i], d.obj[i+1:]...)
				break
			}
		}
		return d
	}
	corpus := []*jv{jnull(), jobj(), drop("cipher_suites"), drop("compression_methods"), drop("extensions"), full(),
		jarr(), jint(5), jstr("x"), jbool(false),
		jobj(member{"cipher_suites", jnull()}, member{"compression_methods", jnull()}, member{"extensions", jnull()})}
	for i, d := range corpus {
		rn.jsonCase("corpus", fmt.Sprintf("json/corpus/%d", i), d, i%2 == 1)
	}
	for i := 0; i < n; i++ {
		d := rn.baseDoc()
		what := "valid"
		if i%4 != 0 {
			what = rn.mutateDoc(d)
			if rn.r.Intn(4) == 0 {
				what += "+" + rn.mutateDoc(d)
			}
		}
		rn.jsonCase(what, fmt.Sprintf("json/%d", i), d, i%3 == 0)
	}
	// syntactically broken text: Go-side oracle only
	for i, doc := range []string{``, `{`, `{"cipher_suites":`, `{"cipher_suites":["GREASE"],}`, "\x00", `{"extensions":[{"name":"padding","len":1e400}]}`} {
		s := &tls.ClientHelloSpec{}
		if p, pv := vh.Recover(func() { s.UnmarshalJSON([]byte(doc)) }); p {
			rn.c.Count("fail:panic")
			rn.c.Fail("UnmarshalJSON/"+panicKind(pv), "ClientHelloSpec.UnmarshalJSON panicked on malformed text", map[string]any{"doc": doc, "i": i},
				fmt.Sprint(pv), "an error")
		}
		rn.c.Count("json-malformed")
	}
}

// specShapeValid: no extension type twice and a pre_shared_key extension, when present, last.
func specShapeValid(s *tls.ClientHelloSpec) bool {
	seen := map[string]bool{}
	for i, e := range s.Extensions {
		t := fmt.Sprintf("%T", e)
		if g, ok := e.(*tls.GenericExtension); ok {
			t += fmt.Sprint(g.Id)
		}
		if seen[t] {
			return false
		}
		seen[t] = true
		if _, ok := e.(tls.PreSharedKeyExtension); ok && i != len(s.Extensions)-1 {
			return false
		}
	}
	return true
}

package main

import (
	"encoding/base64"
	"encoding/json"
	"fmt"
	"strings"

	tls "github.com/refraction-networking/utls"
	"verif/harness/vh"
)

// importMap: the decoded tlsfingerprint.io map; a nil entry is an absent key.
type importMap map[string][]byte

var importKeys = []string{"cipher_suites", "compression_methods", "extensions", "pt_fmts", "sig_algs", "supported_versions",
	"curves", "alpn", "key_share", "psk_key_exchange_modes", "cert_compression_algs", "record_size_limit"}

func optBytes(b []byte) string {
	if b == nil {
		return "None"
	}
	return "(Some " + vh.Bytes(b) + ")"
}

func imapTerm(m importMap) string {
	var sb strings.Builder
	sb.WriteString("{| ")
	for _, k := range importKeys {
		fmt.Fprintf(&sb, "im_%s := %s; ", k, optBytes(m[k]))
		if k == "key_share" {
			fmt.Fprintf(&sb, "im_key_share_cap := %d; ", cap(m[k]))
		}
	}
	s := strings.TrimSuffix(sb.String(), "; ")
	return s + " |}"
}

func u16b(vs ...uint16) []byte {
	var b []byte
	for _, v := range vs {
		b = append(b, byte(v>>8), byte(v))
	}
	return b
}

func exact(b []byte) []byte { // len == cap
	out := make([]byte, len(b))
	copy(out, b)
	return out
}

func (rn *runner) baseMap() importMap {
	r := rn.r
	pool := []uint16{0, 5, 10, 11, 13, 16, 17, 18, 21, 23, 24, 27, 28, 34, 35, 41, 43, 45, 50, 51, 13172, 17513, 17613,
		30031, 30032, 0xfe0d, 0xff01, 0x0a0a, 0x3a3a}
	var ids []uint16
	for k := 2 + r.Intn(9); k > 0; k-- {
		ids = append(ids, pool[r.Intn(len(pool))])
	}
	if r.Intn(6) == 0 {
		ids = append(ids, []uint16{57, 44, 99}[r.Intn(3)]) // no writer / unknown
	}
	if r.Intn(2) == 0 {
		ids = append(ids, 51)
	}
	r.Shuffle(len(ids), func(i, j int) { ids[i], ids[j] = ids[j], ids[i] })
	return importMap{
		"cipher_suites":          exact(u16b(0x0a0a, 0x1301, 0x1302, 0xc02b)),
		"compression_methods":    {0},
		"extensions":             exact(u16b(ids...)),
		"pt_fmts":                {1, 0},
		"sig_algs":               exact(append([]byte{0, 6}, u16b(0x0403, 0x0804, 0x0401)...)),
		"supported_versions":     exact(u16b(0x0a0a, 0x0304, 0x0303)),
		"curves":                 exact(append([]byte{0, 6}, u16b(0x0a0a, 29, 23)...)),
		"alpn":                   {0, 12, 2, 'h', '2', 8, 'h', 't', 't', 'p', '/', '1', '.', '1'},
		"key_share":              exact(u16b(0x0a0a, 1, 29, 32)),
		"psk_key_exchange_modes": {1},
		"cert_compression_algs":  {0, 2},
		"record_size_limit":      {64, 1},
	}
}

func (rn *runner) mutateMap(m importMap) string {
	r := rn.r
	switch r.Intn(8) {
	case 0:
		k := importKeys[r.Intn(len(importKeys))]
		delete(m, k)
		return "missing:" + k
	case 1:
		k := importKeys[r.Intn(len(importKeys))]
		m[k] = []byte{}
		return "empty:" + k
	case 2:
		k := []string{"cipher_suites", "extensions"}[r.Intn(2)]
		m[k] = append(exact(m[k]), byte(r.Intn(256)))
		return "odd:" + k
	case 3, 4: // the key_share loop: lengths 1..9, with and without spare capacity
		n := 1 + r.Intn(9)
		spare := []int{0, 0, 1, 5}[r.Intn(4)]
		b := make([]byte, n, n+spare)
		for i := range b {
			b[i] = byte(r.Intn(40))
		}
		m["key_share"] = b
		if !has51(m) {
			m["extensions"] = append(exact(m["extensions"]), 0, 51)
		}
		return fmt.Sprintf("key_share:len%d", n)
	case 5:
		k := importKeys[3+r.Intn(len(importKeys)-3)]
		b := make([]byte, r.Intn(8))
		r.Read(b)
		m[k] = b
		return "random:" + k
	case 6:
		k := importKeys[3+r.Intn(len(importKeys)-3)]
		if len(m[k]) > 0 {
			m[k] = exact(m[k][:len(m[k])-1])
		}
		return "short:" + k
	}
	return "valid"
}

func has51(m importMap) bool {
	e := m["extensions"]
	for i := 0; i+1 < len(e); i += 2 {
		if e[i] == 0 && e[i+1] == 51 {
			return true
		}
	}
	return false
}

func copyMap(m importMap) map[string][]byte {
	out := map[string][]byte{}
	for k, v := range m {
		if v == nil {
			continue
		}
		c := make([]byte, len(v), cap(v)) // keep the capacity: it decides which expression panics
		copy(c, v)
		out[k] = c
	}
	return out
}

func (rn *runner) importCase(kind, key string, m importMap) {
	vmin, vmax := uint16(0), uint16(0)
	if rn.r.Intn(2) == 0 {
		vmin, vmax = tls.VersionTLS10, tls.VersionTLS12
	}
	spec := &tls.ClientHelloSpec{TLSVersMin: vmin, TLSVersMax: vmax}
	var err error
	term := imapTerm(m)
	p, pv := vh.Recover(func() { err = spec.ImportTLSClientHello(copyMap(m)) })
	obs := ""
	switch {
	case p:
		obs = "SPanic"
		rn.c.Count("fail:panic")
		rn.c.Fail("ImportTLSClientHello/"+panicKind(pv), "ImportTLSClientHello panicked", map[string]any{"map": clip(term, 600)},
			fmt.Sprint(pv), "a spec or an error")
	case err != nil:
		obs = "SErr"
	default:
		t, ok := specTerm(spec, true)
		if !ok {
			rn.c.Count("import:unrenderable")
			return
		}
		obs = t
	}
	rn.c.Count("import:" + strings.SplitN(kind, ":", 2)[0])
	rn.c.Case("import", fmt.Sprintf("CImport %d %d %s %s", vmin, vmax, term, obs), key, obs != "SErr" || strings.HasPrefix(kind, "key_share"),
		map[string]any{"kind": kind, "obs": clip(obs, 200)})
}

func (rn *runner) importSuite(n int) {
	// the witness of the property text (F-07a): key_share of 3 bytes, with and without spare capacity
	for i, ks := range [][]byte{{0, 29, 0}, make([]byte, 3, 8), {0, 29, 0, 32, 0}, {7}, {10, 10, 0, 1}} {
		m := rn.baseMap()
		m["extensions"] = u16b(0, 51)
		m["key_share"] = ks
		rn.importCase("key_share:corpus", fmt.Sprintf("import/corpus/%d", i), m)
	}
	// ... and through the JSON entry point (base64 values), Go-side oracle only
	for i, doc := range []string{
		`{"cipher_suites":"EwE=","compression_methods":"AA==","extensions":"ADM=","key_share":"AB0A"}`,
		`{"cipher_suites":"EwE=","compression_methods":"AA==","extensions":"ADM=","key_share":"AB0AIA=="}`,
		`{"cipher_suites":"EwE=","compression_methods":null,"extensions":"ADM="}`,
		`null`, `{}`, `[]`, `{"cipher_suites":5}`,
	} {
		spec := &tls.ClientHelloSpec{}
		if p, pv := vh.Recover(func() { spec.ImportTLSClientHelloFromJSON([]byte(doc)) }); p {
			rn.c.Count("fail:panic")
			rn.c.Fail("ImportTLSClientHelloFromJSON/"+panicKind(pv), "ImportTLSClientHelloFromJSON panicked",
				map[string]any{"doc": doc, "i": i}, fmt.Sprint(pv), "a spec or an error")
		}
		rn.c.Count("import-json")
	}
	for i := 0; i < n; i++ {
		m := rn.baseMap()
		what := "valid"
		if i%5 != 0 {
			what = rn.mutateMap(m)
			if rn.r.Intn(3) == 0 {
				what += "+" + rn.mutateMap(m)
			}
		}
		rn.importCase(what, fmt.Sprintf("import/%d", i), m)
		if i%4 == 0 { // the same map through the JSON entry point
			doc := map[string]string{}
			for k, v := range m {
				if v != nil {
					doc[k] = base64.StdEncoding.EncodeToString(v)
				}
			}
			jb, _ := json.Marshal(doc)
			spec := &tls.ClientHelloSpec{}
			if p, pv := vh.Recover(func() { spec.ImportTLSClientHelloFromJSON(jb) }); p {
				rn.c.Count("fail:panic")
				rn.c.Fail("ImportTLSClientHelloFromJSON/"+panicKind(pv), "ImportTLSClientHelloFromJSON panicked",
					map[string]any{"doc": string(jb)}, fmt.Sprint(pv), "a spec or an error")
			}
			rn.c.Count("import-json")
		}
	}
}

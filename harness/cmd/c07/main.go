// Runner for C07 (spec importers never panic; valid captures yield usable specs).
//
//	raw:    generated ClientHello records (structured generator over every extension type with a
//	        Write method, all parrots), field-wise mutations (length fields +-1, truncated prefixes,
//	        flipped bytes, trailing bytes, unknown extensions) and raw random bytes
//	        -> Fingerprinter{flags}.FingerprintClientHello under recover()            (CRaw)
//	import: tlsfingerprint.io maps with missing keys, odd lengths, key_share lengths 1..7 with and
//	        without spare capacity -> ClientHelloSpec.ImportTLSClientHello              (CImport)
//	json:   JSON documents in the format of testdata/ClientHello-JSON-*.json with missing / null /
//	        ill-typed / repeated members -> Fingerprinter.UnmarshalJSONClientHello      (CJson)
//	write:  ExtensionFromID(id).Write(body) on random and structured bodies (Go-side oracle only;
//	        the correspondence of Write is C08's)
//
// Go-side oracle (from the property text, no model): any panic is a failure keyed
// `<importer>/<panic kind>`; every spec an importer returns for a raw hello must survive
// ApplyPreset + BuildHandshakeState on a dummy connection without panicking (`usable/<kind>`).
package main

import (
	"encoding/binary"
	"fmt"
	"io"
	"math/rand"
	"net"
	"reflect"
	"strings"
	"time"

	tls "github.com/refraction-networking/utls"
	"verif/harness/extcoq"
	"verif/harness/vh"
)

func main() { vh.Main(map[string]vh.Suite{"C07": {Corr: "Corr.C07Corr", Run: run}}) }

type nullConn struct{}

func (nullConn) Read(b []byte) (int, error)         { return 0, io.EOF }
func (nullConn) Write(b []byte) (int, error)        { return len(b), nil }
func (nullConn) Close() error                       { return nil }
func (nullConn) LocalAddr() net.Addr                { return &net.TCPAddr{} }
func (nullConn) RemoteAddr() net.Addr               { return &net.TCPAddr{} }
func (nullConn) SetDeadline(t time.Time) error      { return nil }
func (nullConn) SetReadDeadline(t time.Time) error  { return nil }
func (nullConn) SetWriteDeadline(t time.Time) error { return nil }

// panicKind: stable class of a recovered panic value.
func panicKind(v any) string {
	s := fmt.Sprint(v)
	switch {
	case strings.Contains(s, "slice bounds out of range"):
		return "slice-bounds"
	case strings.Contains(s, "index out of range"):
		return "index-out-of-range"
	case strings.Contains(s, "nil pointer dereference"):
		return "nil-dereference"
	case strings.Contains(s, "makeslice"):
		return "makeslice"
	case strings.Contains(s, "interface conversion"):
		return "interface-conversion"
	}
	return "panic"
}

func clip(s string, n int) string {
	if len(s) > n {
		return s[:n] + "..."
	}
	return s
}

// ---- rendering a returned spec as the SOk term ----

// importMode: the importer may leave a GREASE ECH extension un-initialised (no Write, no init());
// ExtTerm would run init() (random choices), so it is rendered with empty fields here.
func specTerm(s *tls.ClientHelloSpec, importMode bool) (string, bool) {
	exts := make([]string, len(s.Extensions))
	pad0 := "None"
	for i, e := range s.Extensions {
		if g, ok := e.(*tls.GREASEEncryptedClientHelloExtension); ok && importMode &&
			len(g.EncapsulatedKey) == 0 && len(g.CandidateCipherSuites) == 0 && len(g.CandidatePayloadLens) == 0 {
			exts[i] = "(EGREASEECH 0 0 0 [] [])"
			continue
		}
		t, ok := extcoq.ExtTerm(e)
		if !ok {
			return "", false
		}
		exts[i] = t
		if p, ok := e.(*tls.UtlsPaddingExtension); ok && pad0 == "None" && strings.HasSuffix(t, "PadOther)") {
			l, w := p.GetPaddingLen(0)
			if l < 0 {
				return "", false
			}
			pad0 = fmt.Sprintf("(Some (%d, %s))", l, vh.Bool(w))
		}
	}
	return fmt.Sprintf("(SOk %s %s %s %d %d %s)", vh.U16s(s.CipherSuites), vh.Bytes(s.CompressionMethods),
		vh.List(exts), s.TLSVersMin, s.TLSVersMax, pad0), true
}

type runner struct {
	c           *vh.Ctx
	r           *rand.Rand
	validBodies map[uint16][][]byte // per extension id: bodies the type's own Read produced (a few)
	reported    map[string]int
}

// usable: ApplyPreset + BuildHandshakeState of the returned spec must not panic.
func (rn *runner) usable(what, key string, mk func() *tls.ClientHelloSpec, input any) {
	spec := mk()
	if spec == nil {
		return
	}
	var aerr, berr error
	p, pv := vh.Recover(func() {
		uc := tls.UClient(nullConn{}, &tls.Config{ServerName: "c07.example.com", InsecureSkipVerify: true}, tls.HelloCustom)
		if aerr = uc.ApplyPreset(spec); aerr != nil {
			return
		}
		berr = uc.BuildHandshakeState()
	})
	rn.c.Count("usable:" + what)
	if p && what == "raw-invalid-shape" {
		rn.c.Count("usable:invalid-shape-panic:" + clip(fmt.Sprint(pv), 60))
		return
	}
	if p {
		rn.c.Count("fail:usable")
		rn.c.Fail("usable/"+panicKind(pv), "ApplyPreset + BuildHandshakeState panicked on a spec the importer returned ("+key+")",
			input, fmt.Sprint(pv), "no panic")
		return
	}
	if aerr != nil {
		rn.c.Count("usable:apply-error")
	} else if berr != nil {
		rn.c.Count("usable:build-error")
	}
}

// ---------------------------------------------------------------- raw hellos

type flags struct{ blunt, always, real bool }

func (f flags) String() string { return fmt.Sprintf("b%vp%vr%v", f.blunt, f.always, f.real) }

func allFlags() []flags {
	var out []flags
	for i := 0; i < 8; i++ {
		out = append(out, flags{i&1 != 0, i&2 != 0, i&4 != 0})
	}
	return out
}

func (rn *runner) fingerprint(f flags, raw []byte) (obs string, spec *tls.ClientHelloSpec, panicked bool) {
	var err error
	fp := &tls.Fingerprinter{AllowBluntMimicry: f.blunt, AlwaysAddPadding: f.always, RealPSKResumption: f.real}
	in := append([]byte{}, raw...)
	p, pv := vh.Recover(func() { spec, err = fp.FingerprintClientHello(in) })
	switch {
	case p:
		rn.fail("FingerprintClientHello/"+panicKind(pv), "FingerprintClientHello panicked",
			map[string]any{"flags": f.String(), "raw_hex": vh.Hex(raw)}, fmt.Sprint(pv), "a spec or an error")
		return "SPanic", nil, true
	case err != nil:
		return "SErr", nil, false
	}
	t, ok := specTerm(spec, false)
	if !ok {
		return "", spec, false
	}
	return t, spec, false
}

// rawCase: one input under one flag set; toCoq = also a correspondence case.
func (rn *runner) rawCase(kind, key string, f flags, raw []byte, toCoq bool) {
	obs, spec, _ := rn.fingerprint(f, raw)
	rn.c.Count("raw:" + kind)
	if spec != nil {
		rn.c.Count("raw-ok:" + kind)
		what := "raw"
		if !shapeValid(raw) {
			// accepted, but not a valid ClientHello (repeated extension type, or pre_shared_key not last):
			// the usability clause does not speak about it; panics there are only counted
			what = "raw-invalid-shape"
		}
		rn.usable(what, key, func() *tls.ClientHelloSpec {
			s, _ := (&tls.Fingerprinter{AllowBluntMimicry: f.blunt, AlwaysAddPadding: f.always, RealPSKResumption: f.real}).FingerprintClientHello(append([]byte{}, raw...))
			return s
		}, map[string]any{"flags": f.String(), "raw_hex": vh.Hex(raw)})
	}
	if !toCoq || obs == "" {
		return
	}
	nontrivial := spec != nil && len(spec.Extensions) > 0 || (obs == "SErr" && len(raw) > 43)
	rn.c.Case(kind, fmt.Sprintf("CRaw %s %s %s %s %s", vh.Bool(f.blunt), vh.Bool(f.always), vh.Bool(f.real), packed(raw), obs),
		key+"/"+f.String(), nontrivial, map[string]any{"kind": kind, "len": len(raw), "flags": f.String(), "obs": clip(obs, 200)})
}

// hello: a generated ClientHello record with the offsets of its length fields.
type hello struct {
	raw     []byte
	lenOffs []int // offsets of 1- or 2-byte length fields (first byte)
	bounds  []int // structural boundaries (for truncation)
}

// ids ExtensionFromID knows and whose type has Write, as produced by extcoq.Generators
var writerTypes = map[string]bool{
	"SNIExtension": true, "StatusRequestExtension": true, "StatusRequestV2Extension": true, "SupportedCurvesExtension": true,
	"SupportedPointsExtension": true, "SignatureAlgorithmsExtension": true, "SignatureAlgorithmsCertExtension": true,
	"ALPNExtension": true, "ApplicationSettingsExtension": true, "ApplicationSettingsExtensionNew": true, "SCTExtension": true,
	"ExtendedMasterSecretExtension": true, "UtlsGREASEExtension": true, "UtlsPaddingExtension": true,
	"UtlsCompressCertExtension": true, "KeyShareExtension": true, "PSKKeyExchangeModesExtension": true,
	"SupportedVersionsExtension": true, "NPNExtension": true, "RenegotiationInfoExtension": true,
	"FakeChannelIDExtension": true, "FakeRecordSizeLimitExtension": true, "FakeTokenBindingExtension": true,
	"FakeDelegatedCredentialsExtension": true, "SessionTicketExtension": true, "FakePreSharedKeyExtension": true,
	"GREASEEncryptedClientHelloExtension": true,
	// no Write / not in ExtensionFromID: exercise the "unsupported" and blunt-mimicry branches
	"GenericExtension": true, "QUICTransportParametersExtension": true, "CookieExtension": true,
}

func (rn *runner) extBytes(maxSize int) []byte {
	gens := extcoq.Generators()
	for try := 0; try < 20; try++ {
		g := gens[rn.r.Intn(len(gens))]
		if !writerTypes[g.Name] {
			continue
		}
		e := g.Make(rn.r, rn.r.Intn(maxSize+1))
		if p, ok := e.(*tls.UtlsPaddingExtension); ok {
			p.WillPad = true
			p.PaddingLen = rn.r.Intn(12)
		}
		var b []byte
		p, _ := vh.Recover(func() {
			n := e.Len()
			if n < 4 || n > 120 {
				return
			}
			buf := make([]byte, n)
			if k, err := e.Read(buf); (err == nil || err == io.EOF) && k == n {
				b = buf
			}
		})
		if !p && b != nil {
			id := binary.BigEndian.Uint16(b)
			if len(rn.validBodies[id]) < 3 {
				rn.validBodies[id] = append(rn.validBodies[id], append([]byte{}, b[4:]...))
			}
			return b
		}
	}
	return []byte{0, 23, 0, 0}
}

func (rn *runner) genHello(nExt int) hello {
	r := rn.r
	var h hello
	b := []byte{22, 3, 1, 0, 0, 1, 0, 0, 0}
	b = append(b, 3, byte(1+r.Intn(3)))
	rnd := make([]byte, 32)
	r.Read(rnd)
	b = append(b, rnd...)
	h.bounds = append(h.bounds, 5, 9, 11, len(b))
	h.lenOffs = append(h.lenOffs, len(b))
	sid := 0
	if r.Intn(2) == 0 {
		sid = []int{1, 8, 32}[r.Intn(3)]
	}
	b = append(b, byte(sid))
	b = append(b, make([]byte, sid)...)
	h.bounds = append(h.bounds, len(b))
	ns := 1 + r.Intn(5)
	h.lenOffs = append(h.lenOffs, len(b))
	b = append(b, byte(ns*2>>8), byte(ns*2))
	for i := 0; i < ns; i++ {
		v := uint16(r.Intn(65536))
		if r.Intn(4) == 0 {
			v = extcoq.GreaseValue(r)
		}
		b = append(b, byte(v>>8), byte(v))
	}
	h.bounds = append(h.bounds, len(b))
	h.lenOffs = append(h.lenOffs, len(b))
	b = append(b, 1, 0)
	h.bounds = append(h.bounds, len(b))
	if nExt >= 0 {
		var ex []byte
		var offs []int
		// a valid hello: no extension type twice, pre_shared_key last
		seen := map[uint16]bool{}
		var parts [][]byte
		var psk []byte
		for i := 0; i < nExt; i++ {
			var e []byte
			switch r.Intn(12) {
			case 0: // unknown id
				body := make([]byte, r.Intn(6))
				r.Read(body)
				id := uint16(100 + r.Intn(1000))
				e = append([]byte{byte(id >> 8), byte(id), 0, byte(len(body))}, body...)
			default:
				e = rn.extBytes(6)
			}
			id := binary.BigEndian.Uint16(e)
			if seen[id] {
				continue
			}
			seen[id] = true
			if id == 41 {
				psk = e
			} else {
				parts = append(parts, e)
			}
		}
		if psk != nil {
			parts = append(parts, psk)
		}
		for _, e := range parts {
			offs = append(offs, len(ex)+2)
			ex = append(ex, e...)
		}
		h.lenOffs = append(h.lenOffs, len(b))
		base := len(b) + 2
		b = append(b, byte(len(ex)>>8), byte(len(ex)))
		for _, o := range offs {
			h.lenOffs = append(h.lenOffs, base+o)
			h.bounds = append(h.bounds, base+o-2, base+o+2)
		}
		b = append(b, ex...)
	}
	binary.BigEndian.PutUint16(b[3:5], uint16(len(b)-5))
	b[6], b[7], b[8] = byte((len(b)-9)>>16), byte((len(b)-9)>>8), byte(len(b)-9)
	h.raw = b
	h.bounds = append(h.bounds, len(b))
	return h
}

func (rn *runner) mutate(h hello) ([]byte, string) {
	r := rn.r
	b := append([]byte{}, h.raw...)
	switch r.Intn(13) {
	case 10, 11, 12:
		return rn.identMutate(b), "ident-sweep"
	case 7:
		return reorderExts(b, r), "reorder-or-repeat"
	case 8, 9:
		return shrinkExt(b, r), "shrink-ext-body"
	case 0:
		return b[:r.Intn(len(b)+1)], "truncate"
	case 1:
		return b[:h.bounds[r.Intn(len(h.bounds))]], "truncate-boundary"
	case 2:
		o := h.lenOffs[r.Intn(len(h.lenOffs))]
		if o+1 < len(b) && r.Intn(2) == 0 {
			o++
		}
		if o < len(b) {
			b[o] += byte(1 + 254*r.Intn(2))
		}
		return b, "length+-1"
	case 3:
		b[r.Intn(len(b))] ^= byte(1 << uint(r.Intn(8)))
		return b, "bitflip"
	case 4:
		t := make([]byte, 1+r.Intn(4))
		r.Read(t)
		return append(b, t...), "trailing"
	case 5:
		if len(b) > 0 {
			b[[]int{0, 5}[r.Intn(2)]] = byte(r.Intn(256))
		}
		return b, "type-byte"
	}
	o := h.lenOffs[r.Intn(len(h.lenOffs))]
	if o < len(b) {
		b[o] = byte(r.Intn(256))
	}
	return b, "length-random"
}

func parrotRecord(id tls.ClientHelloID, sni string) ([]byte, error) {
	uc := tls.UClient(nullConn{}, &tls.Config{ServerName: sni, InsecureSkipVerify: true}, id)
	var err error
	if p, pv := vh.Recover(func() { err = uc.BuildHandshakeState() }); p {
		return nil, fmt.Errorf("panic: %v", pv)
	}
	if err != nil {
		return nil, err
	}
	raw := uc.HandshakeState.Hello.Raw
	rec := []byte{22, 3, 1, byte(len(raw) >> 8), byte(len(raw))}
	return append(rec, raw...), nil
}

func (rn *runner) rawSuite(n int, thorough bool) {
	fl := allFlags()
	// 1. the witness shape of the property text and fixed corpus
	corpus := [][]byte{nil, {22}, {22, 3, 1, 0, 0}, {23, 3, 1, 0, 0, 1, 0, 0, 0, 3, 3}}
	for i, b := range corpus {
		rn.rawCase("corpus", fmt.Sprintf("corpus/%d", i), fl[i%8], b, true)
	}
	// 2. generated hellos, each valid one under two flag sets, then mutations
	for i := 0; i < n; i++ {
		nExt := rn.r.Intn(7) - 1
		h := rn.genHello(nExt)
		f := fl[i%8]
		rn.rawCase("generated", fmt.Sprintf("gen/%d", i), f, h.raw, true)
		rn.rawCase("generated", fmt.Sprintf("gen/%d", i), fl[(i+3)%8], h.raw, i%4 == 0)
		for m := 0; m < 2; m++ {
			mb, what := rn.mutate(h)
			rn.rawCase("mutated:"+what, fmt.Sprintf("gen/%d/m%d", i, m), fl[(i+m+1)%8], mb, true)
		}
	}
	// 3. raw random bytes, half of them behind a plausible record + handshake header
	for i := 0; i < n/2; i++ {
		b := make([]byte, rn.r.Intn(90))
		rn.r.Read(b)
		if i%2 == 0 && len(b) >= 11 {
			copy(b, []byte{22, 3, 1, 0, 0, 1, 0, 0, 0, 3, 3})
		}
		rn.rawCase("random", fmt.Sprintf("rand/%d", i), fl[i%8], b, true)
	}
	// 4. every parrot: Go-side oracle under three flag sets; the short ones (all, at the
	//    thorough tier) also as correspondence cases
	for _, p := range parrots() {
		rec, err := parrotRecord(p.ID, "c07.example.com")
		if err != nil {
			rn.c.Count("parrot-build-error")
			continue
		}
		toCoq := thorough || len(rec) <= 260
		rn.rawCase("parrot", "parrot/"+p.Name, flags{false, false, false}, rec, toCoq)
		rn.rawCase("parrot", "parrot/"+p.Name, flags{true, true, false}, rec, false)
		rn.rawCase("parrot", "parrot/"+p.Name, flags{false, true, true}, rec, false)
		// truncated prefixes and a mutated length inside the extensions block: oracle only
		for k := 0; k < 6; k++ {
			cut := rn.r.Intn(len(rec))
			rn.rawCase("parrot-truncated", fmt.Sprintf("parrot/%s/t%d", p.Name, k), fl[k%8], rec[:cut], false)
			mb := append([]byte{}, rec...)
			mb[43+rn.r.Intn(len(mb)-43)] ^= byte(1 << uint(rn.r.Intn(8)))
			rn.rawCase("parrot-bitflip", fmt.Sprintf("parrot/%s/f%d", p.Name, k), fl[(k+2)%8], mb, false)
		}
	}
}

// ---------------------------------------------------------------- Write

func (rn *runner) writeSuite(n int) {
	ids := []uint16{0, 5, 10, 11, 13, 16, 17, 18, 21, 23, 24, 27, 28, 34, 35, 41, 43, 45, 50, 51, 57, 13172, 17513, 17613,
		30031, 30032, 0xfe0d, 0xff01, 0x0a0a, 0xfafa, 44, 99}
	for _, id := range ids {
		for _, real := range []bool{false, true} {
			if real && id != 41 {
				continue
			}
			var bodies [][]byte
			for l := 0; l <= 5; l++ { // every short length
				b := make([]byte, l)
				rn.r.Read(b)
				bodies = append(bodies, b)
				if l >= 1 {
					z := make([]byte, l) // zero length prefixes
					bodies = append(bodies, z)
				}
			}
			for k := 0; k < 4+n/8; k++ {
				body := make([]byte, rn.r.Intn(40))
				rn.r.Read(body)
				if k%2 == 1 && len(body) >= 2 { // plausible outer vector length
					binary.BigEndian.PutUint16(body, uint16(len(body)-2))
				}
				bodies = append(bodies, body)
			}
			for _, vb := range rn.validBodies[id] { // every proper prefix of bodies Read produced
				for l := 0; l < len(vb) && l < 24; l++ {
					bodies = append(bodies, vb[:l])
				}
				bodies = append(bodies, vb)
			}
			for _, body := range bodies {
				w := extcoq.FromID(id, real)
				if w == nil {
					continue
				}
				rn.c.Count("write")
				if p, pv := vh.Recover(func() { w.Write(body) }); p {
					typ := reflect.TypeOf(w).Elem().Name()
					rn.c.Count("fail:panic")
					rn.c.Fail("Write/"+typ+"/"+panicKind(pv), "Write panicked", map[string]any{"id": id, "body_hex": vh.Hex(body)},
						fmt.Sprint(pv), "a byte count or an error")
				}
			}
		}
	}
}

func run(c *vh.Ctx) {
	rn := &runner{c: c, r: c.Rng, validBodies: map[uint16][][]byte{}, reported: map[string]int{}}
	thorough := c.Tier != "quick"
	n := c.N
	rn.seedValidBodies()
	rn.rawSuite(n, thorough)
	rn.flagMatrix()
	rn.versionSweep()
	rn.listShapes()
	rn.identSweep()
	rn.importSuite(n)
	rn.jsonSuite(n)
	rn.writeSuite(n)
}

type parrot struct {
	Name string
	ID   tls.ClientHelloID
}

// parrots (copy of harness/hs.Parrots, which needs the scripted-server hook to build): every predefined ClientHelloID of u_common.go that UTLSIdToSpec accepts
// (the *_Auto aliases point at members of this list and are omitted).
func parrots() []parrot {
	all := []parrot{
		{"Chrome_58", tls.HelloChrome_58}, {"Chrome_62", tls.HelloChrome_62}, {"Chrome_70", tls.HelloChrome_70},
		{"Chrome_72", tls.HelloChrome_72}, {"Chrome_83", tls.HelloChrome_83}, {"Chrome_87", tls.HelloChrome_87},
		{"Chrome_96", tls.HelloChrome_96}, {"Chrome_100", tls.HelloChrome_100}, {"Chrome_102", tls.HelloChrome_102},
		{"Chrome_106_Shuffle", tls.HelloChrome_106_Shuffle}, {"Chrome_100_PSK", tls.HelloChrome_100_PSK},
		{"Chrome_112_PSK_Shuf", tls.HelloChrome_112_PSK_Shuf}, {"Chrome_114_Padding_PSK_Shuf", tls.HelloChrome_114_Padding_PSK_Shuf},
		{"Chrome_115_PQ", tls.HelloChrome_115_PQ}, {"Chrome_115_PQ_PSK", tls.HelloChrome_115_PQ_PSK},
		{"Chrome_120", tls.HelloChrome_120}, {"Chrome_120_PQ", tls.HelloChrome_120_PQ}, {"Chrome_131", tls.HelloChrome_131},
		{"Chrome_133", tls.HelloChrome_133},
		{"Firefox_55", tls.HelloFirefox_55}, {"Firefox_56", tls.HelloFirefox_56}, {"Firefox_63", tls.HelloFirefox_63},
		{"Firefox_65", tls.HelloFirefox_65}, {"Firefox_99", tls.HelloFirefox_99}, {"Firefox_102", tls.HelloFirefox_102},
		{"Firefox_105", tls.HelloFirefox_105}, {"Firefox_120", tls.HelloFirefox_120},
		{"IOS_11_1", tls.HelloIOS_11_1}, {"IOS_12_1", tls.HelloIOS_12_1}, {"IOS_13", tls.HelloIOS_13}, {"IOS_14", tls.HelloIOS_14},
		{"Android_11_OkHttp", tls.HelloAndroid_11_OkHttp},
		{"Edge_85", tls.HelloEdge_85}, {"Edge_106", tls.HelloEdge_106},
		{"Safari_16_0", tls.HelloSafari_16_0},
		{"360_7_5", tls.Hello360_7_5}, {"360_11_0", tls.Hello360_11_0},
		{"QQ_11_1", tls.HelloQQ_11_1},
	}
	out := all[:0]
	for _, p := range all {
		if _, err := tls.UTLSIdToSpec(p.ID); err == nil {
			out = append(out, p)
		}
	}
	return out
}

// extList follows FromRaw's path through a record and returns the extensions (id, whole
// encoding) and the offset where the extensions vector starts; ok=false when the framing breaks.
func extList(raw []byte) (ids []uint16, encs [][]byte, start int, ok bool) {
	if len(raw) < 44 {
		return nil, nil, 0, false
	}
	p := 43
	p += 1 + int(raw[p]) // session id
	if p+2 > len(raw) {
		return nil, nil, 0, false
	}
	p += 2 + int(binary.BigEndian.Uint16(raw[p:]))
	if p+1 > len(raw) {
		return nil, nil, 0, false
	}
	p += 1 + int(raw[p])
	if p == len(raw) {
		return nil, nil, p, true
	}
	if p+2 > len(raw) {
		return nil, nil, 0, false
	}
	n := int(binary.BigEndian.Uint16(raw[p:]))
	start = p
	p += 2
	if p+n > len(raw) {
		return nil, nil, 0, false
	}
	ex := raw[p : p+n]
	for len(ex) > 0 {
		if len(ex) < 4 || 4+int(binary.BigEndian.Uint16(ex[2:])) > len(ex) {
			return nil, nil, 0, false
		}
		l := 4 + int(binary.BigEndian.Uint16(ex[2:]))
		ids = append(ids, binary.BigEndian.Uint16(ex))
		encs = append(encs, ex[:l])
		ex = ex[l:]
	}
	return ids, encs, start, true
}

// shapeValid: no extension type twice and pre_shared_key, when present, last (RFC 8446 4.2, 4.2.11).
func shapeValid(raw []byte) bool {
	ids, _, _, ok := extList(raw)
	if !ok {
		return false
	}
	seen := map[uint16]bool{}
	for i, id := range ids {
		if seen[id] || (id == 41 && i != len(ids)-1) {
			return false
		}
		seen[id] = true
	}
	return true
}

// reorderExts swaps two extensions or repeats one (lengths kept consistent).
func reorderExts(raw []byte, r *rand.Rand) []byte {
	_, encs, start, ok := extList(raw)
	if !ok || len(encs) < 1 {
		return raw
	}
	i, j := r.Intn(len(encs)), r.Intn(len(encs))
	if i == j {
		encs = append(encs, encs[i])
	} else {
		encs[i], encs[j] = encs[j], encs[i]
	}
	return withExts(raw, start, encs)
}

// rebuild a record from its prefix up to the extensions vector and a new extension list
func withExts(raw []byte, start int, encs [][]byte) []byte {
	var ex []byte
	for _, e := range encs {
		ex = append(ex, e...)
	}
	out := append([]byte{}, raw[:start]...)
	out = append(out, byte(len(ex)>>8), byte(len(ex)))
	out = append(out, ex...)
	binary.BigEndian.PutUint16(out[3:5], uint16(len(out)-5))
	out[6], out[7], out[8] = byte((len(out)-9)>>16), byte((len(out)-9)>>8), byte(len(out)-9)
	return out
}

// shrinkExt cuts the body of one extension to a random shorter length, all outer lengths consistent:
// the hello stays well-framed and only that extension's Write sees a truncated body.
func shrinkExt(raw []byte, r *rand.Rand) []byte {
	_, encs, start, ok := extList(raw)
	if !ok || len(encs) < 1 {
		return raw
	}
	i := r.Intn(len(encs))
	body := encs[i][4:]
	if len(body) == 0 {
		return raw
	}
	k := r.Intn(len(body))
	if r.Intn(3) == 0 {
		k = r.Intn(min(len(body), 3))
	}
	e := append([]byte{encs[i][0], encs[i][1], byte(k >> 8), byte(k)}, body[:k]...)
	encs[i] = e
	return withExts(raw, start, encs)
}

// packed: a byte string as `(pk len [w1;w2;...]%uint63)`, 7 bytes per primitive integer, big-endian
// (decoded by pk in Corr/C07Corr.v; list literals of single bytes dominate Coq's parsing time).
func packed(b []byte) string {
	if len(b) == 0 {
		return "[]"
	}
	var sb strings.Builder
	fmt.Fprintf(&sb, "(pk %d [", len(b))
	for i := 0; i < len(b); i += 7 {
		j := min(i+7, len(b))
		var w uint64
		for _, x := range b[i:j] {
			w = w<<8 | uint64(x)
		}
		if i > 0 {
			sb.WriteByte(';')
		}
		fmt.Fprintf(&sb, "%d", w)
	}
	sb.WriteString("]%uint63)")
	return sb.String()
}

package main

import (
	"fmt"
	"sort"
	"strings"
	"time"

	tls "github.com/refraction-networking/utls"
	"verif/harness/vh"
)

// cb: compact Coq byte string (as cmd/c34)
func cb(b []byte) string {
	if len(b) <= 10 {
		return vh.Bytes(b)
	}
	var sb strings.Builder
	sb.WriteString("(ub [")
	last := 0
	for i := 0; i < len(b); i += 7 {
		j := i + 7
		if j > len(b) {
			j = len(b)
		}
		var x uint64
		for _, y := range b[i:j] {
			x = x<<8 | uint64(y)
		}
		if i > 0 {
			sb.WriteByte(';')
		}
		fmt.Fprintf(&sb, "%d", x)
		last = j - i
	}
	fmt.Fprintf(&sb, "]%%uint63 %d%%nat)", last)
	return sb.String()
}

var goTypeCoq = map[string]string{
	"*tls.helloRequestMsg": "T_helloRequest", "*tls.clientHelloMsg": "T_clientHello", "*tls.serverHelloMsg": "T_serverHello",
	"*tls.newSessionTicketMsg": "T_newSessionTicket", "*tls.newSessionTicketMsgTLS13": "T_newSessionTicket13",
	"*tls.certificateMsg": "T_certificate", "*tls.certificateMsgTLS13": "T_certificate13",
	"*tls.certificateRequestMsg": "T_certificateRequest", "*tls.certificateRequestMsgTLS13": "T_certificateRequest13",
	"*tls.certificateStatusMsg": "T_certificateStatus", "*tls.serverKeyExchangeMsg": "T_serverKeyExchange",
	"*tls.serverHelloDoneMsg": "T_serverHelloDone", "*tls.clientKeyExchangeMsg": "T_clientKeyExchange",
	"*tls.certificateVerifyMsg": "T_certificateVerify", "*tls.finishedMsg": "T_finished", "*tls.endOfEarlyDataMsg": "T_endOfEarlyData",
	"*tls.keyUpdateMsg": "T_keyUpdate", "*tls.encryptedExtensionsMsg": "T_encryptedExtensions",
	"*tls.utlsClientEncryptedExtensionsMsg": "T_utlsClientEncryptedExtensions", "*tls.utlsCompressedCertificateMsg": "T_utlsCompressedCertificate",
}

var hungFns = map[string]bool{}

// guard runs f with recover() and a 2 s limit; a function that hung once is not called again.
func guard(c *vh.Ctx, fn, kind string, data []byte, f func()) bool {
	if hungFns[fn] {
		return false
	}
	type out struct {
		pn bool
		pv any
	}
	ch := make(chan out, 1)
	go func() {
		pn, pv := vh.Recover(f)
		ch <- out{pn, pv}
	}()
	select {
	case o := <-ch:
		if o.pn {
			c.Fail("panic/parser/"+fn+"/"+kind, fn+" panicked: "+fmt.Sprint(o.pv), vh.Hex(data), fmt.Sprint(o.pv), "true or false")
			return false
		}
		return true
	case <-time.After(2 * time.Second):
		hungFns[fn] = true
		c.Fail("hang/parser/"+fn+"/"+kind, fn+" did not return within 2 s", vh.Hex(data), "still running", "true or false")
		return false
	}
}

func hmsg(typ byte, body []byte) []byte {
	return append([]byte{typ, byte(len(body) >> 16), byte(len(body) >> 8), byte(len(body))}, body...)
}
func xt(id uint16, data []byte) []byte {
	return append([]byte{byte(id >> 8), byte(id), byte(len(data) >> 8), byte(len(data))}, data...)
}
func eeOf(exts ...[]byte) []byte {
	var e []byte
	for _, x := range exts {
		e = append(e, x...)
	}
	return hmsg(8, append([]byte{byte(len(e) >> 8), byte(len(e))}, e...))
}
func ccOf(alg uint16, ulen uint32, body []byte) []byte {
	b := []byte{byte(alg >> 8), byte(alg), byte(ulen >> 16), byte(ulen >> 8), byte(ulen), byte(len(body) >> 16), byte(len(body) >> 8), byte(len(body))}
	return hmsg(25, append(b, body...))
}

func parserCases(c *vh.Ctx) {
	rb := func(n int) []byte {
		b := make([]byte, n)
		c.Rng.Read(b)
		return b
	}
	alpn := xt(16, []byte{0, 3, 2, 'h', '2'})
	shapes := map[string][]byte{
		"ee-empty":       eeOf(),
		"ee-alpn":        eeOf(alpn),
		"ee-alps-old":    eeOf(alpn, xt(17513, rb(6))),
		"ee-alps-new":    eeOf(alpn, xt(17613, rb(9))),
		"ee-alps-both":   eeOf(xt(17613, rb(2)), alpn, xt(17513, rb(3))),
		"ee-alps-empty":  eeOf(alpn, xt(17513, nil)),
		"ee-unknown":     eeOf(xt(0x2a2a, rb(3)), alpn),
		"ee-early":       eeOf(xt(42, nil)),
		"ee-quic-ech":    eeOf(xt(57, rb(3)), xt(0xfe0d, rb(4))),
		"ee-alpn-bad":    eeOf(xt(16, []byte{0, 1, 0})),
		"cc-brotli":      ccOf(2, 300, rb(20)),
		"cc-zlib-max":    ccOf(1, 262144, rb(5)),
		"cc-16MiB":       ccOf(3, 1<<24-1, rb(1)),
		"cc-empty-body":  ccOf(2, 0, nil),
		"cc-unknown-alg": ccOf(0xfefe, 10, rb(4)),
	}
	names := make([]string, 0, len(shapes))
	for k := range shapes {
		names = append(names, k)
	}
	sort.Strings(names)
	muts := []string{"none", "truncate", "bitflip", "hs-len", "len-field", "inner-len", "append", "random", "type-swap"}
	reps := 1
	if c.Tier != "quick" {
		reps = 8
	}
	for rep := 0; rep < reps; rep++ {
		for _, name := range names {
			for _, mut := range muts {
				if mut == "none" && rep > 0 {
					continue
				}
				d := append([]byte(nil), shapes[name]...)
				switch mut {
				case "truncate":
					d = d[:c.Rng.Intn(len(d))]
				case "bitflip":
					d[c.Rng.Intn(len(d))] ^= 1 << uint(c.Rng.Intn(8))
				case "hs-len":
					d[3] += byte(1 + c.Rng.Intn(3))
				case "len-field":
					if len(d) > 5 {
						d[5] += byte(c.Rng.Intn(5)) - 2
					}
				case "inner-len":
					if len(d) > 11 {
						d[4+c.Rng.Intn(8)] = byte(c.Rng.Intn(256))
					}
				case "append":
					d = append(d, rb(1+c.Rng.Intn(3))...)
				case "random":
					d = append([]byte{d[0], 0, 0, 12}, rb(12)...)
				case "type-swap":
					d[0] = []byte{8, 25, 2, 11, 4, 20}[c.Rng.Intn(6)]
				}
				parseOne(c, d, name+"/"+mut)
			}
		}
	}
	// every type byte on a client connection, TLS 1.2 and 1.3
	for ty := 0; ty < 256; ty++ {
		for _, vers := range []uint16{0x0303, 0x0304} {
			if vers == 0x0303 && ty != 4 && ty != 11 && ty != 13 && ty != 8 && ty != 25 {
				continue
			}
			switchCase(c, vers, hmsg(byte(ty), nil), "type-sweep")
		}
	}
	// decompressCert's decisions before the buffer is allocated
	adv := [][]tls.CertCompressionAlgo{{tls.CertCompressionBrotli}, {tls.CertCompressionZlib, tls.CertCompressionBrotli, tls.CertCompressionZstd}, {}}
	z, _ := tls.VerifCompress(1, []byte("hello"))
	for ai, a := range adv {
		for _, alg := range []uint16{1, 2, 3, 4, 0xffff} {
			for _, ulen := range []uint32{0, 5, 262144, 262145, 1<<24 - 1} {
				for _, payload := range [][]byte{z, {0xde, 0xad}} {
					var r tls.VerifC21Result
					if !guard(c, "decompressCert", "grid", payload, func() { r = tls.VerifDecompressCert(a, alg, ulen, payload) }) {
						continue
					}
					et := fmt.Sprint(r.Err)
					openFail := strings.Contains(et, "failed to open")
					refused := strings.Contains(et, "unadvertised") || strings.Contains(et, "unsupported algorithm") || openFail || strings.Contains(et, "exceeds")
					var advN []string
					for _, x := range a {
						advN = append(advN, fmt.Sprint(uint16(x)))
					}
					c.Case("decompress-precheck", fmt.Sprintf("(CDecomp %s %d %d %s %s)", vh.List(advN), alg, ulen, vh.Bool(!openFail), vh.Bool(refused)),
						fmt.Sprint(ai, alg, ulen, len(payload)), !refused, nil)
				}
			}
		}
	}
}

func parseOne(c *vh.Ctx, d []byte, kind string) {
	if len(d) > 0 && d[0] == 8 || strings.HasPrefix(kind, "ee-") {
		var f tls.VerifEEFields
		if guard(c, "encryptedExtensionsMsg.unmarshal", kind, d, func() { f = tls.VerifC22UnmarshalEE(d) }) {
			c.Case("ee", fmt.Sprintf("(CEe %s %s %s %d %s)", cb(d), vh.Bool(f.OK), vh.Str(f.ALPN), f.Codepoint, cb(f.Settings)), "ee/"+vh.Hex(d), f.OK, nil)
		}
	}
	if len(d) > 0 && d[0] == 25 || strings.HasPrefix(kind, "cc-") {
		var ok bool
		var alg uint16
		var ul uint32
		var body []byte
		if guard(c, "utlsCompressedCertificateMsg.unmarshal", kind, d, func() { ok, alg, ul, body = tls.VerifC34UnmarshalCompressedCert(d) }) {
			o := "None"
			if ok {
				o = fmt.Sprintf("(Some (%d, %d, %s))", alg, ul, cb(body))
			}
			c.Case("cc", fmt.Sprintf("(CCc %s %s)", cb(d), o), "cc/"+vh.Hex(d), ok, nil)
		}
	}
	if len(d) >= 4 {
		for _, vers := range []uint16{0x0303, 0x0304} {
			switchCase(c, vers, d, kind)
		}
	}
}

func switchCase(c *vh.Ctx, vers uint16, d []byte, kind string) {
	var tn, et string
	var al int
	if !guard(c, "Conn.unmarshalHandshakeMessage(client)", kind, d, func() { tn, al, et = tls.VerifC34UnmarshalHandshakeMessage(true, vers, d) }) {
		return
	}
	o := "None"
	if tn != "" {
		ct, known := goTypeCoq[tn]
		if !known {
			c.Fail("model/unknown-go-type", "unmarshalHandshakeMessage returned a type the model does not know: "+tn, vh.Hex(d), tn, "a known type")
			return
		}
		o = "(Some " + ct + ")"
	} else if al != 10 {
		c.Fail("alert/unmarshalHandshakeMessage", "unexpected alert from unmarshalHandshakeMessage: "+et, vh.Hex(d), al, 10)
	}
	c.Case("switch", fmt.Sprintf("(CUnmarshal %d %s %s %s)", vers, vh.Bool(tn != ""), cb(d), o), fmt.Sprintf("sw/%d/%s", vers, vh.Hex(d)), tn != "", nil)
}

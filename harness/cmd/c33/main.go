// C33 runner: hostile server input against uTLS clients.
//
//   - parser level (Coq cases): encryptedExtensionsMsg.unmarshal, utlsCompressedCertificateMsg.unmarshal and
//     Conn.unmarshalHandshakeMessage on a CLIENT connection (all type bytes, TLS 1.2 / 1.3), mutated inputs, recover() around each call;
//   - live: every parrot against the scripted server of /repo/verif_server.go whose MutateHandshakeMsg hook rewrites one plaintext
//     handshake message (ServerHello / HelloRetryRequest / EncryptedExtensions(+ALPS) / CertificateRequest / Certificate /
//     CompressedCertificate / CertificateVerify / Finished; TLS 1.2: ServerHello / Certificate / CertificateStatus / ServerKeyExchange /
//     ServerHelloDone / Finished) with one of 19 mutations before it enters the transcript and the record layer; mutated
//     NewSessionTicket / KeyUpdate / stray uTLS messages after the handshake; targeted inputs (declared 16 MiB certificate,
//     zstd / brotli window bombs, HelloRetryRequest cookies against extension lists of length 1..4 and against a 65000-byte cookie,
//     60 KiB ALPS, resumption + HelloRetryRequest); raw record streams from a plain TCP server.
//     Every client Handshake and the following Reads run under a connection deadline with recover(); a call that has not returned
//     2 s after the deadline is a hang; runtime.MemStats.TotalAlloc is sampled around each run.
//
// Go-side oracle keys: panic/<mutation>/<message>, hang/<mutation>/<message>, alloc/<mutation>/<message>.
package main

import (
	"bytes"
	"errors"
	"fmt"
	"io"
	"math/rand"
	"net"
	"os"
	"runtime"
	"runtime/debug"
	"strings"
	"sync"
	"time"

	tls "github.com/refraction-networking/utls"
	"verif/harness/hs"
	"verif/harness/vh"
)

func main() { vh.Main(map[string]vh.Suite{"C33": {Corr: "Corr.C33Corr", Run: run}}) }

// allocLimit: one client handshake may allocate the handshake messages it is sent (Certificate <= 256 KiB, others <= 64 KiB, a
// few copies each), the decompressed certificate (<= 256 KiB + 4) and the working memory of a decompressor whose window is
// within what RFC 8878 asks every decoder to support (8 MiB). Anything above 12 MiB is beyond the protocol's limits.
const allocLimit = 12 << 20

// gridDeadline: connection deadline of the mutation-grid runs (many mutations make both sides wait for each other until it expires)
const gridDeadline = 900 * time.Millisecond

type driveOpts struct {
	id        tls.ClientHelloID
	spec      *tls.ClientHelloSpec
	ccfg      *tls.Config
	scfg      *tls.Config
	script    *tls.VerifServerScript
	post      func(sc *tls.Conn) // server side, after its handshake completed
	rawServer func(conn net.Conn)
	deadline  time.Duration
	writes    bool // the client also writes application data before and after its Reads
	// scriptFn, if set, builds a fresh script (and whatever state its hooks close over) for every attempt; otherwise a
	// re-measurement uses a copy of script with an empty trace (only sound for scripts whose hooks keep no state)
	scriptFn  func() *tls.VerifServerScript
	keepCache bool // re-measurements keep ccfg's ClientSessionCache (histories); otherwise each attempt gets an empty one
	// writeFault: what the client's transport does with writes once the handshake is done: "" = normal, "fails" = every Write
	// returns an error at once (peer gone), "blocks" = every Write blocks until the write deadline and then times out (peer
	// stopped reading, send buffer full)
	writeFault string
}

// faultConn wraps the client's transport; its write side can be switched to failing or blocking after the handshake.
type faultConn struct {
	net.Conn
	mu   sync.Mutex
	mode string
	wdl  time.Time
}

func (f *faultConn) setMode(m string) { f.mu.Lock(); f.mode = m; f.mu.Unlock() }
func (f *faultConn) SetDeadline(t time.Time) error {
	f.mu.Lock()
	f.wdl = t
	f.mu.Unlock()
	return f.Conn.SetDeadline(t)
}
func (f *faultConn) SetWriteDeadline(t time.Time) error {
	f.mu.Lock()
	f.wdl = t
	f.mu.Unlock()
	return f.Conn.SetWriteDeadline(t)
}
func (f *faultConn) Write(b []byte) (int, error) {
	f.mu.Lock()
	mode, wdl := f.mode, f.wdl
	f.mu.Unlock()
	switch mode {
	case "fails":
		return 0, &net.OpError{Op: "write", Net: "tcp", Err: errors.New("broken pipe (injected)")}
	case "blocks":
		if !wdl.IsZero() {
			if d := time.Until(wdl); d > 0 {
				time.Sleep(d)
			}
		}
		return 0, &net.OpError{Op: "write", Net: "tcp", Err: os.ErrDeadlineExceeded}
	}
	return f.Conn.Write(b)
}

type driveResult struct {
	buildErr  error
	panicked  bool
	panicVal  string
	hung      bool
	hsErr     error
	readErr   error
	readBytes int
	alloc     uint64   // TotalAlloc delta of the attempt reported (the smallest one when the case was re-measured)
	allocs    []uint64 // the deltas of all attempts, in order
	elapsed   time.Duration
	srvErr    error
	srvPanic  string
}

// drive runs one case. runtime.MemStats.TotalAlloc is process-wide: the delta of one attempt also contains whatever the in-process
// scripted server, the garbage collector's helpers or a goroutine left over from an earlier case allocated meanwhile. The runner
// is strictly serial (one connection at a time, compressed payloads prepared ahead of time), and a delta above the limit is never
// trusted on its own: the case is run again, up to three attempts, the repeats after a pause that lets stragglers finish and a runtime.GC(),
// and the SMALLEST delta is what the oracle sees - an allocation the client really makes is made on every attempt.
func drive(o driveOpts) *driveResult {
	var best *driveResult
	var all []uint64
	for attempt := 0; attempt < 3; attempt++ {
		oo := o
		if o.scriptFn != nil {
			oo.script = o.scriptFn()
		} else if attempt > 0 && o.script != nil {
			cp := *o.script
			cp.Trace = tls.VerifServerTrace{}
			oo.script = &cp
		}
		if attempt > 0 {
			if o.ccfg != nil && !o.keepCache {
				cc := o.ccfg.Clone()
				if cc.ClientSessionCache != nil {
					cc.ClientSessionCache = tls.NewLRUClientSessionCache(4)
				}
				oo.ccfg = cc
			}
			time.Sleep(50 * time.Millisecond)
			runtime.GC()
		}
		r := driveOnce(oo)
		all = append(all, r.alloc)
		if r.buildErr != nil || r.panicked || r.hung {
			best = r
			break
		}
		if best == nil || r.alloc < best.alloc {
			best = r
		}
		if r.alloc <= allocLimit {
			break
		}
	}
	best.allocs = all
	return best
}

func driveOnce(o driveOpts) *driveResult {
	res := &driveResult{}
	if o.deadline == 0 {
		o.deadline = 3 * time.Second
	}
	ln, err := net.Listen("tcp", "127.0.0.1:0")
	if err != nil {
		res.buildErr = err
		return res
	}
	defer ln.Close()
	srvDone := make(chan struct{})
	go func() {
		defer close(srvDone)
		defer func() {
			if r := recover(); r != nil {
				res.srvPanic = fmt.Sprint(r)
			}
		}()
		conn, err := ln.Accept()
		if err != nil {
			return
		}
		defer conn.Close()
		conn.SetDeadline(time.Now().Add(o.deadline))
		if o.rawServer != nil {
			o.rawServer(conn)
			return
		}
		sc := tls.VerifScriptedServer(conn, o.scfg, o.script)
		res.srvErr = sc.Handshake()
		if res.srvErr == nil && o.post != nil {
			o.post(sc)
		}
		if res.srvErr == nil {
			sc.Close()
		}
	}()
	raw, err := net.DialTimeout("tcp", ln.Addr().String(), o.deadline)
	if err != nil {
		res.buildErr = err
		return res
	}
	defer raw.Close()
	fc := &faultConn{Conn: raw}
	fc.SetDeadline(time.Now().Add(o.deadline))
	uc := tls.UClient(fc, o.ccfg, o.id)
	if o.spec != nil {
		if err := uc.ApplyPreset(o.spec); err != nil {
			res.buildErr = err
		}
	}
	if res.buildErr == nil {
		res.buildErr = uc.BuildHandshakeState()
	}
	if res.buildErr != nil {
		raw.Close()
		<-srvDone
		return res
	}
	var m0, m1 runtime.MemStats
	runtime.ReadMemStats(&m0)
	start := time.Now()
	done := make(chan struct{})
	go func() {
		defer close(done)
		defer func() {
			if r := recover(); r != nil {
				res.panicked = true
				st := string(debug.Stack())
				if len(st) > 1500 {
					st = st[:1500]
				}
				res.panicVal = fmt.Sprint(r) + "\n" + st
			}
		}()
		res.hsErr = uc.Handshake()
		if res.hsErr == nil {
			fc.setMode(o.writeFault)
			if o.writes {
				uc.Write([]byte("ping-before-read"))
			}
			buf := make([]byte, 4096)
			for i := 0; i < 64; i++ {
				n, err := uc.Read(buf)
				res.readBytes += n
				if err != nil {
					res.readErr = err
					break
				}
			}
			if o.writes {
				uc.Write([]byte("ping-after-read"))
			}
		}
	}()
	select {
	case <-done:
	case <-time.After(o.deadline + 2*time.Second):
		res.hung = true
	}
	res.elapsed = time.Since(start)
	runtime.ReadMemStats(&m1)
	res.alloc = m1.TotalAlloc - m0.TotalAlloc
	raw.Close()
	select {
	case <-srvDone:
	case <-time.After(o.deadline + time.Second):
	}
	return res
}

// ---------------------------------------------------------------- mutations of one plaintext handshake message

var mutKinds = []string{"bitflip", "byte-rand", "len-hdr-up", "len-hdr-down", "u16-edit", "u24-edit", "truncate-fix", "truncate-raw",
	"extend-fix", "extend-raw", "dup", "type-swap", "drop", "reorder", "huge-len", "empty-body", "zero-fill", "ff-fill", "u8-len-edit"}

var swapTypes = []byte{0, 1, 2, 4, 5, 8, 11, 12, 13, 14, 15, 16, 20, 22, 24, 25, 254, 99}

func setHdrLen(b []byte, n int) {
	b[1], b[2], b[3] = byte(n>>16), byte(n>>8), byte(n)
}

func mutateMsg(kind string, b []byte, rng *rand.Rand) []byte {
	b = append([]byte(nil), b...)
	body := len(b) - 4
	pos := func() int {
		if body <= 0 {
			return rng.Intn(len(b))
		}
		return 4 + rng.Intn(body)
	}
	switch kind {
	case "bitflip":
		for k := 0; k < 1+rng.Intn(3); k++ {
			b[pos()] ^= 1 << uint(rng.Intn(8))
		}
	case "byte-rand":
		b[pos()] = byte(rng.Intn(256))
	case "len-hdr-up":
		setHdrLen(b, body+1+rng.Intn(40))
	case "len-hdr-down":
		if body > 0 {
			setHdrLen(b, rng.Intn(body))
		}
	case "u16-edit", "u24-edit", "u8-len-edit":
		w := map[string]int{"u16-edit": 2, "u24-edit": 3, "u8-len-edit": 1}[kind]
		if body >= w {
			i := 4 + rng.Intn(body-w+1)
			rest := len(b) - i - w
			v := []int{0, 1, 0xffffff, rest, rest + 1, rest - 1, rng.Intn(1 << 16)}[rng.Intn(7)]
			if v < 0 {
				v = 0
			}
			for k := 0; k < w; k++ {
				b[i+k] = byte(v >> uint(8*(w-1-k)))
			}
		}
	case "truncate-fix":
		if body > 0 {
			n := rng.Intn(body)
			b = b[:4+n]
			setHdrLen(b, n)
		}
	case "truncate-raw":
		b = b[:1+rng.Intn(len(b)-1)]
	case "extend-fix":
		k := 1 + rng.Intn(64)
		for i := 0; i < k; i++ {
			b = append(b, byte(rng.Intn(256)))
		}
		setHdrLen(b, len(b)-4)
	case "extend-raw":
		k := 1 + rng.Intn(64)
		for i := 0; i < k; i++ {
			b = append(b, byte(rng.Intn(256)))
		}
	case "dup":
		b = append(b, b...)
	case "type-swap":
		b[0] = swapTypes[rng.Intn(len(swapTypes))]
	case "drop":
		return []byte{}
	case "huge-len":
		setHdrLen(b, 0xffffff)
	case "empty-body":
		b = b[:4]
		setHdrLen(b, 0)
	case "zero-fill":
		for i := 4; i < len(b); i++ {
			b[i] = 0
		}
	case "ff-fill":
		for i := 4; i < len(b); i++ {
			b[i] = 0xff
		}
	}
	return b
}

// mutator rewrites the occ-th message of type target; "reorder" holds it back and emits it after the next message.
type mutator struct {
	kind   string
	target uint8
	occ    int
	rng    *rand.Rand
	seen   int
	held   []byte
	sent   [][]byte // what replaced the target (the byte script)
	hit    bool
}

func (m *mutator) fn(typ uint8, b []byte) []byte {
	if m.held != nil {
		out := append(append([]byte(nil), b...), m.held...)
		m.held = nil
		m.sent = append(m.sent, out)
		return out
	}
	if typ != m.target || m.hit {
		return b
	}
	if m.seen < m.occ {
		m.seen++
		return b
	}
	m.hit = true
	if m.kind == "reorder" {
		m.held = append([]byte(nil), b...)
		return []byte{}
	}
	out := mutateMsg(m.kind, b, m.rng)
	m.sent = append(m.sent, out)
	return out
}

func hexScript(msgs [][]byte) []string {
	out := make([]string, len(msgs))
	for i, m := range msgs {
		if len(m) > 600 {
			out[i] = vh.Hex(m[:600]) + fmt.Sprintf("...(%d bytes)", len(m))
		} else {
			out[i] = vh.Hex(m)
		}
	}
	return out
}

var typeNames = map[uint8]string{2: "ServerHello", 8: "EncryptedExtensions", 11: "Certificate", 12: "ServerKeyExchange", 13: "CertificateRequest",
	14: "ServerHelloDone", 15: "CertificateVerify", 20: "Finished", 22: "CertificateStatus", 25: "CompressedCertificate", 4: "NewSessionTicket", 24: "KeyUpdate"}

var maxAlloc uint64
var maxElapsed time.Duration

// judge applies the property's oracle to one run.
func judge(c *vh.Ctx, r *driveResult, mutation, message string, input any) {
	judgeKey(c, r, mutation+"/"+message, message, input)
}

// judgeKey: key = the part of the failure key after panic/ hang/ alloc/.
func judgeKey(c *vh.Ctx, r *driveResult, key, countAs string, input any) {
	c.Count("runs/" + countAs)
	if r.buildErr != nil {
		c.Count("build-error")
		return
	}
	if r.srvPanic != "" {
		c.Count("harness-server-panic") // the scripted server is test equipment
	}
	if !r.hung && !r.panicked && r.alloc > maxAlloc {
		maxAlloc = r.alloc
		c.Extra["max_alloc_bytes"] = r.alloc
		c.Extra["max_alloc_case"] = key
	}
	if r.elapsed > maxElapsed {
		maxElapsed = r.elapsed
		c.Extra["max_elapsed_ms"] = r.elapsed.Milliseconds()
		c.Extra["max_elapsed_case"] = key
	}
	if len(r.allocs) > 1 {
		c.Count("alloc-remeasured")
		if r.alloc <= allocLimit {
			c.Count("alloc-remeasured-then-within-limit")
		}
	}
	outcome := map[string]any{"handshake_err": fmt.Sprint(r.hsErr), "read_err": fmt.Sprint(r.readErr), "elapsed_ms": r.elapsed.Milliseconds(), "alloc_bytes": r.alloc, "alloc_bytes_all_attempts": r.allocs}
	switch {
	case r.panicked:
		c.Fail("panic/"+key, "the client panicked on hostile server input: "+firstLine(r.panicVal), input, r.panicVal, "Handshake/Read return normally")
	case r.hung:
		c.Fail("hang/"+key, "client Handshake/Read/Write did not return within 2 s after the connection deadline", input, outcome, "returns within the deadline")
	case r.alloc > allocLimit:
		c.Fail("alloc/"+key, fmt.Sprintf("one client handshake allocated %d bytes on each of %d serial attempts (smallest delta; limit %d)", r.alloc, len(r.allocs), allocLimit), input, outcome, "allocation within the protocol's length limits")
	}
	switch {
	case r.hsErr == nil:
		c.Count("outcome/completed")
	default:
		c.Count("outcome/error")
	}
}

func firstLine(s string) string {
	if i := strings.IndexByte(s, '\n'); i >= 0 {
		return s[:i]
	}
	return s
}

// ---------------------------------------------------------------- scenarios

type scenario struct {
	name    string
	targets []uint8
	setup   func(scfg *tls.Config, s *tls.VerifServerScript, w *parrotInfo) bool
}

type parrotInfo struct {
	hs.Parrot
	spec     func() *tls.ClientHelloSpec // non-nil: HelloCustom with this spec
	certBody []byte                      // body of the honest TLS 1.3 Certificate message this client is sent
	ccert    map[uint16][]byte           // that body compressed ahead of time (the encoders' own memory stays out of the measurement)
	tls13    bool
	ccAlgs   []uint16
	alpn     []string
	groups   []uint16
	shares   []uint16
	usable13 bool
	usable12 bool
}

func scenarios() []scenario {
	return []scenario{
		{"tls13", []uint8{2, 8, 11, 15, 20}, func(scfg *tls.Config, s *tls.VerifServerScript, p *parrotInfo) bool { return p.usable13 }},
		{"tls13-hrr", []uint8{2}, func(scfg *tls.Config, s *tls.VerifServerScript, p *parrotInfo) bool {
			s.ForceHRR = true
			s.HRRCookie = []byte("cookie-c33")
			for _, g := range p.groups {
				if (g == uint16(tls.CurveP256) || g == uint16(tls.CurveP384) || g == uint16(tls.X25519)) && !hs.ContainsU16(p.shares, g) {
					s.HRRGroup = tls.CurveID(g)
					break
				}
			}
			return p.usable13
		}},
		{"tls13-ccert", []uint8{25}, func(scfg *tls.Config, s *tls.VerifServerScript, p *parrotInfo) bool {
			if len(p.ccAlgs) == 0 {
				return false
			}
			s.CertCompression = p.ccAlgs[0]
			z, ok := p.ccert[s.CertCompression]
			if !ok {
				return false // never let the in-process server run an encoder inside a measured window
			}
			s.CompressedCert = z
			n := uint32(len(p.certBody))
			s.CompressedCertULen = &n
			return p.usable13
		}},
		{"tls13-alps", []uint8{8}, func(scfg *tls.Config, s *tls.VerifServerScript, p *parrotInfo) bool {
			s.ALPSCodepoint = 17513
			s.ALPSData = []byte("alps-settings")
			s.ReadClientEE = true
			return p.usable13 && len(p.alpn) > 0
		}},
		{"tls13-certreq", []uint8{13, 11}, func(scfg *tls.Config, s *tls.VerifServerScript, p *parrotInfo) bool {
			scfg.ClientAuth = tls.RequestClientCert
			return p.usable13
		}},
		{"tls12", []uint8{2, 11, 12, 14, 20, 22}, func(scfg *tls.Config, s *tls.VerifServerScript, p *parrotInfo) bool {
			scfg.MaxVersion = tls.VersionTLS12
			return p.usable12
		}},
	}
}

func probeParrots(c *vh.Ctx, pki *hs.PKI) []*parrotInfo {
	var out []*parrotInfo
	all := hs.Parrots()
	all = append(all, hs.Parrot{Name: "Golang", ID: tls.HelloGolang})
	all = append(all, hs.RandomizedParrots(3, c.Seed)...)
	// no predefined parrot advertises zstd (one advertises zlib): Chrome_120's spec with all three algorithms
	zstdSpec := func() *tls.ClientHelloSpec {
		sp, _ := tls.UTLSIdToSpec(tls.HelloChrome_120)
		for _, e := range sp.Extensions {
			if cc, ok := e.(*tls.UtlsCompressCertExtension); ok {
				cc.Algorithms = []tls.CertCompressionAlgo{tls.CertCompressionZstd, tls.CertCompressionBrotli, tls.CertCompressionZlib}
			}
		}
		return &sp
	}
	all = append(all, hs.Parrot{Name: "Custom_Chrome_120_zstd", ID: tls.HelloCustom})
	for _, p := range all {
		ccfg := pki.ClientConfig()
		if p.ID == tls.HelloGolang {
			ccfg.NextProtos = []string{"h2", "http/1.1"}
		}
		var spec *tls.ClientHelloSpec
		if p.ID == tls.HelloCustom {
			spec = zstdSpec()
		}
		var certMsg []byte
		capture := &tls.VerifServerScript{MutateHandshakeMsg: func(typ uint8, b []byte) []byte {
			if typ == 11 && certMsg == nil {
				certMsg = append([]byte(nil), b...)
			}
			return b
		}}
		r := hs.Run(hs.Opts{ID: p.ID, Spec: spec, ClientCfg: ccfg, ServerCfg: pki.ServerConfig("h2", "http/1.1"), Script: capture, NoAppData: true})
		if r.BuildErr != nil || r.Wire == nil {
			c.Count("parrot-build-error/" + p.Name)
			continue
		}
		pi := &parrotInfo{Parrot: p, ccAlgs: r.Wire.CertCompressionAlgs, alpn: r.Wire.ALPN, groups: r.Wire.SupportedGroups, shares: r.Wire.KeyShareGroups}
		pi.tls13 = hs.ContainsU16(r.Wire.SupportedVersions, tls.VersionTLS13)
		pi.usable13 = r.Completed() && r.ClientState.Version == tls.VersionTLS13
		if pi.usable13 && len(certMsg) > 4 {
			pi.certBody = certMsg[4:]
			pi.ccert = map[uint16][]byte{}
			for _, a := range pi.ccAlgs {
				if z, err := tls.VerifCompress(a, pi.certBody); err == nil {
					pi.ccert[a] = z
				}
			}
		}
		scfg := pki.ServerConfig("h2", "http/1.1")
		scfg.MaxVersion = tls.VersionTLS12
		if p.ID == tls.HelloCustom {
			spec = zstdSpec()
			pi.spec = zstdSpec
		}
		r2 := hs.Run(hs.Opts{ID: p.ID, Spec: spec, ClientCfg: ccfg, ServerCfg: scfg, NoAppData: true})
		pi.usable12 = r2.Completed()
		out = append(out, pi)
	}
	return out
}

func specOf(p *parrotInfo) *tls.ClientHelloSpec {
	if p.spec != nil {
		return p.spec()
	}
	return nil
}

func clientCfg(pki *hs.PKI, p *parrotInfo) *tls.Config {
	ccfg := pki.ClientConfig()
	if p.ID == tls.HelloGolang {
		ccfg.NextProtos = []string{"h2", "http/1.1"}
	}
	ccfg.ClientSessionCache = tls.NewLRUClientSessionCache(4)
	ccfg.ApplicationSettings = map[string][]byte{"h2": []byte("client")}
	return ccfg
}

func run(c *vh.Ctx) {
	pki := hs.SharedPKI()
	parserCases(c)
	parrots := probeParrots(c, pki)
	c.Extra["parrots"] = len(parrots)

	perParrot := 8
	if c.Tier != "quick" {
		perParrot = 10 + c.N/40
	}
	scs := scenarios()
	live := 0
	// (1) mutation grid: for each parrot, perParrot (scenario, target, mutation) draws; the first pass walks the mutation kinds
	// round-robin so that every kind x message type is hit across the parrots.
	slot := 0
	for _, p := range parrots {
		for k := 0; k < perParrot; k++ {
			var sc scenario
			var scfg *tls.Config
			var script *tls.VerifServerScript
			ok := false
			for try := 0; try < 8 && !ok; try++ {
				sc = scs[(slot+try)%len(scs)]
				scfg = pki.ServerConfig("h2", "http/1.1")
				script = &tls.VerifServerScript{}
				ok = sc.setup(scfg, script, p)
			}
			if !ok {
				continue
			}
			target := sc.targets[(slot/len(scs))%len(sc.targets)]
			kind := mutKinds[slot%len(mutKinds)]
			slot++
			occ := 0
			msgName := typeNames[target]
			if sc.name == "tls13-hrr" {
				msgName = "HelloRetryRequest"
				if slot%3 == 0 {
					occ, msgName = 1, "ServerHello-after-HRR"
				}
			}
			mseed := c.Rng.Int63()
			var m *mutator
			scn := sc
			r := drive(driveOpts{id: p.ID, spec: specOf(p), ccfg: clientCfg(pki, p), scfg: scfg, deadline: gridDeadline,
				scriptFn: func() *tls.VerifServerScript {
					fresh := &tls.VerifServerScript{}
					scn.setup(scfg, fresh, p)
					m = &mutator{kind: kind, target: target, occ: occ, rng: rand.New(rand.NewSource(mseed))}
					fresh.MutateHandshakeMsg = m.fn
					return fresh
				}})
			live++
			if !m.hit {
				c.Count("mutation-not-reached/" + sc.name + "/" + msgName)
			}
			judge(c, r, kind, msgName, map[string]any{"parrot": p.Name, "scenario": sc.name, "mutation": kind, "message": msgName,
				"sent_instead": hexScript(m.sent), "seed": c.Seed})
		}
	}
	// (2) post-handshake messages
	postCases(c, pki, parrots, &live)
	// (3) targeted inputs
	targeted(c, pki, parrots, &live)
	bombs(c, pki, parrots, &live)
	keyShareLengths(c, pki, parrots, &live)
	degenerateCerts(c, pki, parrots, &live)
	// (4) raw record streams
	rawStreams(c, pki, parrots, &live)
	c.Extra["live_connections"] = live
}

// ---------------------------------------------------------------- post-handshake

func nst13(lifetime uint32, nonce, label, exts []byte) []byte {
	body := []byte{byte(lifetime >> 24), byte(lifetime >> 16), byte(lifetime >> 8), byte(lifetime), 1, 2, 3, 4}
	body = append(body, byte(len(nonce)))
	body = append(body, nonce...)
	body = append(body, byte(len(label)>>8), byte(len(label)))
	body = append(body, label...)
	body = append(body, byte(len(exts)>>8), byte(len(exts)))
	body = append(body, exts...)
	return append([]byte{4, byte(len(body) >> 16), byte(len(body) >> 8), byte(len(body))}, body...)
}

func postCases(c *vh.Ctx, pki *hs.PKI, parrots []*parrotInfo, live *int) {
	rb := func(n int) []byte {
		b := make([]byte, n)
		c.Rng.Read(b)
		return b
	}
	type pm struct {
		name  string
		count int
		gen   func() []byte
	}
	nst12 := func() []byte { // TLS 1.2 NewSessionTicket: lifetime(4) ticket(u16lp)
		t := rb(40)
		return append([]byte{4, 0, 0, byte(6 + len(t)), 0, 0, 14, 16, 0, byte(len(t))}, t...)
	}
	ee := func() []byte { return []byte{8, 0, 0, 10, 0, 8, 0x44, 0x69, 0, 4, 1, 2, 3, 4} }
	cc := func() []byte { return []byte{25, 0, 0, 9, 0, 2, 0, 0, 1, 0, 0, 1, 0x06} }
	post13 := []pm{
		{"NewSessionTicket", 1, func() []byte { return nst13(3600, rb(8), rb(64), nil) }},
		{"NewSessionTicket-x300", 300, func() []byte { return nst13(3600, rb(8), rb(64), nil) }},
		{"NewSessionTicket-early", 1, func() []byte { return nst13(7200, rb(1), rb(300), []byte{0, 42, 0, 4, 0xff, 0xff, 0xff, 0xff}) }},
		{"NewSessionTicket-big", 1, func() []byte { return nst13(604800, rb(255), rb(60000), nil) }},
		{"KeyUpdate", 1, func() []byte { return []byte{24, 0, 0, 1, 1} }},
		{"KeyUpdate-x40", 40, func() []byte { return []byte{24, 0, 0, 1, 1} }},
		{"HelloRequest", 1, func() []byte { return []byte{0, 0, 0, 0} }},
		{"HelloRequest-x5", 5, func() []byte { return []byte{0, 0, 0, 0} }},
		{"EncryptedExtensions", 1, ee},
		{"CompressedCertificate", 1, cc},
		{"Finished", 1, func() []byte { return append([]byte{20, 0, 0, 32}, rb(32)...) }},
	}
	post12 := []pm{
		{"HelloRequest", 1, func() []byte { return []byte{0, 0, 0, 0} }},
		{"HelloRequest-x5", 5, func() []byte { return []byte{0, 0, 0, 0} }},
		{"HelloRequest-with-body", 1, func() []byte { return append([]byte{0, 0, 0, 3}, rb(3)...) }},
		{"NewSessionTicket", 1, nst12},
		{"NewSessionTicket-x300", 300, nst12},
		{"KeyUpdate", 1, func() []byte { return []byte{24, 0, 0, 1, 1} }},
		{"KeyUpdate-x40", 40, func() []byte { return []byte{24, 0, 0, 1, 0} }},
		{"EncryptedExtensions", 1, ee},
		{"CompressedCertificate", 1, cc},
		{"ServerHelloDone", 1, func() []byte { return []byte{14, 0, 0, 0} }},
		{"Finished", 1, func() []byte { return append([]byte{20, 0, 0, 12}, rb(12)...) }},
	}
	hangs := 0
	n := 0
	oneCase := func(p *parrotInfo, vers uint16, m pm, mut string, fault string) {
		if hangs >= 3 {
			c.Count("skipped/post-handshake-after-3-hangs")
			return
		}
		msg := m.gen()
		kind := map[uint16]string{tls.VersionTLS13: "tls13", tls.VersionTLS12: "tls12"}[vers] + "/" + m.name
		if mut != "none" {
			msg = mutateMsg(mut, msg, rand.New(rand.NewSource(c.Rng.Int63())))
			kind += "~" + mut
		}
		scfg := pki.ServerConfig("h2", "http/1.1")
		scfg.MaxVersion = vers
		dl := 3 * time.Second
		if fault != "" {
			kind += "/client-write-" + fault
			dl = 800 * time.Millisecond
		}
		r := drive(driveOpts{id: p.ID, spec: specOf(p), ccfg: clientCfg(pki, p), scfg: scfg, script: &tls.VerifServerScript{}, writes: fault == "",
			writeFault: fault, deadline: dl,
			post: func(sc *tls.Conn) {
				for i := 0; i < m.count; i++ {
					if err := sc.VerifC34WriteHandshakeRecord(msg); err != nil {
						return
					}
				}
				sc.Write([]byte("tail"))
				// give the client room to answer (a renegotiating client sends a ClientHello) before the close
				sc.SetReadDeadline(time.Now().Add(150 * time.Millisecond))
				buf := make([]byte, 2048)
				sc.Read(buf)
			}})
		*live++
		if r.hung {
			hangs++
		}
		judgeKey(c, r, "post-handshake/"+kind+"/"+p.Name, "post-handshake/"+kind, map[string]any{"parrot": p.Name, "scenario": "post-handshake", "version": vers,
			"message": m.name, "mutation": mut, "count": m.count, "client_transport_writes": map[string]string{"": "normal", "fails": "fail once the handshake is done", "blocks": "block until the write deadline once the handshake is done"}[fault],
			"sent": hexScript([][]byte{msg}), "seed": c.Seed})
	}
	muts := append([]string{"none", "none"}, mutKinds...)
	for pi, p := range parrots {
		reps := 2
		if c.Tier != "quick" {
			reps = 10
		}
		if p.usable13 {
			for k := 0; k < reps; k++ {
				mut := muts[n%len(muts)]
				n++
				if mut == "reorder" || mut == "drop" {
					mut = "bitflip"
				}
				oneCase(p, tls.VersionTLS13, post13[(pi+k*5)%len(post13)], mut, "")
			}
		}
		if p.usable12 {
			// every client meets a plain HelloRequest (whether it renegotiates depends on its own RenegotiationInfoExtension)
			oneCase(p, tls.VersionTLS12, post12[0], "none", "")
			for k := 0; k < reps-1; k++ {
				mut := muts[n%len(muts)]
				n++
				if mut == "reorder" || mut == "drop" {
					mut = "bitflip"
				}
				oneCase(p, tls.VersionTLS12, post12[1+(pi+k*3)%(len(post12)-1)], mut, "")
			}
		}
	}
	// the same messages while the CLIENT's own writes fail or block once the handshake is done (the server asked for a reply -
	// KeyUpdate(update_requested), HelloRequest -> renegotiation ClientHello, anything answered with an alert - and then went away
	// or stopped reading). Only Read is called; it has to return.
	write13 := []pm{post13[4], post13[5], post13[8], post13[10], post13[6], post13[0]} // KeyUpdate x1 / x40, stray EncryptedExtensions, Finished, HelloRequest, NewSessionTicket
	write12 := []pm{post12[0], post12[1], post12[5], post12[9], post12[3]}            // HelloRequest x1 / x5, KeyUpdate, ServerHelloDone, NewSessionTicket
	for pi, p := range parrots {
		faults := []string{"fails"}
		if pi%6 == 0 || c.Tier != "quick" {
			faults = append(faults, "blocks")
		}
		for fi, fault := range faults {
			if p.usable13 {
				oneCase(p, tls.VersionTLS13, write13[0], "none", fault) // every client: KeyUpdate(update_requested)
				if c.Tier != "quick" || fi == 0 {
					oneCase(p, tls.VersionTLS13, write13[1+(pi+fi)%(len(write13)-1)], "none", fault)
				}
			}
			if p.usable12 {
				oneCase(p, tls.VersionTLS12, write12[(pi+fi)%len(write12)], "none", fault)
			}
		}
	}
}

// ---------------------------------------------------------------- targeted inputs

// zstdWindowBomb: a 10-byte zstd frame whose Window_Descriptor asks for 2^(10+exp) bytes, one 1-byte raw block.
func zstdWindowBomb(exp byte) []byte {
	return []byte{0x28, 0xb5, 0x2f, 0xfd, 0x00, exp << 3, 0x09, 0x00, 0x00, 0x41}
}

// brotliWindowBomb: WBITS = 24, one uncompressed meta-block declaring 2^24 bytes, 100 bytes of data.
func brotliWindowBomb() []byte {
	var bits []int
	put := func(v, n int) {
		for i := 0; i < n; i++ {
			bits = append(bits, (v>>i)&1)
		}
	}
	put(0xf, 4)
	put(0, 1)
	put(2, 2)
	put(1<<24-1, 24)
	put(1, 1)
	for len(bits)%8 != 0 {
		bits = append(bits, 0)
	}
	out := make([]byte, len(bits)/8)
	for i, b := range bits {
		out[i/8] |= byte(b << uint(i%8))
	}
	return append(out, make([]byte, 100)...)
}

func hasAlg(p *parrotInfo, a uint16) bool { return hs.ContainsU16(p.ccAlgs, a) }

func targeted(c *vh.Ctx, pki *hs.PKI, parrots []*parrotInfo, live *int) {
	u32 := func(v uint32) *uint32 { return &v }
	type tc struct {
		mutation, message string
		alg               uint16
		setup             func(s *tls.VerifServerScript)
	}
	tcs := []tc{
		// F-33 (fixed in /repo): a small CompressedCertificate declaring 16 MiB
		{"declared-16MiB", "CompressedCertificate", 0, func(s *tls.VerifServerScript) { s.CompressedCertULen = u32(1<<24 - 1) }},
		{"declared-max+1", "CompressedCertificate", 0, func(s *tls.VerifServerScript) { s.CompressedCertULen = u32(262144 + 1) }},
		{"declared-max", "CompressedCertificate", 0, func(s *tls.VerifServerScript) { s.CompressedCertULen = u32(262144) }},
		{"zstd-window-512MiB", "CompressedCertificate", 3, func(s *tls.VerifServerScript) {
			s.CompressedCert = zstdWindowBomb(19)
			s.CompressedCertULen = u32(262144)
		}},
		{"zstd-window-64MiB", "CompressedCertificate", 3, func(s *tls.VerifServerScript) {
			s.CompressedCert = zstdWindowBomb(16)
			s.CompressedCertULen = u32(262144)
		}},
		{"zstd-window-8MiB", "CompressedCertificate", 3, func(s *tls.VerifServerScript) {
			s.CompressedCert = zstdWindowBomb(13)
			s.CompressedCertULen = u32(262144)
		}},
		{"brotli-window-16MiB", "CompressedCertificate", 2, func(s *tls.VerifServerScript) {
			s.CompressedCert = brotliWindowBomb()
			s.CompressedCertULen = u32(262144)
		}},
		{"zlib-zeros-256KiB", "CompressedCertificate", 1, func(s *tls.VerifServerScript) {
			z, _ := tls.VerifCompress(1, make([]byte, 262144))
			s.CompressedCert = z
			s.CompressedCertULen = u32(262144)
		}},
	}
	for _, t := range tcs {
		n := 0
		for _, p := range parrots {
			if !p.usable13 || len(p.ccAlgs) == 0 || (t.alg != 0 && !hasAlg(p, t.alg)) {
				continue
			}
			if n >= 2 && c.Tier == "quick" {
				break
			}
			n++
			s := &tls.VerifServerScript{CertCompression: p.ccAlgs[0]}
			if t.alg != 0 {
				s.CertCompression = t.alg
			}
			t.setup(s)
			if s.CompressedCert == nil {
				// the honest payload, compressed ahead of time: the encoder's memory (zstd: > 20 MB) stays out of the measurement
				if z, ok := p.ccert[s.CertCompression]; ok {
					s.CompressedCert = z
				} else {
					c.Count("targeted-skipped/no-precompressed-payload")
					continue
				}
			}
			r := drive(driveOpts{id: p.ID, spec: specOf(p), ccfg: clientCfg(pki, p), scfg: pki.ServerConfig("h2"), script: s})
			*live++
			judge(c, r, t.mutation, t.message, map[string]any{"parrot": p.Name, "scenario": "targeted", "algorithm": s.CertCompression,
				"declared_uncompressed_length": *s.CompressedCertULen, "compressed_payload": hexScript([][]byte{s.CompressedCert}), "seed": c.Seed})
		}
		if n == 0 {
			c.Count("targeted-not-applicable/" + t.mutation)
		}
	}

	// HelloRetryRequest cookie insertion (handshake_client_tls13.go:418-437) against extension lists of length 1..4
	mk := func(n int) *tls.ClientHelloSpec {
		exts := []tls.TLSExtension{
			&tls.KeyShareExtension{KeyShares: []tls.KeyShare{{Group: tls.X25519}}},
			&tls.SupportedVersionsExtension{Versions: []uint16{tls.VersionTLS13}},
			&tls.SupportedCurvesExtension{Curves: []tls.CurveID{tls.X25519, tls.CurveP256}},
			&tls.SignatureAlgorithmsExtension{SupportedSignatureAlgorithms: []tls.SignatureScheme{tls.ECDSAWithP256AndSHA256, tls.PSSWithSHA256}},
		}
		return &tls.ClientHelloSpec{TLSVersMin: tls.VersionTLS12, TLSVersMax: tls.VersionTLS13,
			CipherSuites: []uint16{tls.TLS_AES_128_GCM_SHA256, tls.TLS_ECDHE_ECDSA_WITH_AES_128_GCM_SHA256}, CompressionMethods: []uint8{0},
			Extensions: exts[:n]}
	}
	for n := 1; n <= 4; n++ {
		for _, clen := range []int{1, 32, 4000} {
			var s *tls.VerifServerScript
			var pos = -1
			r := drive(driveOpts{id: tls.HelloCustom, spec: mk(n), ccfg: pki.ClientConfig(), scfg: pki.ServerConfig("h2"),
				scriptFn: func() *tls.VerifServerScript {
					s = &tls.VerifServerScript{ForceVersion: tls.VersionTLS13, ForceHRR: true, HRRCookie: bytes.Repeat([]byte{0xc0}, clen)}
					return s
				}})
			*live++
			if len(s.Trace.ClientHellos) == 2 {
				if w, err := hs.ParseClientHello(s.Trace.ClientHellos[1]); err == nil {
					for i, t := range w.ExtensionTypes {
						if t == 44 {
							pos = i
						}
					}
					c.Case("cookie-pos", fmt.Sprintf("(CCookiePos %d %d %d)", n, len(w.ExtensionTypes), pos), fmt.Sprint(n, clen), true, nil)
				}
			} else {
				c.Count("hrr-custom-no-second-hello")
			}
			judge(c, r, fmt.Sprintf("cookie-%d-bytes", clen), fmt.Sprintf("HelloRetryRequest/extensions-%d", n),
				map[string]any{"scenario": "custom spec", "extensions": n, "cookie_len": clen, "second_hello_cookie_index": pos})
		}
	}
	// a 65000-byte cookie echoed by real parrots (second ClientHello larger than 64 KiB), a 60 KiB ALPS value
	n := 0
	for _, p := range parrots {
		if !p.usable13 {
			continue
		}
		if n >= 4 && c.Tier == "quick" {
			break
		}
		n++
		s := &tls.VerifServerScript{ForceHRR: true, HRRCookie: bytes.Repeat([]byte{0xab}, 65000)}
		r := drive(driveOpts{id: p.ID, spec: specOf(p), ccfg: clientCfg(pki, p), scfg: pki.ServerConfig("h2"), script: s})
		*live++
		judge(c, r, "cookie-65000-bytes", "HelloRetryRequest", map[string]any{"parrot": p.Name, "scenario": "targeted", "cookie_len": 65000})
		s2 := &tls.VerifServerScript{ALPSCodepoint: 17613, ALPSData: bytes.Repeat([]byte{7}, 60000), ReadClientEE: true}
		r = drive(driveOpts{id: p.ID, spec: specOf(p), ccfg: clientCfg(pki, p), scfg: pki.ServerConfig("h2"), script: s2})
		*live++
		judge(c, r, "alps-60000-bytes", "EncryptedExtensions", map[string]any{"parrot": p.Name, "scenario": "targeted"})
	}
	// resumption, then a HelloRetryRequest on the resumed connection (PSK / HRR branch, handshake_client_tls13.go:360-396)
	n = 0
	for _, p := range parrots {
		if !p.usable13 || !strings.Contains(p.Name, "PSK") && p.Name != "Chrome_120" && p.Name != "Firefox_120" && p.Name != "Golang" {
			continue
		}
		ccfg := clientCfg(pki, p)
		scfg := pki.ServerConfig("h2")
		scfg.SessionTicketsDisabled = false
		r1 := drive(driveOpts{id: p.ID, spec: specOf(p), ccfg: ccfg, scfg: scfg, keepCache: true, script: &tls.VerifServerScript{}, post: func(sc *tls.Conn) { sc.Write([]byte("x")) }})
		*live++
		judge(c, r1, "none", "resumption-first", map[string]any{"parrot": p.Name})
		for _, hrr := range []bool{false, true} {
			s := &tls.VerifServerScript{ForceHRR: hrr}
			if hrr {
				s.HRRCookie = []byte("again")
			}
			r2 := drive(driveOpts{id: p.ID, spec: specOf(p), ccfg: ccfg, scfg: scfg, keepCache: true, script: s, post: func(sc *tls.Conn) { sc.Write([]byte("x")) }})
			*live++
			judge(c, r2, fmt.Sprintf("hrr-%v", hrr), "resumption-second", map[string]any{"parrot": p.Name, "hrr": hrr})
		}
		n++
	}
}

// ---------------------------------------------------------------- raw record streams

func record(typ byte, vers uint16, payload []byte) []byte {
	return append([]byte{typ, byte(vers >> 8), byte(vers), byte(len(payload) >> 8), byte(len(payload))}, payload...)
}

func rawStreams(c *vh.Ctx, pki *hs.PKI, parrots []*parrotInfo, live *int) {
	rb := func(n int) []byte {
		b := make([]byte, n)
		c.Rng.Read(b)
		return b
	}
	kinds := []struct {
		name  string
		stall bool
		gen   func() []byte
	}{
		{"random-bytes", false, func() []byte { return rb(1 + c.Rng.Intn(4000)) }},
		{"random-records", false, func() []byte {
			var out []byte
			for i := 0; i < 1+c.Rng.Intn(6); i++ {
				out = append(out, record([]byte{20, 21, 22, 23, 24, 0, 99}[c.Rng.Intn(7)], []uint16{0x0301, 0x0303, 0x0304, 0x0000}[c.Rng.Intn(4)], rb(c.Rng.Intn(300)))...)
			}
			return out
		}},
		{"oversized-record", false, func() []byte { return append([]byte{22, 3, 3, 0xff, 0xff}, rb(20000)...) }},
		{"handshake-random-body", false, func() []byte {
			body := rb(100 + c.Rng.Intn(400))
			msg := append([]byte{[]byte{2, 8, 11, 25, 4, 13}[c.Rng.Intn(6)], 0, byte(len(body) >> 8), byte(len(body))}, body...)
			return record(22, 0x0303, msg)
		}},
		{"handshake-huge-declared", false, func() []byte { return record(22, 0x0303, []byte{[]byte{2, 11, 25, 8}[c.Rng.Intn(4)], 0xff, 0xff, 0xff, 1, 2, 3}) }},
		{"handshake-byte-fragments", false, func() []byte {
			var out []byte
			for _, b := range append([]byte{2, 0, 0, 70}, rb(70)...) {
				out = append(out, record(22, 0x0303, []byte{b})...)
			}
			return out
		}},
		{"empty-record-flood", false, func() []byte { return bytes.Repeat(record(22, 0x0303, nil), 200) }},
		{"ccs-flood", false, func() []byte { return bytes.Repeat(record(20, 0x0303, []byte{1}), 200) }},
		{"warning-alert-flood", false, func() []byte { return bytes.Repeat(record(21, 0x0303, []byte{1, 0}), 200) }},
		{"appdata-first", false, func() []byte { return record(23, 0x0303, rb(64)) }},
		{"compressed-cert-first", false, func() []byte { return record(22, 0x0303, []byte{25, 0, 0, 9, 0, 2, 0xff, 0xff, 0xff, 0, 0, 1, 6}) }},
		{"encrypted-extensions-first", false, func() []byte { return record(22, 0x0303, []byte{8, 0, 0, 10, 0, 8, 0x44, 0x69, 0, 4, 1, 2, 3, 4}) }},
		{"silence", true, func() []byte { return nil }},
		{"half-record-then-silence", true, func() []byte { return []byte{22, 3, 3, 0, 100, 2, 0, 0} }},
	}
	reps := 1
	if c.Tier != "quick" {
		reps = 6
	}
	k := 0
	for rep := 0; rep < reps; rep++ {
		for ki, kd := range kinds {
			for j := 0; j < 2; j++ {
				p := parrots[(k*7+ki)%len(parrots)]
				k++
				data := kd.gen()
				dl := 3 * time.Second
				if kd.stall {
					dl = 400 * time.Millisecond
				}
				r := drive(driveOpts{id: p.ID, spec: specOf(p), ccfg: clientCfg(pki, p), deadline: dl, rawServer: func(conn net.Conn) {
					buf := make([]byte, 1<<16)
					conn.Read(buf) // the ClientHello (or part of it)
					conn.Write(data)
					if kd.stall {
						time.Sleep(dl + 500*time.Millisecond)
						return
					}
					// let the client see the bytes before the FIN
					conn.(*net.TCPConn).CloseWrite()
					io.Copy(io.Discard, conn)
				}})
				*live++
				if kd.stall && !r.hung && r.hsErr != nil {
					var ne net.Error
					if !errors.As(r.hsErr, &ne) || !ne.Timeout() {
						c.Count("stall-non-timeout-error")
					}
				}
				judge(c, r, "raw", kd.name, map[string]any{"parrot": p.Name, "scenario": "raw stream", "stream": hexScript([][]byte{data}), "seed": c.Seed})
			}
		}
	}
}

// ---------------------------------------------------------------- decompression bombs

// bombs: for each algorithm a stream that fits a CompressedCertificate message (< 64 KiB) and inflates to tens of MiB, under a
// small and legal declared length. A client may read the declared length (+1 byte) out of it, never the whole stream.
func bombs(c *vh.Ctx, pki *hs.PKI, parrots []*parrotInfo, live *int) {
	sizes := map[uint16]int{1: 48 << 20, 2: 96 << 20, 3: 96 << 20}
	names := map[uint16]string{1: "zlib", 2: "brotli", 3: "zstd"}
	for _, alg := range []uint16{1, 2, 3} {
		z, err := tls.VerifCompress(alg, make([]byte, sizes[alg]))
		if err != nil || len(z) > 65000 {
			c.Count(fmt.Sprintf("bomb-not-built/%s/%d", names[alg], len(z)))
			continue
		}
		c.Extra["bomb_"+names[alg]+"_bytes"] = len(z)
		runtime.GC()
		for _, declared := range []uint32{1000, 262144} {
			mutation := fmt.Sprintf("bomb-%s-%dMiB-declared-%d", names[alg], sizes[alg]>>20, declared)
			input := map[string]any{"algorithm": alg, "declared_uncompressed_length": declared, "inflates_to": sizes[alg], "compressed_len": len(z),
				"compressed_payload": hexScript([][]byte{z})}
			// (a) decompressCert directly
			var res tls.VerifC21Result
			ok := true
			d := ^uint64(0)
			var ds []uint64
			for attempt := 0; attempt < 3 && ok; attempt++ { // serial re-measurement, smallest delta (see drive)
				runtime.GC()
				var m0, m1 runtime.MemStats
				runtime.ReadMemStats(&m0)
				ok = guard(c, "decompressCert", mutation, z[:16], func() {
					res = tls.VerifDecompressCert([]tls.CertCompressionAlgo{tls.CertCompressionAlgo(alg)}, alg, declared, z)
				})
				runtime.ReadMemStats(&m1)
				ds = append(ds, m1.TotalAlloc-m0.TotalAlloc)
				if ds[len(ds)-1] < d {
					d = ds[len(ds)-1]
				}
				if d <= allocLimit {
					break
				}
			}
			input["alloc_bytes_all_attempts"] = ds
			if ok {
				c.Count("runs/decompressCert-bomb")
				if d > allocLimit {
					c.Fail("alloc/"+mutation+"/decompressCert", fmt.Sprintf("decompressCert allocated %d bytes (limit %d) for a %d-byte payload declaring %d bytes", d, allocLimit, len(z), declared),
						input, map[string]any{"alloc_bytes": d, "err": fmt.Sprint(res.Err)}, "allocation bounded by the declared length, itself <= maxHandshakeCertificateMsg")
				}
				if res.Err == nil {
					c.Fail("accept/"+mutation+"/decompressCert", "decompressCert accepted a stream far longer than its declared length", input, "nil error", "bad_certificate")
				}
			}
			// (b) live
			n := 0
			for _, p := range parrots {
				if !p.usable13 || !hasAlg(p, alg) {
					continue
				}
				if n >= 2 && c.Tier == "quick" {
					break
				}
				n++
				d := declared
				s := &tls.VerifServerScript{CertCompression: alg, CompressedCert: z, CompressedCertULen: &d}
				r := drive(driveOpts{id: p.ID, spec: specOf(p), ccfg: clientCfg(pki, p), scfg: pki.ServerConfig("h2"), script: s})
				*live++
				in2 := map[string]any{"parrot": p.Name, "scenario": "decompression bomb"}
				for k, v := range input {
					in2[k] = v
				}
				judge(c, r, mutation, "CompressedCertificate", in2)
			}
		}
	}
}

// ---------------------------------------------------------------- server key_share lengths

func groupShareSize(g uint16) int {
	switch g {
	case uint16(tls.X25519):
		return 32
	case uint16(tls.CurveP256):
		return 65
	case uint16(tls.CurveP384):
		return 97
	case uint16(tls.CurveP521):
		return 133
	case uint16(tls.X25519MLKEM768), 0x6399: // X25519MLKEM768, X25519Kyber768Draft00: 1088-byte ciphertext + 32-byte share
		return 1120
	}
	return 0
}

// setServerShare rewrites the key_share extension of a ServerHello to (group, data) and fixes the length fields.
func setServerShare(b []byte, group uint16, data []byte) ([]byte, bool) {
	if len(b) < 4+2+32+1 {
		return nil, false
	}
	i := 4 + 2 + 32
	i += 1 + int(b[i])
	i += 3
	if i+2 > len(b) {
		return nil, false
	}
	exts := b[i+2:]
	var out []byte
	found := false
	for len(exts) >= 4 {
		id := uint16(exts[0])<<8 | uint16(exts[1])
		l := int(exts[2])<<8 | int(exts[3])
		if 4+l > len(exts) {
			return nil, false
		}
		if id == 51 {
			body := append([]byte{byte(group >> 8), byte(group), byte(len(data) >> 8), byte(len(data))}, data...)
			out = append(out, 0, 51, byte(len(body)>>8), byte(len(body)))
			out = append(out, body...)
			found = true
		} else {
			out = append(out, exts[:4+l]...)
		}
		exts = exts[4+l:]
	}
	if !found {
		return nil, false
	}
	body := append(append([]byte(nil), b[4:i]...), byte(len(out)>>8), byte(len(out)))
	body = append(body, out...)
	return append([]byte{2, byte(len(body) >> 16), byte(len(body) >> 8), byte(len(body))}, body...), true
}

// keyShareLengths: for every group a client sent a share for (hybrid groups first), a ServerHello whose key_share for that
// group has 0, 1, 31, 32, 33, size-1, size, size+1 bytes.
func keyShareLengths(c *vh.Ctx, pki *hs.PKI, parrots []*parrotInfo, live *int) {
	k := 0
	for _, p := range parrots {
		if !p.usable13 {
			continue
		}
		var hybrid, classical []uint16
		for _, g := range p.shares {
			sz := groupShareSize(g)
			if sz == 0 {
				continue
			}
			if sz > 200 {
				hybrid = append(hybrid, g)
			} else {
				classical = append(classical, g)
			}
		}
		for gi, g := range append(hybrid, classical...) {
			sz := groupShareSize(g)
			lens := []int{0, 1, 31, 32, 33, sz - 1, sz, sz + 1}
			if c.Tier == "quick" && gi >= len(hybrid) {
				// classical groups: three of the lengths per client in the quick tier, rotating
				lens = []int{lens[k%8], lens[(k+3)%8], lens[(k+5)%8]}
				k++
			}
			seen := map[int]bool{}
			for _, l := range lens {
				if l < 0 || seen[l] {
					continue
				}
				seen[l] = true
				data := make([]byte, l)
				c.Rng.Read(data)
				hit := false
				r := drive(driveOpts{id: p.ID, spec: specOf(p), ccfg: clientCfg(pki, p), scfg: pki.ServerConfig("h2"), deadline: gridDeadline,
					scriptFn: func() *tls.VerifServerScript {
						done := false
						return &tls.VerifServerScript{MutateHandshakeMsg: func(typ uint8, b []byte) []byte {
							if typ == 2 && !done {
								if nb, ok := setServerShare(b, g, data); ok {
									done, hit = true, true
									return nb
								}
							}
							return b
						}}
					}})
				*live++
				if !hit {
					c.Count("mutation-not-reached/keyshare")
				}
				judgeKey(c, r, fmt.Sprintf("keyshare-%d-bytes/ServerHello/group-0x%04x/%s", l, g, p.Name), fmt.Sprintf("ServerHello-keyshare/group-0x%04x", g),
					map[string]any{"parrot": p.Name, "scenario": "server key_share length", "group": g, "share_len": l, "honest_len": sz, "seed": c.Seed})
			}
		}
	}
}

// ---------------------------------------------------------------- well-formed but degenerate Certificate messages

func u24b(n int) []byte { return []byte{byte(n >> 16), byte(n >> 8), byte(n)} }

// certEntry13: CertificateEntry { opaque cert_data<1..2^24-1>; Extension extensions<0..2^16-1>; }
func certEntry13(der, exts []byte) []byte {
	out := append(u24b(len(der)), der...)
	out = append(out, byte(len(exts)>>8), byte(len(exts)))
	return append(out, exts...)
}

// certBody13: Certificate { opaque certificate_request_context<0..255>; CertificateEntry certificate_list<0..2^24-1>; }
func certBody13(ctx []byte, entries ...[]byte) []byte {
	var list []byte
	for _, e := range entries {
		list = append(list, e...)
	}
	out := append([]byte{byte(len(ctx))}, ctx...)
	out = append(out, u24b(len(list))...)
	return append(out, list...)
}

var certChecksN int

type degCert struct {
	name   string
	body   []byte
	ncerts int // entries in certificate_list when the body is well-formed with an empty context, else -1
}

func degenerate13(leaf []byte, rb func(int) []byte) []degCert {
	empty := certEntry13(nil, nil)
	var many [][]byte
	for i := 0; i < 300; i++ {
		many = append(many, empty)
	}
	short := certBody13(nil, certEntry13(leaf, nil))
	short[3]-- // certificate_list length one short: a trailing byte after the list
	return []degCert{
		{"empty-list", certBody13(nil), 0},
		{"one-empty-entry", certBody13(nil, empty), 1},
		{"context-nonempty-empty-list", certBody13([]byte{1}), -1},
		{"context-nonempty-valid-leaf", certBody13([]byte{7, 7}, certEntry13(leaf, nil)), -1},
		{"extensions-only-entry", certBody13(nil, certEntry13(nil, append([]byte{0, 5, 0, 5, 1, 0, 0, 1}, 0x30))), 1},
		{"valid-then-empty-entry", certBody13(nil, certEntry13(leaf, nil), empty), 2},
		{"empty-then-valid-entry", certBody13(nil, empty, certEntry13(leaf, nil)), 2},
		{"300-empty-entries", certBody13(nil, many...), 300},
		{"garbage-der", certBody13(nil, certEntry13(rb(40), nil)), 1},
		{"list-length-short", short, -1},
		{"no-body", []byte{}, -1},
		{"context-only", []byte{0}, -1},
	}
}

// degenerateCerts: Certificate messages that are well-formed at the message / compression layer but degenerate inside, sent
// (a) compressed with every algorithm the client advertises (stream well-formed, declared length exact), (b) uncompressed in
// place of the honest TLS 1.3 Certificate, (c) as TLS 1.2 Certificate messages.
func degenerateCerts(c *vh.Ctx, pki *hs.PKI, parrots []*parrotInfo, live *int) {
	rb := func(n int) []byte {
		b := make([]byte, n)
		c.Rng.Read(b)
		return b
	}
	leaf := pki.ECDSA.Certificate[0]
	vars := degenerate13(leaf, rb)
	names := map[uint16]string{1: "zlib", 2: "brotli", 3: "zstd"}
	// compressed payloads ahead of time (outside every measured window)
	comp := map[string]map[uint16][]byte{}
	for _, v := range vars {
		comp[v.name] = map[uint16][]byte{}
		for _, a := range []uint16{1, 2, 3} {
			if z, err := tls.VerifCompress(a, v.body); err == nil {
				comp[v.name][a] = z
			}
		}
	}
	report := func(r *driveResult, v degCert, compressed bool, mutation, message string, input map[string]any) {
		judge(c, r, mutation, message, input)
		if r.buildErr != nil || r.panicked || r.hung || v.ncerts < 0 {
			return
		}
		emptyErr := r.hsErr != nil && strings.Contains(r.hsErr.Error(), "received empty certificates message")
		certChecksN++
		if c.Tier == "quick" && v.ncerts != 0 && certChecksN%4 != 0 {
			return // the Go-side oracle saw the run; every 4th of the non-empty lists also goes to Coq
		}
		c.Case("cert-checks", fmt.Sprintf("(CCertChecks %s %d %s %s)", vh.Bool(compressed), v.ncerts, vh.Bool(emptyErr), vh.Bool(r.hsErr == nil)),
			fmt.Sprint(mutation, message, input["parrot"]), true, nil)
	}
	k := 0
	for _, p := range parrots {
		if !p.usable13 {
			continue
		}
		// (a) compressed
		for ai, alg := range p.ccAlgs {
			if names[alg] == "" || (c.Tier == "quick" && ai > 0 && len(p.ccAlgs) <= 1) {
				continue
			}
			for vi, v := range vars {
				if c.Tier == "quick" && vi >= 2 && (vi+k)%4 != 0 {
					continue // quick tier: the two emptiest lists for every client and algorithm, a rotating quarter of the rest
				}
				z, ok := comp[v.name][alg]
				if !ok || len(z) == 0 {
					// no stream to send (klauspost's zstd writer emits nothing for empty input); with a nil payload the in-process
					// server would run the encoder itself, inside the measured window
					c.Count("degenerate-skipped/no-compressed-stream/" + names[alg])
					continue
				}
				n := uint32(len(v.body))
				s := &tls.VerifServerScript{CertCompression: alg, CompressedCert: z, CompressedCertULen: &n}
				r := drive(driveOpts{id: p.ID, spec: specOf(p), ccfg: clientCfg(pki, p), scfg: pki.ServerConfig("h2"), script: s, deadline: gridDeadline})
				*live++
				report(r, v, true, "cert-"+v.name, "CompressedCertificate-"+names[alg], map[string]any{"parrot": p.Name, "scenario": "well-formed compressed certificate, degenerate content",
					"algorithm": alg, "declared_uncompressed_length": n, "certificate_message_body": vh.Hex(v.body), "compressed_payload": vh.Hex(z)})
			}
		}
		// (b) uncompressed, (c) TLS 1.2: three variants per client in the quick tier, rotating; all in thorough
		for vi, v := range vars {
			if c.Tier == "quick" && (vi+k)%6 != 0 {
				continue
			}
			msg := append(append([]byte{11}, u24b(len(v.body))...), v.body...)
			r := drive(driveOpts{id: p.ID, spec: specOf(p), ccfg: clientCfg(pki, p), scfg: pki.ServerConfig("h2"), deadline: gridDeadline,
				scriptFn: func() *tls.VerifServerScript {
					done := false
					return &tls.VerifServerScript{MutateHandshakeMsg: func(typ uint8, b []byte) []byte {
						if typ == 11 && !done {
							done = true
							return msg
						}
						return b
					}}
				}})
			*live++
			report(r, v, false, "cert-"+v.name, "Certificate", map[string]any{"parrot": p.Name, "scenario": "degenerate Certificate message", "sent_instead": vh.Hex(msg)})
		}
		k++
	}
	// (c) TLS 1.2: certificate_list<0..2^24-1> of opaque ASN.1Cert<1..2^24-1>
	body12 := func(ders ...[]byte) []byte {
		var list []byte
		for _, d := range ders {
			list = append(list, append(u24b(len(d)), d...)...)
		}
		return append(u24b(len(list)), list...)
	}
	vars12 := []degCert{
		{"empty-list", body12(), 0}, {"one-empty-entry", body12(nil), 1}, {"valid-then-empty-entry", body12(leaf, nil), 2},
		{"garbage-der", body12(rb(40)), 1}, {"no-body", []byte{}, -1},
	}
	for pi, p := range parrots {
		if !p.usable12 {
			continue
		}
		for vi, v := range vars12 {
			if c.Tier == "quick" && (vi+pi)%5 != 0 {
				continue
			}
			msg := append(append([]byte{11}, u24b(len(v.body))...), v.body...)
			scfg := pki.ServerConfig("h2")
			scfg.MaxVersion = tls.VersionTLS12
			r := drive(driveOpts{id: p.ID, spec: specOf(p), ccfg: clientCfg(pki, p), scfg: scfg, deadline: gridDeadline,
				scriptFn: func() *tls.VerifServerScript {
					done := false
					return &tls.VerifServerScript{MutateHandshakeMsg: func(typ uint8, b []byte) []byte {
						if typ == 11 && !done {
							done = true
							return msg
						}
						return b
					}}
				}})
			*live++
			judge(c, r, "cert-"+v.name, "Certificate12", map[string]any{"parrot": p.Name, "scenario": "degenerate TLS 1.2 Certificate message", "sent_instead": vh.Hex(msg)})
		}
	}
}

package main

import (
	"fmt"

	tls "github.com/refraction-networking/utls"
	"verif/harness/hs"
)

func main() {
	p := hs.SharedPKI()
	for _, cp := range []uint16{17513, 17613} {
		s := &tls.VerifServerScript{ALPSCodepoint: cp, ALPSData: []byte("server-settings"), ReadClientEE: true}
		ccfg := p.ClientConfig()
		ccfg.ApplicationSettings = map[string][]byte{"h2": []byte("client-settings"), "": []byte("EMPTYKEY")}
		r := hs.Run(hs.Opts{ID: tls.HelloChrome_120, ClientCfg: ccfg, ServerCfg: p.ServerConfig("h2"), Script: s})
		fmt.Printf("cp=%d clientErr=%v serverErr=%v peer=%q proto=%q ee=%x app=%v\n", cp, r.ClientErr, r.ServerErr, r.ClientState.PeerApplicationSettings, r.ClientState.NegotiatedProtocol, r.Trace.ClientEE, r.AppData)
	}
	// no ALPN
	s := &tls.VerifServerScript{ALPSCodepoint: 17513, ALPSData: []byte("x"), ReadClientEE: true}
	r := hs.Run(hs.Opts{ID: tls.HelloChrome_120, ClientCfg: p.ClientConfig(), ServerCfg: p.ServerConfig(), Script: s})
	fmt.Printf("noalpn clientErr=%v serverErr=%v alert=%d\n", r.ClientErr, r.ServerErr, r.AlertFromClient)
}

// C22 runner: ALPS against the scripted server of /repo/verif_server.go.
//
//   - live TLS 1.3 handshakes: ALPS-capable parrots (specs carrying ApplicationSettingsExtension / ApplicationSettingsExtensionNew)
//     plus a few others (the client accepts ALPS whether or not it offered it) x server code point {17513, 17613, both} x
//     Config.ApplicationSettings maps x the ALPN protocol the server selects; negatives: ALPS without ALPN, ALPS with an
//     ALPN protocol the client did not offer, ALPS next to early_data / quic_transport_parameters, ALPS in a TLS 1.2 / 1.1 ServerHello;
//   - parser level (hooks/verif_c22.go, verif_c34.go): encryptedExtensionsMsg.unmarshal on generated and mutated
//     EncryptedExtensions, utlsClientEncryptedExtensionsMsg.marshal up to and beyond the 16-bit limits, and
//     utlsClientEncryptedExtensionsMsg.unmarshal on every client EncryptedExtensions a server captured.
//
// Go-side oracle (from the property text, independent of the Coq model): alps-peer/<parrot>, alps-local/<parrot>,
// alps-finished/<parrot>, alps-reject/<kind>.
package main

import (
	"bytes"
	"fmt"
	"net"
	"sort"
	"strings"

	tls "github.com/refraction-networking/utls"
	"verif/harness/hs"
	"verif/harness/vh"
)

func main() { vh.Main(map[string]vh.Suite{"C22": {Corr: "Corr.C22Corr", Run: run}}) }

const (
	cpOld = 17513
	cpNew = 17613
)

type parrot struct {
	hs.Parrot
	alps uint16 // code point the spec offers, 0 = none
	psk  bool   // the spec carries a pre_shared_key extension (or it is HelloGolang): TLS 1.3 resumption possible
}

// alpsParrots: every predefined parrot whose spec carries an ALPS extension, then some that do not.
func alpsParrots(seed int64) []parrot {
	var with, without []parrot
	for _, p := range hs.Parrots() {
		spec, err := tls.UTLSIdToSpec(p.ID)
		if err != nil {
			continue
		}
		var cp uint16
		hasALPN, psk := false, false
		for _, e := range spec.Extensions {
			switch e.(type) {
			case *tls.ApplicationSettingsExtension:
				cp = cpOld
			case *tls.ApplicationSettingsExtensionNew:
				cp = cpNew
			case *tls.ALPNExtension:
				hasALPN = true
			case tls.PreSharedKeyExtension:
				psk = true
			}
		}
		if cp != 0 {
			with = append(with, parrot{p, cp, psk})
		} else if hasALPN {
			without = append(without, parrot{p, 0, psk})
		}
	}
	out := with
	for _, name := range []string{"Firefox_120", "Safari_16_0", "IOS_14"} {
		for _, p := range without {
			if p.Name == name {
				out = append(out, p)
			}
		}
	}
	out = append(out, parrot{hs.Parrot{Name: "Golang", ID: tls.HelloGolang}, 0, true})
	// randomized fingerprints that offer TLS 1.3 and ALPN
	nr := 0
	for _, p := range hs.RandomizedParrots(16, seed) {
		a, b := net.Pipe()
		uc := tls.UClient(a, &tls.Config{ServerName: hs.ServerName}, p.ID)
		err := uc.BuildHandshakeState()
		a.Close()
		b.Close()
		if err != nil {
			continue
		}
		v := tls.VerifClientViewOf(uc)
		if hs.ContainsU16(v.SupportedVersions, tls.VersionTLS13) && len(v.ALPN) > 0 && nr < 2 {
			out = append(out, parrot{p, 0, false})
			nr++
		}
	}
	return out
}

type mapKind struct {
	name string
	mk   func(rb func(int) []byte) map[string][]byte
}

var mapKinds = []mapKind{
	{"h2-only", func(rb func(int) []byte) map[string][]byte { return map[string][]byte{"h2": rb(12)} }},
	{"both", func(rb func(int) []byte) map[string][]byte {
		return map[string][]byte{"h2": rb(9), "http/1.1": rb(7)}
	}},
	// the F-22 witness: settings stored under the empty protocol name must never be what is sent for "h2"
	{"emptykey", func(rb func(int) []byte) map[string][]byte {
		return map[string][]byte{"": []byte("EMPTYKEY"), "h2": rb(10), "http/1.1": rb(5)}
	}},
	{"other-only", func(rb func(int) []byte) map[string][]byte { return map[string][]byte{"spdy/3": rb(6)} }},
	{"nil", func(rb func(int) []byte) map[string][]byte { return nil }},
	{"empty-value", func(rb func(int) []byte) map[string][]byte {
		return map[string][]byte{"h2": {}, "http/1.1": {}}
	}},
	{"long", func(rb func(int) []byte) map[string][]byte {
		return map[string][]byte{"h2": rb(300), "http/1.1": rb(260)}
	}},
}

func pairsTerm(m map[string][]byte) string {
	keys := make([]string, 0, len(m))
	for k := range m {
		keys = append(keys, k)
	}
	sort.Strings(keys)
	it := make([]string, len(keys))
	for i, k := range keys {
		it[i] = fmt.Sprintf("(%s, %s)", vh.Str(k), vh.Bytes(m[k]))
	}
	return vh.List(it)
}

func strsTerm(l []string) string {
	it := make([]string, len(l))
	for i, s := range l {
		it[i] = vh.Str(s)
	}
	return vh.List(it)
}

func optBytes(b []byte) string { return vh.Opt(b != nil, vh.Bytes(b)) }

// decodeClientEE: an independent reading of a client EncryptedExtensions message (one ALPS extension expected).
func decodeClientEE(b []byte) (cp uint16, settings []byte, ok bool) {
	if len(b) < 6 || b[0] != 8 {
		return 0, nil, false
	}
	n := int(b[1])<<16 | int(b[2])<<8 | int(b[3])
	if n != len(b)-4 {
		return 0, nil, false
	}
	el := int(b[4])<<8 | int(b[5])
	if el != len(b)-6 {
		return 0, nil, false
	}
	e := b[6:]
	if len(e) < 4 {
		return 0, nil, false
	}
	cp = uint16(e[0])<<8 | uint16(e[1])
	l := int(e[2])<<8 | int(e[3])
	if l != len(e)-4 {
		return 0, nil, false
	}
	return cp, e[4:], true
}

func ext(id uint16, data []byte) []byte {
	return append([]byte{byte(id >> 8), byte(id), byte(len(data) >> 8), byte(len(data))}, data...)
}

type scen struct {
	kind     string // "pos", "dup", "mtls-cert", "mtls-nocert", "first", "first-no-alpn", "resumed", "resumed-no-alpn", "no-alpn", "unoffered-alpn", "ee-early", "ee-quic", "tls12", "tls11"
	cp       uint16
	mapKind  int
	wantH2   bool // server prefers h2 (else http/1.1) among what the client offers
	alpsLen  int
	toCoq    bool
	sess     *session // non-nil: part of a two-connection history sharing a ClientSessionCache and the server's ticket keys
}

// session: what two connections of one history share.
type session struct {
	cache   tls.ClientSessionCache
	scfg    *tls.Config
	resumed bool // set by the second connection: the client resumed with the PSK
}

func run(c *vh.Ctx) {
	pki := hs.SharedPKI()
	rb := func(n int) []byte {
		b := make([]byte, n)
		for i := range b {
			b[i] = byte(c.Rng.Intn(256))
		}
		return b
	}
	parrots := alpsParrots(c.Seed)
	c.Extra["parrots"] = len(parrots)
	nALPS := 0
	for _, p := range parrots {
		if p.alps != 0 {
			nALPS++
		}
	}
	c.Extra["alps_capable_parrots"] = nALPS

	parserCases(c, rb)

	rounds := 1
	if c.Tier != "quick" {
		rounds = 1 + c.N/400
	}
	live := 0
	// control: a parrot that cannot complete an honest TLS 1.3 handshake with ALPN against this server says nothing about ALPS
	usable := parrots[:0:0]
	for _, p := range parrots {
		ccfg := pki.ClientConfig()
		if p.ID == tls.HelloGolang {
			ccfg.NextProtos = []string{"h2", "http/1.1"}
		}
		r := hs.Run(hs.Opts{ID: p.ID, ClientCfg: ccfg, ServerCfg: pki.ServerConfig("h2", "http/1.1")})
		if r.Completed() && r.ServerErr == nil && r.ClientState.Version == tls.VersionTLS13 && r.ClientState.NegotiatedProtocol != "" {
			usable = append(usable, p)
		} else {
			c.Count("skipped/baseline-handshake-fails/" + p.Name)
		}
	}
	parrots = usable
	c.Extra["usable_parrots"] = len(parrots)
	for round := 0; round < rounds; round++ {
		for pi, p := range parrots {
			var scs []scen
			for ci, cp := range []uint16{cpOld, cpNew} {
				for mk := range mapKinds {
					if c.Tier == "quick" && p.alps == 0 && mk > 2 {
						continue // non-ALPS parrots: a reduced grid in the quick tier
					}
					lens := []int{15, 0, 1, 32, 7, 24, 3}
					scs = append(scs, scen{kind: "pos", cp: cp, mapKind: mk, wantH2: (mk+ci+pi+round)%3 != 0, alpsLen: lens[(mk+ci+round)%len(lens)],
						toCoq: (mapKinds[mk].name != "long" && (c.Tier != "quick" || (mk+pi+ci)%4 != 3)) || (mapKinds[mk].name == "long" && (pi+ci)%4 == 0)})
				}
			}
			scs = append(scs,
				scen{kind: "dup", cp: cpOld, mapKind: 1, wantH2: true, alpsLen: 5, toCoq: true},
				scen{kind: "dup", cp: cpNew, mapKind: 2, wantH2: pi%2 == 0, alpsLen: 4, toCoq: true},
				scen{kind: "no-alpn", cp: []uint16{cpOld, cpNew}[pi%2], mapKind: 0, alpsLen: 6, toCoq: true},
				scen{kind: "unoffered-alpn", cp: []uint16{cpNew, cpOld}[pi%2], mapKind: 1, alpsLen: 6, toCoq: true},
				scen{kind: "tls12", cp: []uint16{cpOld, cpNew}[pi%2], mapKind: 1, wantH2: true, alpsLen: 6, toCoq: true},
			)
			if pi%3 == round%3 {
				scs = append(scs,
					scen{kind: "ee-early", cp: cpOld, mapKind: 0, wantH2: true, alpsLen: 3, toCoq: true},
					scen{kind: "ee-quic", cp: cpNew, mapKind: 0, wantH2: true, alpsLen: 3, toCoq: true},
					scen{kind: "tls11", cp: cpOld, mapKind: 0, wantH2: true, alpsLen: 3, toCoq: true},
					scen{kind: "no-alps", cp: 0, mapKind: 1, wantH2: true, toCoq: true})
			}
			// mutual TLS: the server also sends a CertificateRequest; the client answers with a certificate or an empty one
			scs = append(scs,
				scen{kind: "mtls-cert", cp: []uint16{cpOld, cpNew}[pi%2], mapKind: pi % 3, wantH2: true, alpsLen: 9, toCoq: true},
				scen{kind: "mtls-nocert", cp: []uint16{cpNew, cpOld}[pi%2], mapKind: (pi + 1) % 3, wantH2: pi%3 != 0, alpsLen: 4, toCoq: true})
			// two-connection histories: a full handshake that earns a ticket, then a connection that (for PSK-capable clients)
			// resumes with it while the server negotiates ALPS again; once with and once without ALPN on both connections
			newSess := func(alpn ...string) *session {
				scfg := pki.ServerConfig(alpn...)
				scfg.SessionTicketsDisabled = false
				return &session{cache: tls.NewLRUClientSessionCache(4), scfg: scfg}
			}
			if p.psk || c.Tier != "quick" {
				s1 := newSess("h2", "http/1.1")
				scs = append(scs,
					scen{kind: "first", cp: cpOld, mapKind: 1, wantH2: true, alpsLen: 5, toCoq: false, sess: s1},
					scen{kind: "resumed", cp: []uint16{cpNew, cpOld}[pi%2], mapKind: 1, wantH2: true, alpsLen: 11, toCoq: true, sess: s1})
				s2 := newSess()
				scs = append(scs,
					scen{kind: "first-no-alpn", cp: 0, mapKind: 0, toCoq: false, sess: s2},
					scen{kind: "resumed-no-alpn", cp: []uint16{cpOld, cpNew}[pi%2], mapKind: 0, alpsLen: 6, toCoq: true, sess: s2})
			}
			for _, s := range scs {
				one(c, pki, p, s, rb)
				live++
			}
		}
	}
	c.Extra["live_handshakes"] = live
}

var liveN int

func one(c *vh.Ctx, pki *hs.PKI, p parrot, s scen, rb func(int) []byte) {
	settings := mapKinds[s.mapKind].mk(rb)
	ccfg := pki.ClientConfig()
	ccfg.ApplicationSettings = settings
	if p.ID == tls.HelloGolang {
		ccfg.NextProtos = []string{"h2", "http/1.1"}
	}
	alpsData := rb(s.alpsLen)
	prefs := []string{"h2", "http/1.1"}
	if !s.wantH2 {
		prefs = []string{"http/1.1", "h2"}
	}
	scfg := pki.ServerConfig(prefs...)
	if s.sess != nil {
		scfg = s.sess.scfg
		prefs = scfg.NextProtos
		ccfg.ClientSessionCache = s.sess.cache
	}
	script := &tls.VerifServerScript{ALPSCodepoint: s.cp, ALPSData: alpsData, ReadClientEE: s.cp != 0}
	expCp, expData := s.cp, alpsData
	var serverEE []byte
	var mutate func(typ uint8, b []byte) []byte
	switch s.kind {
	case "dup":
		// the other code point as well, after the first: the last one counts
		other := uint16(cpOld + cpNew - int(s.cp))
		d2 := rb(s.alpsLen + 2)
		script.ExtraEncryptedExtensions = append(ext(0x3a3a, rb(2)), ext(other, d2)...)
		expCp, expData = other, d2
	case "mtls-cert", "mtls-nocert":
		scfg.ClientAuth = tls.RequestClientCert
		if s.kind == "mtls-cert" {
			ccfg.Certificates = []tls.Certificate{pki.ECDSA}
		}
	case "no-alpn":
		scfg = pki.ServerConfig()
	case "unoffered-alpn":
		script.ALPN = "zz-unoffered"
	case "ee-early":
		script.ExtraEncryptedExtensions = ext(42, nil)
	case "ee-quic":
		script.ExtraEncryptedExtensions = ext(57, rb(3))
	case "tls12", "tls11":
		scfg.MaxVersion = tls.VersionTLS12
		if s.kind == "tls11" {
			scfg.MaxVersion = tls.VersionTLS11
		}
		script = &tls.VerifServerScript{}
		mutate = func(typ uint8, b []byte) []byte {
			if typ == 2 {
				if nb, ok := addServerHelloExt(b, ext(s.cp, alpsData)); ok {
					return nb
				}
			}
			return b
		}
	}
	script.MutateHandshakeMsg = func(typ uint8, b []byte) []byte {
		if mutate != nil {
			b = mutate(typ, b)
		}
		if typ == 8 && serverEE == nil {
			serverEE = append([]byte(nil), b...)
		}
		if typ == 2 && (s.kind == "tls12" || s.kind == "tls11") {
			serverEE = append([]byte(nil), b...) // the mutated ServerHello, for the report
		}
		return b
	}
	r := hs.Run(hs.Opts{ID: p.ID, ClientCfg: ccfg, ServerCfg: scfg, Script: script})
	if r.BuildErr != nil {
		c.Count("parrot-build-error/" + p.Name)
		return
	}
	if s.kind != "tls12" && s.kind != "tls11" && (r.Wire == nil || !hs.ContainsU16(r.Wire.SupportedVersions, tls.VersionTLS13)) {
		c.Count("skipped/hello-without-tls13/" + p.Name)
		return
	}
	completed := r.ClientErr == nil
	peer := r.ClientState.PeerApplicationSettings
	proto := r.ClientState.NegotiatedProtocol
	cee := r.Trace.ClientEE
	input := map[string]any{"parrot": p.Name, "kind": s.kind, "server_codepoint": s.cp, "server_alps": vh.Hex(alpsData),
		"server_prefs": prefs, "client_settings": hexMap(settings), "client_alpn": r.View.ALPN, "server_message": vh.Hex(serverEE)}
	got := map[string]any{"client_err": fmt.Sprint(r.ClientErr), "server_err": fmt.Sprint(r.ServerErr), "peer_application_settings": vh.Hex(peer),
		"negotiated_protocol": proto, "client_encrypted_extensions": vh.Hex(cee), "alert_from_client": r.AlertFromClient, "version": r.ClientState.Version}
	key := fmt.Sprintf("%s/%s/%d/%s/%v", p.Name, s.kind, s.cp, mapKinds[s.mapKind].name, s.wantH2)

	if s.sess != nil {
		input["history"] = "second connection of a history sharing ClientSessionCache and ticket keys: " + fmt.Sprint(s.kind == "resumed" || s.kind == "resumed-no-alpn")
		got["did_resume"] = r.ClientState.DidResume
		if s.kind == "resumed" || s.kind == "resumed-no-alpn" {
			if r.ClientState.DidResume {
				c.Count("resumed-connections")
			} else if completed {
				c.Count("not-resumed/" + p.Name)
			}
		}
	}
	// the first message of the client's second flight as the server met it
	firstOfFlight := 0
	switch {
	case cee != nil:
		firstOfFlight = 8
	case r.ServerErr != nil && strings.Contains(r.ServerErr.Error(), "unexpected handshake message of type *tls.certificateMsgTLS13"):
		firstOfFlight = 11
	case r.ServerErr != nil && strings.Contains(r.ServerErr.Error(), "unexpected handshake message of type *tls.finishedMsg"):
		firstOfFlight = 20
	case r.ServerErr != nil && strings.Contains(r.ServerErr.Error(), "unexpected handshake message of type *tls.certificateVerifyMsg"):
		firstOfFlight = 15
	}
	got["first_message_of_client_flight"] = firstOfFlight

	switch s.kind {
	case "pos", "dup", "mtls-cert", "mtls-nocert", "first", "resumed":
		want, _ := hs.NegotiatedALPN(prefs, r.View.ALPN)
		if want == "" {
			c.Count("skipped/no-common-alpn")
			return
		}
		switch {
		case !completed:
			c.Fail("alps-peer/"+p.Name, "the server negotiated application settings for the selected ALPN protocol under TLS 1.3 and the client's handshake failed",
				input, got, "handshake completes")
		case r.ClientState.Version != tls.VersionTLS13 || proto != want:
			c.Fail("alps-setup/"+p.Name, "scripted run did not negotiate TLS 1.3 with the expected ALPN protocol", input, got, want)
		default:
			if !bytes.Equal(peer, expData) {
				c.Fail("alps-peer/"+p.Name, "ConnectionState.PeerApplicationSettings differs from the settings the server sent", input, got, vh.Hex(expData))
			}
			gcp, gset, ok := decodeClientEE(cee)
			wantLocal, configured := settings[proto]
			switch {
			case cee == nil:
				c.Fail("alps-local/"+p.Name, "the client sent no EncryptedExtensions message before its Finished", input, got, "client EncryptedExtensions with application settings")
			case !ok || gcp != expCp:
				c.Fail("alps-local/"+p.Name, "the client's EncryptedExtensions does not carry application settings on the code point the server used", input, got, expCp)
			case configured && !bytes.Equal(gset, wantLocal):
				c.Fail("alps-local/"+p.Name, "the client's EncryptedExtensions does not carry Config.ApplicationSettings[negotiated protocol]", input, got, vh.Hex(wantLocal))
			}
			if cee == nil && firstOfFlight != 0 {
				c.Fail("alps-order/"+p.Name, fmt.Sprintf("the client's second flight does not start with its EncryptedExtensions: the server, waiting for it right after its own Finished, met handshake type %d", firstOfFlight),
					input, got, "EncryptedExtensions, then Certificate / CertificateVerify if requested, then Finished")
			}
			if r.ServerErr != nil || !r.AppData {
				c.Fail("alps-finished/"+p.Name, "the server could not finish the handshake (client Finished / first application record) after reading the client's EncryptedExtensions into its transcript",
					input, got, "server accepts the client Finished")
			}
		}
	case "first-no-alpn":
		if !completed || r.ServerErr != nil {
			c.Count("history-first-connection-failed/" + p.Name)
		}
	case "resumed-no-alpn":
		if completed {
			c.Fail("alps-reject/no-alpn-resumed", "the client accepted application settings although no ALPN protocol was negotiated (second connection of a history, resumed="+fmt.Sprint(r.ClientState.DidResume)+")",
				input, got, "handshake aborted")
		}
	case "no-alps":
		if !completed || len(peer) != 0 || r.ServerErr != nil {
			c.Fail("alps-absent/"+p.Name, "without application settings from the server the handshake must complete with none exposed and no client EncryptedExtensions", input, got, "completed, none")
		}
	case "no-alpn":
		if completed {
			c.Fail("alps-reject/no-alpn", "the client accepted application settings although no ALPN protocol was negotiated", input, got, "handshake aborted")
		}
	case "unoffered-alpn":
		if completed {
			c.Fail("alps-reject/unoffered-alpn", "the client accepted application settings for an ALPN protocol it did not offer", input, got, "handshake aborted")
		}
	case "tls12", "tls11":
		if r.ClientState.Version >= tls.VersionTLS13 && completed {
			c.Fail("alps-setup/"+p.Name, "scripted run did not negotiate TLS <= 1.2", input, got, "TLS 1.2")
		} else if completed && (len(peer) != 0 || r.ServerErr != nil) {
			c.Fail("alps-reject/"+s.kind, "the client accepted (exposed or answered) application settings under TLS below 1.3", input, got, "aborted, or nothing exposed and nothing answered")
		}
	}
	nontrivial := s.cp != 0

	// correspondence with the model
	if s.kind == "tls12" || s.kind == "tls11" {
		if !completed && r.ClientState.Version == 0 {
			// a parrot that cannot speak this version: nothing to compare
			c.Count("skipped/" + s.kind + "-not-offered")
			return
		}
		var seen []byte
		if completed && r.ServerErr != nil {
			seen = []byte{8} // something unexpected reached the server
		}
		vers := r.ClientState.Version
		if vers == 0 {
			vers = scfg.MaxVersion
		}
		c.Case("run12", fmt.Sprintf("(CRun12 %d %s %s %s)", vers, vh.Bool(completed), vh.Bytes(peer), optBytes(seen)), key, nontrivial, input)
		return
	}
	if serverEE == nil {
		c.Count("skipped/no-server-ee")
		return
	}
	if s.cp != 0 && firstOfFlight != 0 && completed && (s.kind == "mtls-cert" || s.kind == "mtls-nocert" || liveN%8 == 0) {
		ncert := map[string]int{"mtls-cert": 2, "mtls-nocert": 1}[s.kind]
		c.Case("flight-order", fmt.Sprintf("(CFlight %d %d %d)", expCp, ncert, firstOfFlight), key, ncert > 0, nil)
	}
	if s.toCoq {
		c.Case("run13", fmt.Sprintf("(CRun %s %s %s %s %d %s %s %s %s)", strsTerm(r.View.ALPN), pairsTerm(settings), vh.Bytes(serverEE),
			vh.Bool(completed), hs.ClientAlert(r), vh.Bytes(peer), vh.Str(proto), optBytes(cee), vh.Bool(r.ClientState.DidResume)), key, nontrivial, input)
		liveN++
		if liveN%5 == 0 {
			eeCase(c, serverEE, "live/"+key)
		}
		if cee != nil && liveN%3 == 1 {
			ok, cp, set := tls.VerifC34UnmarshalClientEE(cee)
			o := "None"
			if ok {
				o = fmt.Sprintf("(Some (%d, %s))", cp, vh.Bytes(set))
			}
			c.Case("cee-unmarshal", fmt.Sprintf("(CCeeU %s %s)", vh.Bytes(cee), o), "live/"+key, ok, nil)
		}
	} else {
		c.Count("go-oracle-only/" + s.kind)
	}
}

func hexMap(m map[string][]byte) map[string]string {
	out := map[string]string{}
	for k, v := range m {
		out[k] = vh.Hex(v)
	}
	return out
}

// addServerHelloExt appends one extension to a ServerHello handshake message and fixes the two length fields.
func addServerHelloExt(b []byte, e []byte) ([]byte, bool) {
	if len(b) < 4+2+32+1 {
		return nil, false
	}
	i := 4 + 2 + 32
	i += 1 + int(b[i]) // session id
	i += 2 + 1         // suite, compression
	if i > len(b) {
		return nil, false
	}
	var exts []byte
	if i < len(b) {
		if i+2 > len(b) {
			return nil, false
		}
		exts = b[i+2:]
	}
	exts = append(append([]byte(nil), exts...), e...)
	body := append(append([]byte(nil), b[4:i]...), byte(len(exts)>>8), byte(len(exts)))
	body = append(body, exts...)
	return append([]byte{b[0], byte(len(body) >> 16), byte(len(body) >> 8), byte(len(body))}, body...), true
}

// ---------------------------------------------------------------- parser level

func eeMsg(exts []byte) []byte {
	n := len(exts) + 2
	return append([]byte{8, byte(n >> 16), byte(n >> 8), byte(n), byte(len(exts) >> 8), byte(len(exts))}, exts...)
}

func alpnExt(proto string) []byte {
	d := append([]byte{0, byte(1 + len(proto)), byte(len(proto))}, proto...)
	return ext(16, d)
}

func eeCase(c *vh.Ctx, data []byte, key string) {
	var f tls.VerifEEFields
	if panicked, val := vh.Recover(func() { f = tls.VerifC22UnmarshalEE(data) }); panicked {
		c.Fail("panic/encryptedExtensionsMsg.unmarshal", fmt.Sprint(val), vh.Hex(data), "panic", "true or false")
		return
	}
	q, e := "None", "None"
	if f.HasQUIC {
		q = "(Some " + vh.Bytes(f.QUIC) + ")"
	}
	if f.HasECH {
		e = "(Some " + vh.Bytes(f.ECH) + ")"
	}
	c.Case("ee-unmarshal", fmt.Sprintf("(CEe %s %s %s %d %s %s %s %s)", vh.Bytes(data), vh.Bool(f.OK), vh.Str(f.ALPN), f.Codepoint,
		vh.Bytes(f.Settings), vh.Bool(f.EarlyData), q, e), key+"|"+vh.Hex(data), f.OK && f.Codepoint != 0, nil)
}

func parserCases(c *vh.Ctx, rb func(int) []byte) {
	// (1) encryptedExtensionsMsg.unmarshal
	shapes := map[string][]byte{
		"empty":          eeMsg(nil),
		"alpn":           eeMsg(alpnExt("h2")),
		"alpn+old":       eeMsg(append(alpnExt("h2"), ext(cpOld, rb(5))...)),
		"alpn+new":       eeMsg(append(alpnExt("http/1.1"), ext(cpNew, rb(9))...)),
		"new-empty":      eeMsg(append(alpnExt("h2"), ext(cpNew, nil)...)),
		"old+new":        eeMsg(append(append(alpnExt("h2"), ext(cpOld, rb(3))...), ext(cpNew, rb(4))...)),
		"new+old":        eeMsg(append(append(ext(cpNew, rb(3)), ext(cpOld, rb(4))...), alpnExt("h2")...)),
		"alps-only":      eeMsg(ext(cpOld, rb(6))),
		"unknown+alps":   eeMsg(append(ext(0x1a1a, rb(2)), ext(cpNew, rb(2))...)),
		"early":          eeMsg(append(ext(42, nil), ext(cpOld, rb(2))...)),
		"early-nonempty": eeMsg(ext(42, []byte{1})),
		"quic":           eeMsg(append(ext(57, rb(4)), ext(cpOld, rb(2))...)),
		"quic-empty":     eeMsg(ext(57, nil)),
		"ech":            eeMsg(append(ext(0xfe0d, rb(5)), ext(cpNew, rb(2))...)),
		"alpn-empty":     eeMsg(ext(16, []byte{0, 0})),
		"alpn-two":       eeMsg(ext(16, []byte{0, 6, 2, 'h', '2', 2, 'h', '3'})),
		"alpn-zero-name": eeMsg(ext(16, []byte{0, 1, 0})),
		"alpn-trailing":  eeMsg(ext(16, []byte{0, 3, 2, 'h', '2', 9})),
		"alpn-twice":     eeMsg(append(alpnExt("h2"), alpnExt("h3")...)),
		"custom-1234":    eeMsg(ext(1234, rb(3))),
	}
	names := make([]string, 0, len(shapes))
	for k := range shapes {
		names = append(names, k)
	}
	sort.Strings(names)
	reps := 1
	if c.Tier != "quick" {
		reps = 6
	}
	for _, name := range names {
		base := shapes[name]
		eeCase(c, base, "shape/"+name)
		for rep := 0; rep < reps; rep++ {
			for _, mut := range []string{"truncate", "bitflip", "hs-len", "ext-len", "inner-len", "append", "drop-first"} {
				d := append([]byte(nil), base...)
				switch mut {
				case "truncate":
					d = d[:c.Rng.Intn(len(d))]
				case "bitflip":
					i := c.Rng.Intn(len(d))
					d[i] ^= 1 << uint(c.Rng.Intn(8))
				case "hs-len":
					d[3] += byte(1 + c.Rng.Intn(3))
				case "ext-len":
					d[5] += byte(c.Rng.Intn(5)) - 2
				case "inner-len":
					if len(d) >= 10 {
						d[9] += byte(c.Rng.Intn(5)) - 2
					}
				case "append":
					d = append(d, rb(1+c.Rng.Intn(3))...)
				case "drop-first":
					d = d[1:]
				}
				eeCase(c, d, "mut/"+name+"/"+mut)
			}
		}
	}
	// (2) utlsClientEncryptedExtensionsMsg.marshal: small values, then the 16-bit limits with zero padding
	type mc struct {
		cp       uint16
		settings []byte
		pad      int
		custom   []byte
	}
	var mcs []mc
	for _, cp := range []uint16{0, cpOld, cpNew, 1, 0xffff} {
		for _, n := range []int{0, 1, 17} {
			mcs = append(mcs, mc{cp, rb(n), 0, nil})
		}
	}
	mcs = append(mcs, mc{cpOld, rb(3), 0, rb(4)}, mc{0, nil, 0, rb(2)}, mc{cpNew, nil, 0, []byte{}})
	for _, pad := range []int{65000, 65528, 65529, 65531, 65532, 65533} {
		mcs = append(mcs, mc{cpNew, []byte{1, 2}, pad, nil})
	}
	mcs = append(mcs, mc{0, []byte{1, 2}, 65534, nil}, mc{cpOld, []byte{7}, 65000, rb(600)})
	for _, m := range mcs {
		full := append(append([]byte(nil), m.settings...), make([]byte, m.pad)...)
		out, err := tls.VerifC22MarshalClientEE(m.cp, full, m.custom)
		o := "None"
		if err == nil {
			if m.pad > 0 && len(out) >= m.pad && bytes.Equal(out[len(out)-m.pad:], make([]byte, m.pad)) && len(out)-m.pad < 400 {
				o = "(Some (" + vh.Bytes(out[:len(out)-m.pad]) + ", true))"
			} else if len(out) < 400 {
				o = "(Some (" + vh.Bytes(out) + ", false))"
			} else {
				c.Count("marshal-long-skipped") // output too long to ship to Coq as a literal
				continue
			}
		}
		c.Case("cee-marshal", fmt.Sprintf("(CCeeM %d %s %d %s %s)", m.cp, vh.Bytes(m.settings), m.pad, vh.Bytes(m.custom), o),
			fmt.Sprint(m.cp, len(m.settings), m.pad, len(m.custom)), err == nil && m.cp != 0, nil)
		if err == nil && len(out) < 400 {
			ok, cp, set := tls.VerifC34UnmarshalClientEE(out)
			d := "None"
			if ok {
				d = fmt.Sprintf("(Some (%d, %s))", cp, vh.Bytes(set))
			}
			c.Case("cee-unmarshal", fmt.Sprintf("(CCeeU %s %s)", vh.Bytes(out), d), "marshal/"+vh.Hex(out), ok, nil)
			// codec round trip on the real code (property text: what is sent is what the server decodes)
			if (m.cp == cpOld || m.cp == cpNew) && len(m.custom) == 0 && (!ok || cp != m.cp || !bytes.Equal(set, full)) {
				c.Fail("alps-codec", "client EncryptedExtensions does not decode to the settings that were marshaled", vh.Hex(out), fmt.Sprint(ok, cp, vh.Hex(set)), vh.Hex(full))
			}
		}
	}
}

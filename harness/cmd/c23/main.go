// c23: UQUICConn <-> QUICServer pump under randomized pump order, chunking and failure injections.
// Every client API call runs under a watchdog; the observed call/return/event trace is emitted as a Coq
// case that Model/Quic.v must accept, and the property's own oracle is applied on the Go side.
package main

import (
	"context"
	"fmt"
	"strings"
	"sync/atomic"
	"time"

	utls "github.com/refraction-networking/utls"

	"verif/harness/vh"
)

func main() {
	vh.Main(map[string]vh.Suite{"C23": {Corr: "Corr.C23Corr", Run: run}})
}

const watchdog = 2 * time.Second

// ---- specs ----

type specVariant struct {
	name string
	mk   func() *utls.ClientHelloSpec
}

func quicSpec(curves []utls.CurveID, shares []utls.CurveID, grease bool, alpn []string, tps utls.TransportParameters) *utls.ClientHelloSpec {
	ks := make([]utls.KeyShare, 0, len(shares)+1)
	var exts []utls.TLSExtension
	if grease {
		exts = append(exts, &utls.UtlsGREASEExtension{})
		curves = append([]utls.CurveID{utls.GREASE_PLACEHOLDER}, curves...)
		ks = append(ks, utls.KeyShare{Group: utls.GREASE_PLACEHOLDER, Data: []byte{0}})
	}
	for _, g := range shares {
		ks = append(ks, utls.KeyShare{Group: g})
	}
	exts = append(exts,
		&utls.SNIExtension{},
		&utls.SupportedCurvesExtension{Curves: curves},
		&utls.ALPNExtension{AlpnProtocols: alpn},
		&utls.SignatureAlgorithmsExtension{SupportedSignatureAlgorithms: []utls.SignatureScheme{
			utls.ECDSAWithP256AndSHA256, utls.PSSWithSHA256, utls.PKCS1WithSHA256, utls.ECDSAWithP384AndSHA384, utls.PSSWithSHA384}},
		&utls.KeyShareExtension{KeyShares: ks},
		&utls.PSKKeyExchangeModesExtension{Modes: []uint8{utls.PskModeDHE}},
		&utls.SupportedVersionsExtension{Versions: []uint16{utls.VersionTLS13}},
		&utls.QUICTransportParametersExtension{TransportParameters: tps},
	)
	if grease {
		exts = append(exts, &utls.UtlsGREASEExtension{})
	}
	return &utls.ClientHelloSpec{
		TLSVersMin: utls.VersionTLS13, TLSVersMax: utls.VersionTLS13,
		CipherSuites:       []uint16{utls.TLS_AES_128_GCM_SHA256, utls.TLS_AES_256_GCM_SHA384, utls.TLS_CHACHA20_POLY1305_SHA256},
		CompressionMethods: []uint8{0},
		Extensions:         exts,
	}
}

func tpsA() utls.TransportParameters {
	return utls.TransportParameters{utls.InitialMaxData(1 << 20), utls.MaxIdleTimeout(30000), utls.InitialSourceConnectionID([]byte{})}
}
func tpsB() utls.TransportParameters {
	return utls.TransportParameters{utls.MaxUDPPayloadSize(1472), utls.InitialMaxStreamsBidi(100), &utls.GREASEQUICBit{},
		utls.InitialSourceConnectionID([]byte{1, 2, 3, 4}), utls.ActiveConnectionIDLimit(8)}
}

var specs = []specVariant{
	{"x25519", func() *utls.ClientHelloSpec {
		return quicSpec([]utls.CurveID{utls.X25519, utls.CurveP256, utls.CurveP384}, []utls.CurveID{utls.X25519}, false, []string{"h3"}, tpsA())
	}},
	{"p256-first", func() *utls.ClientHelloSpec {
		return quicSpec([]utls.CurveID{utls.CurveP256, utls.X25519}, []utls.CurveID{utls.CurveP256}, false, []string{"h3"}, tpsB())
	}},
	{"two-shares-grease", func() *utls.ClientHelloSpec {
		return quicSpec([]utls.CurveID{utls.X25519, utls.CurveP256, utls.CurveP384}, []utls.CurveID{utls.X25519, utls.CurveP256}, true, []string{"h3", "h3-29"}, tpsA())
	}},
	{"p384-share", func() *utls.ClientHelloSpec {
		return quicSpec([]utls.CurveID{utls.CurveP384, utls.CurveP256, utls.X25519}, []utls.CurveID{utls.CurveP384}, true, []string{"h3"}, tpsB())
	}},
}

// ---- scenario ----

type scenario struct {
	inj      string // injection kind
	spec     int
	id       string // "custom" | "golang" | predefined id name
	hrr      bool
	ticket   bool // server sends a session ticket after completion (client post-handshake HandleData)
	stress   bool // driver "random"
	driver   string // how the QUIC layer drives the API: drain-all | eager | feed-first | random
	cutStep  int  // step at which cancel/close/wrong-level is injected
	tpPreset bool // golang: SetTransportParameters before Start
}

var injections = []string{
	"none", "none", "none", "hrr", "hrr", "no-servername", "minversion-low", "unbuildable-spec", "server-alert-alpn",
	"client-verify-fail", "cancel-before-start", "cancel-mid", "close-mid", "wrong-level", "predefined-no-qtp",
	"golang", "golang-close-waiting-tp", "golang-cancel-waiting-tp", "golang-no-servername", "ticket",
}

var drivers = []string{"drain-all", "eager", "feed-first", "random"}

var predefined = map[string]utls.ClientHelloID{
	"Chrome_133": utls.HelloChrome_133, "Firefox_120": utls.HelloFirefox_120, "Chrome_120": utls.HelloChrome_120,
}

// ---- observation ----

type ev struct {
	kind  int
	level int
}

func (e ev) coq() string {
	lv := []string{"LvInitial", "LvEarly", "LvHandshake", "LvApp"}[e.level]
	switch e.kind {
	case 1:
		return "(EReadSecret " + lv + ")"
	case 2:
		return "(EWriteSecret " + lv + ")"
	case 3:
		return "(EWriteData " + lv + ")"
	case 4:
		return "ETransportParams"
	case 5:
		return "ETPRequired"
	case 6:
		return "ERejectedEarly"
	case 7:
		return "EHandshakeDone"
	}
	return ""
}

type obs struct {
	call   string // KStart ...
	ret    string // RNil | RErr | (REvent ...)
	events  []ev // events created during this blocking call (filled in by coqCase from the global stream)
	created int  // number of events the call created (pending after - pending before)
	block  bool   // a call that can block on the channels
	noSync bool   // SetTransportParameters before Start: touches no channel
	errTxt string
}

type client struct {
	q        *utls.UQUICConn
	trace    []obs
	calls    []string // human-readable call trace for replay
	hung     string
	allEv    []ev
	outData  [][2]any // (level, bytes) to the server, in order
	crypto   map[int][]byte
	unknown  bool
	started  bool
	finished bool // the goroutine is known to have ended (error returned, or HandshakeDone seen)
	done     bool
	inLevel  int
}

// guard runs one API call under the watchdog. A call that is merely slow (loaded machine) is told apart from a
// hang by a grace period: only a call still blocked after watchdog+grace counts as hung.
const grace = 4 * time.Second

var slowCalls atomic.Int64

func guard(f func() error) (err error, hung bool) {
	ch := make(chan error, 1)
	go func() { ch <- f() }()
	select {
	case err = <-ch:
		return err, false
	case <-time.After(watchdog):
	}
	select {
	case err = <-ch:
		slowCalls.Add(1)
		return err, false
	case <-time.After(grace):
		return nil, true
	}
}

func retOf(err error) string {
	if err != nil {
		return "RErr"
	}
	return "RNil"
}

func (cl *client) blocking(call, name string, f func() error) (error, bool) {
	cl.calls = append(cl.calls, name)
	before := cl.q.VerifPendingEvents()
	err, hung := guard(f)
	if hung {
		cl.hung = name
		return nil, true
	}
	o := obs{call: call, ret: retOf(err), block: true, created: cl.q.VerifPendingEvents() - before}
	if err != nil {
		o.errTxt = err.Error()
	}
	cl.trace = append(cl.trace, o)
	return err, false
}

// drain pops events until NoEvent (or at most max events when max >= 0); returns the number of real events popped
func (cl *client) drain(max int) int {
	got := 0
	for n := 0; max < 0 || n < max; n++ {
		var e utls.QUICEvent
		_, hung := guard(func() error { e = cl.q.NextEvent(); return nil })
		if hung {
			cl.hung = "NextEvent"
			return got
		}
		cl.calls = append(cl.calls, fmt.Sprintf("NextEvent->%d/%d", int(e.Kind), int(e.Level)))
		if e.Kind == utls.QUICNoEvent {
			cl.trace = append(cl.trace, obs{call: "KNextEvent", ret: "(REvent None)"})
			return got
		}
		got++
		x := ev{int(e.Kind), int(e.Level)}
		if x.coq() == "" {
			cl.unknown = true
		}
		cl.allEv = append(cl.allEv, x)
		cl.trace = append(cl.trace, obs{call: "KNextEvent", ret: "(REvent (Some " + x.coq() + "))"})
		switch e.Kind {
		case utls.QUICWriteData:
			cl.outData = append(cl.outData, [2]any{e.Level, append([]byte(nil), e.Data...)})
			cl.crypto[int(e.Level)] = append(cl.crypto[int(e.Level)], e.Data...)
		case utls.QUICSetReadSecret:
			cl.inLevel = int(e.Level)
		case utls.QUICHandshakeDone:
			cl.done = true
		}
	}
	return got
}

// ---- server side (upstream-style QUICConn from the utls package) ----

type server struct {
	q       *utls.QUICConn
	out     [][2]any
	done    bool
	err     error
	hung    bool
	started bool
}

func (s *server) drain(ticket bool) {
	for {
		var e utls.QUICEvent
		_, hung := guard(func() error { e = s.q.NextEvent(); return nil })
		if hung {
			s.hung = true
			return
		}
		switch e.Kind {
		case utls.QUICNoEvent:
			return
		case utls.QUICWriteData:
			s.out = append(s.out, [2]any{e.Level, append([]byte(nil), e.Data...)})
		case utls.QUICHandshakeDone:
			s.done = true
			if ticket {
				guard(func() error { return s.q.SendSessionTicket(utls.QUICSessionTicketOptions{}) })
			}
		}
	}
}

// ---- one run ----

type result struct {
	sc       scenario
	cl       *client
	srv      *server
	key      string
	cancelAt int
}

func describe(sc scenario) string {
	return fmt.Sprintf("%s/%s/%s/%s", sc.inj, sc.id, specs[sc.spec].name, sc.driver)
}

func runOne(c *vh.Ctx, pki *vh.TestPKI, sc scenario, rng interface{ Intn(int) int }) *result {
	cert := utls.Certificate{Certificate: [][]byte{pki.LeafDER}, PrivateKey: pki.LeafKey}
	scfg := &utls.Config{Certificates: []utls.Certificate{cert}, MinVersion: utls.VersionTLS13, NextProtos: []string{"h3"}}
	ccfg := &utls.Config{ServerName: "example.com", InsecureSkipVerify: true, MinVersion: utls.VersionTLS13, NextProtos: []string{"h3"}}
	switch sc.inj {
	case "hrr":
		// the server insists on a group the client offered no share for
		switch specs[sc.spec].name {
		case "x25519":
			scfg.CurvePreferences = []utls.CurveID{utls.CurveP256}
		case "p256-first":
			scfg.CurvePreferences = []utls.CurveID{utls.X25519}
		case "two-shares-grease":
			// (a server that picks the second offered share is defect F-10/18 of properties C10/C18, not exercised here)
			scfg.CurvePreferences = []utls.CurveID{utls.CurveP384}
		case "p384-share":
			scfg.CurvePreferences = []utls.CurveID{utls.X25519}
		}
	case "no-servername", "golang-no-servername":
		ccfg.ServerName = ""
		ccfg.InsecureSkipVerify = false
	case "minversion-low":
		ccfg.MinVersion = utls.VersionTLS12
	case "server-alert-alpn":
		scfg.NextProtos = []string{"not-h3"}
	case "client-verify-fail":
		ccfg.InsecureSkipVerify = false
		ccfg.ServerName = "wrong.example.org"
	}
	id := utls.HelloCustom
	switch {
	case sc.id == "golang":
		id = utls.HelloGolang
	case sc.id != "custom":
		id = predefined[sc.id]
	}
	cl := &client{q: utls.UQUICClient(&utls.QUICConfig{TLSConfig: ccfg}, id), crypto: map[int][]byte{}}
	res := &result{sc: sc, cl: cl, key: describe(sc), cancelAt: -1}
	if sc.id == "custom" {
		sp := specs[sc.spec].mk()
		if sc.inj == "unbuildable-spec" {
			// a key share for a group the package cannot generate a key for, and no data supplied
			for _, e := range sp.Extensions {
				if ks, ok := e.(*utls.KeyShareExtension); ok {
					ks.KeyShares = []utls.KeyShare{{Group: utls.CurveID(0x4242)}}
				}
			}
			// ApplyPreset happens inside Start (BuildHandshakeState) when the spec is attached to a custom id only via ApplyPreset;
			// attach it lazily by wrapping: HelloCustom + no preset makes BuildHandshakeState fail as well.
		}
		if sc.inj != "unbuildable-spec" {
			if err := cl.q.ApplyPreset(sp); err != nil && ccfg.ServerName != "" {
				c.Fail("apply-preset/"+res.key, "ApplyPreset rejected a valid TLS 1.3 QUIC spec", res.key, err.Error(), "nil")
				return res
			}
		}
	}
	srv := &server{q: utls.QUICServer(&utls.QUICConfig{TLSConfig: scfg})}
	res.srv = srv
	srv.q.SetTransportParameters([]byte{0x01, 0x02, 0x67, 0x10})
	ctx, cancel := context.WithCancel(context.Background())
	defer cancel()

	envCancel := func() {
		cancel()
		cl.calls = append(cl.calls, "ctx.cancel")
		cl.trace = append(cl.trace, obs{call: "KCancel", ret: "RNil"})
		// give the handshake goroutine no particular time: both orders are behaviours of the model
	}
	noteEnd := func(err error) {
		if err != nil {
			cl.finished = true
		}
	}
	afterCall := func() {
		if cl.hung != "" {
			return
		}
		switch sc.driver {
		case "drain-all":
			cl.drain(-1)
		case "random":
			cl.drain(rng.Intn(4)) // partial drain
		default:
			// eager / feed-first: events are popped one at a time by the pump below
		}
		if cl.done {
			cl.finished = true
		}
	}

	if sc.id == "golang" && sc.tpPreset {
		cl.blocking("KSetTP", "SetTransportParameters(pre)", func() error { cl.q.SetTransportParameters([]byte{9, 9}); return nil })
		cl.trace[len(cl.trace)-1].noSync = true
	}
	if sc.inj == "cancel-before-start" {
		envCancel()
	}
	err, hung := cl.blocking("KStart", "Start", func() error { return cl.q.Start(ctx) })
	if hung {
		return res
	}
	cl.started = true
	noteEnd(err)
	afterCall()
	if err != nil && sc.inj != "minversion-low" && cl.hung == "" {
		// the handshake goroutine has ended with an error: HandleData must still return (with that error)
		e, h := cl.blocking("KHandleData", "HandleData(after failed Start)", func() error {
			return cl.q.HandleData(utls.QUICEncryptionLevelInitial, []byte{2, 0, 0, 0})
		})
		if h {
			return res
		}
		if e == nil {
			c.Fail("handledata-after-failure/"+res.key, "HandleData returned nil on a connection whose handshake had failed", cl.calls, "nil", "error")
		}
		afterCall()
	}
	if sc.inj == "minversion-low" {
		cl.finished = true // no goroutine exists
	}
	if _, h := guard(func() error { return srv.q.Start(context.Background()) }); h {
		srv.hung = true
		return res
	}
	srv.drain(sc.ticket)

	// golang: answer TPRequired (or close / cancel while it is pending)
	if sc.id == "golang" && !sc.tpPreset && err == nil && sc.inj != "minversion-low" {
		switch sc.inj {
		case "golang-close-waiting-tp":
			// fallthrough to the final Close below
		case "golang-cancel-waiting-tp":
			envCancel()
		default:
			if _, h := cl.blocking("KSetTP", "SetTransportParameters", func() error { cl.q.SetTransportParameters([]byte{9, 9}); return nil }); h {
				return res
			}
			afterCall()
		}
	}

	sent := 0 // index into cl.outData already handed to the server
	recv := 0 // index into srv.out already handed to the client
	var pendingToClient []byte
	pendingLevel := utls.QUICEncryptionLevelInitial
	step := 0
	for iter := 0; iter < 3000 && cl.hung == "" && !srv.hung; iter++ {
		step++
		if step == sc.cutStep {
			switch sc.inj {
			case "cancel-mid":
				envCancel()
			case "close-mid":
				goto closing
			case "wrong-level":
				// a client never reads at the Early level, so this is wrong whatever keys are installed
				// (the runner's own idea of the current level can be stale when events are drained partially)
				lv := utls.QUICEncryptionLevelEarly
				cl.calls = append(cl.calls, fmt.Sprintf("HandleData(wrong level %d)", lv))
				e, h := guard(func() error { return cl.q.HandleData(lv, []byte{1, 0, 0, 0}) })
				if h {
					cl.hung = "HandleData(wrong level)"
					return res
				}
				cl.trace = append(cl.trace, obs{call: "KWrongLevel", ret: retOf(e)})
				if e == nil {
					c.Fail("wrong-level-accepted/"+res.key, "HandleData accepted data at the wrong encryption level", cl.calls, "nil", "error")
				}
			}
		}
		haveC2S := sent < len(cl.outData)
		haveS2C := len(pendingToClient) > 0 || recv < len(srv.out)
		canPop := cl.q.VerifPendingEvents() > 0
		// which action next: "c2s" (client CRYPTO data to the server), "s2c" (a chunk to the client), "pop" (one NextEvent)
		act := ""
		switch sc.driver {
		case "drain-all": // the queue is empty here
			switch {
			case haveC2S && (!haveS2C || rng.Intn(2) == 0):
				act = "c2s"
			case haveS2C:
				act = "s2c"
			}
		case "eager": // a synchronous driver: act on every event at once, feed replies back at once
			switch {
			case haveC2S:
				act = "c2s"
			case haveS2C:
				act = "s2c"
			case canPop:
				act = "pop"
			}
		case "feed-first":
			switch {
			case haveS2C:
				act = "s2c"
			case haveC2S:
				act = "c2s"
			case canPop:
				act = "pop"
			}
		default: // random
			var en []string
			if haveC2S {
				en = append(en, "c2s")
			}
			if haveS2C {
				en = append(en, "s2c")
			}
			if canPop {
				en = append(en, "pop")
			}
			if len(en) > 0 {
				act = en[rng.Intn(len(en))]
			}
		}
		if act == "" {
			break
		}
		if act == "pop" {
			cl.drain(1)
			if cl.done {
				cl.finished = true
			}
			continue
		}
		if act == "c2s" {
			d := cl.outData[sent]
			sent++
			if srv.err == nil {
				e, h := guard(func() error { return srv.q.HandleData(d[0].(utls.QUICEncryptionLevel), d[1].([]byte)) })
				if h {
					srv.hung = true
					return res
				}
				srv.err = e
				srv.drain(sc.ticket)
			}
			continue
		}
		if len(pendingToClient) == 0 {
			pendingLevel = srv.out[recv][0].(utls.QUICEncryptionLevel)
			pendingToClient = srv.out[recv][1].([]byte)
			recv++
		}
		n := len(pendingToClient)
		if n > 1 && rng.Intn(3) != 0 {
			n = 1 + rng.Intn(n)
		}
		chunk := pendingToClient[:n]
		pendingToClient = pendingToClient[n:]
		lv := pendingLevel
		e, h := cl.blocking("KHandleData", fmt.Sprintf("HandleData(%v,%d bytes)", lv, len(chunk)), func() error { return cl.q.HandleData(lv, chunk) })
		if h {
			return res
		}
		noteEnd(e)
		afterCall()
		if e != nil {
			break
		}
	}
closing:
	if cl.hung == "" {
		_, h := cl.blocking("KClose", "Close", func() error { return cl.q.Close() })
		if !h {
			cl.drain(-1)
			if sc.inj == "cancel-mid" || sc.inj == "cancel-before-start" {
				// late cancel after Close has no effect either
				cancel()
			}
		}
	}
	guard(func() error { return srv.q.Close() })
	return res
}

// ---- script reconstruction and Coq case ----

func (cl *client) coqCase(mvOK bool, tpPreset bool) (string, bool) {
	var acts []string
	finished := false
	hsOK := false
	failed := false
	// the i-th event created is the i-th event popped (FIFO): hand every blocking call its share of the stream
	off := 0
	for i := range cl.trace {
		if !cl.trace[i].block {
			continue
		}
		n := cl.trace[i].created
		if n < 0 || off+n > len(cl.allEv) {
			return "", false
		}
		cl.trace[i].events = cl.allEv[off : off+n]
		off += n
	}
	if off != len(cl.allEv) {
		return "", false
	}
	for _, o := range cl.trace {
		if !o.block {
			continue
		}
		if finished {
			if len(o.events) > 0 {
				return "", false // events after the goroutine ended: let the model reject via a plain emit
			}
			continue
		}
		evs := o.events
		done := false
		for _, e := range evs {
			if e.kind == 7 {
				done = true
			}
		}
		if done {
			// the last two events are created by handshakeContext itself, not by the script
			if len(evs) < 2 || evs[len(evs)-2].kind != 7 || evs[len(evs)-1].kind != 1 || evs[len(evs)-1].level != 3 {
				return "", false
			}
			evs = evs[:len(evs)-2]
		}
		for _, e := range evs {
			acts = append(acts, "AEmit "+e.coq())
		}
		switch {
		case done:
			finished, hsOK = true, true
		case o.ret == "RErr" && o.call != "KStart" || o.call == "KStart" && o.ret == "RErr":
			finished, failed = true, true
		case o.call == "KClose":
			finished = true
		case o.noSync:
			// before Start: no interaction
		default:
			acts = append(acts, "AWait")
		}
	}
	_ = failed
	split := len(acts)
	for i, a := range acts {
		if a == "AEmit (EWriteData LvInitial)" {
			split = i
			break
		}
	}
	build, hs := acts[:split], acts[split:]
	buildOK := split < len(acts) || !failed
	var items []string
	for _, o := range cl.trace {
		items = append(items, fmt.Sprintf("(%s, %s)", o.call, o.ret))
	}
	return fmt.Sprintf("CTrace %s %s %s %s %s %s %s", vh.Bool(mvOK), vh.Bool(tpPreset), vh.List(build), vh.Bool(buildOK),
		vh.List(hs), vh.Bool(hsOK), vh.List(items)), true
}

// ---- the property's oracle on the Go side ----

func orderViolation(evs []ev, completed bool) string {
	seen := map[ev]int{}
	for _, e := range evs {
		switch e.kind {
		case 1: // read secret
			if e.level == 3 && seen[ev{7, 0}] == 0 {
				return "1-RTT read secret before HandshakeDone"
			}
			if e.level != 1 && seen[ev{2, e.level}] == 0 {
				return fmt.Sprintf("read secret for level %d before its write secret", e.level)
			}
			if seen[e] > 0 {
				return "read secret delivered twice"
			}
		case 2:
			if seen[e] > 0 {
				return "write secret delivered twice"
			}
		case 4:
			if seen[e] > 0 {
				return "peer transport parameters delivered twice"
			}
		case 7:
			if seen[e] > 0 {
				return "HandshakeDone twice"
			}
		}
		seen[e]++
	}
	if completed {
		if seen[ev{4, 0}] != 1 {
			return "completed handshake without exactly one QUICTransportParameters event"
		}
		if seen[ev{1, 2}] != 1 || seen[ev{1, 3}] != 1 || seen[ev{2, 2}] != 1 || seen[ev{2, 3}] != 1 {
			return "completed handshake without all four secrets"
		}
	}
	return ""
}

// parse CRYPTO bytes of one level as handshake messages; returns message types, whether it is well formed
// (a trailing partial message is malformed here: the client always writes whole messages), and the
// session-id lengths of the ClientHellos found
func parseHS(b []byte) (types []byte, ok bool, sidLens []int) {
	for len(b) > 0 {
		if len(b) < 4 {
			return types, false, sidLens
		}
		n := int(b[1])<<16 | int(b[2])<<8 | int(b[3])
		if len(b) < 4+n {
			return types, false, sidLens
		}
		types = append(types, b[0])
		if b[0] == 1 && n >= 35 {
			sidLens = append(sidLens, int(b[4+2+32]))
		}
		b = b[4+n:]
	}
	return types, true, sidLens
}

func run(c *vh.Ctx) {
	pki := vh.NewTestPKI("example.com")
	runs := c.N
	hangs := 0
	completed := 0
	hangSeen := map[string]int{}
	for i := 0; i < runs; i++ {
		sc := scenario{inj: injections[i%len(injections)], spec: c.Rng.Intn(len(specs)), id: "custom"}
		if i >= len(injections)*len(specs) { // after the systematic part, random
			sc.inj = injections[c.Rng.Intn(len(injections))]
		} else {
			sc.spec = (i / len(injections)) % len(specs)
		}
		switch {
		case sc.inj == "minversion-low":
			// ApplyPreset overwrites Config.MinVersion from the spec, so only an id without preset keeps a low MinVersion
			sc.id = "golang"
			sc.tpPreset = true
		case strings.HasPrefix(sc.inj, "golang"):
			sc.id = "golang"
			sc.tpPreset = sc.inj == "golang" && c.Rng.Intn(2) == 0
		case sc.inj == "predefined-no-qtp":
			names := []string{"Chrome_133", "Firefox_120", "Chrome_120"}
			sc.id = names[c.Rng.Intn(len(names))]
		}
		sc.ticket = sc.inj == "ticket" || c.Rng.Intn(4) == 0
		sc.cutStep = 1 + c.Rng.Intn(12)
		sc.driver = drivers[(i/len(injections)+i)%len(drivers)]
		if i >= len(injections)*len(drivers) {
			sc.driver = drivers[c.Rng.Intn(len(drivers))]
		}
		sc.stress = sc.driver == "random"
		sub := vh.NewRand(c.Seed*1000003 + int64(i))
		if hangSeen[sc.inj+"/"+sc.id] >= 2 {
			// this injection already hung twice (4 s of watchdog): reported, do not pay for it again
			c.Count("skipped-after-hang:" + sc.inj)
			continue
		}
		res := runOne(c, pki, sc, sub)
		cl := res.cl
		key := res.key
		c.Count("inj:" + sc.inj)
		input := map[string]any{"scenario": key, "seed": c.Seed, "run": i, "hrr": sc.inj == "hrr", "driver": sc.driver,
			"ticket": sc.ticket, "cut_step": sc.cutStep, "calls": cl.calls}

		// (1) every call returns
		if cl.hung != "" {
			hangs++
			hangSeen[sc.inj+"/"+sc.id]++
			c.Fail("hang/"+strings.SplitN(cl.hung, "(", 2)[0]+"/"+sc.inj+"/"+sc.id,
				"UQUICConn."+cl.hung+" did not return within "+(watchdog+grace).String(), input, "blocked", "returns")
			continue
		}
		if res.srv != nil && res.srv.hung {
			c.Fail("server-hang/"+key, "the QUICServer side of the pump did not return", input, "blocked", "returns")
			continue
		}
		// (2) completion when nothing was injected
		expectComplete := sc.inj == "none" || sc.inj == "hrr" || sc.inj == "ticket" || sc.inj == "golang" || sc.inj == "wrong-level"
		if cl.done {
			completed++
		}
		if expectComplete && !(cl.done && res.srv.done) {
			last := ""
			for _, o := range cl.trace {
				if o.errTxt != "" {
					last = o.errTxt
				}
			}
			c.Fail("incomplete/"+key, "handshake did not complete on both sides", input,
				fmt.Sprintf("client done=%v server done=%v server err=%v client err=%q", cl.done, res.srv.done, res.srv.err, last), "HandshakeDone on both sides")
		}
		if !expectComplete && cl.done && sc.inj != "close-mid" && sc.inj != "cancel-mid" && sc.inj != "cancel-before-start" &&
			sc.inj != "golang-cancel-waiting-tp" {
			c.Fail("unexpected-complete/"+key, "handshake completed despite the injected failure", input, "HandshakeDone", "error")
		}
		// (3) event order, parameters exactly once
		if v := orderViolation(cl.allEv, cl.done); v != "" {
			c.Fail("event-order/"+key, v, input, fmt.Sprint(cl.allEv), "RFC 9001 order")
		}
		// (4) ClientHello: empty legacy session id; CRYPTO data are handshake messages only (no CCS)
		if init := cl.crypto[0]; len(init) > 0 {
			types, ok, sids := parseHS(init)
			bad := !ok
			for _, t := range types {
				if t != 1 {
					bad = true
				}
			}
			ccs := 0
			if bad {
				ccs = 1
			}
			sid := 0
			for _, s := range sids {
				if s > sid {
					sid = s
				}
			}
			if bad || sid != 0 {
				c.Fail("hello/"+key, "client Initial CRYPTO data must be ClientHello messages with an empty legacy_session_id and nothing else",
					input, fmt.Sprintf("types=%v wellformed=%v session_id_lens=%v", types, ok, sids), "ClientHello only, session id length 0")
			}
			if sc.inj == "hrr" && len(sids) != 2 && cl.done {
				c.Fail("hrr-not-exercised/"+key, "expected two ClientHellos in an HRR run", input, len(sids), 2)
			}
			c.OracleCase("hello", fmt.Sprintf("CHello true %d %d", sid, ccs), "hello/"+key,
				"ClientHello carries a legacy session id or a CCS record on a QUIC connection", input, len(sids) > 1)
		}
		if hs := cl.crypto[2]; len(hs) > 0 {
			types, ok, _ := parseHS(hs)
			for _, t := range types {
				if t != 11 && t != 15 && t != 20 {
					ok = false
				}
			}
			if !ok {
				c.Fail("hs-crypto/"+key, "client Handshake-level CRYPTO data must be Certificate/CertificateVerify/Finished only", input, fmt.Sprint(types), "11,15,20")
			}
		}
		// (5) Coq cases
		if len(cl.allEv) > 0 && !cl.unknown {
			items := make([]string, len(cl.allEv))
			for j, e := range cl.allEv {
				items[j] = e.coq()
			}
			c.OracleCase("order", fmt.Sprintf("COrder %s %s", vh.List(items), vh.Bool(cl.done)), "event-order/"+key,
				"event sequence violates the order proved for the model (RFC 9001)", input, len(items) > 3)
		}
		if !cl.unknown {
			if term, ok := cl.coqCase(sc.inj != "minversion-low", sc.tpPreset); ok {
				c.Case("trace", term, fmt.Sprintf("%s|%d|%v", key, len(cl.trace), cl.calls), cl.done || len(cl.trace) > 6,
					map[string]any{"scenario": key, "calls": cl.calls})
			} else {
				c.Fail("trace-shape/"+key, "events appeared after the handshake goroutine had ended, or HandshakeDone/1-RTT read secret were not the last two events of the completing call",
					input, fmt.Sprint(cl.trace), "no events after the end")
			}
		}
	}
	c.Extra["runs"] = runs
	c.Extra["hangs"] = hangs
	c.Extra["slow_calls_over_2s"] = slowCalls.Load()
	c.Extra["completed_handshakes"] = completed
}

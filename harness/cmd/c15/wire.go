package main

import (
	"errors"
	"fmt"
	"strings"

	tls "github.com/refraction-networking/utls"
	"verif/harness/vh"
)

// ---- independent ClientHello reader / writer (not the library's) ----

type rawExt struct {
	ID   uint16
	Body []byte
}

type rawHello struct {
	Vers    uint16
	Random  []byte
	Sid     []byte
	Suites  []uint16
	Comp    []byte
	Exts    []rawExt
	HasExts bool
}

type rd struct {
	b  []byte
	ok bool
}

func (r *rd) u8() int {
	if !r.ok || len(r.b) < 1 {
		r.ok = false
		return 0
	}
	v := int(r.b[0])
	r.b = r.b[1:]
	return v
}
func (r *rd) u16() int { a := r.u8(); b := r.u8(); return a<<8 | b }
func (r *rd) u24() int { a := r.u8(); b := r.u16(); return a<<16 | b }
func (r *rd) take(n int) []byte {
	if !r.ok || n < 0 || len(r.b) < n {
		r.ok = false
		return nil
	}
	v := r.b[:n]
	r.b = r.b[n:]
	return v
}

// parseHello parses a handshake-framed ClientHello (type, u24 length, body).
func parseHello(msg []byte) (*rawHello, error) {
	r := &rd{msg, true}
	if r.u8() != 1 {
		return nil, errors.New("not a ClientHello")
	}
	body := r.take(r.u24())
	if !r.ok {
		return nil, errors.New("truncated")
	}
	r = &rd{body, true}
	h := &rawHello{}
	h.Vers = uint16(r.u16())
	h.Random = r.take(32)
	h.Sid = r.take(r.u8())
	sb := r.take(r.u16())
	h.Comp = r.take(r.u8())
	if !r.ok || len(sb)%2 != 0 {
		return nil, errors.New("bad fixed part")
	}
	for i := 0; i < len(sb); i += 2 {
		h.Suites = append(h.Suites, uint16(sb[i])<<8|uint16(sb[i+1]))
	}
	if len(r.b) == 0 {
		return h, nil
	}
	h.HasExts = true
	eb := r.take(r.u16())
	if !r.ok {
		return nil, errors.New("bad extension block")
	}
	er := &rd{eb, true}
	for len(er.b) > 0 {
		id := er.u16()
		b := er.take(er.u16())
		if !er.ok {
			return nil, errors.New("bad extension")
		}
		h.Exts = append(h.Exts, rawExt{uint16(id), b})
	}
	return h, nil
}

func (h *rawHello) ext(id uint16) *rawExt {
	for i := range h.Exts {
		if h.Exts[i].ID == id {
			return &h.Exts[i]
		}
	}
	return nil
}

func put16(b []byte, v int) []byte { return append(b, byte(v>>8), byte(v)) }
func lp8(b, x []byte) []byte       { return append(append(b, byte(len(x))), x...) }
func lp16(b, x []byte) []byte      { return append(put16(b, len(x)), x...) }

func extsBytes(es []rawExt) []byte {
	var b []byte
	for _, e := range es {
		b = put16(b, int(e.ID))
		b = lp16(b, e.Body)
	}
	return b
}

// writeHello frames a ClientHello the plain way.
func writeHello(h *rawHello) []byte {
	var b []byte
	b = put16(b, int(h.Vers))
	b = append(b, h.Random...)
	b = lp8(b, h.Sid)
	var sb []byte
	for _, s := range h.Suites {
		sb = put16(sb, int(s))
	}
	b = lp16(b, sb)
	b = lp8(b, h.Comp)
	b = lp16(b, extsBytes(h.Exts))
	out := []byte{1, byte(len(b) >> 16), byte(len(b) >> 8), byte(len(b))}
	return append(out, b...)
}

// sniName extracts the host_name of a server_name extension body.
func sniName(body []byte) (string, bool) {
	r := &rd{body, true}
	l := r.take(r.u16())
	if !r.ok {
		return "", false
	}
	r = &rd{l, true}
	for len(r.b) > 0 {
		t := r.u8()
		n := r.take(r.u16())
		if !r.ok {
			return "", false
		}
		if t == 0 {
			return string(n), true
		}
	}
	return "", false
}

type share struct {
	Group uint16
	Data  []byte
}

func parseKeyShares(body []byte) ([]share, bool) {
	r := &rd{body, true}
	l := r.take(r.u16())
	if !r.ok || len(r.b) != 0 {
		return nil, false
	}
	r = &rd{l, true}
	var out []share
	for len(r.b) > 0 {
		g := r.u16()
		d := r.take(r.u16())
		if !r.ok {
			return nil, false
		}
		out = append(out, share{uint16(g), d})
	}
	return out, true
}

// outer encrypted_client_hello body: 0 ‖ kdf ‖ aead ‖ config id ‖ u16lp enc ‖ u16lp payload
type outerECH struct {
	Kdf, Aead uint16
	ConfigID  uint8
	Enc       []byte
	Payload   []byte
}

func parseOuterECH(body []byte) (*outerECH, bool) {
	r := &rd{body, true}
	if r.u8() != 0 {
		return nil, false
	}
	o := &outerECH{}
	o.Kdf = uint16(r.u16())
	o.Aead = uint16(r.u16())
	o.ConfigID = uint8(r.u8())
	o.Enc = r.take(r.u16())
	o.Payload = r.take(r.u16())
	if !r.ok || len(r.b) != 0 {
		return nil, false
	}
	return o, true
}

// splitRecords returns the plaintext handshake messages of type ClientHello found in the
// client's recorded byte stream (records of type 22 before the first application_data-typed record).
func clientHellos(stream []byte) [][]byte {
	var hs []byte
	r := &rd{stream, true}
	for len(r.b) >= 5 {
		typ := r.u8()
		r.u16()
		frag := r.take(r.u16())
		if !r.ok {
			break
		}
		if typ == 22 {
			hs = append(hs, frag...)
		}
		if typ == 23 {
			break
		}
	}
	var out [][]byte
	for len(hs) >= 4 {
		n := int(hs[1])<<16 | int(hs[2])<<8 | int(hs[3])
		if len(hs) < 4+n {
			break
		}
		if hs[0] == 1 {
			out = append(out, hs[:4+n])
		}
		hs = hs[4+n:]
	}
	return out
}

// ---- Coq emitters ----

func coqExts(es []rawExt) string {
	it := make([]string, len(es))
	for i, e := range es {
		it[i] = fmt.Sprintf("(%d, %s)", e.ID, vh.Bytes(e.Body))
	}
	return vh.List(it)
}

func coqHelloFields(h *rawHello, name string) string {
	return fmt.Sprintf("%d %s %s %s %s %s", h.Vers, vh.Bytes(h.Random), vh.Bytes(h.Sid), vh.U16s(h.Suites), vh.Bytes(h.Comp), vh.Str(name))
}

func coqOptU16s(present bool, xs []uint16) string {
	if !present {
		return "None"
	}
	return "(Some " + vh.U16s(xs) + ")"
}

func coqShares(ks []tls.KeyShare) string {
	it := make([]string, len(ks))
	for i, k := range ks {
		it[i] = fmt.Sprintf("(%d, %s)", uint16(k.Group), vh.Bytes(k.Data))
	}
	return vh.List(it)
}

func decodeErrCode(err error) int {
	s := err.Error()
	switch {
	case s == "tls: invalid inner client hello":
		return 1
	case s == "tls: invalid outer extensions":
		return 2
	case s == "tls: malformed outer client hello":
		return 3
	case s == "tls: invalid reconstructed inner client hello":
		return 4
	case s == "tls: client sent invalid encrypted_client_hello extension":
		return 5
	case strings.Contains(s, "incompatible versions"):
		return 6
	case strings.Contains(s, "cryptobyte"):
		return 7
	}
	return 0
}

func coqObs(b []byte, err error, code int) string {
	if err != nil {
		return fmt.Sprintf("(OErr %d)", code)
	}
	return "(OBytes " + vh.Bytes(b) + ")"
}

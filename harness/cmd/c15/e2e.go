package main

import (
	"bytes"
	"crypto/ecdh"
	"crypto/rand"
	"crypto/x509"
	"errors"
	"fmt"
	"net"
	"reflect"
	"strings"
	"sync"
	"time"

	tls "github.com/refraction-networking/utls"
	"verif/harness/vh"
)

// every predefined non-randomized ClientHelloID; the ECH-capable ones are selected at run time
// (those whose spec contains an EncryptedClientHelloExtension), plus HelloGolang.
var allIDs = []struct {
	Name string
	ID   tls.ClientHelloID
}{
	{"Firefox_55", tls.HelloFirefox_55}, {"Firefox_56", tls.HelloFirefox_56}, {"Firefox_63", tls.HelloFirefox_63},
	{"Firefox_65", tls.HelloFirefox_65}, {"Firefox_99", tls.HelloFirefox_99}, {"Firefox_102", tls.HelloFirefox_102},
	{"Firefox_105", tls.HelloFirefox_105}, {"Firefox_120", tls.HelloFirefox_120},
	{"Chrome_58", tls.HelloChrome_58}, {"Chrome_62", tls.HelloChrome_62}, {"Chrome_70", tls.HelloChrome_70},
	{"Chrome_72", tls.HelloChrome_72}, {"Chrome_83", tls.HelloChrome_83}, {"Chrome_87", tls.HelloChrome_87},
	{"Chrome_96", tls.HelloChrome_96}, {"Chrome_100", tls.HelloChrome_100}, {"Chrome_102", tls.HelloChrome_102},
	{"Chrome_106_Shuffle", tls.HelloChrome_106_Shuffle}, {"Chrome_100_PSK", tls.HelloChrome_100_PSK},
	{"Chrome_112_PSK_Shuf", tls.HelloChrome_112_PSK_Shuf}, {"Chrome_114_Padding_PSK_Shuf", tls.HelloChrome_114_Padding_PSK_Shuf},
	{"Chrome_115_PQ", tls.HelloChrome_115_PQ}, {"Chrome_115_PQ_PSK", tls.HelloChrome_115_PQ_PSK},
	{"Chrome_120", tls.HelloChrome_120}, {"Chrome_120_PQ", tls.HelloChrome_120_PQ}, {"Chrome_131", tls.HelloChrome_131},
	{"Chrome_133", tls.HelloChrome_133},
	{"IOS_11_1", tls.HelloIOS_11_1}, {"IOS_12_1", tls.HelloIOS_12_1}, {"IOS_13", tls.HelloIOS_13}, {"IOS_14", tls.HelloIOS_14},
	{"Android_11_OkHttp", tls.HelloAndroid_11_OkHttp}, {"Edge_85", tls.HelloEdge_85}, {"Edge_106", tls.HelloEdge_106},
	{"Safari_16_0", tls.HelloSafari_16_0}, {"360_7_5", tls.Hello360_7_5}, {"360_11_0", tls.Hello360_11_0}, {"QQ_11_1", tls.HelloQQ_11_1},
}

type namedID struct {
	Name string
	ID   tls.ClientHelloID
}

func echCapable() (capable []namedID, not []string) {
	capable = append(capable, namedID{"Golang", tls.HelloGolang})
	for _, x := range allIDs {
		spec, err := tls.UTLSIdToSpec(x.ID)
		if err != nil {
			not = append(not, x.Name)
			continue
		}
		has := false
		for _, e := range spec.Extensions {
			if _, ok := e.(tls.EncryptedClientHelloExtension); ok {
				has = true
			}
		}
		if has {
			capable = append(capable, namedID{x.Name, x.ID})
		} else {
			not = append(not, x.Name)
		}
	}
	return
}

// ---- ECH configs ----

type echKey struct {
	priv   *ecdh.PrivateKey
	config []byte // one ECHConfig
}

func marshalECHConfig(id uint8, pub []byte, publicName string, maxNameLen uint8, aeads []uint16) []byte {
	var c []byte
	c = append(c, id)
	c = put16(c, 0x0020) // DHKEM(X25519, HKDF-SHA256)
	c = lp16(c, pub)
	var cs []byte
	for _, a := range aeads {
		cs = put16(cs, 0x0001) // HKDF-SHA256
		cs = put16(cs, int(a))
	}
	c = lp16(c, cs)
	c = append(c, maxNameLen)
	c = lp8(c, []byte(publicName))
	c = put16(c, 0) // no extensions
	out := put16(nil, 0xfe0d)
	return lp16(out, c)
}

func newECHKey(id uint8, publicName string, maxNameLen uint8, aeads []uint16) *echKey {
	k, err := ecdh.X25519().GenerateKey(rand.Reader)
	if err != nil {
		panic(err)
	}
	return &echKey{k, marshalECHConfig(id, k.PublicKey().Bytes(), publicName, maxNameLen, aeads)}
}

func configList(cfgs ...[]byte) []byte {
	var b []byte
	for _, c := range cfgs {
		b = append(b, c...)
	}
	return lp16(nil, b)
}

// ---- recording connection ----

type recConn struct {
	net.Conn
	mu  sync.Mutex
	out []byte
}

func (r *recConn) Write(b []byte) (int, error) {
	r.mu.Lock()
	r.out = append(r.out, b...)
	r.mu.Unlock()
	return r.Conn.Write(b)
}

// ---- one handshake ----

type scenario int

const (
	scAccept scenario = iota
	scHRR
	scReject
)

func (s scenario) String() string { return [...]string{"accept", "hrr", "reject"}[s] }

type serverView struct {
	err       error
	state     tls.ConnectionState
	chiNames  []string // ServerName of every ClientHelloInfo GetCertificate saw
	handshook bool
}

type e2eEnv struct {
	pki        *vh.TestPKI
	roots      *x509.CertPool
	publicName string
	certFor    map[string]*tls.Certificate
}

func toUext(e tls.TLSExtension) (string, bool) {
	switch x := e.(type) {
	case *tls.SNIExtension:
		return "(USni " + vh.Str(x.ServerName) + ")", true
	case *tls.UtlsPaddingExtension:
		if x.GetPaddingLen == nil || reflect.ValueOf(x.GetPaddingLen).Pointer() != reflect.ValueOf(tls.BoringPaddingStyle).Pointer() {
			return "", false
		}
		return "UPad", true
	case *tls.KeyShareExtension:
		return "(UKeyShare " + coqShares(x.KeyShares) + ")", true
	}
	buf := make([]byte, e.Len())
	n, _ := e.Read(buf)
	if n != len(buf) || n < 4 {
		return "", false
	}
	id := uint16(buf[0])<<8 | uint16(buf[1])
	body := buf[4:]
	if int(buf[2])<<8|int(buf[3]) != len(body) {
		return "", false
	}
	if _, ok := e.(tls.EncryptedClientHelloExtension); ok {
		return fmt.Sprintf("(UEch (mkExt %d %s))", id, vh.Bytes(body)), true
	}
	return fmt.Sprintf("(UExt (mkExt %d %s))", id, vh.Bytes(body)), true
}

func coqUexts(es []tls.TLSExtension) (string, bool) {
	it := make([]string, len(es))
	for i, e := range es {
		s, ok := toUext(e)
		if !ok {
			return "", false
		}
		it[i] = s
	}
	return vh.List(it), true
}

// emitOuter records a COuter correspondence case for the hello `raw` the UConn produced from state st.
func emitOuter(c *vh.Ctx, kind, key string, uc *tls.UConn, uexts string, st *tls.VerifC15State, raw []byte, useKey bool) {
	oh, err := parseHello(raw)
	if err != nil {
		c.Fail("outer-parse/"+key, "the outer ClientHello does not parse", vh.Hex(raw), err.Error(), "a ClientHello")
		return
	}
	ee := oh.ext(0xfe0d)
	if ee == nil {
		c.Fail("outer-ech/"+key, "outer ClientHello has no encrypted_client_hello extension", vh.Hex(raw), "absent", "present")
		return
	}
	oe, ok := parseOuterECH(ee.Body)
	if !ok {
		c.Fail("outer-ech/"+key, "outer encrypted_client_hello extension is malformed", vh.Hex(ee.Body), "malformed", "outer ECH")
		return
	}
	inner, err := parseHello(st.InnerFull)
	if err != nil {
		c.Fail("inner-parse/"+key, "the inner ClientHello does not parse", vh.Hex(st.InnerFull), err.Error(), "a ClientHello")
		return
	}
	enc := st.Enc
	hn := tls.VerifC15HostnameInSNI(st.PublicName)
	term := fmt.Sprintf("COuter %d %s %s %s %s %s %s %s %s %d %d %d %d %s %s %s %s %s",
		oh.Vers, vh.Bytes(oh.Random), vh.Bytes(oh.Sid), vh.U16s(oh.Suites), vh.Bytes(oh.Comp), uexts, vh.Str(hn),
		coqHelloFields(inner, st.InnerName), coqExts(inner.Exts),
		st.ConfigID, st.KdfID, st.AeadID, st.MaxNameLength, vh.Bytes(enc), vh.Bool(useKey), vh.Bytes(oe.Payload),
		vh.U16s(st.ExtensionsList), vh.Bytes(raw))
	c.Case(kind, term, key+fmt.Sprintf("|%x", raw[:40]), true, map[string]any{"op": kind, "key": key, "raw_len": len(raw), "payload_len": len(oe.Payload)})
}

// runOpts: variations of one handshake.
type runOpts struct {
	variant   string               // "" or a label that is put in front of the id in every oracle key
	spec      *tls.ClientHelloSpec // when set: UClient(HelloCustom) + ApplyPreset(spec) instead of the id's own fresh spec
	setup     *serverSetup         // when set: the server Config shared by a history of connections
	clientKey int                  // with setup: index of the server key whose config the client holds; -1 = a stale config
}

// serverSetup: ONE server Config (several ECH keys, some not sent as retry) used for a whole history of connections.
type serverSetup struct {
	keys  []*echKey
	retry []bool
	cfg   *tls.Config
	view  *serverView // the connection being served
}

func (env *e2eEnv) newServerSetup(keys []*echKey, retry []bool) *serverSetup {
	st := &serverSetup{keys: keys, retry: retry}
	var eks []tls.EncryptedClientHelloKey
	for i, k := range keys {
		eks = append(eks, tls.EncryptedClientHelloKey{Config: k.config, PrivateKey: k.priv.Bytes(), SendAsRetry: retry[i]})
	}
	st.cfg = &tls.Config{
		MinVersion: tls.VersionTLS13,
		GetCertificate: func(chi *tls.ClientHelloInfo) (*tls.Certificate, error) {
			st.view.chiNames = append(st.view.chiNames, chi.ServerName)
			if crt, ok := env.certFor[chi.ServerName]; ok {
				return crt, nil
			}
			return nil, errors.New("no certificate for " + chi.ServerName)
		},
		EncryptedClientHelloKeys: eks,
	}
	return st
}

// the retry list the property demands: exactly the SendAsRetry configs, in configuration order
func (st *serverSetup) wantRetry() []byte {
	var cs [][]byte
	for i, k := range st.keys {
		if st.retry[i] {
			cs = append(cs, k.config)
		}
	}
	return configList(cs...)
}

func (st *serverSetup) coqKeys() string {
	it := make([]string, len(st.keys))
	for i, k := range st.keys {
		it[i] = fmt.Sprintf("(%s, %s)", vh.Bytes(k.config), vh.Bool(st.retry[i]))
	}
	return vh.List(it)
}

func specSNI(es []tls.TLSExtension) *tls.SNIExtension {
	for _, e := range es {
		if x, ok := e.(*tls.SNIExtension); ok {
			return x
		}
	}
	return nil
}

func (env *e2eEnv) run(c *vh.Ctx, id namedID, sc scenario, secret string, cfgID uint8, maxName uint8, aeads []uint16, idx int, heavy bool, opt runOpts) {
	key := id.Name
	if opt.variant != "" {
		key = opt.variant + "/" + id.Name
	}
	input := map[string]any{"id": id.Name, "scenario": sc.String(), "server_name": secret, "config_id": cfgID, "max_name_length": maxName, "aeads": aeads, "variant": opt.variant}

	setup := opt.setup
	var clientCfg []byte
	if setup == nil {
		serverKey := newECHKey(cfgID, env.publicName, maxName, aeads)
		setup = env.newServerSetup([]*echKey{serverKey}, []bool{true})
		clientCfg = serverKey.config
		if sc == scReject {
			// the client holds a config whose private key the server does not have
			clientCfg = newECHKey(cfgID, env.publicName, maxName, aeads).config
		}
		if sc == scHRR {
			setup.cfg.CurvePreferences = []tls.CurveID{tls.CurveP384}
		}
	} else if opt.clientKey >= 0 {
		clientCfg = setup.keys[opt.clientKey].config
		input["client_holds_server_key"] = opt.clientKey
	} else {
		clientCfg = newECHKey(cfgID, env.publicName, maxName, aeads).config
		input["client_holds_server_key"] = "stale"
	}
	clientList := configList(clientCfg)
	wantRetry := setup.wantRetry()

	sv := &serverView{}
	setup.view = sv
	scfg := setup.cfg
	ln, err := net.Listen("tcp", "127.0.0.1:0")
	if err != nil {
		panic(err)
	}
	defer ln.Close()
	done := make(chan struct{})
	go func() {
		defer close(done)
		conn, err := ln.Accept()
		if err != nil {
			sv.err = err
			return
		}
		defer conn.Close()
		conn.SetDeadline(time.Now().Add(10 * time.Second))
		s := tls.Server(conn, scfg)
		sv.err = s.Handshake()
		sv.state = s.ConnectionState()
		sv.handshook = sv.err == nil
		if sv.err == nil {
			// drain until the client closes so that alerts are not lost
			buf := make([]byte, 64)
			s.Read(buf)
		}
	}()

	raw, err := net.Dial("tcp", ln.Addr().String())
	if err != nil {
		panic(err)
	}
	raw.SetDeadline(time.Now().Add(10 * time.Second))
	rc := &recConn{Conn: raw}
	ccfg := &tls.Config{
		ServerName:                     secret,
		RootCAs:                        env.roots,
		MinVersion:                     tls.VersionTLS13,
		EncryptedClientHelloConfigList: clientList,
	}
	uc := tls.UClient(rc, ccfg, id.ID)
	sniBefore, haveSNI := "", false
	if opt.spec != nil {
		uc = tls.UClient(rc, ccfg, tls.HelloCustom)
		if x := specSNI(opt.spec.Extensions); x != nil {
			sniBefore, haveSNI = x.ServerName, true
		}
		if aerr := uc.ApplyPreset(opt.spec); aerr != nil {
			c.Fail("ech-build/"+key, "ApplyPreset failed with an ECH config list", input, aerr.Error(), "spec applied")
			raw.Close()
			<-done
			return
		}
	}
	var st1 *tls.VerifC15State
	var uexts1 string
	var uextsOK bool
	if berr := uc.BuildHandshakeState(); berr != nil {
		c.Fail("ech-build/"+key, "BuildHandshakeState failed with an ECH config list", input, berr.Error(), "a ClientHello")
		raw.Close()
		<-done
		return
	}
	st1, err = tls.VerifC15GetState(uc)
	if err != nil {
		c.Fail("ech-build/"+key, "cannot marshal the inner hello", input, err.Error(), "inner hello")
	}
	// ApplyPreset's SNIExtension step against apply_preset_sni (u_parrots.go:2849-2856)
	if x := specSNI(uc.Extensions); x != nil && (haveSNI || opt.spec == nil) {
		c.Case("preset", fmt.Sprintf("CPreset (Some %s) %s %s %s", vh.Str(env.publicName), vh.Str(secret), vh.Str(sniBefore), vh.Str(x.ServerName)),
			fmt.Sprintf("%s|%s|%d", key, sniBefore, idx), sniBefore != "", map[string]any{"op": "ApplyPreset/SNI", "before": sniBefore, "after": x.ServerName})
	}
	if st1 != nil && st1.HasECH {
		uexts1, uextsOK = coqUexts(uc.Extensions)
		if uextsOK && (heavy || c.Tier != "quick") && (sc == scAccept || c.Tier != "quick") {
			emitOuter(c, "outer1", key+"/"+sc.String(), uc, uexts1, st1, uc.HandshakeState.Hello.Raw, true)
		} else if !uextsOK {
			c.Count("outer_case_skipped_unknown_extension")
		}
	}
	herr := uc.Handshake()
	cstate := uc.ConnectionState()
	var st2 *tls.VerifC15State
	if st1 != nil && st1.HasECH {
		st2, _ = tls.VerifC15GetState(uc)
	}
	uc.Close()
	raw.Close()
	<-done

	rc.mu.Lock()
	flight := append([]byte(nil), rc.out...)
	rc.mu.Unlock()
	hellos := clientHellos(flight)
	c.Count(fmt.Sprintf("e2e_%s_hellos_%d", sc, len(hellos)))

	// ---- Go-side oracle, straight from the property text ----
	// (1) no plaintext byte of the client's flight contains Config.ServerName
	if i := bytes.Index(flight, []byte(secret)); i >= 0 {
		c.Fail("name-leak/"+key, "the client's flight contains Config.ServerName in the clear", input, fmt.Sprintf("offset %d of %d bytes", i, len(flight)), "absent")
	}
	// (2) the outer SNI is the config's public name
	if len(hellos) == 0 {
		c.Fail("outer-sni/"+key, "no ClientHello in the client's flight", input, len(flight), "ClientHello")
		return
	}
	for k, hb := range hellos {
		oh, perr := parseHello(hb)
		if perr != nil {
			c.Fail("outer-sni/"+key, "ClientHello does not parse", input, perr.Error(), "ClientHello")
			continue
		}
		sn := oh.ext(0)
		got := "<none>"
		if sn != nil {
			got, _ = sniName(sn.Body)
		}
		if got != env.publicName {
			c.Fail("outer-sni/"+key, fmt.Sprintf("outer SNI of ClientHello %d is not the config's public name", k+1), input, got, env.publicName)
		}
		if oh.ext(0xfe0d) == nil {
			c.Fail("outer-ech/"+key, "ClientHello carries no encrypted_client_hello extension", input, "absent", "present")
		}
	}
	errText := func(e error) string {
		if e == nil {
			return "<nil>"
		}
		return e.Error()
	}
	obsFin := "FOther"
	switch sc {
	case scAccept, scHRR:
		k := "ech-accept/" + key
		if sc == scHRR {
			k = "ech-hrr/" + key
		}
		if herr != nil || sv.err != nil {
			c.Fail(k, "handshake with an accepting ECH server failed ("+sc.String()+")", input,
				map[string]any{"client": errText(herr), "server": errText(sv.err)}, "handshake completes")
		} else {
			if !cstate.ECHAccepted || !sv.state.ECHAccepted {
				c.Fail(k, "ECHAccepted not reported on both sides", input, map[string]any{"client": cstate.ECHAccepted, "server": sv.state.ECHAccepted}, "true/true")
			}
			if cstate.ServerName != secret || sv.state.ServerName != secret {
				c.Fail(k, "ConnectionState.ServerName is not Config.ServerName on both sides", input,
					map[string]any{"client": cstate.ServerName, "server": sv.state.ServerName}, secret)
			}
			if len(sv.chiNames) == 0 || sv.chiNames[len(sv.chiNames)-1] != secret {
				c.Fail("ech-inner/"+key, "the server did not decrypt an inner ClientHello naming ServerName", input, sv.chiNames, secret)
			}
			obsFin = fmt.Sprintf("(FComplete %s %s)", vh.Bool(cstate.ECHAccepted), vh.Str(cstate.ServerName))
		}
		if sc == scHRR {
			if len(hellos) != 2 {
				c.Fail(k, "the scenario expects a HelloRetryRequest and a second ClientHello", input, len(hellos), 2)
			} else {
				h2, _ := parseHello(hellos[1])
				var outerShares []share
				okKS := false
				if h2 != nil && h2.ext(51) != nil {
					outerShares, okKS = parseKeyShares(h2.ext(51).Body)
				}
				if !okKS || len(outerShares) != 1 || outerShares[0].Group != uint16(tls.CurveP384) {
					gs := []uint16{}
					for _, s := range outerShares {
						gs = append(gs, s.Group)
					}
					c.Fail(k, "second outer ClientHello does not carry exactly one key share for the requested group", input, gs, []uint16{uint16(tls.CurveP384)})
				}
				if st2 != nil && st2.HasECH {
					if len(st2.InnerKeyShares) != 1 || st2.InnerKeyShares[0].Group != tls.CurveP384 {
						c.Fail(k, "second inner ClientHello does not carry exactly one key share for the requested group", input, len(st2.InnerKeyShares), 1)
					} else if uextsOK && h2 != nil && h2.ext(51) != nil && (heavy || c.Tier != "quick") {
						in2, _ := parseHello(st2.InnerFull)
						in1, _ := parseHello(st1.InnerFull)
						if in2 != nil && in1 != nil && in2.ext(51) != nil {
							c.Case("hrr", fmt.Sprintf("CHrr %s %s %s %s %d %s %s %s", coqShares(st1.OuterKeyShares), coqHelloFields(in1, st1.InnerName),
								coqExts(in1.Exts), uexts1, uint16(tls.CurveP384), vh.Bytes(st2.InnerKeyShares[0].Data),
								vh.Bytes(h2.ext(51).Body), vh.Bytes(in2.ext(51).Body)),
								fmt.Sprintf("%s|%d", key, idx), true, map[string]any{"op": "hrr", "id": id.Name})
						}
						// the second outer hello as a whole
						if u2, ok := coqUexts(uc.Extensions); ok && (heavy || c.Tier != "quick") {
							emitOuter(c, "outer2", key+"/hrr2", uc, u2, st2, hellos[1], false)
						}
					}
				}
			}
		}
	case scReject:
		k := "ech-reject/" + key
		var rej *tls.ECHRejectionError
		if !errors.As(herr, &rej) {
			c.Fail(k, "a rejecting server did not make the client return ECHRejectionError", input, errText(herr), "ECHRejectionError")
			var cve *tls.CertificateVerificationError
			if errors.As(herr, &cve) {
				obsFin = "FCertError"
			}
		} else {
			if !bytes.Equal(rej.RetryConfigList, wantRetry) {
				c.Fail(k, "ECHRejectionError does not carry the server's retry configs", input, vh.Hex(rej.RetryConfigList), vh.Hex(wantRetry))
			}
			obsFin = "(FRejection " + vh.Bytes(rej.RetryConfigList) + ")"
		}
		if cstate.ECHAccepted || sv.state.ECHAccepted {
			c.Fail(k, "ECHAccepted reported although the server could not decrypt", input, map[string]any{"client": cstate.ECHAccepted, "server": sv.state.ECHAccepted}, "false/false")
		}
	}
	// server side (processECHClientHello trial decryption + buildRetryConfigList) against the CONFIGURED key list
	if opt.setup != nil {
		var rej *tls.ECHRejectionError
		switch {
		case herr == nil && sv.err == nil:
			c.Case("server", fmt.Sprintf("CServer %s %s %s None", setup.coqKeys(), vh.Bytes(clientCfg), vh.Bool(sv.state.ECHAccepted)),
				fmt.Sprintf("%s|%d", key, idx), true, map[string]any{"op": "server", "accepted": sv.state.ECHAccepted, "client_key": opt.clientKey})
		case errors.As(herr, &rej):
			c.Case("server", fmt.Sprintf("CServer %s %s false (Some %s)", setup.coqKeys(), vh.Bytes(clientCfg), vh.Bytes(rej.RetryConfigList)),
				fmt.Sprintf("%s|%d", key, idx), true, map[string]any{"op": "server", "accepted": false, "client_key": opt.clientKey, "retry": vh.Hex(rej.RetryConfigList)})
		}
	}
	// outcome correspondence (client_finish): which name verifies is decided by Go's x509 with the spec's options
	if sv.handshook || sc != scReject {
		served := ""
		if len(sv.chiNames) > 0 {
			served = sv.chiNames[len(sv.chiNames)-1]
		}
		verify := func(name string) bool {
			crt := env.certFor[served]
			if crt == nil {
				return false
			}
			leaf, err := x509.ParseCertificate(crt.Certificate[0])
			if err != nil {
				return false
			}
			_, err = leaf.Verify(x509.VerifyOptions{Roots: env.roots, DNSName: name})
			return err == nil
		}
		confirmed := sv.state.ECHAccepted
		retry := "None"
		if !confirmed {
			retry = "(Some " + vh.Bytes(wantRetry) + ")"
		}
		if sv.err == nil || sc == scReject {
			c.Case("finish", fmt.Sprintf("CFinish %s %s %s %s %s %s %s %s", vh.Str(secret), vh.Str(env.publicName), vh.Bool(confirmed), retry,
				vh.Bool(true), vh.Bool(verify(env.publicName)), vh.Bool(verify(secret)), obsFin),
				fmt.Sprintf("%s|%s|%d", key, sc, idx), sc == scReject, map[string]any{"op": "finish", "id": id.Name, "scenario": sc.String(), "client_err": errText(herr)})
		}
	}
	_ = strings.Contains
}

// plain performs a NON-ECH handshake with a custom spec (the warm-up connection of the shared-SNIExtension scenario).
func (env *e2eEnv) plain(c *vh.Ctx, id namedID, spec *tls.ClientHelloSpec, name string, idx int) bool {
	sv := &serverView{}
	scfg := &tls.Config{MinVersion: tls.VersionTLS13, GetCertificate: func(chi *tls.ClientHelloInfo) (*tls.Certificate, error) {
		sv.chiNames = append(sv.chiNames, chi.ServerName)
		if crt, ok := env.certFor[chi.ServerName]; ok {
			return crt, nil
		}
		return nil, errors.New("no certificate for " + chi.ServerName)
	}}
	ln, err := net.Listen("tcp", "127.0.0.1:0")
	if err != nil {
		panic(err)
	}
	defer ln.Close()
	done := make(chan struct{})
	go func() {
		defer close(done)
		conn, err := ln.Accept()
		if err != nil {
			return
		}
		defer conn.Close()
		conn.SetDeadline(time.Now().Add(10 * time.Second))
		s := tls.Server(conn, scfg)
		if sv.err = s.Handshake(); sv.err == nil {
			buf := make([]byte, 64)
			s.Read(buf)
		}
	}()
	raw, err := net.Dial("tcp", ln.Addr().String())
	if err != nil {
		panic(err)
	}
	raw.SetDeadline(time.Now().Add(10 * time.Second))
	before := ""
	if x := specSNI(spec.Extensions); x != nil {
		before = x.ServerName
	}
	uc := tls.UClient(raw, &tls.Config{ServerName: name, RootCAs: env.roots, MinVersion: tls.VersionTLS13}, tls.HelloCustom)
	herr := uc.ApplyPreset(spec)
	if herr == nil {
		herr = uc.Handshake()
	}
	uc.Close()
	raw.Close()
	<-done
	if x := specSNI(uc.Extensions); x != nil {
		c.Case("preset", fmt.Sprintf("CPreset None %s %s %s", vh.Str(name), vh.Str(before), vh.Str(x.ServerName)),
			fmt.Sprintf("plain|%s|%s|%d", id.Name, before, idx), false, map[string]any{"op": "ApplyPreset/SNI (no ECH)", "before": before, "after": x.ServerName})
	}
	c.Count(fmt.Sprintf("e2e_plain_ok_%v", herr == nil))
	return herr == nil
}

// runVariants: (A) a spec whose SNIExtension already carries a name when the ECH connection applies it — pre-filled by the
// caller, or left there by an earlier non-ECH connection that shared the extension object; (B) ONE server Config with
// several ECH keys (some not sent as retry) serving a history of stale / old-key / current-key clients.
func (env *e2eEnv) runVariants(c *vh.Ctx, capable []namedID, secrets []string, idx *int) {
	r := c.Rng
	for _, id := range capable {
		if id.Name == "Golang" || (c.Tier == "quick" && id.Name != "Firefox_120" && id.Name != "Chrome_133") {
			continue
		}
		secret := secrets[r.Intn(3)]
		// A1: the caller's custom spec names the real server in its SNIExtension
		if spec, err := tls.UTLSIdToSpec(id.ID); err == nil && specSNI(spec.Extensions) != nil {
			specSNI(spec.Extensions).ServerName = secret
			env.run(c, id, scAccept, secret, uint8(r.Intn(256)), 64, []uint16{1, 2, 3}, *idx, false, runOpts{variant: "prefilled-sni", spec: &spec})
			*idx++
		}
		// A2: the SNIExtension object is shared with a spec that an earlier non-ECH connection used
		specA, errA := tls.UTLSIdToSpec(id.ID)
		specB, errB := tls.UTLSIdToSpec(id.ID)
		if errA == nil && errB == nil && specSNI(specA.Extensions) != nil {
			shared := specSNI(specA.Extensions)
			for i, e := range specB.Extensions {
				if _, ok := e.(*tls.SNIExtension); ok {
					specB.Extensions[i] = shared
				}
			}
			if env.plain(c, id, &specA, secret, *idx) {
				env.run(c, id, scAccept, secret, uint8(r.Intn(256)), 32, []uint16{3}, *idx, false, runOpts{variant: "reused-sni-ext", spec: &specB})
			}
			*idx++
		}
	}
	shape := 0
	for _, id := range capable {
		if c.Tier == "quick" && id.Name != "Golang" && id.Name != "Firefox_120" {
			continue
		}
		secret := secrets[r.Intn(3)]
		base := uint8(r.Intn(200))
		mk := func(k int) *echKey { return newECHKey(base+uint8(k), env.publicName, 32, []uint16{1, 2, 3}) }
		var setup *serverSetup
		var history []int
		if shape%2 == 0 {
			// [old (not sent as retry), current (sent as retry)]
			setup = env.newServerSetup([]*echKey{mk(0), mk(1)}, []bool{false, true})
			history = []int{-1, 0, 1, -1, 0, -1}
		} else {
			setup = env.newServerSetup([]*echKey{mk(0), mk(1), mk(2), mk(3)}, []bool{false, true, false, true})
			history = []int{2, -1, 0, 2, -1, 3, 1}
		}
		shape++
		for _, k := range history {
			sc := scAccept
			if k < 0 {
				sc = scReject
			}
			env.run(c, id, sc, secret, base+9, 32, []uint16{1, 2, 3}, *idx, false, runOpts{variant: "history", setup: setup, clientKey: k})
			*idx++
		}
	}
}

func runE2E(c *vh.Ctx, rounds int) {
	capable, not := echCapable()
	names := []string{}
	for _, x := range capable {
		names = append(names, x.Name)
	}
	c.Extra["ech_capable_ids"] = names
	c.Extra["ids_without_ech_extension"] = not

	r := c.Rng
	public := "public-" + randLabel(r, 6) + ".example"
	// secret names of varying length (some longer than maxNameLength)
	lens := []int{9, 17, 33, 64, 100, 200, 253}
	var secrets []string
	for _, l := range lens {
		secrets = append(secrets, randName(r, l))
	}
	pki := vh.NewTestPKI(public)
	env := &e2eEnv{pki: pki, roots: x509.NewCertPool(), publicName: public, certFor: map[string]*tls.Certificate{}}
	env.roots.AddCert(pki.CACert)
	env.certFor[public] = &tls.Certificate{Certificate: [][]byte{pki.LeafDER}, PrivateKey: pki.LeafKey}
	for _, s := range secrets {
		k, der := pki.Leaf([]string{s}, time.Now().Add(-time.Hour), time.Now().Add(12*time.Hour))
		env.certFor[s] = &tls.Certificate{Certificate: [][]byte{der}, PrivateKey: k}
	}
	aeadSets := [][]uint16{{1, 2, 3}, {3}, {2, 1}, {1}}
	maxNames := []uint8{0, 16, 32, 64, 128, 255}
	idx := 0
	for round := 0; round < rounds; round++ {
		for _, id := range capable {
			for _, sc := range []scenario{scAccept, scHRR, scReject} {
				secret := secrets[r.Intn(len(secrets))]
				if round == 0 { // the fixed corpus: the F-15 witness shape (short name, default config) runs first, always
					secret = secrets[1]
				}
				env.run(c, id, sc, secret, uint8(r.Intn(256)), maxNames[(idx+round)%len(maxNames)], aeadSets[(idx/3+round)%len(aeadSets)], idx,
					round == 0 && (c.Tier != "quick" || id.Name == "Firefox_120" || id.Name == "Chrome_133"), runOpts{})
				idx++
			}
		}
	}
	env.runVariants(c, capable, secrets, &idx)
}

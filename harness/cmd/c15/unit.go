package main

import (
	"bytes"
	"fmt"
	"math/rand"

	tls "github.com/refraction-networking/utls"
	"verif/harness/vh"
)

func rb(r *rand.Rand, n int) []byte {
	b := make([]byte, n)
	r.Read(b)
	return b
}

func flip(r *rand.Rand, num, den int) bool { return r.Intn(den) < num }

var nameAlphabet = "abcdefghijklmnopqrstuvwxyz0123456789"

func randLabel(r *rand.Rand, n int) string {
	b := make([]byte, n)
	for i := range b {
		b[i] = nameAlphabet[r.Intn(len(nameAlphabet))]
	}
	return string(b)
}

// randName: a DNS name of exactly n bytes (n >= 4), labels of at most 20 characters.
func randName(r *rand.Rand, n int) string {
	if n < 5 {
		return randLabel(r, 1) + "." + randLabel(r, 2)
	}
	body := n - 4 // ".tld" takes 4
	s := ""
	for body > 0 {
		l := 5 + r.Intn(16)
		if l > body {
			l = body
		}
		if body-l == 1 { // never leave a single byte: it would have to be a lone dot
			if l > 1 {
				l--
			} else {
				l = body
			}
		}
		s += randLabel(r, l)
		body -= l
		if body > 0 {
			s += "."
			body--
		}
	}
	return s + "." + randLabel(r, 3)
}

// genHello draws a clientHelloMsg with random optional fields (short values).
func genHello(r *rand.Rand, valid bool) *tls.VerifC15Hello {
	h := &tls.VerifC15Hello{Vers: 0x0303, Random: rb(r, 32), CompressionMethods: []uint8{0}}
	if !valid && flip(r, 1, 12) {
		h.Random = rb(r, 31+r.Intn(3))
	}
	if flip(r, 2, 3) {
		h.SessionId = rb(r, 32)
	}
	for i := 1 + r.Intn(4); i > 0; i-- {
		h.CipherSuites = append(h.CipherSuites, []uint16{0x1301, 0x1302, 0x1303, 0xc02b, 0xc02f, 0x0a0a}[r.Intn(6)])
	}
	if flip(r, 4, 5) {
		h.ServerName = randName(r, 4+r.Intn(30))
	}
	h.OcspStapling = flip(r, 1, 2)
	if flip(r, 3, 4) {
		for i := 1 + r.Intn(4); i > 0; i-- {
			h.SupportedCurves = append(h.SupportedCurves, []tls.CurveID{29, 23, 24, 25, 4588, 0x1a1a}[r.Intn(6)])
		}
	}
	if flip(r, 1, 3) {
		h.SupportedPoints = []uint8{0}
	}
	if flip(r, 1, 3) {
		h.TicketSupported = true
		h.SessionTicket = rb(r, r.Intn(9))
	}
	if flip(r, 3, 4) {
		for i := 1 + r.Intn(5); i > 0; i-- {
			h.SupportedSignatureAlgorithms = append(h.SupportedSignatureAlgorithms, tls.SignatureScheme(0x0400+r.Intn(0x400)))
		}
	}
	if flip(r, 1, 4) {
		for i := 1 + r.Intn(3); i > 0; i-- {
			h.SupportedSignatureAlgorithmsCert = append(h.SupportedSignatureAlgorithmsCert, tls.SignatureScheme(0x0400+r.Intn(0x400)))
		}
	}
	if flip(r, 1, 3) {
		h.SecureRenegotiationSupported = true
		h.SecureRenegotiation = rb(r, r.Intn(4))
	}
	h.ExtendedMasterSecret = flip(r, 1, 2)
	if flip(r, 1, 2) {
		for i := 1 + r.Intn(3); i > 0; i-- {
			h.AlpnProtocols = append(h.AlpnProtocols, []string{"h2", "http/1.1", "h3", "x"}[r.Intn(4)])
		}
	}
	h.Scts = flip(r, 1, 3)
	h.SupportedVersions = []uint16{0x0304}
	if !valid {
		switch r.Intn(8) {
		case 0:
			h.SupportedVersions = []uint16{0x0304, 0x0303}
		case 1:
			h.SupportedVersions = []uint16{0x0303}
		case 2:
			h.SupportedVersions = nil
		}
	}
	if flip(r, 1, 5) {
		h.Cookie = rb(r, 1+r.Intn(8))
	}
	if flip(r, 5, 6) {
		for i := 1 + r.Intn(3); i > 0; i-- {
			h.KeyShares = append(h.KeyShares, tls.KeyShare{Group: []tls.CurveID{29, 23, 24, 0x2a2a}[r.Intn(4)], Data: rb(r, 1+r.Intn(40))})
		}
	}
	h.EarlyData = flip(r, 1, 8)
	if flip(r, 1, 2) {
		h.PskModes = []uint8{1}
	}
	if flip(r, 1, 6) {
		h.PskLabels = [][]byte{rb(r, 1+r.Intn(12))}
		h.PskAges = []uint32{r.Uint32()}
		h.PskBinders = [][]byte{rb(r, 32)}
	}
	if flip(r, 1, 8) {
		h.QuicTransportParameters = rb(r, r.Intn(10))
	}
	h.EncryptedClientHello = []byte{1}
	if !valid {
		switch r.Intn(10) {
		case 0:
			h.EncryptedClientHello = nil
		case 1:
			h.EncryptedClientHello = []byte{1, 0}
		case 2:
			h.EncryptedClientHello = []byte{0}
		}
	}
	return h
}

var compressible = map[uint16]bool{5: true, 10: true, 13: true, 50: true, 16: true, 44: true, 51: true, 45: true}

func isSubseq(xs, ys []uint16) bool {
	i := 0
	for _, y := range ys {
		if i < len(xs) && xs[i] == y {
			i++
		}
	}
	return i == len(xs)
}

func idsOf(es []rawExt) []uint16 {
	out := make([]uint16, len(es))
	for i, e := range es {
		out[i] = e.ID
	}
	return out
}

// genOuterExts: an outerExts argument: the hello's own extension ids shuffled / thinned / with extra ids.
func genOuterExts(r *rand.Rand, full *rawHello) []uint16 {
	ids := idsOf(full.Exts)
	r.Shuffle(len(ids), func(i, j int) { ids[i], ids[j] = ids[j], ids[i] })
	var out []uint16
	for _, id := range ids {
		switch r.Intn(12) {
		case 0: // dropped
		case 1:
			out = append(out, id, id) // duplicated
		default:
			out = append(out, id)
		}
		if flip(r, 1, 5) {
			out = append(out, []uint16{0x0a0a, 21, 0, 17513, 0xfe0d, 27}[r.Intn(6)])
		}
	}
	return out
}

func runEncodeUnit(c *vh.Ctx, n int) {
	r := c.Rng
	for i := 0; i < n; i++ {
		h := genHello(r, i%5 != 0)
		fullB, err := tls.VerifC15MarshalFull(h)
		if err != nil {
			c.Count("encode_full_marshal_error")
			continue
		}
		full, err := parseHello(fullB)
		if err != nil {
			c.Fail("encode-unit/full-parse", "marshalMsg(false) output does not parse as a ClientHello", vh.Hex(fullB), err.Error(), "parse")
			continue
		}
		maxName := []int{0, 1, 16, 32, 42, 64, 128, 255}[r.Intn(8)]
		reorder := i%3 != 0
		var oe []uint16
		if reorder {
			oe = genOuterExts(r, full)
		}
		enc, err := tls.VerifC15EncodeInner(h, maxName, oe, reorder)
		c.Case("encode", fmt.Sprintf("CEncode %s %s %d %s %s", coqHelloFields(full, h.ServerName), coqExts(full.Exts), maxName,
			coqOptU16s(reorder, oe), coqObs(enc, err, 7)),
			fmt.Sprintf("%x|%d|%v|%v", fullB, maxName, oe, reorder), err == nil && reorder && len(oe) > 2,
			map[string]any{"op": "encodeInner", "full": vh.Hex(fullB), "maxName": maxName, "outerExts": oe, "reorder": reorder, "enc": vh.Hex(enc)})
		if err != nil {
			continue
		}
		// property oracle (Go side): the inner hello names ServerName. (The property text claims nothing about the
		// padded length; see notes/C15.md for what ech.go:226-231 actually pads to.)
		c.Count(fmt.Sprintf("encode_len_mod32_%d", len(enc)%32))
		if len(h.Random) == 32 && bytes.Contains(enc[34:], []byte(h.ServerName)) == false && h.ServerName != "" {
			c.Fail("encode-unit/name", "encoded inner hello does not carry the server name", vh.Hex(fullB), vh.Hex(enc), h.ServerName)
		}
	}
}

// ---- decode ----

func shuffled(r *rand.Rand, xs []uint16) []uint16 {
	out := append([]uint16(nil), xs...)
	r.Shuffle(len(out), func(i, j int) { out[i], out[j] = out[j], out[i] })
	return out
}

func runDecodeUnit(c *vh.Ctx, n int) {
	r := c.Rng
	for i := 0; i < n; i++ {
		mostlyValid := i%4 != 0
		h := genHello(r, mostlyValid)
		h.Random = rb(r, 32)
		fullB, err := tls.VerifC15MarshalFull(h)
		if err != nil {
			continue
		}
		full, err := parseHello(fullB)
		if err != nil {
			continue
		}
		// the outer hello: the inner's compressible extensions (same bodies), a public server_name, GREASE, in random order
		var outerExts []rawExt
		var pskExt *rawExt
		for _, e := range full.Exts {
			switch {
			case e.ID == 0:
				outerExts = append(outerExts, rawExt{0, writeSNI("public.example")})
			case e.ID == 41:
				ee := e
				pskExt = &ee
			case e.ID == 0xfe0d:
				outerExts = append(outerExts, rawExt{0xfe0d, append([]byte{0, 0, 1, 0, 1, 7, 0, 2, 9, 9, 0, 3}, rb(r, 3)...)})
			default:
				if !compressible[e.ID] || !flip(r, 1, 10) { // sometimes the outer lacks a compressible one
					outerExts = append(outerExts, e)
				}
			}
		}
		if flip(r, 1, 2) {
			outerExts = append(outerExts, rawExt{0x1a1a, nil})
		}
		if flip(r, 1, 6) && len(outerExts) > 0 { // a duplicate type in the outer hello with another body
			d := outerExts[r.Intn(len(outerExts))]
			outerExts = append(outerExts, rawExt{d.ID, append([]byte(nil), d.Body...)})
		}
		r.Shuffle(len(outerExts), func(a, b int) { outerExts[a], outerExts[b] = outerExts[b], outerExts[a] })
		outer := &rawHello{Vers: 0x0303, Random: rb(r, 32), Sid: full.Sid, Suites: full.Suites, Comp: full.Comp, Exts: outerExts}
		outerRaw := writeHello(outer)
		if !mostlyValid && flip(r, 1, 10) {
			outerRaw = outerRaw[:r.Intn(len(outerRaw))]
		}
		// the compressed list
		var inOrder []uint16
		for _, e := range outerExts {
			if compressible[e.ID] && full.ext(e.ID) != nil {
				dup := false
				for _, x := range inOrder {
					dup = dup || x == e.ID
				}
				if !dup && flip(r, 5, 6) {
					inOrder = append(inOrder, e.ID)
				}
			}
		}
		list := inOrder
		mode := "in-order"
		if !mostlyValid || flip(r, 1, 5) {
			switch r.Intn(6) {
			case 0:
				list, mode = shuffled(r, inOrder), "shuffled"
			case 1:
				list, mode = append(append([]uint16(nil), inOrder...), 0x7777), "missing-id"
			case 2:
				list, mode = append([]uint16{0xfe0d}, inOrder...), "ech-id"
			case 3:
				if len(inOrder) > 0 {
					list, mode = append(append([]uint16(nil), inOrder...), inOrder[len(inOrder)-1]), "repeated-id"
				}
			case 4:
				if len(inOrder) > 1 {
					list, mode = append(append([]uint16(nil), inOrder[1:]...), inOrder[0]), "rotated"
				}
			case 5:
				list, mode = append(append([]uint16(nil), inOrder...), 0x1a1a), "grease-id"
			}
		}
		// the encoded inner hello: uncompressed extensions in order, ech_outer_extensions somewhere after, psk last
		inList := map[uint16]bool{}
		for _, id := range list {
			inList[id] = true
		}
		var innerExts []rawExt
		for _, e := range full.Exts {
			if e.ID == 41 || (inList[e.ID] && compressible[e.ID]) {
				continue
			}
			innerExts = append(innerExts, e)
		}
		var lb []byte
		for _, id := range list {
			lb = put16(lb, int(id))
		}
		if !mostlyValid && flip(r, 1, 12) {
			lb = append(lb, 9) // odd length
		}
		oeBody := lp8(nil, lb)
		if flip(r, 1, 15) {
			oeBody = append(oeBody, rb(r, 2)...) // trailing bytes after the list are ignored by the decoder
		}
		if len(list) > 0 || flip(r, 1, 4) {
			pos := len(innerExts)
			if flip(r, 1, 4) {
				pos = r.Intn(len(innerExts) + 1)
			}
			innerExts = append(innerExts[:pos:pos], append([]rawExt{{0xfd00, oeBody}}, innerExts[pos:]...)...)
		}
		if pskExt != nil {
			innerExts = append(innerExts, *pskExt)
		}
		var enc []byte
		enc = put16(enc, int(full.Vers))
		enc = append(enc, full.Random...)
		if !mostlyValid && flip(r, 1, 10) {
			enc = lp8(enc, rb(r, 1+r.Intn(3)))
		} else {
			enc = lp8(enc, nil)
		}
		var sb []byte
		for _, s := range full.Suites {
			sb = put16(sb, int(s))
		}
		enc = lp16(enc, sb)
		enc = lp8(enc, full.Comp)
		eb := extsBytes(innerExts)
		if !mostlyValid && flip(r, 1, 10) && len(eb) > 3 {
			eb = eb[:len(eb)-1-r.Intn(3)]
		}
		enc = lp16(enc, eb)
		pad := make([]byte, r.Intn(40))
		if !mostlyValid && flip(r, 1, 8) && len(pad) > 0 {
			pad[r.Intn(len(pad))] = 1
		}
		enc = append(enc, pad...)
		if !mostlyValid && flip(r, 1, 15) {
			enc = enc[:r.Intn(len(enc))]
		}

		recon, name, derr := tls.VerifC15DecodeInner(outerRaw, outer.Sid, enc)
		code := 0
		if derr != nil {
			code = decodeErrCode(derr)
			c.Count(fmt.Sprintf("decode_err_%d", code))
		} else {
			c.Count("decode_ok")
		}
		c.Count("decode_mode_" + mode)
		c.Case("decode", fmt.Sprintf("CDecode %s %s %s %s", vh.Bytes(outerRaw), vh.Bytes(outer.Sid), vh.Bytes(enc), coqObs(recon, derr, code)),
			fmt.Sprintf("%x|%x", outerRaw, enc), derr == nil || code == 2,
			map[string]any{"op": "decodeInner", "mode": mode, "outer": vh.Hex(outerRaw), "encoded": vh.Hex(enc), "err": fmt.Sprint(derr)})

		// property oracle (Go side)
		outerIDs := idsOf(outerExts)
		if derr == nil {
			if !isSubseq(list, outerIDs) {
				c.Fail("decode-unit/order", "decodeInnerClientHello accepted an ech_outer_extensions list that is not an in-order subsequence of the outer extensions",
					map[string]any{"outer": vh.Hex(outerRaw), "encoded": vh.Hex(enc), "list": list}, "accepted", "tls: invalid outer extensions")
			}
			rh, perr := parseHello(recon)
			if perr != nil {
				c.Fail("decode-unit/recon", "reconstructed inner hello does not parse", vh.Hex(recon), perr.Error(), "a ClientHello")
				continue
			}
			if h.ServerName != name {
				c.Fail("decode-unit/name", "reconstructed inner hello names another server", h.ServerName, name, h.ServerName)
			}
			for _, id := range list {
				o := outer.ext(id)
				x := rh.ext(id)
				if o == nil || x == nil || !bytes.Equal(o.Body, x.Body) {
					c.Fail("decode-unit/expand", "compressed extension did not expand to the outer value", map[string]any{"id": id, "outer": vh.Hex(outerRaw), "encoded": vh.Hex(enc)}, vh.Hex(recon), "outer body")
				}
			}
			if !bytes.Equal(rh.Sid, outer.Sid) {
				c.Fail("decode-unit/sid", "reconstructed inner hello does not carry the outer session id", vh.Hex(outer.Sid), vh.Hex(rh.Sid), vh.Hex(outer.Sid))
			}
		}
	}
}

func writeSNI(name string) []byte {
	var e []byte
	e = append(e, 0)
	e = lp16(e, []byte(name))
	return lp16(nil, e)
}

// c15: correspondence runner and property oracle for C15 (ECH hides the real
// server name and is honoured end to end).
//
//   - unit level: encodeInnerClientHello[ReorderOuterExts] / decodeInnerClientHello through hooks/verif_c15.go on
//     generated inner/outer hellos (random extension lists, random compression subsets incl. out-of-order ones);
//   - end to end: a utls ECH server (Config.EncryptedClientHelloKeys) over loopback TCP x every ECH-capable
//     ClientHelloID x {accept, accept after HelloRetryRequest, reject with retry configs} x server names of varying
//     length x ECH config variants; the client's recorded flight, both ConnectionStates, the error type.
package main

import (
	"verif/harness/vh"
)

func run(c *vh.Ctx) {
	n := c.N
	rounds := 2
	switch c.Tier {
	case "thorough":
		rounds = 12
	case "search":
		rounds = 3
		if n > 600 {
			n = 600
		}
	}
	runE2E(c, rounds) // first: the fixed corpus (round 0) replays the known witnesses
	runEncodeUnit(c, n)
	runDecodeUnit(c, n)
}

func main() { vh.Main(map[string]vh.Suite{"C15": {Corr: "Corr.C15Corr", Run: run}}) }

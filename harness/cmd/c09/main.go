// C09 runner: randomized fingerprints are seed-reproducible and internally consistent.
// Calls the real generateRandomizedSpec (through hooks/verif_c09.go) twice per
// (seed, weights, variant), applies the property's own oracle to what it returned,
// and renders the spec together with the independently computed SHAKE256 stream
// prefix as a Coq case for Corr.C09Corr.check (model = implementation, exactly).
package main

import (
	"encoding/binary"
	"encoding/hex"
	"fmt"
	"io"
	"math"
	"net"
	"reflect"
	"strings"

	tls "github.com/refraction-networking/utls"
	"golang.org/x/crypto/hkdf"
	"golang.org/x/crypto/sha3"
	"verif/harness/vh"
)

func main() { vh.Main(map[string]vh.Suite{"C09": {Corr: "Corr.C09Corr", Run: run}}) }

// ---- streams, computed without the library's prng ----

func shakeWords(seed []byte, n int) []uint64 {
	h := sha3.NewShake256()
	h.Write(seed)
	buf := make([]byte, 8*n)
	h.Read(buf)
	out := make([]uint64, n)
	for i := range out {
		out[i] = binary.BigEndian.Uint64(buf[8*i:])
	}
	return out
}

func saltedSeed(seed []byte, salt string) []byte {
	out := make([]byte, 32)
	io.ReadFull(hkdf.New(sha3.New256, seed, []byte(salt), nil), out)
	return out
}

// Number of 64-bit words of the main stream to hand to the model: what the call consumes when no
// rejection loop redraws (read off the shape of the returned spec; at most
// 1 ALPN + 22 Perm + 1 + 1 Intn + 2 + 21 removal + 4 + 10 + 3 + 5 + 3 + 14 = 87), plus room for 4 redraws
// (each redraw has probability < 2^-26). Too short a prefix would show up as a mismatch (model: Err 99).
// Kept tight because Coq's front end, not vm_compute, dominates the cost of a case.
func wordsNeeded(g *gen, o obs, tb *tables) int {
	n := len(tb.rows) + 1
	if g.client == "Randomized" {
		n++
	}
	is13 := o.max == tls.VersionTLS13
	l := len(tb.rows)
	if is13 {
		n += 1 + len(tb.tls13) - 1
		l = len(tb.tls13)
		for _, row := range tb.rows {
			if !has(rc4, row.ID) {
				l++
			}
		}
	}
	if l > 1 {
		n += l - 1
	}
	n += 3
	if sig := o.find("ESigAlgs"); sig != nil {
		if has(sig.nums, uint16(tls.PSSWithSHA256)) {
			n++
		}
		n += len(sig.nums) - 1
	}
	n += 3 + 5
	if ks := o.find("EKeyShare"); is13 && ks != nil {
		n++
		if !(len(ks.nums) == 1 && ks.nums[0] == uint16(tls.CurveP256)) {
			n += 2
		}
	}
	n += len(o.exts) - 1
	return n + 4
}

// Case terms use primitive-integer literals only, byte strings packed 7 bytes per literal
// (decoded by pk in Corr/C09Corr.v): Coq's front end costs ~0.2 ms per literal whatever its size.
func pkList(b []byte) string {
	if len(b) == 0 {
		return "[]"
	}
	var sb strings.Builder
	sb.WriteByte('[')
	for i := 0; i < len(b); i += 7 {
		j := i + 7
		if j > len(b) {
			j = len(b)
		}
		var w uint64
		for _, x := range b[i:j] {
			w = w<<8 | uint64(x)
		}
		if i > 0 {
			sb.WriteByte(';')
		}
		fmt.Fprintf(&sb, "%d", w)
	}
	sb.WriteString("]%uint63")
	return sb.String()
}

// "len [w1;...]" for a constructor with (len : int) (ws : list int)
func pk(b []byte) string { return fmt.Sprintf("%d %s", len(b), pkList(b)) }

// "(len, [w1;...])" for an (int * list int) pair
func pkPair(b []byte) string { return fmt.Sprintf("(%d%%uint63, %s)", len(b), pkList(b)) }

func wordBytes(ws []uint64) []byte {
	b := make([]byte, 8*len(ws))
	for i, w := range ws {
		binary.BigEndian.PutUint64(b[8*i:], w)
	}
	return b
}

func ints[T uint8 | uint16 | uint64 | int](xs []T) string {
	if len(xs) == 0 {
		return "[]"
	}
	it := make([]string, len(xs))
	for i, x := range xs {
		it[i] = fmt.Sprint(x)
	}
	return "[" + strings.Join(it, ";") + "]%uint63"
}

// ---- weights ----

const nWeights = 17

func weightsVec(w *tls.Weights) []float64 {
	return []float64{w.Extensions_Append_ALPN, w.TLSVersMax_Set_VersionTLS13, w.CipherSuites_Remove_RandomCiphers,
		w.SigAndHashAlgos_Append_ECDSAWithSHA1, w.SigAndHashAlgos_Append_ECDSAWithP521AndSHA512, w.SigAndHashAlgos_Append_PSSWithSHA256,
		w.SigAndHashAlgos_Append_PSSWithSHA384_PSSWithSHA512, w.CurveIDs_Append_X25519, w.CurveIDs_Append_CurveP521,
		w.Extensions_Append_Padding, w.Extensions_Append_Status, w.Extensions_Append_SCT, w.Extensions_Append_Reneg,
		w.Extensions_Append_EMS, w.FirstKeyShare_Set_CurveP256, w.KeyShare_Append_RandomGroups, w.Extensions_Append_ALPS}
}

func weightsFrom(v []float64) *tls.Weights {
	return &tls.Weights{Extensions_Append_ALPN: v[0], TLSVersMax_Set_VersionTLS13: v[1], CipherSuites_Remove_RandomCiphers: v[2],
		SigAndHashAlgos_Append_ECDSAWithSHA1: v[3], SigAndHashAlgos_Append_ECDSAWithP521AndSHA512: v[4], SigAndHashAlgos_Append_PSSWithSHA256: v[5],
		SigAndHashAlgos_Append_PSSWithSHA384_PSSWithSHA512: v[6], CurveIDs_Append_X25519: v[7], CurveIDs_Append_CurveP521: v[8],
		Extensions_Append_Padding: v[9], Extensions_Append_Status: v[10], Extensions_Append_SCT: v[11], Extensions_Append_Reneg: v[12],
		Extensions_Append_EMS: v[13], FirstKeyShare_Set_CurveP256: v[14], KeyShare_Append_RandomGroups: v[15], Extensions_Append_ALPS: v[16]}
}

func constWeights(x float64) []float64 {
	v := make([]float64, nWeights)
	for i := range v {
		v[i] = x
	}
	return v
}

var weightBounds = []float64{0, math.Copysign(0, -1), 1, 0.5, -0.5, 1.5, math.Nextafter(1, 0), math.Nextafter(1, 2), math.Nextafter(0, 1),
	math.Inf(1), math.Inf(-1), math.NaN(), 1e-300, -1e300, 1e300, 5e-324, math.MaxFloat64, -math.MaxFloat64, 21.9999, 1e308}

func randomWeights(c *vh.Ctx) []float64 {
	v := make([]float64, nWeights)
	for i := range v {
		switch c.Rng.Intn(4) {
		case 0:
			v[i] = weightBounds[c.Rng.Intn(len(weightBounds))]
		case 1:
			v[i] = float64(c.Rng.Intn(2))
		default:
			v[i] = c.Rng.Float64()*1.4 - 0.2
		}
	}
	return v
}

func wbytes(v []float64) []byte {
	ws := make([]uint64, len(v))
	for i, x := range v {
		ws[i] = math.Float64bits(x)
	}
	return wordBytes(ws)
}

// ---- observation of a ClientHelloSpec ----

type oext struct {
	kind string
	nums []uint16
	strs []string
}

type obs struct {
	min, max uint16
	ciphers  []uint16
	exts     []oext
	other    string // anything else in the spec that is not in its zero/expected state
}

func u8s(b []uint8) []uint16 {
	out := make([]uint16, len(b))
	for i, x := range b {
		out[i] = uint16(x)
	}
	return out
}

func observe(p *tls.ClientHelloSpec) obs {
	o := obs{min: p.TLSVersMin, max: p.TLSVersMax, ciphers: p.CipherSuites}
	var other []string
	if p.CompressionMethods != nil {
		other = append(other, fmt.Sprintf("CompressionMethods=%v", p.CompressionMethods))
	}
	if p.GetSessionID != nil {
		other = append(other, "GetSessionID set")
	}
	for _, e := range p.Extensions {
		switch x := e.(type) {
		case *tls.SNIExtension:
			o.exts = append(o.exts, oext{kind: "ESNI", strs: []string{x.ServerName}})
		case *tls.SessionTicketExtension:
			if x.Session != nil || x.Ticket != nil || x.Initialized {
				other = append(other, "session ticket extension not empty")
			}
			o.exts = append(o.exts, oext{kind: "ESessionTicket"})
		case *tls.SignatureAlgorithmsExtension:
			n := make([]uint16, len(x.SupportedSignatureAlgorithms))
			for i, a := range x.SupportedSignatureAlgorithms {
				n[i] = uint16(a)
			}
			o.exts = append(o.exts, oext{kind: "ESigAlgs", nums: n})
		case *tls.SupportedPointsExtension:
			o.exts = append(o.exts, oext{kind: "EPoints", nums: u8s(x.SupportedPoints)})
		case *tls.SupportedCurvesExtension:
			n := make([]uint16, len(x.Curves))
			for i, a := range x.Curves {
				n[i] = uint16(a)
			}
			o.exts = append(o.exts, oext{kind: "ECurves", nums: n})
		case *tls.ALPNExtension:
			o.exts = append(o.exts, oext{kind: "EALPN", strs: x.AlpnProtocols})
		case *tls.UtlsPaddingExtension:
			if x.PaddingLen != 0 || x.WillPad || x.GetPaddingLen == nil ||
				reflect.ValueOf(x.GetPaddingLen).Pointer() != reflect.ValueOf(tls.BoringPaddingStyle).Pointer() {
				other = append(other, "padding extension is not {GetPaddingLen: BoringPaddingStyle}")
			}
			o.exts = append(o.exts, oext{kind: "EPadding"})
		case *tls.StatusRequestExtension:
			o.exts = append(o.exts, oext{kind: "EStatus"})
		case *tls.SCTExtension:
			o.exts = append(o.exts, oext{kind: "ESCT"})
		case *tls.RenegotiationInfoExtension:
			if len(x.RenegotiatedConnection) != 0 {
				other = append(other, "renegotiation info carries data")
			}
			o.exts = append(o.exts, oext{kind: "EReneg", nums: []uint16{uint16(x.Renegotiation)}})
		case *tls.ExtendedMasterSecretExtension:
			o.exts = append(o.exts, oext{kind: "EEMS"})
		case *tls.KeyShareExtension:
			n := make([]uint16, len(x.KeyShares))
			for i, k := range x.KeyShares {
				n[i] = uint16(k.Group)
				if len(k.Data) != 0 {
					other = append(other, "key share carries data already")
				}
			}
			o.exts = append(o.exts, oext{kind: "EKeyShare", nums: n})
		case *tls.PSKKeyExchangeModesExtension:
			o.exts = append(o.exts, oext{kind: "EPSKModes", nums: u8s(x.Modes)})
		case *tls.SupportedVersionsExtension:
			o.exts = append(o.exts, oext{kind: "ESupportedVersions", nums: x.Versions})
		case *tls.ApplicationSettingsExtension:
			o.exts = append(o.exts, oext{kind: "EALPS", strs: x.SupportedProtocols})
		default:
			other = append(other, fmt.Sprintf("unexpected extension %T", e))
			o.exts = append(o.exts, oext{kind: fmt.Sprintf("%T", e)})
		}
	}
	o.other = strings.Join(other, "; ")
	return o
}

func (e oext) coq() string {
	switch e.kind {
	case "ESNI":
		return "ESNI " + vh.Str(e.strs[0])
	case "EALPN", "EALPS":
		it := make([]string, len(e.strs))
		for i, s := range e.strs {
			it[i] = vh.Str(s)
		}
		return e.kind + " " + vh.List(it)
	case "ESessionTicket", "EPadding", "EStatus", "ESCT", "EEMS":
		return e.kind
	case "EReneg":
		return fmt.Sprintf("EReneg %d", e.nums[0])
	default:
		return e.kind + " " + vh.U16s(e.nums)
	}
}

func (o obs) coq() string {
	it := make([]string, len(o.exts))
	for i, e := range o.exts {
		it[i] = e.coq()
	}
	return fmt.Sprintf("{| sp_min := %d; sp_max := %d; sp_ciphers := %s; sp_exts := %s |}", o.min, o.max, vh.U16s(o.ciphers), vh.List(it))
}

func (o obs) String() string { return o.coq() + " other=" + o.other }

var extTag = map[string]uint64{"ESNI": 0, "ESessionTicket": 1, "ESigAlgs": 2, "EPoints": 3, "ECurves": 4, "EALPN": 5, "EPadding": 6,
	"EStatus": 7, "ESCT": 8, "EReneg": 9, "EEMS": 10, "EKeyShare": 11, "EPSKModes": 12, "ESupportedVersions": 13, "EALPS": 14}

// enc: the spec as the prefix code of enc_res (Corr/C09Corr.v); ok=false when an extension has no constructor in the model
func (o obs) enc() ([]uint64, bool) {
	out := []uint64{1, uint64(o.min), uint64(o.max), uint64(len(o.ciphers))}
	for _, c := range o.ciphers {
		out = append(out, uint64(c))
	}
	out = append(out, uint64(len(o.exts)))
	str := func(s string) {
		out = append(out, uint64(len(s)))
		for _, b := range []byte(s) {
			out = append(out, uint64(b))
		}
	}
	for _, e := range o.exts {
		tag, known := extTag[e.kind]
		if !known {
			return nil, false
		}
		out = append(out, tag)
		switch e.kind {
		case "ESNI":
			str(e.strs[0])
		case "EALPN", "EALPS":
			out = append(out, uint64(len(e.strs)))
			for _, s := range e.strs {
				str(s)
			}
		case "ESessionTicket", "EPadding", "EStatus", "ESCT", "EEMS":
		case "EReneg":
			out = append(out, uint64(e.nums[0]))
		default:
			out = append(out, uint64(len(e.nums)))
			for _, n := range e.nums {
				out = append(out, uint64(n))
			}
		}
	}
	return out, true
}

func (o obs) find(kind string) *oext {
	for i := range o.exts {
		if o.exts[i].kind == kind {
			return &o.exts[i]
		}
	}
	return nil
}

func (o obs) count(kind string) int {
	n := 0
	for _, e := range o.exts {
		if e.kind == kind {
			n++
		}
	}
	return n
}

func has(xs []uint16, x uint16) bool {
	for _, y := range xs {
		if x == y {
			return true
		}
	}
	return false
}

// ---- the property's oracle, written from the property text (independent of the Coq model) ----

type gen struct {
	client  string
	seed    tls.PRNGSeed
	w       []float64 // nil: id.Weights == nil (DefaultWeights)
	wname   string
	server  string
	protos  []string
	variant string // Coq constructor
	public  bool   // also run the sequence through UClient + BuildHandshakeState
}

func (g *gen) input() map[string]any {
	m := map[string]any{"client": g.client, "seed": fmt.Sprintf("%x", g.seed[:]), "weights": g.wname, "serverName": g.server, "nextProtos": g.protos}
	if g.w != nil && g.wname == "random" {
		b := make([]string, len(g.w))
		for i, x := range g.w {
			b[i] = fmt.Sprintf("%#x", math.Float64bits(x))
		}
		m["weight_bits"] = b
	}
	return m
}

// build: the two-step sequence the property is about. ONE ClientHelloID object with ONE *PRNGSeed and ONE *Weights is
// built from twice (generateRandomizedSpec keeps and dereferences these pointers; a Roller or a caller reusing an id
// shares them between connections). After each build the inputs must be what the caller put in.
type built struct {
	o1, o2     obs
	err1, err2 error
	seedAfter  tls.PRNGSeed
}

func idFor(client string, seed *tls.PRNGSeed, w *tls.Weights) tls.ClientHelloID {
	id := tls.ClientHelloID{Client: client, Version: tls.HelloRandomized.Version, Seed: seed, Weights: w}
	switch client {
	case tls.HelloRandomized.Client:
		id = tls.HelloRandomized
	case tls.HelloRandomizedALPN.Client:
		id = tls.HelloRandomizedALPN
	case tls.HelloRandomizedNoALPN.Client:
		id = tls.HelloRandomizedNoALPN
	}
	id.Seed, id.Weights = seed, w
	return id
}

var defaultWeightsAtStart = tls.DefaultWeights

func (g *gen) build(r *reporter) built {
	seed := new(tls.PRNGSeed)
	*seed = g.seed
	var w *tls.Weights
	if g.w != nil {
		w = weightsFrom(g.w)
	}
	id := idFor(g.client, seed, w)
	id0 := id
	protos := append([]string(nil), g.protos...)
	var b built
	inputsKept := func(step string) {
		if *seed != g.seed {
			r.fail("seed-mutated", "generateRandomizedSpec changed the caller's PRNG seed ("+step+")", g, fmt.Sprintf("%x", seed[:]), fmt.Sprintf("%x", g.seed[:]))
		}
		if id.Seed != seed || id.Client != id0.Client || id.Version != id0.Version {
			r.fail("id-mutated", "generateRandomizedSpec changed the ClientHelloID ("+step+")", g, fmt.Sprint(id.Client, id.Version, id.Seed == seed), "unchanged")
		}
		if w != nil && (id.Weights != w || fmt.Sprint(math.Float64bits(0), wbytes(weightsVec(w))) != fmt.Sprint(math.Float64bits(0), wbytes(g.w))) {
			r.fail("weights-mutated", "generateRandomizedSpec changed the caller's Weights ("+step+")", g, weightsVec(w), g.w)
		}
		if w == nil && id.Weights != nil && id.Weights != &tls.DefaultWeights {
			r.fail("weights-mutated", "nil Weights replaced by something other than &DefaultWeights ("+step+")", g, nil, "&DefaultWeights")
		}
		if fmt.Sprintf("%x", wbytes(weightsVec(&tls.DefaultWeights))) != fmt.Sprintf("%x", wbytes(weightsVec(&defaultWeightsAtStart))) {
			r.fail("default-weights-mutated", "DefaultWeights changed ("+step+")", g, weightsVec(&tls.DefaultWeights), weightsVec(&defaultWeightsAtStart))
		}
		if fmt.Sprint(protos) != fmt.Sprint(g.protos) && len(g.protos) > 0 {
			r.fail("nextprotos-mutated", "generateRandomizedSpec changed the caller's NextProtos ("+step+")", g, protos, g.protos)
		}
	}
	p1, err1 := tls.VerifGenerateRandomizedSpecID(&id, g.server, protos)
	inputsKept("first build")
	p2, err2 := tls.VerifGenerateRandomizedSpecID(&id, g.server, protos)
	inputsKept("second build")
	b.err1, b.err2 = err1, err2
	if err1 == nil {
		b.o1 = observe(&p1)
	}
	if err2 == nil {
		b.o2 = observe(&p2)
	}
	b.seedAfter = *seed
	return b
}

type nullConn struct{ net.Conn }

// publicPath: the same sequence through the public API - two UClient(...) from ONE id value (so both UConns share the
// Seed pointer, as with a Roller or an id kept by the application) + BuildHandshakeState. Both connections must offer
// the fingerprint of the direct call (suites, extension order and parameters; key-share data is per-connection
// material), and the caller's seed must survive.
func (g *gen) publicPath(r *reporter, want obs) {
	seed := new(tls.PRNGSeed)
	*seed = g.seed
	var w *tls.Weights
	if g.w != nil {
		w = weightsFrom(g.w)
	}
	id := idFor(g.client, seed, w)
	var got [2]string
	for k := 0; k < 2; k++ {
		cfg := &tls.Config{ServerName: g.server, NextProtos: append([]string(nil), g.protos...), InsecureSkipVerify: g.server == ""}
		uc := tls.UClient(nullConn{}, cfg, id)
		if err := uc.BuildHandshakeState(); err != nil {
			r.fail("public-build-error", "BuildHandshakeState failed for a randomized id: "+err.Error(), g, err.Error(), "nil")
			return
		}
		if *seed != g.seed {
			r.fail("seed-mutated", fmt.Sprintf("BuildHandshakeState #%d changed the seed the ClientHelloID points to", k+1), g, fmt.Sprintf("%x", seed[:]), fmt.Sprintf("%x", g.seed[:]))
		}
		o := observe(&tls.ClientHelloSpec{CipherSuites: uc.HandshakeState.Hello.CipherSuites, Extensions: uc.Extensions})
		o.min, o.max = want.min, want.max // version bounds live in the unexported config copy; suites/extensions are compared
		got[k] = o.coq()
	}
	r.c.Count("public_path_pairs")
	if got[0] != got[1] {
		r.fail("determinism", "two connections built from one ClientHelloID value (shared Seed) offer different fingerprints", g, got[:], "equal")
	} else if got[0] != want.coq() {
		r.fail("public-path-differs", "UClient+BuildHandshakeState does not offer the spec generateRandomizedSpec returns for the id", g, got[0], want.coq())
	}
}

type tables struct {
	rows  []tls.VerifSuiteRow
	tls13 []uint16
	class map[uint16]int // 0 = TLS 1.3 suite, 1 = TLS 1.2-only (suiteTLS12), 2 = older
}

const (
	grpMLKEM = uint16(tls.X25519MLKEM768)
	grpKyber = uint16(tls.X25519Kyber768Draft00)
)

var rc4 = []uint16{tls.TLS_RSA_WITH_RC4_128_SHA, tls.TLS_ECDHE_RSA_WITH_RC4_128_SHA, tls.TLS_ECDHE_ECDSA_WITH_RC4_128_SHA}

type reporter struct {
	c    *vh.Ctx
	seen map[string]int
	wit  map[string]int
}

// at most 3 concrete witnesses per key; the total is counted in the evidence
func (r *reporter) fail(key, what string, g *gen, got, want any) {
	r.seen[key]++
	r.c.Count("oracle_fail:" + key + "/" + g.wname)
	// concrete witnesses: up to 2 with DefaultWeights and 1 with any other weights per key
	slot := key + "|other"
	lim := 1
	if g.wname == "default" {
		slot, lim = key+"|default", 2
	}
	r.wit[slot]++
	if r.wit[slot] <= lim {
		r.c.Fail(key, what, g.input(), got, want)
	}
}

func oracle(r *reporter, tb *tables, g *gen, o obs) {
	wkey := g.wname
	if o.other != "" {
		r.fail("spec-extra-state", "the generated spec carries state outside suites/extensions: "+o.other, g, o.String(), "zero")
	}
	// every extension type at most once
	for _, e := range o.exts {
		if o.count(e.kind) > 1 {
			r.fail("duplicate-extension/"+e.kind, "extension appears twice", g, o.String(), "at most once")
			break
		}
	}
	is13 := o.max == tls.VersionTLS13
	// suites: TLS 1.3 first, then TLS 1.2-only, then older; all known; no duplicates
	last := 0
	seenSuite := map[uint16]bool{}
	for _, s := range o.ciphers {
		cl, ok := tb.class[s]
		if !ok || seenSuite[s] {
			r.fail("suite-unknown-or-duplicate", "cipher suite not from the tables or listed twice", g, o.String(), "suites from cipherSuites/defaultCipherSuitesTLS13, once each")
			break
		}
		seenSuite[s] = true
		if cl < last {
			r.fail("suite-order", "suites not ordered TLS 1.3, TLS 1.2-only, older", g, o.String(), "class order 1.3 < 1.2 < older")
			break
		}
		last = cl
		if cl == 0 && !is13 {
			r.fail("tls13-suite-in-tls12-spec", "TLS 1.3 suite offered with TLSVersMax < 1.3", g, o.String(), "none")
			break
		}
	}
	if len(o.ciphers) == 0 {
		r.fail("no-suites", "no cipher suite offered", g, o.String(), "at least one")
	}
	if o.min > o.max || (o.max != tls.VersionTLS12 && o.max != tls.VersionTLS13) {
		r.fail("version-range", "TLSVersMin/Max not a sane range", g, o.String(), "min <= max in {1.2,1.3}")
	}
	sig := o.find("ESigAlgs")
	curves := o.find("ECurves")
	ks := o.find("EKeyShare")
	sv := o.find("ESupportedVersions")
	if sig == nil || curves == nil || o.find("ESNI") == nil {
		r.fail("missing-core-extension", "SNI / signature_algorithms / supported_groups missing", g, o.String(), "present")
		return
	}
	if is13 {
		for _, s := range o.ciphers {
			if has(rc4, s) {
				r.fail("tls13-rc4", "TLS 1.3 spec offers RC4", g, o.String(), "no RC4")
				break
			}
		}
		if !has(sig.nums, uint16(tls.PSSWithSHA256)) && !has(sig.nums, uint16(tls.PSSWithSHA384)) && !has(sig.nums, uint16(tls.PSSWithSHA512)) {
			r.fail("tls13-no-pss", "TLS 1.3 spec without RSA-PSS", g, o.String(), "RSA-PSS present")
		}
		if o.find("EPadding") == nil {
			r.fail("tls13-no-padding", "TLS 1.3 spec without padding extension", g, o.String(), "padding present")
		}
		okv := sv != nil && len(sv.nums) == int(o.max-o.min)+1
		if okv {
			for i, v := range sv.nums {
				if v != o.max-uint16(i) {
					okv = false
				}
			}
		}
		if !okv {
			r.fail("tls13-supported-versions", "supported_versions does not match [max..min]", g, o.String(), "max down to min")
		}
		if ks == nil || len(ks.nums) == 0 {
			r.fail("tls13-no-keyshare", "TLS 1.3 spec without key share", g, o.String(), "key_share present")
		}
	} else if ks != nil || sv != nil || o.find("EPSKModes") != nil {
		r.fail("tls12-has-tls13-extension", "TLS 1.2 spec carries key_share/psk modes/supported_versions", g, o.String(), "absent")
	}
	if o.find("EALPS") != nil && o.find("EALPN") == nil {
		r.fail("alps-without-alpn", "ALPS without ALPN", g, o.String(), "ALPS only with ALPN")
	}
	if o.find("EALPS") != nil && !is13 {
		r.fail("alps-without-tls13", "ALPS in a TLS 1.2 spec", g, o.String(), "ALPS is TLS 1.3 only")
	}
	if g.client == "Randomized-ALPN" && o.find("EALPN") == nil || g.client == "Randomized-NoALPN" && o.find("EALPN") != nil {
		r.fail("alpn-variant", "ALPN presence does not follow the -ALPN/-NoALPN id", g, o.String(), "as the id says")
	}
	if a := o.find("EALPN"); a != nil {
		want := g.protos
		if len(want) == 0 {
			want = []string{"h2", "http/1.1"}
		}
		if fmt.Sprint(a.strs) != fmt.Sprint(want) {
			r.fail("alpn-protocols", "ALPN does not carry NextProtos (or the default)", g, o.String(), want)
		}
	}
	if ks != nil {
		for _, gk := range ks.nums {
			if !has(curves.nums, gk) {
				r.fail("keyshare-not-in-groups", fmt.Sprintf("key share for group %d which is not in supported_groups", gk), g, o.String(), "every key-share group listed in supported_groups")
				break
			}
		}
		// shares in supported_groups order (RFC 8446 4.2.8)
		pos := -1
		for _, gk := range ks.nums {
			for i, cg := range curves.nums {
				if cg == gk {
					if i < pos {
						r.fail("keyshare-order", "key shares not in supported_groups order", g, o.String(), "same order")
					}
					pos = i
				}
			}
		}
	}
	if is13 {
		for _, pq := range []uint16{grpMLKEM, grpKyber} {
			if has(curves.nums, pq) && (ks == nil || !has(ks.nums, pq)) {
				r.fail("hybrid-without-share", fmt.Sprintf("hybrid post-quantum group %d in supported_groups without a key share", pq), g, o.String(), "every hybrid PQ group offered has a share")
			}
		}
	} else if has(curves.nums, grpMLKEM) || has(curves.nums, grpKyber) {
		r.fail("hybrid-in-tls12", "hybrid post-quantum group in a TLS 1.2 spec", g, o.String(), "absent")
	}

	// weights 0 / 1: feature absent / present unless a TLS 1.3 rule forces it
	w := g.w
	if w == nil {
		w = weightsVec(&tls.DefaultWeights)
	}
	feature := func(idx int, name string, applicable, present, forced bool) {
		if !applicable {
			return
		}
		if w[idx] <= 0 && present && !forced {
			r.fail("weight0-present/"+name, "weight <= 0 but the optional feature is present ("+wkey+")", g, o.String(), "absent")
		}
		if w[idx] >= 1 && !present {
			r.fail("weight1-absent/"+name, "weight >= 1 but the optional feature is absent ("+wkey+")", g, o.String(), "present")
		}
	}
	feature(0, "alpn", g.client == "Randomized", o.find("EALPN") != nil, false)
	feature(1, "tls13", true, is13, false)
	full := len(tb.rows)
	if is13 {
		full = len(tb.tls13)
		for _, row := range tb.rows {
			if !has(rc4, row.ID) {
				full++
			}
		}
	}
	if w[2] <= 0 && len(o.ciphers) != full {
		r.fail("weight0-present/remove-ciphers", "removal weight <= 0 but suites were removed", g, o.String(), full)
	}
	feature(3, "ecdsa-sha1", true, has(sig.nums, uint16(tls.ECDSAWithSHA1)), false)
	feature(4, "ecdsa-p521-sha512", true, has(sig.nums, uint16(tls.ECDSAWithP521AndSHA512)), false)
	pss := has(sig.nums, uint16(tls.PSSWithSHA256))
	feature(5, "pss-sha256", true, pss, is13)
	feature(6, "pss-sha384-512", pss, has(sig.nums, uint16(tls.PSSWithSHA384)) && has(sig.nums, uint16(tls.PSSWithSHA512)), false)
	feature(6, "pss-sha384-512-any", pss, has(sig.nums, uint16(tls.PSSWithSHA384)) || has(sig.nums, uint16(tls.PSSWithSHA512)), false)
	feature(7, "x25519", true, has(curves.nums, uint16(tls.X25519)), is13)
	feature(7, "x25519mlkem768-group", is13, has(curves.nums, grpMLKEM), false)
	feature(8, "p521", true, has(curves.nums, uint16(tls.CurveP521)), false)
	feature(9, "padding", true, o.find("EPadding") != nil, is13)
	feature(10, "status", true, o.find("EStatus") != nil, false)
	feature(11, "sct", true, o.find("ESCT") != nil, false)
	feature(12, "reneg", true, o.find("EReneg") != nil, false)
	feature(13, "ems", true, o.find("EEMS") != nil, false)
	if is13 && ks != nil && len(ks.nums) > 0 {
		p256first := len(ks.nums) == 1 && ks.nums[0] == uint16(tls.CurveP256)
		feature(14, "first-keyshare-p256", true, p256first, false)
		feature(15, "keyshare-extra-p256", !p256first, len(ks.nums) > 1 && has(ks.nums, uint16(tls.CurveP256)), false)
		feature(15, "keyshare-extra-mlkem", !p256first, has(ks.nums, grpMLKEM), false)
	}
	feature(16, "alps", is13 && o.find("EALPN") != nil, o.find("EALPS") != nil, false)
}

// ---- cases ----

func variantOf(client string) string {
	switch client {
	case "Randomized":
		return "VRandomized"
	case "Randomized-ALPN":
		return "VALPN"
	case "Randomized-NoALPN":
		return "VNoALPN"
	}
	return "VOther"
}

func protosCoq(p []string) string {
	it := make([]string, len(p))
	for i, s := range p {
		it[i] = pkPair([]byte(s))
	}
	return vh.List(it)
}

func runOne(c *vh.Ctx, r *reporter, tb *tables, g *gen, emit bool) {
	b := g.build(r)
	o1, err1, o2, err2 := b.o1, b.err1, b.o2, b.err2
	// determinism: the same ClientHelloID object twice
	if (err1 == nil) != (err2 == nil) || o1.String() != o2.String() {
		r.fail("determinism", "two builds from the same ClientHelloID (one seed object, same weights) gave different specs", g, []string{o1.String(), o2.String()}, "equal")
	}
	if err1 == nil && g.public {
		g.publicPath(r, o1)
	}
	var res string
	if err1 != nil {
		if variantOf(g.client) != "VOther" {
			r.fail("generator-error", "generateRandomizedSpec returned an error for a randomized id: "+err1.Error(), g, err1.Error(), "a spec")
		}
		res = ints([]uint64{0, 1})
	} else {
		if variantOf(g.client) == "VOther" {
			r.fail("non-randomized-accepted", "generateRandomizedSpec accepted a non-randomized id", g, o1.String(), "error")
		}
		oracle(r, tb, g, o1)
		if e, ok := o1.enc(); ok {
			res = ints(e)
		} else {
			res = ints([]uint64{3}) // no such result in the model: the case fails
		}
		c.Count(fmt.Sprintf("max_%#x", o1.max))
	}
	if !emit {
		return
	}
	w := g.w
	if w == nil {
		w = weightsVec(&tls.DefaultWeights)
	}
	nw := 0
	if err1 == nil {
		nw = wordsNeeded(g, o1, tb)
		c.Count(fmt.Sprintf("stream_words_%02d", nw/10*10))
	}
	main := wordBytes(shakeWords(g.seed[:], nw))
	salted := wordBytes(shakeWords(saltedSeed(g.seed[:], "ALPS"), 1))
	// weights: [] = id.Weights nil (DefaultWeights, snapshot checked by the CDefaults case); 8 bytes = all 17 equal; else 17*8 bytes
	wenc := pk(wbytes(w))
	if g.w == nil {
		wenc = pk(nil)
	} else {
		same := true
		for _, x := range w {
			if math.Float64bits(x) != math.Float64bits(w[0]) {
				same = false
			}
		}
		if same {
			wenc = pk(wbytes(w[:1]))
		}
	}
	term := fmt.Sprintf("CGen %s %s %s %s %s %s %s %s %s", variantOf(g.client), wenc, pkPair([]byte(g.server)), protosCoq(g.protos), pk(main), pkList(salted), res,
		pkList(g.seed[:]), pkList(b.seedAfter[:]))
	key := fmt.Sprintf("%s/%x/%s/%s/%v/%x", g.client, g.seed[:], g.wname, g.server, g.protos, wbytes(w))
	var sample any
	if err1 == nil {
		sample = map[string]any{"client": g.client, "seed": fmt.Sprintf("%x", g.seed[:8]), "weights": g.wname, "spec": o1.coq()}
	}
	c.Case("gen/"+g.wname, term, key, err1 == nil, sample)
}

var servers = []string{"", "example.com", "a.b.c.example.org", "xn--nxasmq6b.test"}
var protoSets = [][]string{nil, nil, {"h2", "http/1.1"}, {"http/1.1"}, {"h3", "h2", "spdy/3.1"}, {}}
var clients = []string{"Randomized", "Randomized-ALPN", "Randomized-NoALPN"}

// seeds whose specs showed the two F-09 inconsistencies with DefaultWeights (always run)
var corpus = []string{
	"c653211755d5ab29c11822d7711a97b3f1ff5b21f2485d9c86241fb56cdd6796", // X25519MLKEM768 share, group not listed
	"eb1e5849c607484517e924aef78ae151c00755925836b7075885650c30ec29a3", // X25519MLKEM768 listed, no share
}

func run(c *vh.Ctx) {
	r := &reporter{c: c, seen: map[string]int{}, wit: map[string]int{}}
	tb := &tables{rows: tls.VerifCipherSuiteRows(), tls13: tls.VerifDefaultCipherSuitesTLS13(), class: map[uint16]int{}}
	for _, row := range tb.rows {
		if row.TLS12 {
			tb.class[row.ID] = 1
		} else {
			tb.class[row.ID] = 2
		}
	}
	for _, s := range tb.tls13 {
		tb.class[s] = 0
	}
	emit := c.Tier != "search"

	// tables and constants the model snapshots
	if emit {
		it := make([]string, len(tb.rows))
		for i, row := range tb.rows {
			it[i] = fmt.Sprintf("(%d%%uint63, %s)", row.ID, vh.Bool(row.TLS12))
		}
		c.Case("table", fmt.Sprintf("CTable %s %s", vh.List(it), ints(tb.tls13)), "table", true, nil)
		psk, pt := tls.VerifC09Consts()
		consts := []uint16{tls.VersionTLS10, tls.VersionTLS12, tls.VersionTLS13,
			uint16(tls.ECDSAWithP256AndSHA256), uint16(tls.PKCS1WithSHA256), uint16(tls.ECDSAWithP384AndSHA384), uint16(tls.PKCS1WithSHA384),
			uint16(tls.PKCS1WithSHA1), uint16(tls.PKCS1WithSHA512), uint16(tls.ECDSAWithSHA1), uint16(tls.ECDSAWithP521AndSHA512),
			uint16(tls.PSSWithSHA256), uint16(tls.PSSWithSHA384), uint16(tls.PSSWithSHA512),
			uint16(tls.X25519MLKEM768), uint16(tls.X25519), uint16(tls.CurveP256), uint16(tls.CurveP384), uint16(tls.CurveP521),
			uint16(pt), uint16(tls.RenegotiateOnceAsClient), uint16(psk),
			tls.TLS_RSA_WITH_RC4_128_SHA, tls.TLS_ECDHE_ECDSA_WITH_RC4_128_SHA, tls.TLS_ECDHE_RSA_WITH_RC4_128_SHA}
		c.Case("consts", "CConsts "+ints(consts), "consts", true, nil)
		c.Case("defaults", "CDefaults "+pkList(wbytes(weightsVec(&tls.DefaultWeights))), "defaults", true, nil)
		coinSites(c)
	}

	wsets := []struct {
		name string
		mk   func() []float64
	}{
		{"default", func() []float64 { return nil }},
		{"all-0", func() []float64 { return constWeights(0) }},
		{"all-1", func() []float64 { return constWeights(1) }},
		{"random", func() []float64 { return randomWeights(c) }},
	}

	// fixed corpus: DefaultWeights, all three variants
	for _, hs := range corpus {
		for _, cl := range clients {
			g := &gen{client: cl, wname: "default", server: "example.com", variant: variantOf(cl), public: true}
			b, _ := hex.DecodeString(hs)
			copy(g.seed[:], b)
			runOne(c, r, tb, g, emit)
		}
	}

	for i := 0; i < c.N; i++ {
		var seed tls.PRNGSeed
		c.Rng.Read(seed[:])
		for k, ws := range wsets {
			g := &gen{client: clients[(i+k)%3], seed: seed, w: ws.mk(), wname: ws.name,
				server: servers[c.Rng.Intn(len(servers))], protos: protoSets[c.Rng.Intn(len(protoSets))], public: true}
			if i%7 == 3 && k == 0 {
				g.w = weightsVec(&tls.DefaultWeights) // explicit copy of the defaults: must equal the nil case
				g.wname = "default-explicit"
			}
			runOne(c, r, tb, g, emit)
		}
	}

	// non-randomized ids are rejected
	for _, cl := range []string{"Chrome", "Golang", "", "Randomized-alpn"} {
		g := &gen{client: cl, wname: "default", server: "example.com"}
		c.Rng.Read(g.seed[:])
		runOne(c, r, tb, g, emit)
	}

	if emit {
		helpers(c, tb)
	}
	c.Extra["oracle_failures_by_key"] = r.seen
}

// coinSites: the id.Weights.X references in the source of generateRandomizedSpec, in order, as field indices of
// tls.Weights, followed by 100 + the number of FlipWeightedCoin calls there. Must equal the coin table of
// Proofs/RandomizedC.v: a coin added to the code without a row in the table is a mismatch.
func coinSites(c *vh.Ctx) {
	refs, flips := tls.VerifC09WeightRefs()
	idx := map[string]int{}
	wt := reflect.TypeOf(tls.Weights{})
	for i := 0; i < wt.NumField(); i++ {
		idx[wt.Field(i).Name] = i
	}
	if wt.NumField() != nWeights {
		c.Fail("weights-struct", "tls.Weights no longer has 17 fields", wt.NumField(), wt.NumField(), nWeights)
	}
	seq := make([]int, 0, len(refs)+1)
	for _, r := range refs {
		seq = append(seq, idx[r])
	}
	seq = append(seq, 100+flips)
	c.Case("coins", "CCoins "+ints(seq), "coins", true, map[string]any{"weight_refs": refs, "flip_calls": flips})
}

// the helpers called directly, on lists and weights the generator itself never passes
func helpers(c *vh.Ctx, tb *tables) {
	n := c.N / 4
	all := []uint16{}
	for _, row := range tb.rows {
		all = append(all, row.ID)
	}
	all = append(all, tb.tls13...)
	for i := 0; i < n; i++ {
		var seed tls.PRNGSeed
		c.Rng.Read(seed[:])
		ln := c.Rng.Intn(30)
		if i%10 == 0 {
			ln = c.Rng.Intn(3)
		}
		s := make([]uint16, ln)
		for k := range s {
			if c.Rng.Intn(3) == 0 {
				s[k] = rc4[c.Rng.Intn(3)]
			} else {
				s[k] = all[c.Rng.Intn(len(all))]
			}
		}
		var w float64
		switch c.Rng.Intn(3) {
		case 0:
			w = weightBounds[c.Rng.Intn(len(weightBounds))]
		case 1:
			w = c.Rng.Float64()*1.4 - 0.2
		default:
			w = c.Rng.Float64() * float64(ln+1) // i/len scaling brings these back into (0,1)
		}
		in := append([]uint16(nil), s...)
		out := tls.VerifRemoveRandomCiphers(&seed, in, w)
		c.Case("removeRandomCiphers", fmt.Sprintf("CRemove %s %s %s %s", pk(wordBytes(shakeWords(seed[:], ln+1))), ints(s), pkList(wbytes([]float64{w})), ints(out)),
			fmt.Sprintf("rm/%x/%v/%x", seed[:], s, math.Float64bits(w)), ln > 1, nil)
		if len(out) > len(s) || (ln > 0 && (len(out) == 0 || out[0] != s[0])) {
			c.Fail("remove-first-suite", "removeRandomCiphers dropped the first suite or grew the list", map[string]any{"seed": fmt.Sprintf("%x", seed[:]), "s": s, "w": fmt.Sprint(w)}, out, "first suite kept")
		}
		in = append([]uint16(nil), s...)
		out4 := tls.VerifRemoveRC4Ciphers(in)
		c.Case("removeRC4Ciphers", fmt.Sprintf("CRC4 %s %s", ints(s), ints(out4)), fmt.Sprintf("rc4/%v", s), ln > 0, nil)
		for _, x := range out4 {
			if has(rc4, x) {
				c.Fail("rc4-kept", "removeRC4Ciphers left an RC4 suite", s, out4, "no RC4")
				break
			}
		}
		if i%4 == 0 {
			sh, err := tls.VerifShuffledCiphers(&seed)
			if err != nil {
				c.Fail("shuffled-error", "shuffledCiphers failed", fmt.Sprintf("%x", seed[:]), err.Error(), "nil")
				continue
			}
			c.Case("shuffledCiphers", fmt.Sprintf("CShuffled %s %s", pk(wordBytes(shakeWords(seed[:], len(tb.rows)+6))), ints(sh)), fmt.Sprintf("sh/%x", seed[:]), true, nil)
		}
	}
}

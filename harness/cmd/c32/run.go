package main

import (
	"bytes"
	"encoding/json"
	"errors"
	"fmt"
	mrand "math/rand"
	"net"
	"os"
	"sort"
	"strings"

	tls "github.com/refraction-networking/utls"
	"github.com/refraction-networking/utls/dicttls"
	"verif/harness/vh"
)

// ---------- live dictionaries (the compiled maps) ----------

type liveTable struct {
	base string
	vi   map[uint64]string
	ni   map[string]uint64
}

func live[K ~uint8 | ~uint16 | ~uint64](base string, vi map[K]string, ni map[string]K) liveTable {
	t := liveTable{base: base, vi: map[uint64]string{}, ni: map[string]uint64{}}
	for k, v := range vi {
		t.vi[uint64(k)] = v
	}
	for k, v := range ni {
		t.ni[k] = uint64(v)
	}
	return t
}

func liveTables() []liveTable {
	return []liveTable{
		live("Alert", dicttls.DictAlertValueIndexed, dicttls.DictAlertNameIndexed),
		live("AuthorizationDataFormat", dicttls.DictAuthorizationDataFormatValueIndexed, dicttls.DictAuthorizationDataFormatNameIndexed),
		live("CachedInformationType", dicttls.DictCachedInformationTypeValueIndexed, dicttls.DictCachedInformationTypeNameIndexed),
		live("CertificateCompressionAlgorithm", dicttls.DictCertificateCompressionAlgorithmValueIndexed, dicttls.DictCertificateCompressionAlgorithmNameIndexed),
		live("CertificateStatusType", dicttls.DictCertificateStatusTypeValueIndexed, dicttls.DictCertificateStatusTypeNameIndexed),
		live("CertificateType", dicttls.DictCertificateTypeValueIndexed, dicttls.DictCertificateTypeNameIndexed),
		live("CipherSuite", dicttls.DictCipherSuiteValueIndexed, dicttls.DictCipherSuiteNameIndexed),
		live("ClientCertificateTypeIdentifier", dicttls.DictClientCertificateTypeIdentifierValueIndexed, dicttls.DictClientCertificateTypeIdentifierNameIndexed),
		live("CompMeth", dicttls.DictCompMethValueIndexed, dicttls.DictCompMethNameIndexed),
		live("ContentType", dicttls.DictContentTypeValueIndexed, dicttls.DictContentTypeNameIndexed),
		live("ECCurveType", dicttls.DictECCurveTypeValueIndexed, dicttls.DictECCurveTypeNameIndexed),
		live("ECPointFormat", dicttls.DictECPointFormatValueIndexed, dicttls.DictECPointFormatNameIndexed),
		live("ExtType", dicttls.DictExtTypeValueIndexed, dicttls.DictExtTypeNameIndexed),
		live("HandshakeType", dicttls.DictHandshakeTypeValueIndexed, dicttls.DictHandshakeTypeNameIndexed),
		live("HashAlgorithm", dicttls.DictHashAlgorithmValueIndexed, dicttls.DictHashAlgorithmNameIndexed),
		live("HeartbeatMessageType", dicttls.DictHeartbeatMessageTypeValueIndexed, dicttls.DictHeartbeatMessageTypeNameIndexed),
		live("HeartbeatMode", dicttls.DictHeartbeatModeValueIndexed, dicttls.DictHeartbeatModeNameIndexed),
		live("KDFIdentifier", dicttls.DictKDFIdentifierValueIndexed, dicttls.DictKDFIdentifierNameIndexed),
		live("KEMIdentifier", dicttls.DictKEMIdentifierValueIndexed, dicttls.DictKEMIdentifierNameIndexed),
		live("PSKKeyExchangeMode", dicttls.DictPSKKeyExchangeModeValueIndexed, dicttls.DictPSKKeyExchangeModeNameIndexed),
		live("QUICFrameType", dicttls.DictQUICFrameTypeValueIndexed, dicttls.DictQUICFrameTypeNameIndexed),
		live("QUICTransportErrorCode", dicttls.DictQUICTransportErrorCodeValueIndexed, dicttls.DictQUICTransportErrorCodeNameIndexed),
		live("QUICTransportParameter", dicttls.DictQUICTransportParameterValueIndexed, dicttls.DictQUICTransportParameterNameIndexed),
		live("SignatureAlgorithm", dicttls.DictSignatureAlgorithmValueIndexed, dicttls.DictSignatureAlgorithmNameIndexed),
		live("SignatureScheme", dicttls.DictSignatureSchemeValueIndexed, dicttls.DictSignatureSchemeNameIndexed),
		live("SupplementalDataFormat", dicttls.DictSupplementalDataFormatValueIndexed, dicttls.DictSupplementalDataFormatNameIndexed),
		live("SupportedGroups", dicttls.DictSupportedGroupsValueIndexed, dicttls.DictSupportedGroupsNameIndexed),
		live("UserMappingType", dicttls.DictUserMappingTypeValueIndexed, dicttls.DictUserMappingTypeNameIndexed),
	}
}

func coqStr(s string) string { return `"` + strings.ReplaceAll(s, `"`, `""`) + `"%string` }

func coqStrs(l []string) string {
	it := make([]string, len(l))
	for i, s := range l {
		it[i] = coqStr(s)
	}
	return vh.List(it)
}

func runDicts(c *vh.Ctx) {
	repo := os.Getenv("VERIF_REPO")
	if repo == "" {
		repo = "/repo"
	}
	src, err := loadDictTables(repo)
	if err != nil {
		panic("C32 runner: cannot read dicttls source: " + err.Error())
	}
	srcBases := map[string]bool{}
	for _, t := range src {
		if t.hasVI && t.hasNI {
			srcBases[t.base] = true
		}
	}
	var uncovered, unpaired []string
	for _, t := range src {
		if !(t.hasVI && t.hasNI) {
			unpaired = append(unpaired, t.base)
		}
	}
	liveBases := map[string]bool{}
	for _, t := range liveTables() {
		liveBases[t.base] = true
		// Go-side oracle, on the compiled maps: every value-indexed entry resolves back through the name-indexed map
		vals := make([]uint64, 0, len(t.vi))
		for v := range t.vi {
			vals = append(vals, v)
		}
		sort.Slice(vals, func(i, j int) bool { return vals[i] < vals[j] })
		var vit []string
		for _, v := range vals {
			name := t.vi[v]
			back, ok := t.ni[name]
			if !ok || back != v {
				got := "no entry"
				if ok {
					got = fmt.Sprintf("%d", back)
				}
				c.Fail(fmt.Sprintf("dict/%s/%d", t.base, v), fmt.Sprintf("Dict%sValueIndexed[%d] = %q does not resolve back through Dict%sNameIndexed", t.base, v, name, t.base),
					map[string]any{"table": t.base, "value": v, "name": name}, got, v)
			}
			vit = append(vit, fmt.Sprintf("(%d, %s)", v, coqStr(name)))
		}
		names := make([]string, 0, len(t.ni))
		for n := range t.ni {
			names = append(names, n)
		}
		sort.Strings(names)
		var nit []string
		for _, n := range names {
			nit = append(nit, fmt.Sprintf("(%s, %d)", coqStr(n), t.ni[n]))
		}
		// the compiled maps are the tables of Gen/Dict.v (ties the generated file to the package the importer uses)
		c.Case("dict-live", fmt.Sprintf("(CDictLive %s %s %s)", coqStr(t.base), vh.List(vit), vh.List(nit)), t.base, len(vals) > 1,
			map[string]any{"table": t.base, "value_indexed": len(t.vi), "name_indexed": len(t.ni)})
		if !srcBases[t.base] {
			uncovered = append(uncovered, "live-only:"+t.base)
		}
	}
	for b := range srcBases {
		if !liveBases[b] {
			uncovered = append(uncovered, b)
		}
	}
	sort.Strings(uncovered)
	c.Extra["tables_in_source"] = len(src)
	c.Extra["tables_unpaired"] = unpaired
	c.Extra["tables_without_live_crosscheck"] = uncovered // proved from source all the same; only the compiled-map comparison is missing
}

// ---------- rendering a wire hello in the JSON format of ClientHelloSpec.UnmarshalJSON ----------

var errNotDescribable = errors.New("not describable in the supported JSON format")

type named struct {
	names []string
	vals  []uint64
}

func nameList[K ~uint8 | ~uint16](vi map[K]string, vals []K, grease bool) (named, error) {
	var out named
	for _, v := range vals {
		out.vals = append(out.vals, uint64(v))
		if grease && isGrease(uint16(v)) {
			out.names = append(out.names, "GREASE")
			continue
		}
		n, ok := vi[v]
		if !ok {
			return out, fmt.Errorf("%w: code point %d has no dictionary name", errNotDescribable, v)
		}
		out.names = append(out.names, n)
	}
	return out, nil
}

type rendered struct {
	js       []byte
	suites   named
	comp     named
	groups   *named
	sigalgs  *named
	ksGroups *named
	points   *named
	pskModes *named
	padding  string
	certAlgs *named
	extNames named
}

func renderJSON(w *whello, variant int) (*rendered, error) {
	r := &rendered{}
	var err error
	if r.suites, err = nameList(dicttls.DictCipherSuiteValueIndexed, w.suites, true); err != nil {
		return nil, err
	}
	if r.comp, err = nameList(dicttls.DictCompMethValueIndexed, w.comp, false); err != nil {
		return nil, err
	}
	type obj = map[string]any
	var exts []obj
	for _, e := range w.exts {
		r.extNames.vals = append(r.extNames.vals, uint64(e.id))
		if isGrease(e.id) {
			r.extNames.names = append(r.extNames.names, "GREASE")
			o := obj{"name": "GREASE"}
			if variant%2 == 1 { // the optional members of the GREASE object
				o["id"], o["keep_id"], o["data"], o["keep_data"] = e.id, true, e.data, true
			}
			exts = append(exts, o)
			continue
		}
		name, ok := dicttls.DictExtTypeValueIndexed[e.id]
		if !ok {
			return nil, fmt.Errorf("%w: extension %d has no dictionary name", errNotDescribable, e.id)
		}
		r.extNames.names = append(r.extNames.names, name)
		o := obj{"name": name}
		switch e.id {
		case 0, 5, 17, 18, 23, 35, 13172, 30031, 30032, 65281:
			// name only
		case 10:
			l, err := parseU16Vec16(e.data)
			if err != nil {
				return nil, err
			}
			n, err := nameList(dicttls.DictSupportedGroupsValueIndexed, l, true)
			if err != nil {
				return nil, err
			}
			r.groups = &n
			o["named_group_list"] = n.names
		case 11:
			pf, err := (&rd{e.data}).vec8()
			if err != nil {
				return nil, err
			}
			n, err := nameList(dicttls.DictECPointFormatValueIndexed, pf, false)
			if err != nil {
				return nil, err
			}
			r.points = &n
			o["ec_point_format_list"] = n.names
		case 13, 50, 34:
			l, err := parseU16Vec16(e.data)
			if err != nil {
				return nil, err
			}
			n, err := nameList(dicttls.DictSignatureSchemeValueIndexed, l, true)
			if err != nil {
				return nil, err
			}
			if e.id == 13 {
				r.sigalgs = &n
			}
			o["supported_signature_algorithms"] = n.names
		case 16, 17513, 17613:
			b, err := (&rd{e.data}).vec16()
			if err != nil {
				return nil, err
			}
			ps, err := parseStrings8(b)
			if err != nil {
				return nil, err
			}
			// an empty list is written by leaving the optional member out
			if len(ps) > 0 || variant%2 == 1 {
				if ps == nil {
					ps = []string{}
				}
				if e.id == 16 {
					o["protocol_name_list"] = ps
				} else {
					o["supported_protocols"] = ps
				}
			}
		case 21:
			// "len": 0 (or no member) asks for the BoringSSL heuristic; that describes this hello only if the heuristic,
			// applied to the unpadded length, gives exactly the padding seen. Any other padding is an explicit length.
			unpadded := len(w.rebuild()) - 4 - len(e.data)
			if bl, will := tls.BoringPaddingStyle(unpadded); will && bl == len(e.data) && variant%3 != 2 {
				if variant%2 == 0 {
					o["len"] = 0
				}
				r.padding = "boring"
			} else if len(e.data) == 0 {
				return nil, fmt.Errorf("%w: empty padding extension that the BoringSSL heuristic would not produce", errNotDescribable)
			} else {
				o["len"] = len(e.data)
				r.padding = fmt.Sprintf("explicit-%d/unpadded-%d", len(e.data), unpadded)
			}
		case 24:
			if len(e.data) < 3 || int(e.data[2]) != len(e.data)-3 {
				return nil, errNotDescribable
			}
			o["token_binding_version"] = obj{"major": e.data[0], "minor": e.data[1]}
			var kp []string
			for _, p := range e.data[3:] {
				if int(p) > 2 {
					return nil, fmt.Errorf("%w: token binding key parameter %d", errNotDescribable, p)
				}
				kp = append(kp, []string{"rsa2048_pkcs1.5", "rsa2048_pss", "ecdsap256"}[p])
			}
			if len(kp) > 0 || variant%2 == 1 {
				if kp == nil {
					kp = []string{}
				}
				o["key_parameters_list"] = kp
			}
		case 41:
			ids, binders, err := parsePSK(e.data)
			if err != nil {
				return nil, err
			}
			o["identities"], o["binders"] = ids, binders
		case 27:
			b, err := (&rd{e.data}).vec8()
			if err != nil {
				return nil, err
			}
			l, err := u16list(b)
			if err != nil {
				return nil, err
			}
			n, err := nameList(dicttls.DictCertificateCompressionAlgorithmValueIndexed, l, false)
			if err != nil {
				return nil, err
			}
			r.certAlgs = &n
			o["algorithms"] = n.names
		case 28:
			if len(e.data) != 2 {
				return nil, errNotDescribable
			}
			o["record_size_limit"] = int(e.data[0])<<8 | int(e.data[1])
		case 43:
			l, err := parseVersions(e.data)
			if err != nil {
				return nil, err
			}
			var vs []string
			for _, v := range l {
				switch {
				case isGrease(v):
					vs = append(vs, "GREASE")
				case v >= 0x0301 && v <= 0x0304:
					vs = append(vs, fmt.Sprintf("TLS 1.%d", v-0x0301))
				default:
					return nil, fmt.Errorf("%w: version %04x", errNotDescribable, v)
				}
			}
			o["versions"] = vs
		case 45:
			b, err := (&rd{e.data}).vec8()
			if err != nil {
				return nil, err
			}
			n, err := nameList(dicttls.DictPSKKeyExchangeModeValueIndexed, b, false)
			if err != nil {
				return nil, err
			}
			r.pskModes = &n
			o["ke_modes"] = n.names
		case 51:
			ks, err := parseKeyShares(e.data)
			if err != nil {
				return nil, err
			}
			var gs []uint16
			for _, k := range ks {
				gs = append(gs, k.group)
			}
			n, err := nameList(dicttls.DictSupportedGroupsValueIndexed, gs, true)
			if err != nil {
				return nil, err
			}
			r.ksGroups = &n
			var shares []obj
			for i, k := range ks {
				if isGrease(k.group) {
					ke := make([]int, len(k.data))
					for j, b := range k.data {
						ke[j] = int(b)
					}
					shares = append(shares, obj{"group": "GREASE", "key_exchange": ke})
				} else {
					shares = append(shares, obj{"group": n.names[i]})
				}
			}
			o["client_shares"] = shares
		default:
			// an extension type the renderer has no parameter format for: name only, if it carries nothing
			if len(e.data) != 0 {
				return nil, fmt.Errorf("%w: extension %s (%d) carries parameters the renderer cannot express", errNotDescribable, name, e.id)
			}
		}
		exts = append(exts, o)
	}
	doc := obj{"cipher_suites": r.suites.names, "compression_methods": r.comp.names, "extensions": exts}
	r.js, err = json.MarshalIndent(doc, "", " ")
	return r, err
}

type pskID struct {
	Identity []byte `json:"identity"`
	Age      uint32 `json:"obfuscated_ticket_age"`
}

func parsePSK(d []byte) ([]pskID, [][]byte, error) {
	r := &rd{d}
	ib, err := r.vec16()
	if err != nil {
		return nil, nil, err
	}
	ir := &rd{ib}
	ids := []pskID{}
	for len(ir.b) > 0 {
		l, err := ir.vec16()
		if err != nil {
			return nil, nil, err
		}
		a, err := ir.take(4)
		if err != nil {
			return nil, nil, err
		}
		ids = append(ids, pskID{l, uint32(a[0])<<24 | uint32(a[1])<<16 | uint32(a[2])<<8 | uint32(a[3])})
	}
	bb, err := r.vec16()
	if err != nil || len(r.b) != 0 {
		return nil, nil, errors.New("bad pre_shared_key")
	}
	br := &rd{bb}
	binders := [][]byte{}
	for len(br.b) > 0 {
		b, err := br.vec8()
		if err != nil {
			return nil, nil, err
		}
		binders = append(binders, b)
	}
	return ids, binders, nil
}

// jsonTypes: every non-GREASE extension type ExtensionFromID knows (all 2^16 ids are asked), split into the ones the
// JSON format can express (dictionary name + UnmarshalJSON) and the rest.
func jsonTypes() (expressible []uint16, rest map[uint16]string) {
	rest = map[uint16]string{}
	for id := 0; id < 65536; id++ {
		if isGrease(uint16(id)) {
			continue
		}
		ext := tls.ExtensionFromID(uint16(id))
		if ext == nil {
			continue
		}
		_, named := dicttls.DictExtTypeValueIndexed[uint16(id)]
		_, isJSON := ext.(tls.TLSExtensionJSON)
		switch {
		case !named:
			rest[uint16(id)] = "no dictionary name"
		case !isJSON:
			rest[uint16(id)] = "no UnmarshalJSON"
		default:
			expressible = append(expressible, uint16(id))
		}
	}
	return
}

var expressibleSet map[uint16]bool

// makeDescribable removes from a wire hello what the JSON format cannot express at all (extension types outside
// jsonTypes, code points without a dictionary name), so that the rest of the hello still goes through both importers.
func makeDescribable(c *vh.Ctx, w *whello) {
	if expressibleSet == nil {
		expressibleSet = map[uint16]bool{}
		ex, _ := jsonTypes()
		for _, id := range ex {
			expressibleSet[id] = true
		}
	}
	keep16 := func(vi map[uint16]string, l []uint16, what string) []uint16 {
		var out []uint16
		for _, v := range l {
			if _, ok := vi[v]; ok || isGrease(v) {
				out = append(out, v)
			} else {
				c.Count("stripped-unnamed-" + what)
			}
		}
		return out
	}
	w.suites = keep16(dicttls.DictCipherSuiteValueIndexed, w.suites, "cipher-suite")
	var exts []wext
	for _, e := range w.exts {
		if !isGrease(e.id) && !expressibleSet[e.id] {
			c.Count(fmt.Sprintf("stripped-extension-%d", e.id))
			continue
		}
		switch e.id {
		case 10:
			if l, err := parseU16Vec16(e.data); err == nil {
				e.data = encU16Vec16(keep16(dicttls.DictSupportedGroupsValueIndexed, l, "group"))
			}
		case 13, 50, 34:
			if l, err := parseU16Vec16(e.data); err == nil {
				e.data = encU16Vec16(keep16(dicttls.DictSignatureSchemeValueIndexed, l, "signature-scheme"))
			}
		case 51:
			if ks, err := parseKeyShares(e.data); err == nil {
				var out []kshare
				for _, k := range ks {
					if _, ok := dicttls.DictSupportedGroupsValueIndexed[k.group]; ok || isGrease(k.group) {
						out = append(out, k)
					} else {
						c.Count("stripped-unnamed-key-share")
					}
				}
				e.data = encKeyShares(out)
			}
		}
		exts = append(exts, e)
	}
	w.exts = exts
}

// namesSeen[table][name]: dictionary names that were part of a hello taken through both importers
var namesSeen = map[string]map[string]bool{}

func noteNames(table string, n *named) {
	if n == nil {
		return
	}
	if namesSeen[table] == nil {
		namesSeen[table] = map[string]bool{}
	}
	for _, x := range n.names {
		namesSeen[table][x] = true
	}
}

func paddingBody(w *whello) []byte {
	for _, e := range w.exts {
		if e.id == 21 {
			return e.data
		}
	}
	return nil
}

// ---------- building hellos ----------

type detRand struct{ src *mrand.Rand }

func (d *detRand) Read(p []byte) (int, error) { d.src.Read(p); return len(p), nil }

func build(spec *tls.ClientHelloSpec, id tls.ClientHelloID, seed int64) ([]byte, error) {
	uc := tls.UClient(&net.TCPConn{}, &tls.Config{ServerName: "c32.example.com", Rand: &detRand{mrand.New(mrand.NewSource(seed))}, OmitEmptyPsk: true}, id)
	if spec != nil {
		if err := uc.ApplyPreset(spec); err != nil {
			return nil, err
		}
	}
	if err := uc.BuildHandshakeState(); err != nil {
		return nil, err
	}
	return uc.HandshakeState.Hello.Raw, nil
}

func record(raw []byte) []byte {
	return append([]byte{0x16, 0x03, 0x01, byte(len(raw) >> 8), byte(len(raw))}, raw...)
}

func namedCase(c *vh.Ctx, kind, ctor, table string, n named, got []uint64, gotOK bool, key string) {
	g := "None"
	if gotOK {
		it := make([]string, len(got))
		for i, v := range got {
			it[i] = fmt.Sprint(v)
		}
		g = "(Some " + vh.List(it) + ")"
	}
	c.Case(kind, fmt.Sprintf("(%s %s_name_indexed %s %s)", ctor, table, coqStrs(n.names), g), key+"/"+strings.Join(n.names, ","), len(n.names) > 1, nil)
}

// compareImports: one wire hello through the JSON importer and through the raw importer.
func compareImports(c *vh.Ctx, label string, raw []byte, toCoq bool, variant int) {
	w0, err := parseHello(raw)
	if err != nil {
		panic("C32 runner: cannot parse ClientHello of " + label + ": " + err.Error())
	}
	makeDescribable(c, w0)
	raw = w0.rebuild()
	rj, err := renderJSON(w0, variant)
	if err != nil {
		if errors.Is(err, errNotDescribable) {
			c.Count("skip-not-describable-in-json")
			c.Count("skip/" + label)
			return
		}
		panic("C32 runner: " + label + ": " + err.Error())
	}
	input := map[string]any{"hello": label, "json": string(rj.js), "raw_hello": vh.Hex(raw)}
	specRaw, err := (&tls.Fingerprinter{}).RawClientHello(record(raw))
	if err != nil {
		c.Count("skip-raw-import-error")
		c.Count("skip-raw-import-error/" + label + ": " + err.Error())
		return
	}
	specJSON := &tls.ClientHelloSpec{}
	if err := specJSON.UnmarshalJSON(rj.js); err != nil {
		fail(c, "json-import/"+label, "a ClientHello rendered with the dictionaries' own names is rejected by the JSON importer", input, err.Error(), "imports")
		return
	}
	c.Count("hellos-through-both-importers")
	if rj.padding != "" {
		k := "padding-boring"
		if rj.padding != "boring" {
			k = "padding-explicit-len"
			switch u := len(raw) - 4 - len(paddingBody(w0)); {
			case u < 256:
				k += "/unpadded<256"
			case u < 512:
				k += "/unpadded-256..511"
			default:
				k += "/unpadded>=512"
			}
		}
		c.Count(k)
	}
	noteNames("CipherSuite", &rj.suites)
	noteNames("CompMeth", &rj.comp)
	noteNames("SupportedGroups", rj.groups)
	noteNames("SignatureScheme", rj.sigalgs)
	noteNames("ECPointFormat", rj.points)
	noteNames("PSKKeyExchangeMode", rj.pskModes)
	noteNames("CertificateCompressionAlgorithm", rj.certAlgs)
	for _, e := range w0.exts {
		if !isGrease(e.id) {
			c.Count(fmt.Sprintf("ext-type-through-both-importers/%05d", e.id))
		}
	}
	imported := captureImported(specJSON) // before ApplyPreset re-GREASEs the shared extension objects in place
	// names -> intended code points, directly on the imported spec
	want := make([]uint16, len(w0.suites))
	for i, s := range w0.suites {
		want[i] = unGrease(s)
	}
	if fmt.Sprint(specJSON.CipherSuites) != fmt.Sprint(want) {
		fail(c, "json-import/"+label+"/cipher_suites", "JSON cipher suite names map to other code points than the ones rendered", input, fmt.Sprint(specJSON.CipherSuites), fmt.Sprint(want))
	}
	// both specs onto fresh connections, same deterministic Config.Rand
	seed := c.Rng.Int63()
	rawW, errR := build(specRaw, tls.HelloCustom, seed)
	jsW, errJ := build(specJSON, tls.HelloCustom, seed)
	if errR != nil || errJ != nil {
		if (errR == nil) != (errJ == nil) {
			fail(c, "json-vs-raw/"+label+"/build", "only one of the two imported specs yields a ClientHello", input, fmt.Sprint("json: ", errJ), fmt.Sprint("raw: ", errR))
		} else {
			c.Count("skip-both-imports-fail-to-build")
		}
		return
	}
	wr, err1 := parseHello(rawW)
	wj, err2 := parseHello(jsW)
	if err1 != nil || err2 != nil {
		panic("C32 runner: cannot parse a rebuilt ClientHello")
	}
	sr, er := wr.normalise()
	sj, ej := wj.normalise()
	if fmt.Sprint(sr) != fmt.Sprint(sj) {
		fail(c, "json-vs-raw/"+label+"/cipher_suites", "cipher suites differ between the JSON import and the raw import", input, fmt.Sprint(sj), fmt.Sprint(sr))
	}
	if !bytes.Equal(wr.comp, wj.comp) {
		fail(c, "json-vs-raw/"+label+"/compression_methods", "compression methods differ between the JSON import and the raw import", input, wj.comp, wr.comp)
	}
	ids := func(l []wext) (r []uint16) {
		for _, e := range l {
			r = append(r, e.id)
		}
		return
	}
	if fmt.Sprint(ids(er)) != fmt.Sprint(ids(ej)) {
		fail(c, "json-vs-raw/"+label+"/extension-order", "extension order differs between the JSON import and the raw import", input, fmt.Sprint(ids(ej)), fmt.Sprint(ids(er)))
	} else {
		for i := range er {
			if !bytes.Equal(er[i].data, ej[i].data) {
				fail(c, fmt.Sprintf("json-vs-raw/%s/extension-%d", label, er[i].id), "extension parameters differ between the JSON import and the raw import (modulo GREASE and per-connection material)",
					input, vh.Hex(ej[i].data), vh.Hex(er[i].data))
			}
		}
	}
	if !toCoq {
		return
	}
	namedCase(c, "import-suites", "CImportG", "CipherSuite", rj.suites, imported.suites, true, label)
	namedCase(c, "import-compression", "CImport", "CompMeth", rj.comp, imported.comp, true, label)
	if rj.groups != nil && imported.groups != nil {
		namedCase(c, "import-groups", "CImportG", "SupportedGroups", *rj.groups, imported.groups, true, label)
	}
	if rj.sigalgs != nil && imported.sigalgs != nil {
		namedCase(c, "import-sigalgs", "CImportG", "SignatureScheme", *rj.sigalgs, imported.sigalgs, true, label)
	}
	if rj.ksGroups != nil && imported.ksGroups != nil {
		namedCase(c, "import-keyshare-groups", "CImportG", "SupportedGroups", *rj.ksGroups, imported.ksGroups, true, label)
	}
	if rj.points != nil && imported.points != nil {
		namedCase(c, "import-point-formats", "CImport", "ECPointFormat", *rj.points, imported.points, true, label)
	}
	if rj.pskModes != nil && imported.pskModes != nil {
		namedCase(c, "import-psk-modes", "CImport", "PSKKeyExchangeMode", *rj.pskModes, imported.pskModes, true, label)
	}
	if rj.certAlgs != nil && imported.certAlgs != nil {
		namedCase(c, "import-cert-compression", "CImport", "CertificateCompressionAlgorithm", *rj.certAlgs, imported.certAlgs, true, label)
	}
}

type importedLists struct{ suites, comp, groups, sigalgs, ksGroups, points, pskModes, certAlgs []uint64 }

func captureImported(spec *tls.ClientHelloSpec) importedLists {
	var im importedLists
	for _, v := range spec.CipherSuites {
		im.suites = append(im.suites, uint64(v))
	}
	for _, v := range spec.CompressionMethods {
		im.comp = append(im.comp, uint64(v))
	}
	for _, e := range spec.Extensions {
		switch t := e.(type) {
		case *tls.SupportedCurvesExtension:
			im.groups = []uint64{}
			for _, v := range t.Curves {
				im.groups = append(im.groups, uint64(v))
			}
		case *tls.SignatureAlgorithmsExtension:
			im.sigalgs = []uint64{}
			for _, v := range t.SupportedSignatureAlgorithms {
				im.sigalgs = append(im.sigalgs, uint64(v))
			}
		case *tls.KeyShareExtension:
			im.ksGroups = []uint64{}
			for _, v := range t.KeyShares {
				im.ksGroups = append(im.ksGroups, uint64(v.Group))
			}
		case *tls.SupportedPointsExtension:
			im.points = []uint64{}
			for _, v := range t.SupportedPoints {
				im.points = append(im.points, uint64(v))
			}
		case *tls.PSKKeyExchangeModesExtension:
			im.pskModes = []uint64{}
			for _, v := range t.Modes {
				im.pskModes = append(im.pskModes, uint64(v))
			}
		case *tls.UtlsCompressCertExtension:
			im.certAlgs = []uint64{}
			for _, v := range t.Algorithms {
				im.certAlgs = append(im.certAlgs, uint64(v))
			}
		}
	}
	return im
}

package main

import (
	"bytes"
	"errors"
)

// Minimal ClientHello parser/normaliser (independent of utls' own parsers).

type wext struct {
	id   uint16
	data []byte
}

type whello struct {
	pre    []byte // legacy_version, random, session_id (with its length byte)
	suites []uint16
	comp   []byte
	exts   []wext
}

type rd struct{ b []byte }

func (r *rd) take(n int) ([]byte, error) {
	if n < 0 || len(r.b) < n {
		return nil, errors.New("truncated")
	}
	x := r.b[:n]
	r.b = r.b[n:]
	return x, nil
}
func (r *rd) u8() (int, error) {
	x, err := r.take(1)
	if err != nil {
		return 0, err
	}
	return int(x[0]), nil
}
func (r *rd) u16() (int, error) {
	x, err := r.take(2)
	if err != nil {
		return 0, err
	}
	return int(x[0])<<8 | int(x[1]), nil
}
func (r *rd) vec8() ([]byte, error) {
	n, err := r.u8()
	if err != nil {
		return nil, err
	}
	return r.take(n)
}
func (r *rd) vec16() ([]byte, error) {
	n, err := r.u16()
	if err != nil {
		return nil, err
	}
	return r.take(n)
}

func u16list(b []byte) ([]uint16, error) {
	if len(b)%2 != 0 {
		return nil, errors.New("odd list")
	}
	l := make([]uint16, len(b)/2)
	for i := range l {
		l[i] = uint16(b[2*i])<<8 | uint16(b[2*i+1])
	}
	return l, nil
}

func parseHello(raw []byte) (*whello, error) {
	if len(raw) < 4 || raw[0] != 1 {
		return nil, errors.New("not a ClientHello")
	}
	if n := int(raw[1])<<16 | int(raw[2])<<8 | int(raw[3]); n != len(raw)-4 {
		return nil, errors.New("bad handshake length")
	}
	r := &rd{raw[4:]}
	if _, err := r.take(2 + 32); err != nil {
		return nil, err
	}
	sid, err := r.vec8()
	if err != nil {
		return nil, err
	}
	sb, err := r.vec16()
	if err != nil {
		return nil, err
	}
	w := &whello{pre: append([]byte(nil), raw[4:4+2+32+1+len(sid)]...)}
	if w.suites, err = u16list(sb); err != nil {
		return nil, err
	}
	if w.comp, err = r.vec8(); err != nil {
		return nil, err
	}
	if len(r.b) == 0 {
		return w, nil
	}
	eb, err := r.vec16()
	if err != nil || len(r.b) != 0 {
		return nil, errors.New("bad extensions block")
	}
	er := &rd{eb}
	for len(er.b) > 0 {
		id, err := er.u16()
		if err != nil {
			return nil, err
		}
		d, err := er.vec16()
		if err != nil {
			return nil, err
		}
		w.exts = append(w.exts, wext{uint16(id), d})
	}
	return w, nil
}

func isGrease(v uint16) bool { return byte(v>>8) == byte(v) && v&0x0f == 0x0a }
func unGrease(v uint16) uint16 {
	if isGrease(v) {
		return 0x0a0a
	}
	return v
}

func parseU16Vec16(d []byte) ([]uint16, error) {
	r := &rd{d}
	b, err := r.vec16()
	if err != nil || len(r.b) != 0 {
		return nil, errors.New("bad u16 vector")
	}
	return u16list(b)
}

func parseVersions(d []byte) ([]uint16, error) {
	r := &rd{d}
	b, err := r.vec8()
	if err != nil || len(r.b) != 0 {
		return nil, errors.New("bad supported_versions")
	}
	return u16list(b)
}

type kshare struct {
	group uint16
	data  []byte
}

func parseKeyShares(d []byte) ([]kshare, error) {
	r := &rd{d}
	b, err := r.vec16()
	if err != nil || len(r.b) != 0 {
		return nil, errors.New("bad key_share")
	}
	kr := &rd{b}
	var out []kshare
	for len(kr.b) > 0 {
		g, err := kr.u16()
		if err != nil {
			return nil, err
		}
		kd, err := kr.vec16()
		if err != nil {
			return nil, err
		}
		out = append(out, kshare{uint16(g), kd})
	}
	return out, nil
}

func parseStrings8(b []byte) ([]string, error) { // vector of <1..255> strings
	r := &rd{b}
	var out []string
	for len(r.b) > 0 {
		s, err := r.vec8()
		if err != nil {
			return nil, err
		}
		out = append(out, string(s))
	}
	return out, nil
}

// normalise: the hello "modulo GREASE and per-connection material": GREASE values -> 0x0a0a in suites, extension types,
// supported_groups, key_share groups and supported_versions; key_exchange bytes of non-GREASE shares blanked (length kept);
// pre_shared_key bodies dropped (presence and position stay). The padding extension is compared like any other parameter
// (presence and body length: its bytes are zero).
func (w *whello) normalise() (suites []uint16, exts []wext) {
	for _, s := range w.suites {
		suites = append(suites, unGrease(s))
	}
	put16 := func(b *bytes.Buffer, v uint16) { b.WriteByte(byte(v >> 8)); b.WriteByte(byte(v)) }
	for _, e := range w.exts {
		n := wext{unGrease(e.id), e.data}
		switch e.id {
		case 10:
			if l, err := parseU16Vec16(e.data); err == nil {
				var b bytes.Buffer
				put16(&b, uint16(2*len(l)))
				for _, v := range l {
					put16(&b, unGrease(v))
				}
				n.data = b.Bytes()
			}
		case 43:
			if l, err := parseVersions(e.data); err == nil {
				var b bytes.Buffer
				b.WriteByte(byte(2 * len(l)))
				for _, v := range l {
					put16(&b, unGrease(v))
				}
				n.data = b.Bytes()
			}
		case 51:
			if ks, err := parseKeyShares(e.data); err == nil {
				var b bytes.Buffer
				for _, k := range ks {
					put16(&b, unGrease(k.group))
					put16(&b, uint16(len(k.data)))
					if isGrease(k.group) {
						b.Write(k.data)
					} else {
						b.Write(make([]byte, len(k.data)))
					}
				}
				n.data = b.Bytes()
			}
		case 41:
			n.data = nil
		}
		exts = append(exts, n)
	}
	return
}

// rebuild serialises the (possibly edited) hello again as a handshake message.
func (w *whello) rebuild() []byte {
	var b bytes.Buffer
	b.Write(w.pre)
	b.WriteByte(byte(2 * len(w.suites) >> 8))
	b.WriteByte(byte(2 * len(w.suites)))
	for _, s := range w.suites {
		b.WriteByte(byte(s >> 8))
		b.WriteByte(byte(s))
	}
	b.WriteByte(byte(len(w.comp)))
	b.Write(w.comp)
	var eb bytes.Buffer
	for _, e := range w.exts {
		eb.Write([]byte{byte(e.id >> 8), byte(e.id), byte(len(e.data) >> 8), byte(len(e.data))})
		eb.Write(e.data)
	}
	b.WriteByte(byte(eb.Len() >> 8))
	b.WriteByte(byte(eb.Len()))
	b.Write(eb.Bytes())
	n := b.Len()
	return append([]byte{1, byte(n >> 16), byte(n >> 8), byte(n)}, b.Bytes()...)
}

func encU16Vec16(l []uint16) []byte {
	b := []byte{byte(2 * len(l) >> 8), byte(2 * len(l))}
	for _, v := range l {
		b = append(b, byte(v>>8), byte(v))
	}
	return b
}

func encKeyShares(ks []kshare) []byte {
	var body []byte
	for _, k := range ks {
		body = append(body, byte(k.group>>8), byte(k.group), byte(len(k.data)>>8), byte(len(k.data)))
		body = append(body, k.data...)
	}
	return append([]byte{byte(len(body) >> 8), byte(len(body))}, body...)
}

package main

import (
	"fmt"
	"sort"

	tls "github.com/refraction-networking/utls"
	"github.com/refraction-networking/utls/dicttls"
	"verif/harness/vh"
)

type namedID struct {
	name string
	id   tls.ClientHelloID
}

var parrots = []namedID{
	{"Firefox_55", tls.HelloFirefox_55}, {"Firefox_56", tls.HelloFirefox_56}, {"Firefox_63", tls.HelloFirefox_63},
	{"Firefox_65", tls.HelloFirefox_65}, {"Firefox_99", tls.HelloFirefox_99}, {"Firefox_102", tls.HelloFirefox_102},
	{"Firefox_105", tls.HelloFirefox_105}, {"Firefox_120", tls.HelloFirefox_120},
	{"Chrome_58", tls.HelloChrome_58}, {"Chrome_62", tls.HelloChrome_62}, {"Chrome_70", tls.HelloChrome_70},
	{"Chrome_72", tls.HelloChrome_72}, {"Chrome_83", tls.HelloChrome_83}, {"Chrome_87", tls.HelloChrome_87},
	{"Chrome_96", tls.HelloChrome_96}, {"Chrome_100", tls.HelloChrome_100}, {"Chrome_102", tls.HelloChrome_102},
	{"Chrome_106_Shuffle", tls.HelloChrome_106_Shuffle}, {"Chrome_100_PSK", tls.HelloChrome_100_PSK},
	{"Chrome_112_PSK_Shuf", tls.HelloChrome_112_PSK_Shuf}, {"Chrome_114_Padding_PSK_Shuf", tls.HelloChrome_114_Padding_PSK_Shuf},
	{"Chrome_115_PQ", tls.HelloChrome_115_PQ}, {"Chrome_115_PQ_PSK", tls.HelloChrome_115_PQ_PSK},
	{"Chrome_120", tls.HelloChrome_120}, {"Chrome_120_PQ", tls.HelloChrome_120_PQ}, {"Chrome_131", tls.HelloChrome_131},
	{"Chrome_133", tls.HelloChrome_133},
	{"IOS_11_1", tls.HelloIOS_11_1}, {"IOS_12_1", tls.HelloIOS_12_1}, {"IOS_13", tls.HelloIOS_13}, {"IOS_14", tls.HelloIOS_14},
	{"Android_11_OkHttp", tls.HelloAndroid_11_OkHttp},
	{"Edge_85", tls.HelloEdge_85}, {"Edge_106", tls.HelloEdge_106},
	{"Safari_16_0", tls.HelloSafari_16_0},
	{"360_7_5", tls.Hello360_7_5}, {"360_11_0", tls.Hello360_11_0},
	{"QQ_11_1", tls.HelloQQ_11_1},
}

func sortedKeys[K ~uint8 | ~uint16](m map[K]string) []K {
	ks := make([]K, 0, len(m))
	for k := range m {
		ks = append(ks, k)
	}
	sort.Slice(ks, func(i, j int) bool { return ks[i] < ks[j] })
	return ks
}

// cursor walks cyclically through all code points of a dictionary, so that over the generated hellos EVERY entry of
// every table the importer consults (the zero-valued ones included) appears in its list-valued member.
type cursor[K ~uint8 | ~uint16] struct {
	all []K
	pos int
}

func (cu *cursor[K]) next(n int) []K {
	var out []K
	for ; n > 0 && len(cu.all) > 0; n-- {
		out = append(out, cu.all[cu.pos%len(cu.all)])
		cu.pos++
	}
	return out
}

var (
	curSuites = &cursor[uint16]{all: sortedKeys(dicttls.DictCipherSuiteValueIndexed)}
	curGroups = &cursor[uint16]{all: sortedKeys(dicttls.DictSupportedGroupsValueIndexed)}
	curSigs   = &cursor[uint16]{all: sortedKeys(dicttls.DictSignatureSchemeValueIndexed)}
	curComp   = &cursor[uint8]{all: sortedKeys(dicttls.DictCompMethValueIndexed)}
	curPoints = &cursor[uint8]{all: sortedKeys(dicttls.DictECPointFormatValueIndexed)}
	curModes  = &cursor[uint8]{all: sortedKeys(dicttls.DictPSKKeyExchangeModeValueIndexed)}
	curCert   = &cursor[uint16]{all: sortedKeys(dicttls.DictCertificateCompressionAlgorithmValueIndexed)}
)

// genSpec: a random ClientHello whose lists are drawn from the WHOLE dictionaries (not only the code points
// utls can negotiate), so over a run every dictionary entry the importer can be asked for is exercised.
func genSpec(c *vh.Ctx, must uint16) *tls.ClientHelloSpec {
	r := c.Rng
	spec := &tls.ClientHelloSpec{}
	allSuites := sortedKeys(dicttls.DictCipherSuiteValueIndexed)
	allGroups := sortedKeys(dicttls.DictSupportedGroupsValueIndexed)
	allSigs := sortedKeys(dicttls.DictSignatureSchemeValueIndexed)
	if r.Intn(2) == 0 {
		spec.CipherSuites = append(spec.CipherSuites, tls.GREASE_PLACEHOLDER)
	}
	spec.CipherSuites = append(spec.CipherSuites, curSuites.next(5)...)
	for k := r.Intn(8); k > 0; k-- {
		spec.CipherSuites = append(spec.CipherSuites, allSuites[r.Intn(len(allSuites))])
	}
	spec.CompressionMethods = curComp.next(1 + r.Intn(len(curComp.all)))
	curves := []tls.CurveID{}
	if r.Intn(2) == 0 {
		curves = append(curves, tls.GREASE_PLACEHOLDER)
	}
	curves = append(curves, tls.X25519)
	for _, g := range curGroups.next(2) {
		curves = append(curves, tls.CurveID(g))
	}
	for k := r.Intn(4); k > 0; k-- {
		curves = append(curves, tls.CurveID(allGroups[r.Intn(len(allGroups))]))
	}
	sigs := []tls.SignatureScheme{}
	for _, x := range curSigs.next(2) {
		sigs = append(sigs, tls.SignatureScheme(x))
	}
	for k := r.Intn(6); k > 0; k-- {
		sigs = append(sigs, tls.SignatureScheme(allSigs[r.Intn(len(allSigs))]))
	}
	ks := []tls.KeyShare{}
	if r.Intn(2) == 0 {
		ks = append(ks, tls.KeyShare{Group: tls.GREASE_PLACEHOLDER, Data: []byte{0}})
	}
	ks = append(ks, tls.KeyShare{Group: tls.X25519})
	if r.Intn(3) == 0 {
		ks = append(ks, tls.KeyShare{Group: tls.CurveP256})
	}
	vers := []uint16{tls.VersionTLS13, tls.VersionTLS12}
	if r.Intn(2) == 0 {
		vers = append([]uint16{tls.GREASE_PLACEHOLDER}, vers...)
	}
	if r.Intn(3) == 0 {
		vers = append(vers, tls.VersionTLS11, tls.VersionTLS10)
	}
	exts := []tls.TLSExtension{
		&tls.SNIExtension{}, &tls.SupportedCurvesExtension{Curves: curves},
		&tls.SignatureAlgorithmsExtension{SupportedSignatureAlgorithms: sigs},
		&tls.KeyShareExtension{KeyShares: ks}, &tls.SupportedVersionsExtension{Versions: vers},
		&tls.PSKKeyExchangeModesExtension{Modes: curModes.next(1 + r.Intn(len(curModes.all)))},
	}
	base := map[uint16]bool{0: true, 10: true, 13: true, 51: true, 43: true, 45: true}
	// every other extension type the JSON format can express: the forced one always, the others with probability 1/3
	expressible, _ := jsonTypes()
	withPSK := false
	// sizeMode 1: a short hello (unpadded < 256: only the forced type and padding); 2: a long one (> 512: many more
	// cipher suites); both always carry a padding extension, so explicit padding lengths are seen at every hello size
	if sizeMode == 2 {
		for k := 0; k < 130; k++ {
			spec.CipherSuites = append(spec.CipherSuites, allSuites[r.Intn(len(allSuites))])
		}
	}
	for _, id := range expressible {
		pick := id == must || r.Intn(3) == 0
		if sizeMode == 1 {
			pick = id == must
		}
		if sizeMode != 0 && id == 21 {
			pick = true
		}
		if base[id] || !pick {
			continue
		}
		if id == 41 {
			withPSK = true
			continue
		}
		exts = append(exts, genExt(c, id, allSigs))
	}
	r.Shuffle(len(exts), func(i, j int) { exts[i], exts[j] = exts[j], exts[i] })
	switch r.Intn(3) {
	case 1:
		exts = append([]tls.TLSExtension{&tls.UtlsGREASEExtension{}}, exts...)
	case 2:
		exts = append([]tls.TLSExtension{&tls.UtlsGREASEExtension{}}, exts...)
		exts = append(exts, &tls.UtlsGREASEExtension{})
	}
	if withPSK { // pre_shared_key must be the last extension
		id := make([]byte, 8+r.Intn(24))
		r.Read(id)
		b := make([]byte, 32)
		r.Read(b)
		exts = append(exts, &tls.FakePreSharedKeyExtension{
			Identities: []tls.PskIdentity{{Label: id, ObfuscatedTicketAge: r.Uint32()}}, Binders: [][]byte{b}})
	}
	spec.Extensions = exts
	return spec
}

var noEmptyLists bool
var padCycle int
var sizeMode int // 0 normal, 1 short, 2 long

// genExt builds one extension of the given type with random content, optional parts present or absent.
// A type the runner has no builder for is emitted with an empty body (and reported), so that a type newly taught to
// the JSON importer is at least exercised by name.
func genExt(c *vh.Ctx, id uint16, allSigs []uint16) tls.TLSExtension {
	r := c.Rng
	protos := func() []string {
		// an empty list only rarely: the raw importer rejects an ALPS extension without protocols, so such a hello
		// cannot be compared at all
		if !noEmptyLists && r.Intn(12) == 0 {
			return nil
		}
		return [][]string{{"h2"}, {"h2", "http/1.1"}, {"h3", "h2"}}[r.Intn(3)]
	}
	sigs := func() []tls.SignatureScheme {
		var l []tls.SignatureScheme
		for k := 1 + r.Intn(4); k > 0; k-- {
			l = append(l, tls.SignatureScheme(allSigs[r.Intn(len(allSigs))]))
		}
		return l
	}
	switch id {
	case 5:
		return &tls.StatusRequestExtension{}
	case 11:
		return &tls.SupportedPointsExtension{SupportedPoints: curPoints.next(1 + r.Intn(len(curPoints.all)))}
	case 16:
		p := protos()
		if p == nil {
			p = []string{"http/1.1"}
		}
		return &tls.ALPNExtension{AlpnProtocols: p}
	case 17:
		return &tls.StatusRequestV2Extension{}
	case 18:
		return &tls.SCTExtension{}
	case 21:
		// the BoringSSL heuristic, or an explicit length (short, long, and lengths the heuristic would never pick)
		padCycle++
		switch l := []int{0, 1, 17, 100, 300, -1, 0, 5, 252, 511}[padCycle%10]; {
		case l == 0:
			return &tls.UtlsPaddingExtension{GetPaddingLen: tls.BoringPaddingStyle}
		case l < 0:
			return &tls.UtlsPaddingExtension{PaddingLen: 1 + r.Intn(700), WillPad: true}
		default:
			return &tls.UtlsPaddingExtension{PaddingLen: l, WillPad: true}
		}
	case 23:
		return &tls.ExtendedMasterSecretExtension{}
	case 24:
		return &tls.FakeTokenBindingExtension{MajorVersion: uint8(r.Intn(2)), MinorVersion: uint8(10 + r.Intn(6)),
			KeyParameters: [][]uint8{nil, {2}, {1, 2}, {0, 1, 2}}[r.Intn(4)]}
	case 27:
		var algs []tls.CertCompressionAlgo
		for _, a := range curCert.next(1 + r.Intn(len(curCert.all))) {
			algs = append(algs, tls.CertCompressionAlgo(a))
		}
		return &tls.UtlsCompressCertExtension{Algorithms: algs}
	case 28:
		return &tls.FakeRecordSizeLimitExtension{Limit: uint16(1 + r.Intn(16384))}
	case 34:
		return &tls.FakeDelegatedCredentialsExtension{SupportedSignatureAlgorithms: sigs()}
	case 35:
		return &tls.SessionTicketExtension{}
	case 50:
		return &tls.SignatureAlgorithmsCertExtension{SupportedSignatureAlgorithms: sigs()}
	case 13172:
		return &tls.NPNExtension{}
	case 17513:
		return &tls.ApplicationSettingsExtension{SupportedProtocols: protos()}
	case 17613:
		return &tls.ApplicationSettingsExtensionNew{SupportedProtocols: protos()}
	case 30031:
		return &tls.FakeChannelIDExtension{OldExtensionID: true}
	case 30032:
		return &tls.FakeChannelIDExtension{}
	case 65281:
		return &tls.RenegotiationInfoExtension{Renegotiation: tls.RenegotiateOnceAsClient}
	}
	c.Count(fmt.Sprintf("json-type-without-builder/%d", id))
	return &tls.GenericExtension{Id: id}
}

func run(c *vh.Ctx) {
	runDicts(c)

	// parrot hellos
	for _, p := range parrots {
		for k := 0; k < 2; k++ {
			raw, err := build(nil, p.id, c.Rng.Int63())
			if err != nil {
				c.Count("skip-build-error/" + p.name)
				break
			}
			compareImports(c, p.name, raw, k == 0 && len(p.name)%2 == 0, k)
		}
	}
	// generated hellos
	expressible, rest := jsonTypes()
	c.Extra["json_expressible_extension_types"] = expressible
	c.Extra["known_but_not_json_expressible"] = fmt.Sprint(rest)
	for k := 0; k < c.N || k < 3*len(expressible); k++ {
		must := expressible[k%len(expressible)] // every expressible type is forced into >= 3 generated hellos
		sizeMode = []int{0, 1, 0, 2}[(k/len(expressible)+k)%4]
		spec := genSpec(c, must)
		sizeMode = 0
		raw, err := build(spec, tls.HelloCustom, c.Rng.Int63())
		if err != nil {
			c.Count("skip-generated-build-error")
			fail(c, fmt.Sprintf("generated-hello-does-not-build/ext-%d", must), "a generated spec did not build (runner problem or the extension type cannot be marshaled)", map[string]any{"forced_extension": must}, err.Error(), "builds")
			continue
		}
		compareImports(c, fmt.Sprintf("generated+%d", must), raw, k%5 == 0, k/len(expressible))
	}
	var idle []uint16
	for _, id := range expressible {
		if c.Dist[fmt.Sprintf("ext-type-through-both-importers/%05d", id)] == 0 {
			idle = append(idle, id)
		}
	}
	c.Extra["json_types_not_exercised"] = idle
	// every name of every table the importer consults must have been part of a hello that went through both importers:
	// a few more hellos made of whatever is still missing (hellos that could not be compared took their entries with them)
	missingOf := func() (map[string][]string, map[string][]uint64) {
		names, vals := map[string][]string{}, map[string][]uint64{}
		for _, t := range sweepTables() {
			for _, v := range t.vals {
				if !namesSeen[t.table][t.vi[v]] {
					names[t.table] = append(names[t.table], t.vi[v])
					vals[t.table] = append(vals[t.table], v)
				}
			}
		}
		return names, vals
	}
	noEmptyLists = true
	for round := 0; round < 40; round++ {
		_, vals := missingOf()
		delete(vals, "CompMeth") // ApplyPreset never copies the spec's compression methods: every hello offers [null]
		if len(vals) == 0 {
			break
		}
		refill := func(cu *cursor[uint16], l []uint64) {
			if len(l) > 0 {
				cu.all, cu.pos = nil, 0
				for _, v := range l {
					cu.all = append(cu.all, uint16(v))
				}
			}
		}
		refill8 := func(cu *cursor[uint8], l []uint64) {
			if len(l) > 0 {
				cu.all, cu.pos = nil, 0
				for _, v := range l {
					cu.all = append(cu.all, uint8(v))
				}
			}
		}
		refill(curSuites, vals["CipherSuite"])
		refill(curGroups, vals["SupportedGroups"])
		refill(curSigs, vals["SignatureScheme"])
		refill(curCert, vals["CertificateCompressionAlgorithm"])
		refill8(curPoints, vals["ECPointFormat"])
		refill8(curModes, vals["PSKKeyExchangeMode"])
		must := uint16(11)
		if len(vals["CertificateCompressionAlgorithm"]) > 0 {
			must = 27
		}
		spec := genSpec(c, must)
		if raw, err := build(spec, tls.HelloCustom, c.Rng.Int63()); err == nil {
			compareImports(c, "generated-rest", raw, false, round)
		}
	}
	names, _ := missingOf()
	c.Extra["dictionary_names_not_in_any_compared_hello"] = names

	runNameSweep(c)

	// names the dictionaries do not know: the importer must refuse, never guess a code point
	for _, bad := range []string{"TLS_NOT_A_SUITE", "grease", "", "TLS_AES_128_GCM_SHA256 "} {
		js := fmt.Sprintf(`{"cipher_suites":["TLS_AES_128_GCM_SHA256",%q],"compression_methods":["NULL"],"extensions":[]}`, bad)
		spec := &tls.ClientHelloSpec{}
		err := spec.UnmarshalJSON([]byte(js))
		if err == nil {
			c.Fail("json-import/unknown-name", "an unknown cipher suite name was accepted", map[string]any{"json": js}, fmt.Sprint(spec.CipherSuites), "error")
		}
		namedCase(c, "import-unknown", "CImportG", "CipherSuite", named{names: []string{"TLS_AES_128_GCM_SHA256", bad}}, nil, err == nil, "unknown")
	}
	for _, bad := range []string{"x25519 ", "X25519", "GREASE "} {
		js := fmt.Sprintf(`{"cipher_suites":[],"compression_methods":[],"extensions":[{"name":"supported_groups","named_group_list":["x25519",%q]}]}`, bad)
		spec := &tls.ClientHelloSpec{}
		err := spec.UnmarshalJSON([]byte(js))
		if err == nil {
			c.Fail("json-import/unknown-name", "an unknown group name was accepted", map[string]any{"json": js}, "accepted", "error")
		}
		namedCase(c, "import-unknown", "CImportG", "SupportedGroups", named{names: []string{"x25519", bad}}, nil, err == nil, "unknown")
	}
}

var failSeen = map[string]int{}

// fail: at most three reports per key
func fail(c *vh.Ctx, key, what string, input, got, want any) {
	failSeen[key]++
	if failSeen[key] <= 3 {
		c.Fail(key, what, input, got, want)
	}
}

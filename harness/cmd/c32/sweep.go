package main

// Exhaustive name sweep: every name of every dictionary the JSON importer consults is imported on its own, in
// every list-valued JSON member that takes it, and must come back as exactly its code point — in particular the
// names whose code point is 0 (NULL, uncompressed, psk_ke, ...), which a lookup without the comma-ok form
// confuses with "not in the map". Unknown names must be refused in every such member.

import (
	"fmt"
	"sort"
	"strings"

	tls "github.com/refraction-networking/utls"
	"github.com/refraction-networking/utls/dicttls"
	"verif/harness/vh"
)

type sweepTable struct {
	table string
	vi    map[uint64]string
	vals  []uint64
}

func mkSweep[K ~uint8 | ~uint16](table string, vi map[K]string) sweepTable {
	t := sweepTable{table: table, vi: map[uint64]string{}}
	for k, n := range vi {
		t.vi[uint64(k)] = n
		t.vals = append(t.vals, uint64(k))
	}
	sort.Slice(t.vals, func(i, j int) bool { return t.vals[i] < t.vals[j] })
	return t
}

func sweepTables() []sweepTable {
	return []sweepTable{
		mkSweep("CipherSuite", dicttls.DictCipherSuiteValueIndexed),
		mkSweep("CompMeth", dicttls.DictCompMethValueIndexed),
		mkSweep("SupportedGroups", dicttls.DictSupportedGroupsValueIndexed),
		mkSweep("SignatureScheme", dicttls.DictSignatureSchemeValueIndexed),
		mkSweep("ECPointFormat", dicttls.DictECPointFormatValueIndexed),
		mkSweep("PSKKeyExchangeMode", dicttls.DictPSKKeyExchangeModeValueIndexed),
		mkSweep("CertificateCompressionAlgorithm", dicttls.DictCertificateCompressionAlgorithmValueIndexed),
	}
}

// a list-valued JSON member: how to write a document with the given names in it, and how to read the code points back
type member struct {
	name   string // stable label
	table  string
	grease bool // the importer's loop has a "GREASE" case (CImportG) or not (CImport)
	doc    func(names string) string
	read   func(spec *tls.ClientHelloSpec) ([]uint64, bool)
}

func extDoc(ext string) func(string) string {
	return func(names string) string {
		return `{"cipher_suites":[],"compression_methods":[],"extensions":[` + fmt.Sprintf(ext, names) + `]}`
	}
}

func firstExt[T any](spec *tls.ClientHelloSpec, get func(T) []uint64) ([]uint64, bool) {
	for _, e := range spec.Extensions {
		if t, ok := e.(T); ok {
			return get(t), true
		}
	}
	return nil, false
}

func u64s[K ~uint8 | ~uint16](l []K) []uint64 {
	r := make([]uint64, len(l))
	for i, v := range l {
		r[i] = uint64(v)
	}
	return r
}

func members() []member {
	return []member{
		{"cipher_suites", "CipherSuite", true,
			func(n string) string { return `{"cipher_suites":[` + n + `],"compression_methods":[],"extensions":[]}` },
			func(s *tls.ClientHelloSpec) ([]uint64, bool) { return u64s(s.CipherSuites), true }},
		{"compression_methods", "CompMeth", false,
			func(n string) string { return `{"cipher_suites":[],"compression_methods":[` + n + `],"extensions":[]}` },
			func(s *tls.ClientHelloSpec) ([]uint64, bool) { return u64s(s.CompressionMethods), true }},
		{"supported_groups.named_group_list", "SupportedGroups", true, extDoc(`{"name":"supported_groups","named_group_list":[%s]}`),
			func(s *tls.ClientHelloSpec) ([]uint64, bool) {
				return firstExt(s, func(e *tls.SupportedCurvesExtension) []uint64 { return u64s(e.Curves) })
			}},
		{"ec_point_formats.ec_point_format_list", "ECPointFormat", false, extDoc(`{"name":"ec_point_formats","ec_point_format_list":[%s]}`),
			func(s *tls.ClientHelloSpec) ([]uint64, bool) {
				return firstExt(s, func(e *tls.SupportedPointsExtension) []uint64 { return u64s(e.SupportedPoints) })
			}},
		{"signature_algorithms.supported_signature_algorithms", "SignatureScheme", true, extDoc(`{"name":"signature_algorithms","supported_signature_algorithms":[%s]}`),
			func(s *tls.ClientHelloSpec) ([]uint64, bool) {
				return firstExt(s, func(e *tls.SignatureAlgorithmsExtension) []uint64 { return u64s(e.SupportedSignatureAlgorithms) })
			}},
		{"signature_algorithms_cert.supported_signature_algorithms", "SignatureScheme", true, extDoc(`{"name":"signature_algorithms_cert","supported_signature_algorithms":[%s]}`),
			func(s *tls.ClientHelloSpec) ([]uint64, bool) {
				return firstExt(s, func(e *tls.SignatureAlgorithmsCertExtension) []uint64 { return u64s(e.SupportedSignatureAlgorithms) })
			}},
		{"delegated_credentials.supported_signature_algorithms", "SignatureScheme", true, extDoc(`{"name":"delegated_credentials","supported_signature_algorithms":[%s]}`),
			func(s *tls.ClientHelloSpec) ([]uint64, bool) {
				return firstExt(s, func(e *tls.FakeDelegatedCredentialsExtension) []uint64 { return u64s(e.SupportedSignatureAlgorithms) })
			}},
		{"compress_certificate.algorithms", "CertificateCompressionAlgorithm", false, extDoc(`{"name":"compress_certificate","algorithms":[%s]}`),
			func(s *tls.ClientHelloSpec) ([]uint64, bool) {
				return firstExt(s, func(e *tls.UtlsCompressCertExtension) []uint64 { return u64s(e.Algorithms) })
			}},
		{"psk_key_exchange_modes.ke_modes", "PSKKeyExchangeMode", false, extDoc(`{"name":"psk_key_exchange_modes","ke_modes":[%s]}`),
			func(s *tls.ClientHelloSpec) ([]uint64, bool) {
				return firstExt(s, func(e *tls.PSKKeyExchangeModesExtension) []uint64 { return u64s(e.Modes) })
			}},
		{"key_share.client_shares.group", "SupportedGroups", true,
			func(n string) string {
				var shares []string
				for _, g := range strings.Split(n, ",") {
					if g != "" {
						shares = append(shares, `{"group":`+g+`,"key_exchange":[1,2]}`)
					}
				}
				return `{"cipher_suites":[],"compression_methods":[],"extensions":[{"name":"key_share","client_shares":[` + strings.Join(shares, ",") + `]}]}`
			},
			func(s *tls.ClientHelloSpec) ([]uint64, bool) {
				return firstExt(s, func(e *tls.KeyShareExtension) []uint64 {
					var r []uint64
					for _, k := range e.KeyShares {
						r = append(r, uint64(k.Group))
					}
					return r
				})
			}},
	}
}

func jsonStr(s string) string { return fmt.Sprintf("%q", s) }

func runNameSweep(c *vh.Ctx) {
	tables := map[string]sweepTable{}
	for _, t := range sweepTables() {
		tables[t.table] = t
	}
	ctor := map[bool]string{true: "CImportG", false: "CImport"}
	for _, m := range members() {
		t := tables[m.table]
		// 1. each name alone
		var names []string
		var got []uint64
		for _, v := range t.vals {
			name := t.vi[v]
			doc := m.doc(jsonStr(name))
			spec := &tls.ClientHelloSpec{}
			input := map[string]any{"member": m.name, "name": name, "json": doc}
			if err := spec.UnmarshalJSON([]byte(doc)); err != nil {
				fail(c, fmt.Sprintf("json-name/%s/%s", m.name, name), "a dictionary name is refused by the JSON importer", input, err.Error(), fmt.Sprintf("code point %d", v))
				continue
			}
			l, ok := m.read(spec)
			if !ok || len(l) != 1 || l[0] != v {
				fail(c, fmt.Sprintf("json-name/%s/%s", m.name, name), "a dictionary name is imported as another code point", input, fmt.Sprint(l), fmt.Sprintf("[%d]", v))
			}
			if ok && len(l) == 1 {
				names = append(names, name)
				got = append(got, l[0])
			}
		}
		for i := 0; i < len(names); i += 120 {
			j := i + 120
			if j > len(names) {
				j = len(names)
			}
			namedCase(c, "sweep-"+m.name, ctor[m.grease], m.table, named{names: names[i:j]}, got[i:j], true, fmt.Sprint("sweep/", m.name, i))
		}
		// 2. the whole table in one list, ascending and descending (zero first / zero last)
		for _, rev := range []bool{false, true} {
			var ns []string
			var want []uint64
			for i := range t.vals {
				v := t.vals[i]
				if rev {
					v = t.vals[len(t.vals)-1-i]
				}
				ns = append(ns, jsonStr(t.vi[v]))
				want = append(want, v)
			}
			doc := m.doc(strings.Join(ns, ","))
			spec := &tls.ClientHelloSpec{}
			key := fmt.Sprintf("json-name/%s/whole-table", m.name)
			if err := spec.UnmarshalJSON([]byte(doc)); err != nil {
				fail(c, key, "the list of all dictionary names is refused by the JSON importer", map[string]any{"member": m.name, "json": doc}, err.Error(), "imports")
			} else if l, _ := m.read(spec); fmt.Sprint(l) != fmt.Sprint(want) {
				fail(c, key, "the list of all dictionary names is imported as other code points", map[string]any{"member": m.name, "json": doc}, fmt.Sprint(l), fmt.Sprint(want))
			}
		}
		// 3. unknown names are refused, never mapped to a code point (0 or otherwise)
		some := t.vi[t.vals[len(t.vals)/2]]
		bads := []string{"", "NOT_A_NAME", some + " ", " " + some, some + "\x00"}
		for _, alt := range []string{strings.ToUpper(some), strings.ToLower(some)} {
			if _, known := dictHas(t, alt); !known && alt != "GREASE" {
				bads = append(bads, alt)
			}
		}
		for i, bad := range bads {
			first := t.vi[t.vals[0]]
			doc := m.doc(jsonStr(first) + "," + jsonStr(bad))
			spec := &tls.ClientHelloSpec{}
			err := spec.UnmarshalJSON([]byte(doc))
			if err == nil {
				l, _ := m.read(spec)
				fail(c, fmt.Sprintf("json-unknown-name/%s", m.name), "an unknown name was accepted by the JSON importer", map[string]any{"member": m.name, "name": bad, "json": doc}, fmt.Sprint(l), "error")
			}
			if !strings.ContainsRune(bad, 0) {
				namedCase(c, "sweep-unknown", ctor[m.grease], m.table, named{names: []string{first, bad}}, nil, err == nil, fmt.Sprint("unknown/", m.name, i))
			}
		}
	}
}

func dictHas(t sweepTable, name string) (uint64, bool) {
	for v, n := range t.vi {
		if n == name {
			return v, true
		}
	}
	return 0, false
}

// c32: translator (dicttls -> Gen/Dict.v), correspondence runner and property oracle for C32
// (JSON and dictionary imports map names to the intended code points).
//
//	c32 gen -repo DIR -out FILE        regenerate coq/theories/Gen/Dict.v (called by lib/gen.py before the proof build)
//	c32 C32 -seed S -n N -tier T -out DIR
package main

import (
	"os"

	"verif/harness/vh"
)

func main() {
	if len(os.Args) > 1 && os.Args[1] == "gen" {
		os.Exit(genMain(os.Args[2:]))
	}
	vh.Main(map[string]vh.Suite{"C32": {Corr: "Corr.C32Corr", Run: run}})
}

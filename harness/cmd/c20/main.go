// Runner for C20: histories of the public session API of UConn against the model (Corr.C20Corr), with the
// handshakes run against loopback TLS servers of the same package, and a Go-side oracle taken from the property text.
package main

import (
	"bytes"
	"crypto/ecdh"
	"fmt"
	"net"
	"os"
	"strings"
	"time"

	tls "github.com/refraction-networking/utls"
	"verif/harness/vh"
)

func main() { vh.Main(map[string]vh.Suite{"C20": {Corr: "Corr.C20Corr", Run: run}}) }

type parrot struct {
	name    string
	id      tls.ClientHelloID
	golang  bool
	tickets int
	psk     bool
}

var parrots = []parrot{
	{"Chrome_100", tls.HelloChrome_100, false, 1, false},
	{"Chrome_112_PSK_Shuf", tls.HelloChrome_112_PSK_Shuf, false, 1, true},
	{"Firefox_120", tls.HelloFirefox_120, false, 1, false},
	{"Chrome_115_PQ_PSK", tls.HelloChrome_115_PQ_PSK, false, 1, true},
	{"iOS_14", tls.HelloIOS_14, false, 0, false},
	{"Golang", tls.HelloGolang, true, 0, false},
	{"Chrome_133", tls.HelloChrome_133, false, 1, false},
	{"Safari_16_0", tls.HelloSafari_16_0, false, 0, false},
}

const (
	kC = iota // SetSessionCache
	kW        // BuildHandshakeStateWithoutSession
	kT        // SetSessionTicketExtension
	kP        // SetPskExtension
	kS        // SetSessionState
	kB        // BuildHandshakeState
	kH        // Handshake
	kE        // a documented edit of the hello between builds: SetClientRandom, SetSNI, session id
	nKinds
)

var kindName = []string{"C", "W", "T", "P", "S", "B", "H", "E"}

// arg: T: 0 nil, 1 real TLS1.2 session (Initialized), 2 forged (Initialized), 3 empty not initialized, 4 ticket bytes but not initialized,
//         5 reuse: fill the ISessionTicketExtension found in uconn.Extensions with the real session and pass that object (fresh object if none)
//      P: 0 nil, 1 real TLS1.3 psk (initialized), 2 empty not initialized,
//         3 reuse: InitializeByUtls on the UtlsPreSharedKeyExtension found in uconn.Extensions and pass that object (fresh object if none)
//      S: 0 nil session, 1 real TLS1.2 session, 2 forged
//      E: 1 SetClientRandom, 2 SetSNI(same length), 3 SetSNI(longer), 4 new session id
type op struct{ k, arg int }

func (o op) String() string {
	if o.k == kT || o.k == kP || o.k == kS || o.k == kE {
		return fmt.Sprintf("%s%d", kindName[o.k], o.arg)
	}
	return kindName[o.k]
}
func opsString(ops []op) string {
	s := make([]string, len(ops))
	for i, o := range ops {
		s[i] = o.String()
	}
	return strings.Join(s, ",")
}

// initialized session carried by the op: 0 none, 1 ticket, 2 psk
func (o op) injects() int {
	switch {
	case o.k == kT && (o.arg == 1 || o.arg == 2 || o.arg == 5), o.k == kS:
		return 1
	case o.k == kP && (o.arg == 1 || o.arg == 3):
		return 2
	}
	return 0
}
func (o op) isSetter() bool { return o.k == kT || o.k == kP || o.k == kS }
func (o op) nilArg() bool   { return (o.k == kT || o.k == kP) && o.arg == 0 }

type worldCfg struct {
	cache0, disabled, omit bool
	hit                    int // 0 none, 12, 13
	srv13                  bool
}

func (e *env) tag(b []byte) string {
	switch {
	case len(b) == 0:
		return "[]"
	case bytes.Equal(b, e.tk12):
		return "[1]"
	case bytes.Equal(b, e.tkForged):
		return "[2]"
	case bytes.Equal(b, e.tk13):
		return "[3]"
	}
	return fmt.Sprintf("[250;%d;%d]", len(b)%251, int(b[0]))
}
func (e *env) sessID(s *tls.SessionState) uint64 {
	switch s {
	case nil:
		return 0
	case e.ss12:
		return 1
	case e.ssForged:
		return 2
	case e.ss13:
		return 3
	}
	return 99
}

func coqOp(o op) string {
	switch o.k {
	case kC:
		return "SetCache"
	case kW:
		return "BuildNoSess"
	case kB:
		return "Build"
	case kH:
		return "Handshake"
	case kE:
		return "EditHello"
	case kT:
		return []string{"SetTicket None", "SetTicket (Some (true, [1], 1))", "SetTicket (Some (true, [2], 2))",
			"SetTicket (Some (false, [], 0))", "SetTicket (Some (false, [1], 0))", "SetTicket (Some (true, [1], 1))"}[o.arg]
	case kP:
		return []string{"SetPsk None", "SetPsk (Some (true, [3], 3))", "SetPsk (Some (false, [], 0))", "SetPsk (Some (true, [3], 3))"}[o.arg]
	case kS:
		return []string{"SetState None", "SetState (Some ([1], 1))", "SetState (Some ([2], 2))"}[o.arg]
	}
	panic("op")
}

func coqWorld(p parrot, w worldCfg) string {
	hit := "HitNone"
	if w.hit == 12 {
		hit = "(Hit12 [1] 1)"
	} else if w.hit == 13 {
		hit = "(Hit13 [3] 3)"
	}
	return fmt.Sprintf("(mkWorld %s %s %s true true true %s %s %s %s %s false)", vh.Bool(p.golang), vh.Nat(p.tickets), vh.Bool(p.psk),
		vh.Bool(w.cache0), vh.Bool(w.disabled), vh.Bool(w.omit), hit, vh.Bool(w.srv13))
}

var panicCodes = []struct {
	sub  string
	code int
}{
	{"you must not modify the session after it's locked", 1},
	{"undesired controller state", 2},
	{"we can't modify the session after the clientHello is built", 3},
	{"aboutToLoadSession failed", 4},
	{"setSessionTicketExt failed", 5},
	{"setPskToUConn failed: invalid state", 6},
	{"only binders are allowed to change", 7},
	{"updateBinders failed", 8},
	{"multiple ISessionTicketExtensions", 9},
	{"PreSharedKeyExtension must be the last extension", 10},
	{"session is set and locked, no call to loadSession is allowed", 11},
	{"you must not call loadSession() twice", 12},
	{"onLoadSessionReturn failed", 13},
	{"shouldWriteBinders failed", 14},
	{"session resumption is enabled, but there is no", 15},
	{"tls: initialization failed", 16},
	{"BuildHandshakeState failed: invalid call", 17},
}

// panics the documentation announces for misuse (u_conn.go:94-95, u_session_controller.go:120-124, 112-118)
func documentedPanic(code int) bool { return code == 1 || code == 2 || code == 3 }

type outcome struct {
	kind int // 0 nil, 1 error, 2 panic
	code int
	text string
}

func (o outcome) coq() string {
	switch o.kind {
	case 0:
		return "(Ok tt)"
	case 1:
		return fmt.Sprintf("(Err %d)", o.code)
	}
	return fmt.Sprintf("(Panic %d)", o.code)
}

func classifyErr(err error) outcome {
	if err == nil {
		return outcome{}
	}
	m := err.Error()
	switch {
	case strings.Contains(m, "session is disabled"):
		return outcome{1, 1, m}
	case strings.Contains(m, "the user provided a session ticket, but the specification doesn't contain one"):
		return outcome{1, 2, m}
	case strings.Contains(m, "the user provided a psk, but the specification doesn't contain one"):
		return outcome{1, 3, m}
	case err == tls.ErrEmptyPsk:
		return outcome{1, 4, m}
	}
	return outcome{1, 5, m}
}

func classifyPanic(v any) outcome {
	m := fmt.Sprint(v)
	for _, pc := range panicCodes {
		if strings.Contains(m, pc.sub) {
			return outcome{2, pc.code, m}
		}
	}
	return outcome{2, 99, m}
}

type observation struct {
	coqOps    []string // the call as made (a reuse call falls back to a fresh object when the list has none)
	outs      []outcome
	keysOK    []int // -1 not observed, 0 false, 1 true
	sess      []int64
	wire      *helloView
	handshook bool // a Handshake call was made
	hsIndex   int  // index of the first Handshake call
	cliResume bool
	srv       *srvResult
}

// keysMatch: do the key-share private keys in HandshakeState belong to the key shares in the ClientHello as built?
// 1 also when there is nothing to compare (no hello with a key_share extension yet).
func keysMatch(u *tls.UConn) int {
	var shares []tls.KeyShare
	if u.ClientHelloID == tls.HelloGolang {
		if u.HandshakeState.Hello == nil {
			return 1
		}
		shares = u.HandshakeState.Hello.KeyShares
	} else {
		for _, x := range u.Extensions {
			if ks, ok := x.(*tls.KeyShareExtension); ok {
				shares = ks.KeyShares
			}
		}
	}
	have := false
	for _, s := range shares {
		if !isGrease(uint16(s.Group)) && len(s.Data) > 1 {
			have = true
		}
	}
	if !have {
		return 1
	}
	k := u.HandshakeState.State13.KeyShareKeys
	if k == nil {
		return 0
	}
	classicalSeen := false
	for _, s := range shares {
		g := uint16(s.Group)
		if isGrease(g) || len(s.Data) <= 1 {
			continue
		}
		switch s.Group {
		case tls.X25519MLKEM768, tls.X25519Kyber768Draft00:
			hk := k.MlkemEcdhe
			if hk == nil {
				hk = k.Ecdhe // crypto/tls reuses the X25519 key of the plain share for the hybrid one
			}
			if k.Mlkem == nil || hk == nil {
				return 0
			}
			mk, ek := k.Mlkem.EncapsulationKey().Bytes(), hk.PublicKey().Bytes()
			var want []byte
			if s.Group == tls.X25519Kyber768Draft00 {
				want = append(append([]byte{}, ek...), mk...)
			} else {
				want = append(append([]byte{}, mk...), ek...)
			}
			if !bytes.Equal(want, s.Data) {
				return 0
			}
		default:
			if classicalSeen {
				continue // only the first classical share keeps its private key (u_parrots.go:2915)
			}
			classicalSeen = true
			var pk *ecdh.PrivateKey = k.Ecdhe
			if pk == nil || !bytes.Equal(pk.PublicKey().Bytes(), s.Data) {
				return 0
			}
		}
	}
	return 1
}

var errUnparsable = fmt.Errorf("the ClientHello on the wire does not parse")

type nopConn struct{ net.Conn }

func (nopConn) Write(b []byte) (int, error)      { return len(b), nil }
func (nopConn) Read(b []byte) (int, error)       { select {} }
func (nopConn) Close() error                     { return nil }
func (nopConn) SetDeadline(time.Time) error      { return nil }
func (nopConn) SetReadDeadline(time.Time) error  { return nil }
func (nopConn) SetWriteDeadline(time.Time) error { return nil }
func (nopConn) LocalAddr() net.Addr              { return &net.TCPAddr{} }
func (nopConn) RemoteAddr() net.Addr             { return &net.TCPAddr{} }

func (e *env) runCase(p parrot, w worldCfg, ops []op) (ob observation, err error) {
	hasH := false
	for _, o := range ops {
		if o.k == kH {
			hasH = true
		}
	}
	srv := e.srv12
	if w.srv13 {
		srv = e.srv13
	}
	var raw net.Conn = nopConn{}
	var ch chan srvResult
	if hasH {
		raw, ch = srv.dial()
		defer srv.forget(raw)
		raw.SetDeadline(time.Now().Add(5 * time.Second))
	}
	rec := &recConn{Conn: raw}
	cache := newMapCache()
	switch w.hit {
	case 12:
		cache.Put(serverName, e.css12)
	case 13:
		cache.Put(serverName, e.css13)
	}
	cfg := &tls.Config{ServerName: serverName, InsecureSkipVerify: true, SessionTicketsDisabled: w.disabled, OmitEmptyPsk: w.omit}
	if w.cache0 {
		cfg.ClientSessionCache = cache
	}
	u := tls.UClient(rec, cfg, p.id)
	ob.hsIndex = -1
	sniNames := []string{serverName, "c21.verif.test", "a-longer-name.c20.verif.test"}
	for i, o := range ops {
		var out outcome
		coq := coqOp(o)
		func() {
			defer func() {
				if r := recover(); r != nil {
					out = classifyPanic(r)
				}
			}()
			var cerr error
			switch o.k {
			case kC:
				u.SetSessionCache(cache)
			case kW:
				cerr = u.BuildHandshakeStateWithoutSession()
			case kB:
				cerr = u.BuildHandshakeState()
			case kH:
				if ob.hsIndex < 0 {
					ob.hsIndex = i
				}
				ob.handshook = true
				cerr = u.Handshake()
			case kE:
				switch o.arg {
				case 1:
					cerr = u.SetClientRandom(bytes.Repeat([]byte{0x42}, 32))
				case 2:
					u.SetSNI(sniNames[1])
				case 3:
					u.SetSNI(sniNames[2])
				case 4:
					if u.HandshakeState.Hello != nil {
						u.HandshakeState.Hello.SessionId = bytes.Repeat([]byte{0x24}, 32)
					}
				}
			case kT:
				switch o.arg {
				case 5:
					var found *tls.SessionTicketExtension
					for _, x := range u.Extensions {
						if t, ok := x.(*tls.SessionTicketExtension); ok && found == nil {
							found = t
						}
					}
					if found != nil {
						found.Session, found.Ticket, found.Initialized = e.ss12, e.tk12, true
						coq = "ReuseTicket ([1], 1)"
						cerr = u.SetSessionTicketExtension(found)
					} else {
						cerr = u.SetSessionTicketExtension(&tls.SessionTicketExtension{Session: e.ss12, Ticket: e.tk12, Initialized: true})
					}
				case 0:
					cerr = u.SetSessionTicketExtension(nil)
				case 1:
					cerr = u.SetSessionTicketExtension(&tls.SessionTicketExtension{Session: e.ss12, Ticket: e.tk12, Initialized: true})
				case 2:
					cerr = u.SetSessionTicketExtension(&tls.SessionTicketExtension{Session: e.ssForged, Ticket: e.tkForged, Initialized: true})
				case 3:
					cerr = u.SetSessionTicketExtension(&tls.SessionTicketExtension{})
				case 4:
					cerr = u.SetSessionTicketExtension(&tls.SessionTicketExtension{Ticket: e.tk12})
				}
			case kP:
				switch o.arg {
				case 0:
					cerr = u.SetPskExtension(nil)
				case 1:
					x, perr := e.pskExt()
					if perr != nil {
						err = perr
						return
					}
					cerr = u.SetPskExtension(x)
				case 2:
					cerr = u.SetPskExtension(&tls.UtlsPreSharedKeyExtension{})
				case 3:
					x, perr := e.pskExt()
					if perr != nil {
						err = perr
						return
					}
					var found *tls.UtlsPreSharedKeyExtension
					for _, y := range u.Extensions {
						if t, ok := y.(*tls.UtlsPreSharedKeyExtension); ok && found == nil {
							found = t
						}
					}
					if found != nil {
						found.InitializeByUtls(x.Session, x.EarlySecret, x.BinderKey, x.Identities)
						coq = "ReusePsk ([3], 3)"
						cerr = u.SetPskExtension(found)
					} else {
						cerr = u.SetPskExtension(x)
					}
				}
			case kS:
				switch o.arg {
				case 0:
					cerr = u.SetSessionState(nil)
				case 1:
					cerr = u.SetSessionState(e.css12)
				case 2:
					cerr = u.SetSessionState(e.cssForged)
				}
			}
			out = classifyErr(cerr)
		}()
		if err != nil {
			return
		}
		ob.outs = append(ob.outs, out)
		ob.coqOps = append(ob.coqOps, coq)
		if ob.handshook {
			ob.keysOK = append(ob.keysOK, -1)
			ob.sess = append(ob.sess, -1)
		} else {
			ob.keysOK = append(ob.keysOK, keysMatch(u))
			ob.sess = append(ob.sess, int64(e.sessID(u.HandshakeState.Session)))
		}
	}
	if hasH {
		ob.cliResume = u.ConnectionState().DidResume
		if msg := rec.firstHandshakeMsg(); msg != nil {
			v := parseHello(msg)
			if !v.ok {
				return ob, errUnparsable
			}
			ob.wire = &v
		}
		raw.Close()
		if ob.wire != nil {
			select {
			case r := <-ch:
				ob.srv = &r
			case <-time.After(4 * time.Second):
				return ob, fmt.Errorf("server gave no result")
			}
		}
	}
	return
}

func (e *env) coqCase(p parrot, w worldCfg, ops []op, ob observation) string {
	cops := make([]string, len(ops))
	outs := make([]string, len(ops))
	ks := make([]string, len(ops))
	ss := make([]string, len(ops))
	for i := range ops {
		cops[i] = ob.coqOps[i]
		outs[i] = ob.outs[i].coq()
		ks[i] = vh.Opt(ob.keysOK[i] >= 0, vh.Bool(ob.keysOK[i] == 1))
		ss[i] = vh.Opt(ob.sess[i] >= 0, fmt.Sprint(ob.sess[i]))
	}
	wire := "None"
	if ob.wire != nil {
		tks := make([]string, len(ob.wire.tickets))
		for i, t := range ob.wire.tickets {
			tks[i] = e.tag(t)
		}
		wire = fmt.Sprintf("(Some (%s, %s))", vh.List(tks), vh.Opt(ob.wire.hasPsk, e.tag(ob.wire.pskIdent)))
	}
	return fmt.Sprintf("CRun %s %s %s %s %s %s", coqWorld(p, w), vh.List(cops), vh.List(outs), vh.List(ks), vh.List(ss), wire)
}

// ---- Go-side oracle, from the property text and the doc comments only ----

// legalPrefix returns the index of the first call the documentation forbids (-1 if none); outs are the observed outcomes.
// Forbidden: a setter while session support is off (no ClientSessionCache / tickets disabled);
// a non-nil session extension after BuildHandshakeState or Handshake; a second injected session.
func legalPrefix(w worldCfg, ops []op, outs []outcome) int {
	cache, set, built := w.cache0, false, false
	for i, o := range ops {
		switch {
		case o.k == kC:
			cache = true
		case o.k == kB || o.k == kH:
			// a build that stopped with ErrEmptyPsk built no hello (the documented way out is to change the
			// configuration); the documentation says nothing about setters after it
			if !(i < len(outs) && outs[i].kind == 1 && outs[i].code == 4) {
				built = true
			}
		case o.isSetter():
			if !cache || w.disabled {
				return i
			}
			if o.nilArg() {
				continue
			}
			if built || set {
				return i
			}
			if o.injects() != 0 {
				set = true
			}
		}
	}
	return -1
}

func (e *env) oracle(c *vh.Ctx, p parrot, w worldCfg, ops []op, ob observation) {
	input := map[string]any{"parrot": p.name, "ops": opsString(ops), "cache_in_config": w.cache0, "tickets_disabled": w.disabled,
		"omit_empty_psk": w.omit, "cache_holds": w.hit, "server_tls13": w.srv13}
	bad := legalPrefix(w, ops, ob.outs)
	upto := len(ops)
	if bad >= 0 {
		upto = bad
	}
	// every call of the allowed part: no assertion panic
	for i := 0; i < upto; i++ {
		if ob.outs[i].kind == 2 {
			key := fmt.Sprintf("legal-order-panics/%s/%s", p.name, opsString(ops[:i+1]))
			what := "a call order the documentation allows ends in a panic"
			for j := 0; j < i; j++ {
				if ob.outs[j].kind == 1 && ob.outs[j].code == 4 {
					// an earlier build returned ErrEmptyPsk after the session had been loaded; calling again asserts
					key = "panic-after-empty-psk-error/" + p.name
					what = "after BuildHandshakeState/Handshake returned ErrEmptyPsk, calling it again panics with an internal assertion instead of returning the error"
				}
			}
			c.Fail(key, what, input, ob.outs[i].text, "no panic")
			return
		}
	}
	// the key-share private keys stay the ones of the shares in the hello (judged while the last build succeeded:
	// a build that returned an error leaves no usable hello)
	lastBuildOK := false
	for i := 0; i < upto; i++ {
		if ops[i].k == kW || ops[i].k == kB {
			lastBuildOK = ob.outs[i].kind == 0
		}
		if ob.keysOK[i] == 0 && lastBuildOK {
			c.Fail(fmt.Sprintf("keyshare-keys-lost/%s/%s", p.name, opsString(ops[:i+1])),
				"after this call the key-share private keys in HandshakeState no longer belong to the key shares of the ClientHello", input,
				"mismatch", "private keys match the shares")
			return
		}
	}
	if bad >= 0 {
		o := ob.outs[bad]
		if p.golang && (ops[bad].injects() != 0 || ops[bad].isSetter()) && o.kind == 0 {
			c.Fail("golang-session-setter-ignored/forbidden-call-returns-nil",
				"HelloGolang: a session setter call the documentation forbids (after the hello is built, or a second session) returns nil", input, "nil", "error or documented panic")
			return
		}
		if o.kind == 0 || (o.kind == 2 && !documentedPanic(o.code)) {
			c.Fail(fmt.Sprintf("forbidden-order-not-rejected/%s/%s", p.name, opsString(ops[:bad+1])),
				"a call the documentation forbids neither returns an error nor panics with the documented message", input, o.text, "error or documented panic")
		}
		return
	}
	// legal history with a handshake: it completes; an injected session is on the wire verbatim and resumes
	if ob.hsIndex < 0 {
		return
	}
	inj, injOp := 0, op{}
	for _, o := range ops[:ob.hsIndex] {
		if k := o.injects(); k != 0 {
			inj, injOp = k, o
		}
	}
	h := ob.outs[ob.hsIndex]
	emptyPskExpected := p.psk && !w.omit && !(inj == 2) && !(w.hit == 13 && (w.cache0 || hasOp(ops[:ob.hsIndex], kC)) && !w.disabled && inj == 0)
	if inj == 0 {
		if h.kind != 0 && !(emptyPskExpected && h.code == 4) {
			c.Fail(fmt.Sprintf("legal-handshake-fails/%s/%s", p.name, opsString(ops[:ob.hsIndex+1])), "a documented call order ends in a failed handshake",
				input, h.text, "handshake completes")
		}
		return
	}
	hasExt := (inj == 1 && p.tickets > 0) || (inj == 2 && p.psk)
	if p.golang {
		hasExt = true // crypto/tls writes both extensions itself
	}
	if !hasExt {
		if h.kind == 0 {
			c.Fail(fmt.Sprintf("injected-session-dropped/%s", p.name), "the parrot has no extension to carry the injected session, yet Handshake returns nil",
				input, "nil", "error")
		}
		return
	}
	if emptyPskExpected && h.kind == 1 && h.code == 4 {
		return // documented: pre_shared_key extension without a psk needs OmitEmptyPsk
	}
	var want []byte
	var got []byte
	present := false
	var sid string
	switch injOp.k {
	case kT, kS:
		sid = "ticket"
		want = map[int][]byte{1: e.tk12, 2: e.tkForged, 0: nil, 5: e.tk12}[injOp.arg]
		if ob.wire != nil && len(ob.wire.tickets) == 1 {
			got, present = ob.wire.tickets[0], true
		}
	case kP:
		sid = "psk"
		want = e.tk13
		if ob.wire != nil && ob.wire.hasPsk {
			got, present = ob.wire.pskIdent, true
		}
	}
	key := fmt.Sprintf("injected-%s-not-used/%s/%s", sid, p.name, opsString(ops[:ob.hsIndex+1]))
	if p.golang {
		key = fmt.Sprintf("golang-session-setter-ignored/%s-not-on-wire", sid)
	}
	if h.kind != 0 {
		c.Fail(key, "Handshake fails after a session was injected in a documented order", input, h.text, "handshake completes and resumes")
		return
	}
	if !present || !bytes.Equal(got, want) {
		c.Fail(key, "the injected "+sid+" is not on the wire as given", input, map[string]any{"present": present, "bytes": vh.Hex(got)}, vh.Hex(want))
		return
	}
	serverCanResume := len(want) > 0 && ((inj == 1 && !w.srv13) || (inj == 2 && w.srv13))
	if serverCanResume {
		if !ob.cliResume || ob.srv == nil || ob.srv.err != nil || !ob.srv.didResume {
			c.Fail(key, "the injected "+sid+" is on the wire but the handshake did not resume", input,
				map[string]any{"client_resumed": ob.cliResume, "server": fmt.Sprint(ob.srv)}, "DidResume on both sides")
		}
	}
}

func hasOp(ops []op, k int) bool {
	for _, o := range ops {
		if o.k == k {
			return true
		}
	}
	return false
}

// ---- generation ----

func argsFor(k int, rng func(int) int) int {
	switch k {
	case kT:
		return []int{1, 1, 2, 2, 3, 3, 0, 5, 5}[rng(9)]
	case kP:
		return []int{1, 1, 1, 2, 0, 3, 3}[rng(7)]
	case kE:
		return 1 + rng(4)
	case kS:
		return []int{1, 2, 0}[rng(3)]
	}
	return 0
}

func chooseWorld(c *vh.Ctx, p parrot, ops []op) worldCfg {
	w := worldCfg{omit: true}
	w.cache0 = c.Rng.Intn(3) == 0
	w.disabled = c.Rng.Intn(12) == 0
	if p.psk && c.Rng.Intn(6) == 0 {
		w.omit = false
	}
	w.hit = []int{0, 0, 12, 13}[c.Rng.Intn(4)]
	inj := 0
	for _, o := range ops {
		if k := o.injects(); k != 0 && inj == 0 {
			inj = k
		}
	}
	switch {
	case inj == 1:
		w.srv13 = c.Rng.Intn(5) == 0
	case inj == 2:
		w.srv13 = c.Rng.Intn(5) != 0
	default:
		w.srv13 = c.Rng.Intn(2) == 0
	}
	return w
}

func run(c *vh.Ctx) {
	e, err := newEnv()
	if err != nil {
		fmt.Println("C20: cannot set up the loopback environment:", err)
		os.Exit(1)
	}
	debug := os.Getenv("C20_DEBUG") != ""
	do := func(kind string, p parrot, w worldCfg, ops []op) {
		ob, err := e.runCase(p, w, ops)
		if err == errUnparsable {
			// the implementation wrote a malformed ClientHello: a failing input, not a harness problem
			c.Fail(fmt.Sprintf("malformed-clienthello/%s/%s", p.name, opsString(ops)), "the ClientHello written for this history does not parse (length fields inconsistent)",
				map[string]any{"parrot": p.name, "ops": opsString(ops), "config": fmt.Sprintf("%+v", w)}, "unparsable", "well-formed ClientHello")
			return
		}
		if err != nil {
			fmt.Println("C20: harness error:", err, p.name, opsString(ops))
			os.Exit(1)
		}
		term := e.coqCase(p, w, ops, ob)
		if debug {
			fmt.Println(p.name, opsString(ops), fmt.Sprintf("%+v", w), term)
		}
		key := fmt.Sprintf("%s|%s|%+v", p.name, opsString(ops), w)
		nontrivial := len(ops) >= 3 && (hasOp(ops, kB) || hasOp(ops, kH) || hasOp(ops, kW))
		var sample any
		if nontrivial {
			sample = map[string]any{"parrot": p.name, "ops": opsString(ops), "outcomes": ob.outs[len(ob.outs)-1].coq()}
		}
		c.Case(kind, term, key, nontrivial, sample)
		if ob.handshook {
			c.Count("handshakes")
		}
		e.oracle(c, p, w, ops, ob)
	}
	P := func(name string) parrot {
		for _, p := range parrots {
			if p.name == name {
				return p
			}
		}
		panic(name)
	}
	std := worldCfg{omit: true}
	// fixed corpus: the documented flows, and the F-20 witness (BuildHandshakeStateWithoutSession, then build again / handshake)
	for _, pn := range []string{"Chrome_100", "Firefox_120", "Chrome_112_PSK_Shuf", "Chrome_115_PQ_PSK", "iOS_14", "Golang", "Chrome_133"} {
		p := P(pn)
		for _, s13 := range []bool{false, true} {
			w := std
			w.srv13 = s13
			do("corpus", p, w, []op{{kW, 0}, {kB, 0}})
			do("corpus", p, w, []op{{kW, 0}, {kH, 0}})
			do("corpus", p, w, []op{{kW, 0}, {kW, 0}, {kB, 0}, {kH, 0}})
			do("corpus", p, w, []op{{kC, 0}, {kW, 0}, {kT, 1}, {kB, 0}, {kH, 0}})
			do("corpus", p, w, []op{{kC, 0}, {kW, 0}, {kP, 1}, {kH, 0}})
			do("corpus", p, w, []op{{kC, 0}, {kT, 2}, {kH, 0}})
			do("corpus", p, w, []op{{kC, 0}, {kS, 2}, {kB, 0}, {kH, 0}})
			do("corpus", p, w, []op{{kC, 0}, {kP, 1}, {kB, 0}, {kB, 0}, {kH, 0}})
			do("corpus", p, w, []op{{kC, 0}, {kB, 0}, {kT, 1}})
			do("corpus", p, w, []op{{kC, 0}, {kT, 1}, {kP, 1}})
			do("corpus", p, w, []op{{kT, 1}, {kH, 0}})
			// inspect the hello, edit it, then handshake; fill the extension found in the inspected hello
			do("corpus", p, w, []op{{kC, 0}, {kP, 1}, {kB, 0}, {kE, 1}, {kH, 0}})
			do("corpus", p, w, []op{{kC, 0}, {kT, 1}, {kB, 0}, {kE, 3}, {kH, 0}})
			do("corpus", p, w, []op{{kC, 0}, {kW, 0}, {kP, 3}, {kH, 0}})
			do("corpus", p, w, []op{{kC, 0}, {kW, 0}, {kT, 5}, {kB, 0}, {kH, 0}})
			do("corpus", p, w, []op{{kC, 0}, {kW, 0}, {kE, 2}, {kP, 3}, {kB, 0}, {kE, 4}, {kH, 0}})
			for _, hit := range []int{12, 13} {
				wh := w
				wh.hit = hit
				do("corpus", p, wh, []op{{kC, 0}, {kH, 0}})
				do("corpus", p, wh, []op{{kC, 0}, {kB, 0}, {kE, 1}, {kH, 0}})
				do("corpus", p, wh, []op{{kC, 0}, {kW, 0}, {kT, 3}, {kB, 0}, {kH, 0}})
				do("corpus", p, wh, []op{{kC, 0}, {kP, 2}, {kW, 0}, {kH, 0}})
			}
		}
	}
	// all histories over the seven calls up to a length, arguments and configuration drawn per history
	maxLen, sampleLen, budget := 3, 5, c.N
	if c.Tier != "quick" {
		maxLen = 4
	}
	var all [][]op
	var gen func(prefix []op, n int)
	gen = func(prefix []op, n int) {
		if len(prefix) > 0 {
			all = append(all, append([]op{}, prefix...))
		}
		if n == 0 {
			return
		}
		for k := 0; k < nKinds; k++ {
			gen(append(prefix, op{k, 0}), n-1)
		}
	}
	gen(nil, maxLen)
	emit := func(kind string, ks []op) {
		ops := make([]op, 0, len(ks))
		hs := false
		for _, o := range ks {
			// once Handshake ran, HandshakeState belongs to the handshake: only Handshake again and the (then
			// forbidden) setters are documented calls
			if hs && (o.k == kC || o.k == kW || o.k == kB || o.k == kE) {
				continue
			}
			hs = hs || o.k == kH
			ops = append(ops, op{o.k, argsFor(o.k, c.Rng.Intn)})
		}
		p := parrots[c.Rng.Intn(len(parrots))]
		do(kind, p, chooseWorld(c, p, ops), ops)
	}
	// random documented flows: [SetSessionCache] (inspect / edit)* [inject a session] (inspect / build / edit)* Handshake,
	// on a ClientHelloID that usually has the extension for the injected session, against the matching server
	flows := budget / 5
	if c.Tier != "quick" {
		flows = budget / 4
	}
	for f := 0; f < flows; f++ {
		var ops []op
		w := worldCfg{omit: true}
		if c.Rng.Intn(2) == 0 {
			w.cache0 = true
		} else {
			ops = append(ops, op{kC, 0})
		}
		for i := c.Rng.Intn(3); i > 0; i-- {
			ops = append(ops, []op{{kW, 0}, {kE, 1 + c.Rng.Intn(4)}}[c.Rng.Intn(2)])
		}
		inj := 0
		if c.Rng.Intn(5) != 0 {
			o := []op{{kT, 1}, {kT, 2}, {kT, 5}, {kS, 1}, {kS, 2}, {kP, 1}, {kP, 3}, {kP, 1}, {kP, 3}}[c.Rng.Intn(9)]
			inj = o.injects()
			ops = append(ops, o)
		} else {
			w.hit = []int{0, 12, 13, 13}[c.Rng.Intn(4)]
		}
		for i := c.Rng.Intn(4); i > 0; i-- {
			ops = append(ops, []op{{kW, 0}, {kB, 0}, {kE, 1 + c.Rng.Intn(4)}, {kB, 0}, {kE, 1 + c.Rng.Intn(4)}}[c.Rng.Intn(5)])
		}
		ops = append(ops, op{kH, 0})
		var cand []parrot
		for _, p := range parrots {
			if (inj == 1 && p.tickets > 0) || (inj == 2 && p.psk) || (inj == 0 && (w.hit != 13 || p.psk)) {
				cand = append(cand, p)
			}
		}
		p := parrots[c.Rng.Intn(len(parrots))]
		if c.Rng.Intn(4) != 0 && len(cand) > 0 {
			p = cand[c.Rng.Intn(len(cand))]
		}
		switch {
		case inj == 1:
			w.srv13 = c.Rng.Intn(6) == 0
		case inj == 2 || w.hit == 13:
			w.srv13 = c.Rng.Intn(6) != 0
		default:
			w.srv13 = c.Rng.Intn(2) == 0
		}
		do(fmt.Sprintf("flow_len%d", len(ops)), p, w, ops)
	}
	n := 0
	for _, ks := range all {
		if c.Tier == "quick" && len(ks) == 3 && c.Rng.Intn(2) == 0 {
			continue
		}
		emit(fmt.Sprintf("enum_len%d", len(ks)), ks)
		n++
	}
	for ; n < budget; n++ {
		l := maxLen + 1 + c.Rng.Intn(sampleLen-maxLen)
		ks := make([]op, l)
		for i := range ks {
			ks[i] = op{c.Rng.Intn(nKinds), 0}
		}
		emit(fmt.Sprintf("sample_len%d", l), ks)
	}
}

package main

import (
	"encoding/binary"
	"net"
	"sync"
)

// recConn records everything the client writes, so the ClientHello that went on the wire can be parsed.
type recConn struct {
	net.Conn
	mu  sync.Mutex
	out []byte
}

func (r *recConn) Write(b []byte) (int, error) {
	r.mu.Lock()
	if len(r.out) < 1<<16 {
		r.out = append(r.out, b...)
	}
	r.mu.Unlock()
	return r.Conn.Write(b)
}

// firstHandshakeMsg reassembles the first handshake message from the TLS records written.
func (r *recConn) firstHandshakeMsg() []byte {
	r.mu.Lock()
	defer r.mu.Unlock()
	p := r.out
	var hs []byte
	for len(p) >= 5 && p[0] == 22 {
		l := int(binary.BigEndian.Uint16(p[3:5]))
		if len(p) < 5+l {
			break
		}
		hs = append(hs, p[5:5+l]...)
		p = p[5+l:]
		if len(hs) >= 4 {
			ml := int(hs[1])<<16 | int(hs[2])<<8 | int(hs[3])
			if len(hs) >= 4+ml {
				return hs[:4+ml]
			}
		}
	}
	return nil
}

type helloView struct {
	ok        bool
	tickets   [][]byte // bodies of every session_ticket (35) extension, in order
	hasPsk    bool
	pskIdent  []byte // first identity of pre_shared_key (41)
	keyShares map[uint16][]byte
	shareOrd  []uint16
}

func isGrease(v uint16) bool { return v&0x0f0f == 0x0a0a && v>>8 == v&0xff }

// parseHello: own small ClientHello parser (handshake message incl. 4-byte header).
func parseHello(msg []byte) (v helloView) {
	v.keyShares = map[uint16][]byte{}
	if len(msg) < 4+2+32+1 || msg[0] != 1 {
		return
	}
	p := msg[4:]
	p = p[2+32:]
	n := int(p[0])
	if len(p) < 1+n+2 {
		return
	}
	p = p[1+n:]
	n = int(binary.BigEndian.Uint16(p))
	if len(p) < 2+n+1 {
		return
	}
	p = p[2+n:]
	n = int(p[0])
	if len(p) < 1+n {
		return
	}
	p = p[1+n:]
	if len(p) == 0 {
		v.ok = true
		return
	}
	if len(p) < 2 {
		return
	}
	n = int(binary.BigEndian.Uint16(p))
	p = p[2:]
	if len(p) != n {
		return
	}
	for len(p) > 0 {
		if len(p) < 4 {
			return
		}
		t := binary.BigEndian.Uint16(p)
		l := int(binary.BigEndian.Uint16(p[2:]))
		if len(p) < 4+l {
			return
		}
		body := p[4 : 4+l]
		p = p[4+l:]
		switch t {
		case 35:
			v.tickets = append(v.tickets, append([]byte{}, body...))
		case 41:
			v.hasPsk = true
			if len(body) >= 4 {
				il := int(binary.BigEndian.Uint16(body[2:]))
				if len(body) >= 4+il {
					v.pskIdent = append([]byte{}, body[4:4+il]...)
				}
			}
		case 51:
			if len(body) < 2 {
				return
			}
			q := body[2:]
			for len(q) >= 4 {
				g := binary.BigEndian.Uint16(q)
				kl := int(binary.BigEndian.Uint16(q[2:]))
				if len(q) < 4+kl {
					return
				}
				if !isGrease(g) {
					v.keyShares[g] = append([]byte{}, q[4:4+kl]...)
					v.shareOrd = append(v.shareOrd, g)
				}
				q = q[4+kl:]
			}
		}
	}
	v.ok = true
	return
}

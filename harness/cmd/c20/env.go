package main

import (
	"bytes"
	"crypto/rand"
	"fmt"
	"net"
	"sync"
	"time"

	tls "github.com/refraction-networking/utls"
	"verif/harness/vh"
)

const serverName = "c20.verif.test"

type srvResult struct {
	err       error
	didResume bool
	vers      uint16
}

// server: Go TLS server of the utls package on loopback, session tickets enabled with a fixed ticket key.
type server struct {
	ln  net.Listener
	cfg *tls.Config
	mu  sync.Mutex
	res map[string]chan srvResult
}

func newServer(cert tls.Certificate, key [32]byte, maxVers uint16) *server {
	cfg := &tls.Config{Certificates: []tls.Certificate{cert}, MinVersion: tls.VersionTLS12, MaxVersion: maxVers}
	cfg.SetSessionTicketKeys([][32]byte{key})
	ln, err := net.Listen("tcp", "127.0.0.1:0")
	if err != nil {
		panic(err)
	}
	s := &server{ln: ln, cfg: cfg, res: map[string]chan srvResult{}}
	go func() {
		for {
			c, err := ln.Accept()
			if err != nil {
				return
			}
			go s.serve(c)
		}
	}()
	return s
}

func (s *server) serve(c net.Conn) {
	defer c.Close()
	c.SetDeadline(time.Now().Add(5 * time.Second))
	t := tls.Server(c, s.cfg)
	err := t.Handshake()
	st := t.ConnectionState()
	r := srvResult{err: err, didResume: st.DidResume, vers: st.Version}
	s.mu.Lock()
	ch := s.res[c.RemoteAddr().String()]
	s.mu.Unlock()
	if ch != nil {
		ch <- r
	}
	if err == nil {
		t.Write([]byte{1}) // lets a TLS 1.3 client read its NewSessionTicket messages
		buf := make([]byte, 1)
		t.Read(buf)
	}
}

// dial connects and registers a result channel for this connection.
func (s *server) dial() (net.Conn, chan srvResult) {
	c, err := net.Dial("tcp", s.ln.Addr().String())
	if err != nil {
		panic(err)
	}
	ch := make(chan srvResult, 1)
	s.mu.Lock()
	s.res[c.LocalAddr().String()] = ch
	s.mu.Unlock()
	return c, ch
}

func (s *server) forget(c net.Conn) {
	s.mu.Lock()
	delete(s.res, c.LocalAddr().String())
	s.mu.Unlock()
}

// mapCache: a ClientSessionCache with visible content; every case gets its own copy.
type mapCache struct {
	mu sync.Mutex
	m  map[string]*tls.ClientSessionState
}

func newMapCache() *mapCache { return &mapCache{m: map[string]*tls.ClientSessionState{}} }
// Get answers for every server name with the session stored for the test server: the content of the cache is part of
// the case's configuration and must not depend on a SetSNI edit.
func (c *mapCache) Get(k string) (*tls.ClientSessionState, bool) {
	c.mu.Lock()
	defer c.mu.Unlock()
	s, ok := c.m[serverName]
	return s, ok
}
func (c *mapCache) Put(k string, s *tls.ClientSessionState) {
	c.mu.Lock()
	defer c.mu.Unlock()
	if s == nil {
		delete(c.m, k)
	} else {
		c.m[k] = s
	}
}

type env struct {
	srv12, srv13 *server
	// sessions obtained from priming connections
	css12, css13 *tls.ClientSessionState
	tk12, tk13   []byte
	ss12, ss13   *tls.SessionState
	// session forged from a known master secret (TLS 1.2), ticket sealed with the server's ticket key
	cssForged *tls.ClientSessionState
	tkForged  []byte
	ssForged  *tls.SessionState
}

func clientConfig(cache tls.ClientSessionCache) *tls.Config {
	return &tls.Config{ServerName: serverName, InsecureSkipVerify: true, ClientSessionCache: cache}
}

func (e *env) prime(s *server) (*tls.ClientSessionState, error) {
	cache := newMapCache()
	c, _ := s.dial()
	defer s.forget(c)
	defer c.Close()
	u := tls.UClient(c, clientConfig(cache), tls.HelloChrome_100)
	c.SetDeadline(time.Now().Add(5 * time.Second))
	if err := u.Handshake(); err != nil {
		return nil, err
	}
	buf := make([]byte, 1)
	if _, err := u.Read(buf); err != nil {
		return nil, err
	}
	cs, ok := cache.Get(serverName)
	if !ok || cs == nil {
		return nil, fmt.Errorf("priming connection left no session in the cache")
	}
	return cs, nil
}

func newEnv() (*env, error) {
	pki := vh.NewTestPKI(serverName)
	cert := tls.Certificate{Certificate: [][]byte{pki.LeafDER}, PrivateKey: pki.LeafKey}
	var key [32]byte
	rand.Read(key[:])
	e := &env{srv12: newServer(cert, key, tls.VersionTLS12), srv13: newServer(cert, key, tls.VersionTLS13)}
	var err error
	if e.css12, err = e.prime(e.srv12); err != nil {
		return nil, fmt.Errorf("prime 1.2: %w", err)
	}
	if e.css13, err = e.prime(e.srv13); err != nil {
		return nil, fmt.Errorf("prime 1.3: %w", err)
	}
	e.tk12, e.ss12, _ = e.css12.ResumptionState()
	e.tk13, e.ss13, _ = e.css13.ResumptionState()
	if e.css12.Vers() != tls.VersionTLS12 || e.css13.Vers() != tls.VersionTLS13 || len(e.tk12) == 0 || len(e.tk13) == 0 {
		return nil, fmt.Errorf("priming produced unexpected sessions")
	}
	// forged: known master secret, ticket produced with the server's key (the server "can decrypt it")
	ms := bytes.Repeat([]byte{0x5a}, 48)
	f := tls.MakeClientSessionState(nil, tls.VersionTLS12, tls.TLS_ECDHE_ECDSA_WITH_AES_128_GCM_SHA256, ms, nil, nil)
	f.SetEMS(true)
	f.SetCreatedAt(uint64(time.Now().Unix()))
	_, fss, _ := f.ResumptionState()
	tk, err := e.srv12.cfg.EncryptTicket(tls.ConnectionState{}, fss)
	if err != nil {
		return nil, fmt.Errorf("forge: %w", err)
	}
	f.SetSessionTicket(tk)
	e.cssForged, e.tkForged, e.ssForged = f, tk, fss
	return e, nil
}

// pskExt builds an initialized UtlsPreSharedKeyExtension for the primed TLS 1.3 session using public API only:
// a throw-away UConn with the session in its cache computes EarlySecret/BinderKey/identities in BuildHandshakeState.
func (e *env) pskExt() (*tls.UtlsPreSharedKeyExtension, error) {
	cache := newMapCache()
	cache.Put(serverName, e.css13)
	cfg := clientConfig(cache)
	cfg.OmitEmptyPsk = true
	a, b := net.Pipe()
	defer a.Close()
	defer b.Close()
	h := tls.UClient(a, cfg, tls.HelloChrome_112_PSK_Shuf)
	if err := h.BuildHandshakeState(); err != nil {
		return nil, err
	}
	hs := h.HandshakeState
	if hs.Session == nil || len(hs.Hello.PskIdentities) == 0 || hs.State13.EarlySecret == nil {
		return nil, fmt.Errorf("helper connection did not load the TLS 1.3 session")
	}
	ids := make([]tls.PskIdentity, len(hs.Hello.PskIdentities))
	for i, id := range hs.Hello.PskIdentities {
		ids[i] = tls.PskIdentity{Label: append([]byte{}, id.Label...), ObfuscatedTicketAge: id.ObfuscatedTicketAge}
	}
	x := &tls.UtlsPreSharedKeyExtension{}
	x.InitializeByUtls(hs.Session, hs.State13.EarlySecret, hs.State13.BinderKey, ids)
	return x, nil
}

package main

import (
	"bytes"
	"fmt"

	tls "github.com/refraction-networking/utls"
	"verif/harness/hs"
	"verif/harness/vh"
)

// hsMsg: one plaintext handshake message of the server (type, body without the 4-byte header).
type hsMsg struct {
	Typ  uint8
	Body []byte
}

var hrrRandom = []byte{0xCF, 0x21, 0xAD, 0x74, 0xE5, 0x9A, 0x61, 0x11, 0xBE, 0x1D, 0x8C, 0x02, 0x1E, 0x65, 0xB8, 0x91,
	0xC2, 0xA2, 0x11, 0x16, 0x7A, 0xBB, 0x8C, 0x5E, 0x07, 0x9E, 0x09, 0xE2, 0xC8, 0xA8, 0x33, 0x9C}

func isHRR(m hsMsg) bool { return m.Typ == 2 && len(m.Body) >= 34 && bytes.Equal(m.Body[2:34], hrrRandom) }

// serverPlaintext: the server's handshake messages sent in the clear: HRR / ServerHello (TLS 1.3; everything
// after is encrypted), ServerHello .. ServerHelloDone (TLS <= 1.2, up to the ChangeCipherSpec).
func serverPlaintext(stream []byte) []hsMsg {
	var buf []byte
	var out []hsMsg
	seenSH := false
	for _, r := range hs.SplitRecords(stream) {
		if r.Type == 20 {
			if seenSH {
				break
			}
			continue // middlebox-compatibility CCS after a HelloRetryRequest
		}
		if r.Type != 22 {
			break
		}
		buf = append(buf, r.Body...)
		for len(buf) >= 4 {
			n := int(buf[1])<<16 | int(buf[2])<<8 | int(buf[3])
			if len(buf) < 4+n {
				break
			}
			m := hsMsg{buf[0], append([]byte(nil), buf[4:4+n]...)}
			out = append(out, m)
			if m.Typ == 2 && !isHRR(m) {
				seenSH = true
			}
			buf = buf[4+n:]
		}
	}
	return out
}

type srvHello struct {
	vers, sv, suite, share, selgroup uint16
	comp                              uint8
	tail                              int
	sid                               []byte
	cookie                            bool
	psk                               int // -1 absent
	alpn                              string
	ems                               bool // extended_master_secret present
}

func parseServerHello(b []byte, hrr bool) (*srvHello, bool) {
	h := &srvHello{psk: -1}
	take := func(n int) []byte {
		if n < 0 || len(b) < n {
			b = nil
			return nil
		}
		v := b[:n]
		b = b[n:]
		return v
	}
	v := take(2)
	rnd := take(32)
	l := take(1)
	if v == nil || rnd == nil || l == nil {
		return nil, false
	}
	h.vers = uint16(v[0])<<8 | uint16(v[1])
	switch string(rnd[24:]) {
	case "DOWNGRD\x01":
		h.tail = 1
	case "DOWNGRD\x00":
		h.tail = 2
	}
	h.sid = append([]byte{}, take(int(l[0]))...)
	s := take(2)
	cm := take(1)
	if s == nil || cm == nil {
		return nil, false
	}
	h.suite = uint16(s[0])<<8 | uint16(s[1])
	h.comp = cm[0]
	if len(b) == 0 {
		return h, true
	}
	el := take(2)
	if el == nil || int(el[0])<<8|int(el[1]) != len(b) {
		return nil, false
	}
	for len(b) > 0 {
		hd := take(4)
		if hd == nil {
			return nil, false
		}
		body := take(int(hd[2])<<8 | int(hd[3]))
		if body == nil && (hd[2] != 0 || hd[3] != 0) {
			return nil, false
		}
		switch uint16(hd[0])<<8 | uint16(hd[1]) {
		case 43:
			if len(body) == 2 {
				h.sv = uint16(body[0])<<8 | uint16(body[1])
			}
		case 51:
			if len(body) >= 2 {
				g := uint16(body[0])<<8 | uint16(body[1])
				if hrr && len(body) == 2 {
					h.selgroup = g
				} else {
					h.share = g
				}
			}
		case 44:
			h.cookie = len(body) > 2
		case 41:
			if len(body) == 2 {
				h.psk = int(body[0])<<8 | int(body[1])
			}
		case 23:
			h.ems = true
		case 16:
			if len(body) >= 3 {
				h.alpn = string(body[3:])
			}
		}
	}
	return h, true
}

func helloTerm(h *srvHello) string {
	psk := "None"
	if h.psk >= 0 {
		psk = fmt.Sprintf("(Some %d)", h.psk)
	}
	return fmt.Sprintf("(mkHello %d %d %d %s %d %d %d %d %s %s %s)", h.vers, h.sv, h.tail, vh.Bytes(h.sid), h.suite, h.comp,
		h.share, h.selgroup, vh.Bool(h.cookie), psk, vh.Str(h.alpn))
}

// flightTerm: the Model/Negotiate.v flight of this connection, read from the server's plaintext messages;
// the EncryptedExtensions ALPN (encrypted in TLS 1.3) is the protocol the server reports.
func flightTerm(res *result, ss tls.ConnectionState, brotliCert bool) (string, bool) {
	var hrr, sh *srvHello
	skx := "None"
	for _, m := range res.serverMsg {
		switch {
		case isHRR(m):
			h, ok := parseServerHello(m.Body, true)
			if !ok {
				return "", false
			}
			hrr = h
		case m.Typ == 2:
			h, ok := parseServerHello(m.Body, false)
			if !ok {
				return "", false
			}
			sh = h
		case m.Typ == 12:
			// ECDHE ServerKeyExchange: curve_type(3 = named_curve) namedcurve(2) ...
			if len(m.Body) >= 3 && m.Body[0] == 3 {
				skx = fmt.Sprintf("(Some %d)", int(m.Body[1])<<8|int(m.Body[2]))
			}
		}
	}
	if sh == nil {
		return "", false
	}
	hrrT := "None"
	if hrr != nil {
		hrrT = "(Some " + helloTerm(hrr) + ")"
	}
	eeALPN := ""
	if sh.sv == tls.VersionTLS13 {
		eeALPN = ss.NegotiatedProtocol
	}
	cc := "None"
	if brotliCert && sh.psk < 0 {
		cc = "(Some 2)" // the scripted server sent the certificate as CompressedCertificate(brotli)
	}
	return fmt.Sprintf("(mkFlight %s %s %s %s %s true)", hrrT, helloTerm(sh), vh.Str(eeALPN), cc, skx), true
}

// lastServerHello: the (non-HRR) ServerHello among the server's plaintext messages.
func lastServerHello(ms []hsMsg) *srvHello {
	var out *srvHello
	for _, m := range ms {
		if m.Typ == 2 && !isHRR(m) {
			if h, ok := parseServerHello(m.Body, false); ok {
				out = h
			}
		}
	}
	return out
}

// C11 runner: uTLS parrots against the STOCK server of the utls package (tls.Server) over loopback TCP.
// Grid: parrots x {TLS 1.3, TLS 1.3 with HelloRetryRequest (server prefers a listed-but-unshared curve), TLS 1.2}
// x server ALPN preferences x resumed (shared ClientSessionCache, second connection) x server-name variants
// (normal, RemoveSNIExtension, IP-literal ServerName, spec without an SNI extension). After every successful
// handshake the two ConnectionStates are compared field by field and ExportKeyingMaterial is called on both
// ends for 5 random (label, context, length) triples. Go-side oracle keys: state/<field>/<parrot>, ekm/<parrot>.
// Coq cases: CState (Complete.client_run10 = Negotiate's decision with the key selection of the tree at hand, and
// server_state of Model/Transcript.v, on the flight parsed from
// the server's plaintext messages), CName (server-name model on uconn.Extensions).
package main

import (
	"bytes"
	"crypto/ecdh"
	"fmt"
	"io"
	"net"
	"reflect"
	"strings"
	"sync"
	"time"

	tls "github.com/refraction-networking/utls"
	"verif/harness/extcoq"
	"verif/harness/hs"
	"verif/harness/vh"
)

func main() { vh.Main(map[string]vh.Suite{"C11": {Corr: "Corr.C11Corr", Run: run}}) }

type triple struct {
	Label   string
	Context []byte // nil = no context
	Length  int
}

type ekmOut struct {
	Data []byte
	Err  string
}

type side struct {
	err   error
	state tls.ConnectionState
	curve uint16
	ekm   []ekmOut
	// client only: the parrot enabled renegotiation (RenegotiationInfoExtension.writeToUConn sets Config.Renegotiation), so
	// ConnectionState().ExportKeyingMaterial refuses (conn.go:1653, upstream rule); ekmKeys is the exporter output obtained by
	// taking a second ConnectionState with Config.Renegotiation temporarily set to RenegotiateNever (the Config is the caller's)
	renego  bool
	ekmKeys []ekmOut
}

type row struct {
	pi      int
	pr      hs.Parrot
	variant string // "tls13", "hrr", "tls12", "alpn-http1", "alpn-none", "resume13", "resume12", "sni-remove", "sni-ip", "sni-nospec"
	maxVers uint16
	curves  []tls.CurveID
	alpn    []string
	resume  bool
	sni     string
	// scripted != "": the peer is the scripted server (verif_server.go), needed for flight shapes the stock server never
	// produces: "ccert" = certificate sent as CompressedCertificate (brotli), "alps" / "alpsnew" = application_settings in
	// EncryptedExtensions answered by a client EncryptedExtensions message
	scripted string
	// name: Config.ServerName of the client ("" = the PKI's name); insecure: no certificate verification (names the leaf does not cover)
	name     string
	insecure bool
	// alpn2 (resumption pairs): the server's NextProtos for the SECOND connection when alpn2set (nil = none at all)
	alpn2    []string
	alpn2set bool
	// seq: the calls the application makes between UClient and Handshake, comma separated, out of
	// build (BuildHandshakeState), remove (RemoveSNIExtension), setsni (SetSNI(seqName)); "" = the default "build"
	// (preceded by remove when sni == "remove"); "none" = Handshake alone
	seq string
}

type result struct {
	buildErr  error
	client    side
	server    side
	view      tls.VerifClientView
	keys      *tls.KeySharePrivateKeys
	shape     string
	ccExt     bool
	sniItems  string
	cfgName   string
	wireSNI   string
	hasSNI    bool
	hellos    [][]byte
	serverMsg []hsMsg
	first     *result // the first connection of a resumption pair
}

const ping = "ping-from-client"

// treeFixed: the tree carries the C18 key-share repair (KeySharePrivateKeys.ExtraEcdhe + ecdheKeyFor); read by reflection
// so the runner builds on either tree and hands the model the matching key-selection rule.
func treeFixed() bool {
	_, ok := reflect.TypeOf(tls.KeySharePrivateKeys{}).FieldByName("ExtraEcdhe")
	return ok
}

// shapeTerm: curves of the private keys ApplyPreset retained (KeyShare.mkShape ecdhe extra mlkem mlkem_ecdhe).
func shapeTerm(ks *tls.KeySharePrivateKeys) string {
	if ks == nil {
		return "(KeyShare.mkShape 0 [] false 0)"
	}
	var extra []uint16
	if f := reflect.ValueOf(ks).Elem().FieldByName("ExtraEcdhe"); f.IsValid() {
		keys, _ := f.Interface().([]*ecdh.PrivateKey)
		for _, k := range keys {
			extra = append(extra, hs.CurveOfKey(k))
		}
	}
	return fmt.Sprintf("(KeyShare.mkShape %d %s %s %d)", hs.CurveOfKey(ks.Ecdhe), vh.U16s(extra), vh.Bool(ks.Mlkem != nil), hs.CurveOfKey(ks.MlkemEcdhe))
}

func exportAll(cs *tls.ConnectionState, ts []triple) []ekmOut {
	out := make([]ekmOut, len(ts))
	for i, t := range ts {
		d, err := cs.ExportKeyingMaterial(t.Label, t.Context, t.Length)
		if err != nil {
			out[i] = ekmOut{nil, "error"}
		} else {
			out[i] = ekmOut{d, ""}
		}
	}
	return out
}

func withoutSNI(id tls.ClientHelloID) (*tls.ClientHelloSpec, error) {
	spec, err := tls.UTLSIdToSpec(id)
	if err != nil {
		return nil, err
	}
	var exts []tls.TLSExtension
	for _, e := range spec.Extensions {
		if _, ok := e.(*tls.SNIExtension); !ok {
			exts = append(exts, e)
		}
	}
	spec.Extensions = exts
	return &spec, nil
}

// one connection. cache / scfg are shared by the two connections of a resumption pair.
func connect(r row, ccfg, scfg *tls.Config, ts []triple) *result {
	res := &result{}
	ln, err := net.Listen("tcp", "127.0.0.1:0")
	if err != nil {
		res.buildErr = err
		return res
	}
	defer ln.Close()
	done := make(chan side, 1)
	go func() {
		conn, err := ln.Accept()
		if err != nil {
			done <- side{err: err}
			return
		}
		defer conn.Close()
		conn.SetDeadline(time.Now().Add(5 * time.Second))
		sc := tls.Server(conn, scfg)
		switch r.scripted {
		case "ccert":
			sc = tls.VerifScriptedServer(conn, scfg, &tls.VerifServerScript{CertCompression: 2})
		case "alps":
			sc = tls.VerifScriptedServer(conn, scfg, &tls.VerifServerScript{ALPSCodepoint: 17513, ALPSData: []byte("server-settings"), ReadClientEE: true})
		case "alpsnew":
			sc = tls.VerifScriptedServer(conn, scfg, &tls.VerifServerScript{ALPSCodepoint: 17613, ALPSData: []byte("server-settings"), ReadClientEE: true})
		}
		out := side{err: sc.Handshake()}
		if out.err == nil {
			buf := make([]byte, len(ping))
			if _, rerr := io.ReadFull(sc, buf); rerr != nil {
				out.err = fmt.Errorf("after handshake: %w", rerr)
			} else {
				sc.Write(append([]byte("echo:"), buf...))
				out.state = sc.ConnectionState()
				out.curve = tls.VerifCurveID(sc)
				out.ekm = exportAll(&out.state, ts)
			}
			sc.Close()
		}
		done <- out
	}()
	raw, err := net.DialTimeout("tcp", ln.Addr().String(), 5*time.Second)
	if err != nil {
		res.buildErr = err
		return res
	}
	rc := &hs.RecConn{Conn: raw}
	defer rc.Close()
	rc.SetDeadline(time.Now().Add(5 * time.Second))
	id := r.pr.ID
	var uc *tls.UConn
	if r.sni == "nospec" {
		spec, err := withoutSNI(id)
		if err != nil {
			res.buildErr = err
		} else {
			uc = tls.UClient(rc, ccfg, tls.HelloCustom)
			res.buildErr = uc.ApplyPreset(spec)
		}
	} else {
		uc = tls.UClient(rc, ccfg, id)
		if r.sni == "remove" {
			res.buildErr = uc.RemoveSNIExtension()
		}
	}
	steps := []string{"build"}
	if r.seq == "none" {
		steps = nil
	} else if r.seq != "" {
		steps = strings.Split(r.seq, ",")
	}
	built := false
	for _, st := range steps {
		if res.buildErr != nil {
			break
		}
		switch st {
		case "build":
			res.buildErr = uc.BuildHandshakeState()
			built = true
		case "remove":
			res.buildErr = uc.RemoveSNIExtension()
		case "setsni":
			uc.SetSNI(seqName)
		}
	}
	if res.buildErr != nil {
		rc.Close()
		<-done
		return res
	}
	if built {
		res.view = tls.VerifClientViewOf(uc)
		res.keys = uc.HandshakeState.State13.KeyShareKeys
		res.shape = shapeTerm(res.keys) // before the handshake: a HelloRetryRequest replaces the keys
	}
	for _, e := range uc.Extensions {
		if _, ok := e.(*tls.UtlsCompressCertExtension); ok {
			res.ccExt = true
		}
	}
	res.client.err = uc.Handshake()
	if res.client.err == nil {
		if _, werr := uc.Write([]byte(ping)); werr == nil {
			buf := make([]byte, 64)
			n, rerr := io.ReadAtLeast(uc, buf, 5+len(ping))
			if rerr != nil || !bytes.Equal(buf[:n], []byte("echo:"+ping)) {
				res.client.err = fmt.Errorf("application data round trip failed: %v", rerr)
			}
		} else {
			res.client.err = werr
		}
	}
	if res.client.err == nil {
		res.client.state = uc.ConnectionState()
		res.client.curve = tls.VerifCurveID(uc.Conn)
		res.client.ekm = exportAll(&res.client.state, ts)
		if ccfg.Renegotiation != tls.RenegotiateNever {
			res.client.renego = true
			saved := ccfg.Renegotiation
			ccfg.Renegotiation = tls.RenegotiateNever
			st2 := uc.ConnectionState()
			res.client.ekmKeys = exportAll(&st2, ts)
			ccfg.Renegotiation = saved
		}
		uc.Close()
	} else {
		rc.Close()
	}
	// uconn.Extensions as they are once the handshake has run: Handshake() builds again (ApplyConfig + marshal), so this is
	// the list the hello on the wire was marshaled from
	res.cfgName = extcoq.HostnameInSNI(ccfg.ServerName)
	var items []string
	for _, e := range uc.Extensions {
		if x, ok := e.(*tls.SNIExtension); ok {
			items = append(items, "(SniExt "+vh.Str(extcoq.HostnameInSNI(x.ServerName))+")")
		} else {
			items = append(items, "NoSni")
		}
	}
	res.sniItems = vh.List(items)
	res.server = <-done
	res.hellos = hs.ClientHellosFromStream(rc.Written())
	if len(res.hellos) > 0 {
		if w, err := hs.ParseClientHello(res.hellos[0]); err == nil {
			res.wireSNI = w.SNI
			for _, t := range w.ExtensionTypes {
				if t == 0 {
					res.hasSNI = true
				}
			}
		}
	}
	res.serverMsg = serverPlaintext(rc.ReadBytes())
	return res
}

func triples(c *vh.Ctx, tag string) []triple {
	r := vh.NewRand(c.Seed*104729 + int64(len(tag))*131)
	for _, ch := range tag {
		r.Int63n(int64(ch) + 2)
	}
	ts := make([]triple, 5)
	for i := range ts {
		lb := make([]byte, 1+r.Intn(24))
		for j := range lb {
			lb[j] = byte('a' + r.Intn(26))
		}
		// reserved labels ("client finished", ...) are refused by the library; a random lowercase string with a prefix is not one
		t := triple{Label: "EXPORTER-verif-" + string(lb), Length: 1 + r.Intn(255)}
		if r.Intn(4) != 0 {
			t.Context = make([]byte, r.Intn(48))
			r.Read(t.Context)
		}
		ts[i] = t
	}
	ts[0].Length = 255
	ts[1].Context = nil
	ts[2].Context = []byte{}
	return ts
}

// seqName: the name SetSNI installs in the call-sequence rows
const seqName = "Other.Example"

// longName: a 253-character host name (the DNS maximum), labels of 63, mixed case
var longName = strings.Repeat("a", 63) + "." + strings.Repeat("B", 63) + "." + strings.Repeat("c", 63) + "." + strings.Repeat("D", 53) + ".example"

func run(c *vh.Ctx) {
	p := hs.SharedPKI()
	c.Extra["tree_has_ExtraEcdhe"] = treeFixed()
	var rows []row
	for pi, pr := range hs.Parrots() {
		both := []string{"h2", "http/1.1"}
		R := func(variant string, maxVers uint16, alpn []string) row {
			return row{pi: pi, pr: pr, variant: variant, maxVers: maxVers, alpn: alpn}
		}
		with := func(r row, f func(*row)) row { f(&r); return r }
		V13, V12 := uint16(tls.VersionTLS13), uint16(tls.VersionTLS12)
		rows = append(rows,
			R("tls13", V13, both),
			with(R("hrr", V13, both), func(r *row) { r.curves = []tls.CurveID{tls.CurveP256} }),
			with(R("hrr384", V13, []string{"http/1.1"}), func(r *row) { r.curves = []tls.CurveID{tls.CurveP384} }),
			R("tls12", V12, both),
			R("alpn-http1", V13, []string{"http/1.1"}),
			R("alpn-none", V13, nil),
			R("alpn-none12", V12, nil),
			// resumption pairs; the server's ALPN behaviour on the resumed connection: same / another protocol / none / one
			// where the first connection had none
			with(R("resume13", V13, both), func(r *row) { r.resume = true }),
			with(R("resume13-alpn-other", V13, both), func(r *row) { r.resume, r.alpn2, r.alpn2set = true, []string{"http/1.1"}, true }),
			with(R("resume13-alpn-none", V13, both), func(r *row) { r.resume, r.alpn2, r.alpn2set = true, nil, true }),
			with(R("resume12", V12, both), func(r *row) { r.resume = true }),
			with(R("resume12-alpn-other", V12, both), func(r *row) { r.resume, r.alpn2, r.alpn2set = true, []string{"http/1.1"}, true }),
			with(R("resume12-alpn-none", V12, both), func(r *row) { r.resume, r.alpn2, r.alpn2set = true, nil, true }),
			with(R("resume12-alpn-gain", V12, nil), func(r *row) { r.resume, r.alpn2, r.alpn2set = true, both, true }),
			// server-name variants
			with(R("sni-remove", V13, []string{"h2"}), func(r *row) { r.sni = "remove" }),
			with(R("sni-ip", V13, []string{"h2"}), func(r *row) { r.sni, r.name, r.insecure = "ip", "127.0.0.1", true }),
			with(R("sni-ip6", V13, []string{"h2"}), func(r *row) { r.sni, r.name, r.insecure = "ip", "[::1]", true }),
			with(R("sni-nospec", V13, []string{"h2"}), func(r *row) { r.sni = "nospec" }),
			with(R("sni-remove12", V12, []string{"h2"}), func(r *row) { r.sni = "remove" }),
			with(R("sni-mixed-case", V13, []string{"h2"}), func(r *row) { r.sni, r.name = "name", "Verif.Example" }),
			with(R("sni-upper-case12", V12, []string{"h2"}), func(r *row) { r.sni, r.name = "name", "VERIF.EXAMPLE" }),
			with(R("sni-trailing-dot", V13, []string{"h2"}), func(r *row) { r.sni, r.name, r.insecure = "name", "Verif.Example.", true }),
			with(R("sni-punycode", V13, []string{"h2"}), func(r *row) { r.sni, r.name, r.insecure = "name", "xn--Bcher-kva.XN--p1ai.example", true }),
			with(R("sni-max-length", V12, []string{"h2"}), func(r *row) { r.sni, r.name, r.insecure = "name", longName, true }),
			// call sequences between UClient and Handshake (Handshake itself builds once more)
			with(R("seq-none", V13, []string{"h2"}), func(r *row) { r.sni, r.seq = "seq", "none" }),
			with(R("seq-build-remove", V13, []string{"h2"}), func(r *row) { r.sni, r.seq = "seq", "build,remove" }),
			with(R("seq-build-remove12", V12, []string{"h2"}), func(r *row) { r.sni, r.seq = "seq", "build,remove" }),
			with(R("seq-build-remove-build", V13, []string{"h2"}), func(r *row) { r.sni, r.seq = "seq", "build,remove,build" }),
			with(R("seq-remove-build-build", V13, []string{"h2"}), func(r *row) { r.sni, r.seq = "seq", "remove,build,build" }),
			with(R("seq-build-setsni", V13, []string{"h2"}), func(r *row) { r.sni, r.seq, r.insecure = "seq", "build,setsni", true }),
			with(R("seq-setsni-build-remove", V12, []string{"h2"}), func(r *row) { r.sni, r.seq, r.insecure = "seq", "setsni,build,remove", true }),
			// flight shapes only the scripted server produces
			with(R("scripted-ccert", V13, []string{"h2"}), func(r *row) { r.scripted = "ccert" }),
			with(R("scripted-ccert-hrr", V13, []string{"h2"}), func(r *row) { r.scripted, r.curves = "ccert", []tls.CurveID{tls.CurveP256} }),
			with(R("scripted-alps", V13, []string{"h2"}), func(r *row) { r.scripted = "alps" }),
			with(R("scripted-alpsnew", V13, []string{"h2"}), func(r *row) { r.scripted = "alpsnew" }),
		)
	}
	results := make([]*result, len(rows))
	tss := make([][]triple, len(rows))
	var wg sync.WaitGroup
	sem := make(chan struct{}, 8)
	for i, r := range rows {
		tss[i] = triples(c, r.pr.Name+r.variant)
		wg.Add(1)
		sem <- struct{}{}
		go func(i int, r row) {
			defer wg.Done()
			defer func() { <-sem }()
			ccfg := p.ClientConfig()
			if strings.HasPrefix(r.scripted, "alps") {
				ccfg.ApplicationSettings = map[string][]byte{"h2": []byte("client-settings")}
			}
			if r.name != "" {
				ccfg.ServerName = r.name
			}
			ccfg.InsecureSkipVerify = r.insecure
			scfg := p.ServerConfig(r.alpn...)
			scfg.MaxVersion = r.maxVers
			if r.curves != nil {
				scfg.CurvePreferences = r.curves
			}
			if r.resume {
				ccfg.ClientSessionCache = tls.NewLRUClientSessionCache(8)
				ccfg.OmitEmptyPsk = true
				scfg.SessionTicketsDisabled = false
				first := connect(r, ccfg, scfg, tss[i])
				if first.buildErr != nil || first.client.err != nil || first.server.err != nil {
					results[i] = first
					return
				}
				scfg2 := scfg
				if r.alpn2set {
					// same ticket keys (the first connection initialised them; Clone carries them), other ALPN preferences
					scfg2 = scfg.Clone()
					scfg2.NextProtos = r.alpn2
				}
				second := connect(r, ccfg, scfg2, tss[i])
				second.first = first
				results[i] = second
				return
			}
			results[i] = connect(r, ccfg, scfg, tss[i])
		}(i, r)
	}
	wg.Wait()
	for i, r := range rows {
		judge(c, r, tss[i], results[i])
	}
}

func judge(c *vh.Ctx, r row, ts []triple, res *result) {
	name := r.pr.Name
	in := map[string]any{"parrot": name, "variant": r.variant}
	if res.buildErr != nil {
		c.Count("build-error/" + r.variant)
		return
	}
	if res.client.err != nil || res.server.err != nil {
		// not a successful handshake: outside the property (C10 judges completion). HRR rows of parrots that do not
		// list the curve, TLS 1.2 rows of 1.3-only configurations etc. end here.
		c.Count("no-handshake/" + r.variant)
		return
	}
	c.Count("handshake/" + r.variant)
	cs, ss := res.client.state, res.server.state
	if r.resume && res.first != nil {
		in["first_connection_alpn"] = res.first.client.state.NegotiatedProtocol
		in["server_alpn_second_connection"] = fmt.Sprint(map[bool]any{true: r.alpn2, false: r.alpn}[r.alpn2set])
	}
	if r.name != "" {
		in["server_name"] = r.name
	}
	if r.seq != "" {
		in["calls_before_Handshake"] = r.seq
	}
	// ---- Go-side oracle, from the property text ----
	cmp := func(field string, got, want any) {
		if fmt.Sprint(got) != fmt.Sprint(want) {
			c.Fail("state/"+field+"/"+name, "client and server ConnectionState disagree on "+field, in, got, want)
		}
	}
	cmp("Version", cs.Version, ss.Version)
	cmp("CipherSuite", cs.CipherSuite, ss.CipherSuite)
	cmp("NegotiatedProtocol", cs.NegotiatedProtocol, ss.NegotiatedProtocol)
	cmp("CurveID", res.client.curve, res.server.curve)
	cmp("DidResume", cs.DidResume, ss.DidResume)
	cmp("ECHAccepted", cs.ECHAccepted, ss.ECHAccepted)
	cmp("ServerName", cs.ServerName, ss.ServerName)
	// "the SNI actually sent, empty if none"
	if cs.ServerName != res.wireSNI {
		c.Fail("state/ServerName/"+name, "client ConnectionState.ServerName is not the SNI on the wire", in, cs.ServerName, res.wireSNI)
	}
	if ss.ServerName != res.wireSNI {
		c.Fail("state/ServerName/"+name, "server ConnectionState.ServerName is not the SNI on the wire", in, ss.ServerName, res.wireSNI)
	}
	if r.resume && cs.DidResume {
		c.Count("resumed/" + r.variant)
	}
	okEKM := 0
	for i := range ts {
		a, b := res.client.ekm[i], res.server.ekm[i]
		if res.client.renego {
			// documented refusal (renegotiation enabled by the parrot's renegotiation_info extension): no bytes to compare
			// through the application's view; the keys themselves are compared through ekmKeys
			if a.Err == "" {
				c.Fail("ekm/"+name, "ExportKeyingMaterial succeeded although renegotiation is enabled", in, vh.Hex(a.Data), "refusal")
			}
			a = res.client.ekmKeys[i]
		}
		if a.Err != b.Err || !bytes.Equal(a.Data, b.Data) {
			c.Fail("ekm/"+name, "ExportKeyingMaterial differs between client and server", map[string]any{"parrot": name, "variant": r.variant,
				"label": ts[i].Label, "context": vh.Hex(ts[i].Context), "context_nil": ts[i].Context == nil, "length": ts[i].Length},
				a.Err+vh.Hex(a.Data), b.Err+vh.Hex(b.Data))
		} else if a.Err == "" {
			if len(a.Data) != ts[i].Length {
				c.Fail("ekm/"+name, "ExportKeyingMaterial returned the wrong length", in, len(a.Data), ts[i].Length)
			}
			okEKM++
		}
	}
	if res.client.renego {
		c.Count("ekm-client-api-refuses-renegotiation-enabled")
	}
	if okEKM > 0 {
		c.Count("ekm-compared")
	} else {
		c.Count("ekm-unavailable-both-sides") // TLS 1.2 without extended_master_secret: both ends refuse
	}

	// ---- model: server name (the server-name variants and the two plain rows; the other rows repeat the plain name) ----
	key := name + "/" + r.variant
	if r.sni != "" || r.variant == "tls13" || r.variant == "tls12" {
		c.Case("name", fmt.Sprintf("(CName %s %s %s %s)", vh.Str(res.cfgName), res.sniItems, vh.Str(cs.ServerName), vh.Str(ss.ServerName)),
			key, r.sni != "" || res.hasSNI, map[string]any{"in": in, "client": cs.ServerName, "server": ss.ServerName, "wire": res.wireSNI})
	}
	if r.sni != "" {
		return // the negotiated parameters of these rows are those of the plain rows
	}

	// ---- model: negotiated parameters ----
	obs := func(s tls.ConnectionState, curve uint16) string {
		return fmt.Sprintf("(mkObsState %d %d %d %s %s)", s.Version, s.CipherSuite, curve, vh.Str(s.NegotiatedProtocol), vh.Bool(s.DidResume))
	}
	hr := &hs.Result{View: res.view, KeyShareKeys: res.keys, HasCompressCertExt: res.ccExt}
	view := hs.ViewTerm(hr)
	sample := map[string]any{"in": in, "version": cs.Version, "suite": cs.CipherSuite, "curve": res.client.curve, "alpn": cs.NegotiatedProtocol, "resumed": cs.DidResume}
	if cs.Version != tls.VersionTLS13 && (cs.DidResume || ss.DidResume) {
		// TLS <= 1.2 resumption: Transcript.client_resume12 on the abbreviated ServerHello and the session cached by the first connection
		sh2, sh1 := lastServerHello(res.serverMsg), (*srvHello)(nil)
		if res.first != nil {
			sh1 = lastServerHello(res.first.serverMsg)
		}
		if sh1 == nil || sh2 == nil {
			c.Count("flight-not-parsed")
			return
		}
		fs := res.first.client.state
		c.Case("resume12", fmt.Sprintf("(CResume12 %s %d %d %s %s %s %s %s)", view, fs.Version, fs.CipherSuite, vh.Bool(sh1.ems), vh.Bool(sh2.ems),
			helloTerm(sh2), obs(cs, res.client.curve), obs(ss, res.server.curve)), key, true, sample)
		return
	}
	fl, ok := flightTerm(res, ss, r.scripted == "ccert")
	if !ok {
		c.Count("flight-not-parsed")
		return
	}
	if res.view.PSKIdentities > 0 && res.first != nil {
		view = strings.TrimSuffix(view, " 0)") + fmt.Sprintf(" %d)", res.first.client.state.CipherSuite)
	}
	c.Case("state", fmt.Sprintf("(CState %s %s %s %s %s %s)", vh.Bool(treeFixed()), view, res.shape, fl, obs(cs, res.client.curve), obs(ss, res.server.curve)), key, true, sample)
}

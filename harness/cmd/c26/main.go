// c26: schedule-perturbed concurrent use of one UConn against a loopback TLS server: N Handshake/HandshakeContext
// callers, one reader, one writer, Close/CloseWrite and context cancellation at random points (also after return).
// Suite "C26" emits the observed outcomes as Coq cases (Model/HsLock.v must allow them); suite "C26race" is the
// same workload built with -race by the driver (any DATA RACE report is a violation).
package main

import (
	"context"
	"crypto/tls"
	"errors"
	"fmt"
	"io"
	"math/rand"
	"net"
	"sync"
	"sync/atomic"
	"time"

	utls "github.com/refraction-networking/utls"

	"verif/harness/vh"
)

func main() {
	vh.Main(map[string]vh.Suite{"C26": {Corr: "Corr.C26Corr", Run: run}, "C26race": {Corr: "Corr.C26Corr", Run: run}})
}

const (
	ioDeadline          = 1500 * time.Millisecond
	speaksFirstDeadline = 3500 * time.Millisecond
	watchdog            = 5 * time.Second
	queuedWatchdog      = 3 * time.Second
)

// queuedCancel: the peer accepts the connection and then stays silent; there is no I/O deadline. One caller with the
// background context owns the handshake and blocks reading the ServerHello; the other callers queue on handshakeMutex
// and have their contexts cancelled. Only a cancellation can end this: it must close the connection (which ends the
// owner's I/O), every call must return, and the caller that was cancelled first must report its context error.
func queuedCancel(c *vh.Ctx, p plan) {
	key := p.key()
	ln, err := net.Listen("tcp", "127.0.0.1:0")
	if err != nil {
		c.Count("listen-failed")
		return
	}
	defer ln.Close()
	srvDone := make(chan struct{})
	go func() { // silent peer: never reads, never writes
		raw, err := ln.Accept()
		if err != nil {
			return
		}
		<-srvDone
		raw.Close()
	}()
	defer close(srvDone)
	raw, err := net.Dial("tcp", ln.Addr().String())
	if err != nil {
		c.Count("dial-failed")
		return
	}
	rc := newRecConn(raw)
	var id utls.ClientHelloID
	for _, x := range ids {
		if x.name == p.ID {
			id = x.id
		}
	}
	uc := utls.UClient(rc, &utls.Config{ServerName: "example.com", InsecureSkipVerify: true}, id)
	start := time.Now()
	at := func(us int) {
		if d := time.Duration(us)*time.Microsecond - time.Since(start); d > 0 {
			time.Sleep(d)
		}
	}
	var wg sync.WaitGroup
	type res struct {
		err       error
		returned  atomic.Bool
		cancelled atomic.Bool
	}
	owner := &res{}
	outs := make([]*res, len(p.Callers))
	wg.Add(1)
	go func() { defer wg.Done(); owner.err = uc.Handshake(); owner.returned.Store(true) }()
	for k, cp := range p.Callers {
		k, cp := k, cp
		outs[k] = &res{}
		ctx := context.Background()
		if cp.Cancellable {
			var cancel context.CancelFunc
			ctx, cancel = context.WithCancel(ctx)
			wg.Add(1)
			go func() { defer wg.Done(); at(cp.CancelAt); outs[k].cancelled.Store(true); cancel() }()
		}
		wg.Add(1)
		go func() {
			defer wg.Done()
			at(cp.StartDelay)
			outs[k].err = uc.HandshakeContext(ctx)
			outs[k].returned.Store(true)
		}()
	}
	fin := make(chan struct{})
	go func() { wg.Wait(); close(fin) }()
	select {
	case <-fin:
	case <-time.After(queuedWatchdog):
		var stuck []string
		if !owner.returned.Load() {
			stuck = append(stuck, "owner")
		}
		for k, o := range outs {
			if !o.returned.Load() {
				stuck = append(stuck, fmt.Sprintf("caller %d (cancelled=%v)", k, o.cancelled.Load()))
			}
		}
		c.Fail("deadlock/"+key, fmt.Sprintf("silent peer, no I/O deadline: after the queued callers' contexts were cancelled these calls were still blocked after %v", queuedWatchdog),
			p, fmt.Sprintf("blocked: %v; transport closed=%v", stuck, rc.closed.Load()), "cancellation closes the connection and every call returns")
		rc.Close()
		return
	}
	c.Count("kind:queued-cancel")
	closed := rc.closed.Load()
	var items []string
	nctx := 0
	for k, o := range outs {
		class := "RHsErr"
		switch {
		case o.err == nil:
			class = "RNil"
			c.Fail("nil-incomplete/"+key, "a caller returned nil against a peer that never answered", p, fmt.Sprintf("caller %d", k), "an error")
		case errors.Is(o.err, context.Canceled):
			class = "RCtx"
			if !closed || !o.cancelled.Load() {
				c.Fail("ctx-error/"+key, "context error without cancellation or without the connection having been closed", p, fmt.Sprintf("caller %d closed=%v", k, closed), "closed and cancelled")
			}
		}
		if class == "RCtx" {
			nctx++
		}
		items = append(items, fmt.Sprintf("(%s, %s)", class, vh.Bool(o.cancelled.Load())))
	}
	// only a cancellation can have ended this handshake: the caller whose interrupter closed the connection reports
	// its context error (C26_interrupted_iff_ctx_error)
	if nctx == 0 {
		c.Fail("closed-without-ctx-error/"+key, "every call returned, so some caller's cancellation closed the connection, but no caller reported its context error",
			p, fmt.Sprintf("closed=%v results=%v", closed, items), "the interrupting caller returns ctx.Err()")
	}
	if owner.err == nil {
		c.Fail("nil-incomplete/"+key, "the owner returned nil against a peer that never answered", p, "owner", "an error")
	}
	items = append(items, "(RHsErr, false)")
	c.OracleCase("outcome", fmt.Sprintf("COutcome false true %s false %s", vh.Bool(closed), vh.List(items)),
		"outcome/"+key, "the callers' results are not an outcome the lock model allows", p, len(outs) > 1)
	rc.Close()
}

// cancelAtIO: one HandshakeContext caller whose context is cancelled at a chosen point of the transcript. Nobody else
// can close the transport, so at return: nil => the transport was not closed (the interrupter did not act) and the
// connection works; transport closed (by the interrupter) => the caller gets its context error; context error =>
// the transport is closed.
func cancelAtIO(c *vh.Ctx, p plan, uc *utls.UConn, rc *recConn) {
	key := fmt.Sprintf("cancel-at-io/%s/w%d/r%d/%s", p.ID, p.AtWrite, p.AtRead, map[bool]string{true: "wait", false: "nowait"}[p.WaitClose])
	ctx, cancel := context.WithCancel(context.Background())
	defer cancel()
	rc.atWrite, rc.atRead, rc.waitClose, rc.inject = p.AtWrite, p.AtRead, p.WaitClose, cancel
	done := make(chan error, 1)
	go func() { done <- uc.HandshakeContext(ctx) }()
	var err error
	select {
	case err = <-done:
	case <-time.After(watchdog):
		c.Fail("deadlock/"+key, "HandshakeContext did not return", p, "blocked", "returns")
		rc.Close()
		return
	}
	closed := rc.closed.Load()
	fired := rc.fired.Load()
	complete := uc.ConnectionState().HandshakeComplete
	isCtx := errors.Is(err, context.Canceled)
	got := fmt.Sprintf("err=%v transport-closed=%v ctx-cancelled=%v complete=%v writes=%d reads=%d", err, closed, fired, complete, rc.writes.Load(), rc.reads.Load())
	class := "RHsErr"
	switch {
	case err == nil:
		class = "RNil"
		if closed {
			c.Fail("nil-but-closed/"+key, "HandshakeContext returned nil although the cancellation of its context has closed the connection", p, got,
				"its context error (the connection is closed), or nil with an untouched connection")
		} else {
			uc.SetDeadline(time.Now().Add(ioDeadline))
			buf := make([]byte, 5)
			if _, e := io.ReadFull(uc, buf); e != nil {
				c.Fail("nil-but-unusable/"+key, "HandshakeContext returned nil but the connection does not work", p, got+" read: "+e.Error(), "greeting readable")
			} else if _, e := uc.Write([]byte("ping")); e != nil {
				c.Fail("nil-but-unusable/"+key, "HandshakeContext returned nil but the connection does not work", p, got+" write: "+e.Error(), "Write works")
			}
		}
		if !complete {
			c.Fail("nil-incomplete/"+key, "HandshakeContext returned nil but the handshake is not complete", p, got, "nil iff complete")
		}
	case isCtx:
		class = "RCtx"
		if !closed || !fired {
			c.Fail("ctx-error/"+key, "context error returned without the context having been cancelled or without the connection having been closed", p, got, "closed and cancelled")
		}
	default:
		if closed && fired {
			c.Fail("closed-not-ctx-error/"+key, "the caller's context was cancelled and that closed the connection, but HandshakeContext returned a different error", p, got, "ctx.Err()")
		}
		if complete {
			c.Fail("error-complete/"+key, "a handshake error was returned although the handshake completed", p, got, "shared outcome")
		}
	}
	c.Count("kind:cancel-at-io")
	if fired {
		c.Count("cancel-at-io:fired")
	}
	// the interrupter acted iff the transport is closed (nobody else closes it in this scenario)
	c.OracleCase("interrupt", fmt.Sprintf("CInterrupt %s %s %s %s", class, vh.Bool(closed), vh.Bool(fired), vh.Bool(complete)),
		"interrupt/"+key, "result and interrupter action are not a combination the lock model allows", p, fired)
	rc.Close()
}

// stalledWriteClose: handshake, then the peer stops reading; one Write parks in the transport with no write
// deadline; Close must still return (it sees the Write in flight and closes the transport, which ends the Write).
func stalledWriteClose(c *vh.Ctx, p plan, uc *utls.UConn, rc *recConn) {
	key := p.key()
	if err := uc.Handshake(); err != nil {
		c.Count("stalled-write-close:handshake-failed")
		rc.Close()
		return
	}
	uc.SetDeadline(time.Time{}) // no deadline: only Close can end the Write
	rc.stall.Store(true)
	wdone := make(chan error, 1)
	cdone := make(chan error, 1)
	go func() { _, err := uc.Write(make([]byte, 1<<16)); wdone <- err }()
	select {
	case <-rc.blocked:
	case <-time.After(watchdog):
		c.Fail("stalled-write-not-reached/"+key, "the Write never reached the transport", p, "blocked", "transport write")
		rc.Close()
		return
	}
	time.Sleep(time.Duration(p.CloseDelay) * time.Microsecond)
	go func() { cdone <- uc.Close() }()
	var werr error
	wret, cret := false, false
	timeout := time.After(watchdog)
	for !(wret && cret) {
		select {
		case werr = <-wdone:
			wret = true
		case <-cdone:
			cret = true
		case <-timeout:
			c.Fail("deadlock/"+key, fmt.Sprintf("Close during a Write that is blocked on a stalled peer: Write returned=%v Close returned=%v after %v", wret, cret, watchdog),
				p, "blocked", "Close closes the transport and both calls return")
			rc.Close()
			return
		}
	}
	if werr == nil {
		c.Fail("stalled-write-succeeded/"+key, "a Write whose transport write never completed returned nil", p, "nil", "error")
	}
	c.Count("stalled-write-close")
	c.OracleCase("wrclose", fmt.Sprintf("CWrClose true %s true", vh.Bool(werr == nil)), "wrclose/"+key,
		"Write/Close outcome not allowed by the interlock model", p, true)
}

// recConn records whether Close was called on the transport and can play a peer that has stopped reading:
// with stall set, Write blocks (like a full TCP window without a write deadline) until the transport is closed.
type recConn struct {
	net.Conn
	closed    atomic.Bool
	stall     atomic.Bool
	blocked   chan struct{} // closed when a Write has parked
	closedCh  chan struct{}
	blockOnce sync.Once
	closeOnce sync.Once
	// injection at the k-th transport write / read (1-based; 0 = never)
	writes, reads   atomic.Int32
	atWrite, atRead int
	inject          func()
	waitClose       bool
	fired           atomic.Bool
}

func newRecConn(c net.Conn) *recConn {
	return &recConn{Conn: c, blocked: make(chan struct{}), closedCh: make(chan struct{})}
}

func (r *recConn) Close() error {
	r.closed.Store(true)
	r.closeOnce.Do(func() { close(r.closedCh) })
	return r.Conn.Close()
}

func (r *recConn) Write(b []byte) (int, error) {
	if r.stall.Load() {
		r.blockOnce.Do(func() { close(r.blocked) })
		<-r.closedCh
		return 0, net.ErrClosed
	}
	n, err := r.Conn.Write(b)
	if k := r.writes.Add(1); r.inject != nil && int(k) == r.atWrite {
		r.fire()
	}
	return n, err
}

func (r *recConn) Read(b []byte) (int, error) {
	n, err := r.Conn.Read(b)
	if k := r.reads.Add(1); r.inject != nil && int(k) == r.atRead {
		r.fire()
	}
	return n, err
}

// fire runs the injected action (cancelling a context) at the chosen point of the transcript; with waitClose it then
// waits, bounded, until the transport has been closed, so that the interrupter has certainly acted before the
// handshake goes on
func (r *recConn) fire() {
	r.fired.Store(true)
	r.inject()
	if r.waitClose {
		select {
		case <-r.closedCh:
		case <-time.After(200 * time.Millisecond):
		}
	}
}

var ids = []struct {
	name string
	id   utls.ClientHelloID
}{
	{"Golang", utls.HelloGolang}, {"Chrome_120", utls.HelloChrome_120}, {"Firefox_120", utls.HelloFirefox_120}, {"Chrome_133", utls.HelloChrome_133},
}

type callerPlan struct {
	Cancellable bool `json:"cancellable"`
	StartDelay  int  `json:"start_delay_us"`
	CancelAt    int  `json:"cancel_at_us"` // -1: never; measured from run start
	Late        bool `json:"cancel_after_return"`
	PreCancel   string `json:"ctx_done_at_call"` // "" | cancelled | expired | timeout (ctx already done, or done within microseconds, when the call is made)
	TimeoutUs   int    `json:"timeout_us"`
}

type plan struct {
	Kind      string       `json:"kind"` // mixed | stalled-write-close | implicit-speaks-first
	ID        string       `json:"id"`
	Server    string       `json:"server"` // normal | slow | abort | wait-first (no greeting: the client speaks first)
	CloseDelay int         `json:"close_delay_us"`
	HandshakeFirst bool    `json:"handshake_first"` // the handshake is completed before the callers start
	RenegDelay int         `json:"hello_request_delay_us"`
	Spinners   int         `json:"spinning_callers"`
	AtWrite    int         `json:"cancel_at_write"` // cancel the caller's ctx right after the k-th transport write (0 = no)
	AtRead     int         `json:"cancel_at_read"`  // ... right after the k-th transport read
	WaitClose  bool        `json:"wait_for_close"`
	Callers   []callerPlan `json:"callers"`
	Reader    bool         `json:"reader"`
	Writer    bool         `json:"writer"`
	CloseAt   int          `json:"close_at_us"` // -1: only at the end
	CloseKind string       `json:"close_kind"`  // Close | CloseWrite
	ReaderDelay int        `json:"reader_delay_us"`
	WriterDelay int        `json:"writer_delay_us"`
	ServerDelay int        `json:"server_delay_us"`
	Seed      int64        `json:"seed"`
	Run       int          `json:"run"`
}

func mkPlan(r *rand.Rand, seed int64, i int) plan {
	p := plan{Kind: "mixed", ID: ids[r.Intn(len(ids))].name, Seed: seed, Run: i, CloseAt: -1, CloseKind: "Close"}
	switch i % 7 {
	case 1:
		// contexts that are already done (or done within microseconds) when HandshakeContext is called, before
		// and after the handshake has completed
		p.Kind, p.Server = "ctx-done-at-call", "normal"
		p.HandshakeFirst = r.Intn(3) == 0
		for k := 1 + r.Intn(3); k > 0; k-- {
			cp := callerPlan{Cancellable: true, StartDelay: r.Intn(100), CancelAt: -1}
			switch r.Intn(4) {
			case 0:
				cp.PreCancel = "expired"
			case 1:
				cp.PreCancel, cp.TimeoutUs = "timeout", 1+r.Intn(60)
			default:
				cp.PreCancel = "cancelled"
			}
			p.Callers = append(p.Callers, cp)
		}
		if r.Intn(2) == 0 {
			p.Callers = append(p.Callers, callerPlan{StartDelay: r.Intn(200), CancelAt: -1})
		}
		return p
	case 6:
		// the caller's ctx is cancelled at a chosen index of the handshake transcript: right after the k-th
		// transport write (up to and including the last one) or the k-th transport read
		p.Kind, p.Server = "cancel-at-io", "normal"
		// (a TLS 1.3 client handshake is 2-3 transport writes and 2-5 reads; larger indexes never fire and are
		// counted as such)
		if r.Intn(2) == 0 {
			p.AtWrite = 1 + r.Intn(3)
		} else {
			p.AtRead = 1 + r.Intn(5)
		}
		p.WaitClose = r.Intn(4) != 0
		return p
	case 2:
		// TLS 1.2 peer that asks for a renegotiation (HelloRequest) while a reader sits in Read and other
		// goroutines keep calling Handshake / HandshakeContext / Write
		p.Kind, p.Server = "renegotiation", "hello-request"
		p.RenegDelay = r.Intn(1500)
		p.Spinners = 2 + r.Intn(3)
		return p
	case 4:
		if (i/7)%2 == 1 {
			// a silent peer and no I/O deadline: the owner of the handshake (background ctx) blocks in I/O, 1..3
			// callers with cancellable contexts queue on handshakeMutex and are cancelled at various times
			p.Kind, p.Server = "queued-cancel", "silent"
			for k := 1 + r.Intn(3); k > 0; k-- {
				sd := 100 + r.Intn(500)
				p.Callers = append(p.Callers, callerPlan{Cancellable: true, StartDelay: sd, CancelAt: sd - 50 + r.Intn(3000)})
			}
			if r.Intn(2) == 0 {
				p.Callers = append(p.Callers, callerPlan{StartDelay: 100 + r.Intn(500), CancelAt: -1})
			}
			return p
		}
	case 3:
		// Close while the single writer is blocked in the transport (peer stopped reading, no write deadline)
		p.Kind, p.Server = "stalled-write-close", "normal"
		p.CloseDelay = r.Intn(600)
		return p
	case 5:
		// no explicit Handshake: Read and Write both start before the handshake and run it implicitly; the
		// server waits for the client's request before it sends anything
		p.Kind, p.Server = "implicit-speaks-first", "wait-first"
		p.Reader, p.Writer = true, true
		p.ReaderDelay, p.WriterDelay = r.Intn(200), r.Intn(200)
		for k := r.Intn(3); k > 0; k-- {
			p.Callers = append(p.Callers, callerPlan{StartDelay: r.Intn(400), CancelAt: -1})
		}
		return p
	}
	switch r.Intn(6) {
	case 0:
		p.Server = "abort"
	case 1, 2:
		p.Server = "slow"
	default:
		p.Server = "normal"
	}
	n := 2 + r.Intn(4)
	for k := 0; k < n; k++ {
		cp := callerPlan{Cancellable: r.Intn(5) < 3, StartDelay: r.Intn(400), CancelAt: -1}
		if cp.Cancellable {
			switch r.Intn(4) {
			case 0: // never cancelled
			case 1:
				cp.Late = true
			default:
				cp.CancelAt = r.Intn(3000)
			}
		}
		p.Callers = append(p.Callers, cp)
	}
	p.Reader = r.Intn(3) != 0
	p.Writer = r.Intn(3) != 0
	p.ReaderDelay, p.WriterDelay, p.ServerDelay = r.Intn(300), r.Intn(300), r.Intn(2000)
	if r.Intn(4) == 0 {
		p.CloseAt = r.Intn(3000)
		if r.Intn(3) == 0 {
			p.CloseKind = "CloseWrite"
		}
	}
	return p
}

func (p plan) key() string {
	late, early := 0, 0
	for _, c := range p.Callers {
		if c.Late {
			late++
		}
		if c.CancelAt >= 0 {
			early++
		}
	}
	if p.Kind == "ctx-done-at-call" {
		return fmt.Sprintf("%s/%s/n%d/%s", p.Kind, p.ID, len(p.Callers), map[bool]string{true: "after-handshake", false: "before-handshake"}[p.HandshakeFirst])
	}
	if p.Kind != "mixed" {
		return fmt.Sprintf("%s/%s/n%d", p.Kind, p.ID, len(p.Callers))
	}
	return fmt.Sprintf("%s/%s/n%d/early%d/late%d/%s", p.ID, p.Server, len(p.Callers), early, late,
		map[bool]string{true: p.CloseKind, false: "noclose"}[p.CloseAt >= 0])
}

type outcome struct {
	class     string // RNil | RHsErr | RCtx
	cancelled bool   // own ctx cancelled (cancel issued) by the time the call returned
	errText   string
}

func serve(ln net.Listener, cfg *tls.Config, mode string, delay time.Duration) {
	c, err := ln.Accept()
	if err != nil {
		return
	}
	defer c.Close()
	c.SetDeadline(time.Now().Add(ioDeadline))
	if mode == "wait-first" {
		c.SetDeadline(time.Now().Add(speaksFirstDeadline))
	}
	if mode == "abort" {
		buf := make([]byte, 64)
		c.Read(buf)
		return
	}
	if mode == "slow" {
		time.Sleep(delay)
	}
	s := tls.Server(c, cfg)
	if err := s.Handshake(); err != nil {
		return
	}
	if mode != "wait-first" {
		s.Write([]byte("hello"))
	}
	buf := make([]byte, 256)
	for {
		n, err := s.Read(buf)
		if err != nil {
			return
		}
		if _, err := s.Write(buf[:n]); err != nil {
			return
		}
	}
}

// renegotiation: a TLS 1.2 server (the package's own, so that the verif hook can make it write a HelloRequest)
// asks for a renegotiation while one goroutine sits in Read and others keep calling Handshake, HandshakeContext and
// Write. Whatever becomes of the renegotiation (this server refuses the new ClientHello), every call must return
// within the I/O deadline.
func renegotiation(c *vh.Ctx, p plan) {
	key := p.key()
	ln, err := net.Listen("tcp", "127.0.0.1:0")
	if err != nil {
		c.Count("listen-failed")
		return
	}
	defer ln.Close()
	go func() {
		raw, err := ln.Accept()
		if err != nil {
			return
		}
		defer raw.Close()
		raw.SetDeadline(time.Now().Add(ioDeadline))
		srv := utls.Server(raw, &utls.Config{Certificates: []utls.Certificate{uCert}, MinVersion: utls.VersionTLS12, MaxVersion: utls.VersionTLS12})
		if err := srv.Handshake(); err != nil {
			return
		}
		if _, err := srv.Write([]byte("hello")); err != nil {
			return
		}
		time.Sleep(time.Duration(p.RenegDelay) * time.Microsecond)
		if err := srv.VerifSendHelloRequest(); err != nil {
			return
		}
		buf := make([]byte, 256)
		for {
			if _, err := srv.Read(buf); err != nil {
				return
			}
		}
	}()
	raw, err := net.Dial("tcp", ln.Addr().String())
	if err != nil {
		c.Count("dial-failed")
		return
	}
	rc := newRecConn(raw)
	var id utls.ClientHelloID
	for _, x := range ids {
		if x.name == p.ID {
			id = x.id
		}
	}
	uc := utls.UClient(rc, &utls.Config{ServerName: "example.com", InsecureSkipVerify: true, Renegotiation: utls.RenegotiateFreelyAsClient}, id)
	uc.SetDeadline(time.Now().Add(ioDeadline))
	if err := uc.Handshake(); err != nil {
		c.Count("reneg:handshake-failed")
		rc.Close()
		return
	}
	if uc.ConnectionState().Version != utls.VersionTLS12 {
		c.Count("reneg:not-tls12")
		rc.Close()
		return
	}
	var wg sync.WaitGroup
	var stop atomic.Bool
	wg.Add(1)
	var panicked atomic.Value
	go func() { // the reader: gets "hello", then the HelloRequest, renegotiates inside Read
		defer wg.Done()
		defer stop.Store(true)
		defer func() {
			if r := recover(); r != nil {
				panicked.Store(fmt.Sprint(r))
			}
		}()
		buf := make([]byte, 64)
		for {
			if _, err := uc.Read(buf); err != nil {
				return
			}
		}
	}()
	var nilRets, errRets atomic.Int64
	for k := 0; k < p.Spinners; k++ {
		k := k
		wg.Add(1)
		go func() {
			defer wg.Done()
			defer func() {
				if r := recover(); r != nil {
					panicked.Store(fmt.Sprint(r))
				}
			}()
			for n := 0; !stop.Load() && n < 2000000; n++ {
				var err error
				switch (k + n) % 3 {
				case 0:
					err = uc.Handshake()
				case 1:
					err = uc.HandshakeContext(context.Background())
				default:
					if n%64 == 0 {
						_, err = uc.Write([]byte("x"))
					} else {
						err = uc.Handshake()
					}
				}
				if err != nil {
					errRets.Add(1)
					return
				}
				nilRets.Add(1)
			}
		}()
	}
	fin := make(chan struct{})
	go func() { wg.Wait(); close(fin) }()
	select {
	case <-fin:
	case <-time.After(watchdog):
		c.Fail("deadlock/"+key, fmt.Sprintf("HelloRequest from a TLS 1.2 peer while other goroutines call Handshake/Write: calls still blocked after %v (I/O deadline %v)", watchdog, ioDeadline),
			p, "blocked", "every call returns within the I/O deadline")
		rc.Close()
		return
	}
	c.Count("kind:renegotiation")
	if v := panicked.Load(); v != nil {
		// a panic is not a return: reported per ClientHelloID (the key carries nothing random)
		c.Fail("panic/renegotiation/"+p.ID, "Read (or a concurrent Handshake) panicked while handling a HelloRequest from a TLS 1.2 peer (Config.Renegotiation allows renegotiation)",
			p, v, "Read returns (nil or an error)")
		rc.Close()
		return
	}
	complete := uc.ConnectionState().HandshakeComplete
	// callers' results: nil while the connection was complete (or being renegotiated), the stored error afterwards
	var items []string
	if nilRets.Load() > 0 {
		items = append(items, "(RNil, false)")
	}
	if errRets.Load() > 0 {
		items = append(items, "(RHsErr, false)")
	}
	c.OracleCase("outcome", fmt.Sprintf("COutcome %s %s %s true %s", vh.Bool(complete), vh.Bool(!complete), vh.Bool(rc.closed.Load()), vh.List(items)),
		"outcome/"+key, "the callers' results are not an outcome the lock model allows", p, true)
	uc.Close()
}

func runPlan(c *vh.Ctx, p plan, scfg *tls.Config) {
	if p.Kind == "renegotiation" {
		renegotiation(c, p)
		return
	}
	if p.Kind == "queued-cancel" {
		queuedCancel(c, p)
		return
	}
	ln, err := net.Listen("tcp", "127.0.0.1:0")
	if err != nil {
		c.Count("listen-failed")
		return
	}
	defer ln.Close()
	go serve(ln, scfg, p.Server, time.Duration(p.ServerDelay)*time.Microsecond)
	raw, err := net.Dial("tcp", ln.Addr().String())
	if err != nil {
		c.Count("dial-failed")
		return
	}
	rc := newRecConn(raw)
	var id utls.ClientHelloID
	for _, x := range ids {
		if x.name == p.ID {
			id = x.id
		}
	}
	uc := utls.UClient(rc, &utls.Config{ServerName: "example.com", InsecureSkipVerify: true}, id)
	uc.SetDeadline(time.Now().Add(ioDeadline))
	if p.Kind == "stalled-write-close" {
		stalledWriteClose(c, p, uc, rc)
		return
	}
	if p.Kind == "cancel-at-io" {
		cancelAtIO(c, p, uc, rc)
		return
	}
	if p.HandshakeFirst {
		if err := uc.Handshake(); err != nil {
			c.Count("handshake-first-failed")
			rc.Close()
			return
		}
	}
	if p.Kind == "implicit-speaks-first" {
		// generous deadline: a working connection answers within milliseconds, a reader parked on the input lock
		// that the writer needs returns only when this deadline expires
		uc.SetDeadline(time.Now().Add(speaksFirstDeadline))
	}

	start := time.Now()
	at := func(us int) { // sleep until us microseconds after start
		if d := time.Duration(us)*time.Microsecond - time.Since(start); d > 0 {
			time.Sleep(d)
		}
	}
	var wg sync.WaitGroup
	outs := make([]outcome, len(p.Callers))
	cancels := make([]context.CancelFunc, len(p.Callers))
	issued := make([]atomic.Bool, len(p.Callers))
	for k, cp := range p.Callers {
		k, cp := k, cp
		ctx := context.Background()
		if cp.Cancellable {
			var cancel context.CancelFunc
			switch cp.PreCancel {
			case "cancelled":
				ctx, cancel = context.WithCancel(ctx)
				cancel()
			case "expired":
				ctx, cancel = context.WithDeadline(ctx, time.Now().Add(-time.Second))
			case "timeout":
				ctx, cancel = context.WithTimeout(ctx, time.Duration(cp.TimeoutUs)*time.Microsecond)
			default:
				ctx, cancel = context.WithCancel(ctx)
			}
			cancels[k] = cancel
			if cp.CancelAt >= 0 {
				wg.Add(1)
				go func() { defer wg.Done(); at(cp.CancelAt); issued[k].Store(true); cancel() }()
			}
		}
		wg.Add(1)
		go func() {
			defer wg.Done()
			at(cp.StartDelay)
			var err error
			if cp.Cancellable {
				err = uc.HandshakeContext(ctx)
			} else {
				err = uc.Handshake()
			}
			o := outcome{cancelled: issued[k].Load() || ctx.Err() != nil}
			switch {
			case err == nil:
				o.class = "RNil"
			case errors.Is(err, context.Canceled) || errors.Is(err, context.DeadlineExceeded):
				o.class, o.errText = "RCtx", err.Error()
			default:
				o.class, o.errText = "RHsErr", err.Error()
			}
			outs[k] = o
		}()
	}
	var readErr, writeErr error
	if p.Reader {
		wg.Add(1)
		go func() {
			defer wg.Done()
			time.Sleep(time.Duration(p.ReaderDelay) * time.Microsecond)
			buf := make([]byte, 5)
			if p.Kind == "implicit-speaks-first" {
				buf = make([]byte, 4) // the echo of the writer's "ping"
			}
			_, readErr = io.ReadFull(uc, buf)
		}()
	}
	if p.Writer {
		wg.Add(1)
		go func() {
			defer wg.Done()
			time.Sleep(time.Duration(p.WriterDelay) * time.Microsecond)
			_, writeErr = uc.Write([]byte("ping"))
		}()
	}
	if p.CloseAt >= 0 {
		wg.Add(1)
		go func() {
			defer wg.Done()
			at(p.CloseAt)
			if p.CloseKind == "CloseWrite" {
				uc.CloseWrite()
			} else {
				uc.Close()
			}
		}()
	}
	fin := make(chan struct{})
	go func() { wg.Wait(); close(fin) }()
	key := p.key()
	select {
	case <-fin:
	case <-time.After(watchdog):
		c.Fail("deadlock/"+key, fmt.Sprintf("a call on the UConn did not return within %v although every I/O has a %v deadline", watchdog, ioDeadline),
			p, "blocked", "all calls return")
		rc.Close()
		return
	}
	if p.Kind == "implicit-speaks-first" {
		// nothing was cancelled or closed and the server answers every request: the reply must arrive
		if readErr != nil || writeErr != nil {
			c.Fail("implicit-stall/"+key, "Read and Write started before the handshake (implicit handshakes) against a server that waits for the client's "+
				"request: the request/reply exchange did not happen", p, fmt.Sprintf("read err=%v write err=%v", readErr, writeErr), "reader receives the echo of the writer's request")
		}
		c.Count("implicit-speaks-first")
	}
	// cancel after return: must not touch the connection
	lateOnly := p.CloseAt < 0 && p.Server == "normal"
	for k, cp := range p.Callers {
		if cp.CancelAt >= 0 {
			lateOnly = false
		}
		if cp.Late {
			cancels[k]()
		}
	}
	time.Sleep(200 * time.Microsecond)
	complete := uc.ConnectionState().HandshakeComplete
	closed := rc.closed.Load()
	anyLate := false
	for _, cp := range p.Callers {
		anyLate = anyLate || cp.Late || (p.HandshakeFirst && cp.PreCancel != "")
	}
	if lateOnly && anyLate {
		if closed {
			c.Fail("late-cancel-closed/"+key, "cancelling a context after its HandshakeContext call returned closed the connection", p, "closed", "untouched")
		} else if complete {
			uc.SetDeadline(time.Now().Add(ioDeadline))
			if p.Reader == false {
				buf := make([]byte, 5)
				io.ReadFull(uc, buf) // greeting
			}
			if _, err := uc.Write([]byte("late?")); err != nil {
				c.Fail("late-cancel-broken/"+key, "the connection is unusable after a late cancellation", p, err.Error(), "echo works")
			} else {
				buf := make([]byte, 5)
				want := "late?"
				if p.Writer && writeErr == nil {
					buf = make([]byte, 9) // the writer's "ping" was echoed before ours
					want = "pinglate?"
				}
				if _, err := io.ReadFull(uc, buf); err != nil || string(buf) != want {
					c.Fail("late-cancel-broken/"+key, "the connection is unusable after a late cancellation", p, fmt.Sprint(err, " ", string(buf)), "echo works")
				}
			}
		}
		c.Count("late-cancel-checked")
	}
	// property oracle on the Go side
	var items []string
	for k, o := range outs {
		switch o.class {
		case "RNil":
			if !complete {
				c.Fail("nil-incomplete/"+key, "a Handshake caller returned nil but the handshake is not complete", p, fmt.Sprintf("caller %d: nil, complete=false", k), "nil iff complete")
			}
		case "RCtx":
			if !closed || !o.cancelled {
				c.Fail("ctx-error/"+key, "a caller returned a context error without its context having been cancelled, or without the connection having been closed",
					p, fmt.Sprintf("caller %d: %s closed=%v own-ctx-cancelled=%v", k, o.errText, closed, o.cancelled), "closed and cancelled")
			}
		case "RHsErr":
			if complete {
				c.Fail("error-complete/"+key, "a caller returned a handshake error although the handshake completed", p,
					fmt.Sprintf("caller %d: %s", k, o.errText), "shared outcome")
			}
		}
		items = append(items, fmt.Sprintf("(%s, %s)", o.class, vh.Bool(o.cancelled)))
	}
	// all non-context errors are the one stored error: identical text
	first := ""
	for k, o := range outs {
		if o.class == "RHsErr" {
			if first == "" {
				first = o.errText
			} else if o.errText != first {
				c.Fail("outcome-differs/"+key, "two callers returned different handshake errors", p, fmt.Sprintf("caller %d: %q vs %q", k, o.errText, first), "one shared error")
			}
		}
	}
	c.Count("server:" + p.Server)
	if complete {
		c.Count("completed")
	}
	if p.HandshakeFirst {
		for k, o := range outs {
			if o.class != "RNil" {
				c.Fail("after-complete-not-nil/"+key, "HandshakeContext on a connection whose handshake had completed did not return nil", p,
					fmt.Sprintf("caller %d: %s", k, o.errText), "nil (and the connection untouched)")
			}
		}
	}
	c.Count("kind:" + p.Kind)
	c.OracleCase("outcome", fmt.Sprintf("COutcome %s %s %s false %s", vh.Bool(complete), vh.Bool(!complete), vh.Bool(closed), vh.List(items)),
		"outcome/"+key, "the callers' results are not an outcome the lock model allows", p, len(outs) > 2)
	uc.Close()
}

var uCert utls.Certificate

func run(c *vh.Ctx) {
	pki := vh.NewTestPKI("example.com")
	uCert = utls.Certificate{Certificate: [][]byte{pki.LeafDER}, PrivateKey: pki.LeafKey}
	cert := tls.Certificate{Certificate: [][]byte{pki.LeafDER}, PrivateKey: pki.LeafKey}
	scfg := &tls.Config{Certificates: []tls.Certificate{cert}, MinVersion: tls.VersionTLS12}
	const par = 8
	sem := make(chan struct{}, par)
	var wg sync.WaitGroup
	for i := 0; i < c.N; i++ {
		r := vh.NewRand(c.Seed*7919 + int64(i))
		p := mkPlan(r, c.Seed, i)
		sem <- struct{}{}
		wg.Add(1)
		go func() {
			defer wg.Done()
			defer func() { <-sem }()
			runPlan(c, p, scfg)
		}()
	}
	wg.Wait()
	c.Extra["runs"] = c.N
}

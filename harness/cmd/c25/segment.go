// Transport segmentation x application read sizes: data record(s) followed directly by close_notify, delivered
// by the transport coalesced in one read, split at arbitrary points, byte by byte or at record boundaries,
// and read by the application with buffers of 1 byte, a few bytes, less than a record, more than a record.
// Readers: Conn.Read and UConn.Read. Oracle (property text): exactly the bytes sent, then io.EOF; no other
// error on an untampered stream.
package main

import (
	"bytes"
	"fmt"
	"io"
	"math/rand"
	"net"
	"sync"
	"time"

	tls "github.com/refraction-networking/utls"

	"verif/harness/vh"
)

// segConn: pass-through until armed; then it first drains the underlying connection to EOF and serves those
// bytes in the chosen segmentation.
type segConn struct {
	net.Conn
	mu     sync.Mutex
	armed  bool
	loaded bool
	data   []byte
	plan   string
	rng    *rand.Rand
}

func nextSeg(plan string, rng *rand.Rand, data []byte) int {
	switch plan {
	case "coalesced":
		return len(data)
	case "bytewise":
		return 1
	case "records":
		if len(data) >= 5 {
			n := 5 + (int(data[3])<<8 | int(data[4]))
			if n <= len(data) {
				return n
			}
		}
		return len(data)
	default: // "random"
		return 1 + rng.Intn(len(data))
	}
}

func (s *segConn) Read(b []byte) (int, error) {
	s.mu.Lock()
	if !s.armed {
		s.mu.Unlock()
		return s.Conn.Read(b)
	}
	defer s.mu.Unlock()
	if !s.loaded {
		s.Conn.SetReadDeadline(time.Now().Add(10 * time.Second))
		s.data, _ = io.ReadAll(s.Conn)
		s.loaded = true
	}
	if len(s.data) == 0 {
		return 0, io.EOF
	}
	n := nextSeg(s.plan, s.rng, s.data)
	if n > len(b) {
		n = len(b)
	}
	copy(b, s.data[:n])
	s.data = s.data[n:]
	return n, nil
}

func (s *segConn) arm(plan string, rng *rand.Rand) {
	s.mu.Lock()
	s.armed, s.plan, s.rng = true, plan, rng
	s.mu.Unlock()
}

// planConn: a memConn-like transport that serves a fixed wire in the chosen segmentation.
type planConn struct {
	memConn
	data []byte
	plan string
	rng  *rand.Rand
}

func (p *planConn) Read(b []byte) (int, error) {
	if len(p.data) == 0 {
		return 0, io.EOF
	}
	n := nextSeg(p.plan, p.rng, p.data)
	if n > len(b) {
		n = len(b)
	}
	copy(b, p.data[:n])
	p.data = p.data[n:]
	return n, nil
}

var segPlans = []string{"coalesced", "random", "bytewise", "records"}
var readStyles = []string{"1", "small", "below-record", "above-record", "mixed"}

func readStyleSize(style string, rng *rand.Rand, rec int) int {
	switch style {
	case "1":
		return 1
	case "small":
		return 2 + rng.Intn(9)
	case "below-record":
		if rec > 2 {
			return 1 + rng.Intn(rec-1)
		}
		return 1
	case "above-record":
		return rec + 1 + rng.Intn(4096)
	}
	return readStyleSize(readStyles[rng.Intn(4)], rng, rec)
}

type reader interface{ Read([]byte) (int, error) }

func readToEOF(r reader, style string, rng *rand.Rand, rec int) (got []byte, err error, panicked bool, pval any) {
	panicked, pval = vh.Recover(func() {
		for {
			buf := make([]byte, readStyleSize(style, rng, rec))
			n, e := r.Read(buf)
			got = append(got, buf[:n]...)
			if e != nil {
				err = e
				return
			}
			if len(got) > 1<<20 {
				err = fmt.Errorf("runaway read")
				return
			}
		}
	})
	return
}

func segVerdict(c *vh.Ctx, key string, in map[string]any, want, got []byte, err error, pan bool, pv any) {
	if pan {
		c.Fail("c25-panic/"+key, "Read panicked", in, fmt.Sprint(pv), "data, then EOF")
	} else if !bytes.Equal(got, want) || err != io.EOF {
		c.Fail("c25-segmentation/"+key, "data record(s) followed by close_notify are not read as exactly the bytes sent, then EOF", in,
			fmt.Sprintf("%d of %d bytes, then %v", len(got), len(want), err), "all bytes, then io.EOF")
	}
	c.Count("segmentation_experiments")
}

// forgedSegmentation: TLS 1.0-1.2, every (kind, MAC size, version) (quick) or every suite (thorough).
func forgedSegmentation(c *vh.Ctx) {
	seen := map[string]bool{}
	for _, r := range tls.VerifCipherSuiteTable() {
		for _, v := range []uint16{tls.VersionTLS10, tls.VersionTLS11, tls.VersionTLS12} {
			if r.Flags&tls.VerifSuiteTLS12 != 0 && v != tls.VersionTLS12 {
				continue
			}
			kk := fmt.Sprintf("%d-%d/%04x", r.Kind, r.MacSize, v)
			if c.Tier == "quick" && seen[kk] {
				continue
			}
			seen[kk] = true
			s := newSecrets(c.Rng)
			smc := &memConn{}
			srv := forge(smc, v, r.ID, s, false)
			if srv == nil {
				continue
			}
			var want []byte
			last := 1
			for i, k := 0, 1+c.Rng.Intn(3); i < k; i++ {
				last = 1 + c.Rng.Intn(300)
				d := make([]byte, last)
				c.Rng.Read(d)
				want = append(want, d...)
				srv.Write(d)
			}
			srv.Close() // close_notify right behind the last data record
			wire := append([]byte(nil), smc.w.Bytes()...)
			for _, plan := range segPlans {
				for _, style := range readStyles {
					for _, via := range []string{"Conn.Read", "UConn.Read"} {
						pc := &planConn{data: wire, plan: plan, rng: c.Rng}
						cl := tls.MakeConnWithCompleteHandshake(pc, v, r.ID, s.ms, s.cr, s.sr, true)
						var rd reader = cl
						if via == "UConn.Read" {
							rd = &tls.UConn{Conn: cl}
						}
						got, err, pan, pv := readToEOF(rd, style, c.Rng, last)
						key := fmt.Sprintf("%04x/%04x/%s/transport-%s/app-%s", r.ID, v, via, plan, style)
						in := map[string]any{"suite": fmt.Sprintf("0x%04x", r.ID), "version": fmt.Sprintf("0x%04x", v), "reader": via,
							"transport": plan, "app_reads": style, "last_record_payload": last, "total": len(want)}
						segVerdict(c, key, in, want, got, err, pan, pv)
					}
				}
			}
		}
	}
}

// liveSegmentation: real handshakes (TLS 1.2 and 1.3) with the uTLS server; both directions: the UConn client
// reads what the server wrote before closing (UConn.Read), the server reads the client's (Conn.Read).
func liveSegmentation(c *vh.Ctx, cb combo, certs testCerts) {
	for _, plan := range segPlans {
		for _, style := range readStyles {
			if c.Tier == "quick" && (plan == "records" || style == "mixed") {
				continue
			}
			for _, dir := range []string{"server-to-UConn.Read", "client-to-Conn.Read"} {
				a, b, err := tcpPair()
				if err != nil {
					return
				}
				sa, sb := &segConn{Conn: a}, &segConn{Conn: b}
				p, err := handshakeWith(sa, sb, cb.version, cb.suite, certs, false, true)
				if err != nil {
					a.Close()
					b.Close()
					return
				}
				// drain post-handshake messages with one clean exchange each way
				transfer(p.server.Write, p.client, p.client.SetReadDeadline, []int{8}, c.Rng)
				transfer(p.client.Write, p.server, p.server.SetReadDeadline, []int{8}, c.Rng)
				var want []byte
				last := 1
				var w interface {
					Write([]byte) (int, error)
					Close() error
				} = p.userver
				var rd reader = p.client
				seg := sa
				if dir == "client-to-Conn.Read" {
					w, rd, seg = p.client, p.userver, sb
				}
				seg.arm(plan, c.Rng)
				for i, k := 0, 1+c.Rng.Intn(3); i < k; i++ {
					last = 1 + c.Rng.Intn(300)
					d := make([]byte, last)
					c.Rng.Read(d)
					want = append(want, d...)
					w.Write(d)
				}
				w.Close()
				got, rerr, pan, pv := readToEOF(rd, style, c.Rng, last)
				key := fmt.Sprintf("%04x/%04x/%s/transport-%s/app-%s", cb.suite, cb.version, dir, plan, style)
				in := map[string]any{"suite": fmt.Sprintf("0x%04x", cb.suite), "version": fmt.Sprintf("0x%04x", cb.version), "direction": dir,
					"transport": plan, "app_reads": style, "last_record_payload": last, "total": len(want)}
				segVerdict(c, key, in, want, got, rerr, pan, pv)
				p.close()
			}
		}
	}
}

// Suite "C25race": concurrent use of one TLS 1.3 connection while key updates are in flight. On each side
// several writer goroutines write continuously, a reader goroutine sits in Read (where the peer's
// KeyUpdate requests are answered and the write key is switched), and a third goroutine keeps asking the
// peer for key updates. Oracle = stream integrity: every chunk written arrives, unaltered, in the order
// its writer wrote it, and no call fails. The driver runs this suite under the race detector.
package main

import (
	"encoding/binary"
	"fmt"
	"io"
	"math/rand"
	"runtime"
	"sync"
	"sync/atomic"
	"time"

	tls "github.com/refraction-networking/utls"

	"verif/harness/vh"
)

const raceChunk = 64

type duplex interface {
	Read([]byte) (int, error)
	Write([]byte) (int, error)
}

type raceSide struct {
	name    string
	conn    duplex
	ku      func(bool) error
	written [4]atomic.Int64 // chunks written per writer
}

func fillChunk(b []byte, writer int, n uint32) {
	b[0] = byte(writer)
	binary.BigEndian.PutUint32(b[1:5], n)
	for i := 5; i < len(b); i++ {
		b[i] = byte(uint32(i)*7 + n*13 + uint32(writer))
	}
}

func checkChunk(b []byte, next *[4]uint32) error {
	w := int(b[0])
	if w >= len(next) {
		return fmt.Errorf("chunk from unknown writer %d", w)
	}
	n := binary.BigEndian.Uint32(b[1:5])
	if n != next[w] {
		return fmt.Errorf("writer %d: chunk %d arrived where %d was expected", w, n, next[w])
	}
	for i := 5; i < len(b); i++ {
		if b[i] != byte(uint32(i)*7+n*13+uint32(w)) {
			return fmt.Errorf("writer %d chunk %d altered at byte %d", w, n, i)
		}
	}
	next[w]++
	return nil
}

func jitter(rng *rand.Rand) {
	switch rng.Intn(6) {
	case 0:
		runtime.Gosched()
	case 1:
		time.Sleep(time.Duration(rng.Intn(30)) * time.Microsecond)
	}
}

// raceSession: one connection, `rounds` KeyUpdate requests from each side.
func raceSession(c *vh.Ctx, suite uint16, certs testCerts, rounds int, seed int64) {
	key := fmt.Sprintf("%04x/0304", suite)
	in := map[string]any{"suite": fmt.Sprintf("0x%04x", suite), "version": "0x0304", "rounds": rounds}
	p, err := handshakePairU(tls.VersionTLS13, suite, certs, false)
	if err != nil {
		c.Fail("c25race-handshake/"+key, "handshake with the uTLS server did not complete", in, err.Error(), "handshake completes")
		return
	}
	defer p.close()
	sides := []*raceSide{
		{name: "client", conn: p.client, ku: p.client.VerifSendKeyUpdate},
		{name: "server", conn: p.userver, ku: p.userver.VerifSendKeyUpdate},
	}
	var stop atomic.Bool
	var failed atomic.Bool
	var mu sync.Mutex
	report := func(k, what string, err error) {
		if stop.Load() || !failed.CompareAndSwap(false, true) {
			return
		}
		mu.Lock()
		defer mu.Unlock()
		c.Fail("c25race-stream/"+key+"/"+k, what, in, err.Error(), "every chunk arrives intact and in order, no call fails")
	}
	var writers, readers sync.WaitGroup
	const nWriters = 2
	for si, s := range sides {
		peer := sides[1-si]
		// writers
		for w := 0; w < nWriters; w++ {
			writers.Add(1)
			go func(s *raceSide, w int) {
				defer writers.Done()
				rng := rand.New(rand.NewSource(seed*31 + int64(w) + int64(len(s.name))*977))
				buf := make([]byte, raceChunk)
				for n := uint32(0); !stop.Load() && !failed.Load(); n++ {
					fillChunk(buf, w, n)
					if _, err := s.conn.Write(buf); err != nil {
						report(s.name+"-write", "Write failed while key updates were in flight", err)
						return
					}
					s.written[w].Add(1)
					jitter(rng)
				}
			}(s, w)
		}
		// reader: verifies the peer's chunks; the peer's KeyUpdate requests are answered inside Read
		readers.Add(1)
		go func(s, peer *raceSide) {
			defer readers.Done()
			var next [4]uint32
			buf := make([]byte, raceChunk)
			for {
				if _, err := io.ReadFull(s.conn, buf); err != nil {
					report(s.name+"-read", "Read failed while key updates were in flight (the peer's stream is cut)", err)
					return
				}
				if err := checkChunk(buf, &next); err != nil {
					report(s.name+"-read", "the byte stream is altered", err)
					return
				}
			}
		}(s, peer)
	}
	// key update requesters
	var kus sync.WaitGroup
	for _, s := range sides {
		kus.Add(1)
		go func(s *raceSide) {
			defer kus.Done()
			rng := rand.New(rand.NewSource(seed*17 + int64(len(s.name))))
			for i := 0; i < rounds && !failed.Load(); i++ {
				if err := s.ku(true); err != nil {
					report(s.name+"-keyupdate", "sending KeyUpdate failed", err)
					return
				}
				c.Count("race_key_update_requests")
				time.Sleep(time.Duration(20+rng.Intn(120)) * time.Microsecond)
			}
		}(s)
	}
	kus.Wait()
	// let the answers and some more data flow, then stop
	time.Sleep(20 * time.Millisecond)
	stop.Store(true)
	writers.Wait()
	p.close()
	readers.Wait()
	if !failed.Load() {
		c.Count("race_sessions_ok")
	}
}

func runRace(c *vh.Ctx) {
	certs := newTestCerts()
	rounds := c.N
	if rounds <= 0 {
		rounds = 200
	}
	suites := []uint16{tls.TLS_AES_128_GCM_SHA256, tls.TLS_CHACHA20_POLY1305_SHA256, tls.TLS_AES_256_GCM_SHA384}
	sessions := 3
	if c.Tier != "quick" {
		sessions = 9
	}
	for i := 0; i < sessions; i++ {
		raceSession(c, suites[i%len(suites)], certs, rounds, c.Seed+int64(i))
	}
}

// Post-handshake messages arriving while the LOCAL send side is broken: the peer keeps sending
// KeyUpdate(update_requested), an extra NewSessionTicket and data; the client cannot answer (expired write
// deadline, failing / blocking transport writes, half-closed socket) but goes on reading. What it reads must
// still be exactly what the peer wrote — or the read ends with the transport's write error; a TLS alert raised
// locally on an untampered stream (bad_record_mac) is a violation.
package main

import (
	"bytes"
	"errors"
	"fmt"
	"net"
	"os"
	"sync/atomic"
	"time"

	"verif/harness/vh"
)

// failConn: a transport whose writes start failing (mode 1) or blocking-then-timing-out (mode 2) once armed.
type failConn struct {
	net.Conn
	mode atomic.Int32
}

type timeoutErr struct{}

func (timeoutErr) Error() string   { return "verif: write blocked, then timed out" }
func (timeoutErr) Timeout() bool   { return true }
func (timeoutErr) Temporary() bool { return true }

func (f *failConn) Write(b []byte) (int, error) {
	switch f.mode.Load() {
	case 1:
		return 0, &net.OpError{Op: "write", Net: "tcp", Err: os.ErrClosed}
	case 2:
		time.Sleep(15 * time.Millisecond)
		return 0, &net.OpError{Op: "write", Net: "tcp", Err: timeoutErr{}}
	}
	return f.Conn.Write(b)
}

// a syntactically valid TLS 1.3 NewSessionTicket (RFC 8446, 4.6.1)
func extraTicket() []byte {
	body := []byte{0, 0, 0x0e, 0x10, 0, 0, 0, 1, 1, 7, 0, 16}
	body = append(body, bytes.Repeat([]byte{0xab}, 16)...)
	body = append(body, 0, 0)
	return append([]byte{4, 0, 0, byte(len(body))}, body...)
}

var breakModes = []string{"write-deadline-expired", "transport-write-error", "transport-write-blocks", "half-closed"}

func brokenSendSide(c *vh.Ctx, cb combo, certs testCerts, key string, in map[string]any) {
	for _, mode := range breakModes {
		a, b, err := tcpPair()
		if err != nil {
			c.Fail("c25-broken-setup/"+key, "tcp", in, err.Error(), "ok")
			return
		}
		fc := &failConn{Conn: a}
		p, err := handshakeWith(fc, b, cb.version, cb.suite, certs, false, true)
		if err != nil {
			a.Close()
			b.Close()
			c.Fail("c25-handshake-u/"+key, "handshake with the uTLS server did not complete", in, err.Error(), "handshake completes")
			return
		}
		brokenOnce(c, cb, p, fc, a, key, in, mode)
		p.close()
	}
}

func brokenOnce(c *vh.Ctx, cb combo, p *pair, fc *failConn, raw net.Conn, key string, in map[string]any, mode string) {
	tin := map[string]any{"suite": in["suite"], "version": in["version"], "send_side": mode}
	k := "c25-broken-send/" + key + "/" + mode
	// both directions work
	if err := transfer(p.client.Write, p.server, p.server.SetReadDeadline, []int{20}, c.Rng); err != nil {
		c.Fail(k, "sanity exchange failed", tin, err.Error(), "ok")
		return
	}
	if err := transfer(p.server.Write, p.client, p.client.SetReadDeadline, []int{20}, c.Rng); err != nil {
		c.Fail(k, "sanity exchange failed", tin, err.Error(), "ok")
		return
	}
	// the client's send side breaks
	switch mode {
	case "write-deadline-expired":
		p.client.SetWriteDeadline(time.Now().Add(-time.Second))
	case "transport-write-error":
		fc.mode.Store(1)
	case "transport-write-blocks":
		fc.mode.Store(2)
	case "half-closed":
		if tc, ok := raw.(*net.TCPConn); ok {
			tc.CloseWrite()
		}
		fc.mode.Store(1)
	}
	// the peer goes on: key updates it wants answered, an extra ticket, data under every generation
	var want []byte
	send := func(n int) error {
		d := make([]byte, n)
		c.Rng.Read(d)
		want = append(want, d...)
		_, err := p.server.Write(d)
		return err
	}
	steps := []func() error{
		func() error { return p.userver.VerifSendKeyUpdate(true) },
		func() error { return send(1 + c.Rng.Intn(3000)) },
		func() error { return p.userver.VerifWriteRecord(22, extraTicket()) },
		func() error { return send(1 + c.Rng.Intn(300)) },
		func() error { return p.userver.VerifSendKeyUpdate(true) },
		func() error { return send(1 + c.Rng.Intn(3000)) },
		func() error { return p.userver.VerifSendKeyUpdate(false) },
		func() error { return send(1 + c.Rng.Intn(300)) },
	}
	for _, st := range steps {
		if err := st(); err != nil {
			c.Fail(k, "the peer could not send", tin, err.Error(), "ok")
			return
		}
	}
	var got []byte
	var rerr error
	panicked, pval := vh.Recover(func() { got, rerr = readExactly(p.client, len(want), c.Rng, p.client.SetReadDeadline) })
	var op *net.OpError
	localAlert := errors.As(rerr, &op) && op.Op == "local error"
	switch {
	case panicked:
		c.Fail("c25-panic/"+key+"/"+mode, "Read panicked", tin, fmt.Sprint(pval), "data or an error")
	case !bytes.HasPrefix(want, got):
		c.Fail(k, "bytes read differ from what the peer wrote", tin, len(got), "a prefix of the peer's bytes")
	case localAlert:
		c.Fail(k, "with a broken send side the reader raises a TLS alert on the peer's untampered records after a KeyUpdate request it could not answer",
			tin, fmt.Sprintf("%d of %d bytes, then %v", len(got), len(want), rerr), "the peer's bytes (or the transport's write error)")
	case rerr == nil && !bytes.Equal(got, want):
		c.Fail(k, "bytes missing", tin, len(got), len(want))
	case rerr != nil:
		c.Count("broken_send_clean_error")
	default:
		c.Count("broken_send_read_side_intact")
	}
}

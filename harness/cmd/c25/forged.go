// Record-level experiments on forged connections (MakeConnWithCompleteHandshake gives any number of fresh
// receivers in the same state): truncation of a record to every length, a bit flip at every byte, and
// streams in which the peer interleaves zero-length application data records with data. The receiver is a
// UConn wrapped around the forged client, so UConn.Read is what runs; a panic is a failure.
package main

import (
	"bytes"
	"fmt"
	"io"
	"math/rand"
	"net"
	"time"

	tls "github.com/refraction-networking/utls"

	"verif/harness/vh"
)

// memConn: reads from a fixed byte string (then EOF), collects what is written.
type memConn struct {
	r *bytes.Reader
	w bytes.Buffer
}

func (m *memConn) Read(b []byte) (int, error) {
	if m.r == nil {
		return 0, io.EOF
	}
	return m.r.Read(b)
}
func (m *memConn) Write(b []byte) (int, error)      { return m.w.Write(b) }
func (m *memConn) Close() error                     { return nil }
func (m *memConn) LocalAddr() net.Addr              { return &net.TCPAddr{} }
func (m *memConn) RemoteAddr() net.Addr             { return &net.TCPAddr{} }
func (m *memConn) SetDeadline(time.Time) error      { return nil }
func (m *memConn) SetReadDeadline(time.Time) error  { return nil }
func (m *memConn) SetWriteDeadline(time.Time) error { return nil }

type secrets struct{ ms, cr, sr []byte }

func newSecrets(rng *rand.Rand) secrets {
	s := secrets{make([]byte, 48), make([]byte, 32), make([]byte, 32)}
	rng.Read(s.ms)
	rng.Read(s.cr)
	rng.Read(s.sr)
	return s
}

func forge(mc *memConn, version, suite uint16, s secrets, isClient bool) *tls.Conn {
	return tls.MakeConnWithCompleteHandshake(mc, version, suite, s.ms, s.cr, s.sr, isClient)
}

// readAll reads from a fresh forged client fed with wire until an error; a panic is reported.
func readAll(version, suite uint16, s secrets, wire []byte) (got []byte, err error, panicked bool, pval any) {
	mc := &memConn{r: bytes.NewReader(wire)}
	cl := forge(mc, version, suite, s, true)
	if cl == nil {
		return nil, fmt.Errorf("forge returned nil"), false, nil
	}
	uc := &tls.UConn{Conn: cl}
	buf := make([]byte, 4096)
	panicked, pval = vh.Recover(func() {
		for {
			n, e := uc.Read(buf)
			got = append(got, buf[:n]...)
			if e != nil {
				err = e
				return
			}
		}
	})
	return
}

// forgedSweeps runs over every (suite, version) of the current table (call after EnableWeakCiphers to
// include the weak CBC suites).
func forgedSweeps(c *vh.Ctx) {
	for _, r := range tls.VerifCipherSuiteTable() {
		for _, v := range []uint16{tls.VersionTLS10, tls.VersionTLS11, tls.VersionTLS12} {
			if r.Flags&tls.VerifSuiteTLS12 != 0 && v != tls.VersionTLS12 {
				continue
			}
			key := fmt.Sprintf("%04x/%04x", r.ID, v)
			in := map[string]any{"suite": fmt.Sprintf("0x%04x", r.ID), "version": fmt.Sprintf("0x%04x", v)}
			s := newSecrets(c.Rng)
			// the genuine stream: one small write by the forged server
			smc := &memConn{}
			srv := forge(smc, v, r.ID, s, false)
			if srv == nil {
				c.Fail("c25-forge/"+key, "no forged connection for a suite of the table", in, "nil", "a connection")
				continue
			}
			payload := make([]byte, 1+c.Rng.Intn(12))
			c.Rng.Read(payload)
			if _, err := srv.Write(payload); err != nil {
				c.Fail("c25-forge/"+key, "forged server cannot write", in, err.Error(), "ok")
				continue
			}
			wire := append([]byte(nil), smc.w.Bytes()...)
			recs := splitRecords(wire)
			// sanity: untouched, the stream is read back
			got, err, pan, pv := readAll(v, r.ID, s, wire)
			if pan || !bytes.Equal(got, payload) || err != io.EOF {
				c.Fail("c25-forged-stream/"+key, "a fresh receiver does not read back the untouched record stream", in,
					fmt.Sprint(len(got), " bytes, err=", err, " panic=", pv), "the payload, then EOF")
				continue
			}
			first := 5 + recs[0].Len
			check := func(kind string, variant []byte, detail map[string]any) {
				got, err, pan, pv := readAll(v, r.ID, s, variant)
				for k, x := range in {
					detail[k] = x
				}
				if pan {
					c.Fail("c25-panic/"+key+"/"+kind, "Read panicked on a damaged record instead of returning an error", detail, fmt.Sprint(pv), "an error")
				} else if !bytes.HasPrefix(payload, got) {
					c.Fail("c25-tamper/"+key+"/"+kind, "the receiver returned plaintext that was never sent", detail, len(got), "only a prefix of the sent bytes")
				} else if len(got) > 0 {
					c.Fail("c25-tamper/"+key+"/"+kind, "data was delivered although the first record of the stream was damaged", detail, len(got), "an error before any data")
				} else if err == nil {
					c.Fail("c25-tamper/"+key+"/"+kind, "no error after a damaged record", detail, "nil", "an error")
				}
				c.Count("forged_" + kind)
			}
			// truncation of the first record to every shorter length, header length adjusted, rest of the stream kept
			for l := 0; l < recs[0].Len; l++ {
				variant := append([]byte{wire[0], wire[1], wire[2], byte(l >> 8), byte(l)}, wire[5:5+l]...)
				variant = append(variant, wire[first:]...)
				check("truncate", variant, map[string]any{"truncated_to": l, "of": recs[0].Len})
			}
			// ... and with the stream simply cut there (no length fix-up)
			for l := 0; l < first; l++ {
				check("cut", wire[:l], map[string]any{"cut_at": l})
			}
			// one bit flipped at every byte of the first record, header included
			for i := 0; i < first; i++ {
				variant := append([]byte(nil), wire...)
				variant[i] ^= 1 << uint(c.Rng.Intn(8))
				check("flip", variant, map[string]any{"offset": i})
			}
		}
	}
}

// emptyPattern: a random stream description: 0 = zero-length application data record, n > 0 = write of n bytes.
// More than 40 empty records in total, never more than 24 in a row: the limit of 32 consecutive non-advancing
// records (maxUselessRecords) also counts post-handshake messages such as TLS 1.3 session tickets that may
// directly precede a run, so runs stay clear of it.
func emptyPattern(rng *rand.Rand) []int {
	var p []int
	empties := 0
	for empties <= 40 || len(p) < 30 {
		run := rng.Intn(4)
		if rng.Intn(6) == 0 {
			run = 5 + rng.Intn(20) // up to 24 in a row
		}
		for i := 0; i < run; i++ {
			p = append(p, 0)
		}
		empties += run
		p = append(p, 1+rng.Intn(60))
	}
	return p
}

// emptyPatterns: the shapes every receiver is fed with: random runs, and an empty record in front of EACH
// data record over a long stream (what OpenSSL-style CBC countermeasures and padding-only TLS 1.3 records look like).
func emptyPatterns(rng *rand.Rand) [][]int {
	var each []int
	for i, k := 0, 48+rng.Intn(16); i < k; i++ {
		each = append(each, 0, 1+rng.Intn(40))
	}
	var pairs []int
	for i := 0; i < 20; i++ {
		pairs = append(pairs, 0, 0, 1+rng.Intn(40), 0, 1+rng.Intn(5))
	}
	return [][]int{emptyPattern(rng), each, pairs}
}

func patternTerm(p []int) string {
	it := make([]string, len(p))
	for i, x := range p {
		it[i] = fmt.Sprint(x)
	}
	return vh.List(it)
}

// emptyRecordStreams: the forged server interleaves empty records with data; a fresh receiver must deliver
// all the data. One pattern per (suite, version); the model predicts the outcome too.
func emptyRecordStreams(c *vh.Ctx) {
	seen := map[string]bool{}
	for _, r := range tls.VerifCipherSuiteTable() {
		for _, v := range []uint16{tls.VersionTLS10, tls.VersionTLS11, tls.VersionTLS12} {
			if r.Flags&tls.VerifSuiteTLS12 != 0 && v != tls.VersionTLS12 {
				continue
			}
			kk := fmt.Sprintf("%d-%d/%04x", r.Kind, r.MacSize, v)
			if c.Tier == "quick" && seen[kk] {
				continue
			}
			seen[kk] = true
			key := fmt.Sprintf("%04x/%04x", r.ID, v)
			for _, pat := range emptyPatterns(c.Rng) {
				emptyStreamOne(c, r, v, key, pat)
			}
		}
	}
}

func emptyStreamOne(c *vh.Ctx, r tls.VerifSuite, v uint16, key string, pat []int) {
	in := map[string]any{"suite": fmt.Sprintf("0x%04x", r.ID), "version": fmt.Sprintf("0x%04x", v)}
	s := newSecrets(c.Rng)
	smc := &memConn{}
	srv := forge(smc, v, r.ID, s, false)
	var want []byte
	for _, n := range pat {
		var err error
		if n == 0 {
			err = srv.VerifWriteEmptyRecord(23)
		} else {
			d := make([]byte, n)
			c.Rng.Read(d)
			want = append(want, d...)
			_, err = srv.Write(d)
		}
		if err != nil {
			c.Fail("c25-forge/"+key, "forged server cannot write", in, err.Error(), "ok")
			return
		}
	}
	// the receiver is a UConn around a fresh forged client: UConn.Read runs
	got, err, pan, pv := readAll(v, r.ID, s, smc.w.Bytes())
	in["pattern"] = pat
	if pan || !bytes.Equal(got, want) || err != io.EOF {
		c.Fail("c25-empty-records/"+key, "data interleaved with zero-length application data records (never more than 24 in a row) does not arrive intact",
			in, fmt.Sprint(len(got), " of ", len(want), " bytes, err=", err, " panic=", pv), "all bytes, then EOF")
	}
	c.Case("empty", fmt.Sprintf("(CEmpty %d %d %d %s %d %s)", v, r.Kind, r.MacSize, patternTerm(pat), len(got), vh.Bool(err != io.EOF || pan)),
		fmt.Sprintf("empty/%s/%d-%d", key, len(pat), pat[0]), true, nil)
}

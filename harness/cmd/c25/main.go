// Runner for C25: application data arrives intact (any write/read sizes, both directions, across TLS 1.3 key
// updates) and tampering with the ciphertext is detected. Peer: the crypto/tls server of the Go toolchain.
package main

import (
	"bytes"
	"errors"
	"fmt"
	"io"
	"math/rand"
	"net"
	"sync"
	"time"

	tls "github.com/refraction-networking/utls"

	"verif/harness/vh"
)

func main() {
	vh.Main(map[string]vh.Suite{"C25": {Corr: "Corr.C25Corr", Run: run}, "C25race": {Corr: "Corr.C25Corr", Run: runRace}})
}

type combo struct {
	version, suite uint16
	kind, macSize  int
}

// every (version, suite) the Go server can negotiate with uTLS: from the real suite table
func combos() []combo {
	var out []combo
	for _, r := range tls.VerifCipherSuiteTable() {
		if r.ID == tls.OLD_TLS_ECDHE_RSA_WITH_CHACHA20_POLY1305_SHA256 || r.ID == tls.OLD_TLS_ECDHE_ECDSA_WITH_CHACHA20_POLY1305_SHA256 {
			continue // pre-standard code points: no available server implements them (covered at record level by C27)
		}
		for _, v := range []uint16{tls.VersionTLS10, tls.VersionTLS11, tls.VersionTLS12} {
			if r.Flags&tls.VerifSuiteTLS12 != 0 && v != tls.VersionTLS12 {
				continue
			}
			out = append(out, combo{v, r.ID, r.Kind, r.MacSize})
		}
	}
	for _, s := range []uint16{tls.TLS_AES_128_GCM_SHA256, tls.TLS_AES_256_GCM_SHA384, tls.TLS_CHACHA20_POLY1305_SHA256} {
		out = append(out, combo{tls.VersionTLS13, s, 5, 0})
	}
	return out
}

func randSizes(rng *rand.Rand, k int) []int {
	edge := []int{0, 1, 2, 15, 16, 17, 1186, 1187, 1188, 16383, 16384, 16385, 32768}
	s := make([]int, k)
	for i := range s {
		switch rng.Intn(3) {
		case 0:
			s[i] = edge[rng.Intn(len(edge))]
		case 1:
			s[i] = rng.Intn(3000)
		default:
			s[i] = rng.Intn(32769)
		}
	}
	return s
}

// readExactly reads n bytes with random buffer sizes (the Read-side half of the property).
func readExactly(r io.Reader, n int, rng *rand.Rand, setDeadline func(time.Time) error) ([]byte, error) {
	got := make([]byte, 0, n)
	for len(got) < n {
		bs := 1 + rng.Intn(5000)
		if rng.Intn(4) == 0 {
			bs = 1 + rng.Intn(20)
		}
		if bs > n-len(got) {
			bs = n - len(got)
		}
		buf := make([]byte, bs)
		setDeadline(time.Now().Add(10 * time.Second))
		m, err := r.Read(buf)
		got = append(got, buf[:m]...)
		if err != nil {
			return got, err
		}
	}
	return got, nil
}

type opObs struct {
	ku   bool
	req  bool
	size int
}

func opsTerm(ops []opObs) string {
	it := make([]string, len(ops))
	for i, o := range ops {
		if o.ku {
			it[i] = fmt.Sprintf("(1, %d)", map[bool]int{false: 0, true: 1}[o.req])
		} else {
			it[i] = fmt.Sprintf("(0, %d)", o.size)
		}
	}
	return vh.List(it)
}

func recsTerm(rs []wireRec, explicit int) string {
	it := make([]string, len(rs))
	for i, r := range rs {
		var nonce []byte
		if explicit > 0 && len(r.Body) >= explicit {
			nonce = r.Body[:explicit]
		}
		it[i] = fmt.Sprintf("(%d, %d, %d, %s)", r.Typ, r.Vers, r.Len, vh.Bytes(nonce))
	}
	return vh.List(it)
}

// transfer: w writes the chunks, r reads them back with random buffer sizes.
func transfer(write func([]byte) (int, error), r io.Reader, setDL func(time.Time) error, sizes []int, rng *rand.Rand) error {
	for _, n := range sizes {
		data := make([]byte, n)
		rng.Read(data)
		errc := make(chan error, 1)
		go func() {
			m, err := write(data)
			if err == nil && m != len(data) {
				err = fmt.Errorf("short write %d/%d", m, len(data))
			}
			errc <- err
		}()
		got, rerr := readExactly(r, n, rng, setDL)
		if werr := <-errc; werr != nil {
			return fmt.Errorf("write(%d): %v", n, werr)
		}
		if rerr != nil {
			return fmt.Errorf("read after write(%d): %v", n, rerr)
		}
		if !bytes.Equal(got, data) {
			return fmt.Errorf("bytes differ after write(%d)", n)
		}
	}
	return nil
}

// tamperConn mutates the byte stream the client reads once armed.
type tamperConn struct {
	net.Conn
	mu       sync.Mutex
	armed    bool
	pos      int  // offset in the armed stream
	at       int  // offset to mutate
	truncate bool // drop the byte instead of flipping a bit
	mask     byte
	done     bool
	recTrunc int    // >= 0: replace the first armed record by its first recTrunc body bytes, header length adjusted
	pending  []byte // record-truncation mode: bytes not yet handed to the reader
}

func (t *tamperConn) Read(b []byte) (int, error) {
	t.mu.Lock()
	if t.armed && t.recTrunc >= 0 {
		defer t.mu.Unlock()
		for !t.done {
			if len(t.pending) >= 5 {
				n := int(t.pending[3])<<8 | int(t.pending[4])
				if len(t.pending) >= 5+n {
					l := t.recTrunc
					if l > n {
						l = n
					}
					out := append([]byte{t.pending[0], t.pending[1], t.pending[2], byte(l >> 8), byte(l)}, t.pending[5:5+l]...)
					t.pending = append(out, t.pending[5+n:]...)
					t.done = true
					break
				}
			}
			tmp := make([]byte, 4096)
			m, err := t.Conn.Read(tmp)
			t.pending = append(t.pending, tmp[:m]...)
			if err != nil {
				t.done = true
				if len(t.pending) == 0 {
					return 0, err
				}
			}
		}
		if len(t.pending) > 0 {
			m := copy(b, t.pending)
			t.pending = t.pending[m:]
			return m, nil
		}
		return t.Conn.Read(b)
	}
	t.mu.Unlock()
	n, err := t.Conn.Read(b)
	t.mu.Lock()
	defer t.mu.Unlock()
	if t.armed && !t.done && n > 0 {
		if t.at < t.pos+n {
			i := t.at - t.pos
			if t.truncate {
				copy(b[i:], b[i+1:n])
				n--
			} else {
				b[i] ^= t.mask
			}
			t.done = true
		}
		t.pos += n
	}
	return n, err
}

func run(c *vh.Ctx) {
	certs := newTestCerts()
	nseq, nparts, nwrites := 1, 2, 2
	ntamper := 3
	if c.Tier != "quick" {
		nseq, nparts, nwrites = 6, 3, 3
		ntamper = 12
	}
	for _, cb := range combos() {
		key := fmt.Sprintf("%04x/%04x", cb.suite, cb.version)
		in := map[string]any{"suite": fmt.Sprintf("0x%04x", cb.suite), "version": fmt.Sprintf("0x%04x", cb.version)}
		explicit := 0
		if cb.kind == 4 {
			explicit = 8
		}
		for s := 0; s < nseq; s++ {
			p, err := handshakePair(cb.version, cb.suite, certs, false)
			if err != nil {
				c.Fail("c25-handshake/"+key, "a suite/version the Go server implements and uTLS supports did not negotiate", in, err.Error(), "handshake completes")
				break
			}
			hsBytes := len(p.crec.take())
			_, out0 := tls.VerifRecordState(p.client.Conn)
			var ops []opObs
			fail := func(what string, err error) {
				c.Fail("c25-stream/"+key+"/"+what, "bytes read differ from bytes written, or an error occurred ("+what+")", in, err.Error(), "byte stream intact")
			}
			ok := true
			// client -> server, with key updates in between (TLS 1.3)
			for part := 0; part < nparts && ok; part++ {
				sizes := randSizes(c.Rng, nwrites+c.Rng.Intn(3))
				if err := transfer(p.client.Write, p.server, p.server.SetReadDeadline, sizes, c.Rng); err != nil {
					fail("c2s", err)
					ok = false
					break
				}
				for _, n := range sizes {
					ops = append(ops, opObs{size: n})
				}
				// server -> client (UConn.Read with random buffer sizes)
				if err := transfer(p.server.Write, p.client, p.client.SetReadDeadline, randSizes(c.Rng, 2+c.Rng.Intn(3)), c.Rng); err != nil {
					fail("s2c", err)
					ok = false
					break
				}
				if cb.version == tls.VersionTLS13 && part < nparts-1 {
					req := c.Rng.Intn(2) == 0
					if err := p.client.VerifSendKeyUpdate(req); err != nil {
						fail("keyupdate", err)
						ok = false
						break
					}
					ops = append(ops, opObs{ku: true, req: req})
					c.Count("key_updates")
				}
			}
			if ok {
				recs := splitRecords(p.crec.take())
				// framing correspondence: every record the client put on the wire
				c.Case("stream", fmt.Sprintf("(CStream %d %d %d %d %d %d %s %s)", cb.version, cb.kind, cb.macSize, cb.suite, hsBytes, out0.Seq,
					opsTerm(ops), recsTerm(recs, explicit)), fmt.Sprintf("stream/%s/%d", key, s), len(recs) > 3,
					map[string]any{"suite": in["suite"], "version": in["version"], "ops": len(ops), "records": len(recs)})
			}
			p.close()
		}
		// tampering: one mutated byte in what the client receives
		for t := 0; t < ntamper; t++ {
			if err := tamperOnce(c, cb, certs, key, in, t, -1); err != nil {
				c.Fail("c25-tamper-setup/"+key, "could not set up the tamper experiment", in, err.Error(), "handshake completes")
				break
			}
		}
		if cb.version == tls.VersionTLS13 {
			// record-level truncation (header length adjusted); TLS <= 1.2 is swept on forged connections below
			ls := []int{0, 1, 15, 16, 17, 18, 40}
			if c.Tier != "quick" {
				for l := 0; l < 64; l++ {
					ls = append(ls, l)
				}
			}
			for _, l := range ls {
				if err := tamperOnce(c, cb, certs, key, in, 0, l); err != nil {
					c.Fail("c25-tamper-setup/"+key, "could not set up the tamper experiment", in, err.Error(), "handshake completes")
					break
				}
			}
			keyUpdateHistory(c, cb, certs, key, in)
			keyUpdateHistoryStd(c, cb, certs, key, in)
			brokenSendSide(c, cb, certs, key, in)
			emptyRecords13(c, cb, certs, key, in)
		}
	}
	// record-level experiments on forged connections, every suite of the table incl. the weak CBC suites
	// (EnableWeakCiphers is process-global: last, after every real handshake of this run)
	for _, cb := range combos() {
		if cb.version == tls.VersionTLS13 || cb.suite == tls.TLS_ECDHE_ECDSA_WITH_AES_128_GCM_SHA256 || cb.suite == tls.TLS_ECDHE_RSA_WITH_AES_128_CBC_SHA && cb.version == tls.VersionTLS12 {
			liveSegmentation(c, cb, certs)
		}
	}
	tls.EnableWeakCiphers()
	forgedSweeps(c)
	forgedSegmentation(c)
	emptyRecordStreams(c)
}

// keyUpdateHistory: several KeyUpdates in each direction on one connection, with and without
// update_requested, interleaved with data both ways. Peer: the uTLS server (it has the KeyUpdate hook).
func keyUpdateHistory(c *vh.Ctx, cb combo, certs testCerts, key string, in map[string]any) {
	p, err := handshakePairU(cb.version, cb.suite, certs, false)
	if err != nil {
		c.Fail("c25-handshake-u/"+key, "handshake with the uTLS server did not complete", in, err.Error(), "handshake completes")
		return
	}
	defer p.close()
	hsBytes := len(p.crec.take())
	_, out0 := tls.VerifRecordState(p.client.Conn)
	var ops []opObs
	fail := func(what string, err error) {
		c.Fail("c25-keyupdate/"+key+"/"+what, "the byte stream is cut or altered across a history of key updates ("+what+")", in, err.Error(), "byte stream intact")
	}
	c2s := func(k int) error {
		sizes := randSizes(c.Rng, k)
		for i := range sizes {
			sizes[i] = sizes[i]%3000 + 1
		}
		if err := transfer(p.client.Write, p.server, p.server.SetReadDeadline, sizes, c.Rng); err != nil {
			return err
		}
		for _, n := range sizes {
			ops = append(ops, opObs{size: n})
		}
		return nil
	}
	s2c := func(k int) error {
		sizes := randSizes(c.Rng, k)
		for i := range sizes {
			sizes[i] = sizes[i]%3000 + 1
		}
		return transfer(p.server.Write, p.client, p.client.SetReadDeadline, sizes, c.Rng)
	}
	steps := 8
	if c.Tier != "quick" {
		steps = 24
	}
	nPeer, nOwn := 0, 0
	for i := 0; i < steps; i++ {
		req := c.Rng.Intn(2) == 0
		if i%2 == 0 { // KeyUpdate from the peer; the client answers while reading if it was requested
			if err := p.userver.VerifSendKeyUpdate(req); err != nil {
				fail("peer-send", err)
				return
			}
			nPeer++
			if err := s2c(1 + c.Rng.Intn(2)); err != nil {
				fail(fmt.Sprintf("s2c-after-peer-keyupdate-%d", nPeer), err)
				return
			}
			if req {
				ops = append(ops, opObs{ku: true, req: false})
			}
		} else { // KeyUpdate from the client
			if err := p.client.VerifSendKeyUpdate(req); err != nil {
				fail("client-send", err)
				return
			}
			nOwn++
			ops = append(ops, opObs{ku: true, req: req})
		}
		if err := c2s(1 + c.Rng.Intn(2)); err != nil {
			fail(fmt.Sprintf("c2s-after-%d-peer-%d-own-keyupdates", nPeer, nOwn), err)
			return
		}
		if err := s2c(1); err != nil {
			fail(fmt.Sprintf("s2c-after-%d-peer-%d-own-keyupdates", nPeer, nOwn), err)
			return
		}
		c.Count("key_updates")
	}
	recs := splitRecords(p.crec.take())
	c.Case("stream", fmt.Sprintf("(CStream %d %d %d %d %d %d %s %s)", cb.version, cb.kind, cb.macSize, cb.suite, hsBytes, out0.Seq,
		opsTerm(ops), recsTerm(recs, 0)), "stream-keyupdates/"+key, true,
		map[string]any{"suite": in["suite"], "peer_key_updates": nPeer, "client_key_updates": nOwn, "records": len(recs)})
}

// keyUpdateHistoryStd: several generations against a peer with its OWN key schedule, the crypto/tls server of
// the toolchain (it cannot start a key update, but it answers KeyUpdate(update_requested) by ratcheting its
// sending secret itself): every round the client updates its write keys, on requested rounds the server's
// answer makes the client ratchet its read keys; data flows both ways under every generation.
func keyUpdateHistoryStd(c *vh.Ctx, cb combo, certs testCerts, key string, in map[string]any) {
	p, err := handshakePair(cb.version, cb.suite, certs, false)
	if err != nil {
		c.Fail("c25-handshake/"+key, "a suite/version the Go server implements and uTLS supports did not negotiate", in, err.Error(), "handshake completes")
		return
	}
	defer p.close()
	hsBytes := len(p.crec.take())
	_, out0 := tls.VerifRecordState(p.client.Conn)
	var ops []opObs
	rounds := 5
	if c.Tier != "quick" {
		rounds = 12
	}
	small := func(k int) []int {
		sizes := randSizes(c.Rng, k)
		for i := range sizes {
			sizes[i] = sizes[i]%3000 + 1
		}
		return sizes
	}
	nReq := 0
	for i := 0; i < rounds; i++ {
		req := i%4 != 2 // mostly requested: each one moves BOTH directions to their next generation
		if err := p.client.VerifSendKeyUpdate(req); err != nil {
			c.Fail("c25-keyupdate-std/"+key+"/client-send", "sending KeyUpdate failed", in, err.Error(), "ok")
			return
		}
		ops = append(ops, opObs{ku: true, req: req})
		if req {
			nReq++
		}
		sizes := small(1 + c.Rng.Intn(2))
		if err := transfer(p.client.Write, p.server, p.server.SetReadDeadline, sizes, c.Rng); err != nil {
			c.Fail(fmt.Sprintf("c25-keyupdate-std/%s/c2s-generation-%d", key, i+1),
				"data written by the client after its key update does not reach an independently ratcheting peer", in, err.Error(), "byte stream intact")
			return
		}
		for _, n := range sizes {
			ops = append(ops, opObs{size: n})
		}
		if err := transfer(p.server.Write, p.client, p.client.SetReadDeadline, small(1+c.Rng.Intn(2)), c.Rng); err != nil {
			c.Fail(fmt.Sprintf("c25-keyupdate-std/%s/s2c-after-%d-peer-key-updates", key, nReq),
				"data sent by an independently ratcheting peer after its key updates is not read intact", in, err.Error(), "byte stream intact")
			return
		}
		c.Count("key_updates_std")
	}
	recs := splitRecords(p.crec.take())
	c.Case("stream", fmt.Sprintf("(CStream %d %d %d %d %d %d %s %s)", cb.version, cb.kind, cb.macSize, cb.suite, hsBytes, out0.Seq,
		opsTerm(ops), recsTerm(recs, 0)), "stream-keyupdates-std/"+key, true,
		map[string]any{"suite": in["suite"], "client_key_updates": rounds, "peer_key_updates": nReq, "records": len(recs)})
}

// emptyRecords13: the TLS 1.3 peer interleaves zero-length application data records with data.
func emptyRecords13(c *vh.Ctx, cb combo, certs testCerts, key string, in map[string]any) {
	p, err := handshakePairU(cb.version, cb.suite, certs, false)
	if err != nil {
		c.Fail("c25-handshake-u/"+key, "handshake with the uTLS server did not complete", in, err.Error(), "handshake completes")
		return
	}
	defer p.close()
	for _, pat := range emptyPatterns(c.Rng) {
		emptyRecords13One(c, cb, p, key, in, pat)
	}
}

func emptyRecords13One(c *vh.Ctx, cb combo, p *pair, key string, in map[string]any, pat []int) {
	var want []byte
	errc := make(chan error, 1)
	datas := make([][]byte, len(pat))
	for i, n := range pat {
		if n > 0 {
			datas[i] = make([]byte, n)
			c.Rng.Read(datas[i])
			want = append(want, datas[i]...)
		}
	}
	go func() {
		for i, n := range pat {
			var err error
			if n == 0 {
				err = p.userver.VerifWriteEmptyRecord(23)
			} else {
				_, err = p.server.Write(datas[i])
			}
			if err != nil {
				errc <- err
				return
			}
		}
		errc <- nil
	}()
	var got []byte
	var rerr error
	panicked, pval := vh.Recover(func() { got, rerr = readExactly(p.client, len(want), c.Rng, p.client.SetReadDeadline) })
	werr := <-errc
	if panicked || werr != nil || rerr != nil || !bytes.Equal(got, want) {
		c.Fail("c25-empty-records/"+key, "data interleaved with zero-length application data records (never more than 24 in a row) does not arrive intact",
			map[string]any{"suite": in["suite"], "version": in["version"], "pattern": pat},
			fmt.Sprint(len(got), " of ", len(want), " bytes, read err=", rerr, " write err=", werr, " panic=", pval), "all bytes")
	}
	c.Case("empty", fmt.Sprintf("(CEmpty %d %d %d %s %d %s)", cb.version, cb.kind, cb.macSize, patternTerm(pat), len(got), vh.Bool(rerr != nil || panicked)),
		fmt.Sprintf("empty/%s/%d-%d", key, len(pat), pat[0]), true, nil)
}

func tamperOnce(c *vh.Ctx, cb combo, certs testCerts, key string, in map[string]any, t int, recTrunc int) error {
	a, b, err := tcpPair()
	if err != nil {
		return err
	}
	defer a.Close()
	defer b.Close()
	tc := &tamperConn{Conn: a, recTrunc: -1}
	p, err := handshakeOver(tc, b, cb.version, cb.suite, certs)
	if err != nil {
		return err
	}
	// let the client consume post-handshake messages (TLS 1.3 tickets) with one clean exchange first
	if err := transfer(p.server.Write, p.client, p.client.SetReadDeadline, []int{10}, c.Rng); err != nil {
		return err
	}
	n := 200 + c.Rng.Intn(3000)
	data := make([]byte, n)
	c.Rng.Read(data)
	p.srec.take()
	at, trunc := c.Rng.Intn(n), t%3 == 2 // every record is at least as long as its plaintext, so this offset exists
	if t%3 == 1 {
		at = c.Rng.Intn(5) // the first record header
	}
	tc.mu.Lock()
	tc.at, tc.truncate, tc.mask = at, trunc, 1<<uint(c.Rng.Intn(8))
	tc.armed, tc.pos, tc.done, tc.recTrunc = true, 0, false, recTrunc
	tc.mu.Unlock()
	go func() { p.server.Write(data); p.server.Close() }()
	var got []byte
	var rerr error
	buf := make([]byte, 4096)
	panicked, pval := vh.Recover(func() {
		for {
			p.client.SetReadDeadline(time.Now().Add(5 * time.Second))
			m, err := p.client.Read(buf)
			got = append(got, buf[:m]...)
			if err != nil {
				rerr = err
				break
			}
		}
	})
	tin := map[string]any{"suite": in["suite"], "version": in["version"], "offset": at, "truncate": trunc, "plaintext_len": n}
	kind := map[bool]string{false: "flip", true: "truncate"}[trunc]
	if recTrunc >= 0 {
		kind = "record-truncate"
		tin["truncated_to"] = recTrunc
	}
	k := fmt.Sprintf("c25-tamper/%s/%s", key, kind)
	if panicked {
		c.Fail("c25-panic/"+key+"/"+kind, "Read panicked on a damaged record instead of returning an error", tin, fmt.Sprint(pval), "an error")
	} else if !bytes.HasPrefix(data, got) {
		c.Fail(k, "the receiver returned plaintext that was never sent after one ciphertext byte was changed", tin, len(got), "only a prefix of the sent bytes")
	} else if len(got) == len(data) || rerr == nil || errors.Is(rerr, io.EOF) {
		c.Fail(k, "a changed ciphertext byte went undetected (all data delivered or clean EOF)", tin, fmt.Sprint(len(got), " bytes, err=", rerr), "an error")
	}
	c.Count("tamper_" + kind)
	return nil
}

package main

import (
	"crypto/ecdh"
	"crypto/rand"
	"io"
	"net"
	"sync"
	"time"

	tls "github.com/refraction-networking/utls"
	"golang.org/x/crypto/cryptobyte"
)

// ---- ECH configs (draft-ietf-tls-esni-18 / RFC 9849 ECHConfig, as in utls tls_test.go testECHSpec) ----

type echKeys struct {
	config []byte // one ECHConfig
	list   []byte // ECHConfigList holding it
	priv   []byte
}

func newECH(id uint8, publicName string) *echKeys {
	k, err := ecdh.X25519().GenerateKey(rand.Reader)
	if err != nil {
		panic(err)
	}
	b := cryptobyte.NewBuilder(nil)
	b.AddUint16(0xfe0d)
	b.AddUint16LengthPrefixed(func(b *cryptobyte.Builder) {
		b.AddUint8(id)
		b.AddUint16(0x0020) // DHKEM(X25519, HKDF-SHA256)
		b.AddUint16LengthPrefixed(func(b *cryptobyte.Builder) { b.AddBytes(k.PublicKey().Bytes()) })
		b.AddUint16LengthPrefixed(func(b *cryptobyte.Builder) {
			for _, aead := range []uint16{0x0001, 0x0002, 0x0003} {
				b.AddUint16(0x0001) // HKDF-SHA256
				b.AddUint16(aead)
			}
		})
		b.AddUint8(32)
		b.AddUint8LengthPrefixed(func(b *cryptobyte.Builder) { b.AddBytes([]byte(publicName)) })
		b.AddUint16(0)
	})
	cfg := b.BytesOrPanic()
	lb := cryptobyte.NewBuilder(nil)
	lb.AddUint16LengthPrefixed(func(b *cryptobyte.Builder) { b.AddBytes(cfg) })
	return &echKeys{config: cfg, list: lb.BytesOrPanic(), priv: k.Bytes()}
}

// ---- servers: the Go server of the utls package, one listener per (leaf, max version) ----

type server struct {
	ln   net.Listener
	cfg  *tls.Config
	addr string
	wg   sync.WaitGroup
}

func newServer(l *leaf, maxVers uint16, ech *echKeys) *server {
	cfg := &tls.Config{
		GetCertificate: func(*tls.ClientHelloInfo) (*tls.Certificate, error) { return &l.tlsCert, nil },
		MinVersion:     tls.VersionTLS12, MaxVersion: maxVers,
		Time: func() time.Time { return T0 },
	}
	if maxVers >= tls.VersionTLS13 && ech != nil {
		cfg.EncryptedClientHelloKeys = []tls.EncryptedClientHelloKey{{Config: ech.config, PrivateKey: ech.priv, SendAsRetry: true}}
	}
	ln, err := net.Listen("tcp", "127.0.0.1:0")
	if err != nil {
		panic(err)
	}
	s := &server{ln: ln, cfg: cfg, addr: ln.Addr().String()}
	go s.serve()
	return s
}

func (s *server) serve() {
	for {
		conn, err := s.ln.Accept()
		if err != nil {
			return
		}
		s.wg.Add(1)
		go func() {
			defer s.wg.Done()
			defer conn.Close()
			conn.SetDeadline(time.Now().Add(10 * time.Second))
			tc := tls.Server(conn, s.cfg)
			if err := tc.Handshake(); err != nil {
				return
			}
			tc.Write([]byte("k")) // lets a TLS 1.3 client read its NewSessionTicket
			io.Copy(io.Discard, tc)
		}()
	}
}

func (s *server) close() { s.ln.Close(); s.wg.Wait() }

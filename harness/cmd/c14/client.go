package main

import (
	"crypto/x509"
	"errors"
	"fmt"
	"net"
	"time"

	tls "github.com/refraction-networking/utls"
)

type nameSetting int

const (
	nsUnset nameSetting = iota // InsecureServerNameToVerify = ""
	nsOther                    // = nameO
	nsStar                     // = "*"
)

func (n nameSetting) value() string  { return [...]string{"", nameO, "*"}[n] }
func (n nameSetting) String() string { return [...]string{"unset", "other", "star"}[n] }

// snKind: what Config.ServerName is. Everything but snHost differs from what goes into the SNI extension.
type snKind int

const (
	snHost  snKind = iota // "secret.c14.test"
	snDot                 // "secret.c14.test."   (hostnameInSNI strips the dot)
	snIP4                 // "10.9.8.7"           (no SNI at all)
	snIP6                 // "2001:db8::7"
	snIP6Br               // "[2001:db8::7]"
)

func (k snKind) value() string {
	return [...]string{nameS, nameS + ".", ip4, ip6, "[" + ip6 + "]"}[k]
}
func (k snKind) String() string { return [...]string{"host", "dot", "ip4", "ip6", "ip6br"}[k] }

// sniMode: whether the client sends a server_name extension.
type sniMode int

const (
	sniNormal  sniMode = iota
	sniRemoved         // UConn.RemoveSNIExtension() on a parrot
	sniCustom          // the parrot's spec without its SNIExtension, applied to HelloCustom
)

func (m sniMode) String() string { return [...]string{"sni", "sni-removed", "spec-without-sni"}[m] }

type echMode int

const (
	echNone   echMode = iota
	echAccept         // client offers the server's own ECH config
	echReject         // client offers a config (same public name) whose key the server does not have
)

func (m echMode) String() string { return [...]string{"noech", "echaccept", "echreject"}[m] }

type clientID struct {
	name  string
	id    tls.ClientHelloID
	ech   bool // implements real ECH when Config.EncryptedClientHelloConfigList is set
	plain bool // tls.Client(conn, cfg): the crypto/tls entry point (Conn.clientHandshake), no UConn / ClientHelloID
}

type cfgSpec struct {
	cl         clientID
	vers       uint16 // the server's MaxVersion (the client ids all offer 1.2 and 1.3)
	ech        echMode
	inv        nameSetting
	skipTime   bool
	skipVerify bool
	timeOff    time.Duration // client Config.Time returns T0+timeOff
	sn         snKind        // Config.ServerName
	sni        sniMode
}

func (c cfgSpec) serverName() string { return c.sn.value() }
func (c cfgSpec) nameGrid() bool     { return c.sn != snHost || c.sni != sniNormal }

func (c cfgSpec) key() string {
	k := fmt.Sprintf("%s/tls%x/%s/inv=%s/skiptime=%v/skipverify=%v/t+%dh", c.cl.name, c.vers&0xff+9, c.ech, c.inv, c.skipTime, c.skipVerify, int(c.timeOff.Hours()))
	if c.nameGrid() {
		k += fmt.Sprintf("/servername=%s/%s", c.sn, c.sni)
	}
	return k
}
func (c cfgSpec) now() time.Time { return T0.Add(c.timeOff) }

type env struct {
	p       *pki
	echSrv  *echKeys // the server's ECH key/config (what an accepted offer uses; also the retry config)
	echBad  *echKeys // same public name, a key pair the server does not hold -> rejection
	servers map[[2]int]*server
}

func newEnv() *env {
	e := &env{p: newPKI(), echSrv: newECH(7, nameP), echBad: newECH(9, nameP), servers: map[[2]int]*server{}}
	for k := leafKind(0); k < nLeaf; k++ {
		for _, v := range []uint16{tls.VersionTLS12, tls.VersionTLS13} {
			e.servers[[2]int{int(k), int(v)}] = newServer(e.p.leaves[k], v, e.echSrv)
		}
	}
	return e
}

func (e *env) close() {
	for _, s := range e.servers {
		s.close()
	}
}

func (e *env) clientConfig(cs cfgSpec, cache tls.ClientSessionCache) *tls.Config {
	now := cs.now()
	cfg := &tls.Config{
		ServerName:                 cs.serverName(),
		RootCAs:                    e.p.roots,
		Time:                       func() time.Time { return now },
		InsecureSkipVerify:         cs.skipVerify,
		InsecureSkipTimeVerify:     cs.skipTime,
		InsecureServerNameToVerify: cs.inv.value(),
		ClientSessionCache:         cache,
		OmitEmptyPsk:               true, // PSK parrots without a cached session drop the empty pre_shared_key extension
	}
	switch cs.ech {
	case echAccept:
		cfg.EncryptedClientHelloConfigList = e.echSrv.list
	case echReject:
		cfg.EncryptedClientHelloConfigList = e.echBad.list
	}
	if cs.ech != echNone {
		cfg.MinVersion = tls.VersionTLS13
	}
	return cfg
}

// obs is everything the runner looks at after one client handshake.
type obs struct {
	class       string // ok | hostname | unknown-authority | expired | ech-rejected | other:<text>
	retry       []byte // ECHRejectionError.RetryConfigList
	didResume   bool
	echAccepted bool
	connName    string // ConnectionState.ServerName = c.serverName
	vers        uint16
	leafSerial  int64
}

func classifyX509(err error) string {
	var he x509.HostnameError
	var ua x509.UnknownAuthorityError
	var ci x509.CertificateInvalidError
	switch {
	case err == nil:
		return "ok"
	case errors.As(err, &he):
		return "hostname"
	case errors.As(err, &ua):
		return "unknown-authority"
	case errors.As(err, &ci):
		if ci.Reason == x509.Expired {
			return "expired"
		}
		return fmt.Sprintf("invalid:%d", ci.Reason)
	}
	return "other:" + err.Error()
}

func classify(err error) (string, []byte) {
	if err == nil {
		return "ok", nil
	}
	var rej *tls.ECHRejectionError
	if errors.As(err, &rej) {
		return "ech-rejected", rej.RetryConfigList
	}
	var cve *tls.CertificateVerificationError
	if errors.As(err, &cve) {
		return classifyX509(cve.Err), nil
	}
	return "other:" + err.Error(), nil
}

func (e *env) handshake(cs cfgSpec, lk leafKind, cache tls.ClientSessionCache) obs {
	srv := e.servers[[2]int{int(lk), int(cs.vers)}]
	conn, err := net.DialTimeout("tcp", srv.addr, 5*time.Second)
	if err != nil {
		return obs{class: "other:dial " + err.Error()}
	}
	defer conn.Close()
	conn.SetDeadline(time.Now().Add(10 * time.Second))
	// the two entry points run different code up to the certificate (handshake_client.go vs u_handshake_client.go)
	type hsConn interface {
		Handshake() error
		ConnectionState() tls.ConnectionState
		Read([]byte) (int, error)
		Close() error
	}
	var uc hsConn
	switch {
	case cs.cl.plain:
		uc = tls.Client(conn, e.clientConfig(cs, cache))
	case cs.sni == sniRemoved:
		u := tls.UClient(conn, e.clientConfig(cs, cache), cs.cl.id)
		if err := u.RemoveSNIExtension(); err != nil {
			return obs{class: "other:RemoveSNIExtension " + err.Error()}
		}
		uc = u
	case cs.sni == sniCustom:
		spec, err := tls.UTLSIdToSpec(cs.cl.id)
		if err != nil {
			return obs{class: "other:UTLSIdToSpec " + err.Error()}
		}
		var exts []tls.TLSExtension
		for _, x := range spec.Extensions {
			if _, isSNI := x.(*tls.SNIExtension); !isSNI {
				exts = append(exts, x)
			}
		}
		spec.Extensions = exts
		u := tls.UClient(conn, e.clientConfig(cs, cache), tls.HelloCustom)
		if err := u.ApplyPreset(&spec); err != nil {
			return obs{class: "other:ApplyPreset " + err.Error()}
		}
		uc = u
	default:
		uc = tls.UClient(conn, e.clientConfig(cs, cache), cs.cl.id)
	}
	err = uc.Handshake()
	var o obs
	o.class, o.retry = classify(err)
	st := uc.ConnectionState()
	o.didResume, o.echAccepted, o.connName, o.vers = st.DidResume, st.ECHAccepted, st.ServerName, st.Version
	if len(st.PeerCertificates) > 0 {
		o.leafSerial = st.PeerCertificates[0].SerialNumber.Int64()
	}
	if err == nil {
		var b [1]byte
		uc.Read(b[:]) // the server's byte; with TLS 1.3 this also takes in the NewSessionTicket
		uc.Close()
	}
	return o
}

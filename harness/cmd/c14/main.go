// C14 runner: server certificates are verified exactly as the Config requests.
//
// Real handshakes over loopback TCP between utls clients (HelloGolang and parrots) and the Go
// server of the utls package, over a generated PKI whose leaves differ in one respect each.
// Three things happen with every handshake:
//   - Go-side oracle (written from the property text, independent of the model): Go's own
//     x509.Certificate.Verify is called with the options the PROPERTY demands; a handshake that
//     completes although that verification fails, or is refused although it passes, or whose error
//     type differs from what Go's verifier reports, is a c.Fail.
//   - correspondence: the observation is emitted as a Coq case and compared with Model/Verify.v
//     instantiated with a small concrete X.509 (which is itself compared with crypto/x509, CX509).
//   - inference: per configuration, the set of leaf variants that pass tells which name and which
//     time the real verification evidently used; compared with the model's used_name/used_time.
package main

import (
	"verif/harness/vh"
)

func main() {
	vh.Main(map[string]vh.Suite{
		"C14": {Corr: "Corr.C14Corr", Run: runC14},
	})
}

package main

import (
	"fmt"
	"time"

	tls "github.com/refraction-networking/utls"
	"verif/harness/vh"
)

// Resumed sessions: connection 1 (configuration A) fills a shared ClientSessionCache, connection 2
// (configuration B, same ServerName hence same cache key, same server) may resume it. The server sends no
// certificate on resumption, so everything rests on loadSession's re-check of the cached leaf against B.

type stage1 struct {
	inv        nameSetting
	skipVerify bool
	lk         leafKind
}

var stage1s = []stage1{
	{nsUnset, false, lS},   // cached leaf valid for ServerName only
	{nsUnset, false, lAll}, // cached leaf valid for S, O and P
	{nsOther, false, lO},   // verified for the other name
	{nsStar, false, lW},    // verified without a name
	{nsUnset, true, lS},    // established with InsecureSkipVerify: no verified chains
	{nsUnset, true, lW},
}

type resPair struct {
	a, b   cfgSpec
	lk     leafKind
	o1, o2 obs
}

func (e *env) runPairs(ps []*resPair) {
	ch := make(chan *resPair)
	done := make(chan bool)
	for w := 0; w < 8; w++ {
		go func() {
			for p := range ch {
				cache := tls.NewLRUClientSessionCache(4)
				p.o1 = e.handshake(p.a, p.lk, cache)
				if p.o1.class == "ok" {
					p.o2 = e.handshake(p.b, p.lk, cache)
				}
			}
			done <- true
		}()
	}
	for _, p := range ps {
		ch <- p
	}
	close(ch)
	for w := 0; w < 8; w++ {
		<-done
	}
}

func (e *env) resumed(c *vh.Ctx) {
	clients := append([]clientID{}, quickClients...)
	if c.Tier != "quick" {
		clients = append(clients, moreClients...)
	}
	type cv struct {
		cl   clientID
		vers uint16
		ech  echMode
	}
	var cvs []cv
	for _, cl := range clients {
		cvs = append(cvs, cv{cl, tls.VersionTLS12, echNone}, cv{cl, tls.VersionTLS13, echNone})
		if cl.ech {
			cvs = append(cvs, cv{cl, tls.VersionTLS13, echAccept})
		}
	}
	// which (client, version) resume at all with identical configurations
	var base []*resPair
	for _, x := range cvs {
		cs := cfgSpec{cl: x.cl, vers: x.vers, ech: x.ech}
		base = append(base, &resPair{a: cs, b: cs, lk: lAll})
	}
	e.runPairs(base)
	var pairs []*resPair
	supported := []string{}
	for i, x := range cvs {
		tag := fmt.Sprintf("%s/tls1.%d/%s", x.cl.name, x.vers-0x0301, x.ech)
		if !(base[i].o1.class == "ok" && base[i].o2.class == "ok" && base[i].o2.didResume) {
			c.Count("resumption-not-available:" + tag)
			continue
		}
		supported = append(supported, tag)
		for _, s1 := range stage1s {
			for _, inv := range []nameSetting{nsUnset, nsOther, nsStar} {
				for _, st := range []bool{false, true} {
					for _, sv := range []bool{false, true} {
						for _, off := range []time.Duration{0, 13 * time.Hour} {
							a := cfgSpec{cl: x.cl, vers: x.vers, ech: x.ech, inv: s1.inv, skipVerify: s1.skipVerify}
							b := cfgSpec{cl: x.cl, vers: x.vers, ech: x.ech, inv: inv, skipTime: st, skipVerify: sv, timeOff: off}
							pairs = append(pairs, &resPair{a: a, b: b, lk: s1.lk})
						}
					}
				}
			}
		}
	}
	c.Extra["resumption_available"] = supported
	if c.Tier == "quick" {
		// always: for every resumable (client, version), a verifying second configuration with each name setting and both clocks
		// after a first connection that cached a leaf valid for ServerName only (verified, and with InsecureSkipVerify);
		// plus a seeded sample of the rest
		var keep, rest []*resPair
		for _, p := range pairs {
			if p.lk == lS && p.a.inv == nsUnset && !p.b.skipVerify && !p.b.skipTime {
				keep = append(keep, p)
			} else {
				rest = append(rest, p)
			}
		}
		c.Rng.Shuffle(len(rest), func(i, j int) { rest[i], rest[j] = rest[j], rest[i] })
		if max := c.N / 2; len(rest) > max {
			rest = rest[:max]
		}
		pairs = append(keep, rest...)
	}
	e.runPairs(pairs)
	for _, p := range pairs {
		l := e.p.leaves[p.lk]
		in := map[string]any{"first_connection": p.a.key(), "second_connection": p.b.key(), "cached_leaf": p.lk.String(),
			"cached_leaf_names": l.sanNames(), "cached_leaf_not_after": l.cert.NotAfter, "client_time_2": p.b.now(),
			"first_connection_InsecureSkipVerify": p.a.skipVerify}
		if p.o1.class != "ok" {
			c.Count("resume-setup-failed")
			c.Fail("resume-setup/"+p.a.cl.name, "the first connection of a resumption scenario did not complete", in, p.o1.class, "ok")
			continue
		}
		scen := fmt.Sprintf("inv=%s/skiptime=%v/skipverify=%v/t+%dh", p.b.inv, p.b.skipTime, p.b.skipVerify, int(p.b.timeOff.Hours()))
		if p.o2.didResume {
			c.Count("resumed")
			// property text: unless InsecureSkipVerify, success needs a chain that verified against RootCAs and a
			// leaf matching the (current) verification name at the configured time, unless the time check is relaxed
			if !p.b.skipVerify {
				if p.a.skipVerify {
					c.Fail("resumed-unverified-session/"+scen, "a session established with InsecureSkipVerify (its chain never verified) was resumed by a configuration that requires verification", in, "resumed", "full handshake")
				}
				if n := expectedName(p.b, false); n != "" && l.cert.VerifyHostname(n) != nil {
					c.Fail("resumed-wrong-name/"+scen+"/leaf="+p.lk.String(), "resumed although the cached leaf does not match the verification name "+n, in, "resumed", "full handshake")
				}
				if !p.b.skipTime && p.b.now().After(l.cert.NotAfter) {
					c.Fail("resumed-expired-leaf/"+scen, "resumed although the cached leaf is expired at the configured time", in, "resumed", "full handshake")
				}
			}
			if p.o2.class != "ok" {
				c.Fail("resumed-error/"+p.b.cl.name, "a resumed handshake ended with an error", in, p.o2.class, "ok")
			}
		} else {
			c.Count("not-resumed")
			// a full handshake took place: judged like any fresh one
			e.judge(c, p.b, p.lk, p.o2)
		}
		coq := fmt.Sprintf("(CResume %s %s %s %s)", e.coqCfg(p.b), coqLeaf(l), vh.Bool(!p.a.skipVerify), vh.Bool(p.o2.didResume))
		c.Case("resume", coq, p.a.key()+"|"+p.b.key()+"|"+p.lk.String(), !p.b.skipVerify, map[string]any{"first": p.a.key(), "second": p.b.key(), "leaf": p.lk.String(), "resumed": p.o2.didResume})
	}
}

package main

import (
	"fmt"
	"os"

	tls "github.com/refraction-networking/utls"
	"verif/harness/vh"
)

var quickClients = []clientID{
	{"HelloGolang", tls.HelloGolang, true},
	{"HelloChrome_120", tls.HelloChrome_120, true},
	{"HelloFirefox_120", tls.HelloFirefox_120, true},
	{"HelloChrome_112_PSK_Shuf", tls.HelloChrome_112_PSK_Shuf, false},
}

func runC14(c *vh.Ctx) {
	e := newEnv()
	defer e.close()
	if os.Getenv("C14_DEBUG") != "" {
		for _, cl := range quickClients {
			for _, v := range []uint16{tls.VersionTLS12, tls.VersionTLS13} {
				for _, em := range []echMode{echNone, echAccept, echReject} {
					if em != echNone && (!cl.ech || v != tls.VersionTLS13) {
						continue
					}
					for _, inv := range []nameSetting{nsUnset, nsOther, nsStar} {
						for _, st := range []bool{false, true} {
							for _, sv := range []bool{false, true} {
								cs := cfgSpec{cl: cl, vers: v, ech: em, inv: inv, skipTime: st, skipVerify: sv}
								line := cs.key() + ":"
								for lk := leafKind(0); lk < nLeaf; lk++ {
									o := e.handshake(cs, lk, nil)
									line += fmt.Sprintf(" %s=%s", lk, o.class)
									if lk == 0 {
										line += fmt.Sprintf("[acc=%v name=%s v=%x]", o.echAccepted, o.connName, o.vers)
									}
								}
								fmt.Println(line)
							}
						}
					}
				}
			}
		}
	}
}

package main

import (
	"bytes"
	"fmt"
	"sort"
	"sync"
	"time"

	tls "github.com/refraction-networking/utls"
	"verif/harness/vh"
)

// ---------------- client ids ----------------

var quickClients = []clientID{
	{name: "tls.Client", ech: true, plain: true}, // plain crypto/tls entry point: Conn.clientHandshake
	{name: "HelloGolang", id: tls.HelloGolang, ech: true},
	{name: "HelloChrome_120", id: tls.HelloChrome_120, ech: true},
	{name: "HelloFirefox_120", id: tls.HelloFirefox_120, ech: true},
	{name: "HelloChrome_112_PSK_Shuf", id: tls.HelloChrome_112_PSK_Shuf},
}

var moreClients = []clientID{
	{name: "HelloChrome_133", id: tls.HelloChrome_133, ech: true},
	{name: "HelloChrome_131", id: tls.HelloChrome_131, ech: true},
	{name: "HelloChrome_120_PQ", id: tls.HelloChrome_120_PQ, ech: true},
	{name: "HelloChrome_100_PSK", id: tls.HelloChrome_100_PSK},
	{name: "HelloChrome_115_PQ_PSK", id: tls.HelloChrome_115_PQ_PSK},
	{name: "HelloChrome_106_Shuffle", id: tls.HelloChrome_106_Shuffle},
	{name: "HelloFirefox_105", id: tls.HelloFirefox_105},
	{name: "HelloIOS_14", id: tls.HelloIOS_14},
	{name: "HelloSafari_16_0", id: tls.HelloSafari_16_0},
	{name: "HelloEdge_106", id: tls.HelloEdge_106},
	{name: "Hello360_11_0", id: tls.Hello360_11_0},
	{name: "HelloQQ_11_1", id: tls.HelloQQ_11_1},
}

// ---------------- the oracle, from the property text ----------------

// expectedName: "ServerName by default and InsecureServerNameToVerify when set; the name check is skipped
// when that field is "*" ... a rejected ECH offer is verified against the ECH public name". "" = no check.
func expectedName(cs cfgSpec, rejected bool) string {
	if rejected {
		return nameP
	}
	switch cs.inv {
	case nsOther:
		return nameO
	case nsStar:
		return ""
	}
	return cs.serverName() // Config.ServerName as configured — whatever did or did not go into SNI
}

// verdict of the property for one presented leaf: must the certificate be accepted / refused, and with
// which x509 error class. Both false = the property text does not decide (see below).
type verdict struct {
	mustPass, mustFail bool
	class              string // expected error class when mustFail ("" = not determined)
}

func (e *env) oracle(cs cfgSpec, rejected bool, l *leaf) verdict {
	if cs.skipVerify && !rejected {
		return verdict{mustPass: true} // "Unless InsecureSkipVerify is set"
	}
	name := expectedName(cs, rejected)
	var v verdict
	if !cs.skipTime {
		err := e.p.x509Verify(l, name, cs.now()) // "at the configured time"
		v.mustPass, v.mustFail, v.class = err == nil, err != nil, classifyX509(err)
	} else {
		// "InsecureSkipTimeVerify relaxes only the validity period": everything but the leaf's validity
		// window is still enforced. Evaluate at instants inside the leaf's own window; if they agree the
		// property decides, otherwise (a leaf outliving its issuer) it does not.
		nb, na := l.cert.NotBefore, l.cert.NotAfter
		ts := []time.Time{na, nb, nb.Add(na.Sub(nb) / 2)}
		pass, fail := 0, 0
		classes := map[string]bool{}
		for _, t := range ts {
			if err := e.p.x509Verify(l, name, t); err == nil {
				pass++
			} else {
				fail++
				classes[classifyX509(err)] = true
			}
		}
		v.mustPass, v.mustFail = fail == 0, pass == 0
		if v.mustFail && len(classes) == 1 {
			for k := range classes {
				v.class = k
			}
		}
	}
	if rejected && cs.skipVerify {
		// The sentence starts with "Unless InsecureSkipVerify is set" and a rejected offer never
		// "succeeds": whether the client-facing server is still authenticated is not decided by the text.
		// Only require that retry configs are never handed out for a chain that fails for the public name
		// AND that a good public-name chain is not refused for a name reason.
		v.mustFail = false
	}
	return v
}

// ---------------- Coq terms ----------------

func (e *env) coqRoots() string {
	return fmt.Sprintf("[TRoot 1 %s %s]", vh.Z(e.p.caNB.Unix()), vh.Z(e.p.caNA.Unix()))
}

// Coq ids: root CAs are 1 (trusted) and 2 (untrusted); the intermediate of leaf kind k is 10+k.
func coqLeaf(l *leaf) string {
	var ns []string
	for _, n := range l.sanNames() {
		ns = append(ns, vh.Str(n))
	}
	issuer := 1
	if !l.trusted {
		issuer = 2
	}
	if len(l.inter) > 0 {
		issuer = 10 + int(l.kind)
	}
	return fmt.Sprintf("(TCert %s %s %s %d 0)", vh.List(ns), vh.Z(l.cert.NotBefore.Unix()), vh.Z(l.cert.NotAfter.Unix()), issuer)
}

// coqChain: the chain as the server presents it, leaf first.
func coqChain(l *leaf) string {
	items := []string{coqLeaf(l)}
	for _, ic := range l.inter {
		issuer := 1
		if !l.trusted {
			issuer = 2
		}
		items = append(items, fmt.Sprintf("(TCert [] %s %s %d %d)", vh.Z(ic.NotBefore.Unix()), vh.Z(ic.NotAfter.Unix()), issuer, 10+int(l.kind)))
	}
	return vh.List(items)
}

func (e *env) coqCfg(cs cfgSpec) string {
	return fmt.Sprintf("(mkConfig %s %s %s %s %s %s %s None true)", vh.Str(cs.serverName()), vh.Str(cs.inv.value()),
		vh.Bool(cs.skipVerify), vh.Bool(cs.skipTime), e.coqRoots(), vh.Z(cs.now().Unix()), vh.Bool(cs.ech != echNone))
}

func outcomeCode(class string) int {
	switch class {
	case "ok":
		return 0
	case "hostname", "unknown-authority", "expired":
		return 1
	case "ech-rejected":
		return 3
	}
	return 2
}

// ---------------- one handshake: oracle + case ----------------

type hsJob struct {
	cs    cfgSpec
	lk    leafKind
	cache tls.ClientSessionCache
	o     obs
}

// judge applies the Go-side oracle to a full (non-resumed) handshake and emits its Coq case.
func (e *env) judge(c *vh.Ctx, cs cfgSpec, lk leafKind, o obs) {
	l := e.p.leaves[lk]
	rejected := cs.ech != echNone && !o.echAccepted
	in := map[string]any{"config": cs.key(), "leaf": lk.String(), "leaf_names": l.sanNames(), "sni": cs.sni.String(), "observed_conn_serverName": o.connName,
		"leaf_not_before": l.cert.NotBefore, "leaf_not_after": l.cert.NotAfter, "trusted_issuer": l.trusted,
		"intermediates": interDesc(l), "client_time": cs.now(), "ServerName": cs.serverName(), "InsecureServerNameToVerify": cs.inv.value(), "ech_public_name": nameP}
	if len(o.class) > 6 && o.class[:6] == "other:" {
		// not a certificate outcome (I/O, an unrelated handshake failure): outside this property, but never silent
		c.Count("unrelated-handshake-error")
		c.Fail("unexpected-handshake-error/"+cs.cl.name, "handshake failed for a reason unrelated to certificate verification", in, o.class, "nil, CertificateVerificationError or ECHRejectionError")
		return
	}
	if cs.ech == echAccept && !o.echAccepted {
		c.Fail("ech-not-accepted/"+cs.cl.name, "the server holds the offered ECH config but the client reports ECH as not accepted", in, o.class, "ECHAccepted")
		return
	}
	v := e.oracle(cs, rejected, l)
	passed := o.class == "ok" || o.class == "ech-rejected"
	scen := fmt.Sprintf("%s/inv=%s/skiptime=%v/skipverify=%v", cs.ech, cs.inv, cs.skipTime, cs.skipVerify)
	if cs.nameGrid() {
		scen += fmt.Sprintf("/servername=%s/%s", cs.sn, cs.sni)
	}
	switch {
	case passed && v.mustFail:
		wantClass := v.class
		if wantClass == "" {
			wantClass = "refused with a CertificateVerificationError"
		}
		c.Fail("accepts-bad-certificate/"+scen+"/leaf="+lk.String(), "the handshake got past certificate verification although Go's x509 verifier, called with the options the property demands (RootCAs, configured time, expected name "+fmt.Sprintf("%q", expectedName(cs, rejected))+"), rejects the chain", in, o.class, wantClass)
	case !passed && v.mustPass:
		what := "the certificate verifies for the expected name " + fmt.Sprintf("%q", expectedName(cs, rejected)) + " at the expected time, but the client refused it"
		key := "refuses-good-certificate/" + scen + "/leaf=" + lk.String()
		if rejected {
			key = "ech-rejected-public-name/" + scen + "/leaf=" + lk.String()
			what = "ECH was rejected and the client-facing server presented a chain valid for the ECH public name, but the client verified it against another name and never returned ECHRejectionError with the retry configs"
		}
		c.Fail(key, what, in, o.class, map[bool]string{true: "ech-rejected", false: "ok"}[rejected])
	case !passed && v.mustFail && v.class != "" && v.class != o.class:
		c.Fail("error-class/"+scen+"/leaf="+lk.String(), "certificate refused with another error type than Go's verifier reports for the options the property demands", in, o.class, v.class)
	}
	if passed {
		if rejected && o.class != "ech-rejected" {
			c.Fail("ech-rejected-not-reported/"+cs.cl.name, "ECH was not accepted but Handshake returned nil", in, o.class, "ech-rejected")
		}
		if !rejected && o.class != "ok" {
			c.Fail("ech-rejection-unexpected/"+cs.cl.name, "ECHRejectionError although ECH was accepted or not offered", in, o.class, "ok")
		}
		if rejected && o.class == "ech-rejected" && !bytes.Equal(o.retry, e.echSrv.list) {
			c.Fail("ech-retry-configs/"+cs.cl.name, "ECHRejectionError does not carry the server's retry config list", in, vh.Hex(o.retry), vh.Hex(e.echSrv.list))
		}
	}
	c.Count("outcome:" + o.class)
	coq := fmt.Sprintf("(CFresh %s %s %s %s %s %d)", e.coqCfg(cs), vh.Str(nameP), vh.Bool(o.echAccepted), vh.Str(o.connName), coqChain(l), outcomeCode(o.class))
	nontriv := !cs.skipVerify || rejected
	c.Case("handshake", coq, cs.key()+"|"+lk.String(), nontriv, map[string]any{"config": cs.key(), "leaf": lk.String(), "outcome": o.class})
}

// inferName / inferTime: which name and time the verification evidently used, from the leaf variants that passed.
func inferName(pass map[leafKind]bool) (string, string) {
	pat := [4]bool{pass[lS], pass[lO], pass[lP], pass[lW]}
	switch pat {
	case [4]bool{true, false, false, false}:
		return "(Some (Some " + vh.Str(nameS) + "))", nameS
	case [4]bool{false, true, false, false}:
		return "(Some (Some " + vh.Str(nameO) + "))", nameO
	case [4]bool{false, false, true, false}:
		return "(Some (Some " + vh.Str(nameP) + "))", nameP
	case [4]bool{true, true, true, true}:
		return "(Some None)", "<no name check>"
	}
	return "None", fmt.Sprintf("<ambiguous %v>", pat)
}

func inferTime(pass map[leafKind]bool) (int, string) {
	pat := [4]bool{pass[lAll], pass[lExpired], pass[lNotYet], pass[lLong]}
	switch pat {
	case [4]bool{true, false, false, true}:
		return 0, "Config.Time"
	case [4]bool{true, true, true, false}:
		return 1, "leaf.NotAfter"
	case [4]bool{true, true, true, true}:
		return 2, "<no time check>"
	}
	return 3, fmt.Sprintf("<ambiguous %v>", pat)
}

// ---------------- driver ----------------

func (e *env) runJobs(jobs []*hsJob) {
	var wg sync.WaitGroup
	ch := make(chan *hsJob)
	for w := 0; w < 8; w++ {
		wg.Add(1)
		go func() {
			defer wg.Done()
			for j := range ch {
				j.o = e.handshake(j.cs, j.lk, j.cache)
			}
		}()
	}
	for _, j := range jobs {
		ch <- j
	}
	close(ch)
	wg.Wait()
}

func allConfigs(cl clientID) []cfgSpec {
	var out []cfgSpec
	for _, v := range []uint16{tls.VersionTLS12, tls.VersionTLS13} {
		for _, em := range []echMode{echNone, echAccept, echReject} {
			if em != echNone && (!cl.ech || v != tls.VersionTLS13) {
				continue
			}
			for _, inv := range []nameSetting{nsUnset, nsOther, nsStar} {
				for _, st := range []bool{false, true} {
					for _, sv := range []bool{false, true} {
						out = append(out, cfgSpec{cl: cl, vers: v, ech: em, inv: inv, skipTime: st, skipVerify: sv})
					}
				}
			}
		}
	}
	return out
}

// nameGridConfigs: ServerNames that never reach SNI as configured (IP literals, trailing dot) and clients that send
// no SNI at all. Verification still has to use Config.ServerName. No ECH, verification on, both versions.
func nameGridConfigs() (mandatory, rest []cfgSpec) {
	add := func(cs cfgSpec) {
		if cs.inv == nsUnset && (cs.vers == tls.VersionTLS13 || cs.sni != sniNormal) {
			mandatory = append(mandatory, cs)
		} else {
			rest = append(rest, cs)
		}
	}
	for _, v := range []uint16{tls.VersionTLS13, tls.VersionTLS12} {
		for _, inv := range []nameSetting{nsUnset, nsOther, nsStar} {
			for _, cl := range quickClients[:3] { // tls.Client, UClient(HelloGolang), Chrome_120
				for _, sn := range []snKind{snDot, snIP4, snIP6, snIP6Br} {
					add(cfgSpec{cl: cl, vers: v, inv: inv, sn: sn})
				}
			}
			add(cfgSpec{cl: quickClients[2], vers: v, inv: inv, sni: sniRemoved}) // Chrome_120
			add(cfgSpec{cl: quickClients[3], vers: v, inv: inv, sni: sniRemoved}) // Firefox_120
			add(cfgSpec{cl: quickClients[2], vers: v, inv: inv, sni: sniCustom})
		}
	}
	return
}

// leavesFor: the chains a configuration is run against.
func leavesFor(cs cfgSpec) []leafKind {
	if cs.nameGrid() {
		return []leafKind{lAll, lS, lO, lP, lW, lIP, lIPOther, lUntrusted}
	}
	var out []leafKind
	for lk := leafKind(0); lk < lIP; lk++ {
		// the 4 chains with an intermediate only where a verification takes place (with InsecureSkipVerify and no
		// rejection every chain passes trivially)
		if lk >= lIntT && cs.skipVerify && cs.ech != echReject {
			continue
		}
		out = append(out, lk)
	}
	if !cs.skipVerify && cs.ech == echNone {
		out = append(out, lIP) // a leaf without any DNS name
	}
	return out
}

func runC14(c *vh.Ctx) {
	e := newEnv()
	defer e.close()

	// (0) the concrete X.509 of the model against crypto/x509, on every leaf x name x time the run can use
	e.x509Cases(c)

	// (1) the former witness of F-14 first, always: ECH rejected, correct client-facing server (leaf valid
	//     for the public name only), default configuration; tls.Client, UClient(HelloGolang) and one parrot.
	var jobs []*hsJob
	for _, cl := range quickClients[:3] {
		jobs = append(jobs, &hsJob{cs: cfgSpec{cl: cl, vers: tls.VersionTLS13, ech: echReject}, lk: lP})
	}
	e.runJobs(jobs)
	for _, j := range jobs {
		c.Count("corpus:ech-rejected-public-leaf")
		e.judge(c, j.cs, j.lk, j.o)
	}

	// (2) fresh handshakes: configurations x all leaf variants
	clients := append([]clientID{}, quickClients...)
	var cfgs []cfgSpec
	for _, cl := range clients {
		cfgs = append(cfgs, allConfigs(cl)...)
	}
	if c.Tier != "quick" {
		ngm, ngr := nameGridConfigs()
		cfgs = append(cfgs, ngm...)
		cfgs = append(cfgs, ngr...)
		// every further parrot: a random third of the matrix each (seeded)
		for _, cl := range moreClients {
			for _, cs := range allConfigs(cl) {
				if c.Rng.Intn(3) == 0 {
					cfgs = append(cfgs, cs)
				}
			}
		}
	} else {
		// quick: every ECH-rejected configuration for every ECH-capable entry point
		// (tls.Client, UClient(HelloGolang), parrots), plus a seeded sample of the remaining matrix up to -n configurations
		// mandatory: every ECH-rejected configuration of tls.Client and UClient(HelloGolang), the verifying default-time ones of
		// the ECH parrots, and the name-grid configurations with the default name setting
		var keep, rest []cfgSpec
		for _, cs := range cfgs {
			golike := cs.cl.plain || cs.cl.name == "HelloGolang"
			if cs.ech == echReject && (golike || (!cs.skipVerify && !cs.skipTime)) {
				keep = append(keep, cs)
			} else {
				rest = append(rest, cs)
			}
		}
		ngm, ngr := nameGridConfigs()
		keep = append(keep, ngm...)
		rest = append(rest, ngr...)
		c.Rng.Shuffle(len(rest), func(i, j int) { rest[i], rest[j] = rest[j], rest[i] })
		if room := c.N - len(keep); room < len(rest) {
			if room < 0 {
				room = 0
			}
			rest = rest[:room]
		}
		cfgs = append(keep, rest...)
	}
	jobs = jobs[:0]
	var starts []int
	for _, cs := range cfgs {
		starts = append(starts, len(jobs))
		for _, lk := range leavesFor(cs) {
			jobs = append(jobs, &hsJob{cs: cs, lk: lk})
		}
	}
	starts = append(starts, len(jobs))
	e.runJobs(jobs)
	for si := 0; si+1 < len(starts); si++ {
		i := starts[si]
		cs := jobs[i].cs
		pass := map[leafKind]bool{}
		usable := true
		accepted := false
		for _, j := range jobs[i:starts[si+1]] {
			e.judge(c, j.cs, j.lk, j.o)
			pass[j.lk] = j.o.class == "ok" || j.o.class == "ech-rejected"
			if outcomeCode(j.o.class) == 2 {
				usable = false
			}
			accepted = accepted || j.o.echAccepted
		}
		if !usable || cs.nameGrid() {
			continue // name-grid configurations run against another leaf set; judged per handshake only
		}
		nm, nmText := inferName(pass)
		tc, tcText := inferTime(pass)
		c.Count("inferred-name:" + map[bool]string{true: "ech-rejected:", false: ""}[cs.ech == echReject] + nmText)
		c.Count("inferred-time:" + tcText)
		coq := fmt.Sprintf("(CInfer %s %s %s %s %s %d)", e.coqCfg(cs), vh.Str(nameP), vh.Bool(accepted), coqLeaf(e.p.leaves[lAll]), nm, tc)
		c.Case("inferred", coq, cs.key(), !cs.skipVerify || cs.ech == echReject, map[string]any{"config": cs.key(), "name_used": nmText, "time_used": tcText})
		// the same inference against the property text (independent of the model)
		rejected := cs.ech == echReject
		if !cs.skipVerify || rejected {
			want := expectedName(cs, rejected)
			if want == "" {
				want = "<no name check>"
			}
			if nmText != want && !(rejected && cs.skipVerify) {
				key := "name-used/" + fmt.Sprintf("%s/inv=%s", cs.ech, cs.inv)
				if rejected {
					key = "ech-rejected-public-name/inferred/inv=" + cs.inv.String()
				}
				c.Fail(key, "the set of leaf variants that pass shows the verification used another name than the property prescribes", map[string]any{"config": cs.key(), "passing_leaves": passList(pass)}, nmText, want)
			}
		}
	}

	// (3) resumed sessions over a shared ClientSessionCache
	e.resumed(c)

	c.Extra["clients"] = clientNames(cfgs)
	c.Extra["leaf_variants"] = leafNames
	c.Extra["names"] = map[string]string{"ServerName": nameS, "InsecureServerNameToVerify(name)": nameO, "ech_public_name": nameP, "wrong": nameW}
}

func interDesc(l *leaf) []string {
	var out []string
	for _, ic := range l.inter {
		out = append(out, fmt.Sprintf("%s (issuer %s, NotAfter %s)", ic.Subject.CommonName, ic.Issuer.CommonName, ic.NotAfter.Format(time.RFC3339)))
	}
	return out
}

func passList(pass map[leafKind]bool) []string {
	var out []string
	for lk := leafKind(0); lk < nLeaf; lk++ {
		if pass[lk] {
			out = append(out, lk.String())
		}
	}
	return out
}

func clientNames(cfgs []cfgSpec) []string {
	m := map[string]bool{}
	for _, cs := range cfgs {
		m[cs.cl.name] = true
	}
	var out []string
	for k := range m {
		out = append(out, k)
	}
	sort.Strings(out)
	return out
}

// x509Cases: CX509 cases — the model's concrete X.509 must agree with crypto/x509 on every input the run uses.
func (e *env) x509Cases(c *vh.Ctx) {
	times := []time.Time{T0, T0.Add(13 * time.Hour)}
	for lk := leafKind(0); lk < nLeaf; lk++ {
		l := e.p.leaves[lk]
		ts := append([]time.Time{l.cert.NotAfter, l.cert.NotBefore}, times...)
		for _, n := range []string{"", nameS, nameP} {
			for _, t := range ts {
				ok := e.p.x509Verify(l, n, t) == nil
				coq := fmt.Sprintf("(CX509 %s %s %s %s %s)", e.coqRoots(), coqChain(l), vh.Str(n), vh.Z(t.Unix()), vh.Bool(ok))
				c.Case("x509", coq, fmt.Sprintf("%s|%s|%d", lk, n, t.Unix()), n != "", nil)
			}
		}
		for _, n := range []string{nameS + ".", ip4, ip6, "[" + ip6 + "]", ipOther, nameO} {
			ok := e.p.x509Verify(l, n, T0) == nil
			coq := fmt.Sprintf("(CX509 %s %s %s %s %s)", e.coqRoots(), coqChain(l), vh.Str(n), vh.Z(T0.Unix()), vh.Bool(ok))
			c.Case("x509", coq, fmt.Sprintf("%s|%s|%d", lk, n, T0.Unix()), true, nil)
		}
	}
}

package main

// Throw-away PKI for C14: one trusted CA, one untrusted CA, and leaves that differ in exactly one
// respect (names / issuer / validity window). All times are relative to the fixed instant T0 that
// both the client and the server Config.Time return, so runs are reproducible.

import (
	"crypto/ecdsa"
	"crypto/elliptic"
	"crypto/rand"
	"crypto/x509"
	"crypto/x509/pkix"
	"math/big"
	"net"
	"time"

	tls "github.com/refraction-networking/utls"
)

var T0 = time.Unix(1767225600, 0).UTC() // 2026-01-01T00:00:00Z

const (
	nameS = "secret.c14.test" // Config.ServerName (with ECH: the inner, secret name)
	nameO = "other.c14.test"  // Config.InsecureServerNameToVerify when it is a name
	nameP = "public.c14.test" // ECH public name
	nameW = "wrong.c14.test"  // never requested by any configuration
	// IP-literal ServerNames: hostnameInSNI drops them, so nothing goes into SNI
	ip4     = "10.9.8.7"
	ip6     = "2001:db8::7"
	ipOther = "10.9.8.8"
)

type leafKind int

const (
	lAll       leafKind = iota // valid, names S,O,P
	lS                         // valid, name S only
	lO                         // valid, name O only
	lP                         // valid, name P only
	lW                         // valid, name W only ("wrong name")
	lUntrusted                 // names S,O,P, valid window, issued by a CA that is not in RootCAs
	lExpired                   // names S,O,P, window ended 24h before T0
	lNotYet                    // names S,O,P, window starts 24h after T0
	lLong                      // names S,O,P, valid at T0, NotAfter later than the CA's NotAfter
	// chains with an intermediate (leaf: names S,O,P, the usual valid window)
	lIntT      // trusted root -> intermediate valid beyond the leaf's NotAfter -> leaf
	lIntTShort // trusted root -> intermediate valid at T0 but expiring before the leaf -> leaf
	lIntU      // untrusted root -> intermediate valid beyond the leaf's NotAfter -> leaf
	lIntUShort // untrusted root -> intermediate expiring before the leaf -> leaf
	lIP        // valid, IP SANs 10.9.8.7 and 2001:db8::7, no DNS name
	lIPOther   // valid, IP SAN 10.9.8.8 only
	nLeaf
)

var leafNames = [...]string{"all", "S", "O", "P", "W", "untrusted", "expired", "notyet", "long", "intT", "intTshort", "intU", "intUshort", "ip", "ipother"}

func (k leafKind) String() string { return leafNames[k] }

type leaf struct {
	kind    leafKind
	der     []byte
	cert    *x509.Certificate
	tlsCert tls.Certificate
	trusted bool                // issued (directly or through the intermediate) under the CA that is in RootCAs
	inter   []*x509.Certificate // intermediates the server sends after the leaf
}

type pki struct {
	ca, ca2       *x509.Certificate
	caKey, ca2Key *ecdsa.PrivateKey
	roots         *x509.CertPool
	leaves        [nLeaf]*leaf
	caNB, caNA    time.Time
}

func mkCA(cn string, nb, na time.Time) (*x509.Certificate, *ecdsa.PrivateKey) {
	k, err := ecdsa.GenerateKey(elliptic.P256(), rand.Reader)
	if err != nil {
		panic(err)
	}
	t := &x509.Certificate{SerialNumber: big.NewInt(1), Subject: pkix.Name{CommonName: cn},
		NotBefore: nb, NotAfter: na, IsCA: true, BasicConstraintsValid: true,
		KeyUsage: x509.KeyUsageCertSign | x509.KeyUsageDigitalSignature}
	der, err := x509.CreateCertificate(rand.Reader, t, t, &k.PublicKey, k)
	if err != nil {
		panic(err)
	}
	c, _ := x509.ParseCertificate(der)
	return c, k
}

func newPKI() *pki {
	p := &pki{caNB: T0.Add(-72 * time.Hour), caNA: T0.Add(72 * time.Hour)}
	p.ca, p.caKey = mkCA("C14 trusted CA", p.caNB, p.caNA)
	p.ca2, p.ca2Key = mkCA("C14 untrusted CA", p.caNB, p.caNA)
	p.roots = x509.NewCertPool()
	p.roots.AddCert(p.ca)
	lk, err := ecdsa.GenerateKey(elliptic.P256(), rand.Reader)
	if err != nil {
		panic(err)
	}
	all := []string{nameS, nameO, nameP}
	mk := func(kind leafKind, names []string, nb, na time.Time, trusted bool) {
		t := &x509.Certificate{SerialNumber: big.NewInt(int64(100 + kind)), Subject: pkix.Name{CommonName: "c14 leaf " + kind.String()},
			NotBefore: nb, NotAfter: na, DNSNames: names, KeyUsage: x509.KeyUsageDigitalSignature,
			ExtKeyUsage: []x509.ExtKeyUsage{x509.ExtKeyUsageServerAuth}}
		ca, cak := p.ca, p.caKey
		if !trusted {
			ca, cak = p.ca2, p.ca2Key
		}
		der, err := x509.CreateCertificate(rand.Reader, t, ca, &lk.PublicKey, cak)
		if err != nil {
			panic(err)
		}
		c, _ := x509.ParseCertificate(der)
		p.leaves[kind] = &leaf{kind: kind, der: der, cert: c, trusted: trusted,
			tlsCert: tls.Certificate{Certificate: [][]byte{der}, PrivateKey: lk, Leaf: c}}
	}
	vb, va := T0.Add(-time.Hour), T0.Add(12*time.Hour)
	mk(lAll, all, vb, va, true)
	mk(lS, []string{nameS}, vb, va, true)
	mk(lO, []string{nameO}, vb, va, true)
	mk(lP, []string{nameP}, vb, va, true)
	mk(lW, []string{nameW}, vb, va, true)
	mk(lUntrusted, all, vb, va, false)
	mk(lExpired, all, T0.Add(-48*time.Hour), T0.Add(-24*time.Hour), true)
	mk(lNotYet, all, T0.Add(24*time.Hour), T0.Add(48*time.Hour), true)
	mk(lLong, all, vb, T0.Add(96*time.Hour), true)
	mkIP := func(kind leafKind, ips ...string) {
		t := &x509.Certificate{SerialNumber: big.NewInt(int64(100 + kind)), Subject: pkix.Name{CommonName: "c14 leaf " + kind.String()},
			NotBefore: vb, NotAfter: va, KeyUsage: x509.KeyUsageDigitalSignature,
			ExtKeyUsage: []x509.ExtKeyUsage{x509.ExtKeyUsageServerAuth}}
		for _, ip := range ips {
			t.IPAddresses = append(t.IPAddresses, net.ParseIP(ip))
		}
		der, err := x509.CreateCertificate(rand.Reader, t, p.ca, &lk.PublicKey, p.caKey)
		if err != nil {
			panic(err)
		}
		c, _ := x509.ParseCertificate(der)
		p.leaves[kind] = &leaf{kind: kind, der: der, cert: c, trusted: true,
			tlsCert: tls.Certificate{Certificate: [][]byte{der}, PrivateKey: lk, Leaf: c}}
	}
	mkIP(lIP, ip4, ip6)
	mkIP(lIPOther, ipOther)
	// intermediates: issued by the trusted / the untrusted root, outliving the leaf or expiring before it
	mkInt := func(kind leafKind, trusted bool, ina time.Time) {
		ik, err := ecdsa.GenerateKey(elliptic.P256(), rand.Reader)
		if err != nil {
			panic(err)
		}
		it := &x509.Certificate{SerialNumber: big.NewInt(int64(200 + kind)), Subject: pkix.Name{CommonName: "c14 intermediate " + kind.String()},
			NotBefore: T0.Add(-2 * time.Hour), NotAfter: ina, IsCA: true, BasicConstraintsValid: true,
			KeyUsage: x509.KeyUsageCertSign | x509.KeyUsageDigitalSignature}
		ca, cak := p.ca, p.caKey
		if !trusted {
			ca, cak = p.ca2, p.ca2Key
		}
		ider, err := x509.CreateCertificate(rand.Reader, it, ca, &ik.PublicKey, cak)
		if err != nil {
			panic(err)
		}
		ic, _ := x509.ParseCertificate(ider)
		t := &x509.Certificate{SerialNumber: big.NewInt(int64(100 + kind)), Subject: pkix.Name{CommonName: "c14 leaf " + kind.String()},
			NotBefore: vb, NotAfter: va, DNSNames: all, KeyUsage: x509.KeyUsageDigitalSignature,
			ExtKeyUsage: []x509.ExtKeyUsage{x509.ExtKeyUsageServerAuth}}
		der, err := x509.CreateCertificate(rand.Reader, t, ic, &lk.PublicKey, ik)
		if err != nil {
			panic(err)
		}
		c, _ := x509.ParseCertificate(der)
		p.leaves[kind] = &leaf{kind: kind, der: der, cert: c, trusted: trusted, inter: []*x509.Certificate{ic},
			tlsCert: tls.Certificate{Certificate: [][]byte{der, ider}, PrivateKey: lk, Leaf: c}}
	}
	mkInt(lIntT, true, T0.Add(24*time.Hour))
	mkInt(lIntTShort, true, T0.Add(6*time.Hour))
	mkInt(lIntU, false, T0.Add(24*time.Hour))
	mkInt(lIntUShort, false, T0.Add(6*time.Hour))
	return p
}

// x509Verify is Go's own verifier with exactly the options given: the oracle for "the chain
// verifies against RootCAs at time t and the leaf matches name" (name "" = no name check).
// sanNames: every name the leaf is valid for, DNS names and IP SANs (canonical text).
func (l *leaf) sanNames() []string {
	out := append([]string{}, l.cert.DNSNames...)
	for _, ip := range l.cert.IPAddresses {
		out = append(out, ip.String())
	}
	return out
}

func (p *pki) x509Verify(l *leaf, name string, t time.Time) error {
	inter := x509.NewCertPool()
	for _, ic := range l.inter {
		inter.AddCert(ic) // what the server presents after the leaf
	}
	_, err := l.cert.Verify(x509.VerifyOptions{Roots: p.roots, CurrentTime: t, DNSName: name, Intermediates: inter})
	return err
}

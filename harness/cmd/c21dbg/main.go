package main

import (
	"fmt"
	"net"

	tls "github.com/refraction-networking/utls"
)

func main() {
	a, b := net.Pipe()
	_ = b
	uc := tls.UClient(a, &tls.Config{ServerName: "x.test", InsecureSkipVerify: true}, tls.HelloChrome_Auto)
	fmt.Println(uc.BuildHandshakeState())
	for _, e := range uc.Extensions {
		if cc, ok := e.(*tls.UtlsCompressCertExtension); ok {
			fmt.Println("before", cc.Algorithms)
			cc.Algorithms = []tls.CertCompressionAlgo{1}
		}
	}
	fmt.Println(uc.BuildHandshakeState())
	res := tls.VerifDecompressCertOn(uc, 2, 5, []byte{1, 2, 3})
	fmt.Println(res.Err)
}

package main

import (
	"fmt"
	"net"

	tls "github.com/refraction-networking/utls"
)

type dc struct{ net.Conn }

func (d *dc) Write(p []byte) (int, error) { return len(p), nil }

func main() {
	uc := tls.UClient(&dc{}, &tls.Config{ServerName: "x.test", InsecureSkipVerify: true}, tls.HelloChrome_Auto)
	fmt.Println(uc.BuildHandshakeState())
	for _, e := range uc.Extensions {
		if cc, ok := e.(*tls.UtlsCompressCertExtension); ok {
			fmt.Println("before", cc.Algorithms)
			cc.Algorithms = []tls.CertCompressionAlgo{1}
		}
	}
	fmt.Println(uc.BuildHandshakeState())
	res := tls.VerifDecompressCertOn(uc, 2, 5, []byte{1, 2, 3})
	fmt.Println("alg2:", res.Err)
	res = tls.VerifDecompressCertOn(uc, 3, 5, []byte{1, 2, 3})
	fmt.Println("alg3:", res.Err)
}

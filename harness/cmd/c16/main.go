// C16 runner: GREASE ECH extensions look like real outer ECH extensions.
//
// For every parrot whose spec carries a *GREASEEncryptedClientHelloExtension (and no real ECH config), many
// connections over loopback TCP to a plain Go server and to one that forces a HelloRetryRequest (its
// CurvePreferences hold only a group the parrot lists but sends no share for). The client side of the TCP
// connection is recorded; the ClientHello(s) are parsed back from the plaintext handshake records.
//   - Go-side oracle, from the property text: the extension is a well-formed outer ECH extension with a
//     candidate (KDF, AEAD) pair, a 32-byte enc and a payload of candidate length + 16; after a HelloRetryRequest
//     the second hello carries the identical bytes; enc and payload never repeat across connections.
//   - Coq: COracle (the proven oracle predicate applied to the bytes on the wire) and CGrease (the model fed with
//     the draws read back from the wire must reproduce every byte, also on a second and third Read).
package main

import (
	"bytes"
	"encoding/binary"
	"fmt"
	"io"
	"net"
	"sort"
	"sync"
	"time"

	tls "github.com/refraction-networking/utls"
	"verif/harness/vh"
)

func main() {
	vh.Main(map[string]vh.Suite{"C16": {Corr: "Corr.C16Corr", Run: runC16}})
}

const extECH = 0xfe0d

var candidates = []struct {
	name string
	id   tls.ClientHelloID
}{
	{"HelloChrome_120", tls.HelloChrome_120},
	{"HelloChrome_120_PQ", tls.HelloChrome_120_PQ},
	{"HelloChrome_131", tls.HelloChrome_131},
	{"HelloChrome_133", tls.HelloChrome_133},
	{"HelloFirefox_120", tls.HelloFirefox_120},
	// controls without a GREASE ECH extension (must be filtered out by the spec inspection)
	{"HelloChrome_115_PQ", tls.HelloChrome_115_PQ},
	{"HelloFirefox_105", tls.HelloFirefox_105},
}

type template struct {
	suites []tls.HPKESymmetricCipherSuite
	ids    []uint8
	lens   []uint16
}

// greaseTemplate reads the candidate lists of the parrot's GREASE ECH extension out of its spec.
func greaseTemplate(id tls.ClientHelloID) (*template, []tls.CurveID, []tls.CurveID, bool) {
	spec, err := tls.UTLSIdToSpec(id)
	if err != nil {
		return nil, nil, nil, false
	}
	var t *template
	var groups, shares []tls.CurveID
	for _, e := range spec.Extensions {
		switch x := e.(type) {
		case *tls.GREASEEncryptedClientHelloExtension:
			t = &template{suites: x.CandidateCipherSuites, ids: x.CandidateConfigIds, lens: x.CandidatePayloadLens}
		case *tls.SupportedCurvesExtension:
			groups = x.Curves
		case *tls.KeyShareExtension:
			for _, ks := range x.KeyShares {
				shares = append(shares, ks.Group)
			}
		}
	}
	return t, groups, shares, t != nil
}

// ---- recording connection ----
type recConn struct {
	net.Conn
	mu  sync.Mutex
	out bytes.Buffer
}

func (r *recConn) Write(b []byte) (int, error) {
	r.mu.Lock()
	r.out.Write(b)
	r.mu.Unlock()
	return r.Conn.Write(b)
}

// clientHellos extracts the ClientHello handshake messages from the plaintext handshake records the client wrote.
func clientHellos(stream []byte) [][]byte {
	var hs []byte
	for len(stream) >= 5 {
		typ := stream[0]
		n := int(binary.BigEndian.Uint16(stream[3:5]))
		if len(stream) < 5+n {
			break
		}
		if typ == 22 {
			hs = append(hs, stream[5:5+n]...)
		}
		stream = stream[5+n:]
	}
	var out [][]byte
	for len(hs) >= 4 {
		n := int(hs[1])<<16 | int(hs[2])<<8 | int(hs[3])
		if len(hs) < 4+n {
			break
		}
		if hs[0] == 1 {
			out = append(out, hs[:4+n])
		}
		hs = hs[4+n:]
	}
	return out
}

// echExtensions returns every encrypted_client_hello extension (type, length, body) of a ClientHello message.
func echExtensions(msg []byte) ([][]byte, bool) {
	p := msg[4:]
	if len(p) < 2+32+1 {
		return nil, false
	}
	p = p[2+32:]
	sl := int(p[0])
	if len(p) < 1+sl+2 {
		return nil, false
	}
	p = p[1+sl:]
	cl := int(binary.BigEndian.Uint16(p))
	if len(p) < 2+cl+1 {
		return nil, false
	}
	p = p[2+cl:]
	ml := int(p[0])
	if len(p) < 1+ml+2 {
		return nil, false
	}
	p = p[1+ml:]
	el := int(binary.BigEndian.Uint16(p))
	p = p[2:]
	if len(p) != el {
		return nil, false
	}
	var out [][]byte
	for len(p) >= 4 {
		t := binary.BigEndian.Uint16(p)
		l := int(binary.BigEndian.Uint16(p[2:]))
		if len(p) < 4+l {
			return nil, false
		}
		if t == extECH {
			out = append(out, p[:4+l])
		}
		p = p[4+l:]
	}
	return out, len(p) == 0
}

// ---- the property's oracle on one extension (written from the property text) ----
type parsed struct {
	kdf, aead uint16
	id        uint8
	enc, pl   []byte
}

func parseOuter(ext []byte) (*parsed, string) {
	b := ext[4:]
	if int(binary.BigEndian.Uint16(ext[2:])) != len(b) {
		return nil, "extension length field does not match"
	}
	if len(b) < 1+4+1+2 {
		return nil, "body too short"
	}
	if b[0] != 0 {
		return nil, fmt.Sprintf("ECHClientHello type %d, want outer (0)", b[0])
	}
	p := &parsed{kdf: binary.BigEndian.Uint16(b[1:]), aead: binary.BigEndian.Uint16(b[3:]), id: b[5]}
	b = b[6:]
	n := int(binary.BigEndian.Uint16(b))
	if len(b) < 2+n+2 {
		return nil, "enc runs past the extension"
	}
	p.enc = b[2 : 2+n]
	b = b[2+n:]
	m := int(binary.BigEndian.Uint16(b))
	if len(b) != 2+m {
		return nil, "payload length does not end the extension"
	}
	p.pl = b[2:]
	return p, ""
}

func (t *template) check(p *parsed) string {
	suites := t.suites
	if len(suites) == 0 {
		suites = []tls.HPKESymmetricCipherSuite{{KdfId: 1, AeadId: 1}}
	}
	ok := false
	for _, s := range suites {
		if s.KdfId == p.kdf && s.AeadId == p.aead {
			ok = true
		}
	}
	if !ok {
		return fmt.Sprintf("(kdf,aead)=(%d,%d) is not a candidate pair", p.kdf, p.aead)
	}
	if len(p.enc) != 32 {
		return fmt.Sprintf("encapsulated key of %d bytes, want 32", len(p.enc))
	}
	lens := t.lens
	if len(lens) == 0 {
		lens = []uint16{128}
	}
	ok = false
	for _, c := range lens {
		if len(p.pl) == int(c)+16 {
			ok = true
		}
	}
	if !ok {
		return fmt.Sprintf("payload of %d bytes is not a candidate length + 16 (AEAD tag)", len(p.pl))
	}
	return ""
}

// ---- Coq terms ----
func (t *template) coq() (string, string, string) {
	var ss, is, ls []string
	for _, s := range t.suites {
		ss = append(ss, fmt.Sprintf("(%d, %d)", s.KdfId, s.AeadId))
	}
	for _, i := range t.ids {
		is = append(is, fmt.Sprint(i))
	}
	for _, l := range t.lens {
		ls = append(ls, fmt.Sprint(l))
	}
	return vh.List(ss), vh.List(is), vh.List(ls)
}

type connResult struct {
	hellos [][]byte
	err    error
}

func dialOnce(addr string, id tls.ClientHelloID) connResult {
	conn, err := net.DialTimeout("tcp", addr, 5*time.Second)
	if err != nil {
		return connResult{err: err}
	}
	defer conn.Close()
	conn.SetDeadline(time.Now().Add(10 * time.Second))
	rc := &recConn{Conn: conn}
	uc := tls.UClient(rc, &tls.Config{ServerName: "c16.test", InsecureSkipVerify: true}, id)
	err = uc.Handshake()
	if err == nil {
		uc.Close()
	}
	rc.mu.Lock()
	defer rc.mu.Unlock()
	return connResult{hellos: clientHellos(rc.out.Bytes()), err: err}
}

func serve(ln net.Listener, cfg *tls.Config, wg *sync.WaitGroup) {
	for {
		conn, err := ln.Accept()
		if err != nil {
			return
		}
		wg.Add(1)
		go func() {
			defer wg.Done()
			defer conn.Close()
			conn.SetDeadline(time.Now().Add(10 * time.Second))
			tc := tls.Server(conn, cfg)
			if tc.Handshake() == nil {
				io.Copy(io.Discard, tc)
			}
		}()
	}
}

func runC16(c *vh.Ctx) {
	pki := vh.NewTestPKI("c16.test")
	cert := tls.Certificate{Certificate: [][]byte{pki.LeafDER}, PrivateKey: pki.LeafKey}
	var wg sync.WaitGroup
	plainLn, _ := net.Listen("tcp", "127.0.0.1:0")
	hrrLn, _ := net.Listen("tcp", "127.0.0.1:0")
	defer func() { plainLn.Close(); hrrLn.Close(); wg.Wait() }()
	go serve(plainLn, &tls.Config{Certificates: []tls.Certificate{cert}}, &wg)
	// every GREASE-ECH parrot lists P-384 and sends no share for it
	go serve(hrrLn, &tls.Config{Certificates: []tls.Certificate{cert}, CurvePreferences: []tls.CurveID{tls.CurveP384}}, &wg)

	perMode := c.N // connections per parrot and server kind (quick 150 -> 300 per parrot)
	var parrots []string
	for _, cand := range candidates {
		t, groups, shares, ok := greaseTemplate(cand.id)
		if !ok {
			c.Count("no-grease-ech:" + cand.name)
			continue
		}
		hasP384, sharesP384 := false, false
		for _, g := range groups {
			hasP384 = hasP384 || g == tls.CurveP384
		}
		for _, g := range shares {
			sharesP384 = sharesP384 || g == tls.CurveP384
		}
		if !hasP384 || sharesP384 {
			c.Fail("hrr-setup/"+cand.name, "runner assumption broken: the parrot must list P-384 without sending a share for it", nil, fmt.Sprint(groups, shares), "P-384 listed, not shared")
			continue
		}
		parrots = append(parrots, cand.name)
		cs, is, ls := t.coq()
		seenEnc := map[string]int{}
		seenPl := map[string]int{}
		seenAll := map[string]int{}
		for mode, addr := range []string{plainLn.Addr().String(), hrrLn.Addr().String()} {
			modeName := []string{"plain", "hrr"}[mode]
			results := make([]connResult, perMode)
			var cw sync.WaitGroup
			sem := make(chan bool, 8)
			for i := range results {
				cw.Add(1)
				sem <- true
				go func(i int) {
					defer cw.Done()
					results[i] = dialOnce(addr, cand.id)
					<-sem
				}(i)
			}
			cw.Wait()
			for i, r := range results {
				key := cand.name + "/" + modeName
				in := map[string]any{"parrot": cand.name, "server": modeName, "connection": i}
				if r.err != nil {
					c.Fail("handshake/"+key, "handshake with a GREASE ECH parrot failed", in, r.err.Error(), "nil")
				}
				want := 1 + mode
				if len(r.hellos) != want {
					c.Fail("hello-count/"+key, "unexpected number of ClientHello messages on the wire", in, len(r.hellos), want)
					if len(r.hellos) == 0 {
						continue
					}
				}
				var exts [][]byte
				bad := false
				for hi, h := range r.hellos {
					es, ok := echExtensions(h)
					if !ok || len(es) != 1 {
						c.Fail(fmt.Sprintf("ech-ext-count/%s/hello%d", key, hi+1), "ClientHello does not carry exactly one encrypted_client_hello extension", in, len(es), 1)
						bad = true
						break
					}
					exts = append(exts, es[0])
				}
				if bad {
					continue
				}
				in["ech_extension_hello1"] = vh.Hex(exts[0])
				p, why := parseOuter(exts[0])
				if p == nil {
					c.Fail("grease-ech-malformed/"+key, "GREASE ECH extension is not a well-formed outer ECHClientHello: "+why, in, vh.Hex(exts[0]), "type 0, suite, config id, enc<..>, payload<..>")
				} else {
					if why := t.check(p); why != "" {
						c.Fail("grease-ech-fields/"+key, "GREASE ECH extension: "+why, in, vh.Hex(exts[0]), "candidate suite, 32-byte enc, candidate length + 16")
					}
					c.Count(fmt.Sprintf("dist:%s:kdf=%d,aead=%d,payload=%d", cand.name, p.kdf, p.aead, len(p.pl)))
					seenEnc[string(p.enc)]++
					seenPl[string(p.pl)]++
					seenAll[string(exts[0][9:])]++ // config id || enc || payload
					if seenEnc[string(p.enc)] > 1 || seenPl[string(p.pl)] > 1 {
						c.Fail("grease-ech-repeat/"+cand.name, "encapsulated key or payload of a GREASE ECH extension repeated across connections", in, vh.Hex(exts[0]), "fresh per connection")
					}
				}
				ext2 := "None"
				if len(exts) > 1 {
					in["ech_extension_hello2"] = vh.Hex(exts[1])
					ext2 = "(Some None)" // byte-identical to the first
					if !bytes.Equal(exts[0], exts[1]) {
						ext2 = "(Some (Some " + vh.Bytes(exts[1]) + "))"
						c.Fail("grease-ech-hrr-changed/"+cand.name, "the GREASE ECH extension in the second ClientHello differs from the first", in, vh.Hex(exts[1]), vh.Hex(exts[0]))
					}
				}
				if i%30 == 0 {
					c.OracleCase("oracle", fmt.Sprintf("(COracle %s %s %s %s)", cs, ls, vh.Bytes(exts[0]), ext2), "grease-ech-wf/"+key,
						"the proven oracle predicate (well-formed outer ECH, candidate suite, 32-byte enc, candidate length + 16, identical after HRR) rejects the bytes on the wire", in, true)
				}
				// the model is compared on every 15th connection (Coq elaborates 250-byte list literals slowly)
				if i%15 == 0 {
					c.Case("model", fmt.Sprintf("(CGrease %s %s %s %s %s)", cs, is, ls, vh.Bytes(exts[0]), ext2),
						fmt.Sprintf("%s/%d", key, i), mode == 1, map[string]any{"parrot": cand.name, "server": modeName, "ech_extension": vh.Hex(exts[0])})
				}
			}
		}
		c.Extra["distinct_id_enc_payload:"+cand.name] = len(seenAll)
	}
	sort.Strings(parrots)
	c.Extra["grease_ech_parrots"] = parrots
	if len(parrots) < 5 {
		c.Fail("parrot-discovery", "fewer GREASE ECH parrots found than expected", nil, parrots, "Chrome_120, Chrome_120_PQ, Chrome_131, Chrome_133, Firefox_120")
	}
}

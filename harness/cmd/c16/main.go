// C16 runner: GREASE ECH extensions look like real outer ECH extensions.
//
// For every parrot whose spec carries a *GREASEEncryptedClientHelloExtension (and no real ECH config), many
// connections over loopback TCP to a plain Go server and to one that forces a HelloRetryRequest (its
// CurvePreferences hold only a group the parrot lists but sends no share for). The client side of the TCP
// connection is recorded; the ClientHello(s) are parsed back from the plaintext handshake records.
//   - Go-side oracle, from the property text: the extension is a well-formed outer ECH extension with a
//     candidate (KDF, AEAD) pair, a 32-byte enc and a payload of candidate length + 16; after a HelloRetryRequest
//     the second hello carries the identical bytes; enc and payload never repeat across connections.
//   - Coq: COracle (the proven oracle predicate applied to the bytes on the wire) and CGrease (the model fed with
//     the draws read back from the wire must reproduce every byte, also on a second and third Read).
package main

import (
	"bytes"
	"encoding/binary"
	"fmt"
	"io"
	"net"
	"sort"
	"sync"
	"time"

	tls "github.com/refraction-networking/utls"
	"verif/harness/vh"
)

func main() {
	vh.Main(map[string]vh.Suite{"C16": {Corr: "Corr.C16Corr", Run: runC16}})
}

const extECH = 0xfe0d

var candidates = []struct {
	name string
	id   tls.ClientHelloID
}{
	{"HelloChrome_120", tls.HelloChrome_120},
	{"HelloChrome_120_PQ", tls.HelloChrome_120_PQ},
	{"HelloChrome_131", tls.HelloChrome_131},
	{"HelloChrome_133", tls.HelloChrome_133},
	{"HelloFirefox_120", tls.HelloFirefox_120},
	// controls without a GREASE ECH extension (must be filtered out by the spec inspection)
	{"HelloChrome_115_PQ", tls.HelloChrome_115_PQ},
	{"HelloFirefox_105", tls.HelloFirefox_105},
}

type template struct {
	suites []tls.HPKESymmetricCipherSuite
	ids    []uint8
	lens   []uint16
}

// greaseTemplate reads the candidate lists of the parrot's GREASE ECH extension out of its spec.
func greaseTemplate(id tls.ClientHelloID) (*template, []tls.CurveID, []tls.CurveID, bool) {
	spec, err := tls.UTLSIdToSpec(id)
	if err != nil {
		return nil, nil, nil, false
	}
	var t *template
	var groups, shares []tls.CurveID
	for _, e := range spec.Extensions {
		switch x := e.(type) {
		case *tls.GREASEEncryptedClientHelloExtension:
			t = &template{suites: x.CandidateCipherSuites, ids: x.CandidateConfigIds, lens: x.CandidatePayloadLens}
		case *tls.SupportedCurvesExtension:
			groups = x.Curves
		case *tls.KeyShareExtension:
			for _, ks := range x.KeyShares {
				shares = append(shares, ks.Group)
			}
		}
	}
	return t, groups, shares, t != nil
}

// ---- recording connection ----
type recConn struct {
	net.Conn
	mu  sync.Mutex
	out bytes.Buffer
}

func (r *recConn) Write(b []byte) (int, error) {
	r.mu.Lock()
	r.out.Write(b)
	r.mu.Unlock()
	return r.Conn.Write(b)
}

// clientHellos extracts the ClientHello handshake messages from the plaintext handshake records the client wrote.
func clientHellos(stream []byte) [][]byte {
	var hs []byte
	for len(stream) >= 5 {
		typ := stream[0]
		n := int(binary.BigEndian.Uint16(stream[3:5]))
		if len(stream) < 5+n {
			break
		}
		if typ == 22 {
			hs = append(hs, stream[5:5+n]...)
		}
		stream = stream[5+n:]
	}
	var out [][]byte
	for len(hs) >= 4 {
		n := int(hs[1])<<16 | int(hs[2])<<8 | int(hs[3])
		if len(hs) < 4+n {
			break
		}
		if hs[0] == 1 {
			out = append(out, hs[:4+n])
		}
		hs = hs[4+n:]
	}
	return out
}

// echExtensions returns every encrypted_client_hello extension (type, length, body) of a ClientHello message.
func echExtensions(msg []byte) ([][]byte, bool) {
	p := msg[4:]
	if len(p) < 2+32+1 {
		return nil, false
	}
	p = p[2+32:]
	sl := int(p[0])
	if len(p) < 1+sl+2 {
		return nil, false
	}
	p = p[1+sl:]
	cl := int(binary.BigEndian.Uint16(p))
	if len(p) < 2+cl+1 {
		return nil, false
	}
	p = p[2+cl:]
	ml := int(p[0])
	if len(p) < 1+ml+2 {
		return nil, false
	}
	p = p[1+ml:]
	el := int(binary.BigEndian.Uint16(p))
	p = p[2:]
	if len(p) != el {
		return nil, false
	}
	var out [][]byte
	for len(p) >= 4 {
		t := binary.BigEndian.Uint16(p)
		l := int(binary.BigEndian.Uint16(p[2:]))
		if len(p) < 4+l {
			return nil, false
		}
		if t == extECH {
			out = append(out, p[:4+l])
		}
		p = p[4+l:]
	}
	return out, len(p) == 0
}

// ---- the property's oracle on one extension (written from the property text) ----
type parsed struct {
	kdf, aead uint16
	id        uint8
	enc, pl   []byte
}

func parseOuter(ext []byte) (*parsed, string) {
	b := ext[4:]
	if int(binary.BigEndian.Uint16(ext[2:])) != len(b) {
		return nil, "extension length field does not match"
	}
	if len(b) < 1+4+1+2 {
		return nil, "body too short"
	}
	if b[0] != 0 {
		return nil, fmt.Sprintf("ECHClientHello type %d, want outer (0)", b[0])
	}
	p := &parsed{kdf: binary.BigEndian.Uint16(b[1:]), aead: binary.BigEndian.Uint16(b[3:]), id: b[5]}
	b = b[6:]
	n := int(binary.BigEndian.Uint16(b))
	if len(b) < 2+n+2 {
		return nil, "enc runs past the extension"
	}
	p.enc = b[2 : 2+n]
	b = b[2+n:]
	m := int(binary.BigEndian.Uint16(b))
	if len(b) != 2+m {
		return nil, "payload length does not end the extension"
	}
	p.pl = b[2:]
	return p, ""
}

func (t *template) check(p *parsed) string {
	suites := t.suites
	if len(suites) == 0 {
		suites = []tls.HPKESymmetricCipherSuite{{KdfId: 1, AeadId: 1}}
	}
	ok := false
	for _, s := range suites {
		if s.KdfId == p.kdf && s.AeadId == p.aead {
			ok = true
		}
	}
	if !ok {
		return fmt.Sprintf("(kdf,aead)=(%d,%d) is not a candidate pair", p.kdf, p.aead)
	}
	if len(p.enc) != 32 {
		return fmt.Sprintf("encapsulated key of %d bytes, want 32", len(p.enc))
	}
	lens := t.lens
	if len(lens) == 0 {
		lens = []uint16{128}
	}
	ok = false
	for _, c := range lens {
		if len(p.pl) == int(c)+16 {
			ok = true
		}
	}
	if !ok {
		return fmt.Sprintf("payload of %d bytes is not a candidate length + 16 (AEAD tag)", len(p.pl))
	}
	return ""
}

// ---- Coq terms ----
func (t *template) coq() (string, string, string) {
	var ss, is, ls []string
	for _, s := range t.suites {
		ss = append(ss, fmt.Sprintf("(%d, %d)", s.KdfId, s.AeadId))
	}
	for _, i := range t.ids {
		is = append(is, fmt.Sprint(i))
	}
	for _, l := range t.lens {
		ls = append(ls, fmt.Sprint(l))
	}
	return vh.List(ss), vh.List(is), vh.List(ls)
}

type connResult struct {
	hellos [][]byte
	err    error
}

// newClient builds the UConn of one connection (a stock parrot, or a custom spec applied to HelloCustom).
type newClient func(conn net.Conn, cfg *tls.Config) (*tls.UConn, error)

func stockClient(id tls.ClientHelloID) newClient {
	return func(conn net.Conn, cfg *tls.Config) (*tls.UConn, error) { return tls.UClient(conn, cfg, id), nil }
}

// customClient: the base parrot's spec, built afresh for every connection, with the candidate lists of its GREASE ECH
// extension replaced by the given ones.
func customClient(base tls.ClientHelloID, t *template) newClient {
	return func(conn net.Conn, cfg *tls.Config) (*tls.UConn, error) {
		spec, err := tls.UTLSIdToSpec(base)
		if err != nil {
			return nil, err
		}
		found := false
		for i, e := range spec.Extensions {
			if _, ok := e.(*tls.GREASEEncryptedClientHelloExtension); ok {
				spec.Extensions[i] = &tls.GREASEEncryptedClientHelloExtension{
					CandidateCipherSuites: append([]tls.HPKESymmetricCipherSuite(nil), t.suites...),
					CandidateConfigIds:    append([]uint8(nil), t.ids...),
					CandidatePayloadLens:  append([]uint16(nil), t.lens...),
				}
				found = true
			}
		}
		if !found {
			return nil, fmt.Errorf("base spec has no GREASE ECH extension")
		}
		uc := tls.UClient(conn, cfg, tls.HelloCustom)
		if err := uc.ApplyPreset(&spec); err != nil {
			return nil, err
		}
		return uc, nil
	}
}

func dialOnce(addr string, mk newClient) connResult {
	conn, err := net.DialTimeout("tcp", addr, 5*time.Second)
	if err != nil {
		return connResult{err: err}
	}
	defer conn.Close()
	conn.SetDeadline(time.Now().Add(10 * time.Second))
	rc := &recConn{Conn: conn}
	uc, err := mk(rc, &tls.Config{ServerName: "c16.test", InsecureSkipVerify: true})
	if err != nil {
		return connResult{err: err}
	}
	err = uc.Handshake()
	if err == nil {
		uc.Close()
	}
	rc.mu.Lock()
	defer rc.mu.Unlock()
	return connResult{hellos: clientHellos(rc.out.Bytes()), err: err}
}

func serve(ln net.Listener, cfg *tls.Config, wg *sync.WaitGroup) {
	for {
		conn, err := ln.Accept()
		if err != nil {
			return
		}
		wg.Add(1)
		go func() {
			defer wg.Done()
			defer conn.Close()
			conn.SetDeadline(time.Now().Add(10 * time.Second))
			tc := tls.Server(conn, cfg)
			if tc.Handshake() == nil {
				io.Copy(io.Discard, tc)
			}
		}()
	}
}

func runC16(c *vh.Ctx) {
	pki := vh.NewTestPKI("c16.test")
	cert := tls.Certificate{Certificate: [][]byte{pki.LeafDER}, PrivateKey: pki.LeafKey}
	var wg sync.WaitGroup
	plainLn, _ := net.Listen("tcp", "127.0.0.1:0")
	hrrLn, _ := net.Listen("tcp", "127.0.0.1:0")
	defer func() { plainLn.Close(); hrrLn.Close(); wg.Wait() }()
	go serve(plainLn, &tls.Config{Certificates: []tls.Certificate{cert}}, &wg)
	// every GREASE-ECH parrot lists P-384 and sends no share for it
	go serve(hrrLn, &tls.Config{Certificates: []tls.Certificate{cert}, CurvePreferences: []tls.CurveID{tls.CurveP384}}, &wg)

	perMode := c.N // connections per parrot and server kind (quick 150 -> 300 per parrot)
	addrs := []string{plainLn.Addr().String(), hrrLn.Addr().String()}
	var parrots []string
	for _, cand := range candidates {
		t, groups, shares, ok := greaseTemplate(cand.id)
		if !ok {
			c.Count("no-grease-ech:" + cand.name)
			continue
		}
		hasP384, sharesP384 := false, false
		for _, g := range groups {
			hasP384 = hasP384 || g == tls.CurveP384
		}
		for _, g := range shares {
			sharesP384 = sharesP384 || g == tls.CurveP384
		}
		if !hasP384 || sharesP384 {
			c.Fail("hrr-setup/"+cand.name, "runner assumption broken: the parrot must list P-384 without sending a share for it", nil, fmt.Sprint(groups, shares), "P-384 listed, not shared")
			continue
		}
		parrots = append(parrots, cand.name)
		runVariant(c, cand.name, stockClient(cand.id), t, addrs, perMode, perMode, 50, 25)
	}
	// custom specs: a parrot's spec whose GREASE ECH candidate lists are replaced. The stock lists share one KDF, so
	// "(kdf,aead) is one of the candidate PAIRS" and "payload = a candidate + tag" are only really tested here.
	var customs []string
	for _, v := range customVariants(c) {
		customs = append(customs, v.name)
		runVariant(c, v.name, customClient(v.base, v.t), v.t, addrs, perMode/5, perMode/15, 10, 3)
	}
	c.Extra["custom_variants"] = customs
	sort.Strings(parrots)
	c.Extra["grease_ech_parrots"] = parrots
	if len(parrots) < 5 {
		c.Fail("parrot-discovery", "fewer GREASE ECH parrots found than expected", nil, parrots, "Chrome_120, Chrome_120_PQ, Chrome_131, Chrome_133, Firefox_120")
	}
}

type variant struct {
	name string
	base tls.ClientHelloID
	t    *template
}

func pairs(ps ...uint16) []tls.HPKESymmetricCipherSuite {
	var out []tls.HPKESymmetricCipherSuite
	for i := 0; i+1 < len(ps); i += 2 {
		out = append(out, tls.HPKESymmetricCipherSuite{KdfId: ps[i], AeadId: ps[i+1]})
	}
	return out
}

// customVariants: fixed shapes (distinct KDFs and AEADs, single element, empty = default pair, config-id list) and
// seeded random lists. Payload lengths are kept small so the Coq cases stay cheap.
func customVariants(c *vh.Ctx) []variant {
	vs := []variant{
		{"custom/diag3", tls.HelloChrome_133, &template{suites: pairs(1, 1, 2, 2, 3, 3), lens: []uint16{17, 40, 99}}},
		{"custom/diag3-firefox", tls.HelloFirefox_120, &template{suites: pairs(1, 3, 2, 1, 3, 2), lens: []uint16{64, 65}}},
		{"custom/single", tls.HelloChrome_120, &template{suites: pairs(2, 3), lens: []uint16{48}}},
		{"custom/defaults", tls.HelloChrome_131, &template{}},
		{"custom/ids", tls.HelloChrome_133, &template{suites: pairs(1, 2, 3, 1), ids: []uint8{7, 200, 13}, lens: []uint16{1, 250}}},
	}
	for k := 0; k < 3; k++ {
		// 2..4 distinct pairs from {1,2,3}x{1,2,3} that are NOT closed under mixing, 1..4 lengths in 1..250
		var t *template
		for {
			perm := c.Rng.Perm(9)
			n := 2 + c.Rng.Intn(3)
			var ps []uint16
			have := map[[2]uint16]bool{}
			for _, x := range perm[:n] {
				kdf, aead := uint16(x/3+1), uint16(x%3+1)
				ps = append(ps, kdf, aead)
				have[[2]uint16{kdf, aead}] = true
			}
			closed := true
			for a := range have {
				for b := range have {
					closed = closed && have[[2]uint16{a[0], b[1]}]
				}
			}
			if closed {
				continue
			}
			var ls []uint16
			for j, m := 0, 1+c.Rng.Intn(4); j < m; j++ {
				ls = append(ls, uint16(1+c.Rng.Intn(250)))
			}
			t = &template{suites: pairs(ps...), lens: ls}
			break
		}
		base := []tls.ClientHelloID{tls.HelloChrome_133, tls.HelloFirefox_120, tls.HelloChrome_120_PQ}[k]
		vs = append(vs, variant{fmt.Sprintf("custom/random%d", k+1), base, t})
	}
	return vs
}

// runVariant: perMode connections to the plain server and perHRR to the HelloRetryRequest server with clients built by
// mk, whose GREASE ECH extension has the candidate lists t. Every connection goes through the Go-side oracle; every
// oracleEvery-th / modelEvery-th one also to Coq (Coq elaborates long byte-list literals slowly).
func runVariant(c *vh.Ctx, name string, mk newClient, t *template, addrs []string, perMode, perHRR, oracleEvery, modelEvery int) {
	cs, is, ls := t.coq()
	seenEnc := map[string]int{}
	seenPl := map[string]int{}
	seenAll := map[string]int{}
	for mode, addr := range addrs {
		modeName := []string{"plain", "hrr"}[mode]
		n := perMode
		if mode == 1 {
			n = perHRR
		}
		results := make([]connResult, n)
		var cw sync.WaitGroup
		sem := make(chan bool, 8)
		for i := range results {
			cw.Add(1)
			sem <- true
			go func(i int) {
				defer cw.Done()
				results[i] = dialOnce(addr, mk)
				<-sem
			}(i)
		}
		cw.Wait()
		for i, r := range results {
			key := name + "/" + modeName
			in := map[string]any{"client": name, "server": modeName, "connection": i,
				"candidate_suites(kdf,aead)": cs, "candidate_config_ids": is, "candidate_payload_lens": ls}
			if r.err != nil {
				c.Fail("handshake/"+key, "handshake with a GREASE ECH client failed", in, r.err.Error(), "nil")
			}
			want := 1 + mode
			if len(r.hellos) != want {
				c.Fail("hello-count/"+key, "unexpected number of ClientHello messages on the wire", in, len(r.hellos), want)
				if len(r.hellos) == 0 {
					continue
				}
			}
			var exts [][]byte
			bad := false
			for hi, h := range r.hellos {
				es, ok := echExtensions(h)
				if !ok || len(es) != 1 {
					c.Fail(fmt.Sprintf("ech-ext-count/%s/hello%d", key, hi+1), "ClientHello does not carry exactly one encrypted_client_hello extension", in, len(es), 1)
					bad = true
					break
				}
				exts = append(exts, es[0])
			}
			if bad {
				continue
			}
			in["ech_extension_hello1"] = vh.Hex(exts[0])
			p, why := parseOuter(exts[0])
			if p == nil {
				c.Fail("grease-ech-malformed/"+key, "GREASE ECH extension is not a well-formed outer ECHClientHello: "+why, in, vh.Hex(exts[0]), "type 0, suite, config id, enc<..>, payload<..>")
			} else {
				if why := t.check(p); why != "" {
					c.Fail("grease-ech-fields/"+key, "GREASE ECH extension: "+why, in, vh.Hex(exts[0]), "a candidate (kdf,aead) PAIR, 32-byte enc, candidate length + 16")
				}
				c.Count(fmt.Sprintf("dist:%s:kdf=%d,aead=%d,payload=%d", name, p.kdf, p.aead, len(p.pl)))
				seenEnc[string(p.enc)]++
				seenPl[string(p.pl)]++
				seenAll[string(exts[0][9:])]++ // config id || enc || payload
				if seenEnc[string(p.enc)] > 1 || seenPl[string(p.pl)] > 1 {
					c.Fail("grease-ech-repeat/"+name, "encapsulated key or payload of a GREASE ECH extension repeated across connections", in, vh.Hex(exts[0]), "fresh per connection")
				}
			}
			ext2 := "None"
			if len(exts) > 1 {
				in["ech_extension_hello2"] = vh.Hex(exts[1])
				ext2 = "(Some None)" // byte-identical to the first
				if !bytes.Equal(exts[0], exts[1]) {
					ext2 = "(Some (Some " + vh.Bytes(exts[1]) + "))"
					c.Fail("grease-ech-hrr-changed/"+name, "the GREASE ECH extension in the second ClientHello differs from the first", in, vh.Hex(exts[1]), vh.Hex(exts[0]))
				}
			}
			if i%oracleEvery == 0 {
				c.OracleCase("oracle", fmt.Sprintf("(COracle %s %s %s %s)", cs, ls, vh.Bytes(exts[0]), ext2), "grease-ech-wf/"+key,
					"the proven oracle predicate (well-formed outer ECH, candidate pair, 32-byte enc, candidate length + 16, identical after HRR) rejects the bytes on the wire", in, true)
			}
			if i%modelEvery == 0 {
				c.Case("model", fmt.Sprintf("(CGrease %s %s %s %s %s)", cs, is, ls, vh.Bytes(exts[0]), ext2),
					fmt.Sprintf("%s/%d", key, i), mode == 1 || len(t.suites) > 1, map[string]any{"client": name, "server": modeName, "ech_extension": vh.Hex(exts[0])})
			}
		}
	}
	c.Extra["distinct_id_enc_payload:"+name] = len(seenAll)
}

// C21 runner: compressed server certificates are recovered exactly.
// decompressCert builds its decompressor internally (brotli/zlib/zstd reader over the compressed bytes), so a
// scripted io.Reader cannot be injected without editing the function; chunkings are therefore realised with the
// real encoders — zstd multi-frame streams give arbitrary generated chunkings (one frame = one Read), zlib/brotli
// give their natural block/flush structure — and the runner replays the same decoder with the code's buffer
// schedule to learn the chunking that was actually delivered, which is what the model is given.
package main

import (
	"bytes"
	"compress/flate"
	"compress/zlib"
	"errors"
	"fmt"
	"io"
	"math/rand"
	"net"
	"runtime"
	"strings"
	"time"

	"github.com/andybalholm/brotli"
	"github.com/klauspost/compress/zstd"
	tls "github.com/refraction-networking/utls"
	"verif/harness/vh"
)

func main() { vh.Main(map[string]vh.Suite{"C21": {Corr: "Corr.C21Corr", Run: run}}) }

const limit = 262144 // maxHandshakeCertificateMsg (property: "up to the handshake size limit")

type entry struct{ N, A, B int }

func build(es []entry) []byte {
	var body []byte
	for _, e := range es {
		body = append(body, byte(e.N>>16), byte(e.N>>8), byte(e.N))
		for j := 0; j < e.N; j++ {
			body = append(body, byte(e.A+j*e.B))
		}
		body = append(body, 0, 0)
	}
	out := []byte{0, byte(len(body) >> 16), byte(len(body) >> 8), byte(len(body))}
	return append(out, body...)
}

func coqEntries(es []entry) string {
	it := make([]string, len(es))
	for i, e := range es {
		it[i] = fmt.Sprintf("(%d, %d, %d)", e.N, e.A, e.B)
	}
	return vh.List(it)
}

// reference structural check of a TLS 1.3 Certificate message body (RFC 8446 4.4.2), independent of the library
func validCertBody(b []byte) bool {
	if len(b) < 4 || b[0] != 0 {
		return false
	}
	l := int(b[1])<<16 | int(b[2])<<8 | int(b[3])
	b = b[4:]
	if l != len(b) {
		return false
	}
	for len(b) > 0 {
		if len(b) < 3 {
			return false
		}
		n := int(b[0])<<16 | int(b[1])<<8 | int(b[2])
		b = b[3:]
		if len(b) < n+2 {
			return false
		}
		b = b[n:]
		x := int(b[0])<<8 | int(b[1])
		b = b[2:]
		if len(b) < x || x != 0 { // the generator never emits extensions
			return false
		}
	}
	return true
}

func adler(b []byte) (uint64, uint64) {
	s1, s2 := uint64(1), uint64(0)
	for _, x := range b {
		s1 = (s1 + uint64(x)) % 65521
		s2 = (s2 + s1) % 65521
	}
	return s1, s2
}

// ---- encoders ----
type enc struct {
	alg  uint16
	name string
	f    func(msg []byte, cuts []int) []byte // cuts: positions where the encoder is flushed / a new frame starts
}

func pieces(msg []byte, cuts []int) [][]byte {
	var out [][]byte
	prev := 0
	for _, c := range cuts {
		if c > prev && c < len(msg) {
			out = append(out, msg[prev:c])
			prev = c
		}
	}
	return append(out, msg[prev:])
}

func encoders() []enc {
	var es []enc
	for _, lv := range []int{flate.BestSpeed, flate.DefaultCompression, flate.BestCompression, flate.NoCompression, flate.HuffmanOnly} {
		lv := lv
		es = append(es, enc{1, fmt.Sprintf("zlib-l%d", lv), func(msg []byte, cuts []int) []byte {
			var b bytes.Buffer
			w, _ := zlib.NewWriterLevel(&b, lv)
			for _, p := range pieces(msg, cuts) {
				w.Write(p)
				w.Flush()
			}
			w.Close()
			return b.Bytes()
		}})
	}
	for _, q := range [][2]int{{0, 10}, {5, 16}, {11, 22}, {9, 18}} {
		q := q
		es = append(es, enc{2, fmt.Sprintf("brotli-q%d-w%d", q[0], q[1]), func(msg []byte, cuts []int) []byte {
			var b bytes.Buffer
			w := brotli.NewWriterOptions(&b, brotli.WriterOptions{Quality: q[0], LGWin: q[1]})
			for _, p := range pieces(msg, cuts) {
				w.Write(p)
				w.Flush()
			}
			w.Close()
			return b.Bytes()
		}})
	}
	for _, lv := range []zstd.EncoderLevel{zstd.SpeedFastest, zstd.SpeedDefault, zstd.SpeedBetterCompression, zstd.SpeedBestCompression} {
		lv := lv
		var w *zstd.Encoder // created on first use and reused (Reset): building a "best" encoder is expensive
		get := func() *zstd.Encoder {
			if w == nil {
				w, _ = zstd.NewWriter(nil, zstd.WithEncoderLevel(lv), zstd.WithEncoderConcurrency(1))
			}
			return w
		}
		// streaming: the encoder does not know the size in advance and announces its full window
		es = append(es, enc{3, "zstd-" + lv.String(), func(msg []byte, cuts []int) []byte {
			var b bytes.Buffer // one frame per piece: a multi-frame stream
			for _, p := range pieces(msg, cuts) {
				e := get()
				e.Reset(&b)
				e.Write(p)
				e.Close()
			}
			return b.Bytes()
		}})
		// one shot: content size known, Single_Segment frame(s)
		es = append(es, enc{3, "zstd-" + lv.String() + "-oneshot", func(msg []byte, cuts []int) []byte {
			var b []byte
			for _, p := range pieces(msg, cuts) {
				b = get().EncodeAll(p, b)
			}
			return b
		}})
	}
	return es
}

func encIndex(es []enc, name string) int {
	for i, e := range es {
		if e.name == name {
			return i
		}
	}
	panic("no encoder " + name)
}

// ---- zstd frame headers (RFC 8878 3.1.1), parsed independently of the library ----
const zstdWindowCap = 8 << 20 // RFC 8878 3.1.1.1.2: decoders should support up to 8 MB; the client accepts no more

type zframe struct {
	window     uint64 // Window_Size from Window_Descriptor, or Frame_Content_Size of a Single_Segment frame
	start, end int
	single     bool
	outLen     int
}

func zstdFrames(b []byte) (out []zframe, ok bool) {
	defer func() {
		if recover() != nil {
			out, ok = nil, false
		}
	}()
	le := func(p []byte, n int) uint64 {
		var v uint64
		for i := 0; i < n; i++ {
			v |= uint64(p[i]) << (8 * uint(i))
		}
		return v
	}
	i := 0
	for i < len(b) {
		magic := le(b[i:], 4)
		if magic&0xFFFFFFF0 == 0x184D2A50 { // skippable frame
			i += 8 + int(le(b[i+4:], 4))
			continue
		}
		if magic != 0xFD2FB528 {
			return nil, false
		}
		f := zframe{start: i}
		i += 4
		fhd := b[i]
		i++
		fcsFlag, did := int(fhd>>6), int(fhd&3)
		f.single = fhd&0x20 != 0
		if !f.single {
			wd := b[i]
			i++
			base := uint64(1) << (10 + uint(wd>>3))
			f.window = base + base/8*uint64(wd&7)
		}
		i += []int{0, 1, 2, 4}[did]
		fcsSize := []int{0, 2, 4, 8}[fcsFlag]
		if fcsFlag == 0 && f.single {
			fcsSize = 1
		}
		fcs := le(b[i:], fcsSize)
		if fcsSize == 2 {
			fcs += 256
		}
		i += fcsSize
		if f.single {
			f.window = fcs
		}
		for {
			bh := le(b[i:], 3)
			i += 3
			switch (bh >> 1) & 3 {
			case 1:
				i++
			case 3:
				return nil, false
			default:
				i += int(bh >> 3)
			}
			if bh&1 == 1 {
				break
			}
		}
		if fhd&4 != 0 {
			i += 4
		}
		if i > len(b) {
			return nil, false
		}
		f.end = i
		out = append(out, f)
	}
	return out, true
}

// ---- replay of the decoder with the buffer schedule of decompressCert ----
type replay struct {
	openOK   bool
	out      []byte
	chunks   []int
	end      string // REof | RErr
	eofEarly bool
}

func openDecoder(alg uint16, comp []byte, liftCap bool) (io.Reader, func(), bool) {
	switch alg {
	case 2:
		return brotli.NewReader(bytes.NewReader(comp)), func() {}, true
	case 1:
		rc, err := zlib.NewReader(bytes.NewReader(comp))
		if err != nil {
			return nil, nil, false
		}
		return rc, func() { rc.Close() }, true
	case 3:
		maxWin := uint64(zstdWindowCap)
		if liftCap {
			maxWin = 1 << 30
		}
		rc, err := zstd.NewReader(bytes.NewReader(comp), zstd.WithDecoderMaxWindow(maxWin), zstd.WithDecoderLowmem(true), zstd.WithDecoderConcurrency(1))
		if err != nil {
			return nil, nil, false
		}
		return rc, rc.Close, true
	}
	return nil, nil, false
}

func replayDecoder(alg uint16, comp []byte, declared int, liftCap bool) replay {
	r, closeFn, ok := openDecoder(alg, comp, liftCap)
	rp := replay{openOK: ok, end: "REof"}
	if !ok {
		return rp
	}
	defer closeFn()
	if declared > limit {
		declared = limit
	}
	step := func(buf []byte) (stop bool) {
		n, err := r.Read(buf)
		if n > 0 {
			rp.out = append(rp.out, buf[:n]...)
			rp.chunks = append(rp.chunks, n)
		}
		if err != nil {
			if !errors.Is(err, io.EOF) {
				rp.end = "RErr"
			} else if n > 0 {
				rp.eofEarly = true
			}
			return true
		}
		return false
	}
	buf := make([]byte, declared)
	filled, stopped := 0, false
	for guard := 0; filled < declared && !stopped && guard < 1<<20; guard++ { // io.ReadFull(decompressed, rawMsg[4:])
		before := len(rp.out)
		stopped = step(buf[filled:])
		filled += len(rp.out) - before
	}
	one := make([]byte, 1)
	for guard := 0; !stopped && guard < 1<<20; guard++ { // probe
		before := len(rp.out)
		stopped = step(one)
		if len(rp.out) > before {
			break
		}
	}
	big := make([]byte, 1<<16)
	for guard := 0; !stopped && guard < 1<<20; guard++ { // drain: what else the stream would have delivered
		stopped = step(big)
	}
	return rp
}

type scenario struct {
	key      string
	adv      []uint16
	alg      uint16
	es       []entry
	extra    []byte // appended to the certificate message before compression (decompressed output longer than declared)
	declared int
	comp     []byte
	valid    bool // comp is an untouched encoder output
}

func algos(a []uint16) []tls.CertCompressionAlgo {
	out := make([]tls.CertCompressionAlgo, len(a))
	for i, x := range a {
		out[i] = tls.CertCompressionAlgo(x)
	}
	return out
}

func contains(a []uint16, x uint16) bool {
	for _, y := range a {
		if x == y {
			return true
		}
	}
	return false
}

func runScenario(c *vh.Ctx, s scenario) {
	res := tls.VerifDecompressCert(algos(s.adv), s.alg, uint32(s.declared), s.comp)
	judge(c, s, res)
}

// judge applies the property oracle to what decompressCert did and emits the correspondence case;
// s.adv is the set of algorithms ADVERTISED (for reconfigured clients: read back from the ClientHello bytes)
func judge(c *vh.Ctx, s scenario, res tls.VerifC21Result) {
	msg := build(s.es)
	full := append(append([]byte{}, msg...), s.extra...)
	// zstd frames of an untouched encoder output: declared windows and decompressed lengths
	var frames []zframe
	overCap := false
	if s.alg == 3 && s.valid {
		fs, ok := zstdFrames(s.comp)
		if !ok {
			c.Fail("zstd-frame-parse/"+s.key, "the runner cannot parse the frame headers of an encoder output", vh.Hex(s.comp[:min(len(s.comp), 64)]), nil, nil)
			return
		}
		dec, _ := zstd.NewReader(nil, zstd.WithDecoderMaxWindow(1<<30), zstd.WithDecoderConcurrency(1))
		for i := range fs {
			o, err := dec.DecodeAll(s.comp[fs[i].start:fs[i].end], nil)
			if err != nil {
				c.Fail("zstd-frame-parse/"+s.key, "a frame cut out by the runner's parser does not decode", fmt.Sprint(fs[i]), fmt.Sprint(err), nil)
				dec.Close()
				return
			}
			fs[i].outLen = len(o)
			overCap = overCap || fs[i].window > zstdWindowCap
		}
		dec.Close()
		frames = fs
	}
	rp := replayDecoder(s.alg, s.comp, s.declared, frames != nil)
	accepted := res.Err == nil && res.Msg != nil
	header := []byte{11, byte(s.declared >> 16), byte(s.declared >> 8), byte(s.declared)}
	var fdesc []map[string]any
	for _, f := range frames {
		fdesc = append(fdesc, map[string]any{"window": f.window, "single_segment": f.single, "decompressed": f.outLen, "compressed": f.end - f.start})
	}
	in := map[string]any{"zstd_frames": fdesc, "key": s.key, "alg": s.alg, "advertised": s.adv, "declared": s.declared, "decompressed_len": len(full),
		"entries": s.es, "compressed_len": len(s.comp), "delivered_chunks": rp.chunks, "stream_end": rp.end}
	if len(s.comp) <= 400 {
		in["compressed"] = vh.Hex(s.comp)
	}
	// ---- oracle from the property text ----
	advertised := contains(s.adv, s.alg) && s.alg >= 1 && s.alg <= 3
	switch {
	case s.valid && accepted && !bytes.Equal(res.Msg, append(append([]byte{}, header...), msg...)):
		c.Fail("accepted-other-message/"+s.key, "the client accepted a certificate message other than the one the server compressed", in, vh.Hex(res.Msg[:min(len(res.Msg), 64)]), "the compressed message or an error")
	case s.valid && advertised && s.declared == len(full) && len(full) > limit && (accepted || res.Alert != 42):
		c.Fail("over-limit-accepted/"+s.key, "a certificate message above the handshake size limit is not refused with bad_certificate", in, fmt.Sprint(res.Err, " alert=", res.Alert), "bad_certificate")
	case s.valid && advertised && s.declared == len(full) && len(s.extra) == 0 && len(full) <= limit && !accepted:
		if overCap {
			c.Count("zstd-window-over-cap-refused")
			c.Fail("valid-stream-rejected/zstd-window-over-8MiB", "a valid zstd stream whose frame header declares Window_Size above 8 MiB is refused (window cap of the zstd reader)", in, fmt.Sprint(res.Err, " alert=", res.Alert), "the certificate message")
		} else {
			c.Fail("valid-stream-rejected/"+s.key, "a valid compressed encoding of the certificate message is not recovered", in, fmt.Sprint(res.Err, " alert=", res.Alert), "the certificate message")
		}
	case s.valid && advertised && s.declared != len(full) && (accepted || res.Alert != 42):
		d := "shorter"
		if len(full) > s.declared {
			d = "longer"
		}
		c.Fail("length-mismatch-accepted/"+d+"/"+s.key, "decompressed length differs from the declared length ("+d+") but the client does not abort with bad_certificate", in, fmt.Sprint("accepted=", accepted, " err=", res.Err, " alert=", res.Alert), "bad_certificate")
	case !advertised && (accepted || res.Alert != 42):
		c.Fail("unadvertised-accepted/"+s.key, "algorithm not advertised but no bad_certificate", in, fmt.Sprint(res.Err, " alert=", res.Alert), "bad_certificate")
	case s.valid && advertised && len(s.extra) > 0 && s.declared == len(msg) && accepted:
		c.Fail("length-mismatch-accepted/longer/"+s.key, "output longer than declared accepted", in, "accepted", "bad_certificate")
	}
	// ---- correspondence case ----
	var o string
	genAll := append(append([]byte{}, msg...), s.extra...)
	switch {
	case bytes.Equal(rp.out, genAll):
		o = fmt.Sprintf("(OGen %s None %s)", coqEntries(s.es), vh.Bytes(s.extra))
	case len(rp.out) <= len(msg) && bytes.Equal(rp.out, msg[:len(rp.out)]):
		o = fmt.Sprintf("(OGen %s (Some %d) [])", coqEntries(s.es), len(rp.out))
	case len(rp.out) <= 3000:
		o = "(ORaw " + vh.Bytes(rp.out) + ")"
	default:
		c.Count("skipped-large-garbage")
		return
	}
	ch := make([]string, len(rp.chunks))
	for i, n := range rp.chunks {
		ch[i] = fmt.Sprint(n)
	}
	adv := make([]string, len(s.adv))
	for i, a := range s.adv {
		adv[i] = fmt.Sprint(a)
	}
	var ob string
	if accepted {
		// the recovered certificate message is a VALUE: it is kept, compared again after every later decompression, and the
		// observation the model is compared with is taken from the kept entries at the end of the run
		ob = hold(s.key, res.Certs, res.Msg)
	} else {
		ob = fmt.Sprintf("(OAlert %d)", res.Alert)
	}
	valid := s.declared == len(rp.out) && validCertBody(rp.out)
	fl := make([]string, len(frames))
	for i, f := range frames {
		fl[i] = fmt.Sprintf("(%d, %d)", f.window, f.outLen)
	}
	term := fmt.Sprintf("CRun %s %s %d %d %s %s %s %s %s %s %s", vh.Bool(rp.eofEarly), vh.List(adv), s.alg, s.declared, vh.Bool(rp.openOK), o,
		vh.List(ch), rp.end, vh.List(fl), vh.Bool(valid), ob)
	pending = append(pending, pend{"run", term, s.key, len(rp.chunks) > 1 || !accepted, in})
	if len(rp.chunks) > 1 {
		c.Count("multi-chunk")
	}
	checkHeld(c, 6, "the decompression of "+s.key)
}

// ---------- recovered messages are values ----------
type heldMsg struct {
	key    string
	certs  [][]byte // the certificate entries as returned (they may share memory with the library)
	want   [][]byte // private copies taken when they were returned
	failed bool
}

type pend struct {
	kind, term, key string
	nontrivial      bool
	sample          any
}

var (
	heldAll []*heldMsg
	pending []pend
)

func hold(key string, certs [][]byte, msg []byte) string {
	h := &heldMsg{key: key, certs: certs}
	for _, x := range certs {
		h.want = append(h.want, append([]byte{}, x...))
	}
	heldAll = append(heldAll, h)
	return fmt.Sprintf("@@H%d@@", len(heldAll)-1)
}

// the Certificate message (with handshake header) that the kept entries amount to NOW (the generator never emits extensions)
func (h *heldMsg) message() []byte {
	var body []byte
	for _, x := range h.certs {
		body = append(body, byte(len(x)>>16), byte(len(x)>>8), byte(len(x)))
		body = append(body, x...)
		body = append(body, 0, 0)
	}
	m := []byte{0, byte(len(body) >> 16), byte(len(body) >> 8), byte(len(body))}
	m = append(m, body...)
	return append([]byte{11, byte(len(m) >> 16), byte(len(m) >> 8), byte(len(m))}, m...)
}

// checkHeld deep-compares the last n kept results (all if n <= 0) with what they were when they were returned
func checkHeld(c *vh.Ctx, n int, after string) {
	from := 0
	if n > 0 && len(heldAll) > n {
		from = len(heldAll) - n
	}
	for _, h := range heldAll[from:] {
		if h.failed {
			continue
		}
		for i := range h.want {
			if !bytes.Equal(h.certs[i], h.want[i]) {
				h.failed = true
				d := 0
				for d < len(h.want[i]) && d < len(h.certs[i]) && h.certs[i][d] == h.want[i][d] {
					d++
				}
				c.Fail("recovered-certificate-changed/"+h.key, "a certificate recovered from a CompressedCertificate changed after a later decompression in the same process (it shares memory with a reused buffer)",
					map[string]any{"recovered_by": h.key, "entry": i, "entry_len": len(h.want[i]), "changed_after": after},
					fmt.Sprintf("differs from byte %d: now %x", d, h.certs[i][d:min(len(h.certs[i]), d+24)]), fmt.Sprintf("%x", h.want[i][d:min(len(h.want[i]), d+24)]))
				break
			}
		}
	}
}

func flushPending(c *vh.Ctx) {
	checkHeld(c, 0, "the end of the run")
	for _, p := range pending {
		term := p.term
		if i := strings.Index(term, "@@H"); i >= 0 {
			j := i + 3 + strings.Index(term[i+3:], "@@")
			var n int
			fmt.Sscanf(term[i+3:j], "%d", &n)
			m := heldAll[n].message()
			s1, s2 := adler(m)
			term = term[:i] + fmt.Sprintf("(OOk %d %d %d %s)", len(m), s1, s2, vh.Opt(len(m) <= 700, vh.Bytes(m))) + term[j+2:]
		}
		c.Case(p.kind, term, p.key, p.nontrivial, p.sample)
	}
	pending, heldAll = nil, nil
}

func genEntries(r *rand.Rand, total int) []entry {
	var es []entry
	n := 1 + r.Intn(3)
	for i := 0; i < n; i++ {
		sz := total / n
		if sz > 40 {
			sz = sz - 20 + r.Intn(40)
		}
		es = append(es, entry{sz, r.Intn(256), 1 + r.Intn(254)})
	}
	return es
}

func randCuts(r *rand.Rand, n, k int) []int {
	var cuts []int
	pos := 0
	for i := 0; i < k; i++ {
		pos += 1 + r.Intn(2*n/(k+1)+1)
		if pos >= n {
			break
		}
		cuts = append(cuts, pos)
	}
	return cuts
}

func run(c *vh.Ctx) {
	defer flushPending(c)
	r := c.Rng
	encs := encoders()
	all := []uint16{2, 1, 3}
	// 0. corpus: witnesses of the defects of the code as found (F-21a, F-21b, F-33) — always run
	{
		es := []entry{{300, 7, 3}}
		msg := build(es)
		z := encs[encIndex(encs, "zstd-default")] // zstd default
		runScenario(c, scenario{"v0-witness/two-frames-zstd", all, 3, es, nil, len(msg), z.f(msg, []int{100}), true})
		big := []entry{{40000, 1, 5}}
		bm := build(big)
		runScenario(c, scenario{"v0-witness/zlib-40k", all, 1, big, nil, len(bm), encs[1].f(bm, nil), true})
		runScenario(c, scenario{"v0-witness/longer-brotli", all, 2, es, []byte{1, 2, 3}, len(msg), encs[6].f(append(append([]byte{}, msg...), 1, 2, 3), nil), true})
		runScenario(c, scenario{"v0-witness/longer-by-one-zlib", all, 1, es, []byte{0}, len(msg), encs[1].f(append(append([]byte{}, msg...), 0), nil), true})
		// F-33: a tiny message declaring 16 MiB must be refused without allocating the declared size
		var m0, m1 runtime.MemStats
		comp := encs[6].f(msg, nil)
		runtime.GC()
		runtime.ReadMemStats(&m0)
		res := tls.VerifDecompressCert(algos(all), 2, 0xffffff, comp)
		runtime.ReadMemStats(&m1)
		alloc := m1.TotalAlloc - m0.TotalAlloc
		c.Extra["oversize_alloc_bytes"] = alloc
		if res.Err == nil || res.Alert != 42 || alloc > 8<<20 {
			c.Fail("declared-over-limit", "a CompressedCertificate declaring 16 MiB (above the 256 KiB certificate limit) is not refused up front: the declared size is allocated",
				map[string]any{"declared": 0xffffff, "compressed_len": len(comp)}, fmt.Sprint("err=", res.Err, " alert=", res.Alert, " allocated=", alloc), "bad_certificate without allocating the declared length")
		}
		for _, lg := range []struct {
			name string
			ei   int
			es   []entry
		}{
			{"zlib-70k", 1, []entry{{70000, 3, 7}}},
			{"brotli-90k", 6, []entry{{45000, 9, 11}, {45000, 200, 3}}},
			{"zstd-150k-3frames", encIndex(encs, "zstd-default"), []entry{{75000, 1, 1}, {74000, 5, 9}}},
			{"zlib-exactly-limit", 0, []entry{{limit - 9, 77, 13}}},
		} {
			lm := build(lg.es)
			var cuts []int
			if lg.ei == encIndex(encs, "zstd-default") {
				cuts = []int{50000, 110000}
			}
			runScenario(c, scenario{"large/" + lg.name, all, encs[lg.ei].alg, lg.es, nil, len(lm), encs[lg.ei].f(lm, cuts), true})
		}
		// zstd window boundary: every encoder level, streaming (announces the level's full window: 4/8/16/32 MiB) and one
		// shot (Single_Segment, window = content size); only frames declaring more than 8 MiB may be refused
		for _, lv := range []string{"fastest", "default", "better", "best"} {
			for _, mode := range []string{"", "-oneshot"} {
				// the streaming encoder announces its window only when the input exceeds one 128 KiB block
				wes, sz := []entry{{132000, 17, 29}}, "132k"
				if mode != "" {
					wes, sz = []entry{{20000, 17, 29}}, "20k"
				}
				wm := build(wes)
				e := encs[encIndex(encs, "zstd-"+lv+mode)]
				runScenario(c, scenario{"zstd-window/" + lv + mode + "/" + sz, all, 3, wes, nil, len(wm), e.f(wm, nil), true})
			}
		}
		w250 := []entry{{125000, 3, 5}, {125000, 99, 7}}
		m250 := build(w250)
		runScenario(c, scenario{"zstd-window/better/250k", all, 3, w250, nil, len(m250), encs[encIndex(encs, "zstd-better")].f(m250, nil), true})
		w40 := []entry{{40000, 8, 9}}
		m40 := build(w40)
		runScenario(c, scenario{"zstd-window/best-oneshot/40k-2frames", all, 3, w40, nil, len(m40), encs[encIndex(encs, "zstd-best-oneshot")].f(m40, []int{15000}), true})
		over := []entry{{limit - 8, 5, 3}} // one byte more than a Certificate message may have
		om := build(over)
		runScenario(c, scenario{"over-limit/message-limit+1", all, 1, over, nil, len(om), encs[0].f(om, nil), true})
		runScenario(c, scenario{"over-limit/declared-16M", all, 2, es, nil, 0xffffff, comp, true})
		runScenario(c, scenario{"over-limit/declared-limit+1", all, 3, es, nil, limit + 1, z.f(msg, nil), true})
	}
	// 0b. clients configured through the public API, reconfigured before the ClientHello is final
	runReconfig(c, encs)
	// 0c. live handshakes: the compressed certificate inside a handshake whose CertificateVerify/Finished must verify
	runE2E(c, encs)
	// 1. utlsCompressedCertificateMsg codec
	for i := 0; i < c.N/2+8; i++ {
		alg := uint16(r.Intn(65536))
		ulen := uint32(r.Intn(1 << 24))
		if i%7 == 0 {
			ulen = r.Uint32() // above 24 bits: marshal keeps the low 24 bits
		}
		data := make([]byte, r.Intn(40))
		r.Read(data)
		trailing := make([]byte, r.Intn(3))
		wire, err := tls.VerifCompressedCertMarshal(alg, ulen, data)
		w2 := append(append([]byte{}, wire...), trailing...)
		if i%5 == 4 && len(w2) > 0 {
			w2 = w2[:r.Intn(len(w2))]
		}
		ok, a, u, d := tls.VerifCompressedCertUnmarshal(w2)
		if i%5 != 4 {
			back := "None"
			if ok {
				back = fmt.Sprintf("(Some (%d, %d, %s))", a, u, vh.Bytes(d))
			}
			c.Case("msg", fmt.Sprintf("CMsg %d %d %s %s %s %s", alg, ulen, vh.Bytes(data), vh.Bytes(trailing), vh.Opt(err == nil, vh.Bytes(wire)), back),
				fmt.Sprintf("msg/%d/%d/%x", alg, ulen, data), len(data) > 0, nil)
			if ulen < 1<<24 && (err != nil || !ok || a != alg || u != ulen || !bytes.Equal(d, data)) {
				c.Fail("cc-msg-roundtrip", "unmarshal(marshal(CompressedCertificate)) differs", map[string]any{"alg": alg, "ulen": ulen, "data": vh.Hex(data)}, fmt.Sprint(ok, a, u, vh.Hex(d)), "same message")
			}
		} else if ok && len(w2) < len(wire) {
			c.Fail("cc-msg-truncated", "a truncated CompressedCertificate message is accepted", vh.Hex(w2), "ok", "failure")
		}
	}
	// 2. encoders x sizes x flush structures x variations
	sizes := []int{60, 300, 1200, 5000}
	nrun := 0
	for round := 0; nrun < c.N; round++ {
		for ei, e := range encs {
			if nrun >= c.N {
				break
			}
			sz := sizes[(round+ei)%len(sizes)]
			if c.Tier != "quick" && (round+ei)%9 == 0 {
				sz = []int{33000, 70000, 140000, 250000}[(round/2+ei)%4]
			} else if round == 0 && (ei == 0 || ei == 10) {
				sz = 34000 + 500*ei // a few large ones even in the quick tier (zlib, zstd)
			}
			es := genEntries(r, sz)
			msg := build(es)
			cuts := randCuts(r, len(msg), []int{0, 1, 2, 5}[(round+ei/2)%4])
			variation := (round*len(encs) + ei) % 11
			s := scenario{adv: all, alg: e.alg, es: es, declared: len(msg), valid: true}
			name := fmt.Sprintf("%s/size%d/cuts%d", e.name, sz/1000, len(cuts))
			switch variation {
			case 0, 1, 2, 3:
				s.key = "valid/" + name
				s.comp = e.f(msg, cuts)
			case 4:
				s.key = "declared+1/" + name
				s.comp, s.declared = e.f(msg, cuts), len(msg)+1
			case 5:
				s.key = "declared-1/" + name
				s.comp, s.declared = e.f(msg, cuts), len(msg)-1
			case 6:
				s.key = "longer-extra/" + name
				s.extra = make([]byte, 1+r.Intn(20))
				r.Read(s.extra)
				s.comp = e.f(append(append([]byte{}, msg...), s.extra...), cuts)
			case 7:
				s.key = "unadvertised/" + name
				s.comp = e.f(msg, cuts)
				s.adv = nil
				for _, a := range all {
					if a != e.alg {
						s.adv = append(s.adv, a)
					}
				}
				if r.Intn(3) == 0 {
					s.adv = nil
				}
			case 8:
				s.key = "truncated/" + name
				full := e.f(msg, cuts)
				s.comp, s.valid = full[:r.Intn(len(full))], false
			case 9:
				s.key = "bitflip/" + name
				s.comp, s.valid = e.f(msg, cuts), false
				s.comp[r.Intn(len(s.comp))] ^= 1 << uint(r.Intn(8))
			case 10:
				s.key = "unknown-alg/" + name
				s.comp = e.f(msg, cuts)
				s.alg = []uint16{0, 4, 0xffff}[r.Intn(3)]
				s.adv = append([]uint16{s.alg}, all...)
			}
			runScenario(c, s)
			nrun++
		}
	}
}

// ---------- advertised = what the ClientHello on the wire says ----------
type recConn struct{ wrote []byte }

func (c *recConn) Read(p []byte) (int, error)         { return 0, net.ErrClosed }
func (c *recConn) Write(p []byte) (int, error)        { c.wrote = append(c.wrote, p...); return len(p), nil }
func (c *recConn) Close() error                       { return nil }
func (c *recConn) LocalAddr() net.Addr                { return &net.TCPAddr{} }
func (c *recConn) RemoteAddr() net.Addr               { return &net.TCPAddr{} }
func (c *recConn) SetDeadline(t time.Time) error      { return nil }
func (c *recConn) SetReadDeadline(t time.Time) error  { return nil }
func (c *recConn) SetWriteDeadline(t time.Time) error { return nil }

// compress_certificate (27) algorithms of a marshalled ClientHello, by an independent parser
func wireAlgs(raw []byte) (algs []uint16, ok bool) {
	defer func() {
		if recover() != nil {
			algs, ok = nil, false
		}
	}()
	b := raw[4+2+32:]
	b = b[1+int(b[0]):]
	b = b[2+(int(b[0])<<8|int(b[1])):]
	b = b[1+int(b[0]):]
	b = b[2:]
	for len(b) >= 4 {
		typ, l := int(b[0])<<8|int(b[1]), int(b[2])<<8|int(b[3])
		body := b[4 : 4+l]
		b = b[4+l:]
		if typ == 27 {
			n := int(body[0])
			for i := 0; i+1 < n; i += 2 {
				algs = append(algs, uint16(body[1+i])<<8|uint16(body[2+i]))
			}
		}
	}
	return algs, true
}

func customSpec(algs []tls.CertCompressionAlgo) *tls.ClientHelloSpec {
	return &tls.ClientHelloSpec{
		TLSVersMin: tls.VersionTLS12, TLSVersMax: tls.VersionTLS13,
		CipherSuites:       []uint16{tls.TLS_AES_128_GCM_SHA256, tls.TLS_ECDHE_ECDSA_WITH_AES_128_GCM_SHA256},
		CompressionMethods: []byte{0},
		Extensions: []tls.TLSExtension{
			&tls.SNIExtension{},
			&tls.SupportedCurvesExtension{Curves: []tls.CurveID{tls.X25519}},
			&tls.SupportedPointsExtension{SupportedPoints: []byte{0}},
			&tls.SignatureAlgorithmsExtension{SupportedSignatureAlgorithms: []tls.SignatureScheme{tls.ECDSAWithP256AndSHA256, tls.PSSWithSHA256}},
			&tls.KeyShareExtension{KeyShares: []tls.KeyShare{{Group: tls.X25519}}},
			&tls.SupportedVersionsExtension{Versions: []uint16{tls.VersionTLS13, tls.VersionTLS12}},
			&tls.UtlsCompressCertExtension{Algorithms: algs},
		},
	}
}

// A client is set up with one algorithm list, built, then given further lists (by editing the extension in place or
// by applying a new spec) and built again each time. The server may only use what the FINAL ClientHello advertises.
func runReconfig(c *vh.Ctx, encs []enc) {
	r := c.Rng
	lists := [][]uint16{{2}, {1}, {3}, {2, 1}, {1, 3}, {3, 2, 1}, {}}
	byAlg := map[uint16]enc{1: encs[1], 2: encs[6], 3: encs[encIndex(encs, "zstd-default")]}
	es := []entry{{200, 11, 5}, {120, 90, 7}}
	msg := build(es)
	type setup struct {
		name  string
		id    tls.ClientHelloID
		steps [][]uint16
		how   string
	}
	var setups []setup
	name := func(steps [][]uint16) string {
		s := ""
		for i, l := range steps {
			if i > 0 {
				s += ">"
			}
			if l == nil {
				s += "own"
			}
			for _, a := range l {
				s += fmt.Sprint(a)
			}
			if l != nil && len(l) == 0 {
				s += "none"
			}
		}
		return s
	}
	fixed := [][][]uint16{{{2}, {1}}, {{1}, {3}}, {{3}, {1}, {2}}, {{3, 2, 1}, {1}}, {{2, 1}, {1, 3}}, {{2}, {}}, {{1, 3}, {2}, {3}}, {{}, {2}}}
	extra := [][]uint16{lists[r.Intn(len(lists))], lists[r.Intn(len(lists))]} // one generated sequence per run
	for i, steps := range append(fixed, extra) {
		for _, how := range []string{"edit-extension", "new-spec"} {
			if how == "new-spec" && i%3 != 0 {
				continue
			}
			key := name(steps)
			if i == len(fixed) {
				key = "generated"
			}
			setups = append(setups, setup{name: "custom/" + how + "/" + key, id: tls.HelloCustom, steps: steps, how: how})
		}
	}
	for i, id := range []tls.ClientHelloID{tls.HelloChrome_Auto, tls.HelloChrome_120, tls.HelloSafari_Auto} {
		st := setup{id: id, how: "edit-extension", steps: [][]uint16{nil, lists[1+i%2]}} // nil = the parrot's own list
		st.name = fmt.Sprintf("%s/edit-extension/%s", id.Client+id.Version, name(st.steps))
		setups = append(setups, st)
	}
	for _, st := range setups {
		for _, alg := range []uint16{1, 2, 3} {
			conn := &recConn{}
			uc := tls.UClient(conn, &tls.Config{ServerName: "c21.test", InsecureSkipVerify: true}, st.id)
			failed := ""
			p, pv := vh.Recover(func() {
				for k, l := range st.steps {
					switch {
					case st.id == tls.HelloCustom && (k == 0 || st.how == "new-spec"):
						if err := uc.ApplyPreset(customSpec(algos(l))); err != nil {
							failed = err.Error()
							return
						}
					case l != nil:
						for _, e := range uc.Extensions {
							if cc, ok := e.(*tls.UtlsCompressCertExtension); ok {
								cc.Algorithms = algos(l)
							}
						}
					}
					if err := uc.BuildHandshakeState(); err != nil {
						failed = err.Error()
						return
					}
				}
			})
			if p || failed != "" {
				c.Count("reconfig-setup-refused")
				_ = pv
				break
			}
			wire, ok := wireAlgs(uc.HandshakeState.Hello.Raw)
			if !ok {
				c.Fail("reconfig-hello-unparsable/"+st.name, "cannot parse the ClientHello of a reconfigured client", st.name, vh.Hex(uc.HandshakeState.Hello.Raw), "ClientHello")
				break
			}
			comp := byAlg[alg].f(msg, nil)
			res := tls.VerifDecompressCertOn(uc, alg, uint32(len(msg)), comp)
			if len(conn.wrote) >= 7 && conn.wrote[0] == 21 {
				res.Alert = int(conn.wrote[6])
			}
			judge(c, scenario{fmt.Sprintf("reconfig/%s/alg%d", st.name, alg), wire, alg, es, nil, len(msg), comp, true}, res)
			c.Count("reconfigured-clients")
		}
	}
}

package main

import (
	"bytes"
	"fmt"

	tls "github.com/refraction-networking/utls"
	"verif/harness/hs"
	"verif/harness/vh"
)

// Live TLS 1.3 handshakes over loopback against the scripted server (/repo/verif_server.go): the server sends its real
// Certificate message as a CompressedCertificate — alone, or after a CertificateRequest — produced by this runner's
// encoders (flush / frame structures included). "The client recovers exactly the certificate message, and the handshake
// transcript verifies": the client must complete (it verified the server's CertificateVerify and Finished over the
// transcript, the server verified the client's Finished), report exactly the server's leaf, and exchange application
// data; with a wrong declared length or an unadvertised algorithm it must abort with bad_certificate.
func runE2E(c *vh.Ctx, encs []enc) {
	p := hs.SharedPKI()
	leaf := p.ECDSA.Certificate[0]
	// body of the server's Certificate message (RFC 8446 4.4.2): empty context, one entry, no extensions
	entry := append([]byte{byte(len(leaf) >> 16), byte(len(leaf) >> 8), byte(len(leaf))}, leaf...)
	entry = append(entry, 0, 0)
	body := append([]byte{0, byte(len(entry) >> 16), byte(len(entry) >> 8), byte(len(entry))}, entry...)
	type client struct {
		name string
		id   tls.ClientHelloID
		spec *tls.ClientHelloSpec
		adv  []uint16
	}
	custom := func(adv []uint16) *tls.ClientHelloSpec {
		s := customSpec(algos(adv))
		s.Extensions = append(s.Extensions, &tls.ALPNExtension{AlpnProtocols: []string{"h2"}})
		return s
	}
	clients := []client{
		{"custom-all", tls.HelloCustom, nil, []uint16{2, 1, 3}},
		{"custom-zlib-zstd", tls.HelloCustom, nil, []uint16{1, 3}},
		{"Chrome_120", tls.HelloChrome_120, nil, []uint16{2}},
	}
	byAlg := map[uint16][]string{1: {"zlib-l-1", "zlib-l0"}, 2: {"brotli-q5-w16", "brotli-q11-w22"}, 3: {"zstd-default", "zstd-better-oneshot"}}
	n := 0
	for _, cl := range clients {
		for _, alg := range []uint16{1, 2, 3} {
			for _, certReq := range []bool{false, true} {
				for vi, variation := range []string{"valid", "valid-flushed", "declared+1", "declared-1"} {
					if (variation == "declared+1" || variation == "declared-1") && (certReq != (alg == 2) || cl.name == "custom-zlib-zstd") {
						continue // the negative variations once per algorithm and client kind
					}
					if cl.name == "Chrome_120" && variation == "valid-flushed" && alg != 2 {
						continue
					}
					e := encs[encIndex(encs, byAlg[alg][vi%2])]
					var cuts []int
					if variation == "valid-flushed" {
						cuts = []int{len(body) / 3, len(body) / 2}
					}
					script := &tls.VerifServerScript{CertCompression: alg, CompressedCert: e.f(body, cuts)}
					switch variation {
					case "declared+1":
						u := uint32(len(body) + 1)
						script.CompressedCertULen = &u
					case "declared-1":
						u := uint32(len(body) - 1)
						script.CompressedCertULen = &u
					}
					scfg := p.ServerConfig("h2")
					scfg.Certificates = []tls.Certificate{p.ECDSA}
					scfg.MinVersion = tls.VersionTLS13
					if certReq {
						scfg.ClientAuth = tls.RequestClientCert
					}
					o := hs.Opts{ID: cl.id, ClientCfg: p.ClientConfig(), ServerCfg: scfg, Script: script}
					if cl.id == tls.HelloCustom {
						o.Spec = custom(cl.adv)
					}
					r := hs.Run(o)
					n++
					key := fmt.Sprintf("e2e/%s/%s/certreq-%v/%s", cl.name, e.name, certReq, variation)
					sent := fmt.Sprint(r.Trace.Sent)
					in := map[string]any{"client": cl.name, "advertised": cl.adv, "alg": alg, "encoder": e.name, "certificate_request": certReq,
						"variation": variation, "server_sent_handshake_types": sent, "compressed_len": len(script.CompressedCert), "body_len": len(body)}
					advertised := contains(cl.adv, alg)
					wantOK := advertised && (variation == "valid" || variation == "valid-flushed")
					completed := r.BuildErr == nil && r.ClientErr == nil && r.ServerErr == nil && r.AppData
					got := fmt.Sprint("client=", r.ClientErr, " server=", r.ServerErr, " build=", r.BuildErr, " appdata=", r.AppData, " alert_from_client=", r.AlertFromClient)
					switch {
					case r.BuildErr != nil:
						c.Fail("e2e-setup/"+key, "the loopback handshake could not be set up", in, got, "handshake")
						continue
					case wantOK && !completed:
						c.Fail("e2e-handshake-failed/"+key, "a handshake whose server certificate arrives as a valid CompressedCertificate does not complete (certificate not recovered or the transcript does not verify)", in, got, "completed handshake with application data")
					case wantOK && (len(r.ClientState.PeerCertificates) == 0 || !bytes.Equal(r.ClientState.PeerCertificates[0].Raw, leaf)):
						c.Fail("e2e-wrong-certificate/"+key, "the client reports a peer certificate other than the one the server compressed", in, nil, nil)
					case !wantOK && (completed || r.AlertFromClient != 42):
						c.Fail("e2e-not-refused/"+key, "length mismatch or unadvertised algorithm in a live handshake is not answered with bad_certificate", in, got, "bad_certificate")
					}
					// correspondence: transcript order of the certificate flight (Model/Decompress.v client_cert_flight)
					c.Case("e2e", fmt.Sprintf("CFlight %s %s %s %s", vh.Bool(certReq), vh.Bool(advertised), vh.Bool(variation == "valid" || variation == "valid-flushed"), vh.Bool(completed)),
						key, certReq, in)
				}
			}
		}
	}
	c.Extra["e2e_handshakes"] = n
}

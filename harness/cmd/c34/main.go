// Runner for C34 — arbitrary client input never crashes or hangs the server.
package main

import (
	"crypto/tls"
	"encoding/binary"
	"fmt"
	"io"
	"math/rand"
	"net"
	"regexp"
	"strings"
	"time"

	utls "github.com/refraction-networking/utls"
	"verif/harness/vh"
)

var _ = tls.VersionTLS13

func main() { vh.Main(map[string]vh.Suite{"C34": {Corr: "Corr.C34Corr", Run: run}}) }

const deadline = 3 * time.Second

var pki *vh.TestPKI

func run(c *vh.Ctx) {
	pki = vh.NewTestPKI("c34.test")
	runParsers(c)
	runServers(c)
}

// cb: compact Coq byte string (see cmd/c31/conv.go)
func cb(b []byte) string {
	if len(b) <= 10 {
		return vh.Bytes(b)
	}
	var sb strings.Builder
	sb.WriteString("(ub [")
	last := 0
	for i := 0; i < len(b); i += 7 {
		j := i + 7
		if j > len(b) {
			j = len(b)
		}
		var x uint64
		for _, y := range b[i:j] {
			x = x<<8 | uint64(y)
		}
		if i > 0 {
			sb.WriteByte(';')
		}
		fmt.Fprintf(&sb, "%d", x)
		last = j - i
	}
	fmt.Fprintf(&sb, "]%%uint63 %d%%nat)", last)
	return sb.String()
}

func rbytes(r *rand.Rand, n int) []byte {
	b := make([]byte, n)
	r.Read(b)
	return b
}
func u16(x int) []byte      { return []byte{byte(x >> 8), byte(x)} }
func u24(x int) []byte      { return []byte{byte(x >> 16), byte(x >> 8), byte(x)} }
func u16lp(b []byte) []byte { return append(u16(len(b)), b...) }
func hs(ty byte, body []byte) []byte {
	return append(append([]byte{ty}, u24(len(body))...), body...)
}

// well-formed uTLS messages
func clientEE(r *rand.Rand, codepoint int, n int) []byte {
	var exts []byte
	if codepoint != 0 {
		exts = append(u16(codepoint), u16lp(rbytes(r, n))...)
	}
	return hs(8, u16lp(exts))
}
func compressedCert(r *rand.Rand, n int) []byte {
	body := append(u16(2), u24(1000)...)
	body = append(body, u24(n)...)
	body = append(body, rbytes(r, n)...)
	return hs(25, body)
}

// byte-level mutations of a handshake message
var msgMutations = []string{"none", "truncate", "bitflip", "len-hi", "len-lo", "inner-len", "append", "random"}

func mutateMsg(r *rand.Rand, kind string, m []byte) []byte {
	b := append([]byte{}, m...)
	switch kind {
	case "truncate":
		b = b[:r.Intn(len(b)+1)]
	case "bitflip":
		if len(b) > 0 {
			b[r.Intn(len(b))] ^= 1 << uint(r.Intn(8))
		}
	case "len-hi":
		if len(b) > 3 {
			b[1+r.Intn(3)] = byte(r.Intn(256))
		}
	case "len-lo":
		if len(b) > 3 {
			b[3] += byte(1 + r.Intn(3))
		}
	case "inner-len":
		if len(b) > 6 {
			i := 4 + r.Intn(len(b)-4)
			b[i] = byte(r.Intn(256))
		}
	case "append":
		b = append(b, rbytes(r, 1+r.Intn(4))...)
	case "random":
		b = rbytes(r, r.Intn(24))
	}
	return b
}

var goTypeCoq = map[string]string{
	"*tls.helloRequestMsg": "T_helloRequest", "*tls.clientHelloMsg": "T_clientHello", "*tls.serverHelloMsg": "T_serverHello",
	"*tls.newSessionTicketMsg": "T_newSessionTicket", "*tls.newSessionTicketMsgTLS13": "T_newSessionTicket13",
	"*tls.certificateMsg": "T_certificate", "*tls.certificateMsgTLS13": "T_certificate13",
	"*tls.certificateRequestMsg": "T_certificateRequest", "*tls.certificateRequestMsgTLS13": "T_certificateRequest13",
	"*tls.certificateStatusMsg": "T_certificateStatus", "*tls.serverKeyExchangeMsg": "T_serverKeyExchange",
	"*tls.serverHelloDoneMsg": "T_serverHelloDone", "*tls.clientKeyExchangeMsg": "T_clientKeyExchange",
	"*tls.certificateVerifyMsg": "T_certificateVerify", "*tls.finishedMsg": "T_finished", "*tls.endOfEarlyDataMsg": "T_endOfEarlyData",
	"*tls.keyUpdateMsg": "T_keyUpdate", "*tls.encryptedExtensionsMsg": "T_encryptedExtensions",
	"*tls.utlsClientEncryptedExtensionsMsg": "T_utlsClientEncryptedExtensions", "*tls.utlsCompressedCertificateMsg": "T_utlsCompressedCertificate",
}

// guard runs f with recover() and a 2 s limit. A function that hung once is not called again (its goroutine keeps spinning).
var hungFns = map[string]bool{}

func guard(c *vh.Ctx, fn, kind string, data []byte, f func()) (ok bool) {
	if hungFns[fn] {
		return false
	}
	type out struct {
		pn bool
		pv any
	}
	ch := make(chan out, 1)
	go func() {
		pn, pv := vh.Recover(f)
		ch <- out{pn, pv}
	}()
	select {
	case o := <-ch:
		if o.pn {
			c.Fail("panic/parser/"+fn+"/"+kind, fn+" panicked", vh.Hex(data), fmt.Sprint(o.pv), "true or false")
			return false
		}
		return true
	case <-time.After(2 * time.Second):
		hungFns[fn] = true
		c.Fail("hang/parser/"+fn+"/"+kind, fn+" did not return within 2 s", vh.Hex(data), "still running", "true or false")
		return false
	}
}

var liveHangs int

// ---- parser level: the functions the model mirrors, bytes in, Ok/Err out, recover around every call ----
func runParsers(c *vh.Ctx) {
	r := c.Rng
	n := 40 + c.N/4
	for i := 0; i < n; i++ {
		var base []byte
		switch i % 6 {
		case 0:
			base = clientEE(r, 17513, r.Intn(20))
		case 1:
			base = clientEE(r, 17613, r.Intn(20))
		case 2:
			base = clientEE(r, 0, 0)
		case 3:
			base = clientEE(r, 1234, 3) // unknown extension: illegal
		case 4: // two ALPS extensions
			base = hs(8, u16lp(append(append(u16(17513), u16lp(rbytes(r, 3))...), append(u16(17613), u16lp(rbytes(r, 2))...)...)))
		case 5:
			base = compressedCert(r, r.Intn(30))
		}
		kind := msgMutations[(i/6)%len(msgMutations)]
		data := mutateMsg(r, kind, base)
		// utlsClientEncryptedExtensionsMsg.unmarshal
		var ok bool
		var cp uint16
		var st []byte
		if guard(c, "utlsClientEncryptedExtensionsMsg.unmarshal", kind, data, func() { ok, cp, st = utls.VerifC34UnmarshalClientEE(data) }) {
			o := "None"
			if ok {
				o = fmt.Sprintf("(Some (%d, %s))", cp, cb(st))
			}
			c.Case("cee", fmt.Sprintf("CCee %s %s", cb(data), o), "cee/"+vh.Hex(data), ok, map[string]any{"fn": "clientEE.unmarshal", "in": vh.Hex(data), "ok": ok})
		}
		// utlsCompressedCertificateMsg.unmarshal
		var alg uint16
		var ul uint32
		var body []byte
		if guard(c, "utlsCompressedCertificateMsg.unmarshal", kind, data, func() { ok, alg, ul, body = utls.VerifC34UnmarshalCompressedCert(data) }) {
			o := "None"
			if ok {
				o = fmt.Sprintf("(Some (%d, %d, %s))", alg, ul, cb(body))
			}
			c.Case("cc", fmt.Sprintf("CCc %s %s", cb(data), o), "cc/"+vh.Hex(data), ok, map[string]any{"fn": "compressedCert.unmarshal", "in": vh.Hex(data), "ok": ok})
		}
		// the message-type switch on a server (and, for contrast, a client) connection
		if len(data) >= 4 {
			for _, role := range []bool{false, true} {
				for _, vers := range []uint16{0x0303, 0x0304} {
					var tn, et string
					var al int
					if !guard(c, "Conn.unmarshalHandshakeMessage", kind, data, func() { tn, al, et = utls.VerifC34UnmarshalHandshakeMessage(role, vers, data) }) {
						continue
					}
					o := "None"
					stdok := false
					if tn != "" {
						ct, known := goTypeCoq[tn]
						if !known {
							c.Fail("model/unknown-go-type", "unmarshalHandshakeMessage returned a type the model does not know: "+tn, vh.Hex(data), tn, "a known type")
							continue
						}
						o = "(Some " + ct + ")"
						stdok = true
					} else if al != 10 {
						c.Fail("alert/unmarshalHandshakeMessage", "unexpected alert from unmarshalHandshakeMessage: "+et, vh.Hex(data), al, 10)
					}
					c.Case("switch", fmt.Sprintf("CUnmarshal %s %d %s %s %s", vh.Bool(role), vers, vh.Bool(stdok), cb(data), o),
						fmt.Sprintf("sw/%v/%d/%s", role, vers, vh.Hex(data)), tn != "", nil)
				}
			}
		}
	}
	// every type byte once, with an empty body
	for ty := 0; ty < 256; ty++ {
		data := hs(byte(ty), nil)
		versions := []uint16{0x0304}
		if ty == 4 || ty == 11 || ty == 13 || ty == 8 || ty == 25 { // the version-dependent types, and the two uTLS ones
			versions = []uint16{0x0303, 0x0304}
		}
		for _, vers := range versions {
			var tn string
			var al int
			if !guard(c, "Conn.unmarshalHandshakeMessage", "type-sweep", data, func() { tn, al, _ = utls.VerifC34UnmarshalHandshakeMessage(false, vers, data) }) {
				continue
			}
			_ = al
			o := "None"
			if tn != "" {
				o = "(Some " + goTypeCoq[tn] + ")"
			}
			c.Case("type-sweep", fmt.Sprintf("CUnmarshal false %d %s %s %s", vers, vh.Bool(tn != ""), cb(data), o), fmt.Sprintf("ty/%d/%d", ty, vers), tn != "", nil)
		}
	}
}

// ---- live servers ----
type srvCfg struct {
	name       string
	min, max   uint16
	clientAuth utls.ClientAuthType
}

var srvCfgs = []srvCfg{
	{"tls13", utls.VersionTLS13, utls.VersionTLS13, utls.NoClientCert},
	{"tls13-clientauth", utls.VersionTLS13, utls.VersionTLS13, utls.RequireAnyClientCert},
	{"tls12", utls.VersionTLS12, utls.VersionTLS12, utls.NoClientCert},
	{"tls12-clientauth", utls.VersionTLS12, utls.VersionTLS12, utls.RequireAnyClientCert},
	{"any", utls.VersionTLS10, utls.VersionTLS13, utls.RequestClientCert},
}

var ticketKey = [32]byte{1, 2, 3}

func serverConfig(s srvCfg) *utls.Config {
	cfg := &utls.Config{
		Certificates: []utls.Certificate{{Certificate: [][]byte{pki.LeafDER}, PrivateKey: pki.LeafKey}},
		MinVersion:   s.min, MaxVersion: s.max, ClientAuth: s.clientAuth,
		NextProtos: []string{"h2", "http/1.1"},
	}
	cfg.SetSessionTicketKeys([][32]byte{ticketKey}) // session tickets on
	return cfg
}

type srvResult struct {
	panicked bool
	pval     any
	hsErr    error
	rdErr    error
	done     bool
}

// serve runs one server connection: Handshake then Read, each under the deadline, recover around both.
func serve(conn net.Conn, cfg *utls.Config) *srvResult {
	res := &srvResult{}
	res.panicked, res.pval = vh.Recover(func() {
		conn.SetDeadline(time.Now().Add(deadline))
		s := utls.Server(conn, cfg)
		res.hsErr = s.Handshake()
		if res.hsErr == nil {
			buf := make([]byte, 512)
			for i := 0; i < 4 && res.rdErr == nil; i++ {
				_, res.rdErr = s.Read(buf)
			}
		}
		conn.Close()
	})
	res.done = true
	return res
}

var listener net.Listener
var errSkipped = fmt.Errorf("skipped")

// withServer starts a server connection on loopback TCP, lets client(conn) talk to it, and waits for the server
// to return. A server that has not returned deadline+2s after the client is done is a hang.
func withServer(cfg *utls.Config, client func(conn net.Conn)) (res *srvResult, hung bool) {
	if liveHangs >= 3 { // every hung server goroutine keeps spinning; three witnesses are enough
		return &srvResult{hsErr: errSkipped, done: true}, false
	}
	if listener == nil {
		l, err := net.Listen("tcp", "127.0.0.1:0")
		if err != nil {
			panic(err)
		}
		listener = l
	}
	ch := make(chan *srvResult, 1)
	go func() {
		sc, err := listener.Accept()
		if err != nil {
			ch <- &srvResult{hsErr: err, done: true}
			return
		}
		ch <- serve(sc, cfg)
	}()
	cc, err := net.Dial("tcp", listener.Addr().String())
	if err != nil {
		panic(err)
	}
	cc.SetDeadline(time.Now().Add(deadline + time.Second))
	client(cc)
	// drain whatever the server still sends, then close
	go func() { io.Copy(io.Discard, cc); cc.Close() }()
	select {
	case res = <-ch:
		return res, false
	case <-time.After(deadline + 2*time.Second):
		cc.Close()
		return nil, true
	}
}

func record(typ byte, vers uint16, payload []byte) []byte {
	var out []byte
	for len(payload) > 16384 {
		out = append(out, typ, byte(vers>>8), byte(vers))
		out = append(out, u16(16384)...)
		out = append(out, payload[:16384]...)
		payload = payload[16384:]
	}
	out = append(out, typ, byte(vers>>8), byte(vers))
	out = append(out, u16(len(payload))...)
	return append(out, payload...)
}

func judge(c *vh.Ctx, key string, script []byte, res *srvResult, hung bool, what string) {
	in := map[string]any{"what": what, "script": vh.Hex(script)}
	if res != nil && res.hsErr == errSkipped {
		c.Count("skipped-after-3-hangs")
		return
	}
	if hung {
		liveHangs++
		c.Fail("hang/"+key, "server Handshake/Read did not return within the connection deadline", in, "still running", "returns")
		return
	}
	if res.panicked {
		c.Fail("panic/"+key, "server Handshake/Read panicked", in, fmt.Sprint(res.pval), "success or an error")
	}
}

var reUnexpected = regexp.MustCompile(`unexpected handshake message of type (\*tls\.\w+) when waiting for (\*tls\.\w+)`)
var reUnexpectedPost = regexp.MustCompile(`received unexpected handshake message of type (\*tls\.\w+)$`)

// dispatchCase turns "unexpected ... type X when waiting for Y" into a (read point, type) case for the model.
func dispatchCase(c *vh.Ctx, cfgName string, err error) {
	if err == nil {
		return
	}
	tls13 := strings.HasPrefix(cfgName, "tls13")
	if m := reUnexpected.FindStringSubmatch(err.Error()); m != nil {
		t, ok := goTypeCoq[m[1]]
		if !ok {
			return
		}
		rp := ""
		switch m[2] {
		case "*tls.clientHelloMsg":
			rp = "RP_ClientHello"
		case "*tls.certificateMsg":
			rp = "RP_Certificate12"
		case "*tls.certificateMsgTLS13":
			rp = "RP_Certificate13"
		case "*tls.clientKeyExchangeMsg":
			rp = "RP_ClientKeyExchange"
		case "*tls.certificateVerifyMsg":
			rp = map[bool]string{true: "RP_CertificateVerify13", false: "RP_CertificateVerify12"}[tls13]
		case "*tls.finishedMsg":
			rp = map[bool]string{true: "RP_Finished13", false: "RP_Finished12"}[tls13]
		case "*tls.helloRequestMsg":
			rp = "RP_PostHandshake12"
		}
		if rp != "" {
			c.Case("dispatch", fmt.Sprintf("CDispatch %s %s", rp, t), rp+"/"+t, true, map[string]any{"read_point": rp, "type": m[1], "server_error": err.Error()})
		}
	} else if m := reUnexpectedPost.FindStringSubmatch(err.Error()); m != nil {
		if t, ok := goTypeCoq[m[1]]; ok {
			c.Case("dispatch", fmt.Sprintf("CDispatch RP_PostHandshake13 %s", t), "RP_PostHandshake13/"+t, true, map[string]any{"read_point": "RP_PostHandshake13", "type": m[1]})
		}
	}
}

func runServers(c *vh.Ctx) {
	r := c.Rng
	runHelloMutations(c, r)
	runKeyShareLengths(c, r)
	runKeyShareAfterHRR(c, r)
	runHelloChangeAfterHRR(c, r)
	runStatefulExtsAfterHRR(c, r)
	runCBCRecords(c, r)
	runPskConfigs(c, r)
	runPostHandshake(c, r)
	runInjections(c, r)
	runRawStreams(c, r)
	if listener != nil {
		listener.Close()
	}
}

// ---- (1) mutated ClientHellos from every parrot ----
func runHelloMutations(c *vh.Ctx, r *rand.Rand) {
	per := 2
	if c.Tier != "quick" {
		per = 12
	}
	for pi, p := range parrots {
		raw, err := buildHello(p.id, "c34.test")
		if err != nil {
			c.Count("parrot-build-error/" + p.name)
			continue
		}
		for k := 0; k < per; k++ {
			kind := helloMutations[(pi*per+k)%len(helloMutations)]
			mut, ok := mutateHello(r, kind, raw)
			if !ok {
				continue
			}
			s := srvCfgs[(pi+k)%len(srvCfgs)]
			script := record(22, 0x0301, mut)
			if kind == "record-len" && len(script) > 5 {
				script[3+r.Intn(2)] ^= byte(1 + r.Intn(255))
			}
			res, hung := withServer(serverConfig(s), func(conn net.Conn) {
				conn.Write(script)
				if tc, ok := conn.(*net.TCPConn); ok {
					tc.CloseWrite()
				}
			})
			judge(c, "hello/"+kind, script, res, hung, p.name+" hello, mutation "+kind+", server "+s.name)
			c.Count("hello-run/" + kind)
			if res != nil && res.hsErr == nil {
				c.Count("hello-handshake-completed") // cannot happen without a client Finished
			}
		}
	}
}

// ---- (2) injected client EncryptedExtensions / CompressedCertificate at each handshake position ----
func runInjections(c *vh.Ctx, r *rand.Rand) {
	msgs := map[string]func() []byte{
		"ee-alps":       func() []byte { return clientEE(r, 17513, 8) },
		"ee-alps-new":   func() []byte { return clientEE(r, 17613, 0) },
		"ee-empty":      func() []byte { return clientEE(r, 0, 0) },
		"ee-unknown":    func() []byte { return clientEE(r, 1234, 2) },
		"ee-truncated":  func() []byte { m := clientEE(r, 17513, 8); return m[:len(m)-3] },
		"ee-badlen":     func() []byte { m := clientEE(r, 17513, 8); m[5]++; return m },
		"cc-valid":      func() []byte { return compressedCert(r, 20) },
		"cc-truncated":  func() []byte { m := compressedCert(r, 20); return m[:9] },
		"cc-huge-claim": func() []byte { m := compressedCert(r, 20); m[6], m[7], m[8] = 0xff, 0xff, 0xff; return m },
	}
	names := []string{"ee-alps", "ee-alps-new", "ee-empty", "ee-unknown", "ee-truncated", "ee-badlen", "cc-valid", "cc-truncated", "cc-huge-claim"}
	clientCert := utls.Certificate{Certificate: [][]byte{pki.LeafDER}, PrivateKey: pki.LeafKey}
	// TLS 1.3: scripted client, positions 0..4 inside the handshake and 5 after it
	for _, s := range srvCfgs[:2] {
		for pos := 0; pos <= 5; pos++ {
			for _, mn := range names {
				if c.Tier == "quick" && (pos+len(mn))%2 == 1 && pos != 2 {
					continue // quick tier: half of the grid, position 2 (first encrypted one) always
				}
				msg := msgs[mn]()
				var cliErr error
				res, hung := withServer(serverConfig(s), func(conn net.Conn) {
					cfg := &utls.Config{InsecureSkipVerify: true, ServerName: "c34.test", Certificates: []utls.Certificate{clientCert},
						MinVersion: utls.VersionTLS13, MaxVersion: utls.VersionTLS13}
					cl := utls.VerifC34Client13(conn, cfg, func(p int) [][]byte {
						if p == pos {
							return [][]byte{msg}
						}
						return nil
					})
					cliErr = cl.Handshake()
					if cliErr == nil && pos == 5 {
						cliErr = cl.VerifC34WriteHandshakeRecord(msg)
					}
					if cliErr == nil {
						cl.Write([]byte("ping"))
					}
					if tc, ok := conn.(*net.TCPConn); ok {
						tc.CloseWrite()
					}
				})
				key := fmt.Sprintf("inject/%s/pos%d/%s", s.name, pos, mn)
				judge(c, key, msg, res, hung, key)
				c.Count(fmt.Sprintf("inject-run/%s/pos%d", s.name, pos))
				if res != nil {
					e := res.hsErr
					if e == nil {
						e = res.rdErr
					}
					if res.hsErr == nil && (res.rdErr == nil || res.rdErr == io.EOF) {
						// the handshake completed and Read ended without an alert: the injected message was swallowed.
						// not a violation of the property (no crash, no hang) but outside the model: the correspondence breaks
						c.Case("accepted", fmt.Sprintf("CAccepted %d", pos), "accepted/"+key, true,
							map[string]any{"position": key, "message": vh.Hex(msg), "server_error": fmt.Sprint(e)})
					}
					dispatchCase(c, s.name, e)
				}
				_ = cliErr
			}
		}
	}
	// TLS 1.2: standard Go-style client of the package; plaintext injection before its 1st / 2nd flight, encrypted after the handshake
	for _, s := range srvCfgs[2:4] {
		for pos := 0; pos <= 2; pos++ {
			for _, mn := range names {
				if c.Tier == "quick" && (pos+len(mn))%2 == 0 {
					continue
				}
				msg := msgs[mn]()
				res, hung := withServer(serverConfig(s), func(conn net.Conn) {
					cfg := &utls.Config{InsecureSkipVerify: true, ServerName: "c34.test", Certificates: []utls.Certificate{clientCert},
						MinVersion: utls.VersionTLS12, MaxVersion: utls.VersionTLS12}
					w := &injectConn{Conn: conn, at: pos + 1, rec: record(22, 0x0303, msg)}
					if pos == 2 {
						w.at = -1
					}
					cl := utls.Client(w, cfg)
					err := cl.Handshake()
					if err == nil && pos == 2 {
						err = cl.VerifC34WriteHandshakeRecord(msg)
					}
					if err == nil {
						cl.Write([]byte("ping"))
					}
					if tc, ok := conn.(*net.TCPConn); ok {
						tc.CloseWrite()
					}
				})
				key := fmt.Sprintf("inject/%s/pos%d/%s", s.name, pos, mn)
				judge(c, key, msg, res, hung, key)
				c.Count(fmt.Sprintf("inject-run/%s/pos%d", s.name, pos))
				if res != nil {
					e := res.hsErr
					if e == nil {
						e = res.rdErr
					}
					if res.hsErr == nil && (res.rdErr == nil || res.rdErr == io.EOF) {
						// the handshake completed and Read ended without an alert: the injected message was swallowed.
						// not a violation of the property (no crash, no hang) but outside the model: the correspondence breaks
						c.Case("accepted", fmt.Sprintf("CAccepted %d", pos), "accepted/"+key, true,
							map[string]any{"position": key, "message": vh.Hex(msg), "server_error": fmt.Sprint(e)})
					}
					dispatchCase(c, s.name, e)
				}
			}
		}
	}
}

// injectConn writes rec just before the at-th Write of the wrapped connection.
type injectConn struct {
	net.Conn
	at, n int
	rec   []byte
}

func (w *injectConn) Write(b []byte) (int, error) {
	w.n++
	if w.n == w.at {
		if _, err := w.Conn.Write(w.rec); err != nil {
			return 0, err
		}
	}
	return w.Conn.Write(b)
}

// ---- (3) raw record streams ----
func runRawStreams(c *vh.Ctx, r *rand.Rand) {
	n := 30 + c.N/5
	kinds := []string{"random-bytes", "random-records", "handshake-fragments", "huge-length", "type8-first", "type25-first", "alert-first", "appdata-first", "ccs-flood", "empty-records"}
	for i := 0; i < n; i++ {
		kind := kinds[i%len(kinds)]
		var script []byte
		switch kind {
		case "random-bytes":
			script = rbytes(r, 1+r.Intn(300))
		case "random-records":
			for k := 0; k < 1+r.Intn(4); k++ {
				script = append(script, record([]byte{20, 21, 22, 23, 24, byte(r.Intn(256))}[r.Intn(6)], []uint16{0x0301, 0x0303, 0x0304, uint16(r.Intn(65536))}[r.Intn(4)], rbytes(r, r.Intn(120)))...)
			}
		case "handshake-fragments": // a handshake message split over many tiny records
			m := hs(1, rbytes(r, 60+r.Intn(100)))
			for len(m) > 0 {
				k := 1 + r.Intn(5)
				if k > len(m) {
					k = len(m)
				}
				script = append(script, record(22, 0x0303, m[:k])...)
				m = m[k:]
			}
		case "huge-length":
			script = record(22, 0x0303, append([]byte{byte(r.Intn(30)), 0xff, 0xff, 0xff}, rbytes(r, 20)...))
		case "type8-first":
			script = record(22, 0x0303, mutateMsg(r, msgMutations[r.Intn(len(msgMutations))], clientEE(r, 17513, 5)))
		case "type25-first":
			script = record(22, 0x0303, mutateMsg(r, msgMutations[r.Intn(len(msgMutations))], compressedCert(r, 12)))
		case "alert-first":
			script = record(21, 0x0303, []byte{byte(1 + r.Intn(2)), byte(r.Intn(256))})
		case "appdata-first":
			script = record(23, 0x0303, rbytes(r, r.Intn(50)))
		case "ccs-flood":
			for k := 0; k < 40; k++ {
				script = append(script, record(20, 0x0303, []byte{1})...)
			}
		case "empty-records":
			for k := 0; k < 40; k++ {
				script = append(script, record(22, 0x0303, nil)...)
			}
		}
		s := srvCfgs[i%len(srvCfgs)]
		res, hung := withServer(serverConfig(s), func(conn net.Conn) {
			conn.Write(script)
			if tc, ok := conn.(*net.TCPConn); ok {
				tc.CloseWrite()
			}
		})
		judge(c, "raw/"+kind, script, res, hung, "raw stream "+kind+", server "+s.name)
		c.Count("raw-run/" + kind)
		if res != nil && (kind == "type8-first" || kind == "type25-first") {
			dispatchCase(c, s.name, res.hsErr)
		}
	}
}

var _ = binary.BigEndian

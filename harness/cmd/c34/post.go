package main

// Two targeted scenario families added after the first integration round:
//  (A) structured key_share edits: the share of every group the server implements is replaced by boundary lengths with
//      all enclosing length prefixes fixed up (the hello stays well-formed), key_share first / last / last-but-one in the
//      extension list (the parsed share aliases the message buffer, so what follows it matters), against servers whose
//      CurvePreferences select exactly that group;
//  (B) post-handshake traffic: a real client completes a TLS 1.3 handshake, sends KeyUpdates and other post-handshake
//      messages and then closes or stops reading, while the server sits in Read and its own writes succeed, fail or block.

import (
	"encoding/binary"
	"errors"
	"fmt"
	"math/rand"
	"net"
	"os"
	"sync"
	"sync/atomic"
	"time"

	"crypto/x509"

	utls "github.com/refraction-networking/utls"
	"verif/harness/vh"
)

// ---------- (A) key_share lengths ----------

type groupInfo struct {
	id   uint16
	name string
	lens []int
}

var serverGroups = []groupInfo{
	{4588, "X25519MLKEM768", []int{0, 1, 31, 32, 33, 1183, 1184, 1185, 1215, 1216, 1217}},
	{29, "X25519", []int{0, 1, 31, 32, 33}},
	{23, "P256", []int{1, 64, 65, 66}},
	{24, "P384", []int{1, 96, 97, 98}},
	{25, "P521", []int{1, 132, 133, 134}},
}

// keyShareHello rewrites base so that it offers TLS 1.3, lists group in supported_groups and carries exactly one key share
// of that group with n bytes of key_exchange. layout: "last" (nothing follows the share), "small-after" (one 1-byte
// extension follows), "first" (all other extensions follow). Padding and pre_shared_key are dropped.
func keyShareHello(r *rand.Rand, base []byte, group uint16, n int, layout string, ensure ...uint16) ([]byte, bool) {
	ensure = append(ensure, group)
	w, ok := splitHello(base)
	if !ok {
		return nil, false
	}
	var exts []wext
	haveGroups, haveVers := false, false
	for _, x := range w.exts {
		switch x.id {
		case 51, 21, 41:
			continue
		case 10:
			haveGroups = true
			d := append([]byte{}, x.data...)
			for _, g := range ensure { // always in the order of `ensure`, so that two hellos built with the same list agree
				has := false
				for i := 2; i+1 < len(d); i += 2 {
					if binary.BigEndian.Uint16(d[i:]) == g {
						has = true
					}
				}
				if !has && len(d) >= 2 {
					d = append(d, byte(g>>8), byte(g))
				}
			}
			if len(d) >= 2 {
				binary.BigEndian.PutUint16(d, uint16(len(d)-2))
			}
			x.data = d
		case 43:
			haveVers = true
			x.data = []byte{4, 3, 4, 3, 3}
		}
		exts = append(exts, x)
	}
	if !haveGroups {
		var l []byte
		for _, g := range ensure {
			l = append(l, byte(g>>8), byte(g))
		}
		exts = append(exts, wext{10, u16lp(l)})
	}
	if !haveVers {
		exts = append(exts, wext{43, []byte{4, 3, 4, 3, 3}})
	}
	share := append(u16(int(group)), u16lp(rbytes(r, n))...)
	ks := wext{51, u16lp(share)}
	switch layout {
	case "first":
		exts = append([]wext{ks}, exts...)
	case "small-after":
		exts = append(exts, ks, wext{0x3a3a, []byte{0}})
	default:
		exts = append(exts, ks)
	}
	w.exts, w.hasExts = exts, true
	return w.bytes(0, 0), true
}

func runKeyShareLengths(c *vh.Ctx, r *rand.Rand) {
	var bases [][]byte
	for _, id := range []utls.ClientHelloID{utls.HelloGolang, utls.HelloChrome_133, utls.HelloFirefox_120} {
		if raw, err := buildHello(id, "c34.test"); err == nil {
			bases = append(bases, raw)
		}
	}
	if len(bases) == 0 {
		c.Count("keyshare-no-base-hello")
		return
	}
	k := 0
	for _, g := range serverGroups {
		layouts := []string{"last", "small-after", "first"}
		if g.id != 4588 && c.Tier == "quick" {
			layouts = []string{"last"}
		}
		for _, n := range g.lens {
			for _, layout := range layouts {
				k++
				hello, ok := keyShareHello(r, bases[k%len(bases)], g.id, n, layout)
				if !ok {
					continue
				}
				cfg := serverConfig(srvCfgs[0])
				cfg.CurvePreferences = []utls.CurveID{utls.CurveID(g.id)}
				script := record(22, 0x0301, hello)
				res, hung := withServer(cfg, func(conn net.Conn) {
					conn.Write(script)
					if tc, ok := conn.(*net.TCPConn); ok {
						tc.CloseWrite()
					}
				})
				key := fmt.Sprintf("hello/keyshare-len/%s/%d/%s", g.name, n, layout)
				judge(c, key, script, res, hung, fmt.Sprintf("well-formed hello, single %s key share of %d bytes, key_share %s, server prefers only that group", g.name, n, layout))
				c.Count("keyshare-run/" + g.name)
			}
		}
	}
}

// ---------- (B) post-handshake ----------

// faultConn lets the server's writes succeed, fail at once (peer gone) or block until the deadline (peer not reading).
type faultConn struct {
	net.Conn
	mode atomic.Int32 // 0 ok, 1 fail, 2 block
	dl   time.Time
}

func (f *faultConn) Write(b []byte) (int, error) {
	switch f.mode.Load() {
	case 1:
		return 0, errors.New("write: broken pipe (injected by the harness)")
	case 2:
		if d := time.Until(f.dl); d > 0 {
			time.Sleep(d)
		}
		return 0, os.ErrDeadlineExceeded
	}
	return f.Conn.Write(b)
}

type phKind struct {
	name string
	send func(cl *utls.Conn) error
}

func nstBody(r *rand.Rand) []byte {
	b := append(rbytes(r, 8), 1, 7)        // lifetime, age_add, nonce
	b = append(b, u16lp(rbytes(r, 24))...) // ticket
	return append(b, 0, 0)                 // extensions
}

func phKinds(r *rand.Rand) []phKind {
	raw := func(m []byte) func(*utls.Conn) error {
		return func(cl *utls.Conn) error { return cl.VerifC34WriteHandshakeRecord(m) }
	}
	ku := func(n int, req bool) func(*utls.Conn) error {
		return func(cl *utls.Conn) error {
			for i := 0; i < n; i++ {
				if err := cl.VerifC34SendKeyUpdate(req); err != nil {
					return err
				}
			}
			return nil
		}
	}
	hello, _ := buildHello(utls.HelloGolang, "c34.test")
	return []phKind{
		{"keyupdate-requested", ku(1, true)},
		{"keyupdate-not-requested", ku(1, false)},
		{"keyupdate-x20-requested", ku(20, true)},
		{"keyupdate-x40-not-requested", ku(40, false)},
		{"appdata-then-keyupdate", func(cl *utls.Conn) error { cl.Write([]byte("ping")); return ku(2, true)(cl) }},
		{"keyupdate-raw-bad-value", raw(hs(24, []byte{2}))},
		{"keyupdate-raw-long", raw(hs(24, []byte{1, 0}))},
		{"keyupdate-raw-unratcheted-then-data", func(cl *utls.Conn) error {
			if err := cl.VerifC34WriteHandshakeRecord(hs(24, []byte{1})); err != nil {
				return err
			}
			_, err := cl.Write([]byte("under the old key"))
			return err
		}},
		{"new-session-ticket", raw(hs(4, nstBody(r)))},
		{"certificate-request", raw(hs(13, []byte{0, 0, 0}))},
		{"garbage-type", raw(hs(99, rbytes(r, 9)))},
		{"finished", raw(hs(20, rbytes(r, 32)))},
		{"client-hello", raw(hello)},
		{"client-ee", raw(clientEE(r, 17513, 4))},
		{"compressed-cert", raw(compressedCert(r, 10))},
	}
}

type phVariant struct {
	name    string
	srvMode int32 // faultConn mode after the server's handshake
	hold    bool  // client keeps the connection open (never reads) instead of closing
}

var phVariants = []phVariant{
	{"client-closes", 0, false},
	{"client-closes/server-write-fails", 1, false},
	{"client-stops-reading/server-write-blocks", 2, true},
}

func runPostHandshake(c *vh.Ctx, r *rand.Rand) {
	kinds := phKinds(r)
	var wg sync.WaitGroup
	for ki, k := range kinds {
		for vi, v := range phVariants {
			wg.Add(1)
			go func(ki, vi int, k phKind, v phVariant) {
				defer wg.Done()
				l, err := net.Listen("tcp", "127.0.0.1:0")
				if err != nil {
					return
				}
				defer l.Close()
				ch := make(chan *srvResult, 1)
				go func() {
					sc, err := l.Accept()
					if err != nil {
						ch <- &srvResult{hsErr: err, done: true}
						return
					}
					res := &srvResult{}
					res.panicked, res.pval = vh.Recover(func() {
						fc := &faultConn{Conn: sc, dl: time.Now().Add(deadline)}
						sc.SetDeadline(fc.dl)
						s := utls.Server(fc, serverConfig(srvCfgs[ki%2]))
						if res.hsErr = s.Handshake(); res.hsErr == nil {
							fc.mode.Store(v.srvMode)
							buf := make([]byte, 512)
							for i := 0; i < 8 && res.rdErr == nil; i++ {
								_, res.rdErr = s.Read(buf)
							}
						}
						sc.Close()
					})
					res.done = true
					ch <- res
				}()
				cc, err := net.Dial("tcp", l.Addr().String())
				if err != nil {
					return
				}
				defer cc.Close()
				cc.SetDeadline(time.Now().Add(deadline + 3*time.Second))
				cfg := &utls.Config{InsecureSkipVerify: true, ServerName: "c34.test", MinVersion: utls.VersionTLS13, MaxVersion: utls.VersionTLS13,
					Certificates: []utls.Certificate{{Certificate: [][]byte{pki.LeafDER}, PrivateKey: pki.LeafKey}}}
				var cl *utls.Conn
				if (ki+vi)%2 == 0 {
					cl = utls.Client(cc, cfg)
					err = cl.Handshake()
				} else {
					u := utls.UClient(cc, cfg, utls.HelloChrome_133)
					err = u.Handshake()
					cl = u.Conn
				}
				if err != nil {
					c.Count("post-handshake-client-handshake-error")
					cc.Close()
					<-ch
					return
				}
				sendErr := k.send(cl)
				if !v.hold {
					cc.Close()
				}
				what := fmt.Sprintf("after a completed TLS 1.3 handshake the client sends %s, then %s (client send error: %v)", k.name, v.name, sendErr)
				select {
				case res := <-ch:
					if res.panicked {
						c.Fail("panic/post-handshake/"+k.name, "server Read panicked on post-handshake client traffic", what, fmt.Sprint(res.pval), "success or an error")
					}
					c.Count("post-handshake-run/" + v.name)
				case <-time.After(deadline + 2*time.Second):
					c.Fail("hang/post-handshake/"+k.name, "server Read did not return within the connection deadline", what, "still running 2 s after the 3 s deadline", "returns")
				}
			}(ki, vi, k, v)
		}
	}
	wg.Wait()
}

// ---------- (A2) the same share lengths in the SECOND ClientHello, after a server-issued HelloRetryRequest ----------

var otherGroup = map[uint16][2]int{4588: {29, 32}, 29: {23, 65}, 23: {29, 32}, 24: {29, 32}, 25: {29, 32}} // group sent first, its size

// readFlight reads until at least one complete handshake record arrived (the HelloRetryRequest) or the wait is over.
func readFlight(conn net.Conn) []byte {
	var got []byte
	buf := make([]byte, 4096)
	end := time.Now().Add(1500 * time.Millisecond)
	for time.Now().Before(end) {
		conn.SetReadDeadline(time.Now().Add(150 * time.Millisecond))
		n, err := conn.Read(buf)
		got = append(got, buf[:n]...)
		for b := got; len(b) >= 5; {
			l := int(b[3])<<8 | int(b[4])
			if len(b) < 5+l {
				break
			}
			if b[0] == 22 || b[0] == 21 {
				return got
			}
			b = b[5+l:]
		}
		if err != nil && n == 0 {
			if ne, ok := err.(net.Error); !ok || !ne.Timeout() {
				return got
			}
		}
	}
	return got
}

func runKeyShareAfterHRR(c *vh.Ctx, r *rand.Rand) {
	var bases [][]byte
	for _, id := range []utls.ClientHelloID{utls.HelloGolang, utls.HelloChrome_133, utls.HelloFirefox_120} {
		if raw, err := buildHello(id, "c34.test"); err == nil {
			bases = append(bases, raw)
		}
	}
	if len(bases) == 0 {
		return
	}
	k := 0
	for _, g := range serverGroups {
		other := otherGroup[g.id]
		lens := g.lens
		if g.id != 4588 && c.Tier == "quick" {
			lens = lens[:2]
		}
		for _, n := range lens {
			k++
			base := bases[k%len(bases)]
			ensure := []uint16{uint16(other[0]), g.id}
			h1, ok1 := keyShareHello(r, base, uint16(other[0]), other[1], "last", ensure...)
			h2, ok2 := keyShareHello(r, base, g.id, n, "last", ensure...)
			if !ok1 || !ok2 {
				continue
			}
			cfg := serverConfig(srvCfgs[0])
			cfg.CurvePreferences = []utls.CurveID{utls.CurveID(g.id)}
			s1, s2 := record(22, 0x0301, h1), record(22, 0x0303, h2)
			gotHRR := false
			res, hung := withServer(cfg, func(conn net.Conn) {
				conn.Write(s1)
				flight := readFlight(conn)
				gotHRR = len(flight) > 5 && flight[0] == 22
				conn.SetDeadline(time.Now().Add(deadline))
				conn.Write(s2)
				if tc, ok := conn.(*net.TCPConn); ok {
					tc.CloseWrite()
				}
			})
			key := fmt.Sprintf("hello/keyshare-len-after-hrr/%s/%d", g.name, n)
			judge(c, key, append(append([]byte{}, s1...), s2...), res, hung,
				fmt.Sprintf("hello #1 lists %s but sends a share of group %d (server prefers only %s -> HelloRetryRequest), hello #2 = the same hello with a %d-byte %s share", g.name, other[0], g.name, n, g.name))
			if gotHRR {
				c.Count("keyshare-after-hrr-run/" + g.name)
			} else {
				c.Count("keyshare-after-hrr-no-hrr/" + g.name)
			}
		}
	}
}

// ---------- (C) callback-bearing server configurations x ClientHellos that offer a PSK ----------

type cbCfg struct {
	name string
	mk   func() *utls.Config
}

func cbConfigs() []cbCfg {
	base := func(auth utls.ClientAuthType) *utls.Config {
		s := srvCfgs[0]
		s.clientAuth = auth
		s.min = utls.VersionTLS12
		return serverConfig(s)
	}
	return []cbCfg{
		{"plain", func() *utls.Config { return base(utls.NoClientCert) }},
		{"unwrap-wrap-session", func() *utls.Config {
			cfg := base(utls.NoClientCert)
			cfg.UnwrapSession = func(id []byte, cs utls.ConnectionState) (*utls.SessionState, error) { return cfg.DecryptTicket(id, cs) }
			cfg.WrapSession = func(cs utls.ConnectionState, ss *utls.SessionState) ([]byte, error) { return cfg.EncryptTicket(cs, ss) }
			return cfg
		}},
		{"unwrap-session-only", func() *utls.Config {
			cfg := base(utls.RequestClientCert)
			cfg.UnwrapSession = func(id []byte, cs utls.ConnectionState) (*utls.SessionState, error) { return cfg.DecryptTicket(id, cs) }
			return cfg
		}},
		{"unwrap-session-rejecting", func() *utls.Config {
			cfg := base(utls.NoClientCert)
			cfg.UnwrapSession = func(id []byte, cs utls.ConnectionState) (*utls.SessionState, error) { return nil, nil }
			return cfg
		}},
		{"get-config-for-client", func() *utls.Config {
			cfg := base(utls.NoClientCert)
			inner := base(utls.VerifyClientCertIfGiven)
			inner.UnwrapSession = func(id []byte, cs utls.ConnectionState) (*utls.SessionState, error) {
				return inner.DecryptTicket(id, cs)
			}
			inner.WrapSession = func(cs utls.ConnectionState, ss *utls.SessionState) ([]byte, error) {
				return inner.EncryptTicket(cs, ss)
			}
			cfg.GetConfigForClient = func(*utls.ClientHelloInfo) (*utls.Config, error) { return inner, nil }
			return cfg
		}},
		{"get-certificate", func() *utls.Config {
			cfg := base(utls.NoClientCert)
			cert := cfg.Certificates[0]
			cfg.Certificates = nil
			cfg.GetCertificate = func(*utls.ClientHelloInfo) (*utls.Certificate, error) { return &cert, nil }
			return cfg
		}},
		{"verify-connection", func() *utls.Config {
			cfg := base(utls.RequestClientCert)
			cfg.VerifyConnection = func(cs utls.ConnectionState) error { _ = cs.PeerCertificates; return nil }
			cfg.VerifyPeerCertificate = func([][]byte, [][]*x509.Certificate) error { return nil }
			return cfg
		}},
		{"require-any-client-cert", func() *utls.Config { return base(utls.RequireAnyClientCert) }},
	}
}

// pskHello appends psk_key_exchange_modes (if missing) and a pre_shared_key extension with garbage identities/binders.
func pskHello(r *rand.Rand, base []byte, labelLen, nIds, binderLen int) ([]byte, bool) {
	w, ok := splitHello(base)
	if !ok {
		return nil, false
	}
	var exts []wext
	haveModes := false
	for _, x := range w.exts {
		if x.id == 41 || x.id == 21 {
			continue
		}
		if x.id == 45 {
			haveModes = true
			x.data = []byte{1, 1}
		}
		exts = append(exts, x)
	}
	if !haveModes {
		exts = append(exts, wext{45, []byte{1, 1}})
	}
	var ids, bs []byte
	for i := 0; i < nIds; i++ {
		ids = append(ids, u16lp(rbytes(r, labelLen))...)
		ids = append(ids, rbytes(r, 4)...)
		bs = append(bs, byte(binderLen))
		bs = append(bs, rbytes(r, binderLen)...)
	}
	exts = append(exts, wext{41, append(u16lp(ids), u16lp(bs)...)})
	w.exts, w.hasExts = exts, true
	return w.bytes(0, 0), true
}

func runPskConfigs(c *vh.Ctx, r *rand.Rand) {
	var bases [][]byte
	for _, id := range []utls.ClientHelloID{utls.HelloGolang, utls.HelloChrome_133} {
		if raw, err := buildHello(id, "c34.test"); err == nil {
			bases = append(bases, raw)
		}
	}
	type garbage struct{ label, n, binder int }
	garb := []garbage{{1, 1, 32}, {16, 1, 32}, {100, 2, 48}, {300, 1, 32}, {2000, 3, 32}}
	if c.Tier == "quick" {
		garb = []garbage{{16, 1, 32}, {300, 2, 48}}
	}
	resumers := []struct {
		name string
		id   utls.ClientHelloID
	}{{"Golang", utls.HelloGolang}, {"Chrome_100_PSK", utls.HelloChrome_100_PSK}, {"Chrome_112_PSK_Shuf", utls.HelloChrome_112_PSK_Shuf},
		{"Chrome_114_Padding_PSK_Shuf", utls.HelloChrome_114_Padding_PSK_Shuf}, {"Chrome_115_PQ_PSK", utls.HelloChrome_115_PQ_PSK}}
	for ci, cc := range cbConfigs() {
		// garbage identities
		for gi, g := range garb {
			if len(bases) == 0 {
				break
			}
			hello, ok := pskHello(r, bases[(ci+gi)%len(bases)], g.label, g.n, g.binder)
			if !ok {
				continue
			}
			script := record(22, 0x0301, hello)
			res, hung := withServer(cc.mk(), func(conn net.Conn) {
				conn.Write(script)
				if tc, ok := conn.(*net.TCPConn); ok {
					tc.CloseWrite()
				}
			})
			judge(c, fmt.Sprintf("psk/%s/garbage-identity-%d", cc.name, g.label), script, res, hung,
				fmt.Sprintf("server config %s; well-formed TLS 1.3 hello with psk_dhe_ke and %d garbage PSK identit(ies) of %d bytes, %d-byte binders", cc.name, g.n, g.label, g.binder))
			c.Count("psk-run/" + cc.name)
		}
		// genuine resumption: a first connection fills the client session cache, the second offers the ticket
		rs := resumers
		if c.Tier == "quick" {
			rs = []struct {
				name string
				id   utls.ClientHelloID
			}{resumers[0], resumers[1+ci%4]}
		}
		for _, rp := range rs {
			cache := utls.NewLRUClientSessionCache(4)
			cfg := cc.mk() // the same Config (ticket keys, callbacks) serves both connections
			clientCfg := func() *utls.Config {
				return &utls.Config{InsecureSkipVerify: true, ServerName: "c34.test", ClientSessionCache: cache,
					Certificates: []utls.Certificate{{Certificate: [][]byte{pki.LeafDER}, PrivateKey: pki.LeafKey}}}
			}
			connect := func(id utls.ClientHelloID) (res *srvResult, hung bool, cliErr error) {
				res, hung = withServer(cfg, func(conn net.Conn) {
					u := utls.UClient(conn, clientCfg(), id)
					pn, pv := vh.Recover(func() { cliErr = u.Handshake() })
					if pn {
						cliErr = fmt.Errorf("client panic: %v", pv)
					}
					if cliErr == nil {
						u.Write([]byte("x"))
						conn.SetReadDeadline(time.Now().Add(300 * time.Millisecond))
						u.Read(make([]byte, 64)) // lets the client process NewSessionTicket
					}
					conn.Close()
				})
				return
			}
			res, hung, err := connect(utls.HelloGolang)
			judge(c, fmt.Sprintf("psk/%s/first-connection", cc.name), nil, res, hung, "first (ticket-issuing) connection, server config "+cc.name)
			if err != nil {
				c.Count("psk-first-connection-client-error/" + cc.name)
				continue
			}
			res, hung, err = connect(rp.id)
			judge(c, fmt.Sprintf("psk/%s/resumption-%s", cc.name, rp.name), nil, res, hung,
				fmt.Sprintf("server config %s; %s client resumes the session of a previous connection (pre_shared_key with a genuine ticket); client error: %v", cc.name, rp.name, err))
			if res != nil && res.hsErr == nil {
				c.Count("psk-resumption-handshake-ok/" + rp.name)
			} else {
				c.Count("psk-resumption-handshake-error/" + rp.name)
			}
		}
	}
}

package main

// Two targeted scenario families added after the first integration round:
//  (A) structured key_share edits: the share of every group the server implements is replaced by boundary lengths with
//      all enclosing length prefixes fixed up (the hello stays well-formed), key_share first / last / last-but-one in the
//      extension list (the parsed share aliases the message buffer, so what follows it matters), against servers whose
//      CurvePreferences select exactly that group;
//  (B) post-handshake traffic: a real client completes a TLS 1.3 handshake, sends KeyUpdates and other post-handshake
//      messages and then closes or stops reading, while the server sits in Read and its own writes succeed, fail or block.

import (
	"encoding/binary"
	"errors"
	"fmt"
	"math/rand"
	"net"
	"os"
	"sync"
	"sync/atomic"
	"time"

	"crypto/ecdh"
	crand "crypto/rand"
	"crypto/x509"

	utls "github.com/refraction-networking/utls"
	"verif/harness/vh"
)

// ---------- (A) key_share lengths ----------

type groupInfo struct {
	id   uint16
	name string
	lens []int
}

var serverGroups = []groupInfo{
	{4588, "X25519MLKEM768", []int{0, 1, 31, 32, 33, 1183, 1184, 1185, 1215, 1216, 1217}},
	{29, "X25519", []int{0, 1, 31, 32, 33}},
	{23, "P256", []int{1, 64, 65, 66}},
	{24, "P384", []int{1, 96, 97, 98}},
	{25, "P521", []int{1, 132, 133, 134}},
}

// keyShareHello rewrites base so that it offers TLS 1.3, lists group in supported_groups and carries exactly one key share
// of that group with n bytes of key_exchange. layout: "last" (nothing follows the share), "small-after" (one 1-byte
// extension follows), "first" (all other extensions follow). Padding and pre_shared_key are dropped.
func keyShareHello(r *rand.Rand, base []byte, group uint16, n int, layout string, ensure ...uint16) ([]byte, bool) {
	ensure = append(ensure, group)
	w, ok := splitHello(base)
	if !ok {
		return nil, false
	}
	var exts []wext
	haveGroups, haveVers := false, false
	for _, x := range w.exts {
		switch x.id {
		case 51, 21, 41:
			continue
		case 10:
			haveGroups = true
			d := append([]byte{}, x.data...)
			for _, g := range ensure { // always in the order of `ensure`, so that two hellos built with the same list agree
				has := false
				for i := 2; i+1 < len(d); i += 2 {
					if binary.BigEndian.Uint16(d[i:]) == g {
						has = true
					}
				}
				if !has && len(d) >= 2 {
					d = append(d, byte(g>>8), byte(g))
				}
			}
			if len(d) >= 2 {
				binary.BigEndian.PutUint16(d, uint16(len(d)-2))
			}
			x.data = d
		case 43:
			haveVers = true
			x.data = []byte{4, 3, 4, 3, 3}
		}
		exts = append(exts, x)
	}
	if !haveGroups {
		var l []byte
		for _, g := range ensure {
			l = append(l, byte(g>>8), byte(g))
		}
		exts = append(exts, wext{10, u16lp(l)})
	}
	if !haveVers {
		exts = append(exts, wext{43, []byte{4, 3, 4, 3, 3}})
	}
	share := append(u16(int(group)), u16lp(rbytes(r, n))...)
	ks := wext{51, u16lp(share)}
	switch layout {
	case "first":
		exts = append([]wext{ks}, exts...)
	case "small-after":
		exts = append(exts, ks, wext{0x3a3a, []byte{0}})
	default:
		exts = append(exts, ks)
	}
	w.exts, w.hasExts = exts, true
	return w.bytes(0, 0), true
}

func runKeyShareLengths(c *vh.Ctx, r *rand.Rand) {
	var bases [][]byte
	for _, id := range []utls.ClientHelloID{utls.HelloGolang, utls.HelloChrome_133, utls.HelloFirefox_120} {
		if raw, err := buildHello(id, "c34.test"); err == nil {
			bases = append(bases, raw)
		}
	}
	if len(bases) == 0 {
		c.Count("keyshare-no-base-hello")
		return
	}
	k := 0
	for _, g := range serverGroups {
		layouts := []string{"last", "small-after", "first"}
		if g.id != 4588 && c.Tier == "quick" {
			layouts = []string{"last"}
		}
		for _, n := range g.lens {
			for _, layout := range layouts {
				k++
				hello, ok := keyShareHello(r, bases[k%len(bases)], g.id, n, layout)
				if !ok {
					continue
				}
				cfg := serverConfig(srvCfgs[0])
				cfg.CurvePreferences = []utls.CurveID{utls.CurveID(g.id)}
				script := record(22, 0x0301, hello)
				res, hung := withServer(cfg, func(conn net.Conn) {
					conn.Write(script)
					if tc, ok := conn.(*net.TCPConn); ok {
						tc.CloseWrite()
					}
				})
				key := fmt.Sprintf("hello/keyshare-len/%s/%d/%s", g.name, n, layout)
				judge(c, key, script, res, hung, fmt.Sprintf("well-formed hello, single %s key share of %d bytes, key_share %s, server prefers only that group", g.name, n, layout))
				c.Count("keyshare-run/" + g.name)
			}
		}
	}
}

// ---------- (B) post-handshake ----------

// faultConn lets the server's writes succeed, fail at once (peer gone) or block until the deadline (peer not reading).
type faultConn struct {
	net.Conn
	mode atomic.Int32 // 0 ok, 1 fail, 2 block
	dl   time.Time
}

func (f *faultConn) Write(b []byte) (int, error) {
	switch f.mode.Load() {
	case 1:
		return 0, errors.New("write: broken pipe (injected by the harness)")
	case 2:
		if d := time.Until(f.dl); d > 0 {
			time.Sleep(d)
		}
		return 0, os.ErrDeadlineExceeded
	}
	return f.Conn.Write(b)
}

type phKind struct {
	name string
	send func(cl *utls.Conn) error
}

func nstBody(r *rand.Rand) []byte {
	b := append(rbytes(r, 8), 1, 7)        // lifetime, age_add, nonce
	b = append(b, u16lp(rbytes(r, 24))...) // ticket
	return append(b, 0, 0)                 // extensions
}

func phKinds(r *rand.Rand) []phKind {
	raw := func(m []byte) func(*utls.Conn) error {
		return func(cl *utls.Conn) error { return cl.VerifC34WriteHandshakeRecord(m) }
	}
	ku := func(n int, req bool) func(*utls.Conn) error {
		return func(cl *utls.Conn) error {
			for i := 0; i < n; i++ {
				if err := cl.VerifC34SendKeyUpdate(req); err != nil {
					return err
				}
			}
			return nil
		}
	}
	hello, _ := buildHello(utls.HelloGolang, "c34.test")
	return []phKind{
		{"keyupdate-requested", ku(1, true)},
		{"keyupdate-not-requested", ku(1, false)},
		{"keyupdate-x20-requested", ku(20, true)},
		{"keyupdate-x40-not-requested", ku(40, false)},
		{"appdata-then-keyupdate", func(cl *utls.Conn) error { cl.Write([]byte("ping")); return ku(2, true)(cl) }},
		{"keyupdate-raw-bad-value", raw(hs(24, []byte{2}))},
		{"keyupdate-raw-long", raw(hs(24, []byte{1, 0}))},
		{"keyupdate-raw-unratcheted-then-data", func(cl *utls.Conn) error {
			if err := cl.VerifC34WriteHandshakeRecord(hs(24, []byte{1})); err != nil {
				return err
			}
			_, err := cl.Write([]byte("under the old key"))
			return err
		}},
		{"new-session-ticket", raw(hs(4, nstBody(r)))},
		{"certificate-request", raw(hs(13, []byte{0, 0, 0}))},
		{"garbage-type", raw(hs(99, rbytes(r, 9)))},
		{"finished", raw(hs(20, rbytes(r, 32)))},
		{"client-hello", raw(hello)},
		{"client-ee", raw(clientEE(r, 17513, 4))},
		{"compressed-cert", raw(compressedCert(r, 10))},
	}
}

type phVariant struct {
	name    string
	srvMode int32 // faultConn mode after the server's handshake
	hold    bool  // client keeps the connection open (never reads) instead of closing
}

var phVariants = []phVariant{
	{"client-closes", 0, false},
	{"client-closes/server-write-fails", 1, false},
	{"client-stops-reading/server-write-blocks", 2, true},
}

func runPostHandshake(c *vh.Ctx, r *rand.Rand) {
	kinds := phKinds(r)
	var wg sync.WaitGroup
	for ki, k := range kinds {
		for vi, v := range phVariants {
			wg.Add(1)
			go func(ki, vi int, k phKind, v phVariant) {
				defer wg.Done()
				l, err := net.Listen("tcp", "127.0.0.1:0")
				if err != nil {
					return
				}
				defer l.Close()
				ch := make(chan *srvResult, 1)
				go func() {
					sc, err := l.Accept()
					if err != nil {
						ch <- &srvResult{hsErr: err, done: true}
						return
					}
					res := &srvResult{}
					res.panicked, res.pval = vh.Recover(func() {
						fc := &faultConn{Conn: sc, dl: time.Now().Add(deadline)}
						sc.SetDeadline(fc.dl)
						s := utls.Server(fc, serverConfig(srvCfgs[ki%2]))
						if res.hsErr = s.Handshake(); res.hsErr == nil {
							fc.mode.Store(v.srvMode)
							buf := make([]byte, 512)
							for i := 0; i < 8 && res.rdErr == nil; i++ {
								_, res.rdErr = s.Read(buf)
							}
						}
						sc.Close()
					})
					res.done = true
					ch <- res
				}()
				cc, err := net.Dial("tcp", l.Addr().String())
				if err != nil {
					return
				}
				defer cc.Close()
				cc.SetDeadline(time.Now().Add(deadline + 3*time.Second))
				cfg := &utls.Config{InsecureSkipVerify: true, ServerName: "c34.test", MinVersion: utls.VersionTLS13, MaxVersion: utls.VersionTLS13,
					Certificates: []utls.Certificate{{Certificate: [][]byte{pki.LeafDER}, PrivateKey: pki.LeafKey}}}
				var cl *utls.Conn
				if (ki+vi)%2 == 0 {
					cl = utls.Client(cc, cfg)
					err = cl.Handshake()
				} else {
					u := utls.UClient(cc, cfg, utls.HelloChrome_133)
					err = u.Handshake()
					cl = u.Conn
				}
				if err != nil {
					c.Count("post-handshake-client-handshake-error")
					cc.Close()
					<-ch
					return
				}
				sendErr := k.send(cl)
				if !v.hold {
					cc.Close()
				}
				what := fmt.Sprintf("after a completed TLS 1.3 handshake the client sends %s, then %s (client send error: %v)", k.name, v.name, sendErr)
				select {
				case res := <-ch:
					if res.panicked {
						c.Fail("panic/post-handshake/"+k.name, "server Read panicked on post-handshake client traffic", what, fmt.Sprint(res.pval), "success or an error")
					}
					c.Count("post-handshake-run/" + v.name)
				case <-time.After(deadline + 2*time.Second):
					c.Fail("hang/post-handshake/"+k.name, "server Read did not return within the connection deadline", what, "still running 2 s after the 3 s deadline", "returns")
				}
			}(ki, vi, k, v)
		}
	}
	wg.Wait()
}

// ---------- (A2) the same share lengths in the SECOND ClientHello, after a server-issued HelloRetryRequest ----------

var otherGroup = map[uint16][2]int{4588: {29, 32}, 29: {23, 65}, 23: {29, 32}, 24: {29, 32}, 25: {29, 32}} // group sent first, its size

// readFlight reads until at least one complete handshake record arrived (the HelloRetryRequest) or the wait is over.
func readFlight(conn net.Conn) []byte {
	var got []byte
	buf := make([]byte, 4096)
	end := time.Now().Add(1500 * time.Millisecond)
	for time.Now().Before(end) {
		conn.SetReadDeadline(time.Now().Add(150 * time.Millisecond))
		n, err := conn.Read(buf)
		got = append(got, buf[:n]...)
		for b := got; len(b) >= 5; {
			l := int(b[3])<<8 | int(b[4])
			if len(b) < 5+l {
				break
			}
			if b[0] == 22 || b[0] == 21 {
				return got
			}
			b = b[5+l:]
		}
		if err != nil && n == 0 {
			if ne, ok := err.(net.Error); !ok || !ne.Timeout() {
				return got
			}
		}
	}
	return got
}

func runKeyShareAfterHRR(c *vh.Ctx, r *rand.Rand) {
	var bases [][]byte
	for _, id := range []utls.ClientHelloID{utls.HelloGolang, utls.HelloChrome_133, utls.HelloFirefox_120} {
		if raw, err := buildHello(id, "c34.test"); err == nil {
			bases = append(bases, raw)
		}
	}
	if len(bases) == 0 {
		return
	}
	k := 0
	for _, g := range serverGroups {
		other := otherGroup[g.id]
		lens := g.lens
		if g.id != 4588 && c.Tier == "quick" {
			lens = lens[:2]
		}
		for _, n := range lens {
			k++
			base := bases[k%len(bases)]
			ensure := []uint16{uint16(other[0]), g.id}
			h1, ok1 := keyShareHello(r, base, uint16(other[0]), other[1], "last", ensure...)
			h2, ok2 := keyShareHello(r, base, g.id, n, "last", ensure...)
			if !ok1 || !ok2 {
				continue
			}
			cfg := serverConfig(srvCfgs[0])
			cfg.CurvePreferences = []utls.CurveID{utls.CurveID(g.id)}
			s1, s2 := record(22, 0x0301, h1), record(22, 0x0303, h2)
			gotHRR := false
			res, hung := withServer(cfg, func(conn net.Conn) {
				conn.Write(s1)
				flight := readFlight(conn)
				gotHRR = len(flight) > 5 && flight[0] == 22
				conn.SetDeadline(time.Now().Add(deadline))
				conn.Write(s2)
				if tc, ok := conn.(*net.TCPConn); ok {
					tc.CloseWrite()
				}
			})
			key := fmt.Sprintf("hello/keyshare-len-after-hrr/%s/%d", g.name, n)
			judge(c, key, append(append([]byte{}, s1...), s2...), res, hung,
				fmt.Sprintf("hello #1 lists %s but sends a share of group %d (server prefers only %s -> HelloRetryRequest), hello #2 = the same hello with a %d-byte %s share", g.name, other[0], g.name, n, g.name))
			if gotHRR {
				c.Count("keyshare-after-hrr-run/" + g.name)
			} else {
				c.Count("keyshare-after-hrr-no-hrr/" + g.name)
			}
		}
	}
}

// ---------- (C) callback-bearing server configurations x ClientHellos that offer a PSK ----------

type cbCfg struct {
	name string
	mk   func() *utls.Config
}

func cbConfigs() []cbCfg {
	base := func(auth utls.ClientAuthType) *utls.Config {
		s := srvCfgs[0]
		s.clientAuth = auth
		s.min = utls.VersionTLS12
		return serverConfig(s)
	}
	return []cbCfg{
		{"plain", func() *utls.Config { return base(utls.NoClientCert) }},
		{"unwrap-wrap-session", func() *utls.Config {
			cfg := base(utls.NoClientCert)
			cfg.UnwrapSession = func(id []byte, cs utls.ConnectionState) (*utls.SessionState, error) { return cfg.DecryptTicket(id, cs) }
			cfg.WrapSession = func(cs utls.ConnectionState, ss *utls.SessionState) ([]byte, error) { return cfg.EncryptTicket(cs, ss) }
			return cfg
		}},
		{"unwrap-session-only", func() *utls.Config {
			cfg := base(utls.RequestClientCert)
			cfg.UnwrapSession = func(id []byte, cs utls.ConnectionState) (*utls.SessionState, error) { return cfg.DecryptTicket(id, cs) }
			return cfg
		}},
		{"unwrap-session-rejecting", func() *utls.Config {
			cfg := base(utls.NoClientCert)
			cfg.UnwrapSession = func(id []byte, cs utls.ConnectionState) (*utls.SessionState, error) { return nil, nil }
			return cfg
		}},
		{"get-config-for-client", func() *utls.Config {
			cfg := base(utls.NoClientCert)
			inner := base(utls.VerifyClientCertIfGiven)
			inner.UnwrapSession = func(id []byte, cs utls.ConnectionState) (*utls.SessionState, error) {
				return inner.DecryptTicket(id, cs)
			}
			inner.WrapSession = func(cs utls.ConnectionState, ss *utls.SessionState) ([]byte, error) {
				return inner.EncryptTicket(cs, ss)
			}
			cfg.GetConfigForClient = func(*utls.ClientHelloInfo) (*utls.Config, error) { return inner, nil }
			return cfg
		}},
		{"get-certificate", func() *utls.Config {
			cfg := base(utls.NoClientCert)
			cert := cfg.Certificates[0]
			cfg.Certificates = nil
			cfg.GetCertificate = func(*utls.ClientHelloInfo) (*utls.Certificate, error) { return &cert, nil }
			return cfg
		}},
		{"verify-connection", func() *utls.Config {
			cfg := base(utls.RequestClientCert)
			cfg.VerifyConnection = func(cs utls.ConnectionState) error { _ = cs.PeerCertificates; return nil }
			cfg.VerifyPeerCertificate = func([][]byte, [][]*x509.Certificate) error { return nil }
			return cfg
		}},
		{"require-any-client-cert", func() *utls.Config { return base(utls.RequireAnyClientCert) }},
	}
}

// pskHello appends psk_key_exchange_modes (if missing) and a pre_shared_key extension with garbage identities/binders.
func pskHello(r *rand.Rand, base []byte, labelLen, nIds, binderLen int) ([]byte, bool) {
	w, ok := splitHello(base)
	if !ok {
		return nil, false
	}
	var exts []wext
	haveModes := false
	for _, x := range w.exts {
		if x.id == 41 || x.id == 21 {
			continue
		}
		if x.id == 45 {
			haveModes = true
			x.data = []byte{1, 1}
		}
		exts = append(exts, x)
	}
	if !haveModes {
		exts = append(exts, wext{45, []byte{1, 1}})
	}
	var ids, bs []byte
	for i := 0; i < nIds; i++ {
		ids = append(ids, u16lp(rbytes(r, labelLen))...)
		ids = append(ids, rbytes(r, 4)...)
		bs = append(bs, byte(binderLen))
		bs = append(bs, rbytes(r, binderLen)...)
	}
	exts = append(exts, wext{41, append(u16lp(ids), u16lp(bs)...)})
	w.exts, w.hasExts = exts, true
	return w.bytes(0, 0), true
}

func runPskConfigs(c *vh.Ctx, r *rand.Rand) {
	var bases [][]byte
	for _, id := range []utls.ClientHelloID{utls.HelloGolang, utls.HelloChrome_133} {
		if raw, err := buildHello(id, "c34.test"); err == nil {
			bases = append(bases, raw)
		}
	}
	type garbage struct{ label, n, binder int }
	garb := []garbage{{1, 1, 32}, {16, 1, 32}, {100, 2, 48}, {300, 1, 32}, {2000, 3, 32}}
	if c.Tier == "quick" {
		garb = []garbage{{16, 1, 32}, {300, 2, 48}}
	}
	resumers := []struct {
		name string
		id   utls.ClientHelloID
	}{{"Golang", utls.HelloGolang}, {"Chrome_100_PSK", utls.HelloChrome_100_PSK}, {"Chrome_112_PSK_Shuf", utls.HelloChrome_112_PSK_Shuf},
		{"Chrome_114_Padding_PSK_Shuf", utls.HelloChrome_114_Padding_PSK_Shuf}, {"Chrome_115_PQ_PSK", utls.HelloChrome_115_PQ_PSK}}
	for ci, cc := range cbConfigs() {
		// garbage identities
		for gi, g := range garb {
			if len(bases) == 0 {
				break
			}
			hello, ok := pskHello(r, bases[(ci+gi)%len(bases)], g.label, g.n, g.binder)
			if !ok {
				continue
			}
			script := record(22, 0x0301, hello)
			res, hung := withServer(cc.mk(), func(conn net.Conn) {
				conn.Write(script)
				if tc, ok := conn.(*net.TCPConn); ok {
					tc.CloseWrite()
				}
			})
			judge(c, fmt.Sprintf("psk/%s/garbage-identity-%d", cc.name, g.label), script, res, hung,
				fmt.Sprintf("server config %s; well-formed TLS 1.3 hello with psk_dhe_ke and %d garbage PSK identit(ies) of %d bytes, %d-byte binders", cc.name, g.n, g.label, g.binder))
			c.Count("psk-run/" + cc.name)
		}
		// genuine resumption: a first connection fills the client session cache, the second offers the ticket
		rs := resumers
		if c.Tier == "quick" {
			rs = []struct {
				name string
				id   utls.ClientHelloID
			}{resumers[0], resumers[1+ci%4]}
		}
		for _, rp := range rs {
			cache := utls.NewLRUClientSessionCache(4)
			cfg := cc.mk() // the same Config (ticket keys, callbacks) serves both connections
			clientCfg := func() *utls.Config {
				return &utls.Config{InsecureSkipVerify: true, ServerName: "c34.test", ClientSessionCache: cache,
					Certificates: []utls.Certificate{{Certificate: [][]byte{pki.LeafDER}, PrivateKey: pki.LeafKey}}}
			}
			var captured []byte
			connect := func(id utls.ClientHelloID) (res *srvResult, hung bool, cliErr error) {
				res, hung = withServer(cfg, func(conn net.Conn) {
					cw := &captureConn{Conn: conn}
					defer func() { captured = cw.first }()
					u := utls.UClient(cw, clientCfg(), id)
					pn, pv := vh.Recover(func() { cliErr = u.Handshake() })
					if pn {
						cliErr = fmt.Errorf("client panic: %v", pv)
					}
					if cliErr == nil {
						u.Write([]byte("x"))
						conn.SetReadDeadline(time.Now().Add(300 * time.Millisecond))
						u.Read(make([]byte, 64)) // lets the client process NewSessionTicket
					}
					conn.Close()
				})
				return
			}
			res, hung, err := connect(utls.HelloGolang)
			judge(c, fmt.Sprintf("psk/%s/first-connection", cc.name), nil, res, hung, "first (ticket-issuing) connection, server config "+cc.name)
			if err != nil {
				c.Count("psk-first-connection-client-error/" + cc.name)
				continue
			}
			res, hung, err = connect(rp.id)
			judge(c, fmt.Sprintf("psk/%s/resumption-%s", cc.name, rp.name), nil, res, hung,
				fmt.Sprintf("server config %s; %s client resumes the session of a previous connection (pre_shared_key with a genuine ticket); client error: %v", cc.name, rp.name, err))
			if res != nil && res.hsErr == nil {
				c.Count("psk-resumption-handshake-ok/" + rp.name)
			} else {
				c.Count("psk-resumption-handshake-error/" + rp.name)
			}
			// the genuine resumption hello, with the structure of its pre_shared_key extension edited (all lengths fixed up)
			if hello := firstHandshakeMessage(captured); hello != nil {
				for _, m := range pskMutations(r, hello) {
					script := record(22, 0x0303, m.hello)
					res, hung := withServer(cfg, func(conn net.Conn) {
						conn.Write(script)
						if tc, ok := conn.(*net.TCPConn); ok {
							tc.CloseWrite()
						}
					})
					judge(c, fmt.Sprintf("psk/%s/resumed-%s/%s", cc.name, rp.name, m.name), script, res, hung,
						fmt.Sprintf("server config %s; the ClientHello with which a %s client genuinely resumed (real ticket), pre_shared_key edited: %s", cc.name, rp.name, m.name))
					c.Count("psk-mutated-resumption-run/" + cc.name)
				}
			} else {
				c.Count("psk-no-captured-hello/" + rp.name)
			}
		}
	}
}

// ---------- (A3) second ClientHellos after a HelloRetryRequest that differ from the first in one field ----------

type helloChange struct {
	name string
	f    func(r *rand.Rand, w *wire) bool
}

// when the base hello lacks the extension a change works on, BOTH hellos first get it with this body (so that "longer",
// "shorter", "removed" ... have something to work on); not for the ".../added" changes
type presentInfo struct {
	id    uint16
	fresh []byte
}

var changePresent = map[string]presentInfo{}

func (w *wire) ext(id uint16) *wext {
	for i := range w.exts {
		if w.exts[i].id == id {
			return &w.exts[i]
		}
	}
	return nil
}

// u16 list inside a 2-byte length prefix (supported_groups, signature_algorithms, signature_algorithms_cert)
func growU16List(r *rand.Rand, d []byte, delta int) ([]byte, bool) {
	if len(d) < 2 {
		return nil, false
	}
	l := append([]byte{}, d[2:]...)
	if delta > 0 {
		for i := 0; i < delta; i++ {
			l = append(l, byte(1+r.Intn(200)), byte(1+r.Intn(200)))
		}
	} else {
		if len(l) < -2*delta+2 {
			return nil, false
		}
		l = l[:len(l)+2*delta]
	}
	return u16lp(l), true
}

func listChanges(name string, id uint16, fresh []byte) []helloChange {
	out := listChanges0(name, id, fresh)
	for i := range out {
		if i != 4 && fresh != nil {
			changePresent[out[i].name] = presentInfo{id, fresh}
		}
	}
	return out
}

func listChanges0(name string, id uint16, fresh []byte) []helloChange {
	return []helloChange{
		{name + "/longer", func(r *rand.Rand, w *wire) bool {
			x := w.ext(id)
			if x == nil {
				return false
			}
			d, ok := growU16List(r, x.data, 1+r.Intn(3))
			if ok {
				x.data = d
			}
			return ok
		}},
		{name + "/shorter", func(r *rand.Rand, w *wire) bool {
			x := w.ext(id)
			if x == nil {
				return false
			}
			d, ok := growU16List(r, x.data, -1)
			if ok {
				x.data = d
			}
			return ok
		}},
		{name + "/element-changed", func(r *rand.Rand, w *wire) bool {
			x := w.ext(id)
			if x == nil || len(x.data) < 4 {
				return false
			}
			d := append([]byte{}, x.data...)
			d[len(d)-1] ^= byte(1 + r.Intn(255))
			x.data = d
			return true
		}},
		{name + "/removed", func(r *rand.Rand, w *wire) bool {
			for i := range w.exts {
				if w.exts[i].id == id {
					w.exts = append(w.exts[:i:i], w.exts[i+1:]...)
					return true
				}
			}
			return false
		}},
		{name + "/added", func(r *rand.Rand, w *wire) bool {
			if w.ext(id) != nil {
				return false
			}
			// before key_share (which stays last)
			n := len(w.exts)
			w.exts = append(w.exts[:n-1:n-1], wext{id, fresh}, w.exts[n-1])
			return true
		}},
	}
}

func helloChanges() []helloChange {
	var out []helloChange
	out = append(out, listChanges("supported-groups", 10, []byte{0, 4, 0, 23, 0, 29})...)
	out = append(out, listChanges("signature-algorithms", 13, []byte{0, 4, 4, 3, 8, 4})...)
	out = append(out, listChanges("signature-algorithms-cert", 50, []byte{0, 6, 4, 3, 8, 4, 4, 1})...)
	out = append(out, listChanges("status-request", 5, []byte{1, 0, 0, 0, 0})...)
	out = append(out, listChanges("sct", 18, nil)...)
	out = append(out, listChanges("ems", 23, nil)...)
	out = append(out, listChanges("psk-modes", 45, []byte{1, 1})...)
	out = append(out, listChanges("session-ticket", 35, nil)...)
	out = append(out, listChanges("renegotiation-info", 0xff01, []byte{0})...)
	out = append(out, listChanges("ec-point-formats", 11, []byte{1, 0})...)
	out = append(out, listChanges("server-name", 0, u16lp(append([]byte{0}, u16lp([]byte("c34.test"))...)))...)
	out = append(out, listChanges("cookie", 44, u16lp([]byte{1, 2, 3}))...)
	out = append(out, listChanges("early-data", 42, nil)...)
	out = append(out,
		helloChange{"alpn/longer", func(r *rand.Rand, w *wire) bool {
			x := w.ext(16)
			if x == nil || len(x.data) < 2 {
				return false
			}
			x.data = u16lp(append(append([]byte{}, x.data[2:]...), 2, 'x', 'y'))
			return true
		}},
		helloChange{"alpn/shorter", func(r *rand.Rand, w *wire) bool {
			x := w.ext(16)
			if x == nil || len(x.data) < 3 {
				return false
			}
			l := x.data[2:]
			first := 1 + int(l[0])
			if first >= len(l) {
				return false
			}
			x.data = u16lp(append([]byte{}, l[:first]...))
			return true
		}},
		helloChange{"alpn/added", func(r *rand.Rand, w *wire) bool {
			if w.ext(16) != nil {
				return false
			}
			n := len(w.exts)
			w.exts = append(w.exts[:n-1:n-1], wext{16, u16lp([]byte{2, 'h', '2'})}, w.exts[n-1])
			return true
		}},
		helloChange{"alpn/removed", listChanges("alpn", 16, nil)[3].f},
		helloChange{"supported-versions/longer", func(r *rand.Rand, w *wire) bool {
			x := w.ext(43)
			if x == nil {
				return false
			}
			l := append(append([]byte{}, x.data[1:]...), 3, 2)
			x.data = append([]byte{byte(len(l))}, l...)
			return true
		}},
		helloChange{"supported-versions/shorter", func(r *rand.Rand, w *wire) bool {
			x := w.ext(43)
			if x == nil || len(x.data) < 5 {
				return false
			}
			l := append([]byte{}, x.data[1:len(x.data)-2]...)
			x.data = append([]byte{byte(len(l))}, l...)
			return true
		}},
		helloChange{"cipher-suites/longer", func(r *rand.Rand, w *wire) bool {
			w.suites = append(append([]uint16{}, w.suites...), 0x1302, 0xc02f)
			return true
		}},
		helloChange{"cipher-suites/shorter", func(r *rand.Rand, w *wire) bool {
			if len(w.suites) < 2 {
				return false
			}
			w.suites = append([]uint16{}, w.suites[:len(w.suites)-1]...)
			return true
		}},
		helloChange{"cipher-suites/element-changed", func(r *rand.Rand, w *wire) bool {
			w.suites = append([]uint16{}, w.suites...)
			w.suites[len(w.suites)-1] ^= 0x0101
			return true
		}},
		helloChange{"compression/longer", func(r *rand.Rand, w *wire) bool { w.comp = append(append([]byte{}, w.comp...), 1); return true }},
		helloChange{"session-id/changed", func(r *rand.Rand, w *wire) bool { w.sid = rbytes(r, len(w.sid)); return len(w.sid) > 0 }},
		helloChange{"session-id/longer", func(r *rand.Rand, w *wire) bool { w.sid = rbytes(r, 32)[:min(32, len(w.sid)+1)]; return true }},
		helloChange{"random/changed", func(r *rand.Rand, w *wire) bool { w.random = rbytes(r, 32); return true }},
		helloChange{"legacy-version/changed", func(r *rand.Rand, w *wire) bool { w.vers ^= 1; return true }},
		helloChange{"unchanged", func(r *rand.Rand, w *wire) bool { return true }},
	)
	return out
}

func runHelloChangeAfterHRR(c *vh.Ctx, r *rand.Rand) {
	var bases [][]byte
	for _, id := range []utls.ClientHelloID{utls.HelloGolang, utls.HelloChrome_133, utls.HelloFirefox_120, utls.HelloSafari_16_0} {
		if raw, err := buildHello(id, "c34.test"); err == nil && len(raw) > 0 {
			bases = append(bases, raw)
		}
	}
	if len(bases) == 0 {
		return
	}
	changes := helloChanges()
	reps := 1
	if c.Tier != "quick" {
		reps = len(bases)
	}
	for ci, ch := range changes {
		for rep := 0; rep < reps; rep++ {
			base := bases[(ci+rep)%len(bases)]
			if pi, need := changePresent[ch.name]; need {
				if wb, ok := splitHello(base); ok && wb.ext(pi.id) == nil {
					wb.exts = append(wb.exts, wext{pi.id, pi.fresh})
					wb.hasExts = true
					base = wb.bytes(0, 0)
				}
			}
			ensure := []uint16{23, 29}
			h1, ok1 := keyShareHello(r, base, 23, 65, "last", ensure...)
			h2, ok2 := keyShareHello(r, base, 29, 32, "last", ensure...)
			if !ok1 || !ok2 {
				continue
			}
			w2, ok := splitHello(h2)
			if !ok || !ch.f(r, &w2) {
				c.Count("hrr-change-not-applicable/" + ch.name)
				continue
			}
			h2 = w2.bytes(0, 0)
			cfg := serverConfig(srvCfgs[(ci+rep)%2])
			cfg.CurvePreferences = []utls.CurveID{utls.X25519}
			s1, s2 := record(22, 0x0301, h1), record(22, 0x0303, h2)
			gotHRR := false
			res, hung := withServer(cfg, func(conn net.Conn) {
				conn.Write(s1)
				flight := readFlight(conn)
				gotHRR = len(flight) > 5 && flight[0] == 22
				conn.SetDeadline(time.Now().Add(deadline))
				conn.Write(s2)
				if tc, ok := conn.(*net.TCPConn); ok {
					tc.CloseWrite()
				}
			})
			judge(c, "hello/hrr-change/"+ch.name, append(append([]byte{}, s1...), s2...), res, hung,
				"hello #1 (P-256 share) -> HelloRetryRequest for X25519 -> hello #2 = hello #1 with a valid X25519 share and one more difference: "+ch.name)
			if gotHRR {
				c.Count("hrr-change-run")
			} else {
				c.Count("hrr-change-no-hrr")
			}
		}
	}
}

// ---------- (D) well-formed ENCRYPTED records from a client that holds the keys: TLS 1.0-1.2 CBC suites ----------

type cbcKind struct {
	name string
	// build returns the CBC plaintext blocks to send raw, or (nil, payload) to send payload through the regular protection
	build func(r *rand.Rand, bs, mac int) (blocks []byte, payload []byte, regular bool)
}

func padded(content []byte, bs int, padLen int) []byte { // content + padLen bytes of value padLen-1, total must be a multiple of bs
	out := append([]byte{}, content...)
	for i := 0; i < padLen; i++ {
		out = append(out, byte(padLen-1))
	}
	return out
}

func cbcKinds() []cbcKind {
	allPad := func(n int) cbcKind {
		return cbcKind{fmt.Sprintf("all-padding-%d", n), func(r *rand.Rand, bs, mac int) ([]byte, []byte, bool) {
			if n%bs != 0 {
				return nil, nil, false
			}
			return padded(nil, bs, n), nil, false
		}}
	}
	return []cbcKind{
		allPad(16), allPad(32), allPad(48), allPad(64), allPad(256),
		{"padding-longer-than-room-for-mac", func(r *rand.Rand, bs, mac int) ([]byte, []byte, bool) {
			// one random byte of "content", the rest valid padding: content+MAC cannot fit
			return padded(rbytes(r, 1), bs, 2*bs-1), nil, false
		}},
		{"exactly-mac-then-padding", func(r *rand.Rand, bs, mac int) ([]byte, []byte, bool) { // zero-length content, wrong MAC
			pad := bs - mac%bs
			return padded(rbytes(r, mac), bs, pad), nil, false
		}},
		{"mac-short-by-one", func(r *rand.Rand, bs, mac int) ([]byte, []byte, bool) {
			pad := bs - (mac-1)%bs
			return padded(rbytes(r, mac-1), bs, pad), nil, false
		}},
		{"inconsistent-padding", func(r *rand.Rand, bs, mac int) ([]byte, []byte, bool) {
			b := padded(rbytes(r, mac+5), bs, bs-(mac+5)%bs)
			b[len(b)-2] ^= 0x40
			return b, nil, false
		}},
		{"padding-byte-255-short-record", func(r *rand.Rand, bs, mac int) ([]byte, []byte, bool) {
			b := rbytes(r, 2*bs)
			b[len(b)-1] = 255
			return b, nil, false
		}},
		{"random-blocks", func(r *rand.Rand, bs, mac int) ([]byte, []byte, bool) { return rbytes(r, bs*(1+r.Intn(6))), nil, false }},
		{"valid-zero-length-appdata", func(r *rand.Rand, bs, mac int) ([]byte, []byte, bool) { return nil, []byte{}, true }},
		{"valid-one-byte", func(r *rand.Rand, bs, mac int) ([]byte, []byte, bool) { return nil, []byte{7}, true }},
		{"valid-max-length", func(r *rand.Rand, bs, mac int) ([]byte, []byte, bool) { return nil, rbytes(r, 16384), true }},
		{"valid-over-max-length", func(r *rand.Rand, bs, mac int) ([]byte, []byte, bool) { return nil, rbytes(r, 16385), true }},
		{"valid-far-over-max-length", func(r *rand.Rand, bs, mac int) ([]byte, []byte, bool) { return nil, rbytes(r, 18500), true }},
	}
}

func runCBCRecords(c *vh.Ctx, r *rand.Rand) {
	versions := []struct {
		name string
		v    uint16
	}{{"tls10", utls.VersionTLS10}, {"tls11", utls.VersionTLS11}, {"tls12", utls.VersionTLS12}}
	suites := []uint16{0xc009, 0xc00a, 0xc023} // ECDHE-ECDSA AES128-CBC-SHA, AES256-CBC-SHA, AES128-CBC-SHA256 (TLS 1.2 only)
	clientCert := utls.Certificate{Certificate: [][]byte{pki.LeafDER}, PrivateKey: pki.LeafKey}
	for vi, ver := range versions {
		for ki, k := range cbcKinds() {
			for _, typ := range []uint8{23, 22} {
				if typ == 22 && (c.Tier == "quick" && ki%3 != vi) {
					continue
				}
				suite := suites[(vi+ki)%len(suites)]
				if suite == 0xc023 && ver.v != utls.VersionTLS12 {
					suite = suites[ki%2]
				}
				cfg := serverConfig(srvCfg{"cbc", ver.v, ver.v, utls.NoClientCert})
				cfg.CipherSuites = []uint16{suite}
				var sent string
				var sentBytes []byte
				res, hung := withServer(cfg, func(conn net.Conn) {
					ccfg := &utls.Config{InsecureSkipVerify: true, ServerName: "c34.test", MinVersion: ver.v, MaxVersion: ver.v,
						CipherSuites: []uint16{suite}, Certificates: []utls.Certificate{clientCert}}
					cl := utls.Client(conn, ccfg)
					if err := cl.Handshake(); err != nil {
						sent = "client handshake failed: " + err.Error()
						conn.Close()
						return
					}
					isCBC, bs, mac, _ := cl.VerifC34CBCInfo()
					if !isCBC {
						sent = "not a CBC suite"
						conn.Close()
						return
					}
					blocks, payload, regular := k.build(r, bs, mac)
					var err error
					switch {
					case regular:
						err = cl.VerifC34WriteProtectedRecord(typ, payload)
						sentBytes = payload[:min(len(payload), 64)]
						sent = fmt.Sprintf("regularly protected record, type %d, %d payload bytes", typ, len(payload))
					case blocks != nil:
						err = cl.VerifC34WriteCBCBlocks(typ, blocks)
						sentBytes = blocks
						sent = fmt.Sprintf("record type %d whose CBC plaintext is %s (block %d, MAC %d)", typ, vh.Hex(blocks[:min(len(blocks), 64)]), bs, mac)
					default:
						sent = "kind not applicable to this block size"
					}
					if err == nil {
						cl.Write([]byte("after"))
					}
					if tc, ok := conn.(*net.TCPConn); ok {
						tc.CloseWrite()
					}
				})
				key := fmt.Sprintf("cbc/%s/%s", ver.name, k.name)
				judge(c, key, sentBytes, res, hung, fmt.Sprintf("%s, suite %#04x, after a completed handshake the client sends: %s", ver.name, suite, sent))
				if res != nil && res.hsErr == nil {
					c.Count("cbc-run/" + ver.name)
				} else {
					c.Count("cbc-no-handshake/" + ver.name)
				}
			}
		}
	}
}

// ---------- (A4) extensions whose server-side handling keeps state between hello #1 and hello #2 ----------
// encrypted_client_hello (the server remembers the form / HPKE context of the first hello) and pre_shared_key, in every
// (form in hello #1, form in hello #2) pair across a server-issued HelloRetryRequest, against servers without and with
// an ECH configuration.

type extForm struct {
	name string
	data func(r *rand.Rand) []byte // nil = extension absent
}

func echForms() []extForm {
	outer := func(kdf, aead, cfg int, enc, payload []byte) []byte {
		b := []byte{0, byte(kdf >> 8), byte(kdf), byte(aead >> 8), byte(aead), byte(cfg)}
		b = append(b, u16lp(enc)...)
		return append(b, u16lp(payload)...)
	}
	return []extForm{
		{"absent", func(r *rand.Rand) []byte { return nil }},
		{"inner", func(r *rand.Rand) []byte { return []byte{1} }},
		{"outer-all-zero", func(r *rand.Rand) []byte { return outer(0, 0, 0, nil, make([]byte, 32)) }},
		{"outer-all-zero-empty-payload", func(r *rand.Rand) []byte { return outer(0, 0, 0, nil, nil) }},
		{"outer-short", func(r *rand.Rand) []byte { return []byte{0, 0, 1} }},
		{"outer-wellformed-first", func(r *rand.Rand) []byte { return outer(1, 1, r.Intn(256), rbytes(r, 32), rbytes(r, 120)) }},
		{"outer-wellformed-second", func(r *rand.Rand) []byte { return outer(1, 1, r.Intn(256), nil, rbytes(r, 120)) }},
		{"inner-with-trailing-byte", func(r *rand.Rand) []byte { return []byte{1, 0} }},
		{"unknown-type", func(r *rand.Rand) []byte { return []byte{2, 0, 0} }},
		{"empty", func(r *rand.Rand) []byte { return []byte{} }},
	}
}

func pskForms() []extForm {
	mk := func(label, n int) func(r *rand.Rand) []byte {
		return func(r *rand.Rand) []byte {
			var ids, bs []byte
			for i := 0; i < n; i++ {
				ids = append(ids, u16lp(rbytes(r, label))...)
				ids = append(ids, rbytes(r, 4)...)
				bs = append(bs, 32)
				bs = append(bs, rbytes(r, 32)...)
			}
			return append(u16lp(ids), u16lp(bs)...)
		}
	}
	return []extForm{
		{"absent", func(r *rand.Rand) []byte { return nil }},
		{"one-identity", mk(40, 1)},
		{"two-identities", mk(17, 2)},
		{"long-identity", mk(900, 1)},
	}
}

// echServerKeys builds one well-formed ECHConfig (DHKEM(X25519), HKDF-SHA256, AES-128-GCM) and its private key.
func echServerKeys() []utls.EncryptedClientHelloKey {
	priv, err := ecdh.X25519().GenerateKey(crand.Reader)
	if err != nil {
		return nil
	}
	var body []byte
	body = append(body, 7)       // config_id
	body = append(body, 0, 0x20) // kem_id
	body = append(body, u16lp(priv.PublicKey().Bytes())...)
	body = append(body, u16lp([]byte{0, 1, 0, 1})...) // cipher suites: (HKDF-SHA256, AES-128-GCM)
	body = append(body, 32)                           // maximum_name_length
	name := []byte("public.c34.test")
	body = append(body, byte(len(name)))
	body = append(body, name...)
	body = append(body, 0, 0) // extensions
	cfg := append([]byte{0xfe, 0x0d}, u16lp(body)...)
	return []utls.EncryptedClientHelloKey{{Config: cfg, PrivateKey: priv.Bytes(), SendAsRetry: true}}
}

func runStatefulExtsAfterHRR(c *vh.Ctx, r *rand.Rand) {
	var bases [][]byte
	for _, id := range []utls.ClientHelloID{utls.HelloGolang, utls.HelloChrome_133, utls.HelloFirefox_120} {
		if raw, err := buildHello(id, "c34.test"); err == nil && len(raw) > 0 {
			bases = append(bases, raw)
		}
	}
	if len(bases) == 0 {
		return
	}
	echKeys := echServerKeys()
	type family struct {
		name  string
		id    uint16
		forms []extForm
		last  bool // the extension must be the last one (pre_shared_key)
	}
	fams := []family{{"ech", 0xfe0d, echForms(), false}, {"psk", 41, pskForms(), true}}
	servers := []string{"no-ech-config", "ech-config"}
	k := 0
	for _, fam := range fams {
		for si, srv := range servers {
			for i1, f1 := range fam.forms {
				for i2, f2 := range fam.forms {
					if fam.name == "psk" && si == 1 {
						continue
					}
					if si == 1 && c.Tier == "quick" && (i1+i2)%3 != 0 {
						continue // quick tier: a third of the grid against the ECH-configured server
					}
					k++
					base := bases[k%len(bases)]
					ensure := []uint16{23, 29}
					build := func(group uint16, n int, f extForm) ([]byte, bool) {
						h, ok := keyShareHello(r, base, group, n, "last", ensure...)
						if !ok {
							return nil, false
						}
						w, ok := splitHello(h)
						if !ok {
							return nil, false
						}
						var exts []wext
						for _, x := range w.exts {
							if x.id != fam.id && x.id != 21 {
								exts = append(exts, x)
							}
						}
						if fam.last { // psk_key_exchange_modes for both hellos, whether or not a PSK follows
							found := false
							for i := range exts {
								if exts[i].id == 45 {
									exts[i].data, found = []byte{1, 1}, true
								}
							}
							if !found {
								exts = append([]wext{{45, []byte{1, 1}}}, exts...)
							}
						}
						if d := f.data(r); d != nil {
							if fam.last {
								exts = append(exts, wext{fam.id, d})
							} else {
								n := len(exts)
								exts = append(exts[:n-1:n-1], wext{fam.id, d}, exts[n-1])
							}
						}
						w.exts = exts
						return w.bytes(0, 0), true
					}
					h1, ok1 := build(23, 65, f1)
					h2, ok2 := build(29, 32, f2)
					if !ok1 || !ok2 {
						continue
					}
					cfg := serverConfig(srvCfgs[0])
					cfg.CurvePreferences = []utls.CurveID{utls.X25519}
					if si == 1 {
						cfg.EncryptedClientHelloKeys = echKeys
					}
					s1, s2 := record(22, 0x0301, h1), record(22, 0x0303, h2)
					gotHRR := false
					res, hung := withServer(cfg, func(conn net.Conn) {
						conn.Write(s1)
						flight := readFlight(conn)
						gotHRR = len(flight) > 5 && flight[0] == 22
						conn.SetDeadline(time.Now().Add(deadline))
						conn.Write(s2)
						if tc, ok := conn.(*net.TCPConn); ok {
							tc.CloseWrite()
						}
					})
					key := fmt.Sprintf("hello/hrr-%s/%s/%s-then-%s", fam.name, srv, f1.name, f2.name)
					judge(c, key, append(append([]byte{}, s1...), s2...), res, hung,
						fmt.Sprintf("server %s; hello #1 (P-256 share, %s = %s) -> HelloRetryRequest -> hello #2 (X25519 share, %s = %s)", srv, fam.name, f1.name, fam.name, f2.name))
					if gotHRR {
						c.Count("hrr-" + fam.name + "-run/" + srv)
					} else {
						c.Count("hrr-" + fam.name + "-no-hrr/" + srv)
					}
				}
			}
		}
	}
}

// captureConn remembers the first Write (the ClientHello record) of a client connection.
type captureConn struct {
	net.Conn
	first []byte
}

func (c *captureConn) Write(b []byte) (int, error) {
	if c.first == nil {
		c.first = append([]byte{}, b...)
	}
	return c.Conn.Write(b)
}

// firstHandshakeMessage reassembles the first handshake message from the leading handshake records of a byte stream.
func firstHandshakeMessage(stream []byte) []byte {
	var hsBytes []byte
	for len(stream) >= 5 && stream[0] == 22 {
		l := int(stream[3])<<8 | int(stream[4])
		if len(stream) < 5+l {
			return nil
		}
		hsBytes = append(hsBytes, stream[5:5+l]...)
		stream = stream[5+l:]
		if len(hsBytes) >= 4 {
			n := int(hsBytes[1])<<16 | int(hsBytes[2])<<8 | int(hsBytes[3])
			if len(hsBytes) >= 4+n {
				if hsBytes[0] != 1 {
					return nil
				}
				return hsBytes[:4+n]
			}
		}
	}
	return nil
}

type pskIdent struct {
	label []byte
	age   []byte
}
type pskMutation struct {
	name  string
	hello []byte
}

// pskMutations rewrites the pre_shared_key extension (the last one) of a genuine resumption hello.
func pskMutations(r *rand.Rand, hello []byte) []pskMutation {
	w, ok := splitHello(hello)
	if !ok || len(w.exts) == 0 || w.exts[len(w.exts)-1].id != 41 {
		return nil
	}
	d := w.exts[len(w.exts)-1].data
	var ids []pskIdent
	var binders [][]byte
	ok = func() (ok bool) {
		defer func() {
			if recover() != nil {
				ok = false
			}
		}()
		il := int(d[0])<<8 | int(d[1])
		idb := d[2 : 2+il]
		for len(idb) > 0 {
			l := int(idb[0])<<8 | int(idb[1])
			ids = append(ids, pskIdent{append([]byte{}, idb[2:2+l]...), append([]byte{}, idb[2+l:6+l]...)})
			idb = idb[6+l:]
		}
		bb := d[2+il:]
		bl := int(bb[0])<<8 | int(bb[1])
		bb = bb[2 : 2+bl]
		for len(bb) > 0 {
			l := int(bb[0])
			binders = append(binders, append([]byte{}, bb[1:1+l]...))
			bb = bb[1+l:]
		}
		return len(ids) > 0 && len(binders) > 0
	}()
	if !ok {
		return nil
	}
	R, B := ids[0], binders[0]
	bogus := func(n int) pskIdent { return pskIdent{rbytes(r, n), rbytes(r, 4)} }
	bogusB := func() []byte { return rbytes(r, len(B)) }
	build := func(name string, is []pskIdent, bs [][]byte) pskMutation {
		var ib, bbytes []byte
		for _, i := range is {
			ib = append(ib, u16lp(i.label)...)
			ib = append(ib, i.age...)
		}
		for _, b := range bs {
			bbytes = append(bbytes, byte(len(b)))
			bbytes = append(bbytes, b...)
		}
		w2 := w
		w2.exts = append(append([]wext{}, w.exts[:len(w.exts)-1]...), wext{41, append(u16lp(ib), u16lp(bbytes)...)})
		return pskMutation{name, w2.bytes(0, 0)}
	}
	G1, G2 := bogus(len(R.label)), bogus(33)
	return []pskMutation{
		build("replayed-unmodified", ids, binders),
		build("bogus-identity-before", []pskIdent{G1, R}, [][]byte{bogusB(), B}),
		build("bogus-identity-before-one-binder", []pskIdent{G1, R}, [][]byte{B}),
		build("bogus-identity-after", []pskIdent{R, G1}, [][]byte{B, bogusB()}),
		build("bogus-identity-after-one-binder", []pskIdent{R, G1}, [][]byte{B}),
		build("two-bogus-before-one-binder", []pskIdent{G1, G2, R}, [][]byte{B}),
		build("two-bogus-before-two-binders", []pskIdent{G1, G2, R}, [][]byte{bogusB(), B}),
		build("real-identity-twice", []pskIdent{R, R}, [][]byte{B, B}),
		build("real-identity-twice-one-binder", []pskIdent{R, R}, [][]byte{B}),
		build("real-identity-three-times-one-binder", []pskIdent{R, R, R}, [][]byte{bogusB()}),
		build("more-binders-than-identities", []pskIdent{R}, [][]byte{B, bogusB(), bogusB()}),
		build("binders-reordered", []pskIdent{G1, R}, [][]byte{B, bogusB()}),
		build("real-binder-truncated", []pskIdent{R}, [][]byte{B[:len(B)/2]}),
		build("real-binder-longer", []pskIdent{R}, [][]byte{append(append([]byte{}, B...), rbytes(r, 16)...)}),
		build("real-binder-one-byte", []pskIdent{R}, [][]byte{B[:1]}),
		build("zero-binders", []pskIdent{R}, nil),
		build("ticket-age-changed", []pskIdent{{R.label, rbytes(r, 4)}}, [][]byte{B}),
		build("ticket-last-byte-flipped", []pskIdent{{append(append([]byte{}, R.label[:len(R.label)-1]...), R.label[len(R.label)-1]^1), R.age}}, [][]byte{B}),
	}
}

package main

// ClientHellos of every parrot and their field-wise mutations (the result need not be valid).

import (
	"encoding/binary"
	"fmt"
	"math/rand"

	utls "github.com/refraction-networking/utls"
	"verif/harness/vh"
)

type parrot struct {
	name string
	id   utls.ClientHelloID
}

var parrots = []parrot{
	{"Golang", utls.HelloGolang},
	{"Firefox_55", utls.HelloFirefox_55}, {"Firefox_56", utls.HelloFirefox_56}, {"Firefox_63", utls.HelloFirefox_63},
	{"Firefox_65", utls.HelloFirefox_65}, {"Firefox_99", utls.HelloFirefox_99}, {"Firefox_102", utls.HelloFirefox_102},
	{"Firefox_105", utls.HelloFirefox_105}, {"Firefox_120", utls.HelloFirefox_120},
	{"Chrome_58", utls.HelloChrome_58}, {"Chrome_62", utls.HelloChrome_62}, {"Chrome_70", utls.HelloChrome_70},
	{"Chrome_72", utls.HelloChrome_72}, {"Chrome_83", utls.HelloChrome_83}, {"Chrome_87", utls.HelloChrome_87},
	{"Chrome_96", utls.HelloChrome_96}, {"Chrome_100", utls.HelloChrome_100}, {"Chrome_102", utls.HelloChrome_102},
	{"Chrome_106_Shuffle", utls.HelloChrome_106_Shuffle}, {"Chrome_100_PSK", utls.HelloChrome_100_PSK},
	{"Chrome_112_PSK_Shuf", utls.HelloChrome_112_PSK_Shuf}, {"Chrome_114_Padding_PSK_Shuf", utls.HelloChrome_114_Padding_PSK_Shuf},
	{"Chrome_115_PQ", utls.HelloChrome_115_PQ}, {"Chrome_115_PQ_PSK", utls.HelloChrome_115_PQ_PSK},
	{"Chrome_120", utls.HelloChrome_120}, {"Chrome_120_PQ", utls.HelloChrome_120_PQ}, {"Chrome_131", utls.HelloChrome_131},
	{"Chrome_133", utls.HelloChrome_133},
	{"IOS_11_1", utls.HelloIOS_11_1}, {"IOS_12_1", utls.HelloIOS_12_1}, {"IOS_13", utls.HelloIOS_13}, {"IOS_14", utls.HelloIOS_14},
	{"Android_11_OkHttp", utls.HelloAndroid_11_OkHttp}, {"Edge_85", utls.HelloEdge_85}, {"Edge_106", utls.HelloEdge_106},
	{"Safari_16_0", utls.HelloSafari_16_0}, {"360_7_5", utls.Hello360_7_5}, {"360_11_0", utls.Hello360_11_0}, {"QQ_11_1", utls.HelloQQ_11_1},
}

func buildHello(id utls.ClientHelloID, sni string) (raw []byte, err error) {
	pn, pv := vh.Recover(func() {
		u := utls.UClient(nil, &utls.Config{ServerName: sni}, id)
		if err = u.BuildHandshakeState(); err == nil {
			raw = append([]byte{}, u.HandshakeState.Hello.Raw...)
			if len(raw) == 0 { // HelloGolang: the hello is built but not marshaled yet
				if b, merr := u.HandshakeState.Hello.Marshal(); merr == nil {
					raw = append([]byte{}, b...)
				}
			}
		}
	})
	if pn {
		err = fmt.Errorf("panic: %v", pv)
	}
	return
}

type wext struct {
	id   uint16
	data []byte
}
type wire struct {
	vers    uint16
	random  []byte
	sid     []byte
	suites  []uint16
	comp    []byte
	hasExts bool
	exts    []wext
}

func splitHello(b []byte) (w wire, ok bool) {
	defer func() {
		if recover() != nil {
			ok = false
		}
	}()
	b = b[4:]
	w.vers = binary.BigEndian.Uint16(b)
	w.random = append([]byte{}, b[2:34]...)
	b = b[34:]
	n := int(b[0])
	w.sid = append([]byte{}, b[1:1+n]...)
	b = b[1+n:]
	n = int(binary.BigEndian.Uint16(b))
	for i := 0; i < n; i += 2 {
		w.suites = append(w.suites, binary.BigEndian.Uint16(b[2+i:]))
	}
	b = b[2+n:]
	n = int(b[0])
	w.comp = append([]byte{}, b[1:1+n]...)
	b = b[1+n:]
	if len(b) == 0 {
		return w, true
	}
	w.hasExts = true
	n = int(binary.BigEndian.Uint16(b))
	e := b[2 : 2+n]
	for len(e) > 0 {
		id := binary.BigEndian.Uint16(e)
		l := int(binary.BigEndian.Uint16(e[2:]))
		w.exts = append(w.exts, wext{id, append([]byte{}, e[4:4+l]...)})
		e = e[4+l:]
	}
	return w, true
}

// bytes re-encodes; the *Delta arguments falsify the corresponding length field.
func (w wire) bytes(extBlockDelta, hsLenDelta int) []byte {
	var body []byte
	body = binary.BigEndian.AppendUint16(body, w.vers)
	body = append(body, w.random...)
	body = append(body, byte(len(w.sid)))
	body = append(body, w.sid...)
	body = binary.BigEndian.AppendUint16(body, uint16(2*len(w.suites)))
	for _, s := range w.suites {
		body = binary.BigEndian.AppendUint16(body, s)
	}
	body = append(body, byte(len(w.comp)))
	body = append(body, w.comp...)
	if w.hasExts {
		var e []byte
		for _, x := range w.exts {
			e = binary.BigEndian.AppendUint16(e, x.id)
			e = binary.BigEndian.AppendUint16(e, uint16(len(x.data)))
			e = append(e, x.data...)
		}
		body = binary.BigEndian.AppendUint16(body, uint16(len(e)+extBlockDelta))
		body = append(body, e...)
	}
	l := len(body) + hsLenDelta
	return append([]byte{1, byte(l >> 16), byte(l >> 8), byte(l)}, body...)
}

var helloMutations = []string{"none", "bitflip", "bitflip-ext", "truncate", "hs-len", "ext-block-len", "ext-len", "inner-len",
	"dup-ext", "swap-exts", "drop-ext", "reverse-exts", "sid-long", "suites-odd", "suites-random", "keyshare-group", "keyshare-cut",
	"versions-12-only", "versions-garbage", "record-len", "sni-garbage", "psk-binder-cut", "alpn-empty-proto", "ech-garbage",
	"all-exts-empty", "ext-random-data"}

func mutateHello(r *rand.Rand, kind string, raw []byte) ([]byte, bool) {
	w, ok := splitHello(raw)
	if !ok {
		return nil, false
	}
	pick := func() int {
		if len(w.exts) == 0 {
			return -1
		}
		return r.Intn(len(w.exts))
	}
	find := func(id uint16) int {
		for i, x := range w.exts {
			if x.id == id {
				return i
			}
		}
		return -1
	}
	switch kind {
	case "none", "record-len":
		return w.bytes(0, 0), true
	case "bitflip":
		b := w.bytes(0, 0)
		for k := 0; k < 1+r.Intn(3); k++ {
			b[r.Intn(len(b))] ^= 1 << uint(r.Intn(8))
		}
		return b, true
	case "bitflip-ext":
		if i := pick(); i >= 0 && len(w.exts[i].data) > 0 {
			w.exts[i].data[r.Intn(len(w.exts[i].data))] ^= 1 << uint(r.Intn(8))
		}
	case "truncate":
		b := w.bytes(0, 0)
		return b[:r.Intn(len(b))], true
	case "hs-len":
		return w.bytes(0, []int{-1, 1, -40, 1000, -len(raw)}[r.Intn(5)]), true
	case "ext-block-len":
		return w.bytes([]int{-1, 1, -7, 300}[r.Intn(4)], 0), true
	case "ext-len": // falsify one extension's length by moving a byte across the boundary
		if i := pick(); i >= 0 && i+1 < len(w.exts) && len(w.exts[i].data) > 0 {
			d := w.exts[i].data
			w.exts[i].data = d[:len(d)-1]
			b := w.bytes(0, 0)
			return append(b, d[len(d)-1]), true
		}
	case "inner-len":
		if i := pick(); i >= 0 && len(w.exts[i].data) >= 2 {
			w.exts[i].data[r.Intn(2)] += byte(1 + r.Intn(5))
		}
	case "dup-ext":
		if i := pick(); i >= 0 {
			w.exts = append(w.exts, w.exts[i])
		}
	case "swap-exts":
		if len(w.exts) >= 2 {
			i, j := r.Intn(len(w.exts)), r.Intn(len(w.exts))
			w.exts[i], w.exts[j] = w.exts[j], w.exts[i]
		}
	case "drop-ext":
		if i := pick(); i >= 0 {
			w.exts = append(w.exts[:i], w.exts[i+1:]...)
		}
	case "reverse-exts":
		for i, j := 0, len(w.exts)-1; i < j; i, j = i+1, j-1 {
			w.exts[i], w.exts[j] = w.exts[j], w.exts[i]
		}
	case "sid-long":
		w.sid = rbytes(r, 33+r.Intn(200))
	case "suites-odd":
		b := w.bytes(0, 0)
		// cipher-suite vector length made odd
		off := 4 + 2 + 32 + 1 + len(w.sid)
		b[off+1] ^= 1
		return b, true
	case "suites-random":
		w.suites = nil
		for k := 0; k < r.Intn(40); k++ {
			w.suites = append(w.suites, uint16(r.Intn(65536)))
		}
	case "keyshare-group":
		if i := find(51); i >= 0 && len(w.exts[i].data) >= 4 {
			binary.BigEndian.PutUint16(w.exts[i].data[2:], uint16(r.Intn(65536)))
		}
	case "keyshare-cut":
		if i := find(51); i >= 0 && len(w.exts[i].data) >= 8 {
			d := w.exts[i].data
			d = d[:len(d)-1-r.Intn(4)]
			binary.BigEndian.PutUint16(d, uint16(len(d)-2))
			w.exts[i].data = d
		}
	case "versions-12-only":
		if i := find(43); i >= 0 {
			w.exts[i].data = []byte{2, 3, 3}
		}
	case "versions-garbage":
		if i := find(43); i >= 0 {
			w.exts[i].data = append([]byte{byte(r.Intn(9))}, rbytes(r, r.Intn(9))...)
		}
	case "sni-garbage":
		if i := find(0); i >= 0 {
			w.exts[i].data = rbytes(r, r.Intn(30))
		}
	case "psk-binder-cut":
		if i := find(41); i >= 0 && len(w.exts[i].data) > 10 {
			w.exts[i].data = w.exts[i].data[:len(w.exts[i].data)-5]
		} else {
			return nil, false
		}
	case "alpn-empty-proto":
		if i := find(16); i >= 0 {
			w.exts[i].data = []byte{0, 4, 2, 'h', '2', 0}
		}
	case "ech-garbage":
		x := wext{0xfe0d, rbytes(r, r.Intn(60))}
		if i := find(0xfe0d); i >= 0 {
			w.exts[i] = x
		} else {
			w.exts = append([]wext{x}, w.exts...)
			w.hasExts = true
		}
	case "all-exts-empty":
		for i := range w.exts {
			w.exts[i].data = nil
		}
	case "ext-random-data":
		if i := pick(); i >= 0 {
			w.exts[i].data = rbytes(r, r.Intn(40))
		}
	}
	return w.bytes(0, 0), true
}

// c19: correspondence runner and property oracle for C19 (session resumption).
package main

import "verif/harness/vh"

func main() { vh.Main(map[string]vh.Suite{"C19": {"Corr.C19Corr", run}}) }

// c19: correspondence runner and property oracle for C19 (session resumption).
package main

import (
	"fmt"
	"os"
	"time"

	tls "github.com/refraction-networking/utls"
	"verif/harness/vh"
)

func main() {
	if len(os.Args) > 1 && os.Args[1] == "probe" {
		probe()
		return
	}
	vh.Main(map[string]vh.Suite{"C19": {"Corr.C19Corr", run}})
}

func run(c *vh.Ctx) {}

func probe() {
	pk := newPKI()
	var ps []parrot
	for _, e := range predefined {
		ps = append(ps, classify(e.n, e.id))
	}
	for i := range ps {
		p := &ps[i]
		fmt.Printf("%-28s ticket=%v psk=%v ems=%v max13=%v min=%x shares=%v groups=%v err=%s\n", p.Name, p.HasTicket, p.HasPSK, p.HasEMS, p.Max13, p.Min, p.Shares, p.Groups, p.SpecErr)
	}
	for i := range ps {
		p := &ps[i]
		for k := 0; k < nSrvKinds; k++ {
			for _, omit := range []bool{false, true} {
				if omit && !p.HasPSK {
					continue
				}
				w, err := newWorld(pk, 1)
				if err != nil {
					panic(err)
				}
				line := fmt.Sprintf("%-28s %-8s omit=%v:", p.Name, srvKindName[k], omit)
				for j := 0; j < 3; j++ {
					o := w.connect(connPlan{P: p, Name: 0, Srv: k, OmitEmpty: omit, Advance: time.Hour})
					ph := ""
					if len(o.Srv.hellos) > 0 {
						h := o.Srv.hellos[0]
						ph = fmt.Sprintf("tkt=%d psk=%v/%d last=%v ems=%v nh=%d", len(h.Ticket), h.HasPSK, len(h.Identities), h.PSKLast, h.HasEMS, len(o.Srv.hellos))
					}
					a, okA := o.After["a.test"]
					line += fmt.Sprintf("\n    [%d] cli(res=%v err=%q panic=%q) srv(res=%v err=%q) hello(%s) cache(%v v=%x ems=%v) ev=%v", j, o.CliResumed, o.CliErr, o.CliPanic, o.Srv.resumed, o.Srv.err, ph, okA, a.Version, a.EMS, o.Events)
				}
				fmt.Println(line)
				w.close()
			}
		}
	}
	_ = tls.VersionTLS12
}

package main

import (
	"fmt"
	"sort"
	"strings"
	"sync"
	"time"

	tls "github.com/refraction-networking/utls"
	"verif/harness/vh"
)

// ---------- pool of parrots ----------

func buildPool() []*parrot {
	var ps []*parrot
	for _, e := range predefined {
		p := classify(e.n, e.id)
		ps = append(ps, &p)
	}
	// seeded randomized fingerprints (Roller-style): the spec, hence extended_master_secret, depends on the seed
	for _, base := range []struct {
		n  string
		id tls.ClientHelloID
	}{{"RandomizedALPN", tls.HelloRandomizedALPN}, {"RandomizedNoALPN", tls.HelloRandomizedNoALPN}} {
		for i := 1; i <= 6; i++ {
			id := base.id
			sd := tls.PRNGSeed{byte(i), 0x19}
			id.Seed = &sd
			p := classify(fmt.Sprintf("%s-s%d", base.n, i), id)
			ps = append(ps, &p)
		}
	}
	// HelloCustom clients: the spec of a parrot applied with ApplyPreset, as it is and with the extended_master_secret
	// (2) / session_ticket (0) / pre_shared_key (1) extension removed, and specs made by the Fingerprinter from a
	// parrot's own ClientHello
	for _, b := range []struct {
		n  string
		id tls.ClientHelloID
	}{{"Chrome_100", tls.HelloChrome_100}, {"Chrome_100_PSK", tls.HelloChrome_100_PSK}, {"Firefox_120", tls.HelloFirefox_120}} {
		for _, v := range []struct {
			sfx  string
			drop []int
		}{{"", nil}, {"-ems", []int{2}}, {"-tkt", []int{0}}, {"-psk", []int{1}}, {"-ems-psk", []int{2, 1}}} {
			if strings.Contains(v.sfx, "psk") && b.n != "Chrome_100_PSK" {
				continue
			}
			p := customFromID("Custom("+b.n+")"+v.sfx, b.id, v.drop...)
			ps = append(ps, &p)
		}
	}
	// typed extensions given as a GenericExtension of the same id and body (2 extended_master_secret, 3 psk modes), and a
	// fingerprinted ClientHello with an extension id the library has no type for
	for _, g := range []struct {
		n     string
		id    tls.ClientHelloID
		kinds []int
	}{{"Custom(Chrome_100)~ems", tls.HelloChrome_100, []int{2}}, {"Custom(Firefox_120)~ems", tls.HelloFirefox_120, []int{2}},
		{"Custom(Chrome_58)~ems", tls.HelloChrome_58, []int{2}},
		{"Custom(Chrome_100_PSK)~ems~modes", tls.HelloChrome_100_PSK, []int{2, 3}}, {"Custom(Chrome_100)~modes", tls.HelloChrome_100, []int{3}},
		{"Custom(Chrome_100)~tkt", tls.HelloChrome_100, []int{0}}, {"Custom(Chrome_100_PSK)~tkt", tls.HelloChrome_100_PSK, []int{0}}} {
		p := customGeneric(g.n, g.id, g.kinds...)
		ps = append(ps, &p)
	}
	{
		p := customFingerprintedUnknown("Fingerprinted(Chrome_100+unknown)~", tls.HelloChrome_100)
		ps = append(ps, &p)
	}
	for _, b := range []struct {
		n  string
		id tls.ClientHelloID
	}{{"Chrome_100", tls.HelloChrome_100}, {"Firefox_120", tls.HelloFirefox_120}, {"360_7_5", tls.Hello360_7_5}} {
		p := customFingerprinted("Fingerprinted("+b.n+")", b.id)
		ps = append(ps, &p)
		if b.n != "360_7_5" {
			q := customFingerprinted("Fingerprinted("+b.n+")-ems", b.id, 2)
			ps = append(ps, &q)
		}
	}
	return ps
}

func golangDefaults(p *parrot) {
	uc := tls.UClient(nopConn{}, &tls.Config{ServerName: "a.test"}, tls.HelloGolang)
	if err := uc.BuildHandshakeState(); err == nil {
		p.Suites = append([]uint16(nil), uc.HandshakeState.Hello.CipherSuites...)
	}
}

// ---------- Coq emission ----------

func u16list(xs []uint16) string {
	it := make([]string, len(xs))
	for i, x := range xs {
		it[i] = fmt.Sprint(x)
	}
	return vh.List(it)
}

var extName = []string{"XTicket", "XPsk", "XEms", "XPskModes", "XOther", "XTicketWire"}

func (p *parrot) versList() []uint16 {
	max := uint16(tls.VersionTLS12)
	if p.Max13 {
		max = tls.VersionTLS13
	}
	var vs []uint16
	for v := max; v >= p.Min && v >= tls.VersionTLS10; v-- {
		vs = append(vs, v)
	}
	return vs
}

func (p *parrot) coq() string {
	ex := make([]string, len(p.Exts))
	for i, k := range p.Exts {
		ex[i] = extName[k]
	}
	return fmt.Sprintf("(mkSpec %s %s %s %s %s %s)", vh.Bool(p.Golang), vh.List(ex), u16list(p.versList()),
		u16list(p.Suites), u16list(p.Groups), u16list(p.Shares))
}

var allSuites []uint16

func serverCoq(kind, epoch int, notAfter int64, suites []uint16) string {
	vers := map[int]string{srv12: "[771]", srv13: "[772]", srv13hrr: "[772]", srvBoth: "[772; 771]"}[kind]
	groups := "[4588; 29; 23; 24; 25]"
	if kind == srv13hrr {
		groups = "[24]"
	}
	return fmt.Sprintf("(mkServer %d %s %s %s %d [1; 2; 3; 4; 5; 6])", 7+epoch, vers, u16list(suites), groups, notAfter)
}

// ---------- observation -> seen ----------

func classOf(o *connObs) int {
	switch {
	case o.CliPanic != "":
		return 6
	case strings.Contains(o.CliErr, "empty psk detected"):
		return 1
	case strings.Contains(o.CliErr, "reprocessing of PSK"):
		return 2
	case strings.Contains(o.Srv.err, "extended_master_secret but client does not"):
		return 3
	case strings.Contains(o.Srv.err, "invalid PSK binder"):
		return 7
	case strings.Contains(o.Srv.err, "unsupported versions") || strings.Contains(o.Srv.err, "protocol version"):
		return 4
	case o.BadOffered && o.CliErr != "" && len(o.Srv.hellos) > 0 && len(o.Srv.hellos[0].Ticket) > 0 && !o.Srv.hellos[0].HasPSK && o.CliPanic == "" && !strings.Contains(o.CliErr, "certificate"):
		// TLS 1.2 resumption with a corrupted master secret: the server resumes from its own copy, the client cannot
		// read its Finished
		return 8
	case o.CliErr == "" && o.SrvSeen && o.Srv.err == "":
		return 0
	}
	return 5
}

func offerOf(o *connObs) (code int, label []byte) {
	if len(o.Srv.hellos) == 0 {
		return 0, nil
	}
	h := o.Srv.hellos[0]
	if h.HasPSK {
		if len(h.Identities) > 0 {
			return 2, h.Identities[0].Label
		}
		return 2, nil
	}
	if h.HasTicket && len(h.Ticket) > 0 {
		return 1, h.Ticket
	}
	return 0, nil
}

type histResult struct {
	plans []connPlan
	obs   []connObs
	err   string
}

func runHistory(pk *pki, seed int64, plans []connPlan) histResult {
	w, err := newWorld(pk, seed)
	if err != nil {
		return histResult{plans: plans, err: err.Error()}
	}
	defer w.close()
	r := histResult{plans: plans}
	for _, pl := range plans {
		r.obs = append(r.obs, w.connect(pl))
	}
	return r
}

func versName(v uint16) string {
	switch v {
	case tls.VersionTLS12:
		return "tls12"
	case tls.VersionTLS13:
		return "tls13"
	}
	return fmt.Sprintf("%04x", v)
}

// ---------- the runner ----------

func run(c *vh.Ctx) {
	pk := newPKI()
	notAfter := pk.notAfter.Unix()
	pool := buildPool()
	byName := map[string]*parrot{}
	for _, p := range pool {
		if p.Golang {
			golangDefaults(p)
		}
		byName[p.Name] = p
	}
	seen := map[uint16]bool{}
	for _, cs := range tls.CipherSuites() {
		seen[cs.ID] = true
	}
	for _, cs := range tls.InsecureCipherSuites() {
		seen[cs.ID] = true
	}
	for id := range seen {
		allSuites = append(allSuites, id)
	}
	sort.Slice(allSuites, func(i, j int) bool { return allSuites[i] < allSuites[j] })

	// parrots exempted by the property text: spec lacks the extension resumption needs
	var no12, no13, specErr []string
	var usable []*parrot
	for _, p := range pool {
		if p.SpecErr != "" {
			specErr = append(specErr, p.Name+": "+p.SpecErr)
			continue
		}
		usable = append(usable, p)
		if !p.HasTicket {
			no12 = append(no12, p.Name)
		}
		if p.Max13 && !p.HasPSK {
			no13 = append(no13, p.Name)
		}
	}
	// a custom kind that cannot complete a plain full handshake on its own (e.g. a fingerprinted spec the library
	// cannot replay) says nothing about resumption: leave it out and record it
	{
		var keep []*parrot
		var unusable []string
		for _, p := range usable {
			ok := true
			if p.Custom {
				for _, k := range []int{srv12, srv13} {
					if k == srv13 && !p.Max13 {
						continue
					}
					r := runHistory(pk, 77, []connPlan{{P: p, Name: 0, Srv: k, OmitEmpty: true}})
					if r.err != "" || classOf(&r.obs[0]) != 0 {
						ok = false
						unusable = append(unusable, fmt.Sprintf("%s/%s: %s%s %s", p.Name, srvKindName[k], r.obs[0].CliErr, r.obs[0].CliPanic, r.obs[0].Srv.err))
					}
				}
			}
			if ok {
				keep = append(keep, p)
			} else {
				delete(byName, p.Name)
			}
		}
		usable = keep
		c.Extra["custom_kinds_unusable"] = unusable
	}
	c.Extra["cannot_resume_tls12_no_session_ticket_ext"] = no12
	c.Extra["cannot_resume_tls13_no_pre_shared_key_ext"] = no13
	c.Extra["spec_errors"] = specErr
	c.Extra["parrots"] = len(usable)

	var emsYes, emsNo, pskP []*parrot
	for _, p := range usable {
		if p.HasPSK && !p.Golang {
			pskP = append(pskP, p)
		}
		if p.HasTicket && p.HasEMS {
			emsYes = append(emsYes, p)
		}
		if p.HasTicket && !p.HasEMS {
			emsNo = append(emsNo, p)
		}
	}

	hour := time.Hour
	day := 24 * time.Hour
	var hists [][]connPlan
	mk := func(p *parrot, name, srv int, adv time.Duration) connPlan {
		return connPlan{P: p, Name: name, Srv: srv, Advance: adv, OmitEmpty: true}
	}
	// corpus 1: the same parrot twice (three times for HRR: the failed resumption must not break the third)
	for _, p := range usable {
		for k := 0; k < nSrvKinds; k++ {
			if c.Tier == "quick" && !p.Golang && !p.HasPSK && (k == srvBoth || k == srv13hrr) && !(strings.HasSuffix(p.Name, "_120") || strings.HasSuffix(p.Name, "_133") || strings.HasPrefix(p.Name, "360") || strings.HasPrefix(p.Name, "IOS_14")) {
				continue // quick tier: the two extra server kinds only for a few non-PSK parrots
			}
			if c.Tier == "quick" && !p.Max13 && (k == srv13 || k == srv13hrr) {
				continue // no common version: nothing to resume, covered by the thorough tier
			}
			h := []connPlan{mk(p, 0, k, hour), mk(p, 0, k, hour)}
			if k == srv13hrr {
				h = append(h, mk(p, 0, k, hour))
			}
			hists = append(hists, h)
		}
	}
	// corpus 2: PSK parrots — without OmitEmptyPsk, and observed through the PatchBuiltHello wrapper
	for _, p := range pskP {
		h := []connPlan{mk(p, 0, srv13, hour), mk(p, 0, srv13, hour)}
		h[0].OmitEmpty, h[1].OmitEmpty = false, false
		hists = append(hists, h)
		h2 := []connPlan{mk(p, 0, srv13, hour), mk(p, 0, srv13, hour), mk(p, 0, srv13, hour)}
		for i := range h2 {
			h2[i].WrapPSK = true
		}
		hists = append(hists, h2)
		// first connection with OmitEmptyPsk, second without: the PSK is not empty any more
		h3 := []connPlan{mk(p, 0, srv13, hour), mk(p, 0, srv13, hour)}
		h3[1].OmitEmpty = false
		hists = append(hists, h3)
	}
	// corpus 3: one cache shared by specs that differ in extended_master_secret (the former F-19a witness first)
	lim := func(l []*parrot, n int) []*parrot {
		if len(l) > n && c.Tier == "quick" {
			return l[:n]
		}
		return l
	}
	pick := func(names ...string) []*parrot {
		var r []*parrot
		for _, n := range names {
			if p, ok := byName[n]; ok && p.SpecErr == "" {
				r = append(r, p)
			}
		}
		return r
	}
	emsA := pick("Chrome_100", "Firefox_120", "Golang", "Chrome_100_PSK", "Chrome_133", "Edge_85")
	for _, p := range emsYes {
		if strings.HasPrefix(p.Name, "Randomized") {
			emsA = append(emsA, p)
		}
	}
	emsKinds := []int{srv12, srvBoth}
	if c.Tier == "quick" {
		emsKinds = []int{srv12}
	}
	for _, a := range lim(emsA, 5) {
		for _, b := range lim(emsNo, 3) {
			for _, k := range emsKinds {
				hists = append(hists, []connPlan{mk(a, 0, k, hour), mk(b, 0, k, hour), mk(b, 0, k, hour)})
				hists = append(hists, []connPlan{mk(b, 0, k, hour), mk(a, 0, k, hour), mk(a, 0, k, hour)})
			}
		}
	}
	// corpus 4: names, expiry, InsecureSkipVerify, server version changes
	core := pick("Golang", "Chrome_100", "Chrome_100_PSK", "Chrome_115_PQ_PSK", "Firefox_120", "360_7_5", "Chrome_58")
	for _, p := range core {
		for _, k := range []int{srv12, srv13} {
			hists = append(hists, []connPlan{mk(p, 0, k, hour), mk(p, 1, k, hour), mk(p, 0, k, hour), mk(p, 1, k, hour)})
			hists = append(hists, []connPlan{mk(p, 0, k, hour), mk(p, 0, k, 6*day), mk(p, 0, k, 2*day), mk(p, 0, k, 6*day)})
			hists = append(hists, []connPlan{mk(p, 0, k, hour), mk(p, 0, k, 7*day), mk(p, 0, k, 7*day+time.Second)})
			sv := []connPlan{mk(p, 0, k, hour), mk(p, 0, k, hour), mk(p, 0, k, hour)}
			sv[0].SkipVerify = true
			hists = append(hists, sv)
		}
		hists = append(hists, []connPlan{mk(p, 0, srv12, hour), mk(p, 0, srvBoth, hour), mk(p, 0, srv12, hour), mk(p, 0, srv13, hour), mk(p, 0, srvBoth, hour)})
	}
	// corpus 5: name shapes beyond DNS names — the cache key is Config.ServerName exactly as configured, else the
	// remote address: IP literals (v4, v6) reaching one listener, a trailing dot, no name at all (InsecureSkipVerify)
	const (
		nA, nADot, nIP1, nIP2, nIP6 = 0, 2, 3, 4, 5
	)
	for _, p := range pick("Golang", "Chrome_100_PSK", "Chrome_100") {
		for _, k := range []int{srv12, srv13} {
			hists = append(hists, []connPlan{mk(p, nIP1, k, hour), mk(p, nIP2, k, hour), mk(p, nIP1, k, hour), mk(p, nIP6, k, hour), mk(p, nIP6, k, hour)})
			hists = append(hists, []connPlan{mk(p, nA, k, hour), mk(p, nADot, k, hour), mk(p, nA, k, hour), mk(p, nADot, k, hour)})
			sk := []connPlan{mk(p, nameEmpty, k, hour), mk(p, nIP1, k, hour), mk(p, nameEmpty, k, hour), mk(p, nIP2, k, hour), mk(p, nIP1, k, hour)}
			for i := range sk {
				sk[i].SkipVerify = true
			}
			hists = append(hists, sk)
		}
	}
	// corpus 6: HelloCustom + ApplyPreset clients (specs of parrots with extensions removed, fingerprinted copies) next
	// to UClient(id) clients over one cache
	var customs []*parrot
	for _, p := range usable {
		if p.Custom {
			customs = append(customs, p)
		}
	}
	for _, p := range customs {
		interesting := strings.Contains(p.Name, "-ems") || strings.Contains(p.Name, "-tkt") || strings.Contains(p.Name, "PSK") || strings.Contains(p.Name, "~")
		for _, k := range []int{srv12, srv13} {
			if k == srv13 && (!p.Max13 || (c.Tier == "quick" && !strings.Contains(p.Name, "PSK") && !strings.Contains(p.Name, "~"))) {
				continue
			}
			hists = append(hists, []connPlan{mk(p, 0, k, hour), mk(p, 0, k, hour), mk(p, 0, k, hour)})
		}
		// a session stored by a stock client, then this custom client, and back
		for _, a := range pick("Chrome_100", "Golang", "Chrome_100_PSK") {
			if c.Tier == "quick" && (!interesting || (a.Name == "Chrome_100_PSK" && !strings.Contains(p.Name, "PSK"))) {
				continue
			}
			hists = append(hists, []connPlan{mk(a, 0, srv12, hour), mk(p, 0, srv12, hour), mk(p, 0, srv12, hour), mk(a, 0, srv12, hour)})
			if c.Tier != "quick" || strings.Contains(p.Name, "PSK") {
				hists = append(hists, []connPlan{mk(a, 0, srv13, hour), mk(p, 0, srv13, hour), mk(p, 0, srv13, hour), mk(a, 0, srv13, hour)})
			}
		}
	}
	// corpus 7: the multi-step use on the resuming connection (explicit BuildHandshakeState, an edit that keeps the hello
	// length, Handshake), and servers that rotate their ticket key in the middle of a history
	for _, p := range pick("Chrome_100_PSK", "Chrome_115_PQ_PSK", "Golang", "Chrome_100", "Custom(Chrome_100_PSK)", "Firefox_120") {
		for _, k := range []int{srv13, srv12} {
			h := []connPlan{mk(p, 0, k, hour), mk(p, 0, k, hour), mk(p, 0, k, hour), mk(p, 0, k, hour), mk(p, 0, k, hour)}
			h[1].Prep, h[2].Prep, h[3].Prep = 1, 2, 3
			hists = append(hists, h)
			g := []connPlan{mk(p, 0, k, hour), mk(p, 0, k, hour), mk(p, 0, k, hour), mk(p, 0, k, hour)}
			g[2].Rotate = true
			g[3].Prep = 2
			hists = append(hists, g)
		}
	}
	// corpus 8: a resumption attempt that fails for a reason outside the client (the cached secret is not the ticket's):
	// the entry is evicted, the next connection is a full handshake, the one after resumes again
	for _, p := range pick("Chrome_100_PSK", "Golang", "Chrome_100", "Firefox_120", "Custom(Chrome_100_PSK)") {
		for _, k := range []int{srv13, srv12} {
			h := []connPlan{mk(p, 0, k, hour), mk(p, 0, k, hour), mk(p, 0, k, hour), mk(p, 0, k, hour)}
			h[1].Tamper = true
			hists = append(hists, h)
		}
	}
	// corpus 9: verifying clients in the other verification modes — InsecureServerNameToVerify "*" (chain only) or another
	// name the leaf covers, InsecureSkipTimeVerify after the leaf has expired: the cached-certificate re-check of
	// loadSession must let the session resume whenever the current mode accepts the cached leaf
	for _, p := range pick("Golang", "Chrome_100", "Chrome_100_PSK", "Firefox_120") {
		for _, k := range []int{srv12, srv13} {
			star := []connPlan{mk(p, 0, k, hour), mk(p, 0, k, hour), mk(p, 0, k, hour)}
			other := []connPlan{mk(p, 0, k, hour), mk(p, 0, k, hour)}
			mix := []connPlan{mk(p, 0, k, hour), mk(p, 0, k, hour), mk(p, 0, k, hour), mk(p, 0, k, hour)}
			for i := range star {
				star[i].VName = 1
			}
			for i := range other {
				other[i].VName = 2
			}
			mix[1].VName, mix[2].VName = 1, 2
			hists = append(hists, star, other, mix)
			if p.Golang || p.HasPSK {
				late := []connPlan{mk(p, 0, k, 41*day), mk(p, 0, k, hour), mk(p, 0, k, hour), mk(p, 0, k, hour)}
				late[0].SkipTime, late[1].SkipTime, late[3].SkipTime = true, true, true
				hists = append(hists, late)
			}
		}
	}
	ncorpus := len(hists)
	// random histories
	advs := []time.Duration{0, hour, hour, day, 3 * day, 6 * day, 8 * day}
	nrand := c.N
	for i := 0; i < nrand; i++ {
		n := 2 + c.Rng.Intn(5)
		a := usable[c.Rng.Intn(len(usable))]
		b := usable[c.Rng.Intn(len(usable))]
		if c.Rng.Intn(3) == 0 {
			b = core[c.Rng.Intn(len(core))]
		}
		k0 := c.Rng.Intn(nSrvKinds)
		var h []connPlan
		total := time.Duration(0)
		for j := 0; j < n; j++ {
			p := a
			if c.Rng.Intn(4) == 0 {
				p = b
			}
			k := k0
			if c.Rng.Intn(6) == 0 {
				k = c.Rng.Intn(nSrvKinds)
			}
			adv := advs[c.Rng.Intn(len(advs))]
			if total+adv > 30*day {
				adv = hour
			}
			total += adv
			pl := mk(p, 0, k, adv)
			if c.Rng.Intn(5) == 0 {
				pl.Name = 1
			}
			if c.Rng.Intn(6) == 0 {
				pl.Name = c.Rng.Intn(len(serverNames)) // any name shape; without a name verification must be off
				if pl.Name == nameEmpty {
					pl.SkipVerify = true
				}
			}
			if c.Rng.Intn(12) == 0 {
				pl.OmitEmpty = false
			}
			if c.Rng.Intn(12) == 0 {
				pl.SkipVerify = true
			}
			if c.Rng.Intn(4) == 0 {
				pl.WrapPSK = true
			}
			if c.Rng.Intn(5) == 0 {
				pl.Prep = 1 + c.Rng.Intn(3)
			}
			if c.Rng.Intn(10) == 0 {
				pl.Rotate = true
			}
			if c.Rng.Intn(10) == 0 {
				pl.Tamper = true
			}
			if c.Rng.Intn(6) == 0 {
				pl.VName = 1 + c.Rng.Intn(2)
				if c.Rng.Intn(8) == 0 {
					pl.VName = 3
				}
			}
			if c.Rng.Intn(10) == 0 {
				pl.SkipTime = true
			}
			h = append(h, pl)
		}
		hists = append(hists, h)
	}
	c.Extra["corpus_histories"] = ncorpus
	c.Extra["random_histories"] = nrand

	// execute (worlds are independent: own listeners, cache, clock)
	results := make([]histResult, len(hists))
	var wg sync.WaitGroup
	sem := make(chan struct{}, 8)
	for i := range hists {
		wg.Add(1)
		sem <- struct{}{}
		go func(i int) {
			defer wg.Done()
			defer func() { <-sem }()
			results[i] = runHistory(pk, c.Seed*1000003+int64(i), hists[i])
		}(i)
	}
	wg.Wait()

	nconn, nres := 0, 0
	var class5 []string
	for hi, r := range results {
		if r.err != "" {
			c.Fail("runner/world", "could not set up the servers: "+r.err, nil, nil, nil)
			continue
		}
		var items []string
		var keyb strings.Builder
		var spTab, svTab []string // tables of the distinct specs / servers of this history
		spIdx := map[*parrot]int{}
		svIdx := map[[2]int]int{} // (server kind, ticket key epoch)
		// every session the client ever put into the cache, by ticket: which server name it was negotiated with
		// (Config.ServerName as configured; "@address" without one) and by which parrot
		type origin struct {
			identity, parrot string
			info             tls.VerifC19Session
		}
		origins := map[string]origin{}
		failedTickets := map[string]bool{}
		// to keep the case terms small: the server's suite list is cut down to the suites that occur in this history
		// (every one of them is in the server's real list), the cache is compared on the keys this history can touch
		var srvSuites []uint16
		var histKeys []int
		{
			ss := map[uint16]bool{}
			ks := map[int]bool{}
			for j := range r.obs {
				if cs := r.obs[j].CliSuite; cs != 0 && suiteKnown(cs) {
					ss[cs] = true
				}
				ss[defaultSuite(r.plans[j].P, r.plans[j].Srv)] = true
				for _, a := range r.obs[j].After {
					if suiteKnown(a.Suite) {
						ss[a.Suite] = true
					}
				}
				if id := nameID(r.plans[j].Name); id != 0 {
					ks[id] = true
				}
				ks[addrID(r.plans[j].Srv)] = true
				for id := range r.obs[j].After {
					ks[id] = true
				}
			}
			for x := range ss {
				srvSuites = append(srvSuites, x)
			}
			sort.Slice(srvSuites, func(i, j int) bool { return srvSuites[i] < srvSuites[j] })
			for _, id := range keyIDs {
				if ks[id] {
					histKeys = append(histKeys, id)
				}
			}
		}
		nontrivial := false
		elapsed := time.Duration(0)
		// which connections offered a session the test had corrupted (by ticket bytes)
		{
			corrupted := map[string]bool{}
			for j := range r.obs {
				o := &r.obs[j]
				if o.Tampered {
					corrupted[string(o.TamperedTicket)] = true
				}
				if code, label := offerOf(o); code != 0 && label != nil && corrupted[string(label)] {
					o.BadOffered = true
				}
			}
		}
		for j := range r.obs {
			o := &r.obs[j]
			pl := r.plans[j]
			p := pl.P
			nconn++
			elapsed += pl.Advance
			cls := classOf(o)
			if cls == 5 && len(class5) < 8 {
				class5 = append(class5, fmt.Sprintf("%s/%s: %s%s / %s", p.Name, srvKindName[pl.Srv], o.CliErr, o.CliPanic, o.Srv.err))
			}
			code, label := offerOf(o)
			if code != 0 {
				nontrivial = true
			}
			if o.CliResumed {
				nres++
			}
			pl = o.Plan // connect() turns verification off for a connection without ServerName
			name := o.Identity
			input := map[string]any{"history": hi, "conn": j, "prep": planPrep(r.plans), "rotate_key": planRotate(r.plans), "tamper": planTamper(r.plans), "server_name_to_verify": planVName(r.plans), "skip_time_verify": planSkipTime(r.plans), "parrots": planNames(r.plans), "servers": planSrvs(r.plans),
				"names": planNameIdx(r.plans), "advance_s": planAdv(r.plans), "omit_empty_psk": pl.OmitEmpty, "seed": c.Seed}

			// ----- Go-side oracle, from the property text -----
			if o.CliResumed != o.Srv.resumed && cls == 0 {
				c.Fail("didresume-disagree/"+p.Name, "client and server disagree on DidResume", input, o.CliResumed, o.Srv.resumed)
			}
			for _, h := range o.Srv.hellos {
				if h.HasPSK && !h.PSKLast {
					c.Fail("psk-not-last/"+p.Name, "pre_shared_key is not the last extension", input, h.ExtOrder, "41 last")
				}
			}
			badCache := o.BadOffered // the offered session is one the test corrupted: its failure is the test's doing
			if strings.Contains(o.Srv.err, "invalid PSK binder") && !badCache {
				c.Fail("binder-invalid/"+p.Name, "the server rejected the PSK binder", input, o.Srv.err, "binder verifies")
			}
			if o.LenSeen && o.LenPre != o.LenPost {
				c.Fail("binder-len/"+p.Name, "inserting the real binder changed the hello length", input, []int{o.LenPre, o.LenPost}, "equal")
			}
			if strings.Contains(o.CliPanic, "uApplyPatch") {
				c.Fail("binder-len/"+p.Name, "uApplyPatch length assertion fired", input, o.CliPanic, "no panic")
			}
			// a session whose resumption failed must be thrown away (RFC 5077 3.2), never offered again
			if code != 0 && label != nil && failedTickets[string(label)] {
				c.Fail("stale-session/"+p.Name, "a session whose resumption attempt had failed was offered again", input, len(label), "evicted")
			}
			if code != 0 && label != nil && cls != 0 {
				failedTickets[string(label)] = true
			}
			var offered *origin
			if code != 0 && label != nil {
				if og, ok := origins[string(label)]; !ok {
					c.Fail("unknown-ticket/"+p.Name, "the offered ticket was never stored by this client", input, len(label), "a cached ticket")
				} else {
					offered = &og
					if og.identity != name {
						c.Fail("cross-name/"+p.Name, "a session stored for server name "+og.identity+" was offered to "+name, input, og.identity, name)
					}
				}
			}
			emsDown := false
			if code == 1 && len(o.Srv.hellos) > 0 && !o.Srv.hellos[0].HasEMS && offered != nil && offered.info.EMS {
				emsDown = true
			}
			if emsDown || cls == 3 {
				from := "?"
				if offered != nil {
					from = offered.parrot
				}
				c.Fail("ems-downgrade/"+from+"->"+p.Name, "an extended-master-secret session was offered in a hello without extended_master_secret (RFC 7627 5.3: the server must abort)",
					input, map[string]any{"client_err": o.CliErr, "server_err": o.Srv.err}, "session not offered")
			}
			// the connection after a successful one: must resume (when the spec can), must not break
			if j > 0 {
				po := &r.obs[j-1]
				pp := r.plans[j-1]
				prevOK := classOf(po) == 0
				// same server configuration: a rotated ticket key is a different one
				same := pp.P == p && pp.Name == pl.Name && pp.Srv == pl.Srv && pp.SkipVerify == pl.SkipVerify && pp.OmitEmpty == pl.OmitEmpty && !pl.Rotate &&
					pp.VName == pl.VName && pp.SkipTime == pl.SkipTime
				// after a resumption that failed on a corrupted entry the entry must be gone: this connection completes
				if po.BadOffered && classOf(po) != 0 && pp.Name == pl.Name && pp.Srv == pl.Srv && !pl.Tamper && cls != 0 && cls != 4 && !(cls == 1 && !pl.OmitEmpty) && !strings.Contains(o.CliErr, "failed to verify certificate") {
					c.Fail("stuck/"+p.Name+"/"+srvKindName[pl.Srv], "the connection after a failed resumption failed as well: "+o.CliErr+o.CliPanic+" / "+o.Srv.err, input,
						map[string]any{"client_err": o.CliErr, "panic": o.CliPanic, "server_err": o.Srv.err}, "bad session evicted, full handshake completes")
				}
				if prevOK && cls != 0 && cls != 3 && !emsDown && !badCache {
					key := "broken/" + p.Name + "/" + srvKindName[pl.Srv]
					// no common version; documented: PSK spec needs OmitEmptyPsk; the full handshake's own certificate
					// verification refused the server (expired leaf without InsecureSkipTimeVerify, a name it does not cover)
					exempt := cls == 4 || (cls == 1 && !pl.OmitEmpty) || strings.Contains(o.CliErr, "failed to verify certificate")
					if cls == 2 {
						key = "psk-hrr/" + p.Name
					}
					if !exempt {
						c.Fail(key, "the handshake after a successful one failed: "+o.CliErr+o.CliPanic+" / "+o.Srv.err, input,
							map[string]any{"client_err": o.CliErr, "panic": o.CliPanic, "server_err": o.Srv.err}, "handshake completes")
					}
				}
				if prevOK && same && elapsed <= 6*day && cls == 0 && !o.BadOffered {
					can := (po.CliVers == tls.VersionTLS12 && p.HasTicket) || (po.CliVers == tls.VersionTLS13 && p.HasPSK && p.HasModes)
					if !can {
						c.Count("exempt-no-extension")
					} else if !o.CliResumed {
						key := "no-resume/" + p.Name + "/" + versName(po.CliVers)
						if o.CliHRRSeen {
							key = "psk-hrr/" + p.Name
						}
						c.Fail(key, "same parrot, name, server configuration, unexpired ticket: the connection did not resume", input, false, true)
					}
				}
			}

			// ----- Coq case -----
			suite := o.CliSuite
			if cls != 0 || suite == 0 {
				suite = defaultSuite(p, pl.Srv)
			}
			tlen := 0
			for _, ev := range o.Events {
				if ev.Put && !ev.Nil {
					tlen = ev.Info.TicketLen
					origins[string(ev.Info.Ticket)] = origin{name, p.Name, ev.Info}
				}
			}
			var cacheItems []string
			for _, id := range histKeys {
				if s, ok := o.After[id]; ok {
					cacheItems = append(cacheItems, fmt.Sprintf("(%d, Some (%d, %d, %s, %d))", id, s.Version, s.Suite, vh.Bool(s.EMS), s.CreatedAt))
				} else {
					cacheItems = append(cacheItems, fmt.Sprintf("(%d, None)", id))
				}
			}
			helloEMS := false
			if len(o.Srv.hellos) > 0 {
				helloEMS = o.Srv.hellos[0].HasEMS
			}
			if _, ok := spIdx[p]; !ok {
				spIdx[p] = len(spTab)
				spTab = append(spTab, p.coq())
			}
			svk := [2]int{pl.Srv, o.Epoch}
			if _, ok := svIdx[svk]; !ok {
				svIdx[svk] = len(svTab)
				svTab = append(svTab, serverCoq(pl.Srv, o.Epoch, notAfter, srvSuites))
			}
			items = append(items, fmt.Sprintf("(mkRef %d %d %d %d %d %s %s %d %d %d %s, mkSeen %s %d %s %d %s %s %s)",
				spIdx[p], svIdx[svk], nameID(pl.Name), addrID(pl.Srv), o.Now, vh.Bool(pl.OmitEmpty), vh.Bool(pl.SkipVerify), suite, tlen, vnameID[pl.VName], vh.Bool(pl.SkipTime),
				vh.Bool(o.Tampered), cls, vh.Bool(o.CliResumed), code, vh.Bool(helloEMS), vh.Bool(o.CliHRRSeen), vh.List(cacheItems)))
			fmt.Fprintf(&keyb, "%s/%d/%d/%d/%v/%v/%d/%v/%v;", p.Name, pl.Name, pl.Srv, pl.Advance/time.Second, pl.OmitEmpty, pl.SkipVerify, pl.Prep, pl.Rotate, pl.Tamper)
			fmt.Fprintf(&keyb, "v%d/%v;", pl.VName, pl.SkipTime)

			// PSK extension length accounting
			if len(o.Srv.hellos) > 0 && o.Srv.hellos[0].HasPSK {
				h := o.Srv.hellos[0]
				var ll, bl []string
				for _, id := range h.Identities {
					ll = append(ll, fmt.Sprint(len(id.Label)))
				}
				for _, b := range h.Binders {
					bl = append(bl, fmt.Sprint(len(b)))
				}
				su := uint16(0)
				if offered != nil {
					su = offered.info.Suite
				}
				pre, post := 0, 0
				if o.LenSeen {
					pre, post = o.LenPre, o.LenPost
					if post != len(h.Raw) {
						c.Fail("binder-len/"+p.Name, "the hello on the wire has a different length than the patched hello", input, []int{post, len(h.Raw)}, "equal")
					}
				}
				c.Case("psk-ext", fmt.Sprintf("(CPsk %s %s %d %d %d %d)", vh.List(ll), vh.List(bl), su, h.PSKExtLen, pre, post),
					fmt.Sprintf("%d/%d/%s", hi, j, p.Name), o.LenSeen, nil)
			}

		}
		var sample any
		if hi < 3 {
			sample = map[string]any{"parrots": planNames(r.plans), "servers": planSrvs(r.plans), "resumed": obsResumed(r.obs)}
		}
		c.Case("history", "(CHistT "+vh.List(spTab)+" "+vh.List(svTab)+" "+vh.List(items)+")", keyb.String(), nontrivial, sample)
	}
	c.Extra["other_error_samples"] = class5
	c.Extra["connections"] = nconn
	c.Extra["resumed_connections"] = nres
}

// model ids of every possible cache key: the non-empty names and the four listener addresses
var keyIDs = func() []int {
	var r []int
	for i, n := range serverNames {
		if n != "" {
			r = append(r, nameID(i))
		}
	}
	for k := 0; k < nSrvKinds; k++ {
		r = append(r, addrID(k))
	}
	return r
}()

func suiteKnown(id uint16) bool {
	for _, x := range allSuites {
		if x == id {
			return true
		}
	}
	return id == 0x1301 || id == 0x1302 || id == 0x1303
}

func defaultSuite(p *parrot, kind int) uint16 {
	want13 := kind == srv13 || kind == srv13hrr || (kind == srvBoth && p.Max13)
	for _, s := range p.Suites {
		is13 := s == 0x1301 || s == 0x1302 || s == 0x1303
		if is13 == want13 {
			return s
		}
	}
	if want13 {
		return 0x1301
	}
	return 0xc02b
}

func planNames(ps []connPlan) []string {
	r := make([]string, len(ps))
	for i, p := range ps {
		r[i] = p.P.Name
	}
	return r
}
func planSrvs(ps []connPlan) []string {
	r := make([]string, len(ps))
	for i, p := range ps {
		r[i] = srvKindName[p.Srv]
	}
	return r
}
func planNameIdx(ps []connPlan) []string {
	r := make([]string, len(ps))
	for i, p := range ps {
		r[i] = serverNames[p.Name]
	}
	return r
}
func planPrep(ps []connPlan) []int {
	r := make([]int, len(ps))
	for i, p := range ps {
		r[i] = p.Prep
	}
	return r
}
func planVName(ps []connPlan) []string {
	r := make([]string, len(ps))
	for i, p := range ps {
		r[i] = vnameStr[p.VName]
	}
	return r
}
func planSkipTime(ps []connPlan) []bool {
	r := make([]bool, len(ps))
	for i, p := range ps {
		r[i] = p.SkipTime
	}
	return r
}
func planTamper(ps []connPlan) []bool {
	r := make([]bool, len(ps))
	for i, p := range ps {
		r[i] = p.Tamper
	}
	return r
}
func planRotate(ps []connPlan) []bool {
	r := make([]bool, len(ps))
	for i, p := range ps {
		r[i] = p.Rotate
	}
	return r
}
func planAdv(ps []connPlan) []int64 {
	r := make([]int64, len(ps))
	for i, p := range ps {
		r[i] = int64(p.Advance / time.Second)
	}
	return r
}
func obsResumed(os []connObs) []bool {
	r := make([]bool, len(os))
	for i, o := range os {
		r[i] = o.CliResumed
	}
	return r
}

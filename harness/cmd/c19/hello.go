package main

import (
	"encoding/binary"
	"errors"
)

// A small ClientHello parser of our own (independent of the library's
// unmarshaller): exactly the parts the C19 observables need.

type pskIdent struct {
	Label []byte
	Age   uint32
}

type parsedHello struct {
	Raw         []byte // handshake message incl. 4-byte header
	Suites      []uint16
	ExtOrder    []uint16
	HasTicket   bool // session_ticket (35) present
	Ticket      []byte
	HasEMS      bool // extended_master_secret (23)
	HasPSK      bool // pre_shared_key (41)
	PSKLast     bool
	PSKExtLen   int // whole extension incl. 4-byte header
	Identities  []pskIdent
	Binders     [][]byte
	BindersOff  int // offset in Raw of the binders list (the u16 length)
	HasPSKModes bool
	Versions    []uint16
	Groups      []uint16
	KeyShares   []uint16
	SNI         string
}

func isGrease16(v uint16) bool { return v&0x0f0f == 0x0a0a && v>>8 == v&0xff }

var errShort = errors.New("short ClientHello")

func parseHello(msg []byte) (*parsedHello, error) {
	h := &parsedHello{Raw: msg}
	if len(msg) < 4+2+32+1 || msg[0] != 1 {
		return nil, errShort
	}
	if int(msg[1])<<16|int(msg[2])<<8|int(msg[3]) != len(msg)-4 {
		return nil, errors.New("ClientHello length field does not match")
	}
	off := 4 + 2 + 32
	sl := int(msg[off])
	off += 1 + sl
	if len(msg) < off+2 {
		return nil, errShort
	}
	cl := int(binary.BigEndian.Uint16(msg[off:]))
	off += 2
	if len(msg) < off+cl+1 {
		return nil, errShort
	}
	for i := 0; i+1 < cl; i += 2 {
		h.Suites = append(h.Suites, binary.BigEndian.Uint16(msg[off+i:]))
	}
	off += cl
	ml := int(msg[off])
	off += 1 + ml
	if len(msg) == off {
		return h, nil
	}
	if len(msg) < off+2 {
		return nil, errShort
	}
	el := int(binary.BigEndian.Uint16(msg[off:]))
	off += 2
	if len(msg) != off+el {
		return nil, errors.New("extensions length does not match")
	}
	for off < len(msg) {
		if len(msg) < off+4 {
			return nil, errShort
		}
		t := binary.BigEndian.Uint16(msg[off:])
		l := int(binary.BigEndian.Uint16(msg[off+2:]))
		if len(msg) < off+4+l {
			return nil, errShort
		}
		body := msg[off+4 : off+4+l]
		h.ExtOrder = append(h.ExtOrder, t)
		switch t {
		case 0:
			if len(body) >= 5 {
				h.SNI = string(body[5:])
			}
		case 10:
			for i := 2; i+1 < len(body); i += 2 {
				h.Groups = append(h.Groups, binary.BigEndian.Uint16(body[i:]))
			}
		case 23:
			h.HasEMS = true
		case 35:
			h.HasTicket = true
			h.Ticket = body
		case 43:
			for i := 1; i+1 < len(body); i += 2 {
				h.Versions = append(h.Versions, binary.BigEndian.Uint16(body[i:]))
			}
		case 45:
			h.HasPSKModes = true
		case 51:
			p := body
			if len(p) >= 2 {
				p = p[2:]
				for len(p) >= 4 {
					g := binary.BigEndian.Uint16(p)
					kl := int(binary.BigEndian.Uint16(p[2:]))
					if len(p) < 4+kl {
						break
					}
					h.KeyShares = append(h.KeyShares, g)
					p = p[4+kl:]
				}
			}
		case 41:
			h.HasPSK = true
			h.PSKExtLen = 4 + l
			h.PSKLast = off+4+l == len(msg)
			p := body
			if len(p) < 2 {
				return nil, errors.New("psk: short")
			}
			il := int(binary.BigEndian.Uint16(p))
			p = p[2:]
			if len(p) < il {
				return nil, errors.New("psk: identities short")
			}
			ids := p[:il]
			p = p[il:]
			for len(ids) > 0 {
				if len(ids) < 2 {
					return nil, errors.New("psk: identity short")
				}
				ll := int(binary.BigEndian.Uint16(ids))
				if len(ids) < 2+ll+4 {
					return nil, errors.New("psk: identity short")
				}
				h.Identities = append(h.Identities, pskIdent{ids[2 : 2+ll], binary.BigEndian.Uint32(ids[2+ll:])})
				ids = ids[2+ll+4:]
			}
			h.BindersOff = off + 4 + 2 + il
			if len(p) < 2 {
				return nil, errors.New("psk: binders short")
			}
			bl := int(binary.BigEndian.Uint16(p))
			p = p[2:]
			if len(p) != bl {
				return nil, errors.New("psk: binders length does not match")
			}
			for len(p) > 0 {
				n := int(p[0])
				if len(p) < 1+n {
					return nil, errors.New("psk: binder short")
				}
				h.Binders = append(h.Binders, p[1:1+n])
				p = p[1+n:]
			}
		}
		off += 4 + l
	}
	return h, nil
}

// helloMessages splits the plaintext records a client sent before the first
// encrypted record into handshake messages and returns the ClientHellos.
func helloMessages(stream []byte) [][]byte {
	var hs []byte
	for len(stream) >= 5 {
		typ := stream[0]
		l := int(binary.BigEndian.Uint16(stream[3:]))
		if len(stream) < 5+l {
			break
		}
		if typ == 22 {
			hs = append(hs, stream[5:5+l]...)
		} else if typ == 23 {
			break // encrypted from here on
		}
		stream = stream[5+l:]
	}
	var out [][]byte
	for len(hs) >= 4 {
		l := int(hs[1])<<16 | int(hs[2])<<8 | int(hs[3])
		if len(hs) < 4+l {
			break
		}
		if hs[0] == 1 {
			out = append(out, hs[:4+l])
		} else {
			break // TLS 1.2: ClientKeyExchange etc. follow in the clear; we only want the hellos
		}
		hs = hs[4+l:]
	}
	return out
}

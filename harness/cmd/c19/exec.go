package main

import (
	"crypto/ecdsa"
	"crypto/elliptic"
	"crypto/rand"
	"crypto/x509"
	"crypto/x509/pkix"
	"fmt"
	"io"
	"math/big"
	"net"
	"strings"
	"sync"
	"time"

	tls "github.com/refraction-networking/utls"
	"verif/harness/vh"
)

// ---------- parrots ----------

type parrot struct {
	Name string
	ID   tls.ClientHelloID
	// classification by reflection over the spec the id expands to
	Golang    bool
	HasTicket bool
	HasPSK    bool
	HasEMS    bool
	HasModes  bool     // psk_key_exchange_modes
	Exts      []int    // extension kinds in spec order: 0 ticket, 1 psk, 2 ems, 3 psk modes, 4 other
	Max13     bool     // supported_versions contains TLS 1.3
	Min       uint16   // lowest supported version
	Suites    []uint16 // without GREASE
	Groups    []uint16
	Shares    []uint16
	SpecErr   string
	// HelloCustom + ApplyPreset(spec): MakeSpec yields a fresh spec for every connection (ApplyPreset shares the
	// extension objects of the spec it is given)
	Custom   bool
	MakeSpec func() (*tls.ClientHelloSpec, error)
}

var predefined = []struct {
	n  string
	id tls.ClientHelloID
}{
	{"Golang", tls.HelloGolang},
	{"Firefox_55", tls.HelloFirefox_55}, {"Firefox_56", tls.HelloFirefox_56}, {"Firefox_63", tls.HelloFirefox_63},
	{"Firefox_65", tls.HelloFirefox_65}, {"Firefox_99", tls.HelloFirefox_99}, {"Firefox_102", tls.HelloFirefox_102},
	{"Firefox_105", tls.HelloFirefox_105}, {"Firefox_120", tls.HelloFirefox_120},
	{"Chrome_58", tls.HelloChrome_58}, {"Chrome_62", tls.HelloChrome_62}, {"Chrome_70", tls.HelloChrome_70},
	{"Chrome_72", tls.HelloChrome_72}, {"Chrome_83", tls.HelloChrome_83}, {"Chrome_87", tls.HelloChrome_87},
	{"Chrome_96", tls.HelloChrome_96}, {"Chrome_100", tls.HelloChrome_100}, {"Chrome_102", tls.HelloChrome_102},
	{"Chrome_106_Shuffle", tls.HelloChrome_106_Shuffle}, {"Chrome_100_PSK", tls.HelloChrome_100_PSK},
	{"Chrome_112_PSK_Shuf", tls.HelloChrome_112_PSK_Shuf}, {"Chrome_114_Padding_PSK_Shuf", tls.HelloChrome_114_Padding_PSK_Shuf},
	{"Chrome_115_PQ", tls.HelloChrome_115_PQ}, {"Chrome_115_PQ_PSK", tls.HelloChrome_115_PQ_PSK},
	{"Chrome_120", tls.HelloChrome_120}, {"Chrome_120_PQ", tls.HelloChrome_120_PQ}, {"Chrome_131", tls.HelloChrome_131},
	{"Chrome_133", tls.HelloChrome_133},
	{"IOS_11_1", tls.HelloIOS_11_1}, {"IOS_12_1", tls.HelloIOS_12_1}, {"IOS_13", tls.HelloIOS_13}, {"IOS_14", tls.HelloIOS_14},
	{"Android_11_OkHttp", tls.HelloAndroid_11_OkHttp},
	{"Edge_85", tls.HelloEdge_85}, {"Edge_106", tls.HelloEdge_106},
	{"Safari_16_0", tls.HelloSafari_16_0},
	{"360_7_5", tls.Hello360_7_5}, {"360_11_0", tls.Hello360_11_0},
	{"QQ_11_1", tls.HelloQQ_11_1},
}

// classify looks at the spec's extension list by type (reflection over the
// concrete extension types, not over marshalled bytes).
func classify(name string, id tls.ClientHelloID) parrot {
	p := parrot{Name: name, ID: id}
	if id.Client == tls.HelloGolang.Client {
		// crypto/tls path: makeClientHello always sets ticketSupported, EMS, and can always emit a PSK
		p.Golang, p.HasTicket, p.HasPSK, p.HasEMS, p.Max13, p.Min = true, true, true, true, true, tls.VersionTLS12
		p.HasModes = true
		p.Groups = []uint16{uint16(tls.X25519MLKEM768), uint16(tls.X25519), uint16(tls.CurveP256), uint16(tls.CurveP384), uint16(tls.CurveP521)}
		p.Shares = []uint16{uint16(tls.X25519MLKEM768), uint16(tls.X25519)}
		return p
	}
	var spec tls.ClientHelloSpec
	var err error
	if strings.HasPrefix(name, "Randomized") {
		// the randomized generator is reached through a UConn; the id carries the seed
		uc := tls.UClient(nopConn{}, &tls.Config{ServerName: "a.test"}, id)
		if err = uc.BuildHandshakeStateWithoutSession(); err == nil {
			spec.Extensions = uc.Extensions
			spec.CipherSuites = uc.HandshakeState.Hello.CipherSuites
			for _, v := range uc.HandshakeState.Hello.SupportedVersions {
				if v == tls.VersionTLS13 {
					p.Max13 = true
				}
				if p.Min == 0 || v < p.Min {
					p.Min = v
				}
			}
		}
	} else {
		spec, err = tls.UTLSIdToSpec(id)
	}
	if err != nil {
		p.SpecErr = err.Error()
		return p
	}
	p.fromSpec(&spec)
	return p
}

// extKind: 0 session_ticket, 1 pre_shared_key, 2 extended_master_secret, 3 psk_key_exchange_modes, 4 other
func extKind(e tls.TLSExtension) int {
	switch x := e.(type) {
	case tls.ISessionTicketExtension:
		return 0
	case tls.PreSharedKeyExtension:
		return 1
	case *tls.ExtendedMasterSecretExtension:
		return 2
	case *tls.PSKKeyExchangeModesExtension:
		return 3
	case *tls.GenericExtension:
		// an extension given as raw bytes is on the wire like the typed one, but the library does not see a session
		// extension in it: extended_master_secret and psk_key_exchange_modes only matter on the wire
		switch x.Id {
		case 23:
			return 2
		case 45:
			return 3
		case 35:
			return 5 // session_ticket on the wire only
		}
	}
	return 4
}

// fromSpec classifies by reflection over the spec's extension objects
func (p *parrot) fromSpec(spec *tls.ClientHelloSpec) {
	for _, s := range spec.CipherSuites {
		if !isGrease16(s) {
			p.Suites = append(p.Suites, s)
		}
	}
	sawSV := false
	for _, e := range spec.Extensions {
		kind := extKind(e)
		p.Exts = append(p.Exts, kind)
		switch kind {
		case 0:
			p.HasTicket = true
		case 1:
			p.HasPSK = true
		case 2:
			p.HasEMS = true
		case 3:
			p.HasModes = true
		}
		switch x := e.(type) {
		case *tls.SupportedVersionsExtension:
			sawSV = true
			for _, v := range x.Versions {
				if isGrease16(v) {
					continue
				}
				if v == tls.VersionTLS13 {
					p.Max13 = true
				}
				if p.Min == 0 || v < p.Min {
					p.Min = v
				}
			}
		case *tls.SupportedCurvesExtension:
			for _, c := range x.Curves {
				if !isGrease16(uint16(c)) {
					p.Groups = append(p.Groups, uint16(c))
				}
			}
		case *tls.KeyShareExtension:
			for _, k := range x.KeyShares {
				if !isGrease16(uint16(k.Group)) {
					p.Shares = append(p.Shares, uint16(k.Group))
				}
			}
		}
	}
	if !sawSV && p.Min == 0 {
		p.Min = tls.VersionTLS10
		if spec.TLSVersMin != 0 {
			p.Min = spec.TLSVersMin
		}
		// without a supported_versions extension the hello offers its legacy version (TLS 1.2) and below only,
		// whatever TLSVersMax says (ApplyConfig, u_conn.go)
	}
}

// dropKinds removes the extensions of the given kinds from a spec
func dropKinds(spec *tls.ClientHelloSpec, drop []int) {
	var keep []tls.TLSExtension
	for _, e := range spec.Extensions {
		k := extKind(e)
		dropped := false
		for _, d := range drop {
			if d == k {
				dropped = true
			}
		}
		if !dropped {
			keep = append(keep, e)
		}
	}
	spec.Extensions = keep
}

// genericize replaces the typed extensions of the given kinds by a GenericExtension with the same id and body
func genericize(spec *tls.ClientHelloSpec, kinds []int) error {
	for i, e := range spec.Extensions {
		k := extKind(e)
		hit := false
		for _, g := range kinds {
			if g == k {
				hit = true
			}
		}
		if !hit {
			continue
		}
		if _, isGeneric := e.(*tls.GenericExtension); isGeneric {
			continue
		}
		if k == 0 {
			// an uninitialised session ticket extension has an empty body
			spec.Extensions[i] = &tls.GenericExtension{Id: 35}
			continue
		}
		b := make([]byte, e.Len())
		if n, err := e.Read(b); n != len(b) || (err != nil && err != io.EOF) {
			return fmt.Errorf("cannot marshal extension %T: %v", e, err)
		}
		if len(b) < 4 {
			return fmt.Errorf("extension %T too short", e)
		}
		spec.Extensions[i] = &tls.GenericExtension{Id: uint16(b[0])<<8 | uint16(b[1]), Data: append([]byte(nil), b[4:]...)}
	}
	return nil
}

// customGeneric: HelloCustom + ApplyPreset(UTLSIdToSpec(base) with some typed extensions given as GenericExtension)
func customGeneric(name string, base tls.ClientHelloID, kinds ...int) parrot {
	return customParrot(name, func() (*tls.ClientHelloSpec, error) {
		spec, err := tls.UTLSIdToSpec(base)
		if err != nil {
			return nil, err
		}
		if err := genericize(&spec, kinds); err != nil {
			return nil, err
		}
		return &spec, nil
	})
}

// customFingerprintedUnknown: the Fingerprinter (AllowBluntMimicry) applied to a ClientHello of base that also carries
// an extension id the library has no type for
func customFingerprintedUnknown(name string, base tls.ClientHelloID) parrot {
	return customParrot(name, func() (*tls.ClientHelloSpec, error) {
		spec, err := tls.UTLSIdToSpec(base)
		if err != nil {
			return nil, err
		}
		ext := append([]tls.TLSExtension{}, spec.Extensions[:1]...)
		ext = append(ext, &tls.GenericExtension{Id: 0xff7f, Data: []byte{1, 2, 3}})
		spec.Extensions = append(ext, spec.Extensions[1:]...)
		uc := tls.UClient(nopConn{}, &tls.Config{ServerName: "a.test", OmitEmptyPsk: true}, tls.HelloCustom)
		if err := uc.ApplyPreset(&spec); err != nil {
			return nil, err
		}
		if err := uc.BuildHandshakeState(); err != nil {
			return nil, err
		}
		raw := uc.HandshakeState.Hello.Raw
		rec := append([]byte{22, 3, 1, byte(len(raw) >> 8), byte(len(raw))}, raw...)
		return (&tls.Fingerprinter{AllowBluntMimicry: true}).FingerprintClientHello(rec)
	})
}

// customFromID: HelloCustom + ApplyPreset(UTLSIdToSpec(base) minus some extension kinds)
func customFromID(name string, base tls.ClientHelloID, drop ...int) parrot {
	mk := func() (*tls.ClientHelloSpec, error) {
		spec, err := tls.UTLSIdToSpec(base)
		if err != nil {
			return nil, err
		}
		dropKinds(&spec, drop)
		return &spec, nil
	}
	return customParrot(name, mk)
}

// customFingerprinted: HelloCustom + ApplyPreset(Fingerprinter(ClientHello built for base) minus some kinds)
func customFingerprinted(name string, base tls.ClientHelloID, drop ...int) parrot {
	mk := func() (*tls.ClientHelloSpec, error) {
		uc := tls.UClient(nopConn{}, &tls.Config{ServerName: "a.test", OmitEmptyPsk: true}, base)
		if err := uc.BuildHandshakeState(); err != nil {
			return nil, err
		}
		raw := uc.HandshakeState.Hello.Raw
		rec := append([]byte{22, 3, 1, byte(len(raw) >> 8), byte(len(raw))}, raw...)
		spec, err := (&tls.Fingerprinter{AllowBluntMimicry: true}).FingerprintClientHello(rec)
		if err != nil {
			return nil, err
		}
		dropKinds(spec, drop)
		return spec, nil
	}
	return customParrot(name, mk)
}

func customParrot(name string, mk func() (*tls.ClientHelloSpec, error)) parrot {
	p := parrot{Name: name, ID: tls.HelloCustom, Custom: true, MakeSpec: mk}
	spec, err := mk()
	if err != nil {
		p.SpecErr = err.Error()
		return p
	}
	p.fromSpec(spec)
	return p
}

type nopConn struct{ net.Conn }

func (nopConn) Write(b []byte) (int, error)      { return len(b), nil }
func (nopConn) Read(b []byte) (int, error)       { return 0, io.EOF }
func (nopConn) Close() error                     { return nil }
func (nopConn) SetDeadline(time.Time) error      { return nil }
func (nopConn) SetReadDeadline(time.Time) error  { return nil }
func (nopConn) SetWriteDeadline(time.Time) error { return nil }
func (nopConn) LocalAddr() net.Addr              { return &net.TCPAddr{} }
func (nopConn) RemoteAddr() net.Addr             { return &net.TCPAddr{} }

// ---------- servers ----------

// server kinds
const (
	srv12    = iota // TLS 1.2 only
	srv13           // TLS 1.3 only
	srv13hrr        // TLS 1.3 only, CurvePreferences forcing a HelloRetryRequest for x25519/P-256 key shares
	srvBoth         // TLS 1.2 and 1.3
	nSrvKinds
)

var srvKindName = []string{"tls12", "tls13", "tls13hrr", "tls12+13"}

type srvResult struct {
	err      string
	resumed  bool
	vers     uint16
	suite    uint16
	inbound  []byte
	hellos   []*parsedHello
	parseErr string
}

type recConn struct {
	net.Conn
	mu  sync.Mutex
	buf []byte
}

func (r *recConn) Read(b []byte) (int, error) {
	n, err := r.Conn.Read(b)
	r.mu.Lock()
	if len(r.buf) < 1<<16 {
		r.buf = append(r.buf, b[:n]...)
	}
	r.mu.Unlock()
	return n, err
}

type server struct {
	kind int
	ln   net.Listener
	cfg  *tls.Config
	mu   sync.Mutex
	res  map[string]chan srvResult
	wg   sync.WaitGroup
}

type clock struct {
	mu   sync.Mutex
	base time.Time
	off  time.Duration
}

func (c *clock) now() time.Time {
	c.mu.Lock()
	defer c.mu.Unlock()
	return c.base.Add(c.off)
}
func (c *clock) advance(d time.Duration) { c.mu.Lock(); c.off += d; c.mu.Unlock() }

type pki struct {
	cert     tls.Certificate
	pool     *x509.CertPool
	notAfter time.Time
}

// Config.ServerName shapes: DNS names, a name with a trailing dot, IPv4/IPv6 literals, and none at all (the cache key
// is then the remote address; only possible with InsecureSkipVerify). Model id of a name = index+1, of "" = 0.
var serverNames = []string{"a.test", "b.test", "a.test.", "127.0.0.1", "127.0.0.2", "::1", ""}

const nameEmpty = 6

func nameID(i int) int {
	if serverNames[i] == "" {
		return 0
	}
	return i + 1
}

// model id of a listener address (RemoteAddr of the client's connection)
func addrID(kind int) int { return 10 + kind }

func newPKI() *pki {
	// own CA and leaf, valid for 40 days: histories move the clock by days
	nb, na := time.Now().Add(-time.Hour), time.Now().Add(40*24*time.Hour)
	caKey, _ := ecdsa.GenerateKey(elliptic.P256(), rand.Reader)
	caT := &x509.Certificate{SerialNumber: big.NewInt(1), Subject: pkix.Name{CommonName: "verif c19 CA"},
		NotBefore: nb, NotAfter: na, IsCA: true,
		KeyUsage: x509.KeyUsageCertSign | x509.KeyUsageDigitalSignature, BasicConstraintsValid: true}
	caDER, _ := x509.CreateCertificate(rand.Reader, caT, caT, &caKey.PublicKey, caKey)
	ca, _ := x509.ParseCertificate(caDER)
	k, _ := ecdsa.GenerateKey(elliptic.P256(), rand.Reader)
	t := &x509.Certificate{SerialNumber: big.NewInt(2), Subject: pkix.Name{CommonName: serverNames[0]},
		NotBefore: nb, NotAfter: na, DNSNames: []string{"a.test", "b.test"},
		IPAddresses: []net.IP{net.ParseIP("127.0.0.1"), net.ParseIP("127.0.0.2"), net.ParseIP("::1")}, KeyUsage: x509.KeyUsageDigitalSignature,
		ExtKeyUsage: []x509.ExtKeyUsage{x509.ExtKeyUsageServerAuth}}
	der, _ := x509.CreateCertificate(rand.Reader, t, ca, &k.PublicKey, caKey)
	pool := x509.NewCertPool()
	pool.AddCert(ca)
	leaf, _ := x509.ParseCertificate(der)
	return &pki{cert: tls.Certificate{Certificate: [][]byte{der}, PrivateKey: k}, pool: pool, notAfter: leaf.NotAfter}
}

func newServer(kind int, pk *pki, clk *clock, ticketKey [32]byte) (*server, error) {
	cfg := &tls.Config{Certificates: []tls.Certificate{pk.cert}, Time: clk.now}
	switch kind {
	case srv12:
		cfg.MinVersion, cfg.MaxVersion = tls.VersionTLS12, tls.VersionTLS12
	case srv13:
		cfg.MinVersion, cfg.MaxVersion = tls.VersionTLS13, tls.VersionTLS13
	case srv13hrr:
		cfg.MinVersion, cfg.MaxVersion = tls.VersionTLS13, tls.VersionTLS13
		cfg.CurvePreferences = []tls.CurveID{tls.CurveP384}
	case srvBoth:
		cfg.MinVersion, cfg.MaxVersion = tls.VersionTLS12, tls.VersionTLS13
	}
	cfg.SetSessionTicketKeys([][32]byte{ticketKey})
	ln, err := net.Listen("tcp", "127.0.0.1:0")
	if err != nil {
		return nil, err
	}
	s := &server{kind: kind, ln: ln, cfg: cfg, res: map[string]chan srvResult{}}
	go s.serve()
	return s, nil
}

func (s *server) resultChan(addr string) chan srvResult {
	s.mu.Lock()
	defer s.mu.Unlock()
	ch, ok := s.res[addr]
	if !ok {
		ch = make(chan srvResult, 1)
		s.res[addr] = ch
	}
	return ch
}

func (s *server) serve() {
	for {
		conn, err := s.ln.Accept()
		if err != nil {
			return
		}
		s.wg.Add(1)
		go func() {
			defer s.wg.Done()
			defer conn.Close()
			conn.SetDeadline(time.Now().Add(10 * time.Second))
			rc := &recConn{Conn: conn}
			sc := tls.Server(rc, s.cfg)
			var r srvResult
			if err := sc.Handshake(); err != nil {
				r.err = err.Error()
			} else {
				st := sc.ConnectionState()
				r.resumed, r.vers, r.suite = st.DidResume, st.Version, st.CipherSuite
				// one byte of application data: by the time the client has read it, it has
				// processed the NewSessionTicket messages that precede it
				sc.Write([]byte{0x42})
				b := make([]byte, 1)
				sc.Read(b) // wait for the client's close
			}
			rc.mu.Lock()
			r.inbound = append([]byte(nil), rc.buf...)
			rc.mu.Unlock()
			for _, m := range helloMessages(r.inbound) {
				ph, err := parseHello(m)
				if err != nil {
					r.parseErr = err.Error()
					break
				}
				r.hellos = append(r.hellos, ph)
			}
			s.resultChan(conn.RemoteAddr().String()) <- r
		}()
	}
}

func (s *server) close() { s.ln.Close(); s.wg.Wait() }

// ---------- recording session cache ----------

type cacheEvent struct {
	Put  bool
	Key  string
	Nil  bool // Put(key, nil) / Get miss
	Info tls.VerifC19Session
}

type recCache struct {
	inner tls.ClientSessionCache
	mu    sync.Mutex
	ev    []cacheEvent
}

func (c *recCache) Get(k string) (*tls.ClientSessionState, bool) {
	cs, ok := c.inner.Get(k)
	c.mu.Lock()
	c.ev = append(c.ev, cacheEvent{Put: false, Key: k, Nil: !ok || cs == nil})
	c.mu.Unlock()
	return cs, ok
}
func (c *recCache) Put(k string, cs *tls.ClientSessionState) {
	c.inner.Put(k, cs)
	c.mu.Lock()
	info, _ := tls.VerifC19SessionInfo(cs)
	c.ev = append(c.ev, cacheEvent{Put: true, Key: k, Nil: cs == nil, Info: info})
	c.mu.Unlock()
}
func (c *recCache) take() []cacheEvent {
	c.mu.Lock()
	defer c.mu.Unlock()
	e := c.ev
	c.ev = nil
	return e
}

// ---------- binder-patch observer ----------

// lenPSK wraps the spec's own PSK extension through the public SetPskExtension
// path and records the marshalled hello length around PatchBuiltHello.
type lenPSK struct {
	*tls.UtlsPreSharedKeyExtension
	pre, post int
	called    bool
	patched   bool // some byte of the hello changed
}

func (l *lenPSK) PatchBuiltHello(h *tls.PubClientHelloMsg) error {
	l.called = true
	l.pre = len(h.Raw)
	before := append([]byte(nil), h.Raw...)
	err := l.UtlsPreSharedKeyExtension.PatchBuiltHello(h)
	l.post = len(h.Raw)
	l.patched = string(before) != string(h.Raw)
	return err
}

// ---------- one connection ----------

type connPlan struct {
	P          *parrot
	Name       int // index into serverNames
	Srv        int // server kind
	Advance    time.Duration
	OmitEmpty  bool
	SkipVerify bool
	WrapPSK    bool // observe PatchBuiltHello through lenPSK
	// Prep: what the caller does before Handshake (which builds the hello again): 0 nothing; 1 BuildHandshakeState;
	// 2 BuildHandshakeState + SetClientRandom; 3 BuildHandshakeState + an ALPN value edited in place (same length)
	Prep int
	// Rotate: before this connection the servers replace their session ticket key (the old one is forgotten)
	Rotate bool
	// Tamper: before this connection the test corrupts the secret of the session cached under the connection's key
	// (a cache entry the server will not accept any more): the resumption attempt must fail cleanly, the entry must be
	// evicted, and the connection after it must complete with a full handshake
	Tamper bool
	// VName: Config.InsecureServerNameToVerify — 0 unset, 1 "*" (verify the chain, no host name), 2 another name the
	// leaf covers, 3 a name it does not cover. SkipTime: Config.InsecureSkipTimeVerify.
	VName    int
	SkipTime bool
}

var vnameStr = []string{"", "*", "b.test", "other.invalid"}
var vnameID = []int{0, 999999, 2, 77}

type connObs struct {
	Plan           connPlan
	CliErr         string
	CliPanic       string
	CliResumed     bool
	CliVers        uint16
	CliSuite       uint16
	CliHRR         bool // the server saw two ClientHellos
	CliHRRSeen     bool // the client received a HelloRetryRequest
	Srv            srvResult
	SrvSeen        bool
	Events         []cacheEvent
	After          map[int]tls.VerifC19Session // cache content after the connection, by model key id (names and listener addresses)
	Identity       string                      // what the property calls the server name: Config.ServerName, or "@"+remote address without one
	Epoch          int                         // ticket key epoch of the servers during this connection
	Tampered       bool                        // a cached session was actually corrupted before this connection
	TamperedTicket []byte                      // its ticket
	BadOffered     bool                        // this connection offered a session the test had corrupted (set by the evaluation)
	Now            uint64
	LenPre         int
	LenPost        int
	LenSeen        bool
}

type world struct {
	seed  int64
	epoch int
	pk    *pki
	clk   *clock
	srvs  [nSrvKinds]*server
	cache *recCache
}

func newWorld(pk *pki, seed int64) (*world, error) {
	w := &world{pk: pk, clk: &clock{base: time.Now().Truncate(time.Second)}}
	var key [32]byte
	r := vh.NewRand(seed)
	r.Read(key[:])
	for k := 0; k < nSrvKinds; k++ {
		s, err := newServer(k, pk, w.clk, key)
		if err != nil {
			return nil, err
		}
		w.srvs[k] = s
	}
	w.cache = &recCache{inner: tls.NewLRUClientSessionCache(32)}
	w.seed = seed
	return w, nil
}

// tamper flips one byte of the secret of the session cached under key (through the exported session API)
func (w *world) tamper(key string) []byte {
	cs, ok := w.cache.inner.Get(key)
	if !ok || cs == nil {
		return nil
	}
	ticket, st, err := cs.ResumptionState()
	if err != nil || st == nil {
		return nil
	}
	b, err := st.Bytes()
	// SessionState: version(2) type(1) cipher_suite(2) created_at(8) secret<1..2^8-1> ...
	if err != nil || len(b) < 15 || int(b[13]) < 1 {
		return nil
	}
	b[14] ^= 0xff
	st2, err := tls.ParseSessionState(b)
	if err != nil {
		return nil
	}
	cs2, err := tls.NewResumptionState(ticket, st2)
	if err != nil {
		return nil
	}
	w.cache.inner.Put(key, cs2)
	return ticket
}

// rotate: every server of the world forgets its ticket key and gets a new one
func (w *world) rotate() {
	w.epoch++
	var key [32]byte
	vh.NewRand(w.seed + int64(w.epoch)*7919).Read(key[:])
	for _, s := range w.srvs {
		s.cfg.SetSessionTicketKeys([][32]byte{key})
	}
}

// keys: every string the cache could be keyed by in this world, by model id
func (w *world) keys() map[int]string {
	m := map[int]string{}
	for i, n := range serverNames {
		if n != "" {
			m[nameID(i)] = n
		}
	}
	for k, s := range w.srvs {
		m[addrID(k)] = s.ln.Addr().String()
	}
	return m
}

func (w *world) close() {
	for _, s := range w.srvs {
		if s != nil {
			s.close()
		}
	}
}

func (w *world) connect(pl connPlan) (o connObs) {
	o.Plan = pl
	w.clk.advance(pl.Advance)
	if pl.Rotate {
		w.rotate()
	}
	if pl.Tamper {
		key := serverNames[pl.Name]
		if key == "" {
			key = w.srvs[pl.Srv].ln.Addr().String()
		}
		o.TamperedTicket = w.tamper(key)
		o.Tampered = o.TamperedTicket != nil
	}
	o.Epoch = w.epoch
	o.Now = uint64(w.clk.now().Unix())
	s := w.srvs[pl.Srv]
	tc, err := net.Dial("tcp", s.ln.Addr().String())
	if err != nil {
		o.CliErr = "dial: " + err.Error()
		return
	}
	defer tc.Close()
	tc.SetDeadline(time.Now().Add(10 * time.Second))
	crc := &recConn{Conn: tc}
	o.Identity = serverNames[pl.Name]
	if o.Identity == "" {
		o.Identity = "@" + s.ln.Addr().String()
		if pl.VName == 0 {
			pl.SkipVerify = true // a hello with neither ServerName nor InsecureServerNameToVerify is refused unless verification is off
		}
		o.Plan = pl
	}
	cfg := &tls.Config{ServerName: serverNames[pl.Name], RootCAs: w.pk.pool, ClientSessionCache: w.cache,
		Time: w.clk.now, OmitEmptyPsk: pl.OmitEmpty, InsecureSkipVerify: pl.SkipVerify,
		InsecureServerNameToVerify: vnameStr[pl.VName], InsecureSkipTimeVerify: pl.SkipTime}
	id := pl.P.ID
	if id.Seed != nil { // fresh copy: the library writes Weights into the id
		sd := *id.Seed
		id.Seed = &sd
	}
	var uc *tls.UConn
	var lp *lenPSK
	panicked, pv := vh.Recover(func() {
		if pl.P.Custom {
			// no preset of its own: the spec is applied by the caller. Without the option a spec that lacks a session
			// extension panics by design when a session is found (documented "exception").
			cfg.PreferSkipResumptionOnNilExtension = true
			uc = tls.UClient(crc, cfg, tls.HelloCustom)
			spec, err := pl.P.MakeSpec()
			if err != nil {
				o.CliErr = "spec: " + err.Error()
				return
			}
			if err := uc.ApplyPreset(spec); err != nil {
				o.CliErr = "ApplyPreset: " + err.Error()
				return
			}
		} else {
			uc = tls.UClient(crc, cfg, id)
		}
		if pl.WrapPSK && pl.P.HasPSK && !pl.P.Golang && !pl.P.Custom {
			lp = &lenPSK{UtlsPreSharedKeyExtension: &tls.UtlsPreSharedKeyExtension{}}
			if err := uc.SetPskExtension(lp); err != nil {
				o.CliErr = "SetPskExtension: " + err.Error()
				return
			}
		}
		if pl.Prep > 0 {
			// the documented multi-step use: build, look at / change the hello (anything but the session extensions),
			// then Handshake, which builds again
			if err := uc.BuildHandshakeState(); err != nil {
				o.CliErr = err.Error()
				return
			}
			switch pl.Prep {
			case 2:
				r := make([]byte, 32)
				for i := range r {
					r[i] = byte(0xA5 ^ i*13 ^ pl.Name)
				}
				if err := uc.SetClientRandom(r); err != nil {
					o.CliErr = "SetClientRandom: " + err.Error()
					return
				}
			case 3:
				for _, e := range uc.Extensions {
					if a, ok := e.(*tls.ALPNExtension); ok && len(a.AlpnProtocols) > 0 {
						ps := append([]string(nil), a.AlpnProtocols...)
						last := []byte(ps[len(ps)-1])
						last[len(last)-1] ^= 1
						ps[len(ps)-1] = string(last)
						a.AlpnProtocols = ps
					}
				}
			}
		}
		if err := uc.Handshake(); err != nil {
			o.CliErr = err.Error()
			return
		}
		b := make([]byte, 1)
		if _, err := io.ReadFull(uc, b); err != nil {
			o.CliErr = "read: " + err.Error()
			return
		}
		st := uc.ConnectionState()
		o.CliResumed, o.CliVers, o.CliSuite = st.DidResume, st.Version, st.CipherSuite
	})
	if panicked {
		o.CliPanic = fmt.Sprint(pv)
	}
	if uc != nil {
		uc.Close()
	}
	tc.Close()
	if lp != nil && lp.called {
		o.LenSeen, o.LenPre, o.LenPost = true, lp.pre, lp.post
	}
	select {
	case o.Srv = <-s.resultChan(tc.LocalAddr().String()):
		o.SrvSeen = true
	case <-time.After(12 * time.Second):
	}
	o.CliHRR = len(o.Srv.hellos) > 1
	crc.mu.Lock()
	o.CliHRRSeen = isHRR(crc.buf)
	crc.mu.Unlock()
	o.Events = w.cache.take()
	o.After = map[int]tls.VerifC19Session{}
	for id, k := range w.keys() {
		if cs, ok := w.cache.inner.Get(k); ok {
			if info, ok := tls.VerifC19SessionInfo(cs); ok {
				o.After[id] = info
			}
		}
	}
	return
}

var hrrRandom = []byte{0xCF, 0x21, 0xAD, 0x74, 0xE5, 0x9A, 0x61, 0x11, 0xBE, 0x1D, 0x8C, 0x02, 0x1E, 0x65, 0xB8, 0x91,
	0xC2, 0xA2, 0x11, 0x16, 0x7A, 0xBB, 0x8C, 0x5E, 0x07, 0x9E, 0x09, 0xE2, 0xC8, 0xA8, 0x33, 0x9C}

// isHRR: the first record the server sent is a ServerHello carrying the HelloRetryRequest random (RFC 8446 4.1.3)
func isHRR(in []byte) bool {
	if len(in) < 5+4+2+32 || in[0] != 22 || in[5] != 2 {
		return false
	}
	return string(in[11:43]) == string(hrrRandom)
}
